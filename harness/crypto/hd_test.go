package crypto

import (
	"bytes"
	"encoding/hex"
	"fmt"
	"math/big"
	"strings"

	"github.com/btcsuite/btcd/btcutil/base58"
	cosmoshd "github.com/cosmos/cosmos-sdk/crypto/hd"
	cosmosbip39 "github.com/cosmos/go-bip39"
	"github.com/ethereum/go-ethereum/accounts"
	"github.com/stretchr/testify/require"
	"golang.org/x/text/unicode/norm"

	"github.com/EscanBE/evermint/v12/crypto/ethsecp256k1"
	evhd "github.com/EscanBE/evermint/v12/crypto/hd"

	. "verifharness/hx"
)

type bigInt = big.Int

func bigFromUint(u uint64) *big.Int { return new(big.Int).SetUint64(u) }

// ---------------------------------------------------------------- path parsing (go-ethereum accounts.ParseDerivationPath, used by Derive)

func (d *drv) pathCase(s string, tag string) {
	dp, err := accounts.ParseDerivationPath(s)
	obs := "None"
	if err == nil {
		obs = "(Some " + cqNList(dp) + ")"
	}
	ascii := true
	for _, c := range []byte(s) {
		if c >= 0x80 {
			ascii = false
		}
	}
	canonical := err == nil && accounts.DerivationPath(dp).String() == s
	d.add(fmt.Sprintf("(CPath %s %s)", cqBytes([]byte(s)), obs), "path/"+s, err == nil && !canonical,
		map[string]interface{}{"kind": "path", "path": s, "ok": err == nil, "indices": []uint32(dp)})
	d.side.Count(fmt.Sprintf("path:%s:ok=%v", tag, err == nil))
	_ = ascii
	if err == nil {
		// oracle: a parsed path prints canonically and re-parses to itself; hardened bit/offset arithmetic
		pr := accounts.DerivationPath(dp).String()
		dp2, err2 := accounts.ParseDerivationPath(pr)
		if err2 != nil || fmt.Sprint(dp2) != fmt.Sprint(dp) {
			d.side.Hit("C19/crypto/path/print-parse-roundtrip", "printed derivation path does not re-parse to itself", map[string]interface{}{"path": s, "printed": pr})
		}
		d.add(fmt.Sprintf("(CPathStr %s %s)", cqNList(dp), cqBytes([]byte(pr))), "pathstr/"+pr, true, nil)
	}
}

func (d *drv) runPaths(r *Rng, n int) {
	fixed := []string{"m/44'/60'/0'/0/0", "0", "m", "", "/", "m/", "m/0x2c'/0b11/0o7/010/1_0", " m / 44 ' / 1", "m/+5/-0", "m/4294967295", "m/4294967296",
		"m/2147483648'", "m/2147483647'", "m/-1", "m/0x", "m/1_", "m/0x_1", "m/_1", "m/1__0", "m/0_1", "m/08", "m/1'/", "m/'", "m/''", "m/1''", "M/1", "m/1\t'",
		"m/0X1F", "m/0B1", "m/1e3", "m/ 1 2", "m/00", "m/0_", "m/0x1_f", "m/0b2", "m/0o8", "m/0xg", "m/+", "m/-", "m/+-1", "m/1/+0x10'", "1/2'", "m/m", "mm/1", "m//1",
		"m/1//2", "44'/60'", "m/0'/0'/0'/0'/0'/0'/0'/0'/0'/0'", "m/\n1\r", "m/1\v\f", "m/9999999999999999999999999999", "m/-9999999999999999999999", "m/0x100000000",
		"m/0xffffffff", "m/0x7fffffff'", "m/0x80000000'", "m/017777777777'", "m/0b1111111111111111111111111111111'", "m/1 '", "m/1' ", "m/ ' 1", "m/1'2", "m/a", "m/A", "m/0xA_b",
		"m/0_x1", "m/0__1", "m/0x__1", "m/1_000", "m/0z", "m/0Z1", "m /1", "m\t/1", " 5", "0x10'", "'"}
	for _, s := range fixed {
		d.pathCase(s, "fixed")
	}
	alphabet := []string{"0", "1", "7", "8", "9", "4", "x", "X", "b", "o", "_", "'", "/", " ", "+", "-", "m", "a", "f", "F", "\t", "2147483647", "2147483648", "4294967295", "4294967296", "44", "60"}
	for i := 0; i < n*4; i++ {
		rr := r.Fork(uint64(i))
		var sb strings.Builder
		switch i % 4 {
		case 0, 1: // structured valid-ish
			if rr.Chance(75) {
				sb.WriteString("m")
			} else {
				sb.WriteString(fmt.Sprint(rr.Intn(100)))
			}
			k := 1 + rr.Intn(6)
			for j := 0; j < k; j++ {
				sb.WriteString("/")
				if rr.Chance(10) {
					sb.WriteString(" ")
				}
				var v uint64
				switch rr.Intn(6) {
				case 0:
					v = uint64(rr.Intn(100))
				case 1:
					v = 0x7fffffff - uint64(rr.Intn(2))
				case 2:
					v = 0x80000000 + uint64(rr.Intn(2))
				case 3:
					v = 0xffffffff - uint64(rr.Intn(2)) + uint64(rr.Intn(3))
				default:
					v = rr.U64() >> uint(32+rr.Intn(32))
				}
				switch rr.Intn(8) {
				case 0:
					sb.WriteString(fmt.Sprintf("0x%x", v))
				case 1:
					sb.WriteString(fmt.Sprintf("0%o", v))
				case 2:
					sb.WriteString(fmt.Sprintf("0b%b", v))
				case 3:
					sb.WriteString(fmt.Sprintf("+%d", v))
				default:
					sb.WriteString(fmt.Sprint(v))
				}
				if rr.Chance(45) {
					if rr.Chance(10) {
						sb.WriteString(" ")
					}
					sb.WriteString("'")
				}
			}
			d.pathCase(sb.String(), "structured")
		default: // token soup
			k := 1 + rr.Intn(8)
			if rr.Chance(60) {
				sb.WriteString("m/")
			}
			for j := 0; j < k; j++ {
				sb.WriteString(alphabet[rr.Intn(len(alphabet))])
			}
			d.pathCase(sb.String(), "soup")
		}
	}
}

// ---------------------------------------------------------------- HD derivation

type bip32Vector struct {
	seedHex string
	path    []uint32
	xprv    string
}

const hk = 0x80000000

// Published BIP-32 test vectors 1-3 (bip-0032.mediawiki; vector 3 = "retention of leading zeros").
var bip32Vectors = []bip32Vector{
	{"000102030405060708090a0b0c0d0e0f", []uint32{}, "xprv9s21ZrQH143K3QTDL4LXw2F7HEK3wJUD2nW2nRk4stbPy6cq3jPPqjiChkVvvNKmPGJxWUtg6LnF5kejMRNNU3TGtRBeJgk33yuGBxrMPHi"},
	{"000102030405060708090a0b0c0d0e0f", []uint32{hk}, "xprv9uHRZZhk6KAJC1avXpDAp4MDc3sQKNxDiPvvkX8Br5ngLNv1TxvUxt4cV1rGL5hj6KCesnDYUhd7oWgT11eZG7XnxHrnYeSvkzY7d2bhkJ7"},
	{"000102030405060708090a0b0c0d0e0f", []uint32{hk, 1}, "xprv9wTYmMFdV23N2TdNG573QoEsfRrWKQgWeibmLntzniatZvR9BmLnvSxqu53Kw1UmYPxLgboyZQaXwTCg8MSY3H2EU4pWcQDnRnrVA1xe8fs"},
	{"000102030405060708090a0b0c0d0e0f", []uint32{hk, 1, hk + 2}, "xprv9z4pot5VBttmtdRTWfWQmoH1taj2axGVzFqSb8C9xaxKymcFzXBDptWmT7FwuEzG3ryjH4ktypQSAewRiNMjANTtpgP4mLTj34bhnZX7UiM"},
	{"000102030405060708090a0b0c0d0e0f", []uint32{hk, 1, hk + 2, 2}, "xprvA2JDeKCSNNZky6uBCviVfJSKyQ1mDYahRjijr5idH2WwLsEd4Hsb2Tyh8RfQMuPh7f7RtyzTtdrbdqqsunu5Mm3wDvUAKRHSC34sJ7in334"},
	{"000102030405060708090a0b0c0d0e0f", []uint32{hk, 1, hk + 2, 2, 1000000000}, "xprvA41z7zogVVwxVSgdKUHDy1SKmdb533PjDz7J6N6mV6uS3ze1ai8FHa8kmHScGpWmj4WggLyQjgPie1rFSruoUihUZREPSL39UNdE3BBDu76"},
	{"fffcf9f6f3f0edeae7e4e1dedbd8d5d2cfccc9c6c3c0bdbab7b4b1aeaba8a5a29f9c999693908d8a8784817e7b7875726f6c696663605d5a5754514e4b484542", []uint32{}, "xprv9s21ZrQH143K31xYSDQpPDxsXRTUcvj2iNHm5NUtrGiGG5e2DtALGdso3pGz6ssrdK4PFmM8NSpSBHNqPqm55Qn3LqFtT2emdEXVYsCzC2U"},
	{"fffcf9f6f3f0edeae7e4e1dedbd8d5d2cfccc9c6c3c0bdbab7b4b1aeaba8a5a29f9c999693908d8a8784817e7b7875726f6c696663605d5a5754514e4b484542", []uint32{0}, "xprv9vHkqa6EV4sPZHYqZznhT2NPtPCjKuDKGY38FBWLvgaDx45zo9WQRUT3dKYnjwih2yJD9mkrocEZXo1ex8G81dwSM1fwqWpWkeS3v86pgKt"},
	{"fffcf9f6f3f0edeae7e4e1dedbd8d5d2cfccc9c6c3c0bdbab7b4b1aeaba8a5a29f9c999693908d8a8784817e7b7875726f6c696663605d5a5754514e4b484542", []uint32{0, hk + 2147483647}, "xprv9wSp6B7kry3Vj9m1zSnLvN3xH8RdsPP1Mh7fAaR7aRLcQMKTR2vidYEeEg2mUCTAwCd6vnxVrcjfy2kRgVsFawNzmjuHc2YmYRmagcEPdU9"},
	{"fffcf9f6f3f0edeae7e4e1dedbd8d5d2cfccc9c6c3c0bdbab7b4b1aeaba8a5a29f9c999693908d8a8784817e7b7875726f6c696663605d5a5754514e4b484542", []uint32{0, hk + 2147483647, 1}, "xprv9zFnWC6h2cLgpmSA46vutJzBcfJ8yaJGg8cX1e5StJh45BBciYTRXSd25UEPVuesF9yog62tGAQtHjXajPPdbRCHuWS6T8XA2ECKADdw4Ef"},
	{"fffcf9f6f3f0edeae7e4e1dedbd8d5d2cfccc9c6c3c0bdbab7b4b1aeaba8a5a29f9c999693908d8a8784817e7b7875726f6c696663605d5a5754514e4b484542", []uint32{0, hk + 2147483647, 1, hk + 2147483646}, "xprvA1RpRA33e1JQ7ifknakTFpgNXPmW2YvmhqLQYMmrj4xJXXWYpDPS3xz7iAxn8L39njGVyuoseXzU6rcxFLJ8HFsTjSyQbLYnMpCqE2VbFWc"},
	{"fffcf9f6f3f0edeae7e4e1dedbd8d5d2cfccc9c6c3c0bdbab7b4b1aeaba8a5a29f9c999693908d8a8784817e7b7875726f6c696663605d5a5754514e4b484542", []uint32{0, hk + 2147483647, 1, hk + 2147483646, 2}, "xprvA2nrNbFZABcdryreWet9Ea4LvTJcGsqrMzxHx98MMrotbir7yrKCEXw7nadnHM8Dq38EGfSh6dqA9QWTyefMLEcBYJUuekgW4BYPJcr9E7j"},
	{"4b381541583be4423346c643850da4b320e46a87ae3d2a4e6da11eba819cd4acba45d239319ac14f863b8d5ab5a0d0c64d2e8a1e7d1457df2e5a3c51c73235be", []uint32{}, "xprv9s21ZrQH143K25QhxbucbDDuQ4naNntJRi4KUfWT7xo4EKsHt2QJDu7KXp1A3u7Bi1j8ph3EGsZ9Xvz9dGuVrtHHs7pXeTzjuxBrCmmhgC6"},
	{"4b381541583be4423346c643850da4b320e46a87ae3d2a4e6da11eba819cd4acba45d239319ac14f863b8d5ab5a0d0c64d2e8a1e7d1457df2e5a3c51c73235be", []uint32{hk}, "xprv9uPDJpEQgRQfDcW7BkF7eTya6RPxXeJCqCJGHuCJ4GiRVLzkTXBAJMu2qaMWPrS7AANYqdq6vcBcBUdJCVVFceUvJFjaPdGZ2y9WACViL4L"},
}

type mnemonicVector struct {
	mnemonic, pass, path, privHex, addrHex string
}

// Well-known wallet vectors: the Hardhat/Anvil/Foundry default mnemonic (MetaMask-compatible m/44'/60'/0'/0/i).
var mnemonicVectors = []mnemonicVector{
	{"test test test test test test test test test test test junk", "", "m/44'/60'/0'/0/0", "ac0974bec39a17e36ba4a6b4d238ff944bacb478cbed5efcae784d7bf4f2ff80", "f39fd6e51aad88f6f4ce6ab8827279cfffb92266"},
	{"test test test test test test test test test test test junk", "", "m/44'/60'/0'/0/1", "59c6995e998f97a5a0044966f0945389dc9e86dae88c7a8412f4603b6b78690d", "70997970c51812dc3a010c7d01b50e0d17dc79c8"},
	{"test test test test test test test test test test test junk", "", "m/44'/60'/0'/0/2", "5de4111afa1a4b94908f83103eb1f1706367c2e68ca870fc3fb9a804cdab365a", "3c44cdddb6a900fa2b585dd299e03d12fa4293bc"},
}

// BIP-39 reference vectors (trezor/python-mnemonic vectors.json, passphrase "TREZOR"): mnemonic -> seed.
var bip39Vectors = []struct{ mnemonic, seedHex string }{
	{"abandon abandon abandon abandon abandon abandon abandon abandon abandon abandon abandon about",
		"c55257c360c07c72029aebc1b53c05ed0362ada38ead3e3e9efa3708e53495531f09a6987599d18264c1e1c92f2cf141630c7a3c4ab7c81b2f001698e7463b04"},
	{"legal winner thank year wave sausage worth useful legal winner thank yellow",
		"2e8905819b8723fe2c1d161860e5ee1830318dbf49a83bd451cfb8440c28bd6fa457fe1296106559a3c80937a1c1069be3a3a5bd381ee6260e8d9739fce1f607"},
	{"zoo zoo zoo zoo zoo zoo zoo zoo zoo zoo zoo wrong",
		"ac27495480225222079d7be181583751e86f571027b0497b5b5d11218e0a8a13332572917f0f8e5a589620c6f15b11c61dee327651a14c34e18231052e48c069"},
}

func decodeXprv(s string) (key, chain []byte, ok bool) {
	raw := base58.Decode(s)
	if len(raw) != 82 {
		return nil, nil, false
	}
	return raw[46:78], raw[13:45], true
}

func fmtPath(p []uint32) string { return accounts.DerivationPath(p).String() }

// deriveCase runs /repo's Derive and the independent implementations on (mnemonic, passphrase, path).
func (d *drv) deriveCase(mnemonic, pass string, path []uint32, pathStr string, tag string) {
	derive := evhd.EthSecp256k1.Derive()
	got, err := derive(mnemonic, pass, pathStr)
	c := map[string]interface{}{"kind": "derive", "mnemonic": mnemonic, "passphrase": pass, "path": pathStr, "tag": tag}
	validMnemonic := bip39Valid(mnemonic)
	if !validMnemonic {
		if err == nil {
			d.side.Hit("C19/crypto/hd/invalid-mnemonic-accepted", "Derive accepted a mnemonic that fails the BIP-39 checksum/wordlist", c)
		}
		d.side.Count("derive:invalid-mnemonic")
		return
	}
	seed := bip39Seed(mnemonic, pass)
	want, inter, werr := bip32Derive(seed, path)
	// model case: seed + path + table of compressed public keys for every intermediate private key
	var ptbl []string
	lead0 := false
	for j, k := range inter {
		ptbl = append(ptbl, fmt.Sprintf("(%s, %s)", cqBytes(k), cqBytes(ecCompress(pubOfPriv(k)))))
		if k[0] == 0 && j < len(path) && path[j] >= hk {
			lead0 = true
		}
	}
	obs := cqOptBytes(got, err == nil)
	mixed := false
	for j := 1; j < len(path); j++ {
		if (path[j] >= hk) != (path[j-1] >= hk) {
			mixed = true
		}
	}
	{
		d.add(fmt.Sprintf("(CDerive %s %s %s %s)", cqBytes(seed), cqNList(path), CqList(ptbl), obs), "derive/"+hx(keccak(seed))+"/"+pathStr, mixed || lead0, c)
	}
	d.side.Count(fmt.Sprintf("derive:%s:ok=%v:lead0=%v", tag, err == nil, lead0))
	if lead0 {
		d.side.Count("derive:hardened-child-of-key-with-leading-zero-byte")
	}
	if werr != nil {
		if err == nil {
			d.side.Hit("C19/crypto/hd/invalid-child-accepted", "BIP-32 says the child is invalid but Derive returned a key", c)
		}
		return
	}
	if err != nil {
		if len(path) > 255 {
			return // depth limit of the serialisation format: not a BIP-32 divergence
		}
		d.side.Hit("C19/crypto/hd/derive-failed", "Derive failed on a valid mnemonic and path: "+err.Error(), c)
		return
	}
	c["key"] = hx(got)
	if !bytes.Equal(got, want) {
		c["want"] = hx(want)
		d.side.Hit("C19/crypto/hd/derive-differs-from-bip32", "Derive differs from the independent BIP-39/BIP-32 implementation", c)
	}
	// second independent implementation: cosmos-sdk (its own path parser accepts decimal components only)
	if len(path) > 0 {
		secret, chain := cosmoshd.ComputeMastersFromSeed(seed)
		ck, cerr := cosmoshd.DerivePrivateKeyForPath(secret, chain, fmtPath(path))
		if cerr == nil && !bytes.Equal(ck, got) {
			c["cosmos"] = hx(ck)
			d.side.Hit("C19/crypto/hd/derive-differs-from-cosmos-sdk", "Derive differs from cosmos-sdk hd.DerivePrivateKeyForPath", c)
		}
	}
	// the key is usable: its address is the address of k*G
	if tag != "bulk" && bytes.Equal(got, want) {
		priv := &ethsecp256k1.PrivKey{Key: got}
		p := pubOfPriv(got)
		if pk := priv.PubKey(); pk == nil || !bytes.Equal(pk.Address().Bytes(), keccak(append(pad32(p.x), pad32(p.y)...))[12:]) {
			d.side.Hit("C19/crypto/hd/address-of-derived-key", "address of the derived key is not keccak(k*G)[12:]", c)
		}
	}
}

func (d *drv) runHD(r *Rng, n int) {
	// published vectors first: they validate the independent implementation (and the library the repo uses)
	for _, v := range bip32Vectors {
		seed := mustHex(v.seedHex)
		k, _, err := bip32Derive(seed, v.path)
		wk, _, ok := decodeXprv(v.xprv)
		require.True(d.t, ok)
		require.NoError(d.t, err)
		require.Equal(d.t, hx(wk), hx(k), "independent BIP-32 implementation disagrees with published vector %s", fmtPath(v.path))
		// model on raw seeds too
		_, inter, _ := bip32Derive(seed, v.path)
		var ptbl []string
		for _, x := range inter {
			ptbl = append(ptbl, fmt.Sprintf("(%s, %s)", cqBytes(x), cqBytes(ecCompress(pubOfPriv(x)))))
		}
		d.add(fmt.Sprintf("(CDerive %s %s %s %s)", cqBytes(seed), cqNList(v.path), CqList(ptbl), cqOptBytes(wk, true)), "derive/vector/"+v.xprv, true,
			map[string]interface{}{"kind": "bip32-vector", "seed": v.seedHex, "path": fmtPath(v.path)})
		d.side.Count("derive:bip32-published-vector")
	}
	for _, v := range bip39Vectors {
		require.Equal(d.t, v.seedHex, hx(bip39Seed(v.mnemonic, "TREZOR")), "independent BIP-39 seed disagrees with the reference vector")
		d.deriveCase(v.mnemonic, "TREZOR", []uint32{hk + 44, hk + 60, hk, 0, 0}, "m/44'/60'/0'/0/0", "bip39-vector")
	}
	derive := evhd.EthSecp256k1.Derive()
	for _, v := range mnemonicVectors {
		got, err := derive(v.mnemonic, v.pass, v.path)
		c := map[string]interface{}{"mnemonic": v.mnemonic, "path": v.path, "want": v.privHex}
		if err != nil || hx(got) != v.privHex {
			c["got"] = hx(got)
			d.side.Hit("C19/crypto/hd/wallet-vector", "Derive does not produce the key every standard Ethereum wallet derives for the well-known test mnemonic", c)
		} else {
			addr := (&ethsecp256k1.PrivKey{Key: got}).PubKey().Address().Bytes()
			if hx(addr) != v.addrHex {
				c["addr"] = hx(addr)
				d.side.Hit("C19/crypto/hd/wallet-vector-address", "address of the derived key differs from the well-known account address", c)
			}
		}
		dp, _ := accounts.ParseDerivationPath(v.path)
		d.deriveCase(v.mnemonic, v.pass, dp, v.path, "wallet-vector")
	}

	// random mnemonics / passphrases / paths
	passes := []string{"", "", "TREZOR", "p@ss phrase", "пароль", "ｐａｓｓ", "é", "é"}
	nm := 4 + n/10
	lead0Found := 0
	for i := 0; i < nm; i++ {
		rr := r.Fork(uint64(i))
		ent := randBytes(rr, []int{16, 20, 24, 28, 32}[rr.Intn(5)])
		mn, err := cosmosbip39.NewMnemonic(ent)
		require.NoError(d.t, err)
		pass := passes[rr.Intn(len(passes))]
		if i < len(passes) { // every spelling class (ASCII, Cyrillic, full-width, decomposed, precomposed) in every run
			pass = passes[len(passes)-1-i]
		}
		d.side.Count(fmt.Sprintf("derive:passphrase:nfkd-normalized=%v", norm.NFKD.String(pass) == pass))
		per := 2 + n/15
		for j := 0; j < per; j++ {
			var path []uint32
			var ps string
			switch j % 4 {
			case 0: // BIP-44 Ethereum path, any index
				idx := uint32(rr.Intn(1000))
				path = []uint32{hk + 44, hk + 60, hk + uint32(rr.Intn(3)), uint32(rr.Intn(2)), idx}
				ps = fmtPath(path)
			case 1: // relative path: appended to m/44'/60'/0'/0 by the parser
				idx := uint32(rr.Intn(100000))
				path = []uint32{hk + 44, hk + 60, hk, 0, idx}
				ps = fmt.Sprint(idx)
			default: // arbitrary hardened / non-hardened mixes, extreme indices
				k := 1 + rr.Intn(7)
				for q := 0; q < k; q++ {
					var v uint32
					switch rr.Intn(4) {
					case 0:
						v = uint32(rr.Intn(5))
					case 1:
						v = 0x7fffffff - uint32(rr.Intn(2))
					default:
						v = uint32(rr.U64() >> 33)
					}
					if rr.Bool() {
						v |= hk
					}
					path = append(path, v)
				}
				ps = fmtPath(path)
				if rr.Chance(30) { // non-canonical spelling of the same path
					parts := []string{"m"}
					for _, v := range path {
						h := ""
						if v >= hk {
							h = "'"
						}
						switch rr.Intn(3) {
						case 0:
							parts = append(parts, fmt.Sprintf(" 0x%x %s", v&^hk, h))
						case 1:
							parts = append(parts, fmt.Sprintf("0%o%s", v&^hk, h))
						default:
							parts = append(parts, fmt.Sprintf("%d%s", v&^hk, h))
						}
					}
					ps = strings.Join(parts, "/")
				}
			}
			d.deriveCase(mn, pass, path, ps, "random")
		}
		// invalid mnemonics: swapped last word (checksum), unknown word
		words := strings.Fields(mn)
		bad := append(append([]string{}, words[:len(words)-1]...), "zoo")
		if strings.Join(bad, " ") != mn {
			d.deriveCase(strings.Join(bad, " "), pass, []uint32{hk + 44, hk + 60, hk, 0, 0}, "m/44'/60'/0'/0/0", "bad-checksum")
		}
		d.deriveCase(strings.Join(append(append([]string{}, words[:len(words)-1]...), "notaword"), " "), pass, []uint32{hk + 44}, "m/44'", "bad-word")
	}
	// BIP-39: mnemonic and passphrase enter PBKDF2 in NFKD form, so canonically equivalent spellings of a passphrase
	// (precomposed / decomposed "e-acute", full-width / ASCII "pass") must give the same key.
	{
		mnN, err := cosmosbip39.NewMnemonic(randBytes(r.Fork(555), 16))
		require.NoError(d.t, err)
		for _, pair := range [][2]string{{"\u00e9", "e\u0301"}, {"\uff50\uff41\uff53\uff53", "pass"}, {"caf\u00e9 \u2460", "cafe\u0301 1"}} {
			k1, e1 := derive(mnN, pair[0], "m/44'/60'/0'/0/0")
			k2, e2 := derive(mnN, pair[1], "m/44'/60'/0'/0/0")
			d.side.Count("derive:passphrase-equivalent-spellings")
			if e1 != nil || e2 != nil || !bytes.Equal(k1, k2) {
				d.side.Hit("C19/crypto/hd/passphrase-not-nfkd-normalized", "two canonically equivalent spellings of a BIP-39 passphrase derive different keys (BIP-39 prescribes NFKD)",
					map[string]interface{}{"mnemonic": mnN, "passphrase_a": fmt.Sprintf("%+q", pair[0]), "passphrase_b": fmt.Sprintf("%+q", pair[1]), "key_a": hx(k1), "key_b": hx(k2)})
			}
			d.deriveCase(mnN, pair[0], []uint32{hk + 44, hk + 60, hk, 0, 0}, "m/44'/60'/0'/0/0", "nfkd")
		}
	}

	// the classic divergence: hardened child of a parent whose private key has a leading zero byte.
	// Search paths (cheap: no PBKDF2) under a fixed mnemonic until a few are found; all searched paths are checked.
	mn, err := cosmosbip39.NewMnemonic(randBytes(r.Fork(777), 16))
	require.NoError(d.t, err)
	seed := bip39Seed(mn, "")
	budget := 1500 + 40*n
	for i := 0; i < budget && lead0Found < 3+n/20; i++ {
		rr := r.Fork(uint64(100000 + i))
		path := []uint32{hk + uint32(rr.Intn(1 << 20)), uint32(rr.Intn(1 << 20)), hk + uint32(rr.Intn(100))}
		_, inter, err := bip32Derive(seed, path[:2])
		if err != nil {
			continue
		}
		// parent of the hardened third step
		if inter[2][0] != 0 {
			d.side.Count("derive:lead0-search:miss")
			continue
		}
		lead0Found++
		d.deriveCase(mn, "", path, fmtPath(path), "lead0")
	}
	d.side.Extra["leading_zero_parents_found"] = lead0Found

	// a derived (final) key whose first byte is zero: Derive must still return 32 bytes (left padded), the same
	// key every wallet shows.  Hardened-only paths make the search cheap (HMAC only): ~256 tries per hit.
	finalLead0 := 0
	for i := 0; i < 4000 && finalLead0 < 2; i++ {
		path := []uint32{hk + 44, hk + 60, hk + uint32(i)}
		k, _, err := bip32Derive(seed, path)
		if err != nil || k[0] != 0 {
			continue
		}
		finalLead0++
		d.side.Count("derive:final-key-with-leading-zero-byte")
		d.deriveCase(mn, "", path, fmtPath(path), "final-lead0")
	}
	d.side.Extra["leading_zero_final_keys_found"] = finalLead0

	// Generate(): copies the given bytes into a 32-byte key
	gen := evhd.EthSecp256k1.Generate()
	for i := 0; i < 12; i++ {
		rr := r.Fork(uint64(200000 + i))
		bz := randBytes(rr, []int{0, 1, 31, 32, 33, 64}[i%6])
		k := gen(bz)
		d.add(fmt.Sprintf("(CGen %s %s)", cqBytes(bz), cqBytes(k.Bytes())), "gen/"+hx(bz), len(bz) != 32, nil)
		d.side.Count("generate")
	}
}

func mustHex(s string) []byte {
	b, err := hex.DecodeString(s)
	if err != nil {
		panic(err)
	}
	return b
}
