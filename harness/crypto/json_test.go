package crypto

// Ordered JSON trees (parsed with encoding/json's tokenizer, independent of gjson), their
// Coq rendering (type `json` of coq/Model/Eip712Enc.v), canonical re-serialisation and
// leaf enumeration / perturbation.

import (
	"bytes"
	"encoding/hex"
	"encoding/json"
	"fmt"
	"math"
	"math/big"
	"sort"
	"strconv"
	"strings"
)

type jkind int

const (
	jNull jkind = iota
	jBool
	jNum
	jStr
	jArr
	jObj
)

type jkv struct {
	K string
	V *jv
}

type jv struct {
	Kind jkind
	B    bool
	Num  string // number text
	S    string
	Arr  []*jv
	Obj  []jkv
}

func parseJSON(b []byte) (*jv, error) {
	dec := json.NewDecoder(bytes.NewReader(b))
	dec.UseNumber()
	v, err := parseJV(dec)
	if err != nil {
		return nil, err
	}
	if _, err := dec.Token(); err == nil {
		return nil, fmt.Errorf("trailing data")
	}
	return v, nil
}

func parseJV(dec *json.Decoder) (*jv, error) {
	tok, err := dec.Token()
	if err != nil {
		return nil, err
	}
	switch t := tok.(type) {
	case nil:
		return &jv{Kind: jNull}, nil
	case bool:
		return &jv{Kind: jBool, B: t}, nil
	case json.Number:
		return &jv{Kind: jNum, Num: string(t)}, nil
	case string:
		return &jv{Kind: jStr, S: t}, nil
	case json.Delim:
		switch t {
		case '[':
			out := &jv{Kind: jArr, Arr: []*jv{}}
			for dec.More() {
				e, err := parseJV(dec)
				if err != nil {
					return nil, err
				}
				out.Arr = append(out.Arr, e)
			}
			if _, err := dec.Token(); err != nil {
				return nil, err
			}
			return out, nil
		case '{':
			out := &jv{Kind: jObj, Obj: []jkv{}}
			for dec.More() {
				kt, err := dec.Token()
				if err != nil {
					return nil, err
				}
				k, ok := kt.(string)
				if !ok {
					return nil, fmt.Errorf("bad key")
				}
				e, err := parseJV(dec)
				if err != nil {
					return nil, err
				}
				out.Obj = append(out.Obj, jkv{k, e})
			}
			if _, err := dec.Token(); err != nil {
				return nil, err
			}
			return out, nil
		}
	}
	return nil, fmt.Errorf("unexpected token %v", tok)
}

func (v *jv) clone() *jv {
	c := *v
	if v.Arr != nil {
		c.Arr = make([]*jv, len(v.Arr))
		for i, e := range v.Arr {
			c.Arr[i] = e.clone()
		}
	}
	if v.Obj != nil {
		c.Obj = make([]jkv, len(v.Obj))
		for i, e := range v.Obj {
			c.Obj[i] = jkv{e.K, e.V.clone()}
		}
	}
	return &c
}

func (v *jv) get(k string) *jv {
	for _, e := range v.Obj {
		if e.K == k {
			return e.V
		}
	}
	return nil
}

func (v *jv) set(k string, x *jv) {
	for i, e := range v.Obj {
		if e.K == k {
			v.Obj[i].V = x
			return
		}
	}
	v.Obj = append(v.Obj, jkv{k, x})
}

func (v *jv) del(k string) {
	for i, e := range v.Obj {
		if e.K == k {
			v.Obj = append(v.Obj[:i:i], v.Obj[i+1:]...)
			return
		}
	}
}

// serialize: compact JSON with object keys sorted (what sdk.MustSortJSON produces), strings
// escaped by encoding/json (same escaping as the SDK's output).
func (v *jv) serialize(sb *bytes.Buffer) {
	switch v.Kind {
	case jNull:
		sb.WriteString("null")
	case jBool:
		sb.WriteString(strconv.FormatBool(v.B))
	case jNum:
		sb.WriteString(v.Num)
	case jStr:
		b, _ := json.Marshal(v.S)
		sb.Write(b)
	case jArr:
		sb.WriteByte('[')
		for i, e := range v.Arr {
			if i > 0 {
				sb.WriteByte(',')
			}
			e.serialize(sb)
		}
		sb.WriteByte(']')
	case jObj:
		sb.WriteByte('{')
		kvs := append([]jkv{}, v.Obj...)
		sort.SliceStable(kvs, func(i, j int) bool { return kvs[i].K < kvs[j].K })
		for i, e := range kvs {
			if i > 0 {
				sb.WriteByte(',')
			}
			b, _ := json.Marshal(e.K)
			sb.Write(b)
			sb.WriteByte(':')
			e.V.serialize(sb)
		}
		sb.WriteByte('}')
	}
}

func (v *jv) bytes() []byte {
	var sb bytes.Buffer
	v.serialize(&sb)
	return sb.Bytes()
}

// ---------------------------------------------------------------- Coq rendering

// cqBytes renders a byte string as a term of type `bytes` (list N): a string literal through
// `bs` when printable ASCII without quotes, else `B len 0xHEX`.
func cqBytes(b []byte) string {
	if len(b) == 0 {
		return "[]"
	}
	plain := len(b) <= 200
	for _, c := range b {
		if c < 0x20 || c > 0x7e || c == '"' {
			plain = false
			break
		}
	}
	if plain {
		return "(bs \"" + string(b) + "\")"
	}
	return fmt.Sprintf("(B %d 0x%s)", len(b), hex.EncodeToString(b))
}

func cqOptBytes(b []byte, some bool) string {
	if !some {
		return "None"
	}
	return "(Some " + cqBytes(b) + ")"
}

// number classification as the typed-data encoder sees it: gjson yields float64; the encoder accepts it
// for an integer type iff float64(int64(v)) == v.
func numClass(text string) (z *big.Int, integral bool) {
	f, err := strconv.ParseFloat(text, 64)
	if err != nil || math.IsInf(f, 0) || math.IsNaN(f) {
		return nil, false
	}
	if f >= -9223372036854775808.0 && f < 9223372036854775808.0 && float64(int64(f)) == f {
		return big.NewInt(int64(f)), true
	}
	return nil, false
}

func (v *jv) coq() string {
	switch v.Kind {
	case jNull:
		return "JNull"
	case jBool:
		if v.B {
			return "(JBool true)"
		}
		return "(JBool false)"
	case jNum:
		if z, ok := numClass(v.Num); ok {
			if z.Sign() < 0 {
				return "(JNum (" + z.String() + ")%Z)"
			}
			return "(JNum " + z.String() + "%Z)"
		}
		return "JFloat"
	case jStr:
		return "(JStr " + cqBytes([]byte(v.S)) + ")"
	case jArr:
		parts := make([]string, len(v.Arr))
		for i, e := range v.Arr {
			parts[i] = e.coq()
		}
		return "(JArr [" + strings.Join(parts, "; ") + "])"
	default:
		parts := make([]string, len(v.Obj))
		for i, e := range v.Obj {
			parts[i] = "(" + cqBytes([]byte(e.K)) + ", " + e.V.coq() + ")"
		}
		return "(JObj [" + strings.Join(parts, "; ") + "])"
	}
}

// ---------------------------------------------------------------- leaves

type jpath []interface{} // string keys and int indices

func (p jpath) String() string {
	var sb strings.Builder
	for _, e := range p {
		switch x := e.(type) {
		case string:
			sb.WriteString("." + x)
		case int:
			sb.WriteString(fmt.Sprintf("[%d]", x))
		}
	}
	return sb.String()
}

// leaves lists paths of all scalar leaves and all arrays (arrays are perturbed structurally).
func (v *jv) leaves(prefix jpath, out *[]jpath) {
	switch v.Kind {
	case jArr:
		*out = append(*out, append(jpath{}, prefix...))
		for i, e := range v.Arr {
			e.leaves(append(append(jpath{}, prefix...), i), out)
		}
	case jObj:
		for _, e := range v.Obj {
			e.V.leaves(append(append(jpath{}, prefix...), e.K), out)
		}
	default:
		*out = append(*out, append(jpath{}, prefix...))
	}
}

func (v *jv) at(p jpath) *jv {
	cur := v
	for _, e := range p {
		switch x := e.(type) {
		case string:
			cur = cur.get(x)
		case int:
			if cur.Kind != jArr || x < 0 || x >= len(cur.Arr) { // the path may predate an array-drop perturbation
				return nil
			}
			cur = cur.Arr[x]
		}
		if cur == nil {
			return nil
		}
	}
	return cur
}

// toIface converts to encoding/json-style values with numbers as *big.Int when integral (for the spec hasher).
func (v *jv) toIface() interface{} {
	switch v.Kind {
	case jNull:
		return nil
	case jBool:
		return v.B
	case jNum:
		if z, ok := numClass(v.Num); ok {
			return z
		}
		return v.Num
	case jStr:
		return v.S
	case jArr:
		out := make([]interface{}, len(v.Arr))
		for i, e := range v.Arr {
			out[i] = e.toIface()
		}
		return out
	default:
		out := map[string]interface{}{}
		for _, e := range v.Obj {
			out[e.K] = e.V.toIface()
		}
		return out
	}
}
