package crypto

// JSON-level perturbations of Amino sign documents that keep the document decodable by the Amino codec (C19):
// repeated keys at every level with differing values (second occurrence first / last: gjson reads the first, Go JSON
// decoders and Amino the last), key order permutations, whitespace, \uXXXX escapes, bare numbers for numeric strings.
//
// Oracle (property text: "a signature for one transaction can never authorise a different one"): let read(D) be what the
// Amino codec READS from D (StdSignDoc -> StdFee, messages -> canonical legacytx.StdSignBytes of those values).  For a
// perturbed document D' and a clean document X (the original, or the clean document carrying the other value):
//     read(D') != read(X)  and  D' is accepted  and  rendering(D') == rendering(X)
// is the hit  C19/crypto/eip712/amino/not-injective-in/<json perturbation>,  and a signature over rendering(original)
// verifying for D' with read(D') != read(original) is  .../signature-authorises-other-doc/<json perturbation>.
// Documents Amino reads identically (order, whitespace, escapes) are the same transaction: counted only.

import (
	"bytes"
	"encoding/json"
	"fmt"
	"strconv"
	"strings"

	sdk "github.com/cosmos/cosmos-sdk/types"
	"github.com/cosmos/cosmos-sdk/x/auth/migrations/legacytx"

	"github.com/EscanBE/evermint/v12/crypto/ethsecp256k1"
	"github.com/EscanBE/evermint/v12/ethereum/eip712"

	. "verifharness/hx"
)

type rawOpts struct {
	space  bool // whitespace between tokens
	escape bool // first character of every string as \uXXXX
}

// rawJSON serialises keeping the order (and the repetitions) of object members as they are in the tree.
func rawJSON(v *jv, o rawOpts, sb *bytes.Buffer) {
	str := func(s string) {
		b, _ := json.Marshal(s)
		if o.escape && len(s) > 0 && s[0] < 0x80 && s[0] != '"' && s[0] != '\\' && s[0] >= 0x20 {
			b = append([]byte(fmt.Sprintf("\"\\u%04x", s[0])), b[2:]...)
		}
		sb.Write(b)
	}
	sp := func() {
		if o.space {
			sb.WriteString(" \n\t")
		}
	}
	switch v.Kind {
	case jNull:
		sb.WriteString("null")
	case jBool:
		sb.WriteString(strconv.FormatBool(v.B))
	case jNum:
		sb.WriteString(v.Num)
	case jStr:
		str(v.S)
	case jArr:
		sb.WriteByte('[')
		for i, e := range v.Arr {
			if i > 0 {
				sb.WriteByte(',')
			}
			sp()
			rawJSON(e, o, sb)
		}
		sp()
		sb.WriteByte(']')
	case jObj:
		sb.WriteByte('{')
		for i, e := range v.Obj {
			if i > 0 {
				sb.WriteByte(',')
			}
			sp()
			str(e.K)
			sp()
			sb.WriteByte(':')
			sp()
			rawJSON(e.V, o, sb)
		}
		sp()
		sb.WriteByte('}')
	}
}

func rawBytes(v *jv, o rawOpts) []byte {
	var sb bytes.Buffer
	rawJSON(v, o, &sb)
	return sb.Bytes()
}

// aminoRead: what the Amino codec reads from a sign document, as canonical sign bytes ("" = not readable).
func (d *drv) aminoRead(doc []byte) (out string) {
	defer func() {
		if recover() != nil {
			out = ""
		}
	}()
	cdc := d.suite.EncodingConfig.Amino
	var sd legacytx.StdSignDoc
	if err := cdc.UnmarshalJSON(doc, &sd); err != nil {
		return ""
	}
	var fee legacytx.StdFee
	if err := cdc.UnmarshalJSON(sd.Fee, &fee); err != nil {
		return ""
	}
	msgs := make([]sdk.Msg, len(sd.Msgs))
	for i, raw := range sd.Msgs {
		if err := cdc.UnmarshalJSON(raw, &msgs[i]); err != nil {
			return ""
		}
	}
	return string(legacytx.StdSignBytes(sd.ChainID, sd.AccountNumber, sd.Sequence, sd.TimeoutHeight, fee, msgs, sd.Memo))
}

type jsonVariant struct {
	class string
	doc   []byte
	other []byte // the clean document carrying the other value (duplicate-key variants), else nil
}

func reverseObj(v *jv) {
	for i, j := 0, len(v.Obj)-1; i < j; i, j = i+1, j-1 {
		v.Obj[i], v.Obj[j] = v.Obj[j], v.Obj[i]
	}
}

func jsonVariants(rr *Rng, tree *jv) []jsonVariant {
	var out []jsonVariant
	// containers: (level name, how to find the object in a clone of the tree)
	type level struct {
		name string
		find func(t *jv) *jv
	}
	levels := []level{
		{"", func(t *jv) *jv { return t }},
		{"fee", func(t *jv) *jv { return t.get("fee") }},
	}
	if ms := tree.get("msgs"); ms != nil && ms.Kind == jArr {
		for i := range ms.Arr {
			i := i
			levels = append(levels,
				level{"msgs[]", func(t *jv) *jv { return t.get("msgs").Arr[i] }},
				level{"msgs[].value", func(t *jv) *jv { return t.get("msgs").Arr[i].get("value") }})
		}
	}
	for _, lv := range levels {
		obj0 := lv.find(tree)
		if obj0 == nil || obj0.Kind != jObj {
			continue
		}
		for ki := range obj0.Obj {
			key := obj0.Obj[ki].K
			// the other value: one leaf below the member changed
			t2 := tree.clone()
			o2 := lv.find(t2)
			val := o2.Obj[ki].V
			var ls []jpath
			val.leaves(nil, &ls)
			how := ""
			for try := 0; try < 4 && how == "" && len(ls) > 0; try++ {
				how = perturbLeaf(rr, val, ls[rr.Intn(len(ls))])
			}
			if how == "" {
				continue
			}
			otherDoc := t2.bytes() // clean document with the other value
			name := key
			switch lv.name {
			case "":
			case "fee":
				name = "fee." + key
			case "msgs[]":
				name = "msgs[]." + key
			default:
				name = "msgs[].value.member"
			}
			for _, secondDiffers := range []bool{true, false} {
				t3 := tree.clone()
				o3 := lv.find(t3)
				orig := o3.Obj[ki]
				oth := jkv{K: key, V: val.clone()}
				var members []jkv
				members = append(members, o3.Obj[:ki]...)
				if secondDiffers {
					members = append(members, orig, oth)
				} else {
					members = append(members, oth, orig)
				}
				members = append(members, o3.Obj[ki+1:]...)
				o3.Obj = members
				cls := "duplicate-key/" + name + "/first-occurrence-differs"
				if secondDiffers {
					cls = "duplicate-key/" + name + "/second-occurrence-differs"
				}
				out = append(out, jsonVariant{cls, rawBytes(t3, rawOpts{}), otherDoc})
				// the repeated member far from the original (end / start of the object)
				t4 := tree.clone()
				o4 := lv.find(t4)
				if secondDiffers {
					o4.Obj = append(o4.Obj, oth)
				} else {
					o4.Obj = append([]jkv{oth}, o4.Obj...)
				}
				out = append(out, jsonVariant{cls, rawBytes(t4, rawOpts{}), otherDoc})
			}
		}
	}
	// same reading, other bytes
	t := tree.clone()
	reverseObj(t)
	out = append(out, jsonVariant{"key-order/top-level", rawBytes(t, rawOpts{}), nil})
	t = tree.clone()
	if f := t.get("fee"); f != nil {
		reverseObj(f)
	}
	if ms := t.get("msgs"); ms != nil && ms.Kind == jArr {
		for _, m := range ms.Arr {
			reverseObj(m)
			if v := m.get("value"); v != nil && v.Kind == jObj {
				reverseObj(v)
			}
		}
	}
	out = append(out, jsonVariant{"key-order/nested", rawBytes(t, rawOpts{}), nil})
	out = append(out, jsonVariant{"whitespace", rawBytes(tree, rawOpts{space: true}), nil})
	out = append(out, jsonVariant{"unicode-escape", rawBytes(tree, rawOpts{escape: true}), nil})
	// bare numbers where the canonical document has numeric strings
	for _, key := range []string{"account_number", "sequence", "fee.gas"} {
		t := tree.clone()
		parent, last := t, key
		if strings.HasPrefix(key, "fee.") {
			parent, last = t.get("fee"), "gas"
		}
		if v := parent.get(last); v != nil && v.Kind == jStr {
			parent.set(last, &jv{Kind: jNum, Num: v.S})
			out = append(out, jsonVariant{"number-for-string/" + key, rawBytes(t, rawOpts{}), nil})
		}
	}
	return out
}

func (d *drv) aminoJSONLevelSweep(rr *Rng, aminoDoc, baseA, sig []byte, pub *ethsecp256k1.PubKey, tag string) {
	tree, err := parseJSON(aminoDoc)
	if err != nil {
		panic(err)
	}
	readBase := d.aminoRead(aminoDoc)
	if readBase == "" {
		d.side.Count("eip712:json-level:base-not-readable-by-amino")
		return
	}
	renders := map[string][]byte{}
	render := func(doc []byte) []byte {
		if h, ok := renders[string(doc)]; ok {
			return h
		}
		h, err := eip712.GetEIP712BytesForMsg(doc)
		if err != nil {
			h = nil
		}
		renders[string(doc)] = h
		return h
	}
	modelled := 0
	for _, v := range jsonVariants(rr, tree) {
		if bytes.Equal(v.doc, aminoDoc) {
			continue
		}
		if strings.HasPrefix(v.class, "duplicate-key/") && modelled < 2 && rr.Chance(8) {
			modelled++
			d.eipCase(v.doc, "repeated-member", true) // model case: a repeated member is refused
		}
		short := v.class
		if i := strings.Index(short, "/"); i >= 0 && strings.HasPrefix(short, "duplicate-key/") {
			short = "duplicate-key/" + short[strings.LastIndex(short, "/")+1:]
		}
		readP := d.aminoRead(v.doc)
		h2 := render(v.doc)
		cc := map[string]interface{}{"perturbation": v.class, "encoding": "amino", "msgs": tag, "amino_doc": string(aminoDoc), "amino_doc_perturbed": string(v.doc), "amino_reads": readP}
		outcome := "refused"
		if h2 != nil {
			outcome = "rendered"
		}
		d.side.Count(fmt.Sprintf("eip712:json-level:%s:%s:amino-reads-the-original=%v", short, outcome, readP == readBase))
		if h2 != nil {
			type clean struct {
				doc  []byte
				what string
			}
			cleans := []clean{{aminoDoc, "the original document"}}
			if v.other != nil {
				cleans = append(cleans, clean{v.other, "the document with the other value"})
			}
			for _, x := range cleans {
				hx2 := render(x.doc)
				rx := d.aminoRead(x.doc)
				if hx2 != nil && rx != "" && readP != rx && bytes.Equal(h2, hx2) {
					d.side.Hit("C19/crypto/eip712/amino/not-injective-in/"+v.class, "the Amino codec reads the perturbed document ("+v.class+") differently from "+x.what+", yet both have the same EIP-712 rendering", cc)
				}
			}
		}
		if readP != readBase && (&ethsecp256k1.PubKey{Key: pub.Key}).VerifySignature(v.doc, sig) {
			d.side.Hit("C19/crypto/eip712/amino/signature-authorises-other-doc/"+v.class, "a signature over the EIP-712 rendering of a sign document verifies for a document ("+v.class+") the Amino codec reads as a different transaction", cc)
		}
	}
}
