package crypto

// Field coverage of the sign-document perturbations BY REFLECTION (C19, "the EIP-712 rendering of a sign document is
// injective ... so a signature for one transaction can never authorise a different one").
//
// Protobuf (SIGN_MODE_DIRECT) documents: the field list is read from the message descriptors the SDK's own types
// register (cosmos.tx.v1beta1.SignDoc -> TxBody / AuthInfo -> SignerInfo, Fee, Tip), recursively, stopping at the leaf
// types google.protobuf.Any, cosmos.base.v1beta1.Coin and cosmos.tx.v1beta1.ModeInfo.  Every field of that list is
// perturbed generically on the wire form (dynamicpb): scalars get another value, repeated fields gain / lose / change
// an element, message fields are set / cleared.  For every perturbed document the real GetEIP712BytesForMsg must either
// REFUSE it or render it DIFFERENTLY; "accepted and rendered the same" is the oracle hit
//     C19/crypto/eip712/protobuf/not-injective-in/<field path>
// and PubKey.VerifySignature(perturbed doc, signature over the original rendering) == true is
//     C19/crypto/eip712/protobuf/signature-authorises-other-doc/<field path>.
// Two fields are the envelope of the signature itself and have no counterpart in the legacy sign document the typed
// data is rendered from (SIGN_MODE_LEGACY_AMINO_JSON does not sign them either): signer_infos.public_key (the ante
// handler requires it to hash to the signer address) and signer_infos.mode_info (says WHICH sign bytes the signature
// is over; both modes of one transaction render to the same typed data by design).  For those the observed class is
// recorded and compared with the model's table only.
//
// Amino documents: the key list is read with Go reflection from the json tags of legacytx.StdSignDoc and StdFee; every
// key is perturbed (changed when present, set when absent), plus keys the structs do not have.
//
// The reflected lists and the observed class of every field are emitted as model cases (Corr/CorrCrypto.v CPbFields /
// CPbField / CAminoKeys): the model's guard table of decodeProtobufSignDoc (Model/SignDocFields.v) must list exactly
// these fields with exactly these classes -- a field added by an SDK upgrade or a guard dropped from the code shows up
// as a mismatch even when no generated document happens to hit it.

import (
	"bytes"
	"fmt"
	"reflect"
	"sort"
	"strings"

	sdkmath "cosmossdk.io/math"
	codectypes "github.com/cosmos/cosmos-sdk/codec/types"
	sdk "github.com/cosmos/cosmos-sdk/types"
	"github.com/cosmos/cosmos-sdk/x/auth/migrations/legacytx"
	gogoproto "github.com/cosmos/gogoproto/proto"
	"google.golang.org/protobuf/proto"
	"google.golang.org/protobuf/reflect/protoreflect"
	"google.golang.org/protobuf/types/dynamicpb"

	"github.com/EscanBE/evermint/v12/crypto/ethsecp256k1"
	"github.com/EscanBE/evermint/v12/ethereum/eip712"
	evertypes "github.com/EscanBE/evermint/v12/types"

	. "verifharness/hx"
)

var pbLeafTypes = map[string]bool{
	"google.protobuf.Any":                            true,
	"cosmos.base.v1beta1.Coin":                       true,
	"cosmos.tx.v1beta1.ModeInfo":                     true,
	"cosmos.crypto.multisig.v1beta1.CompactBitArray": true,
}

// the envelope of the signature (see the header)
var pbEnvelope = map[string]bool{
	"auth_info.signer_infos.public_key": true,
	"auth_info.signer_infos.mode_info":  true,
}

type pbField struct {
	path string
	kind string // scalar kind, or message:<full name>, with "repeated " in front
	// where it lives: container message ("body", "auth_info", "sign_doc") and the chain of field names below it
	root  string
	chain []string
}

func mustDesc(name string) protoreflect.MessageDescriptor {
	d, err := gogoproto.HybridResolver.FindDescriptorByName(protoreflect.FullName(name))
	if err != nil {
		panic(fmt.Sprintf("descriptor %s: %v", name, err))
	}
	return d.(protoreflect.MessageDescriptor)
}

func fieldKind(fd protoreflect.FieldDescriptor) string {
	k := fd.Kind().String()
	if fd.Kind() == protoreflect.MessageKind {
		k = "message:" + string(fd.Message().FullName())
	}
	if fd.Kind() == protoreflect.EnumKind {
		k = "enum:" + string(fd.Enum().FullName())
	}
	if fd.IsList() {
		k = "repeated " + k
	}
	return k
}

// reflectPbFields lists every field the signed bytes of a SIGN_MODE_DIRECT transaction consist of.
func reflectPbFields() []pbField {
	var out []pbField
	var walk func(md protoreflect.MessageDescriptor, root, prefix string, chain []string)
	walk = func(md protoreflect.MessageDescriptor, root, prefix string, chain []string) {
		fds := md.Fields()
		for i := 0; i < fds.Len(); i++ {
			fd := fds.Get(i)
			name := string(fd.Name())
			ch := append(append([]string{}, chain...), name)
			path := prefix + name
			out = append(out, pbField{path: path, kind: fieldKind(fd), root: root, chain: ch})
			if fd.Kind() == protoreflect.MessageKind && !pbLeafTypes[string(fd.Message().FullName())] {
				walk(fd.Message(), root, path+".", ch)
			}
		}
	}
	sd := mustDesc("cosmos.tx.v1beta1.SignDoc")
	fds := sd.Fields()
	for i := 0; i < fds.Len(); i++ {
		fd := fds.Get(i)
		switch string(fd.Name()) {
		case "body_bytes":
			walk(mustDesc("cosmos.tx.v1beta1.TxBody"), "body", "body.", nil)
		case "auth_info_bytes":
			walk(mustDesc("cosmos.tx.v1beta1.AuthInfo"), "auth_info", "auth_info.", nil)
		default:
			out = append(out, pbField{path: string(fd.Name()), kind: fieldKind(fd), root: "sign_doc", chain: []string{string(fd.Name())}})
		}
	}
	sort.Slice(out, func(i, j int) bool { return out[i].path < out[j].path })
	return out
}

// reflectAminoKeys: json keys of the legacy sign document and its fee object.
func reflectAminoKeys() []string {
	var out []string
	keys := func(t reflect.Type, prefix string) {
		for i := 0; i < t.NumField(); i++ {
			tag := strings.Split(t.Field(i).Tag.Get("json"), ",")[0]
			if tag != "" && tag != "-" {
				out = append(out, prefix+tag)
			}
		}
	}
	keys(reflect.TypeOf(legacytx.StdSignDoc{}), "")
	keys(reflect.TypeOf(legacytx.StdFee{}), "fee.")
	sort.Strings(out)
	return out
}

// ---------------------------------------------------------------- dynamic documents

type pbDoc struct {
	signDoc, body, authInfo *dynamicpb.Message
}

func parsePbDoc(bz []byte) pbDoc {
	sd := dynamicpb.NewMessage(mustDesc("cosmos.tx.v1beta1.SignDoc"))
	if err := proto.Unmarshal(bz, sd); err != nil {
		panic(err)
	}
	body := dynamicpb.NewMessage(mustDesc("cosmos.tx.v1beta1.TxBody"))
	if err := proto.Unmarshal(sd.Get(sd.Descriptor().Fields().ByName("body_bytes")).Bytes(), body); err != nil {
		panic(err)
	}
	ai := dynamicpb.NewMessage(mustDesc("cosmos.tx.v1beta1.AuthInfo"))
	if err := proto.Unmarshal(sd.Get(sd.Descriptor().Fields().ByName("auth_info_bytes")).Bytes(), ai); err != nil {
		panic(err)
	}
	return pbDoc{sd, body, ai}
}

func (d pbDoc) bytes() []byte {
	mo := proto.MarshalOptions{Deterministic: true}
	bb, err := mo.Marshal(d.body)
	if err != nil {
		panic(err)
	}
	ab, err := mo.Marshal(d.authInfo)
	if err != nil {
		panic(err)
	}
	f := d.signDoc.Descriptor().Fields()
	d.signDoc.Set(f.ByName("body_bytes"), protoreflect.ValueOfBytes(bb))
	d.signDoc.Set(f.ByName("auth_info_bytes"), protoreflect.ValueOfBytes(ab))
	out, err := mo.Marshal(d.signDoc)
	if err != nil {
		panic(err)
	}
	return out
}

// containers returns the message(s) that directly hold the last field of the chain (several when the chain passes
// through a repeated message field); missing singular messages on the way are created when create is set.
func containers(root *dynamicpb.Message, chain []string, create bool) []protoreflect.Message {
	cur := []protoreflect.Message{root}
	for _, name := range chain[:len(chain)-1] {
		var next []protoreflect.Message
		for _, m := range cur {
			fd := m.Descriptor().Fields().ByName(protoreflect.Name(name))
			switch {
			case fd.IsList():
				l := m.Get(fd).List()
				for i := 0; i < l.Len(); i++ {
					next = append(next, l.Get(i).Message())
				}
			case m.Has(fd) || create:
				next = append(next, m.Mutable(fd).Message())
			}
		}
		cur = next
	}
	return cur
}

type pbPerturbation struct {
	how string
	doc []byte
}

type pbSamples struct {
	otherAddr string
	otherKey  *codectypes.Any
	otherMsg  *codectypes.Any
	extOpt    *codectypes.Any
}

func anyToDyn(a *codectypes.Any) protoreflect.Value {
	m := dynamicpb.NewMessage(mustDesc("google.protobuf.Any"))
	m.Set(m.Descriptor().Fields().ByName("type_url"), protoreflect.ValueOfString(a.TypeUrl))
	m.Set(m.Descriptor().Fields().ByName("value"), protoreflect.ValueOfBytes(a.Value))
	return protoreflect.ValueOfMessage(m)
}

func coinToDyn(denom, amount string) protoreflect.Value {
	m := dynamicpb.NewMessage(mustDesc("cosmos.base.v1beta1.Coin"))
	m.Set(m.Descriptor().Fields().ByName("denom"), protoreflect.ValueOfString(denom))
	m.Set(m.Descriptor().Fields().ByName("amount"), protoreflect.ValueOfString(amount))
	return protoreflect.ValueOfMessage(m)
}

// newElement: a plausible element for a repeated message field.
func newElement(f pbField, fd protoreflect.FieldDescriptor, sm pbSamples, alt int) (protoreflect.Value, string) {
	switch string(fd.Message().FullName()) {
	case "google.protobuf.Any":
		switch {
		case strings.HasSuffix(f.path, "extension_options"):
			if alt == 0 {
				return anyToDyn(sm.extOpt), "the dynamic fee extension option"
			}
			return anyToDyn(&codectypes.Any{TypeUrl: "/unknown.Option", Value: []byte{1, 2, 3}}), "an unregistered option"
		default:
			return anyToDyn(sm.otherMsg), "another message"
		}
	case "cosmos.base.v1beta1.Coin":
		return coinToDyn([]string{"zzz", "wei"}[alt%2], "7"), "a coin"
	default:
		return protoreflect.ValueOfMessage(dynamicpb.NewMessage(fd.Message())), "an empty " + string(fd.Message().Name())
	}
}

// perturbPbField: every generic perturbation of one field of one document.
func perturbPbField(base []byte, f pbField, sm pbSamples) []pbPerturbation {
	var out []pbPerturbation
	try := func(how string, edit func(m protoreflect.Message, fd protoreflect.FieldDescriptor) bool, create bool) {
		d := parsePbDoc(base)
		root := map[string]*dynamicpb.Message{"body": d.body, "auth_info": d.authInfo, "sign_doc": d.signDoc}[f.root]
		done := false
		for _, m := range containers(root, f.chain, create) {
			fd := m.Descriptor().Fields().ByName(protoreflect.Name(f.chain[len(f.chain)-1]))
			if edit(m, fd) {
				done = true
			}
		}
		if !done {
			return
		}
		bz := d.bytes()
		if !bytes.Equal(bz, base) {
			out = append(out, pbPerturbation{how, bz})
		}
	}
	d0 := parsePbDoc(base)
	root0 := map[string]*dynamicpb.Message{"body": d0.body, "auth_info": d0.authInfo, "sign_doc": d0.signDoc}[f.root]
	var fd0 protoreflect.FieldDescriptor
	{
		md := root0.Descriptor()
		for i, name := range f.chain {
			fd0 = md.Fields().ByName(protoreflect.Name(name))
			if i+1 < len(f.chain) {
				md = fd0.Message()
			}
		}
	}
	switch {
	case fd0.IsList() && fd0.Kind() == protoreflect.MessageKind:
		for alt := 0; alt < 2; alt++ {
			alt := alt
			_, what := newElement(f, fd0, sm, alt)
			try("append "+what, func(m protoreflect.Message, fd protoreflect.FieldDescriptor) bool {
				v, _ := newElement(f, fd, sm, alt)
				m.Mutable(fd).List().Append(v)
				return true
			}, true)
		}
		try("duplicate the last element", func(m protoreflect.Message, fd protoreflect.FieldDescriptor) bool {
			l := m.Mutable(fd).List()
			if l.Len() == 0 {
				return false
			}
			l.Append(protoreflect.ValueOfMessage(proto.Clone(l.Get(l.Len() - 1).Message().Interface()).ProtoReflect()))
			return true
		}, false)
		try("drop the last element", func(m protoreflect.Message, fd protoreflect.FieldDescriptor) bool {
			l := m.Mutable(fd).List()
			if l.Len() == 0 {
				return false
			}
			l.Truncate(l.Len() - 1)
			return true
		}, false)
		if string(fd0.Message().FullName()) == "cosmos.base.v1beta1.Coin" {
			for _, sub := range []string{"denom", "amount"} {
				sub := sub
				try("change "+sub+" of the first coin", func(m protoreflect.Message, fd protoreflect.FieldDescriptor) bool {
					l := m.Mutable(fd).List()
					if l.Len() == 0 {
						return false
					}
					c := l.Get(0).Message()
					sfd := c.Descriptor().Fields().ByName(protoreflect.Name(sub))
					s := c.Get(sfd).String()
					if sub == "amount" {
						s = s + "0"
					} else {
						s = s + "x"
					}
					c.Set(sfd, protoreflect.ValueOfString(s))
					return true
				}, false)
			}
		}
	case fd0.Kind() == protoreflect.MessageKind:
		name := string(fd0.Message().FullName())
		try("clear", func(m protoreflect.Message, fd protoreflect.FieldDescriptor) bool {
			if !m.Has(fd) {
				return false
			}
			m.Clear(fd)
			return true
		}, false)
		try("set to an empty message", func(m protoreflect.Message, fd protoreflect.FieldDescriptor) bool {
			if m.Has(fd) {
				return false
			}
			m.Set(fd, protoreflect.ValueOfMessage(dynamicpb.NewMessage(fd.Message())))
			return true
		}, true)
		switch name {
		case "google.protobuf.Any":
			try("another value", func(m protoreflect.Message, fd protoreflect.FieldDescriptor) bool {
				m.Set(fd, anyToDyn(sm.otherKey))
				return true
			}, true)
			try("same value under another type url", func(m protoreflect.Message, fd protoreflect.FieldDescriptor) bool {
				if !m.Has(fd) {
					return false
				}
				a := m.Mutable(fd).Message()
				a.Set(a.Descriptor().Fields().ByName("type_url"), protoreflect.ValueOfString("/cosmos.crypto.secp256k1.PubKey"))
				return true
			}, false)
		case "cosmos.tx.v1beta1.ModeInfo":
			try("another single mode", func(m protoreflect.Message, fd protoreflect.FieldDescriptor) bool {
				mi := m.Mutable(fd).Message()
				single := mi.Mutable(mi.Descriptor().Fields().ByName("single")).Message()
				mfd := single.Descriptor().Fields().ByName("mode")
				cur := single.Get(mfd).Enum()
				nv := protoreflect.EnumNumber(127) // SIGN_MODE_LEGACY_AMINO_JSON
				if cur == nv {
					nv = 1
				}
				single.Set(mfd, protoreflect.ValueOfEnum(nv))
				return true
			}, true)
			try("multi", func(m protoreflect.Message, fd protoreflect.FieldDescriptor) bool {
				mi := m.Mutable(fd).Message()
				mi.Mutable(mi.Descriptor().Fields().ByName("multi"))
				return true
			}, true)
		}
	case fd0.IsList():
		// repeated scalars: none in these messages today; handled so that a new one is not silently skipped
		try("append a default element", func(m protoreflect.Message, fd protoreflect.FieldDescriptor) bool {
			m.Mutable(fd).List().Append(fd.Default())
			return true
		}, true)
	default:
		try("another value", func(m protoreflect.Message, fd protoreflect.FieldDescriptor) bool {
			cur := m.Get(fd)
			switch fd.Kind() {
			case protoreflect.StringKind:
				s := cur.String()
				switch {
				case s == "":
					m.Set(fd, protoreflect.ValueOfString(sm.otherAddr))
				case f.path == "chain_id":
					m.Set(fd, protoreflect.ValueOfString(s+"1"))
				default:
					m.Set(fd, protoreflect.ValueOfString(s+"x"))
				}
			case protoreflect.BytesKind:
				m.Set(fd, protoreflect.ValueOfBytes(append(append([]byte{}, cur.Bytes()...), 0x08, 0x01)))
			case protoreflect.BoolKind:
				m.Set(fd, protoreflect.ValueOfBool(!cur.Bool()))
			case protoreflect.EnumKind:
				m.Set(fd, protoreflect.ValueOfEnum(cur.Enum()+1))
			case protoreflect.Uint64Kind, protoreflect.Fixed64Kind:
				m.Set(fd, protoreflect.ValueOfUint64(cur.Uint()+1))
			case protoreflect.Uint32Kind, protoreflect.Fixed32Kind:
				m.Set(fd, protoreflect.ValueOfUint32(uint32(cur.Uint())+1))
			case protoreflect.Int64Kind, protoreflect.Sint64Kind, protoreflect.Sfixed64Kind:
				m.Set(fd, protoreflect.ValueOfInt64(cur.Int()+1))
			case protoreflect.Int32Kind, protoreflect.Sint32Kind, protoreflect.Sfixed32Kind:
				m.Set(fd, protoreflect.ValueOfInt32(int32(cur.Int())+1))
			default:
				return false
			}
			return true
		}, true)
		if fd0.Kind() == protoreflect.StringKind {
			try("a second value", func(m protoreflect.Message, fd protoreflect.FieldDescriptor) bool {
				s := m.Get(fd).String()
				if s == "" {
					m.Set(fd, protoreflect.ValueOfString("x"))
				} else {
					m.Set(fd, protoreflect.ValueOfString(" "+s))
				}
				return true
			}, true)
		}
	}
	return out
}

// ---------------------------------------------------------------- the oracle

type fieldStats struct{ changed, refused, same, authorised int }

func (s fieldStats) class() string {
	switch {
	case s.same > 0:
		return "PSame"
	case s.changed > 0:
		return "PRendered" // whenever it is accepted it is rendered differently (some values may be refused)
	case s.refused > 0:
		return "PRefused"
	default:
		return "PUntouched"
	}
}

// pbFieldSweep perturbs every reflected field of one protobuf sign document.
func (d *drv) pbFieldSweep(rr *Rng, fields []pbField, stats map[string]*fieldStats, protoDoc, baseP, sig []byte, pub *ethsecp256k1.PubKey, signer sdk.AccAddress, tag string) {
	otherPub := newKey(rr).PubKey()
	anyKey, err := codectypes.NewAnyWithValue(otherPub)
	if err != nil {
		panic(err)
	}
	opt, err := codectypes.NewAnyWithValue(&evertypes.ExtensionOptionDynamicFeeTx{MaxPriorityPrice: sdkmath.NewInt(int64(rr.Intn(5)))})
	if err != nil {
		panic(err)
	}
	sm := pbSamples{otherAddr: accAddr(rr).String(), otherKey: anyKey, otherMsg: mustAny(msgGens[0].gen(rr, signer)), extOpt: opt}
	for _, f := range fields {
		st := stats[f.path]
		for _, p := range perturbPbField(protoDoc, f, sm) {
			d.side.Count("eip712:pb-field:" + f.path)
			cc := map[string]interface{}{"field": f.path, "how": p.how, "encoding": "protobuf", "msgs": tag, "proto_doc": hx(protoDoc), "proto_doc_perturbed": hx(p.doc)}
			h2, err := eip712.GetEIP712BytesForMsg(p.doc)
			switch {
			case err != nil:
				st.refused++
			case bytes.Equal(h2, baseP):
				st.same++
				if !pbEnvelope[f.path] {
					d.side.Hit("C19/crypto/eip712/protobuf/not-injective-in/"+f.path, "EIP-712 rendering of a protobuf sign document unchanged after perturbing "+f.path+" ("+p.how+"): the field is neither rendered nor refused", cc)
				}
			default:
				st.changed++
			}
			if (&ethsecp256k1.PubKey{Key: pub.Key}).VerifySignature(p.doc, sig) {
				st.authorised++
				if !pbEnvelope[f.path] {
					d.side.Hit("C19/crypto/eip712/protobuf/signature-authorises-other-doc/"+f.path, "signature over the EIP-712 rendering of one protobuf sign document verifies for the document with a different "+f.path+" ("+p.how+")", cc)
				}
			}
		}
	}
}

// aminoKeySweep perturbs every reflected key of one amino sign document, and keys the structs do not have.
func (d *drv) aminoKeySweep(rr *Rng, keys []string, stats map[string]*fieldStats, aminoDoc, baseA, sig []byte, pub *ethsecp256k1.PubKey, tag string) {
	tree, err := parseJSON(aminoDoc)
	if err != nil {
		panic(err)
	}
	other := accAddr(rr).String()
	type pert struct {
		key, how string
		doc      []byte
	}
	var ps []pert
	lookup := func(t *jv, key string) (*jv, *jv, string) { // parent, value, last name
		parts := strings.Split(key, ".")
		cur := t
		for _, p := range parts[:len(parts)-1] {
			cur = cur.get(p)
			if cur == nil {
				return nil, nil, ""
			}
		}
		return cur, cur.get(parts[len(parts)-1]), parts[len(parts)-1]
	}
	for _, key := range keys {
		t2 := tree.clone()
		parent, v, last := lookup(t2, key)
		if parent == nil {
			continue
		}
		if v == nil {
			// absent (omitempty): set it
			val := &jv{Kind: jStr, S: other}
			if strings.Contains(last, "height") {
				val = &jv{Kind: jStr, S: fmt.Sprint(1 + rr.Intn(1000))}
			}
			parent.set(last, val)
			ps = append(ps, pert{key, "set", t2.bytes()})
			continue
		}
		// present: change one leaf below it (or the leaf itself)
		var ls []jpath
		v.leaves(nil, &ls)
		if len(ls) == 0 {
			continue
		}
		for try := 0; try < 3; try++ {
			t3 := tree.clone()
			_, v3, _ := lookup(t3, key)
			if how := perturbLeaf(rr, v3, ls[rr.Intn(len(ls))]); how != "" {
				ps = append(ps, pert{key, how, t3.bytes()})
				break
			}
		}
	}
	// keys the legacy document does not have
	for _, extra := range []struct{ where, key string }{{"", "tip"}, {"", "extension_options"}, {"", "unordered"}, {"fee", "tipper"}, {"fee", "gas_limit"}} {
		t2 := tree.clone()
		tgt := t2
		if extra.where != "" {
			tgt = t2.get(extra.where)
		}
		tgt.set(extra.key, &jv{Kind: jStr, S: "1"})
		k := "+" + extra.key
		if extra.where != "" {
			k = "+" + extra.where + "." + extra.key
		}
		if stats[k] == nil {
			stats[k] = &fieldStats{}
		}
		ps = append(ps, pert{k, "unknown key added", t2.bytes()})
	}
	for _, p := range ps {
		if bytes.Equal(p.doc, aminoDoc) {
			continue
		}
		st := stats[p.key]
		d.side.Count("eip712:amino-key:" + p.key)
		cc := map[string]interface{}{"field": p.key, "how": p.how, "encoding": "amino", "msgs": tag, "amino_doc": string(aminoDoc), "amino_doc_perturbed": string(p.doc)}
		h2, err := eip712.GetEIP712BytesForMsg(p.doc)
		switch {
		case err != nil:
			st.refused++
		case bytes.Equal(h2, baseA):
			st.same++
			d.side.Hit("C19/crypto/eip712/amino/not-injective-in/"+strings.TrimPrefix(p.key, "+"), "EIP-712 rendering of an amino sign document unchanged after perturbing "+p.key+" ("+p.how+")", cc)
		default:
			st.changed++
		}
		if (&ethsecp256k1.PubKey{Key: pub.Key}).VerifySignature(p.doc, sig) {
			st.authorised++
			d.side.Hit("C19/crypto/eip712/amino/signature-authorises-other-doc/"+strings.TrimPrefix(p.key, "+"), "signature over the EIP-712 rendering of one amino sign document verifies for the document with a different "+p.key+" ("+p.how+")", cc)
		}
	}
}

// emitFieldCases: the reflected lists and the observed classes as model cases.
func (d *drv) emitFieldCases(fields []pbField, stats map[string]*fieldStats, aminoKeys []string, astats map[string]*fieldStats) {
	var items []string
	for _, f := range fields {
		items = append(items, fmt.Sprintf("(%s, %s)", cqBytes([]byte(f.path)), cqBytes([]byte(f.kind))))
	}
	d.add(fmt.Sprintf("(CPbFields %s)", CqList(items)), "pbfields/"+hx(keccak([]byte(strings.Join(items, ";")))), true,
		map[string]interface{}{"kind": "pb-field-list", "fields": fields})
	for _, f := range fields {
		st := stats[f.path]
		cls := st.class()
		d.side.Count(fmt.Sprintf("eip712:pb-field-class:%s:%s", f.path, cls))
		d.add(fmt.Sprintf("(CPbField %s %s)", cqBytes([]byte(f.path)), cls), "pbfield/"+f.path+"/"+cls, cls != "PUntouched",
			map[string]interface{}{"kind": "pb-field", "field": f.path, "class": cls, "changed": st.changed, "refused": st.refused, "same": st.same, "signature_accepted": st.authorised})
	}
	var ks []string
	for _, k := range aminoKeys {
		ks = append(ks, cqBytes([]byte(k)))
	}
	d.add(fmt.Sprintf("(CAminoKeys %s)", CqList(ks)), "aminokeys/"+strings.Join(aminoKeys, ","), true, map[string]interface{}{"kind": "amino-key-list", "keys": aminoKeys})
	for k, st := range astats {
		d.side.Count(fmt.Sprintf("eip712:amino-key-class:%s:%s", k, st.class()))
	}
}
