package crypto

import (
	"bytes"
	"fmt"
	"math/big"
	"sort"
	"strings"

	"github.com/cosmos/cosmos-sdk/types/bech32"
	"github.com/ethereum/go-ethereum/common"
	"github.com/ethereum/go-ethereum/common/math"
	"github.com/ethereum/go-ethereum/signer/core/apitypes"

	"github.com/EscanBE/evermint/v12/crypto/ethsecp256k1"
	cpcabi "github.com/EscanBE/evermint/v12/x/cpc/abi"
	cpceip712 "github.com/EscanBE/evermint/v12/x/cpc/eip712"

	. "verifharness/hx"
)

func bech32Decode(s string) (string, []byte, error) { return bech32.DecodeAndConvert(s) }
func bech32Encode(hrp string, bz []byte) string {
	s, err := bech32.ConvertAndEncode(hrp, bz)
	if err != nil {
		panic(err)
	}
	return s
}

// typedCoq renders a typed-data object for the model: type map in Go-map-independent (sorted) order,
// domain and message as json trees (HexOrDecimal256 -> JNum, everything else as it is).
func typedCoq(td apitypes.TypedData) (types, dom, msg string) {
	var names []string
	for k := range td.Types {
		names = append(names, k)
	}
	sort.Strings(names)
	var tparts []string
	for _, k := range names {
		var fs []string
		for _, f := range td.Types[k] {
			fs = append(fs, fmt.Sprintf("(%s, %s)", cqBytes([]byte(f.Name)), cqBytes([]byte(f.Type))))
		}
		tparts = append(tparts, fmt.Sprintf("(%s, %s)", cqBytes([]byte(k)), CqList(fs)))
	}
	var val func(v interface{}) string
	val = func(v interface{}) string {
		switch x := v.(type) {
		case string:
			return "(JStr " + cqBytes([]byte(x)) + ")"
		case bool:
			return "(JBool " + CqBool(x) + ")"
		case *math.HexOrDecimal256:
			if x == nil {
				return "JNull"
			}
			return "(JNum " + CqZ((*big.Int)(x)) + ")"
		case map[string]interface{}:
			var ks []string
			for k := range x {
				ks = append(ks, k)
			}
			sort.Strings(ks)
			var ps []string
			for _, k := range ks {
				ps = append(ps, fmt.Sprintf("(%s, %s)", cqBytes([]byte(k)), val(x[k])))
			}
			return "(JObj " + CqList(ps) + ")"
		case []interface{}:
			var ps []string
			for _, e := range x {
				ps = append(ps, val(e))
			}
			return "(JArr " + CqList(ps) + ")"
		}
		return "JNull"
	}
	return CqList(tparts), val(td.Domain.Map()), val(map[string]interface{}(td.Message))
}

func specOfTyped(td apitypes.TypedData) ([]byte, error) {
	st := specTypes{}
	for k, fs := range td.Types {
		st[k] = []specField{}
		for _, f := range fs {
			st[k] = append(st[k], specField{f.Name, f.Type})
		}
	}
	conv := func(typeName string, m map[string]interface{}) map[string]interface{} {
		out := map[string]interface{}{}
		for _, f := range td.Types[typeName] {
			v, ok := m[f.Name]
			if !ok {
				continue
			}
			switch {
			case f.Type == "address":
				var a [20]byte
				copy(a[:], common.HexToAddress(v.(string)).Bytes())
				out[f.Name] = a
			case strings.HasPrefix(f.Type, "uint") || strings.HasPrefix(f.Type, "int"):
				out[f.Name] = (*big.Int)(v.(*math.HexOrDecimal256))
			default:
				out[f.Name] = v
			}
		}
		return out
	}
	return specTypedDataBytes(st, td.PrimaryType, conv("EIP712Domain", td.Domain.Map()), conv(td.PrimaryType, td.Message))
}

func (d *drv) typedCase(tm cpceip712.TypedMessage, chainID *big.Int, tag string) []byte {
	td := tm.ToTypedData(chainID)
	h, err := cpceip712.EIP712HashingTypedMessage(tm, chainID)
	ty, dom, msg := typedCoq(td)
	d.add(fmt.Sprintf("(CTyped %s %s %s %s %s)", ty, cqBytes([]byte(td.PrimaryType)), dom, msg, cqOptBytes(h, err == nil)), "typed/"+tag+"/"+hx(h), err == nil,
		map[string]interface{}{"kind": "cpc-typed", "tag": tag, "message": fmt.Sprintf("%+v", tm), "chain_id": chainID.String(), "hash": hx(h)})
	d.side.Count(fmt.Sprintf("typed:%s:ok=%v", tag, err == nil))
	if err == nil {
		if sp, serr := specOfTyped(td); serr != nil || !bytes.Equal(keccak(sp), h) {
			d.side.Hit("C19/crypto/typed/hash-is-not-eip712", "EIP712HashingTypedMessage differs from the EIP-712 specification hash", fmt.Sprintf("%+v chain=%s", tm, chainID))
		}
	}
	return h
}

func (d *drv) runTyped(r *Rng, n int) {
	for i := 0; i < n; i++ {
		rr := r.Fork(uint64(i))
		priv := newKey(rr)
		addr := common.BytesToAddress(priv.PubKey().Address())
		chainID := big.NewInt(int64(1 + rr.Intn(1<<20)))
		if rr.Chance(20) {
			chainID = new(big.Int).Add(big.NewInt(1), rr.BigBits(1+rr.Intn(255)))
		}
		val := func() string { return bech32Encode("evmvaloper", randBytes(rr, 20)) }
		var tm cpceip712.TypedMessage
		var variants []struct {
			field string
			tm    cpceip712.TypedMessage
		}
		if i%3 != 2 {
			m := cpcabi.StakingMessage{Action: []string{"Delegate", "Undelegate", "Redelegate"}[rr.Intn(3)], Delegator: addr, Validator: val(),
				Amount: new(big.Int).Add(big.NewInt(1), rr.BigBits(1+rr.Intn(255))), Denom: "wei", OldValidator: "-"}
			if m.Action == "Redelegate" {
				m.OldValidator = val()
			}
			tm = m
			add := func(f string, g func(x *cpcabi.StakingMessage)) {
				x := m
				x.Amount = new(big.Int).Set(m.Amount)
				g(&x)
				variants = append(variants, struct {
					field string
					tm    cpceip712.TypedMessage
				}{f, x})
			}
			add("action", func(x *cpcabi.StakingMessage) {
				x.Action = map[string]string{"Delegate": "Undelegate", "Undelegate": "Redelegate", "Redelegate": "Delegate"}[x.Action]
			})
			add("delegator", func(x *cpcabi.StakingMessage) { x.Delegator[rr.Intn(20)] ^= 1 << uint(rr.Intn(8)) })
			add("validator", func(x *cpcabi.StakingMessage) { x.Validator = val() })
			add("amount", func(x *cpcabi.StakingMessage) { x.Amount.Add(x.Amount, big.NewInt(1)) })
			add("amount", func(x *cpcabi.StakingMessage) { x.Amount.Xor(x.Amount, new(big.Int).Lsh(big.NewInt(1), uint(rr.Intn(256)))) })
			add("denom", func(x *cpcabi.StakingMessage) { x.Denom += "x" })
			add("oldValidator", func(x *cpcabi.StakingMessage) { x.OldValidator = val() })
			// moving text between adjacent string fields must not collide
			add("validator/denom boundary", func(x *cpcabi.StakingMessage) {
				x.Validator = x.Validator + x.Denom[:1]
				x.Denom = x.Denom[1:]
			})
		} else {
			m := cpcabi.WithdrawRewardMessage{Delegator: addr, FromValidator: val()}
			if rr.Bool() {
				m.FromValidator = "all"
			}
			tm = m
			x1 := m
			x1.Delegator[rr.Intn(20)] ^= 1 << uint(rr.Intn(8))
			x2 := m
			x2.FromValidator = val()
			variants = append(variants, struct {
				field string
				tm    cpceip712.TypedMessage
			}{"delegator", x1}, struct {
				field string
				tm    cpceip712.TypedMessage
			}{"fromValidator", x2})
		}
		h := d.typedCase(tm, chainID, "base")
		if h == nil {
			continue
		}
		sig, err := priv.Sign(h)
		if err != nil {
			panic(err)
		}
		var rb, sb [32]byte
		copy(rb[:], sig[:32])
		copy(sb[:], sig[32:64])
		for _, v := range []uint8{sig[64], sig[64] + 27} {
			match, rec, err := cpceip712.VerifySignature(addr, tm, rb, sb, v, chainID)
			if err != nil || !match || rec != addr {
				d.side.Count("typed:own-signature-rejected")
			}
		}
		fail := func(field string, tm2 cpceip712.TypedMessage, cid *big.Int) {
			d.side.Count("typed:perturb:" + field)
			h2, err := cpceip712.EIP712HashingTypedMessage(tm2, cid)
			if err != nil {
				return
			}
			c := map[string]interface{}{"field": field, "message": fmt.Sprintf("%+v", tm), "perturbed": fmt.Sprintf("%+v", tm2), "chain_id": chainID.String(), "chain_id2": cid.String()}
			if bytes.Equal(h2, h) {
				d.side.Hit("C19/crypto/typed/not-injective-in/"+strings.Fields(field)[0], "typed-message hash unchanged after perturbing "+field, c)
			}
			match, _, err := cpceip712.VerifySignature(addr, tm2, rb, sb, sig[64], cid)
			if err == nil && match {
				d.side.Hit("C19/crypto/typed/signature-authorises-other-message/"+strings.Fields(field)[0], "signature for one typed message verifies for a message with different "+field, c)
			}
		}
		for _, v := range variants {
			fail(v.field, v.tm, chainID)
			if rr.Chance(15) {
				d.typedCase(v.tm, chainID, "perturbed")
			}
		}
		fail("chainId", tm, new(big.Int).Add(chainID, big.NewInt(1)))
		// signature perturbations: r, s bits; v
		for j := 0; j < 4; j++ {
			r2, s2 := rb, sb
			bit := rr.Intn(512)
			if bit < 256 {
				r2[bit/8] ^= 1 << uint(bit%8)
			} else {
				s2[(bit-256)/8] ^= 1 << uint(bit%8)
			}
			match, _, err := cpceip712.VerifySignature(addr, tm, r2, s2, sig[64], chainID)
			if err == nil && match {
				d.side.Hit("C19/crypto/typed/perturbed-signature-accepted", "typed-message signature with one bit of r/s flipped still matches the signer", nil)
			}
		}
		match, _, err := cpceip712.VerifySignature(addr, tm, rb, sb, sig[64]^1, chainID)
		if err == nil && match {
			d.side.Hit("C19/crypto/typed/perturbed-signature-accepted", "typed-message signature with flipped recovery id still matches the signer", nil)
		}
		other := common.BytesToAddress(newKey(rr).PubKey().Address())
		match, _, _ = cpceip712.VerifySignature(other, tm, rb, sb, sig[64], chainID)
		if match {
			d.side.Hit("C19/crypto/typed/other-key-accepted", "typed-message signature matches an unrelated address", nil)
		}
		_ = ethsecp256k1.KeyType
	}
}
