package crypto

import (
	"bytes"
	"fmt"
	"math/big"
	"strconv"
	"strings"
	"time"

	"cosmossdk.io/x/feegrant"
	sdkmath "cosmossdk.io/math"
	codectypes "github.com/cosmos/cosmos-sdk/codec/types"
	sdk "github.com/cosmos/cosmos-sdk/types"
	txtypes "github.com/cosmos/cosmos-sdk/types/tx"
	"github.com/cosmos/cosmos-sdk/types/tx/signing"
	"github.com/cosmos/cosmos-sdk/x/auth/migrations/legacytx"
	"github.com/cosmos/cosmos-sdk/x/authz"
	banktypes "github.com/cosmos/cosmos-sdk/x/bank/types"
	distrtypes "github.com/cosmos/cosmos-sdk/x/distribution/types"
	govv1 "github.com/cosmos/cosmos-sdk/x/gov/types/v1"
	govv1beta1 "github.com/cosmos/cosmos-sdk/x/gov/types/v1beta1"
	stakingtypes "github.com/cosmos/cosmos-sdk/x/staking/types"
	ibctransfertypes "github.com/cosmos/ibc-go/v8/modules/apps/transfer/types"
	ibcclienttypes "github.com/cosmos/ibc-go/v8/modules/core/02-client/types"
	"github.com/ethereum/go-ethereum/signer/core/apitypes"

	"github.com/EscanBE/evermint/v12/crypto/ethsecp256k1"
	"github.com/EscanBE/evermint/v12/ethereum/eip712"
	evertypes "github.com/EscanBE/evermint/v12/types"
	cpctypes "github.com/EscanBE/evermint/v12/x/cpc/types"
	vauthtypes "github.com/EscanBE/evermint/v12/x/vauth/types"

	. "verifharness/hx"
)

// ---------------------------------------------------------------- message generators

func accAddr(r *Rng) sdk.AccAddress { return sdk.AccAddress(randBytes(r, 20)) }
func valAddr(r *Rng) sdk.ValAddress { return sdk.ValAddress(randBytes(r, 20)) }

var denoms = []string{"wei", "utwo", "ibc/27394FB092D2ECCD56123C74F36E4C1F926001CEADA9CA97EA622B25F41E5EB2", "stake"}

func randInt(r *Rng) sdkmath.Int {
	switch r.Intn(5) {
	case 0:
		return sdkmath.NewInt(int64(1 + r.Intn(9)))
	case 1:
		return sdkmath.NewIntFromBigInt(new(big.Int).Add(big.NewInt(1), r.BigBits(255)))
	case 2:
		return sdkmath.NewInt(1_000_000_000_000_000_000)
	default:
		return sdkmath.NewIntFromBigInt(new(big.Int).Add(big.NewInt(1), r.BigBits(1+r.Intn(80))))
	}
}

func randCoin(r *Rng) sdk.Coin { return sdk.NewCoin(denoms[r.Intn(len(denoms))], randInt(r)) }

func randCoins(r *Rng) sdk.Coins {
	k := r.Intn(4)
	cs := sdk.Coins{}
	for i := 0; i < k; i++ {
		cs = cs.Add(randCoin(r))
	}
	return cs
}

var memos = []string{"", "memo", "hello world", "<script>&\"quoted\"\\ \n\ttab</script>", "unicode ☃   é 𝄞", "0", "{\"json\":[1,2]}", "null", "  spaces  "}

func randText(r *Rng) string {
	if r.Chance(60) {
		return memos[r.Intn(len(memos))]
	}
	return fmt.Sprintf("t%x", r.U64())
}

type msgGen struct {
	name string
	gen  func(r *Rng, signer sdk.AccAddress) sdk.Msg
}

func mustAny(m sdk.Msg) *codectypes.Any {
	a, err := codectypes.NewAnyWithValue(m)
	if err != nil {
		panic(err)
	}
	return a
}

var msgGens = []msgGen{
	{"bank/MsgSend", func(r *Rng, s sdk.AccAddress) sdk.Msg {
		return &banktypes.MsgSend{FromAddress: s.String(), ToAddress: accAddr(r).String(), Amount: randCoins(r)}
	}},
	{"bank/MsgMultiSend", func(r *Rng, s sdk.AccAddress) sdk.Msg {
		c := randCoins(r)
		outs := []banktypes.Output{}
		for i := 0; i < r.Intn(3); i++ {
			outs = append(outs, banktypes.Output{Address: accAddr(r).String(), Coins: randCoins(r)})
		}
		return &banktypes.MsgMultiSend{Inputs: []banktypes.Input{{Address: s.String(), Coins: c}}, Outputs: outs}
	}},
	{"staking/MsgDelegate", func(r *Rng, s sdk.AccAddress) sdk.Msg {
		return &stakingtypes.MsgDelegate{DelegatorAddress: s.String(), ValidatorAddress: valAddr(r).String(), Amount: randCoin(r)}
	}},
	{"staking/MsgUndelegate", func(r *Rng, s sdk.AccAddress) sdk.Msg {
		return &stakingtypes.MsgUndelegate{DelegatorAddress: s.String(), ValidatorAddress: valAddr(r).String(), Amount: randCoin(r)}
	}},
	{"staking/MsgBeginRedelegate", func(r *Rng, s sdk.AccAddress) sdk.Msg {
		return &stakingtypes.MsgBeginRedelegate{DelegatorAddress: s.String(), ValidatorSrcAddress: valAddr(r).String(), ValidatorDstAddress: valAddr(r).String(), Amount: randCoin(r)}
	}},
	{"staking/MsgEditValidator", func(r *Rng, s sdk.AccAddress) sdk.Msg {
		m := &stakingtypes.MsgEditValidator{Description: stakingtypes.Description{Moniker: randText(r), Identity: randText(r), Website: randText(r), SecurityContact: randText(r), Details: randText(r)},
			ValidatorAddress: sdk.ValAddress(s).String()}
		if r.Bool() {
			d := sdkmath.LegacyNewDecWithPrec(int64(r.Intn(1000)), 3)
			m.CommissionRate = &d
		}
		if r.Bool() {
			i := randInt(r)
			m.MinSelfDelegation = &i
		}
		return m
	}},
	{"gov/v1/MsgVote", func(r *Rng, s sdk.AccAddress) sdk.Msg {
		return &govv1.MsgVote{ProposalId: r.U64() >> uint(r.Intn(64)), Voter: s.String(), Option: govv1.VoteOption(r.Intn(5)), Metadata: randText(r)}
	}},
	{"gov/v1beta1/MsgVote", func(r *Rng, s sdk.AccAddress) sdk.Msg {
		return &govv1beta1.MsgVote{ProposalId: r.U64() >> uint(r.Intn(64)), Voter: s.String(), Option: govv1beta1.VoteOption(1 + r.Intn(4))}
	}},
	{"gov/v1/MsgVoteWeighted", func(r *Rng, s sdk.AccAddress) sdk.Msg {
		opts := []*govv1.WeightedVoteOption{}
		for i := 0; i < 1+r.Intn(3); i++ {
			opts = append(opts, &govv1.WeightedVoteOption{Option: govv1.VoteOption(1 + r.Intn(4)), Weight: sdkmath.LegacyNewDecWithPrec(int64(1+r.Intn(999)), 3).String()})
		}
		return &govv1.MsgVoteWeighted{ProposalId: uint64(r.Intn(1000)), Voter: s.String(), Options: opts, Metadata: randText(r)}
	}},
	{"gov/v1/MsgDeposit", func(r *Rng, s sdk.AccAddress) sdk.Msg {
		return &govv1.MsgDeposit{ProposalId: uint64(r.Intn(1000)), Depositor: s.String(), Amount: randCoins(r)}
	}},
	{"gov/v1/MsgSubmitProposal", func(r *Rng, s sdk.AccAddress) sdk.Msg {
		inner := []*codectypes.Any{}
		for i := 0; i < r.Intn(3); i++ {
			inner = append(inner, mustAny(&banktypes.MsgSend{FromAddress: accAddr(r).String(), ToAddress: accAddr(r).String(), Amount: sdk.NewCoins(randCoin(r))}))
		}
		return &govv1.MsgSubmitProposal{Messages: inner, InitialDeposit: randCoins(r), Proposer: s.String(), Metadata: randText(r), Title: randText(r), Summary: randText(r), Expedited: r.Bool()}
	}},
	{"distribution/MsgWithdrawDelegatorReward", func(r *Rng, s sdk.AccAddress) sdk.Msg {
		return &distrtypes.MsgWithdrawDelegatorReward{DelegatorAddress: s.String(), ValidatorAddress: valAddr(r).String()}
	}},
	{"distribution/MsgSetWithdrawAddress", func(r *Rng, s sdk.AccAddress) sdk.Msg {
		return &distrtypes.MsgSetWithdrawAddress{DelegatorAddress: s.String(), WithdrawAddress: accAddr(r).String()}
	}},
	{"distribution/MsgFundCommunityPool", func(r *Rng, s sdk.AccAddress) sdk.Msg {
		return &distrtypes.MsgFundCommunityPool{Amount: randCoins(r), Depositor: s.String()}
	}},
	{"ibc/MsgTransfer", func(r *Rng, s sdk.AccAddress) sdk.Msg {
		return &ibctransfertypes.MsgTransfer{SourcePort: "transfer", SourceChannel: fmt.Sprintf("channel-%d", r.Intn(100)), Token: randCoin(r), Sender: s.String(), Receiver: "cosmos1" + fmt.Sprintf("%x", r.U64()),
			TimeoutHeight: ibcclienttypes.Height{RevisionNumber: uint64(r.Intn(5)), RevisionHeight: uint64(r.Intn(100000))}, TimeoutTimestamp: r.U64() >> uint(r.Intn(64)), Memo: randText(r)}
	}},
	{"authz/MsgGrant", func(r *Rng, s sdk.AccAddress) sdk.Msg {
		exp := time.Unix(int64(1_900_000_000+r.Intn(100000)), 0).UTC()
		var a authz.Authorization
		if r.Bool() {
			a = authz.NewGenericAuthorization("/cosmos.bank.v1beta1.MsgSend")
		} else {
			a = banktypes.NewSendAuthorization(sdk.NewCoins(randCoin(r)), []sdk.AccAddress{accAddr(r)})
		}
		m, err := authz.NewMsgGrant(s, accAddr(r), a, &exp)
		if err != nil {
			panic(err)
		}
		return m
	}},
	{"authz/MsgRevoke", func(r *Rng, s sdk.AccAddress) sdk.Msg {
		m := authz.NewMsgRevoke(s, accAddr(r), "/cosmos.bank.v1beta1.MsgSend")
		return &m
	}},
	{"feegrant/MsgGrantAllowance", func(r *Rng, s sdk.AccAddress) sdk.Msg {
		exp := time.Unix(int64(1_900_000_000+r.Intn(100000)), 0).UTC()
		al := &feegrant.BasicAllowance{SpendLimit: randCoins(r)}
		if r.Bool() {
			al.Expiration = &exp
		}
		m, err := feegrant.NewMsgGrantAllowance(al, s, accAddr(r))
		if err != nil {
			panic(err)
		}
		return m
	}},
	{"feegrant/MsgRevokeAllowance", func(r *Rng, s sdk.AccAddress) sdk.Msg {
		m := feegrant.NewMsgRevokeAllowance(s, accAddr(r))
		return &m
	}},
	{"vauth/MsgSubmitProofExternalOwnedAccount", func(r *Rng, s sdk.AccAddress) sdk.Msg {
		return &vauthtypes.MsgSubmitProofExternalOwnedAccount{Submitter: s.String(), Account: accAddr(r).String(), Signature: "0x" + hx(randBytes(r, 65))}
	}},
	{"cpc/MsgDeployErc20ContractRequest", func(r *Rng, s sdk.AccAddress) sdk.Msg {
		return &cpctypes.MsgDeployErc20ContractRequest{Authority: s.String(), Name: randText(r), Symbol: "SYM" + fmt.Sprint(r.Intn(10)), Decimals: uint32(r.Intn(19)), MinDenom: denoms[r.Intn(len(denoms))]}
	}},
	{"cpc/MsgDeployStakingContractRequest", func(r *Rng, s sdk.AccAddress) sdk.Msg {
		return &cpctypes.MsgDeployStakingContractRequest{Authority: s.String(), Symbol: "SYM" + fmt.Sprint(r.Intn(10)), Decimals: uint32(r.Intn(19))}
	}},
}

// ---------------------------------------------------------------- sign documents

type docSpec struct {
	ChainID  string
	AccNum   uint64
	Seq      uint64
	Timeout  uint64
	Fee      sdk.Coins
	Gas      uint64
	Payer    string
	Granter  string
	Tip      sdk.Coins // protobuf AuthInfo.Tip (no counterpart in the amino document)
	Memo     string
	Msgs     []sdk.Msg
	PubKey   *ethsecp256k1.PubKey
	SignMode signing.SignMode
}

func (s docSpec) aminoBytes() []byte {
	return legacytx.StdSignBytes(s.ChainID, s.AccNum, s.Seq, s.Timeout, legacytx.StdFee{Amount: s.Fee, Gas: s.Gas, Payer: s.Payer, Granter: s.Granter}, s.Msgs, s.Memo)
}

func (s docSpec) protoBytes() []byte {
	anys := make([]*codectypes.Any, len(s.Msgs))
	for i, m := range s.Msgs {
		anys[i] = mustAny(m)
	}
	body := &txtypes.TxBody{Messages: anys, Memo: s.Memo, TimeoutHeight: s.Timeout}
	bb, err := body.Marshal()
	if err != nil {
		panic(err)
	}
	anyPk, err := codectypes.NewAnyWithValue(s.PubKey)
	if err != nil {
		panic(err)
	}
	ai := &txtypes.AuthInfo{
		SignerInfos: []*txtypes.SignerInfo{{PublicKey: anyPk, ModeInfo: &txtypes.ModeInfo{Sum: &txtypes.ModeInfo_Single_{Single: &txtypes.ModeInfo_Single{Mode: s.SignMode}}}, Sequence: s.Seq}},
		Fee:         &txtypes.Fee{Amount: s.Fee, GasLimit: s.Gas, Payer: s.Payer, Granter: s.Granter},
	}
	if s.Tip != nil {
		ai.Tip = &txtypes.Tip{Amount: s.Tip, Tipper: s.Payer} //nolint:staticcheck
	}
	ab, err := ai.Marshal()
	if err != nil {
		panic(err)
	}
	sd := &txtypes.SignDoc{BodyBytes: bb, AuthInfoBytes: ab, ChainId: s.ChainID, AccountNumber: s.AccNum}
	out, err := sd.Marshal()
	if err != nil {
		panic(err)
	}
	return out
}

// render = the pure rendering the model covers: WrapTxToTypedData + TypedDataAndHash on an amino JSON sign doc.
func render(aminoDoc []byte) (raw []byte, td apitypes.TypedData, err error) {
	defer func() {
		if p := recover(); p != nil {
			err = fmt.Errorf("panic: %v", p)
		}
	}()
	tree, perr := parseJSON(aminoDoc)
	if perr != nil {
		return nil, td, perr
	}
	cid := tree.get("chain_id")
	if cid == nil || cid.Kind != jStr {
		return nil, td, fmt.Errorf("no chain id")
	}
	pc, err := evertypes.ParseChainID(cid.S)
	if err != nil {
		return nil, td, err
	}
	td, err = eip712.WrapTxToTypedData(pc.Uint64(), aminoDoc)
	if err != nil {
		return nil, td, err
	}
	_, rawStr, err := apitypes.TypedDataAndHash(td)
	if err != nil {
		return nil, td, err
	}
	return []byte(rawStr), td, nil
}

// specRender recomputes the EIP-712 bytes of a typed-data object with the independent hasher.
func specRender(td apitypes.TypedData) ([]byte, error) {
	st := specTypes{}
	for k, fs := range td.Types {
		for _, f := range fs {
			st[k] = append(st[k], specField{f.Name, f.Type})
		}
		if len(fs) == 0 {
			st[k] = []specField{}
		}
	}
	var conv func(v interface{}) interface{}
	conv = func(v interface{}) interface{} {
		switch x := v.(type) {
		case float64:
			if float64(int64(x)) == x {
				return big.NewInt(int64(x))
			}
			return x
		case []interface{}:
			out := make([]interface{}, len(x))
			for i, e := range x {
				out[i] = conv(e)
			}
			return out
		case map[string]interface{}:
			out := map[string]interface{}{}
			for k, e := range x {
				out[k] = conv(e)
			}
			return out
		}
		return v
	}
	dom := map[string]interface{}{}
	for k, v := range td.Domain.Map() {
		if k == "chainId" {
			dom[k] = (*big.Int)(td.Domain.ChainId)
		} else {
			dom[k] = v
		}
	}
	return specTypedDataBytes(st, td.PrimaryType, dom, conv(map[string]interface{}(td.Message)).(map[string]interface{}))
}

func (d *drv) eipCase(aminoDoc []byte, tag string, nontrivial bool) (raw []byte, ok bool) {
	tree, perr := parseJSON(aminoDoc)
	if perr != nil {
		return nil, false
	}
	raw, td, err := render(aminoDoc)
	d.add(fmt.Sprintf("(CEip %s %s)", tree.coq(), cqOptBytes(raw, err == nil)), "eip/"+hx(keccak(aminoDoc)), nontrivial && err == nil,
		map[string]interface{}{"kind": "eip712", "tag": tag, "doc": string(aminoDoc), "rendered": err == nil, "raw": hx(raw)})
	d.side.Count(fmt.Sprintf("eip712:model-case:%s:ok=%v", tag, err == nil))
	if err == nil {
		if sp, serr := specRender(td); serr == nil && !bytes.Equal(sp, raw) {
			memberless := false
			for _, fs := range td.Types {
				if len(fs) == 0 {
					memberless = true
				}
			}
			if memberless {
				// go-ethereum's EncodeType writes "Name)" instead of "Name()" for a struct type without members
				// (buffer.Truncate removes the "(").  The hash then differs from what a specification-conforming
				// wallet computes, so such a document simply cannot be signed through EIP-712; no second document
				// or key is accepted, the type string stays unambiguous (Eip712EncProofs.one_type_str_inj covers
				// the member-less form) — not a violation of the property text.  Counted, modelled, not a hit.
				d.side.Count("eip712:spec-deviation:struct-type-without-members")
			} else {
				d.side.Hit("C19/crypto/eip712/rendering-is-not-eip712", "TypedDataAndHash of the produced typed data differs from the EIP-712 specification hash", map[string]interface{}{"doc": string(aminoDoc), "tag": tag})
			}
		} else if serr != nil {
			d.side.Count("eip712:spec-hasher-rejects")
		}
	}
	return raw, err == nil
}

// perturbLeaf changes one leaf of a JSON tree in a type-aware way; returns a description or "".
func perturbLeaf(r *Rng, root *jv, p jpath) string {
	v := root.at(p)
	if v == nil {
		return ""
	}
	switch v.Kind {
	case jStr:
		s := v.S
		if hrp, bz, err := bech32Decode(s); err == nil && len(bz) == 20 {
			bz[r.Intn(20)] ^= 1 << uint(r.Intn(8))
			v.S = bech32Encode(hrp, bz)
			return "bech32"
		}
		if z, ok := new(big.Int).SetString(s, 10); ok && s != "" && (s == "0" || s[0] != '0') && s[0] != '+' {
			v.S = z.Add(z, big.NewInt(1)).String()
			return "numeric-string+1"
		}
		if t, err := time.Parse(time.RFC3339, s); err == nil {
			v.S = t.Add(time.Second).UTC().Format(time.RFC3339)
			return "time+1s"
		}
		if strings.Contains(s, ".") && len(s) > 2 {
			if _, err := sdkmath.LegacyNewDecFromStr(s); err == nil {
				dd := sdkmath.LegacyMustNewDecFromStr(s).Add(sdkmath.LegacyNewDecWithPrec(1, 18))
				v.S = dd.String()
				return "decimal+1e-18"
			}
		}
		switch r.Intn(3) {
		case 0:
			v.S = s + "x"
			return "string-append"
		case 1:
			if len(s) > 0 {
				b := []byte(s)
				i := r.Intn(len(b))
				if b[i] >= 'a' && b[i] < 'z' || b[i] >= '0' && b[i] < '9' || b[i] >= 'A' && b[i] < 'Z' {
					b[i]++
					v.S = string(b)
					return "string-char"
				}
			}
			v.S = "x" + s
			return "string-prepend"
		default:
			v.S = s + " "
			return "string-append-space"
		}
	case jNum:
		if z, ok := new(big.Int).SetString(v.Num, 10); ok {
			v.Num = z.Add(z, big.NewInt(1)).String()
			return "number+1"
		}
		return ""
	case jBool:
		v.B = !v.B
		return "bool-flip"
	case jArr:
		switch {
		case len(v.Arr) >= 2 && r.Bool():
			i := r.Intn(len(v.Arr) - 1)
			if bytes.Equal(v.Arr[i].bytes(), v.Arr[i+1].bytes()) {
				return ""
			}
			v.Arr[i], v.Arr[i+1] = v.Arr[i+1], v.Arr[i]
			return "array-swap"
		case len(v.Arr) >= 1 && r.Bool():
			i := r.Intn(len(v.Arr))
			v.Arr = append(v.Arr[:i:i], v.Arr[i+1:]...)
			return "array-drop"
		case len(v.Arr) >= 1:
			v.Arr = append(v.Arr, v.Arr[r.Intn(len(v.Arr))].clone())
			return "array-dup"
		}
		return ""
	}
	return ""
}

func (d *drv) runEip712(r *Rng, n int) {
	amino := d.suite.EncodingConfig.Amino
	chainID := d.suite.ChainConstantsConfig.GetCosmosChainID()
	nDocs := n
	pbFields := reflectPbFields()
	aminoKeys := reflectAminoKeys()
	pbStats, aminoStats := map[string]*fieldStats{}, map[string]*fieldStats{}
	for _, f := range pbFields {
		pbStats[f.path] = &fieldStats{}
	}
	for _, k := range aminoKeys {
		aminoStats[k] = &fieldStats{}
	}
	defer func() { d.emitFieldCases(pbFields, pbStats, aminoKeys, aminoStats) }()
	for i := 0; i < nDocs; i++ {
		rr := r.Fork(uint64(i))
		priv := newKey(rr)
		pub := priv.PubKey().(*ethsecp256k1.PubKey)
		signer := sdk.AccAddress(pub.Address())
		spec := docSpec{ChainID: chainID, AccNum: rr.U64() >> uint(rr.Intn(64)), Seq: rr.U64() >> uint(rr.Intn(64)), Fee: randCoins(rr), Gas: rr.U64() >> uint(1+rr.Intn(63)),
			Memo: randText(rr), PubKey: pub, SignMode: signing.SignMode_SIGN_MODE_DIRECT}
		if rr.Chance(20) {
			num := uint64(1 + rr.Intn(1<<30))
			if rr.Chance(40) { // EIP-155 numbers beyond 32 bits (the domain separator carries the number, the Tx message the string)
				num = 1<<32 + rr.U64()>>uint(2+rr.Intn(30))
			}
			spec.ChainID = fmt.Sprintf("%s_%d-%d", []string{"evermint", "a", "testchain"}[rr.Intn(3)], num, 1+rr.Intn(9))
		}
		nm := 1
		if rr.Chance(35) {
			nm = 2 + rr.Intn(2)
		}
		var names []string
		for j := 0; j < nm; j++ {
			g := msgGens[(i+j*7+rr.Intn(2)*3)%len(msgGens)]
			spec.Msgs = append(spec.Msgs, g.gen(rr, signer))
			names = append(names, g.name)
		}
		tag := strings.Join(names, "+")
		d.side.Count("eip712:doc:msgs=" + strconv.Itoa(nm))
		for _, nme := range names {
			d.side.Count("eip712:msg:" + nme)
		}

		aminoDoc := spec.aminoBytes()
		protoDoc := spec.protoBytes()
		baseA, errA := eip712.GetEIP712BytesForMsg(aminoDoc)
		baseP, errP := eip712.GetEIP712BytesForMsg(protoDoc)
		c := map[string]interface{}{"kind": "eip712-doc", "msgs": tag, "amino_doc": string(aminoDoc), "proto_doc": hx(protoDoc)}
		raw, okR := d.eipCase(aminoDoc, "base", nm > 1 || strings.Contains(string(aminoDoc), "[{"))
		if errA != nil || errP != nil || !okR {
			d.side.Count("eip712:base-not-renderable:" + tag)
			if l, _ := d.side.Extra["not_renderable"].([]string); len(l) < 12 {
				d.side.Extra["not_renderable"] = append(l, fmt.Sprintf("%s: amino=%v proto=%v doc=%s", tag, errA, errP, aminoDoc))
			}
			// still a model case (above); nothing to perturb
			continue
		}
		if !bytes.Equal(baseA, raw) {
			d.side.Hit("C19/crypto/eip712/amino-path-differs-from-rendering", "GetEIP712BytesForMsg(amino doc) differs from WrapTxToTypedData+TypedDataAndHash of the same doc", c)
		}
		if !bytes.Equal(baseP, raw) {
			d.side.Hit("C19/crypto/eip712/proto-path-differs-from-amino-rendering", "GetEIP712BytesForMsg(protobuf doc) differs from the rendering of the equivalent amino doc (a field is dropped or altered in the conversion)", c)
		}
		// a signature over the EIP-712 hash verifies for both encodings of the document (fallback path) ...
		sig, err := priv.Sign(keccak(raw))
		if err != nil {
			panic(err)
		}
		if !d.verifyCase(pub.Key, aminoDoc, sig, "eip712-amino") || !d.verifyCase(pub.Key, protoDoc, sig[:64], "eip712-proto") {
			d.side.Count("eip712:signature-over-rendering-not-accepted")
		}

		// ... not for the hash of the rendering offered as a message (a 32-byte candidate must be hashed like any other)
		for _, cand := range [][]byte{keccak(raw), keccak(aminoDoc)} {
			if d.verifyCase(pub.Key, cand, sig, "eip712-digest-as-message") {
				d.side.Hit("C19/crypto/verify/other-message-accepted/hash-of-the-rendering", "a signature over the EIP-712 rendering of a sign document verifies for a 32-byte string that is neither the document nor its rendering",
					map[string]interface{}{"pk": hx(pub.Key), "doc": string(aminoDoc), "candidate": hx(cand), "sig": hx(sig)})
			}
		}
		// every field of the document, by reflection over the protobuf messages / the legacy structs
		d.pbFieldSweep(rr, pbFields, pbStats, protoDoc, baseP, sig, pub, signer, tag)
		d.aminoKeySweep(rr, aminoKeys, aminoStats, aminoDoc, baseA, sig, pub, tag)
		d.aminoJSONLevelSweep(rr, aminoDoc, baseA, sig, pub, tag)

		// ... and for no perturbed document.
		check := func(field, how string, a2, p2 []byte) {
			d.side.Count("eip712:perturb:" + field)
			for _, v := range []struct {
				enc  string
				base []byte
				doc  []byte
			}{{"amino", baseA, a2}, {"protobuf", baseP, p2}} {
				if v.doc == nil || bytes.Equal(v.doc, map[string][]byte{"amino": aminoDoc, "protobuf": protoDoc}[v.enc]) {
					continue
				}
				h2, err := eip712.GetEIP712BytesForMsg(v.doc)
				if err != nil {
					d.side.Count("eip712:perturbed-doc-rejected:" + v.enc)
					continue
				}
				cc := map[string]interface{}{"field": field, "how": how, "encoding": v.enc, "msgs": tag, "amino_doc": string(aminoDoc), "amino_doc_perturbed": string(a2)}
				if v.enc == "protobuf" {
					cc["proto_doc"] = hx(protoDoc)
					cc["proto_doc_perturbed"] = hx(v.doc)
				}
				sigField := field
				if strings.HasPrefix(field, "msg") {
					sigField = "message-field"
				}
				if bytes.Equal(h2, v.base) {
					d.side.Hit("C19/crypto/eip712/"+v.enc+"/not-injective-in/"+sigField, "EIP-712 rendering unchanged after perturbing "+field+" ("+how+")", cc)
				}
				pubk := &ethsecp256k1.PubKey{Key: pub.Key}
				if pubk.VerifySignature(v.doc, sig) {
					d.side.Hit("C19/crypto/eip712/"+v.enc+"/signature-authorises-other-doc/"+sigField, "signature over the EIP-712 rendering of one sign doc verifies for a doc with different "+field, cc)
				}
			}
		}
		mut := func(f func(s *docSpec)) (a2, p2 []byte) {
			s2 := spec
			s2.Msgs = append([]sdk.Msg{}, spec.Msgs...)
			f(&s2)
			return s2.aminoBytes(), s2.protoBytes()
		}
		other := accAddr(rr).String()
		{
			a2, p2 := mut(func(s *docSpec) { s.AccNum++ })
			check("account_number", "+1", a2, p2)
			a2, p2 = mut(func(s *docSpec) { s.Seq++ })
			check("sequence", "+1", a2, p2)
			a2, p2 = mut(func(s *docSpec) { s.Gas++ })
			check("gas", "+1", a2, p2)
			a2, p2 = mut(func(s *docSpec) { s.Memo += "x" })
			check("memo", "append", a2, p2)
			a2, p2 = mut(func(s *docSpec) { s.Memo = " " + s.Memo })
			check("memo", "prepend-space", a2, p2)
			a2, p2 = mut(func(s *docSpec) { s.Fee = s.Fee.Add(sdk.NewCoin(denoms[rr.Intn(len(denoms))], sdkmath.NewInt(1))) })
			check("fee.amount", "+1 of some denom", a2, p2)
			if len(spec.Fee) > 0 {
				a2, p2 = mut(func(s *docSpec) { s.Fee = s.Fee[1:] })
				check("fee.amount", "drop a coin", a2, p2)
			}
			a2, p2 = mut(func(s *docSpec) {
				pc, _ := evertypes.ParseChainID(s.ChainID)
				s.ChainID = strings.Replace(s.ChainID, "_"+pc.String()+"-", "_"+new(big.Int).Add(pc, big.NewInt(1)).String()+"-", 1)
			})
			check("chain_id", "eip155 number +1", a2, p2)
			a2, p2 = mut(func(s *docSpec) { s.ChainID = s.ChainID + "1" })
			check("chain_id", "epoch digit appended", a2, p2)
			a2, p2 = mut(func(s *docSpec) { s.ChainID = "x" + s.ChainID })
			check("chain_id", "prefix letter", a2, p2)
			a2, p2 = mut(func(s *docSpec) { s.Timeout = 1 + uint64(rr.Intn(1000)) })
			check("timeout_height", "set", a2, p2)
			a2, p2 = mut(func(s *docSpec) { s.Granter = other })
			check("fee.granter", "set", a2, p2)
			a2, p2 = mut(func(s *docSpec) { s.Payer = other })
			check("fee.payer", "set to another account", a2, p2)
			a2, p2 = mut(func(s *docSpec) { s.Payer = signer.String() })
			check("fee.payer", "set to the signer", a2, p2)
			_, p2 = mut(func(s *docSpec) { s.Tip = sdk.NewCoins(sdk.NewCoin(denoms[rr.Intn(len(denoms))], sdkmath.NewInt(int64(1+rr.Intn(9))))) })
			check("tip", "set (protobuf only)", nil, p2)
			if len(spec.Msgs) > 1 {
				a2, p2 = mut(func(s *docSpec) { s.Msgs[0], s.Msgs[1] = s.Msgs[1], s.Msgs[0] })
				check("msgs", "swap first two", a2, p2)
				a2, p2 = mut(func(s *docSpec) { s.Msgs = s.Msgs[1:] })
				check("msgs", "drop first", a2, p2)
			}
			a2, p2 = mut(func(s *docSpec) { s.Msgs = append(s.Msgs, s.Msgs[0]) })
			check("msgs", "duplicate first", a2, p2)
			a2, p2 = mut(func(s *docSpec) { s.Msgs = append(s.Msgs, msgGens[rr.Intn(len(msgGens))].gen(rr, signer)) })
			check("msgs", "append another", a2, p2)
		}
		// every leaf of every message (amino JSON view), type-aware single perturbation
		tree, err := parseJSON(aminoDoc)
		if err != nil {
			panic(err)
		}
		var leaves []jpath
		tree.get("msgs").leaves(jpath{"msgs"}, &leaves)
		modelled := 0
		for _, lp := range leaves {
			t2 := tree.clone()
			how := perturbLeaf(rr, t2, lp)
			if how == "" {
				continue
			}
			a2 := t2.bytes()
			// protobuf twin: rebuild the messages from the perturbed amino JSON
			var p2 []byte
			s2 := spec
			s2.Msgs = nil
			okMsgs := true
			for _, mj := range t2.get("msgs").Arr {
				var m sdk.Msg
				if err := amino.UnmarshalJSON(mj.bytes(), &m); err != nil {
					okMsgs = false
					break
				}
				s2.Msgs = append(s2.Msgs, m)
			}
			if okMsgs {
				func() {
					defer func() { recover() }()
					if bytes.Equal(s2.aminoBytes(), a2) { // the perturbed JSON is the canonical JSON of real messages
						p2 = s2.protoBytes()
					}
				}()
			}
			check("msg"+lp.String()[len(".msgs"):], how, a2, p2)
			if modelled < 2 && rr.Chance(25) {
				modelled++
				d.eipCase(a2, "perturbed", true)
			}
		}
	}
	d.runSynthetic(r.Fork(424242), n)
}

// runSynthetic feeds arbitrary JSON documents (not registered messages) to the flattening so that the model's
// type derivation is exercised on shapes real messages rarely have.
func (d *drv) runSynthetic(r *Rng, n int) {
	keys := []string{"a", "b", "foo", "foo_bar", "bar", "x1", "value", "type", "amount", "a_b_c", "fooBar", "z9", "msg0", "msg1", "n", "t", "list", "obj"}
	var gen func(rr *Rng, depth int) *jv
	gen = func(rr *Rng, depth int) *jv {
		k := rr.Intn(10)
		if depth <= 0 && k >= 6 {
			k = rr.Intn(6)
		}
		switch k {
		case 0:
			return &jv{Kind: jStr, S: randText(rr)}
		case 1:
			return &jv{Kind: jStr, S: []string{"1", "0x10", "", "-5", "12345678901234567890"}[rr.Intn(5)]}
		case 2:
			return &jv{Kind: jNum, Num: []string{"0", "1", "-1", "42", "9007199254740993", "1.5", "1e3", "-0", "9223372036854775807", "9223372036854775808", "-9223372036854775808", "1e30", "2.0"}[rr.Intn(13)]}
		case 3:
			return &jv{Kind: jBool, B: rr.Bool()}
		case 4:
			if rr.Chance(30) {
				return &jv{Kind: jNull}
			}
			return &jv{Kind: jStr, S: "s"}
		case 5:
			return &jv{Kind: jArr, Arr: []*jv{}}
		case 6, 7: // array
			m := 1 + rr.Intn(3)
			out := &jv{Kind: jArr}
			first := gen(rr, depth-1)
			out.Arr = append(out.Arr, first)
			for i := 1; i < m; i++ {
				if rr.Chance(70) { // homogeneous: same shape as the first, leaves re-randomised
					e := first.clone()
					var ls []jpath
					e.leaves(nil, &ls)
					for _, lp := range ls {
						if rr.Bool() {
							perturbLeaf(rr, e, lp)
						}
					}
					out.Arr = append(out.Arr, e)
				} else {
					out.Arr = append(out.Arr, gen(rr, depth-1))
				}
			}
			return out
		default: // object
			out := &jv{Kind: jObj, Obj: []jkv{}}
			m := rr.Intn(4)
			for i := 0; i < m; i++ {
				k := keys[rr.Intn(len(keys))]
				if out.get(k) == nil && !(strings.HasPrefix(k, "msg")) {
					out.Obj = append(out.Obj, jkv{k, gen(rr, depth-1)})
				}
			}
			return out
		}
	}
	for i := 0; i < n; i++ {
		rr := r.Fork(uint64(i))
		doc := &jv{Kind: jObj}
		doc.set("account_number", &jv{Kind: jStr, S: fmt.Sprint(rr.Intn(100))})
		doc.set("chain_id", &jv{Kind: jStr, S: []string{"evermint_80808-1", "a_1-1", "bad", "evermint_18446744073709551617-1", "e_9223372036854775808-2", " x_5-5 ", "x_05-1"}[rr.Intn(7)]})
		if rr.Chance(80) {
			doc.set("chain_id", &jv{Kind: jStr, S: "evermint_80808-1"})
		}
		fee := &jv{Kind: jObj}
		fee.set("amount", &jv{Kind: jArr, Arr: []*jv{}})
		if rr.Bool() {
			coin := &jv{Kind: jObj}
			coin.set("amount", &jv{Kind: jStr, S: "5"})
			coin.set("denom", &jv{Kind: jStr, S: "wei"})
			fee.get("amount").Arr = append(fee.get("amount").Arr, coin)
		}
		fee.set("gas", &jv{Kind: jStr, S: "200000"})
		doc.set("fee", fee)
		doc.set("memo", &jv{Kind: jStr, S: randText(rr)})
		doc.set("sequence", &jv{Kind: jStr, S: fmt.Sprint(rr.Intn(100))})
		msgs := &jv{Kind: jArr}
		nm := 1 + rr.Intn(3)
		for j := 0; j < nm; j++ {
			m := &jv{Kind: jObj}
			m.set("type", &jv{Kind: jStr, S: []string{"cosmos-sdk/MsgSend", "MsgX", "a/b/MsgY", "cosmos-sdk/MsgSend", "x/", "evermint/cpc/Msg_z"}[rr.Intn(6)]})
			val := gen(rr, 3)
			if val.Kind != jObj && rr.Chance(80) {
				o := &jv{Kind: jObj}
				o.set("v", val)
				val = o
			}
			m.set("value", val)
			msgs.Arr = append(msgs.Arr, m)
		}
		doc.set("msgs", msgs)
		// structural oddities
		switch rr.Intn(14) {
		case 0:
			doc.del("msgs")
		case 1:
			doc.set("msgs", &jv{Kind: jStr, S: "x"})
		case 2:
			msgs.Arr = append(msgs.Arr, &jv{Kind: jStr, S: "notobject"})
		case 3:
			doc.set("msg0", &jv{Kind: jStr, S: "preexisting"})
		case 4:
			doc.set("timeout_height", &jv{Kind: jStr, S: "7"})
		case 5:
			doc.del("memo")
		case 6:
			fee.set("granter", &jv{Kind: jStr, S: "evm1xyz"})
		case 7:
			msgs.Arr[0].del("type")
		case 8:
			msgs.Arr[0].set("type", &jv{Kind: jNum, Num: "5"})
		case 9:
			msgs.Arr = []*jv{}
		case 10:
			doc.set("memo", &jv{Kind: jNum, Num: "5"})
		}
		d.eipCase(doc.bytes(), "synthetic", true)
	}
}
