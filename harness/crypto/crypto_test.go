package crypto

// Driver `crypto` (C19): eth_secp256k1 sign/verify wrapper, address derivation, HD derivation,
// key encodings and the EIP-712 rendering of sign documents, all on the REAL code of /repo,
// each with an oracle written from the property text on top of the independent implementations
// of indep_test.go.  Model cases (type `ccase` of coq/Corr/CorrCrypto.v) are emitted for coqc.

import (
	"bytes"
	"encoding/hex"
	"fmt"
	"sort"
	"strings"
	"testing"

	"github.com/cosmos/cosmos-sdk/codec/legacy"
	codectypes "github.com/cosmos/cosmos-sdk/codec/types"
	sdkcrypto "github.com/cosmos/cosmos-sdk/crypto"
	cryptotypes "github.com/cosmos/cosmos-sdk/crypto/types"
	"github.com/stretchr/testify/require"

	"github.com/EscanBE/evermint/v12/crypto/ethsecp256k1"
	"github.com/EscanBE/evermint/v12/ethereum/eip712"
	itu "github.com/EscanBE/evermint/v12/integration_test_util"

	. "verifharness/hx"
)

type drv struct {
	t     *testing.T
	side  *Sidecar
	cases *CasesFile
	suite *itu.ChainIntegrationTestSuite
	idx   int
}

func (d *drv) add(term, canonical string, nontrivial bool, desc interface{}) int {
	i := d.idx
	d.cases.Add(term)
	d.side.Case(i, canonical, nontrivial, desc)
	d.idx++
	return i
}

func hx(b []byte) string { return hex.EncodeToString(b) }

func TestDriverCrypto(t *testing.T) {
	dir := OutDir(t)
	seed := EnvSeed()
	n := EnvInt("VERIF_N", 60)
	suite := NewSuite(t) // app construction registers the codecs and calls eip712.SetEncodingConfig
	eip712.SetEncodingConfig(suite.EncodingConfig)
	rng := NewRng(seed)
	side := NewSidecar("crypto", seed,
		"cases: sign/verify wrapper (random keys/messages incl. 32-byte and EIP-712 sign docs, every single-bit flip of a sample of message/signature/key positions), "+
			"address vs independent keccak(uncompressed key), HD derivation vs independent BIP-32/39 + cosmos-sdk + published vectors (incl. a search for leading-zero intermediate keys), "+
			"path parsing (valid + malformed), key encodings, EIP-712 rendering of amino/protobuf sign docs and of the cpc typed messages under single-field perturbation; "+
			"non-trivial = the case exercised a non-default branch (EIP-712 fallback, 65-byte signature, hardened+non-hardened mix, non-canonical path syntax, nested/array message fields) and is distinct")
	cases := NewCases(dir, "From Evm Require Import CorrCrypto.", "crypto_mismatches")
	d := &drv{t: t, side: side, cases: cases, suite: suite}

	d.runSig(rng.Fork(1), n)
	d.runAddr(rng.Fork(2), n)
	d.runPaths(rng.Fork(3), n)
	d.runHD(rng.Fork(4), n)
	d.runEnc(rng.Fork(5), n)
	d.runEip712(rng.Fork(6), n)
	d.runTyped(rng.Fork(7), n)
	d.runCLIKeys(rng.Fork(8), n)

	per := 25
	if d.idx > 1200 {
		per = d.idx/48 + 1
	}
	cases.Write(t, per)
	side.Write(t, dir)
}

// ---------------------------------------------------------------- (1) sign / verify

func randBytes(r *Rng, n int) []byte {
	b := make([]byte, n)
	for i := range b {
		b[i] = byte(r.U64())
	}
	return b
}

func newKey(r *Rng) *ethsecp256k1.PrivKey {
	for {
		k := randBytes(r, 32)
		priv := &ethsecp256k1.PrivKey{Key: k}
		if priv.PubKey() != nil {
			return priv
		}
	}
}

func flipBit(b []byte, bit int) []byte {
	c := append([]byte{}, b...)
	c[bit/8] ^= 1 << uint(bit%8)
	return c
}

// verifyCase emits a CVerify case: the model recomputes keccak itself and looks ECDSA results up in the
// table the driver fills from the independent verifier for every (digest, signature) candidate.
func (d *drv) verifyCase(pk []byte, msg, sig []byte, tag string) bool {
	pub := &ethsecp256k1.PubKey{Key: pk}
	obs := pub.VerifySignature(msg, sig)
	e712, err := eip712.GetEIP712BytesForMsg(msg)
	digests := [][]byte{keccak(msg)}
	if err == nil {
		digests = append(digests, keccak(e712))
	}
	sigs := [][]byte{sig}
	if len(sig) >= 1 {
		sigs = append(sigs, sig[:len(sig)-1])
	}
	if len(sig) > 64 {
		sigs = append(sigs, sig[:64])
	}
	var tbl []string
	seen := map[string]bool{}
	for _, dg := range digests {
		for _, s := range sigs {
			k := hx(dg) + "/" + hx(s)
			if seen[k] {
				continue
			}
			seen[k] = true
			tbl = append(tbl, fmt.Sprintf("(%s, %s, %s)", cqBytes(dg), cqBytes(s), CqBool(ecdsaVerifyRS(pk, dg, s))))
		}
	}
	term := fmt.Sprintf("(CVerify %s %s %s %s %s)", cqBytes(msg), cqBytes(sig), cqOptBytes(e712, err == nil), CqList(tbl), CqBool(obs))
	d.add(term, "verify/"+tag+"/"+hx(keccak(pk, msg, sig)), err == nil || len(sig) == 65,
		map[string]interface{}{"kind": "verify", "tag": tag, "pk": hx(pk), "msg": hx(msg), "sig": hx(sig), "obs": obs, "eip712": err == nil})
	d.side.Count(fmt.Sprintf("verify:%s:%v", tag, obs))
	return obs
}

func (d *drv) runSig(r *Rng, n int) {
	lens := []int{0, 1, 31, 32, 33, 64, 65, 100, 136, 137, 300}
	for i := 0; i < n; i++ {
		rr := r.Fork(uint64(i))
		priv := newKey(rr)
		pk := priv.PubKey().Bytes()
		ml := lens[rr.Intn(len(lens))]
		if rr.Chance(30) {
			ml = rr.Intn(200)
		}
		if i%10 == 3 {
			ml = 32
		}
		msg := randBytes(rr, ml)
		sig, err := priv.Sign(msg)
		require.NoError(d.t, err)
		require.Len(d.t, sig, 65)

		// which digest did Sign sign?  (independent verifier)
		which := 2
		if len(msg) == 32 && ecdsaVerifyRS(pk, msg, sig[:64]) {
			which = 0
		} else if ecdsaVerifyRS(pk, keccak(msg), sig[:64]) {
			which = 1
		}
		d.add(fmt.Sprintf("(CSignDigest %s %d%%N)", cqBytes(msg), which), "signdigest/"+hx(keccak(pk, msg)), len(msg) == 32,
			map[string]interface{}{"kind": "sign", "msg": hx(msg), "signed": []string{"raw message as digest", "keccak(message)", "neither"}[which]})
		d.side.Count(fmt.Sprintf("sign:digest=%d", which))
		if which == 2 {
			d.side.Hit("C19/crypto/sign/signature-matches-no-digest", "Sign returned a signature that verifies for neither the message nor its keccak hash", hx(msg))
		}

		ok := d.verifyCase(pk, msg, sig, "own")
		ok64 := d.verifyCase(pk, msg, sig[:64], "own64")
		if len(msg) != 32 && (!ok || !ok64) {
			// not a violation of "verifies only for", but the model says it must hold; coqc flags the mismatch
			d.side.Count("sign-then-verify-failed")
		}
		if len(msg) == 32 {
			// Sign treats a 32-byte message as a digest: the signature is over msg itself and therefore
			// verifies for any keccak-preimage of msg instead of msg. Demonstrate with a preimage we know.
			pre := randBytes(rr, 1+rr.Intn(80))
			dg := keccak(pre)
			sig2, err := priv.Sign(dg)
			require.NoError(d.t, err)
			vPre := d.verifyCase(pk, pre, sig2, "digest-preimage")
			vDg := d.verifyCase(pk, dg, sig2, "digest-itself")
			if vPre && !vDg {
				d.side.Hit("C19/crypto/sign/32-byte-message-is-treated-as-digest",
					"PrivKey.Sign(m) for a 32-byte m signs m itself as the digest: the signature does not verify for m but verifies for a different message m' with keccak(m') = m",
					map[string]interface{}{"signed_message": hx(dg), "verifies_for": hx(pre), "sig": hx(sig2), "pk": hx(pk)})
			}
		}

		// single-bit perturbations: message, signature (all 65 bytes), key. A sample of positions per case,
		// all positions over the run.
		hit := func(sig, what string, c interface{}) { d.side.Hit(sig, what, c) }
		if ok {
			for j := 0; j < 6 && len(msg) > 0; j++ {
				bit := rr.Intn(len(msg) * 8)
				m2 := flipBit(msg, bit)
				if d.verifyCase(pk, m2, sig, "msg-bit") {
					hit("C19/crypto/verify/perturbed-message-accepted", "signature verifies for a message differing in one bit", map[string]interface{}{"pk": hx(pk), "msg": hx(msg), "msg2": hx(m2), "sig": hx(sig)})
				}
			}
			// a signature made for M verifies for M only: not for its hash offered as a message (a 32-byte message is hashed
			// like any other), not for M cut or padded to 32 bytes, not for the hash with a byte appended
			pad32m := make([]byte, 32)
			copy(pad32m, msg)
			cut32 := pad32m
			if len(msg) > 32 {
				cut32 = msg[:32]
			}
			for _, cnd := range []struct {
				class string
				m     []byte
			}{{"hash-of-the-message", keccak(msg)}, {"hash-of-the-hash", keccak(keccak(msg))}, {"cut-or-padded-to-32-bytes", cut32},
				{"hash-with-a-byte-appended", append(keccak(msg), 0)}, {"message-with-its-hash-appended", append(append([]byte{}, msg...), keccak(msg)...)}} {
				if bytes.Equal(cnd.m, msg) {
					continue
				}
				if d.verifyCase(pk, cnd.m, sig, "msg-derived") || (cnd.class == "hash-of-the-message" && d.verifyCase(pk, cnd.m, sig[:64], "msg-derived64")) {
					hit("C19/crypto/verify/other-message-accepted/"+cnd.class, "a signature made for a message verifies for another byte string derived from it ("+cnd.class+")",
						map[string]interface{}{"pk": hx(pk), "msg": hx(msg), "candidate": hx(cnd.m), "sig": hx(sig)})
				}
			}
			// message length changes
			for _, m2 := range [][]byte{append(append([]byte{}, msg...), 0), msg[:len(msg)/2]} {
				if !bytes.Equal(m2, msg) && d.verifyCase(pk, m2, sig, "msg-len") {
					hit("C19/crypto/verify/perturbed-message-accepted", "signature verifies for a truncated/extended message", map[string]interface{}{"pk": hx(pk), "msg": hx(msg), "msg2": hx(m2)})
				}
			}
			for j := 0; j < 8; j++ {
				bit := rr.Intn(64 * 8)
				if j == 0 {
					bit = (i * 7) % 512
				}
				s2 := flipBit(sig, bit)
				if d.verifyCase(pk, msg, s2, "sig-bit") {
					hit("C19/crypto/verify/perturbed-signature-accepted", fmt.Sprintf("signature with bit %d of R||S flipped still verifies", bit), map[string]interface{}{"pk": hx(pk), "msg": hx(msg), "sig": hx(s2)})
				}
			}
			// recovery byte: ignored by the 65->64 truncation; same key, same message => not a violation (model-checked only)
			d.verifyCase(pk, msg, flipBit(sig, 64*8+rr.Intn(8)), "sig-v-bit")
			// other lengths
			for _, s2 := range [][]byte{sig[:63], append(append([]byte{}, sig...), 0), {}, sig[1:]} {
				if d.verifyCase(pk, msg, s2, "sig-len") {
					hit("C19/crypto/verify/malformed-signature-accepted", "signature of wrong length verifies", map[string]interface{}{"sig": hx(s2)})
				}
			}
			for j := 0; j < 5; j++ {
				bit := rr.Intn(33 * 8)
				pk2 := flipBit(pk, bit)
				if d.verifyCase(pk2, msg, sig, "key-bit") {
					hit("C19/crypto/verify/other-key-accepted", fmt.Sprintf("signature verifies under a key with bit %d flipped", bit), map[string]interface{}{"pk": hx(pk2), "msg": hx(msg), "sig": hx(sig)})
				}
			}
			other := newKey(rr).PubKey().Bytes()
			if d.verifyCase(other, msg, sig, "key-other") {
				hit("C19/crypto/verify/other-key-accepted", "signature verifies under an unrelated key", map[string]interface{}{"pk": hx(other)})
			}
			for _, pk2 := range [][]byte{pk[:32], append(append([]byte{}, pk...), 0), {}} {
				if d.verifyCase(pk2, msg, sig, "key-len") {
					hit("C19/crypto/verify/other-key-accepted", "signature verifies under a malformed key", map[string]interface{}{"pk": hx(pk2)})
				}
			}
		}
		// high-S twin (r, n-s): same key and message; go-ethereum rejects it (lower-S rule) — model-checked through the table
		s := new(bigInt).SetBytes(sig[32:64])
		hs := new(bigInt).Sub(ecN, s)
		twin := append(append([]byte{}, sig[:32]...), pad32(hs)...)
		d.verifyCase(pk, msg, twin, "high-s")
	}
}

// ---------------------------------------------------------------- (2) address

func (d *drv) runAddr(r *Rng, n int) {
	for i := 0; i < n; i++ {
		rr := r.Fork(uint64(i))
		var pk []byte
		kind := "valid"
		switch {
		case i%6 == 5:
			pk = randBytes(rr, 33) // mostly invalid prefix
			kind = "random33"
		case i%6 == 4:
			pk = newKey(rr).PubKey().Bytes()
			pk = pk[:rr.Intn(33)]
			kind = "short"
		case i%6 == 3:
			pk = append([]byte{2 + byte(rr.Intn(2))}, randBytes(rr, 32)...) // x on curve with probability 1/2
			kind = "random-x"
		default:
			priv := newKey(rr)
			if i%6 == 0 { // small scalars: keys with many leading zero bytes
				priv = &ethsecp256k1.PrivKey{Key: pad32(bigFromUint(uint64(1 + rr.Intn(1000))))}
			}
			pk = priv.PubKey().Bytes()
		}
		d.addrCase(pk, kind, "")
	}
	d.runAddrFamilies(r.Fork(909090), n)
}

// addrCase: PubKey.Address of one key against the independent computation (own decompression + keccak), as an
// oracle and as a model case.  after = which related key was asked just before in this process ("" = none).
func (d *drv) addrCase(pk []byte, kind, after string) {
	pub := &ethsecp256k1.PubKey{Key: pk}
	got := pub.Address().Bytes()
	p := ecDecompress(pk)
	var want, xy []byte
	if p != nil {
		xy = append(pad32(p.x), pad32(p.y)...)
		want = keccak(xy)[12:]
	}
	if !bytes.Equal(got, want) {
		sig := "C19/crypto/address/not-last-20-bytes-of-keccak-of-uncompressed-key"
		if after != "" {
			sig += "/" + kind + "-after-" + after
		}
		d.side.Hit(sig, "PubKey.Address differs from the last 20 bytes of keccak256(X||Y)", map[string]interface{}{"pk": hx(pk), "got": hx(got), "want": hx(want), "kind": kind, "asked_after": after})
	}
	canon := "addr/" + hx(pk)
	if after != "" {
		canon += "/" + kind + "-after-" + after
	}
	d.add(fmt.Sprintf("(CAddr %s %s)", cqOptBytes(xy, p != nil), cqBytes(got)), canon, p != nil,
		map[string]interface{}{"kind": "address", "family": kind, "asked_after": after, "pk": hx(pk), "address": hx(got)})
	if after != "" {
		d.side.Count("address-family:" + kind + "-after-" + after + fmt.Sprintf(":valid=%v", p != nil))
	} else {
		d.side.Count("address:" + kind + fmt.Sprintf(":valid=%v", p != nil))
	}
}

// runAddrFamilies: the address definition on RELATED keys within one process, in both orders: a key P and its mirror
// -P (same X, other parity byte; private key n-d), the same key twice, the X coordinate under invalid format bytes
// (0x00 0x01 0x04 0x05 0x06 0x07), valid keys that differ from P in one bit of X (sharing all other bytes), and keys
// whose X is P's X shifted by a byte (shared prefix / suffix).  Whatever the implementation remembers between calls
// must not show.
func (d *drv) runAddrFamilies(r *Rng, n int) {
	m := n/3 + 4
	for i := 0; i < m; i++ {
		rr := r.Fork(uint64(i))
		priv := newKey(rr)
		dk := new(bigInt).SetBytes(priv.Key)
		neg := &ethsecp256k1.PrivKey{Key: pad32(new(bigInt).Sub(ecN, dk))}
		P := priv.PubKey().Bytes()
		Pm := neg.PubKey().Bytes() // -P
		mirror := append([]byte{P[0] ^ 1}, P[1:]...)
		if !bytes.Equal(mirror, Pm) {
			d.side.Hit("C19/crypto/address/public-key-of-negated-private-key-is-not-the-mirror-key", "PubKey of n-d is not (X, -Y)", map[string]interface{}{"P": hx(P), "minusP": hx(Pm)})
		}
		first, second := P, Pm
		a, b := "P", "minusP"
		if i%2 == 1 { // the other order
			first, second = Pm, P
			a, b = "minusP", "P"
		}
		d.addrCase(first, a, "fresh")
		d.addrCase(second, b, a)
		d.addrCase(first, a, b)
		d.addrCase(first, a, "itself")
		for _, fb := range []byte{0x00, 0x01, 0x04, 0x05, 0x06, 0x07} {
			bad := append([]byte{fb}, P[1:]...)
			d.addrCase(bad, fmt.Sprintf("format-byte-%02x", fb), "P")
		}
		// invalid format byte FIRST for a fresh key, then the valid key
		q := newKey(rr).PubKey().Bytes()
		d.addrCase(append([]byte{0x05}, q[1:]...), "format-byte-05", "fresh")
		d.addrCase(q, "P", "format-byte-05")
		// neighbours in X: one bit flipped (valid with probability 1/2 each), all other bytes shared
		found := 0
		for bit := 0; bit < 64 && found < 2; bit++ {
			pos := 8 + (rr.Intn(31*8)+bit)%(32*8)
			nb := flipBit(P, pos)
			if ecDecompress(nb) != nil {
				found++
				d.addrCase(nb, "x-bit-neighbour", "P")
			}
		}
		// X shifted by one byte: shares a 31-byte run with P
		for _, sh := range [][]byte{append(append([]byte{P[0]}, P[2:]...), 0x01), append([]byte{P[0], 0x01}, P[1:32]...)} {
			d.addrCase(sh, "x-shifted", "P")
		}
		// truncated / extended
		d.addrCase(P[:32], "short", "P")
		d.addrCase(append(append([]byte{}, P...), 0), "long", "P")
	}
}

// ---------------------------------------------------------------- (4) key encodings

func (d *drv) runEnc(r *Rng, n int) {
	cdc := d.suite.EncodingConfig.Codec
	amino := legacy.Cdc
	fail := func(what string, c interface{}) {
		d.side.Hit("C19/crypto/encoding/"+what, "key encoding does not round-trip: "+what, c)
	}
	for i := 0; i < n; i++ {
		rr := r.Fork(uint64(i))
		priv := newKey(rr)
		if i%5 == 0 {
			priv = &ethsecp256k1.PrivKey{Key: pad32(bigFromUint(uint64(1 + rr.Intn(255))))} // leading zero bytes
		}
		pub := priv.PubKey().(*ethsecp256k1.PubKey)
		c := map[string]interface{}{"priv": hx(priv.Key), "pub": hx(pub.Key)}

		// protobuf message bytes
		pb, err := pub.Marshal()
		require.NoError(d.t, err)
		var pub2 ethsecp256k1.PubKey
		if err := pub2.Unmarshal(pb); err != nil || !pub2.Equals(pub) {
			fail("protobuf/pubkey", c)
		}
		d.add(fmt.Sprintf("(CProtoEnc %s %s)", cqBytes(pub.Key), cqBytes(pb)), "protoenc/"+hx(pub.Key), true, c)
		sb, err := priv.Marshal()
		require.NoError(d.t, err)
		var priv2 ethsecp256k1.PrivKey
		if err := priv2.Unmarshal(sb); err != nil || !priv2.Equals(priv) {
			fail("protobuf/privkey", c)
		}
		d.add(fmt.Sprintf("(CProtoEnc %s %s)", cqBytes(priv.Key), cqBytes(sb)), "protoenc/"+hx(keccak(priv.Key)), true, c)

		// protobuf Any through the interface registry
		anyPk, err := codectypes.NewAnyWithValue(pub)
		require.NoError(d.t, err)
		bz, err := cdc.Marshal(anyPk)
		require.NoError(d.t, err)
		var any2 codectypes.Any
		require.NoError(d.t, cdc.Unmarshal(bz, &any2))
		var pkI cryptotypes.PubKey
		if err := cdc.UnpackAny(&any2, &pkI); err != nil || !pkI.Equals(pub) || any2.TypeUrl != "/ethermint.crypto.v1.ethsecp256k1.PubKey" {
			fail("any/pubkey", c)
		}
		bz, err = cdc.MarshalInterface(priv)
		require.NoError(d.t, err)
		var skI cryptotypes.PrivKey
		if err := cdc.UnmarshalInterface(bz, &skI); err != nil || !skI.Equals(priv) {
			fail("any/privkey", c)
		}
		// proto JSON
		js, err := cdc.MarshalInterfaceJSON(pub)
		require.NoError(d.t, err)
		var pkJ cryptotypes.PubKey
		if err := cdc.UnmarshalInterfaceJSON(js, &pkJ); err != nil || !pkJ.Equals(pub) {
			fail("protojson/pubkey", c)
		}

		// amino binary + JSON
		ab, err := amino.Marshal(pub)
		require.NoError(d.t, err)
		var pkA cryptotypes.PubKey
		if err := amino.Unmarshal(ab, &pkA); err != nil || !pkA.Equals(pub) {
			fail("amino/pubkey", c)
		}
		d.add(fmt.Sprintf("(CAminoEnc true %s %s)", cqBytes(pub.Key), cqBytes(ab)), "aminoenc/"+hx(pub.Key), true, c)
		ab2, err := amino.Marshal(priv)
		require.NoError(d.t, err)
		var skA cryptotypes.PrivKey
		if err := amino.Unmarshal(ab2, &skA); err != nil || !skA.Equals(priv) {
			fail("amino/privkey", c)
		}
		d.add(fmt.Sprintf("(CAminoEnc false %s %s)", cqBytes(priv.Key), cqBytes(ab2)), "aminoenc/"+hx(keccak(priv.Key)), true, c)
		aj, err := amino.MarshalJSON(pub)
		require.NoError(d.t, err)
		var pkAJ cryptotypes.PubKey
		if err := amino.UnmarshalJSON(aj, &pkAJ); err != nil || !pkAJ.Equals(pub) {
			fail("aminojson/pubkey", c)
		}
		aj, err = amino.MarshalJSON(priv)
		require.NoError(d.t, err)
		var skAJ cryptotypes.PrivKey
		if err := amino.UnmarshalJSON(aj, &skAJ); err != nil || !skAJ.Equals(priv) {
			fail("aminojson/privkey", c)
		}

		// UnmarshalAmino length checks on arbitrary byte strings
		for _, l := range []int{0, 31, 32, 33, 34, rr.Intn(70)} {
			raw := randBytes(rr, l)
			var p1 ethsecp256k1.PubKey
			e1 := p1.UnmarshalAmino(raw)
			d.add(fmt.Sprintf("(CAminoDec true %s %s)", cqBytes(raw), cqOptBytes(p1.Key, e1 == nil)), fmt.Sprintf("aminodec/pub/%d/%s", l, hx(keccak(raw))), e1 == nil, nil)
			var s1 ethsecp256k1.PrivKey
			e2 := s1.UnmarshalAmino(raw)
			d.add(fmt.Sprintf("(CAminoDec false %s %s)", cqBytes(raw), cqOptBytes(s1.Key, e2 == nil)), fmt.Sprintf("aminodec/priv/%d/%s", l, hx(keccak(raw))), e2 == nil, nil)
			d.side.Count(fmt.Sprintf("aminodec:len=%d:pub=%v:priv=%v", l, e1 == nil, e2 == nil))
		}

		// armor (public key), ECDSA conversion
		arm := sdkcrypto.ArmorPubKeyBytes(amino.MustMarshal(pub), ethsecp256k1.KeyType)
		ub, algo, err := sdkcrypto.UnarmorPubKeyBytes(arm)
		if err != nil || algo != ethsecp256k1.KeyType || !bytes.Equal(ub, ab) {
			fail("armor/pubkey", c)
		}
		ec, err := priv.ToECDSA()
		require.NoError(d.t, err)
		if !bytes.Equal(pad32(ec.D), priv.Key) {
			fail("ecdsa/privkey", c)
		}
		// public key of the private key vs independent scalar multiplication
		if i%3 == 0 {
			if !bytes.Equal(ecCompress(pubOfPriv(priv.Key)), pub.Key) {
				d.side.Hit("C19/crypto/pubkey/not-k-times-G", "PrivKey.PubKey is not the compressed point k*G", c)
			}
		}
		d.side.Count("encoding:roundtrips")
	}
	// one encrypted-armor round trip (bcrypt makes it slow)
	priv := newKey(r.Fork(999999))
	arm := sdkcrypto.EncryptArmorPrivKey(priv, "passphrase", ethsecp256k1.KeyType)
	sk, algo, err := sdkcrypto.UnarmorDecryptPrivKey(arm, "passphrase")
	if err != nil || algo != ethsecp256k1.KeyType || !sk.Equals(priv) {
		fail("armor/privkey", hx(priv.Key))
	}
}

// ---------------------------------------------------------------- helpers

func sortedKeys(m map[string]int) []string {
	ks := make([]string, 0, len(m))
	for k := range m {
		ks = append(ks, k)
	}
	sort.Strings(ks)
	return ks
}

func cqNList(xs []uint32) string {
	parts := make([]string, len(xs))
	for i, x := range xs {
		parts[i] = fmt.Sprintf("%d%%N", x)
	}
	return "[" + strings.Join(parts, "; ") + "]"
}
