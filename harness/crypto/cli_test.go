package crypto

// "Key encodings round-trip" at the level a user sees (C19): the hex text `keys unsafe-export-eth-key` prints
// (/repo/client/export.go) is the 32-byte encoding of the key, and `keys unsafe-import-eth-key` (/repo/client/import.go)
// of that text gives the same key back.  The commands' RunE functions are called with an in-memory keyring.  Keys with
// leading zero bytes / nibbles and small scalars are the point: an unpadded encoding is shorter for them.
// Oracle signature: C19/crypto/key-encoding/export-import-roundtrip

import (
	"bytes"
	"context"
	"encoding/hex"
	"fmt"
	"io"
	"os"
	"strings"

	sdkclient "github.com/cosmos/cosmos-sdk/client"
	sdkcrypto "github.com/cosmos/cosmos-sdk/crypto"
	"github.com/cosmos/cosmos-sdk/crypto/keyring"
	"github.com/spf13/cobra"

	evclient "github.com/EscanBE/evermint/v12/client"
	"github.com/EscanBE/evermint/v12/crypto/ethsecp256k1"
	"github.com/EscanBE/evermint/v12/crypto/hd"

	. "verifharness/hx"
)

// runCLI calls a command's RunE with the given keyring in its client context and returns what it printed.
func (d *drv) runCLI(cmd *cobra.Command, kr keyring.Keyring, stdin string, args ...string) (out string, err error) {
	defer func() {
		if p := recover(); p != nil {
			err = fmt.Errorf("panic: %v", p)
		}
	}()
	enc := d.suite.EncodingConfig
	ctx := sdkclient.Context{}.WithCodec(enc.Codec).WithInterfaceRegistry(enc.InterfaceRegistry).WithLegacyAmino(enc.Amino).WithKeyring(kr)
	cmd.SetContext(context.WithValue(context.Background(), sdkclient.ClientContextKey, &ctx))
	cmd.SetIn(strings.NewReader(stdin))
	cmd.SetOut(io.Discard)
	cmd.SetErr(io.Discard)
	real := os.Stdout
	r, w, perr := os.Pipe()
	if perr != nil {
		return "", perr
	}
	os.Stdout = w
	done := make(chan string)
	go func() {
		var buf bytes.Buffer
		_, _ = io.Copy(&buf, r)
		done <- buf.String()
	}()
	func() {
		defer func() {
			if p := recover(); p != nil {
				err = fmt.Errorf("panic: %v", p)
			}
		}()
		err = cmd.RunE(cmd, args)
	}()
	_ = w.Close()
	os.Stdout = real
	return <-done, err
}

func (d *drv) runCLIKeys(r *Rng, n int) {
	m := n/3 + 6
	for i := 0; i < m; i++ {
		rr := r.Fork(uint64(i))
		key := randBytes(rr, 32)
		class := []string{"random", "one-leading-zero-byte", "two-leading-zero-bytes", "leading-zero-nibble", "small-scalar", "one-leading-zero-byte"}[i%6]
		switch class {
		case "one-leading-zero-byte":
			key[0] = 0
			key[1] |= 0x10
		case "two-leading-zero-bytes":
			key[0], key[1] = 0, 0
			key[2] |= 0x10
		case "leading-zero-nibble":
			key[0] = key[0]&0x0f | 0x01
			key[0] &= 0x0f
		case "small-scalar":
			key = pad32(bigFromUint(uint64(1 + rr.Intn(1<<20))))
		default:
			key[0] |= 0x10
			key[0] &= 0x7f
		}
		priv := &ethsecp256k1.PrivKey{Key: key}
		if priv.PubKey() == nil {
			continue
		}
		d.side.Count("cli-key:" + class)
		cs := map[string]interface{}{"kind": "cli-key-roundtrip", "class": class, "key": hx(key)}
		hit := func(msg string) {
			d.side.Hit("C19/crypto/key-encoding/export-import-roundtrip", msg, cs)
		}
		kr := keyring.NewInMemory(d.suite.EncodingConfig.Codec, hd.MultiSecp256k1Option())
		pass := "12345678"
		if err := kr.ImportPrivKey("orig", sdkcrypto.EncryptArmorPrivKey(priv, pass, ethsecp256k1.KeyType), pass); err != nil {
			d.side.Count("cli-key:keyring-import-failed")
			continue
		}
		out, err := d.runCLI(evclient.UnsafeExportEthKeyCommand(), kr, "", "orig")
		text := strings.TrimSpace(out)
		cs["exported"] = text
		if err != nil {
			hit("unsafe-export-eth-key fails for a key in the keyring: " + err.Error())
			continue
		}
		if dec, derr := hex.DecodeString(text); derr != nil || !bytes.Equal(dec, key) {
			hit(fmt.Sprintf("the exported text is not the hexadecimal 32-byte encoding of the key (%d characters)", len(text)))
		}
		if _, err := d.runCLI(evclient.UnsafeImportKeyCommand(), kr, pass+"\n", "again", text); err != nil {
			hit("unsafe-import-eth-key refuses what unsafe-export-eth-key printed: " + firstLineOf(err.Error()))
			continue
		}
		a, errA := kr.Key("orig")
		b, errB := kr.Key("again")
		if errA != nil || errB != nil {
			hit("the re-imported key is not in the keyring")
			continue
		}
		pa, _ := a.GetPubKey()
		pb, _ := b.GetPubKey()
		if pa == nil || pb == nil || !bytes.Equal(pa.Bytes(), pb.Bytes()) || !bytes.Equal(pa.Bytes(), priv.PubKey().Bytes()) {
			hit("export followed by import gives another key")
		}
		// the importer on its own: 0x prefix and lower case
		if _, err := d.runCLI(evclient.UnsafeImportKeyCommand(), kr, pass+"\n", "third", "0x"+hx(key)); err != nil {
			hit("unsafe-import-eth-key refuses the 0x-prefixed 32-byte encoding: " + firstLineOf(err.Error()))
		} else if c, err := kr.Key("third"); err == nil {
			if pc, _ := c.GetPubKey(); pc == nil || !bytes.Equal(pc.Bytes(), priv.PubKey().Bytes()) {
				hit("import of the 32-byte encoding gives another key")
			}
		}
		d.side.Count("cli-key:roundtrip-checked")
	}
}

func firstLineOf(s string) string {
	if i := strings.IndexByte(s, '\n'); i >= 0 {
		s = s[:i]
	}
	if len(s) > 160 {
		s = s[:160]
	}
	return s
}
