package crypto

// Independent reference implementations used as oracles by the `crypto` driver (C19).
// Nothing in this file calls into /repo, go-ethereum's crypto package, btcec/decred or
// cosmos-sdk: secp256k1 arithmetic, ECDSA verification, public-key (de)compression,
// BIP-32 CKDpriv, BIP-39 seed derivation and the EIP-712 struct hash are written from
// the specifications on top of math/big, crypto/hmac, crypto/sha512, x/crypto/pbkdf2,
// x/crypto/sha3 and x/text/unicode/norm only.

import (
	"bytes"
	"crypto/hmac"
	"crypto/sha256"
	"crypto/sha512"
	"encoding/binary"
	"errors"
	"fmt"
	"math/big"
	"sort"
	"strings"

	cosmosbip39 "github.com/cosmos/go-bip39"
	"golang.org/x/crypto/pbkdf2"
	"golang.org/x/crypto/sha3"
	"golang.org/x/text/unicode/norm"
)

// ---------------------------------------------------------------- keccak

func keccak(b ...[]byte) []byte {
	h := sha3.NewLegacyKeccak256()
	for _, x := range b {
		h.Write(x)
	}
	return h.Sum(nil)
}

// ---------------------------------------------------------------- secp256k1 (affine, math/big)

var (
	ecP, _  = new(big.Int).SetString("FFFFFFFFFFFFFFFFFFFFFFFFFFFFFFFFFFFFFFFFFFFFFFFFFFFFFFFEFFFFFC2F", 16)
	ecN, _  = new(big.Int).SetString("FFFFFFFFFFFFFFFFFFFFFFFFFFFFFFFEBAAEDCE6AF48A03BBFD25E8CD0364141", 16)
	ecGx, _ = new(big.Int).SetString("79BE667EF9DCBBAC55A06295CE870B07029BFCDB2DCE28D959F2815B16F81798", 16)
	ecGy, _ = new(big.Int).SetString("483ADA7726A3C4655DA4FBFC0E1108A8FD17B448A68554199C47D08FFB10D4B8", 16)
	ecHalfN = new(big.Int).Rsh(ecN, 1)
)

type ecPoint struct {
	x, y *big.Int
	inf  bool
}

func ecAdd(a, b ecPoint) ecPoint {
	if a.inf {
		return b
	}
	if b.inf {
		return a
	}
	var l *big.Int
	if a.x.Cmp(b.x) == 0 {
		if new(big.Int).Mod(new(big.Int).Add(a.y, b.y), ecP).Sign() == 0 {
			return ecPoint{inf: true}
		}
		// doubling: l = 3x^2 / 2y
		num := new(big.Int).Mul(big.NewInt(3), new(big.Int).Mul(a.x, a.x))
		den := new(big.Int).ModInverse(new(big.Int).Lsh(a.y, 1), ecP)
		l = num.Mul(num, den)
	} else {
		num := new(big.Int).Sub(b.y, a.y)
		den := new(big.Int).ModInverse(new(big.Int).Mod(new(big.Int).Sub(b.x, a.x), ecP), ecP)
		l = num.Mul(num, den)
	}
	l.Mod(l, ecP)
	x := new(big.Int).Mul(l, l)
	x.Sub(x, a.x).Sub(x, b.x).Mod(x, ecP)
	y := new(big.Int).Sub(a.x, x)
	y.Mul(y, l).Sub(y, a.y).Mod(y, ecP)
	return ecPoint{x: x, y: y}
}

func ecMul(k *big.Int, p ecPoint) ecPoint {
	r := ecPoint{inf: true}
	for i := k.BitLen() - 1; i >= 0; i-- {
		r = ecAdd(r, r)
		if k.Bit(i) == 1 {
			r = ecAdd(r, p)
		}
	}
	return r
}

func ecG() ecPoint { return ecPoint{x: ecGx, y: ecGy} }

func pad32(z *big.Int) []byte {
	b := z.Bytes()
	out := make([]byte, 32)
	copy(out[32-len(b):], b)
	return out
}

func ecCompress(p ecPoint) []byte {
	out := make([]byte, 33)
	out[0] = 2 + byte(p.y.Bit(0))
	copy(out[1:], pad32(p.x))
	return out
}

// ecDecompress parses a 33-byte SEC1 compressed point; nil if invalid.
func ecDecompress(pk []byte) *ecPoint {
	if len(pk) != 33 || (pk[0] != 2 && pk[0] != 3) {
		return nil
	}
	x := new(big.Int).SetBytes(pk[1:])
	if x.Cmp(ecP) >= 0 {
		return nil
	}
	// y^2 = x^3 + 7
	y2 := new(big.Int).Exp(x, big.NewInt(3), ecP)
	y2.Add(y2, big.NewInt(7)).Mod(y2, ecP)
	e := new(big.Int).Add(ecP, big.NewInt(1))
	e.Rsh(e, 2)
	y := new(big.Int).Exp(y2, e, ecP)
	if new(big.Int).Exp(y, big.NewInt(2), ecP).Cmp(y2) != 0 {
		return nil
	}
	if y.Bit(0) != uint(pk[0]&1) {
		y.Sub(ecP, y)
	}
	return &ecPoint{x: x, y: y}
}

func pubOfPriv(k []byte) ecPoint { return ecMul(new(big.Int).SetBytes(k), ecG()) }

// ecdsaVerifyRS: textbook ECDSA verification over a 32-byte digest with sig = R||S (64 bytes),
// plus the lower-S rule that go-ethereum's VerifySignature documents.
func ecdsaVerifyRS(pk33, digest, sig []byte) bool {
	if len(sig) != 64 || len(digest) != 32 {
		return false
	}
	p := ecDecompress(pk33)
	if p == nil {
		return false
	}
	r := new(big.Int).SetBytes(sig[:32])
	s := new(big.Int).SetBytes(sig[32:])
	if r.Sign() == 0 || s.Sign() == 0 || r.Cmp(ecN) >= 0 || s.Cmp(ecN) >= 0 {
		return false
	}
	if s.Cmp(ecHalfN) > 0 {
		return false
	}
	z := new(big.Int).SetBytes(digest)
	w := new(big.Int).ModInverse(s, ecN)
	u1 := new(big.Int).Mul(z, w)
	u1.Mod(u1, ecN)
	u2 := new(big.Int).Mul(r, w)
	u2.Mod(u2, ecN)
	pt := ecAdd(ecMul(u1, ecG()), ecMul(u2, *p))
	if pt.inf {
		return false
	}
	return new(big.Int).Mod(pt.x, ecN).Cmp(r) == 0
}

// ---------------------------------------------------------------- BIP-39 / BIP-32

func bip39Seed(mnemonic, passphrase string) []byte {
	return pbkdf2.Key([]byte(norm.NFKD.String(mnemonic)), []byte("mnemonic"+norm.NFKD.String(passphrase)), 2048, 64, sha512.New)
}

// bip39Valid checks word count, word list membership (English list, taken as data from cosmos/go-bip39)
// and the checksum: the last ENT/32 bits are the first bits of sha256(entropy).
func bip39Valid(mnemonic string) bool {
	words := strings.Fields(mnemonic)
	n := len(words)
	if n < 12 || n > 24 || n%3 != 0 {
		return false
	}
	idx := map[string]int{}
	for i, w := range cosmosbip39.WordList {
		idx[w] = i
	}
	acc := new(big.Int)
	for _, w := range words {
		i, ok := idx[w]
		if !ok {
			return false
		}
		acc.Lsh(acc, 11)
		acc.Or(acc, big.NewInt(int64(i)))
	}
	csBits := uint(n * 11 / 33)
	entBits := uint(n*11) - csBits
	cs := new(big.Int).And(acc, new(big.Int).Sub(new(big.Int).Lsh(big.NewInt(1), csBits), big.NewInt(1)))
	ent := new(big.Int).Rsh(acc, csBits)
	eb := ent.Bytes()
	entropy := make([]byte, entBits/8)
	copy(entropy[len(entropy)-len(eb):], eb)
	h := sha256.Sum256(entropy)
	return uint64(h[0])>>(8-csBits) == cs.Uint64()
}

func hmac512(key, data []byte) []byte {
	m := hmac.New(sha512.New, key)
	m.Write(data)
	return m.Sum(nil)
}

type bip32Step struct {
	ParentKey []byte // 32 bytes
	Index     uint32
}

var errBip32Invalid = errors.New("bip32: invalid child")

// bip32Derive follows BIP-32 "Private parent key -> private child key" along path from a seed.
// It also returns every intermediate private key (master first).
func bip32Derive(seed []byte, path []uint32) (key []byte, inter [][]byte, err error) {
	if len(seed) < 16 || len(seed) > 64 {
		return nil, nil, errors.New("bip32: seed length")
	}
	I := hmac512([]byte("Bitcoin seed"), seed)
	k := new(big.Int).SetBytes(I[:32])
	c := I[32:]
	if k.Sign() == 0 || k.Cmp(ecN) >= 0 {
		return nil, nil, errBip32Invalid
	}
	inter = append(inter, pad32(k))
	for _, i := range path {
		var data []byte
		if i >= 0x80000000 {
			data = append([]byte{0}, pad32(k)...)
		} else {
			data = ecCompress(ecMul(k, ecG()))
		}
		var ib [4]byte
		binary.BigEndian.PutUint32(ib[:], i)
		data = append(data, ib[:]...)
		I = hmac512(c, data)
		il := new(big.Int).SetBytes(I[:32])
		if il.Cmp(ecN) >= 0 {
			return nil, inter, errBip32Invalid
		}
		k = new(big.Int).Mod(new(big.Int).Add(il, k), ecN)
		if k.Sign() == 0 {
			return nil, inter, errBip32Invalid
		}
		c = I[32:]
		inter = append(inter, pad32(k))
	}
	return pad32(k), inter, nil
}

// ---------------------------------------------------------------- EIP-712 (from the EIP text)

type specField struct{ Name, Type string }
type specTypes map[string][]specField

func specDeps(t specTypes, primary string, found map[string]bool) {
	primary = strings.TrimSuffix(primary, "[]")
	if found[primary] {
		return
	}
	fs, ok := t[primary]
	if !ok {
		return
	}
	found[primary] = true
	for _, f := range fs {
		specDeps(t, f.Type, found)
	}
}

func specEncodeType(t specTypes, primary string) []byte {
	found := map[string]bool{}
	specDeps(t, primary, found)
	delete(found, primary)
	var deps []string
	for d := range found {
		deps = append(deps, d)
	}
	sort.Strings(deps)
	var sb bytes.Buffer
	for _, d := range append([]string{primary}, deps...) {
		sb.WriteString(d + "(")
		for i, f := range t[d] {
			if i > 0 {
				sb.WriteString(",")
			}
			sb.WriteString(f.Type + " " + f.Name)
		}
		sb.WriteString(")")
	}
	return sb.Bytes()
}

// specValue: string | bool | *big.Int | [20]byte address | []interface{} | map[string]interface{}
func specEncodeField(t specTypes, typ string, v interface{}) ([]byte, error) {
	if strings.HasSuffix(typ, "[]") {
		arr, ok := v.([]interface{})
		if !ok {
			return nil, fmt.Errorf("not an array for %s", typ)
		}
		var buf []byte
		for _, it := range arr {
			e, err := specEncodeField(t, strings.TrimSuffix(typ, "[]"), it)
			if err != nil {
				return nil, err
			}
			buf = append(buf, e...)
		}
		return keccak(buf), nil
	}
	if _, ok := t[typ]; ok {
		m, ok := v.(map[string]interface{})
		if !ok {
			return nil, fmt.Errorf("not a struct for %s", typ)
		}
		e, err := specEncodeData(t, typ, m)
		if err != nil {
			return nil, err
		}
		return keccak(e), nil
	}
	switch {
	case typ == "string":
		s, ok := v.(string)
		if !ok {
			return nil, fmt.Errorf("not a string")
		}
		return keccak([]byte(s)), nil
	case typ == "bool":
		b, ok := v.(bool)
		if !ok {
			return nil, fmt.Errorf("not a bool")
		}
		out := make([]byte, 32)
		if b {
			out[31] = 1
		}
		return out, nil
	case typ == "address":
		a, ok := v.([20]byte)
		if !ok {
			return nil, fmt.Errorf("not an address")
		}
		out := make([]byte, 32)
		copy(out[12:], a[:])
		return out, nil
	case strings.HasPrefix(typ, "int") || strings.HasPrefix(typ, "uint"):
		z, ok := v.(*big.Int)
		if !ok {
			return nil, fmt.Errorf("not an integer")
		}
		m := new(big.Int).Mod(z, new(big.Int).Lsh(big.NewInt(1), 256))
		return pad32(m), nil
	}
	return nil, fmt.Errorf("unsupported type %s", typ)
}

func specEncodeData(t specTypes, primary string, data map[string]interface{}) ([]byte, error) {
	out := keccak(specEncodeType(t, primary))
	for _, f := range t[primary] {
		v, ok := data[f.Name]
		if !ok {
			return nil, fmt.Errorf("missing %s", f.Name)
		}
		e, err := specEncodeField(t, f.Type, v)
		if err != nil {
			return nil, err
		}
		out = append(out, e...)
	}
	return out, nil
}

func specHashStruct(t specTypes, primary string, data map[string]interface{}) ([]byte, error) {
	e, err := specEncodeData(t, primary, data)
	if err != nil {
		return nil, err
	}
	return keccak(e), nil
}

// specTypedDataBytes = "\x19\x01" || hashStruct(domain) || hashStruct(message)
func specTypedDataBytes(t specTypes, primary string, domain, message map[string]interface{}) ([]byte, error) {
	d, err := specHashStruct(t, "EIP712Domain", domain)
	if err != nil {
		return nil, err
	}
	m, err := specHashStruct(t, primary, message)
	if err != nil {
		return nil, err
	}
	return append(append([]byte{0x19, 0x01}, d...), m...), nil
}
