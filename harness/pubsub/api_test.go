package pubsub

// The PublicFilterAPI layer (rpc/namespaces/ethereum/eth/filters/api.go) above the EventSystem: the filters map and
// filtersMu, NewFilter / NewBlockFilter / NewPendingTransactionFilter / GetFilterChanges / GetFilterLogs /
// UninstallFilter, the per-filter consumer goroutines and timeoutLoop.
//
//  (a) sequential API histories on the real PublicFilterAPI (real EventSystem, real WSClient, fake CometBFT websocket),
//      quiescence between ops decided from goroutine states, compared op by op with the sequential runs of the
//      transition system coq/Model/FilterApi.v (results, installed filter ids, CometBFT subscribe calls);
//  (b) a concurrent stress of the real API in a CHILD PROCESS: k goroutines x uninstall / changes / logs / new on SHARED
//      filter ids released by a barrier, a short inactivity deadline so that timeoutLoop expires filters under the
//      clients' hands, events streaming; the op mix is drawn from the seed, the interleaving is the runtime's. A double
//      Unsubscribe ends in `close of closed channel` inside EventSystem.eventLoop, an unrecovered goroutine: the
//      process dies, which is the observation (C20/pubsub/api-stress/...).

import (
	"bytes"
	"fmt"
	"math/big"
	"os"
	"os/exec"
	"sort"
	"strings"
	"sync"
	"sync/atomic"
	"testing"
	"time"

	abci "github.com/cometbft/cometbft/abci/types"
	tmjson "github.com/cometbft/cometbft/libs/json"
	coretypes "github.com/cometbft/cometbft/rpc/core/types"
	cmttypes "github.com/cometbft/cometbft/types"
	"github.com/cosmos/cosmos-sdk/client"
	ethtypes "github.com/ethereum/go-ethereum/core/types"
	"github.com/ethereum/go-ethereum/rpc"
	"github.com/gorilla/websocket"
	"github.com/stretchr/testify/require"

	chainapp "github.com/EscanBE/evermint/v12/app"
	rpcfilters "github.com/EscanBE/evermint/v12/rpc/namespaces/ethereum/eth/filters"
	rpctypes "github.com/EscanBE/evermint/v12/rpc/types"

	. "verifharness/hx"
)

type apiBackend struct {
	stubBackend
	cap int32
}

func (b apiBackend) RPCFilterCap() int32 { return b.cap }
func (b apiBackend) HeaderByNumber(rpctypes.BlockNumber) (*ethtypes.Header, error) {
	return &ethtypes.Header{Number: big.NewInt(0)}, nil
}

type apiWorld struct {
	t    *testing.T
	f    *fakeWS
	lg   *sigLogger
	api  *rpcfilters.PublicFilterAPI
	nbar int
	t0   time.Time // about when timeoutLoop created its ticker: ticks come at t0 + n * tick
}

var encOnce sync.Once
var encTxConfig client.TxConfig

// newApiWorld: tick = period of timeoutLoop's ticker (read from the package's deadline when the API is created);
// afterwards the deadline new / polled filters are armed with is `arm`.
func newApiWorld(t *testing.T, cap int32, tick, arm time.Duration) *apiWorld {
	encOnce.Do(func() { encTxConfig = chainappEncoding() })
	f := newFakeWS(t)
	lg := newSigLogger()
	rpcfilters.VerifSetFilterDeadline(tick)
	clientCtx := client.Context{}.WithTxConfig(encTxConfig)
	// the timeoutLoop goroutines that exist already (earlier worlds of this process: they cannot be stopped)
	old := map[int]bool{}
	for _, g := range goroutines() {
		if strings.Contains(g.stack, "PublicFilterAPI).timeoutLoop") {
			old[g.id] = true
		}
	}
	cl := f.client()
	t0 := time.Now()
	api := rpcfilters.NewPublicAPI(lg, clientCtx, cl, apiBackend{cap: cap})
	// timeoutLoop reads the package's deadline when it creates its ticker, its first statement: wait until THE NEW
	// goroutine (an id that did not exist before) is parked in `<-ticker.C`. (Counting parked timeoutLoop goroutines is
	// not enough: an older one that was in the middle of a tick when they were counted parks again and is mistaken for the
	// new one, which then starts with the long deadline as its tick period and never expires anything.)
	dl := time.Now().Add(2 * longWait)
	for parked := false; !parked; {
		for _, g := range goroutines() {
			if !old[g.id] && strings.Contains(g.stack, "PublicFilterAPI).timeoutLoop") && g.state == "chan receive" {
				parked = true
			}
		}
		if !parked {
			if time.Now().After(dl) {
				rpcfilters.VerifSetFilterDeadline(arm)
				return nil
			}
			time.Sleep(100 * time.Microsecond)
		}
	}
	rpcfilters.VerifSetFilterDeadline(arm)
	return &apiWorld{t: t, f: f, lg: lg, api: api, t0: t0}
}

func chainappEncoding() client.TxConfig { return chainapp.RegisterEncodingConfig().TxConfig }

func countGoroutines(fn, state string) int {
	n := 0
	for _, g := range goroutines() {
		if strings.Contains(g.stack, fn) && g.state == state {
			n++
		}
	}
	return n
}

func (w *apiWorld) barrier() bool {
	w.nbar++
	q := fmt.Sprintf("verif.api.barrier.%d.%p", w.nbar, w)
	if w.f.pushQuiet(q, 0) != nil {
		return false
	}
	deadline := time.Now().Add(longWait)
	for w.lg.seen(q) == 0 {
		if time.Now().After(deadline) {
			return false
		}
		time.Sleep(50 * time.Microsecond)
	}
	return true
}

func (f *fakeWS) pushHeader(q string, height int64) error {
	ev := coretypes.ResultEvent{Query: q, Data: cmttypes.EventDataNewBlockHeader{Header: cmttypes.Header{ChainID: "verif_1-1", Height: height}}}
	res, err := tmjson.Marshal(ev)
	if err != nil {
		return err
	}
	msg := fmt.Sprintf(`{"jsonrpc":"2.0","id":1,"result":%s}`, res)
	f.mu.Lock()
	defer f.mu.Unlock()
	return f.conn.WriteMessage(websocket.TextMessage, []byte(msg))
}

func (f *fakeWS) pushTxQuiet(q string, tx []byte) error {
	ev := coretypes.ResultEvent{Query: q, Data: cmttypes.EventDataTx{TxResult: abci.TxResult{Height: 5, Tx: tx, Result: abci.ExecTxResult{Code: 18}}},
		Events: map[string][]string{"ethereum_tx.ethereumTxHash": {"0x01"}}}
	res, err := tmjson.Marshal(ev)
	if err != nil {
		return err
	}
	msg := fmt.Sprintf(`{"jsonrpc":"2.0","id":1,"result":%s}`, res)
	f.mu.Lock()
	defer f.mu.Unlock()
	return f.conn.WriteMessage(websocket.TextMessage, []byte(msg))
}

// quietApi: the API's goroutines are parked at their loop heads as well (one snapshot for all components)
func quietApi() (bool, string, int) {
	gs := goroutines()
	if ok, why, id := quietIn(gs); !ok {
		return false, why, id
	}
	for _, g := range gs {
		s := g.stack
		switch {
		case strings.Contains(s, "PublicFilterAPI).NewBlockFilter.func1"), strings.Contains(s, "PublicFilterAPI).NewFilter.func1"),
			strings.Contains(s, "PublicFilterAPI).NewPendingTransactionFilter.func1"):
			if g.state != "select" {
				return false, "filter consumer busy: " + g.state, g.id
			}
		case strings.Contains(s, "PublicFilterAPI).timeoutLoop"):
			if g.state != "chan receive" {
				return false, "timeoutLoop busy: " + g.state, g.id
			}
		}
	}
	return true, "", 0
}

func waitQuietApi(t *testing.T) { waitQuietWith(t, quietApi) }

// ------------------------------------------------------------------ sequential histories

type apiHist struct {
	Cap   int      `json:"filter_cap"`
	Ops   []string `json:"ops"`
	Snaps []string `json:"snaps"`
}

// apiMirror: the sequential semantics of coq/Model/FilterApi.v (arun) once more, in Go, so that the driver knows which
// state an op must lead to and can WAIT for it instead of guessing when the asynchronous part of the op has landed
// (the Unsubscribe goroutine, eventLoop, the bus closing subscriber channels, the consumers dropping their filters,
// timeoutLoop's next tick, the Subscribe request reaching the CometBFT endpoint). Filters are driver numbers.
type apiMirror struct {
	cap       int
	typ       []int        // filter -> event type
	installed map[int]bool // keys of api.filters
	index     map[int]bool // subscriptions that went through es.install
	topic     [3]bool
	bsub      map[int]bool // open bus subscriber channels
	hashes    map[int]int
	wssub     [3]int
}

func newApiMirror(cap int) *apiMirror {
	return &apiMirror{cap: cap, installed: map[int]bool{}, index: map[int]bool{}, bsub: map[int]bool{}, hashes: map[int]int{}}
}

func (m *apiMirror) unsubscribe(k int) {
	ty := m.typ[k]
	delete(m.index, k)
	for g := range m.index {
		if m.typ[g] == ty {
			return // channelInUse
		}
	}
	if m.topic[ty] { // RemoveTopic + close: every subscriber channel of the topic is closed, the consumers drop their filters
		m.topic[ty] = false
		for g := range m.bsub {
			if m.typ[g] == ty {
				delete(m.bsub, g)
				delete(m.installed, g)
			}
		}
	}
}

// the expected results: see aapply in FilterApi.v
func (m *apiMirror) newFilter(ty int) int {
	if len(m.installed) >= m.cap {
		return 0
	}
	f := len(m.typ)
	m.typ = append(m.typ, ty)
	if !m.topic[ty] {
		m.wssub[ty]++
		m.index[f] = true
		m.topic[ty] = true
	}
	m.bsub[f] = true
	m.installed[f] = true
	m.hashes[f] = 0
	return f + 1
}
func (m *apiMirror) has(k int) bool { return k < len(m.typ) && m.installed[k] }
func (m *apiMirror) uninstall(k int) int {
	if !m.has(k) {
		return 0
	}
	delete(m.installed, k)
	m.unsubscribe(k)
	return 1
}
func (m *apiMirror) changes(k int) int {
	if !m.has(k) {
		return 0
	}
	n := m.hashes[k]
	m.hashes[k] = 0
	return 1 + n
}
func (m *apiMirror) logs(k int) int {
	if m.has(k) && m.typ[k] == 0 {
		return 1
	}
	return 0
}
func (m *apiMirror) expire(k int) int {
	if !m.has(k) {
		return 0
	}
	m.hashes[k] = 0
	delete(m.installed, k)
	m.unsubscribe(k)
	return 1
}
func (m *apiMirror) event(ty int, accepted bool) {
	if !accepted || !m.topic[ty] {
		return
	}
	for g := range m.bsub {
		if m.typ[g] == ty && m.installed[g] {
			m.hashes[g]++
		}
	}
}
func (m *apiMirror) filters() []int {
	var l []int
	for g := range m.installed {
		l = append(l, g)
	}
	sort.Ints(l)
	return l
}

func eqInts(a, b []int) bool {
	if len(a) != len(b) {
		return false
	}
	for i := range a {
		if a[i] != b[i] {
			return false
		}
	}
	return true
}

// typ: 0 logs, 1 blocks, 2 pending transactions
func runApiHistory(t *testing.T, r *Rng, side *Sidecar, nops int) (string, apiHist, bool) {
	cap := 100
	if r.Chance(35) {
		cap = 2 + r.Intn(4)
	}
	const tick = 10 * time.Millisecond
	hist := apiHist{Cap: cap}
	w := newApiWorld(t, int32(cap), tick, time.Hour)
	defer rpcfilters.VerifSetFilterDeadline(5 * time.Minute)
	if w == nil {
		skipReason = "timeoutLoop-not-seen-parked"
		return "", hist, false
	}
	defer w.f.shutdown()
	mir := newApiMirror(cap)
	var ids []rpc.ID
	idxOf := map[rpc.ID]int{}
	queries := map[int]string{0: qEvm, 1: qHeader, 2: qTx}
	var ops, snaps []string
	nontrivial := false
	height := int64(0)
	pick := func() (int, rpc.ID) {
		if len(ids) == 0 || r.Chance(8) {
			return len(ids) + r.Intn(3), rpc.ID("0xverifunknown")
		}
		k := r.Intn(len(ids))
		return k, ids[k]
	}
	observe := func() ([]int, []int) {
		var present []int
		for _, id := range w.api.VerifFilterIDs() {
			present = append(present, idxOf[id])
		}
		sort.Ints(present)
		subs := []int{0, 0, 0}
		w.f.mu.Lock()
		for _, c := range w.f.calls {
			for ty, q := range queries {
				if c == "subscribe "+q {
					subs[ty]++
				}
			}
		}
		w.f.mu.Unlock()
		return present, subs
	}
	// an API call that does not return: a verdict only with a goroutine the runtime reports as blocked for minutes
	apiCall := func(name string, f func()) bool {
		ok, ev := patiently(f)
		if ok {
			return true
		}
		if ev != "" && strings.Contains(ev, "PublicFilterAPI).") {
			side.Hit("C20/pubsub/api/call-never-returns/"+name, "a filter API call has been blocked for minutes", map[string]interface{}{"history": hist, "blocked": ev})
		} else {
			skipReason = "api-call-slow:" + name
		}
		return false
	}
	for k := 0; k < nops; k++ {
		res, want := 0, 0
		countOnly := false // the result depends on best-effort event delivery: a difference is no verdict
		var opS string
		kind := r.Intn(100)
		switch {
		case kind < 30:
			typ := []int{1, 1, 0, 2}[r.Intn(4)]
			var id rpc.ID
			var err error
			if !apiCall("new", func() {
				switch typ {
				case 0:
					id, err = w.api.NewFilter(ethLogsCrit())
				case 1:
					id = w.api.NewBlockFilter()
				default:
					id = w.api.NewPendingTransactionFilter()
				}
			}) {
				return "", hist, false
			}
			if err != nil || strings.HasPrefix(string(id), "error creating") {
				res = 0
				side.Count("api_new:error")
			} else {
				idxOf[id] = len(ids)
				ids = append(ids, id)
				res = len(ids) // 1 + index
			}
			want = mir.newFilter(typ)
			if (want == 0) != (res == 0) { // the driver's numbering would drift from the mirror's: give the model the case as seen
				want = -1
			}
			opS = fmt.Sprintf("ANew %d", typ)
			side.Count("api_op:New")
		case kind < 52:
			i, id := pick()
			if !apiCall("uninstall", func() {
				if w.api.UninstallFilter(id) {
					res = 1
				}
			}) {
				return "", hist, false
			}
			nontrivial = nontrivial || res == 1
			want = mir.uninstall(i)
			opS = fmt.Sprintf("AUninstall %d", i)
			side.Count(fmt.Sprintf("api_op:Uninstall:found=%d", res))
		case kind < 67:
			i, id := pick()
			if !apiCall("changes", func() {
				if v, err := w.api.GetFilterChanges(id); err == nil {
					res = 1 + changesLen(v)
				}
			}) {
				return "", hist, false
			}
			want = mir.changes(i)
			countOnly = res > 0 && want > 0
			opS = fmt.Sprintf("AChanges %d", i)
			side.Count(fmt.Sprintf("api_op:Changes:found=%v", res > 0))
		case kind < 72:
			i, id := pick()
			if !apiCall("logs", func() {
				if _, err := w.api.GetFilterLogs(nil, id); err == nil { //nolint:staticcheck
					res = 1
				}
			}) {
				return "", hist, false
			}
			want = mir.logs(i)
			opS = fmt.Sprintf("ALogs %d", i)
			side.Count(fmt.Sprintf("api_op:Logs:ok=%v", res == 1))
		case kind < 82: // let the filter's inactivity timer expire: re-arm it with a tiny deadline through a poll
			i, id := pick()
			rpcfilters.VerifSetFilterDeadline(time.Microsecond)
			ok := apiCall("changes", func() {
				if _, err := w.api.GetFilterChanges(id); err == nil {
					res = 1
				}
			})
			rpcfilters.VerifSetFilterDeadline(time.Hour)
			if !ok {
				return "", hist, false
			}
			nontrivial = nontrivial || res == 1
			want = mir.expire(i) // the next tick of timeoutLoop finds the fired timer: waited for below
			opS = fmt.Sprintf("AExpire %d", i)
			side.Count(fmt.Sprintf("api_op:Expire:found=%d", res))
		default:
			typ := []int{1, 1, 1, 0, 2}[r.Intn(5)]
			height++
			var err error
			if typ == 1 {
				err = w.f.pushHeader(queries[1], height)
			} else {
				err = w.f.pushQuiet(queries[typ], int(height)) // data of another type: the consumers skip it
			}
			if err != nil || !w.barrier() {
				if ev := blockedEvidence("EventSystem).consumeEvents"); ev != "" && !strings.Contains(ev, "[chan receive") {
					side.Hit("C20/pubsub/api/consume-stuck", "consumeEvents has been blocked for minutes", map[string]interface{}{"history": hist, "blocked": ev})
				} else {
					skipReason = "api-barrier-slow"
				}
				return "", hist, false
			}
			mir.event(typ, typ == 1)
			opS = fmt.Sprintf("AEvent %d %s", typ, CqBool(typ == 1))
			side.Count("api_op:Event")
		}
		progress("PublicFilterAPI", hist.Ops, opS+" (executed; waiting for the goroutines)")
		// wait for the state the op must lead to (and for the goroutines to be back at their loop heads: the next op's
		// events are delivered only to consumers that are parked)
		var present, subs []int
		reached := false
		for dl := time.Now().Add(longWait); ; {
			waitQuietApi(t)
			if watchdogHit != "" || skipReason != "" {
				break
			}
			present, subs = observe()
			if eqInts(present, mir.filters()) && eqInts(subs, mir.wssub[:]) {
				reached = true
				break
			}
			if want == -1 || time.Now().After(dl) {
				break
			}
			time.Sleep(200 * time.Microsecond)
		}
		if watchdogHit != "" || skipReason != "" {
			break
		}
		switch {
		case want == -1:
			// creation succeeded / failed against the expectation: nothing to wait for, the model gets what was seen
		case !reached:
			skipReason = "expected-state-not-reached"
			side.Extra["api_last_unreached"] = map[string]interface{}{"history": hist, "op": opS, "seen_filters": present, "seen_subscribes": subs,
				"expected_filters": mir.filters(), "expected_subscribes": mir.wssub}
			return "", hist, false
		case countOnly && res != want:
			skipReason = "event-count-differs"
			return "", hist, false
		}
		snap := fmt.Sprintf("(mkASnap %s %s %s false)", CqNat(res), cqNatList(present), cqNatList(subs))
		ops = append(ops, "("+opS+")")
		snaps = append(snaps, snap)
		hist.Ops = append(hist.Ops, opS)
		hist.Snaps = append(hist.Snaps, snap)
		if want == -1 {
			break // the history ends here (numbering no longer shared with the mirror)
		}
	}
	if watchdogHit != "" || skipReason != "" {
		return "", hist, false
	}
	// leave as little as possible behind: the filters' consumers and topics end with their filters, then the endpoint
	for _, id := range w.api.VerifFilterIDs() {
		id := id
		if !apiCall("uninstall", func() { w.api.UninstallFilter(id) }) {
			return "", hist, false
		}
	}
	waitQuietApi(t)
	if watchdogHit != "" || skipReason != "" {
		return "", hist, false
	}
	return fmt.Sprintf("(PApi %s %s %s)", CqNat(cap), CqList(ops), CqList(snaps)), hist, nontrivial
}

func containsID(l []rpc.ID, id rpc.ID) bool {
	for _, x := range l {
		if x == id {
			return true
		}
	}
	return false
}

func changesLen(v interface{}) int {
	switch x := v.(type) {
	case []*ethtypes.Log:
		return len(x)
	default:
		// returnHashes gives []common.Hash
		s := fmt.Sprintf("%v", v)
		if s == "[]" {
			return 0
		}
		return strings.Count(s, " ") + 1
	}
}

// ------------------------------------------------------------------ concurrent stress (child process)

func TestChildApiStress(t *testing.T) {
	if os.Getenv("VERIF_PUBSUB_CHILD") != "apistress" {
		t.Skip("child only")
	}
	seed := EnvSeed()
	dur := time.Duration(EnvInt("VERIF_APISTRESS_MS", 3000)) * time.Millisecond
	const k = 8
	const dl = 4 * time.Millisecond // inactivity deadline and timeoutLoop tick
	w := newApiWorld(t, 1000, dl, dl)
	if w == nil {
		fmt.Println("APISTRESS inconclusive: timeoutLoop not seen parked")
		return
	}
	keep := []rpc.ID{}
	stopPoll := make(chan struct{})
	if seed%2 == 0 { // half of the seeds: installer filters that stay alive (polled), so that other filters are plain bus subscribers
		nf, _ := w.api.NewFilter(ethLogsCrit())
		keep = append(keep, nf, w.api.NewBlockFilter(), w.api.NewPendingTransactionFilter())
	}
	go func() {
		for {
			select {
			case <-stopPoll:
				return
			case <-time.After(dl / 4):
				for _, id := range keep {
					_, _ = w.api.GetFilterChanges(id)
				}
			}
		}
	}()
	// events stream all the time
	garbage := pendingInputs(t)
	stopPush := make(chan struct{})
	pushDone := make(chan struct{})
	go func() {
		defer close(pushDone)
		for i := int64(1); ; i++ {
			select {
			case <-stopPush:
				return
			default:
			}
			var err error
			switch i % 6 {
			case 0, 3:
				err = w.f.pushHeader(qHeader, i)
			case 1:
				err = w.f.pushQuiet(qEvm, int(i))
			case 2:
				err = w.f.pushQuiet(qTx, int(i))
			case 4: // Tx events of committed-but-invalid transactions, and undecodable bytes
				err = w.f.pushTxQuiet(qTx, garbage[[]string{"garbage-eth-payload", "no-messages"}[int(i/6)%2]])
			default:
				err = w.f.pushTxQuiet([]string{qTx, qEvm}[int(i/6)%2], []byte{0xff, 0x01, byte(i)})
			}
			if err != nil {
				return
			}
			time.Sleep(100 * time.Microsecond)
		}
	}()

	var inFlight int64
	var lastProgress atomic.Int64
	lastProgress.Store(time.Now().UnixNano())
	call := func(name string, f func()) {
		atomic.AddInt64(&inFlight, 1)
		f()
		atomic.AddInt64(&inFlight, -1)
		lastProgress.Store(time.Now().UnixNano())
	}
	// watchdog: an API call that never returns
	wdStop := make(chan struct{})
	go func() {
		for {
			select {
			case <-wdStop:
				return
			case <-time.After(500 * time.Millisecond):
				// no API call at all has returned for longWait although calls are in flight; the dump (the runtime marks
				// goroutines blocked for minutes) decides in the parent whether this is a deadlock or a slow machine
				if atomic.LoadInt64(&inFlight) > 0 && time.Since(time.Unix(0, lastProgress.Load())) > longWait {
					fmt.Println("APISTRESS deadlock: no API call has returned for", longWait)
					for _, g := range goroutines() {
						if strings.Contains(g.stack, "PublicFilterAPI") || strings.Contains(g.stack, "EventSystem") || strings.Contains(g.stack, "memEventBus") {
							fmt.Println(g.stack + "\n")
						}
					}
					os.Exit(3)
				}
			}
		}
	}()

	type round struct {
		id    rpc.ID
		trues int64
	}
	end := time.Now().Add(dur)
	rounds, doubles, expiredFirst := 0, 0, 0
	rng := NewRng(seed ^ 0xa91)
	spinUntil := func(t time.Time) {
		for time.Now().Before(t) {
			if time.Until(t) > 300*time.Microsecond {
				time.Sleep(50 * time.Microsecond)
			}
		}
	}
	tickAfter := func(t time.Time) time.Time { // first tick of timeoutLoop's ticker not before t
		n := t.Sub(w.t0)/dl + 1
		return w.t0.Add(n * dl)
	}
	tickRounds := 0
	for time.Now().Before(end) {
		r := rng.Fork(uint64(rounds))
		rounds++
		if rounds%3 == 0 {
			// tick round: many filters whose timers have all fired when a tick of timeoutLoop comes, and all clients calling
			// uninstall / changes on them from just before that tick until just after it: calls overlap with the expiry work
			tickRounds++
			spinUntil(tickAfter(time.Now()).Add(200 * time.Microsecond))
			var ids []rpc.ID
			call("new*", func() {
				for i := 0; i < 120; i++ {
					var id rpc.ID
					switch r.Intn(6) {
					case 0:
						id, _ = w.api.NewFilter(ethLogsCrit())
					case 1:
						id = w.api.NewPendingTransactionFilter()
					default:
						id = w.api.NewBlockFilter()
					}
					if id != "" && !strings.HasPrefix(string(id), "error creating") {
						ids = append(ids, id)
					}
				}
			})
			target := tickAfter(time.Now().Add(dl))
			from, to := target.Add(-time.Duration(200+r.Intn(400))*time.Microsecond), target.Add(900*time.Microsecond)
			var wg sync.WaitGroup
			for g := 0; g < k; g++ {
				wg.Add(1)
				gr := r.Fork(uint64(1000 + g))
				go func() {
					defer wg.Done()
					spinUntil(from)
					for time.Now().Before(to) {
						id := ids[gr.Intn(len(ids))]
						if gr.Chance(50) {
							call("uninstall", func() { w.api.UninstallFilter(id) })
						} else {
							call("changes", func() { _, _ = w.api.GetFilterChanges(id) })
						}
					}
				}()
			}
			wg.Wait()
			call("uninstall*", func() {
				for _, id := range ids {
					w.api.UninstallFilter(id)
				}
			})
			continue
		}
		// a fresh filter of a drawn type, shared by all clients of this round
		var id rpc.ID
		call("new", func() {
			switch r.Intn(4) {
			case 0:
				id, _ = w.api.NewFilter(ethLogsCrit())
			case 1:
				id = w.api.NewPendingTransactionFilter()
			default:
				id = w.api.NewBlockFilter()
			}
		})
		if id == "" || strings.HasPrefix(string(id), "error creating") {
			continue
		}
		rd := &round{id: id}
		// round kinds: all clients at once; or after the filter's deadline so that timeoutLoop's expiry overlaps
		switch r.Intn(4) {
		case 0:
			time.Sleep(dl + time.Duration(r.Intn(int(dl))))
		case 1:
			time.Sleep(time.Duration(r.Intn(int(dl))))
		}
		start := make(chan struct{})
		var wg sync.WaitGroup
		for g := 0; g < k; g++ {
			wg.Add(1)
			op := r.Intn(10)
			go func(op int) {
				defer wg.Done()
				<-start
				switch {
				case op < 6:
					call("uninstall", func() {
						if w.api.UninstallFilter(rd.id) {
							atomic.AddInt64(&rd.trues, 1)
						}
					})
				case op < 8:
					call("changes", func() { _, _ = w.api.GetFilterChanges(rd.id) })
				case op < 9:
					call("logs", func() { _, _ = w.api.GetFilterLogs(nil, rd.id) }) //nolint:staticcheck
				default:
					call("new+uninstall", func() {
						nid := w.api.NewBlockFilter()
						_, _ = w.api.GetFilterChanges(nid)
						w.api.UninstallFilter(nid)
					})
				}
			}(op)
		}
		close(start)
		wg.Wait()
		switch n := atomic.LoadInt64(&rd.trues); {
		case n > 1:
			doubles++
			fmt.Printf("APISTRESS uninstall-true-twice id=%s trues=%d\n", rd.id, n)
		case n == 0:
			expiredFirst++
		}
		// leftovers are removed by timeoutLoop (or the final uninstall here)
		call("uninstall", func() { w.api.UninstallFilter(rd.id) })
	}
	close(stopPush)
	<-pushDone
	close(stopPoll)
	// whatever the event loop still has to do gets its chance, then the API must still work
	time.Sleep(100 * time.Millisecond)
	ok := false
	call("final", func() {
		id := w.api.NewBlockFilter()
		_, err := w.api.GetFilterChanges(id)
		ok = err == nil && w.api.UninstallFilter(id) && !w.api.UninstallFilter(id)
	})
	close(wdStop)
	fmt.Printf("APISTRESS rounds=%d doubles=%d no_uninstall_found=%d tick_rounds=%d final_ok=%v\n", rounds, doubles, expiredFirst, tickRounds, ok)
	if ok {
		fmt.Println("APISTRESS survived")
	}
}

type apiStressResult struct {
	OK      bool
	Died    bool // ended by a panic / fatal error of the code under test, or with goroutines of it blocked for minutes
	Rounds  int
	Doubles int
	Out     string
}

func runApiStressChild(t *testing.T, ms int) apiStressResult {
	exe, err := os.Executable()
	require.NoError(t, err)
	cmd := exec.Command(exe, "-test.run", "^TestChildApiStress$", "-test.count", "1", "-test.timeout", "3000s")
	cmd.Env = append(os.Environ(), "VERIF_PUBSUB_CHILD=apistress", fmt.Sprintf("VERIF_APISTRESS_MS=%d", ms))
	var buf bytes.Buffer
	cmd.Stdout, cmd.Stderr = &buf, &buf
	runErr := cmd.Run()
	out := buf.String()
	res := apiStressResult{Out: out, OK: runErr == nil && strings.Contains(out, "APISTRESS survived")}
	res.Died = !res.OK && (diedByPanic(runErr, out) || strings.Contains(out, "final_ok=false") ||
		minutesBlocked(out, "PublicFilterAPI).", "EventSystem).", "memEventBus)."))
	if i := strings.Index(out, "APISTRESS rounds="); i >= 0 {
		_, _ = fmt.Sscanf(out[i:], "APISTRESS rounds=%d doubles=%d", &res.Rounds, &res.Doubles)
	}
	return res
}

// apiStress runs the child and turns its fate into oracle hits.
func apiStress(t *testing.T, side *Sidecar, ms int) (survived, conclusive bool) {
	res := runApiStressChild(t, ms)
	side.Count(fmt.Sprintf("api_stress:ok=%v", res.OK))
	side.Extra["api_stress_rounds"] = res.Rounds
	out := res.Out
	if res.Doubles > 0 || strings.Contains(out, "APISTRESS uninstall-true-twice") {
		side.Hit("C20/pubsub/api-stress/uninstall-true-twice", "two overlapping eth_uninstallFilter calls for the same filter both found and removed it (its subscription is unsubscribed twice)",
			map[string]interface{}{"output_tail": tail(out, 1500)})
	}
	if res.OK {
		return res.Doubles == 0, true
	}
	if !res.Died {
		side.Count("skipped:api-stress-child-ended-without-verdict")
		return false, false
	}
	sig := "C20/pubsub/api-stress/crash"
	switch {
	case strings.Contains(out, "close of closed channel"):
		sig = "C20/pubsub/api-stress/close-of-closed-channel"
	case strings.Contains(out, "send on closed channel"):
		sig = "C20/pubsub/api-stress/send-on-closed-channel"
	case strings.Contains(out, "APISTRESS deadlock") || strings.Contains(out, "test timed out") || strings.Contains(out, "all goroutines are asleep"):
		sig = "C20/pubsub/api-stress/deadlock"
	case strings.Contains(out, "concurrent map"):
		sig = "C20/pubsub/api-stress/concurrent-map-access"
	case strings.Contains(out, "nil pointer dereference"):
		sig = "C20/pubsub/api-stress/nil-dereference"
	case strings.Contains(out, "final_ok=false"):
		sig = "C20/pubsub/api-stress/api-unusable-afterwards"
	}
	i := strings.Index(out, "panic:")
	if j := strings.Index(out, "fatal error:"); j >= 0 && (i < 0 || j < i) {
		i = j
	}
	if i < 0 {
		i = 0
	}
	ex := out[i:]
	if len(ex) > 2500 {
		ex = ex[:2500]
	}
	side.Hit(sig, "the process running concurrent JSON-RPC filter calls (k goroutines on shared filter ids, timeoutLoop expiring filters, events streaming) died or stalled",
		map[string]interface{}{"stderr": ex})
	return false, true
}
