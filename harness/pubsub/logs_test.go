package pubsub

// Log filters: the user's topic criteria meet the logs of committed transactions in goroutines that nothing recovers
// (filters/api.go NewFilter consumer, rpc/websockets.go subscribeLogs consumer; both call filters.FilterLogs on every
// delivered EVM Tx event). Two probes:
//   (a) filters.FilterLogs itself on the PRODUCT criteria shape x log shape (every position wildcard / one topic / two
//       topics, criteria of 0..4 positions; logs of 0..4 topics over a two-letter alphabet; address lists), in process
//       under a recover: a panic here is a panic in those goroutines. Deterministic.
//   (b) end to end in a child process: eth_newFilter on the real PublicFilterAPI and eth_subscribe logs on the real
//       websocket server for every criteria shape, then EVM Tx events whose receipts carry the logs; the child must
//       survive and still answer.

import (
	"fmt"
	"math/big"
	"os"
	"strings"
	"testing"
	"time"

	abci "github.com/cometbft/cometbft/abci/types"
	tmjson "github.com/cometbft/cometbft/libs/json"
	coretypes "github.com/cometbft/cometbft/rpc/core/types"
	cmttypes "github.com/cometbft/cometbft/types"
	codectypes "github.com/cosmos/cosmos-sdk/codec/types"
	sdk "github.com/cosmos/cosmos-sdk/types"
	"github.com/cosmos/gogoproto/proto"
	"github.com/ethereum/go-ethereum/common"
	ethtypes "github.com/ethereum/go-ethereum/core/types"
	ethfilters "github.com/ethereum/go-ethereum/eth/filters"
	"github.com/ethereum/go-ethereum/rpc"
	"github.com/gorilla/websocket"

	rpcfilters "github.com/EscanBE/evermint/v12/rpc/namespaces/ethereum/eth/filters"
	evmtypes "github.com/EscanBE/evermint/v12/x/evm/types"

	. "verifharness/hx"
)

var logAlphabet = []common.Hash{common.BigToHash(big.NewInt(0xa1)), common.BigToHash(big.NewInt(0xb2))}

// criteriaShapes: all topic criteria of 0..4 positions, each position wildcard, {A} or {A,B}.
func criteriaShapes() [][][]common.Hash {
	pos := [][]common.Hash{nil, {logAlphabet[0]}, {logAlphabet[0], logAlphabet[1]}, {}}
	out := [][][]common.Hash{{}}
	var rec func(cur [][]common.Hash, n int)
	rec = func(cur [][]common.Hash, n int) {
		if n == 0 {
			out = append(out, append([][]common.Hash(nil), cur...))
			return
		}
		for i, p := range pos {
			if i == 3 && n != 1 { // the empty (non-nil) rule set only in the last position: same meaning as nil
				continue
			}
			rec(append(cur, p), n-1)
		}
	}
	for n := 1; n <= 4; n++ {
		rec(nil, n)
	}
	return out
}

// logShapes: logs with 0..4 topics over the alphabet (plus a topic outside it).
func logShapes() []*ethtypes.Log {
	addr := common.BigToAddress(big.NewInt(0xcafe))
	letters := []common.Hash{logAlphabet[0], logAlphabet[1], common.BigToHash(big.NewInt(0xff))}
	var out []*ethtypes.Log
	var rec func(cur []common.Hash, n int)
	rec = func(cur []common.Hash, n int) {
		if n == 0 {
			out = append(out, &ethtypes.Log{Address: addr, Topics: append([]common.Hash(nil), cur...), Data: []byte{1}, BlockNumber: 5})
			return
		}
		for _, l := range letters {
			rec(append(cur, l), n-1)
		}
	}
	for n := 0; n <= 4; n++ {
		if n == 4 {
			letters = letters[:2]
		}
		rec(nil, n)
	}
	return out
}

// refMatch: the documented rule (go-ethereum): a log matches iff it has at least as many topics as the criteria has
// positions and every position is a wildcard or contains the log's topic at that position.
func refMatch(l *ethtypes.Log, topics [][]common.Hash) bool {
	if len(topics) > len(l.Topics) {
		return false
	}
	for i, sub := range topics {
		ok := len(sub) == 0
		for _, t := range sub {
			if l.Topics[i] == t {
				ok = true
			}
		}
		if !ok {
			return false
		}
	}
	return true
}

func shapeString(topics [][]common.Hash) string {
	var ps []string
	for _, sub := range topics {
		switch len(sub) {
		case 0:
			ps = append(ps, "*")
		case 1:
			ps = append(ps, "A")
		default:
			ps = append(ps, "A|B")
		}
	}
	return "[" + strings.Join(ps, ",") + "]"
}

// logFilterProduct runs (a); returns the number of (criteria, log) pairs evaluated.
func logFilterProduct(side *Sidecar) int {
	n := 0
	logs := logShapes()
	for _, crit := range criteriaShapes() {
		for _, l := range logs {
			n++
			var got []*ethtypes.Log
			p := CatchPanic(func() { got = rpcfilters.FilterLogs([]*ethtypes.Log{l}, nil, nil, nil, crit) })
			desc := map[string]interface{}{"criteria": shapeString(crit), "log_topics": len(l.Topics)}
			if p != nil {
				side.Hit("C20/pubsub/log-filters/FilterLogs-panics", fmt.Sprintf("filters.FilterLogs panicked (%v): the consumer goroutines of eth_newFilter / eth_subscribe logs call it on every delivered EVM Tx event with the user's criteria and recover nothing", p), desc)
				continue
			}
			if (len(got) == 1) != refMatch(l, crit) {
				side.Count("log_filter:match-differs-from-reference") // not a crash: counted, not a C20 verdict
			}
		}
	}
	side.Count(fmt.Sprintf("log_filter_product:pairs=%d", n))
	return n
}

// evmTxEvent: a Tx event on the EVM topic whose result carries a receipt with the given logs.
func evmTxEvent(logs []*ethtypes.Log) ([]byte, error) {
	receipt := &ethtypes.Receipt{Type: ethtypes.LegacyTxType, Status: 1, CumulativeGasUsed: 21000, Logs: logs}
	receipt.Bloom = ethtypes.CreateBloom(ethtypes.Receipts{receipt})
	rb, err := receipt.MarshalBinary()
	if err != nil {
		return nil, err
	}
	any, err := codectypes.NewAnyWithValue(&evmtypes.MsgEthereumTxResponse{Hash: common.BigToHash(big.NewInt(7)).Hex(), MarshalledReceipt: rb})
	if err != nil {
		return nil, err
	}
	data, err := proto.Marshal(&sdk.TxMsgData{MsgResponses: []*codectypes.Any{any}})
	if err != nil {
		return nil, err
	}
	ev := coretypes.ResultEvent{Query: qEvm,
		Data:   cmttypes.EventDataTx{TxResult: abci.TxResult{Height: 5, Tx: []byte{1}, Result: abci.ExecTxResult{Code: 0, Data: data}}},
		Events: map[string][]string{evmtypes.TypeMsgEthereumTx + ".x": {"1"}, evmtypes.TypeMsgEthereumTx: {"1"}}}
	res, err := tmjson.Marshal(ev)
	if err != nil {
		return nil, err
	}
	return []byte(fmt.Sprintf(`{"jsonrpc":"2.0","id":1,"result":%s}`, res)), nil
}

func (f *fakeWS) pushRaw(msg []byte) error {
	f.mu.Lock()
	defer f.mu.Unlock()
	return f.conn.WriteMessage(websocket.TextMessage, msg)
}

func TestChildLogFilters(t *testing.T) {
	if os.Getenv("VERIF_PUBSUB_CHILD") != "logfilters" {
		t.Skip("child only")
	}
	aw := newApiWorld(t, 2000, time.Hour, time.Hour)
	if aw == nil {
		fmt.Println("LOGFILTERS inconclusive: API world")
		return
	}
	ww := newWsWorld(t)
	shapes := criteriaShapes()
	var ids []rpc.ID
	for _, crit := range shapes {
		id, err := aw.api.NewFilter(ethfilters.FilterCriteria{Topics: crit})
		if err == nil {
			ids = append(ids, id)
		}
	}
	// websocket: the same shapes as JSON
	c, err := ww.dial()
	if err != nil {
		fmt.Println("LOGFILTERS inconclusive: dial", err)
		return
	}
	go func() { // drain notifications
		for {
			if _, _, err := c.ReadMessage(); err != nil {
				return
			}
		}
	}()
	for i, crit := range shapes {
		var ps []string
		for _, sub := range crit {
			switch {
			case sub == nil:
				ps = append(ps, "null")
			case len(sub) == 0:
				ps = append(ps, "[]")
			case len(sub) == 1:
				ps = append(ps, `"`+sub[0].Hex()+`"`)
			default:
				ps = append(ps, `["`+sub[0].Hex()+`","`+sub[1].Hex()+`"]`)
			}
		}
		msg := fmt.Sprintf(`{"jsonrpc":"2.0","id":%d,"method":"eth_subscribe","params":["logs",{"topics":[%s]}]}`, i+1, strings.Join(ps, ","))
		if err := c.WriteMessage(websocket.TextMessage, []byte(msg)); err != nil {
			fmt.Println("LOGFILTERS inconclusive: write", err)
			return
		}
	}
	time.Sleep(200 * time.Millisecond)
	fmt.Printf("LOGFILTERS installed filters=%d ws_subscriptions=%d\n", len(ids), len(shapes))
	// deliver every log shape, alone and all together, to both event systems; consumers that are busy miss an event
	// (the bus does not wait for them), so everything is sent three times with pauses
	logs := logShapes()
	var events [][]byte
	for _, l := range logs {
		if m, err := evmTxEvent([]*ethtypes.Log{l}); err == nil {
			events = append(events, m)
		}
	}
	if m, err := evmTxEvent(logs); err == nil {
		events = append(events, m)
	}
	for round := 0; round < 3; round++ {
		for _, m := range events {
			if aw.f.pushRaw(m) != nil || ww.f.pushRaw(m) != nil {
				fmt.Println("LOGFILTERS inconclusive: push")
				return
			}
			time.Sleep(2 * time.Millisecond)
		}
	}
	if !aw.barrier() {
		fmt.Println("LOGFILTERS inconclusive: barrier")
		return
	}
	time.Sleep(300 * time.Millisecond)
	collected := 0
	for _, id := range ids {
		if v, err := aw.api.GetFilterChanges(id); err == nil {
			collected += changesLen(v)
		}
	}
	fmt.Printf("LOGFILTERS collected=%d ws_alive=%v\n", collected, ww.alive())
	fmt.Println("LOGFILTERS survived")
}
