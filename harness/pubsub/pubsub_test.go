package pubsub

// Driver `pubsub` (C20): sequential op histories on the real memEventBus (rpc/ethereum/pubsub) and the real
// EventSystem (rpc/namespaces/ethereum/eth/filters, behind a real cmtjrpcclient.WSClient talking to a fake
// CometBFT websocket endpoint), compared against the sequential runs of the Coq transition systems;
// the deterministic replay of "uninstall while consumeEvents is between channel lookup and send" through the
// verif yield hook (child process, so that a crash is an observation and not the end of the driver);
// thorough tier: goroutine stress with a watchdog.

import (
	"bytes"
	"fmt"
	"os"
	"os/exec"
	"path/filepath"
	"runtime"
	"sort"
	"strings"
	"sync"
	"testing"
	"time"

	cmtquery "github.com/cometbft/cometbft/libs/pubsub/query"
	coretypes "github.com/cometbft/cometbft/rpc/core/types"
	cmttypes "github.com/cometbft/cometbft/types"
	sdk "github.com/cosmos/cosmos-sdk/types"
	"github.com/stretchr/testify/require"

	"github.com/EscanBE/evermint/v12/rpc/ethereum/pubsub"
	rpcfilters "github.com/EscanBE/evermint/v12/rpc/namespaces/ethereum/eth/filters"
	evmtypes "github.com/EscanBE/evermint/v12/x/evm/types"

	. "verifharness/hx"
)

// the three event queries of filter_system.go, built the same way
var (
	qTx     = cmttypes.QueryForEvent(cmttypes.EventTx).String()
	qEvm    = cmtquery.MustCompile(fmt.Sprintf("%s='%s' AND %s.%s='%s'", cmttypes.EventTypeKey, cmttypes.EventTx, sdk.EventTypeMessage, sdk.AttributeKeyModule, evmtypes.ModuleName)).String()
	qHeader = cmttypes.QueryForEvent(cmttypes.EventNewBlockHeader).String()
)

// ------------------------------------------------------------------ goroutine-state quiescence

type gor struct {
	id      int
	state   string
	minutes int // how long the goroutine has been blocked in that state (the runtime prints it from one minute on)
	stack   string
}

func goroutines() []gor {
	buf := make([]byte, 1<<20)
	for {
		n := runtime.Stack(buf, true)
		if n < len(buf) {
			buf = buf[:n]
			break
		}
		buf = make([]byte, 2*len(buf))
	}
	var out []gor
	for _, blk := range strings.Split(string(buf), "\n\n") {
		blk = strings.TrimSpace(blk)
		if !strings.HasPrefix(blk, "goroutine ") {
			continue
		}
		hdr := blk
		if i := strings.IndexByte(blk, '\n'); i >= 0 {
			hdr = blk[:i]
		}
		g := gor{stack: blk}
		_, _ = fmt.Sscanf(hdr, "goroutine %d ", &g.id)
		if a, b := strings.IndexByte(hdr, '['), strings.IndexByte(hdr, ']'); a >= 0 && b > a {
			parts := strings.Split(hdr[a+1:b], ",")
			g.state = strings.TrimSpace(parts[0])
			for _, x := range parts[1:] {
				var m int
				if n, _ := fmt.Sscanf(strings.TrimSpace(x), "%d minutes", &m); n == 1 {
					g.minutes = m
				}
			}
		}
		out = append(out, g)
	}
	return out
}

// ------------------------------------------------------------------ patience
// No verdict of this driver may depend on how fast the machine is. Whatever is waited for is waited for longWait; when it
// still has not happened the driver looks for evidence that does not depend on scheduling: a goroutine of the code under
// test that the runtime reports as blocked for minutes (the dump says "[semacquire, 2 minutes]"), or one and the same
// goroutine found away from its loop head in every one of a series of samples. With such evidence the verdict is a
// hit; without it the history is abandoned and counted (histogram `skipped:...`), no case is emitted.
const longWait = 150 * time.Second

var skipReason string // set when a history has to be abandoned without a verdict

// blockedEvidence: goroutines whose stack mentions one of the frames and which have been blocked for >= 2 minutes.
func blockedEvidence(frames ...string) string {
	var ev []string
	for _, g := range goroutines() {
		if g.minutes < 2 {
			continue
		}
		for _, f := range frames {
			if strings.Contains(g.stack, f) {
				st := g.stack
				if len(st) > 900 {
					st = st[:900]
				}
				ev = append(ev, st)
				break
			}
		}
	}
	return strings.Join(ev, "\n\n")
}

// patiently runs f in a goroutine and waits for it. ok = it returned. Otherwise evidence (possibly empty) that the
// goroutine running f is blocked for good.
func patiently(f func()) (ok bool, evidence string) {
	done := make(chan struct{})
	go func() { f(); close(done) }()
	select {
	case <-done:
		return true, ""
	case <-time.After(longWait):
	}
	// the call frame of this very closure
	return false, blockedEvidence("verifharness/pubsub.patiently.func1")
}

// quiet reports whether every goroutine of the components under test is parked at its loop head
// (or gone): publishTopic in `<-src`, eventLoop in its select, consumeEvents in `range ResponsesCh`,
// harness readers in their select, no Unsubscribe goroutine, no bus call in flight.
func quiet() (bool, string, int) { return quietIn(goroutines()) }

// quietIn decides on ONE snapshot of the goroutines (runtime.Stack stops the world: the snapshot is consistent).
func quietIn(gs []gor) (bool, string, int) {
	for _, g := range gs {
		s := g.stack
		switch {
		case strings.Contains(s, "pubsub.(*memEventBus).publishTopic"):
			if g.state != "chan receive" || strings.Contains(s, "closeAllSubscribers") || strings.Contains(s, "publishAllSubscribers") {
				return false, "publishTopic busy: " + g.state, g.id
			}
		case strings.Contains(s, "filters.(*EventSystem).eventLoop"):
			if g.state != "select" {
				return false, "eventLoop busy: " + g.state, g.id
			}
		case strings.Contains(s, "filters.(*EventSystem).consumeEvents"):
			// "sleep": the consumeEvents of a world that was shut down (ResponsesCh closed: the outer loop sleeps and retries)
			if g.state != "chan receive" && g.state != "sleep" {
				return false, "consumeEvents busy: " + g.state, g.id
			}
		case strings.Contains(s, "filters.(*Subscription).Unsubscribe"):
			return false, "Unsubscribe goroutine alive", g.id
		case strings.Contains(s, "verifharness/pubsub.(*reader).loop"):
			if g.state != "select" {
				return false, "reader busy: " + g.state, g.id
			}
		}
	}
	return true, "", 0
}

var watchdogHit string

// progress: the child records the history it is executing (ops done + the op about to run) so that the parent can
// attach it to the oracle hit if the process dies in the middle.
var progressPath string

func progress(kind string, done []string, next string) {
	if progressPath == "" {
		return
	}
	_ = os.WriteFile(progressPath, []byte(kind+" history; completed ops: ["+strings.Join(done, "; ")+"]; crashed during or right after: "+next), 0o644)
}

// waitQuietWith polls q until it holds twice in a row. After longWait without success: if one and the same goroutine
// is the offender in each of 20 further samples taken half a second apart it is stuck away from its loop head for good
// (watchdogHit); otherwise the history is abandoned (skipReason).
func waitQuietWith(t *testing.T, q func() (bool, string, int)) {
	deadline := time.Now().Add(longWait)
	okStreak := 0
	pause := 50 * time.Microsecond
	for {
		ok, why, _ := q()
		if ok {
			okStreak++
			if okStreak >= 2 {
				return
			}
			runtime.Gosched()
			continue
		}
		okStreak = 0
		if time.Now().After(deadline) {
			same, first, lastWhy := true, -1, why
			for i := 0; i < 20; i++ {
				time.Sleep(500 * time.Millisecond)
				ok, w, id := q()
				if ok {
					return
				}
				lastWhy = w
				if first < 0 {
					first = id
				} else if id != first {
					same = false
				}
			}
			if same && first > 0 {
				watchdogHit = lastWhy
				t.Logf("watchdog: goroutine %d stayed away from its loop head: %s", first, lastWhy)
			} else {
				skipReason = "not-quiescent"
			}
			return
		}
		time.Sleep(pause)
		if pause < 2*time.Millisecond {
			pause *= 2
		}
	}
}

func waitQuiet(t *testing.T) { waitQuietWith(t, quiet) }

// ------------------------------------------------------------------ readers on subscriber channels

type reader struct {
	ch     <-chan coretypes.ResultEvent
	mu     sync.Mutex
	got    []int
	closed bool
	stop   chan struct{}
	on     bool
}

func (r *reader) loop(stop chan struct{}) {
	for {
		select {
		case ev, ok := <-r.ch:
			r.mu.Lock()
			if !ok {
				r.closed = true
				r.mu.Unlock()
				return
			}
			r.got = append(r.got, markerOf(ev))
			r.mu.Unlock()
		case <-stop:
			return
		}
	}
}

func (r *reader) listen(on bool) {
	if on == r.on {
		return
	}
	r.on = on
	if on {
		r.stop = make(chan struct{})
		go r.loop(r.stop)
	} else {
		close(r.stop)
	}
}

// snapshot: closed (also probed without a reader: nobody ever parks a send on these channels), messages so far
func (r *reader) snapshot() (bool, []int) {
	r.mu.Lock()
	defer r.mu.Unlock()
	if !r.closed && !r.on {
		select {
		case _, ok := <-r.ch:
			if !ok {
				r.closed = true
			}
		default:
		}
	}
	return r.closed, append([]int(nil), r.got...)
}

func cqNatList(l []int) string {
	s := make([]string, len(l))
	for i, v := range l {
		s[i] = CqNat(v)
	}
	return CqList(s)
}

// ------------------------------------------------------------------ memEventBus histories

type busHist struct {
	Ops   []string `json:"ops"`
	Snaps []string `json:"snaps"`
}

func runBusHistory(t *testing.T, r *Rng, side *Sidecar, nops int) (string, busHist, bool) {
	bus := pubsub.NewEventBus()
	type srcInfo struct {
		ch     chan coretypes.ResultEvent
		ok     bool // AddTopic succeeded: a publishTopic goroutine receives from it
		closed bool
	}
	var srcs []*srcInfo
	type subInfo struct {
		topic int
		id    int
		rd    *reader
		unsub pubsub.UnsubscribeFunc
	}
	var subs []*subInfo
	var ops, snaps []string
	var hist busHist
	marker := 0
	nontrivial := false
	name := func(n int) string { return fmt.Sprintf("t%d", n) }
	for k := 0; k < nops; k++ {
		res := 0
		var opS string
		kind := r.Intn(100)
		switch {
		case kind < 18: // AddTopic
			n := r.Intn(3)
			si := &srcInfo{ch: make(chan coretypes.ResultEvent)}
			srcs = append(srcs, si)
			err := bus.AddTopic(name(n), si.ch)
			si.ok = err == nil
			if err != nil {
				res = 1
			}
			opS = fmt.Sprintf("OAddTopic %d %d", n, len(srcs)-1)
			side.Count("bus_op:AddTopic")
		case kind < 24:
			n := r.Intn(3)
			bus.RemoveTopic(name(n))
			opS = fmt.Sprintf("ORemoveTopic %d", n)
			side.Count("bus_op:RemoveTopic")
		case kind < 44:
			n := r.Intn(3)
			ch, unsub, err := bus.Subscribe(name(n))
			if err != nil {
				res = 1
			} else {
				subs = append(subs, &subInfo{topic: n, id: len(subs) + 1, rd: &reader{ch: ch}, unsub: unsub})
			}
			opS = fmt.Sprintf("OSubscribe %d", n)
			side.Count("bus_op:Subscribe")
		case kind < 52:
			if len(subs) == 0 {
				continue
			}
			s := subs[r.Intn(len(subs))]
			s.unsub()
			opS = fmt.Sprintf("OUnsub %d %d", s.topic, s.id)
			side.Count("bus_op:Unsubscribe")
		case kind < 76: // send on a live source
			var live []int
			for i, s := range srcs {
				if s.ok && !s.closed {
					live = append(live, i)
				}
			}
			if len(live) == 0 {
				continue
			}
			i := live[r.Intn(len(live))]
			marker++
			mk := marker
			if ok, ev := patiently(func() {
				srcs[i].ch <- coretypes.ResultEvent{Query: "x", Events: map[string][]string{"verif.n": {fmt.Sprint(mk)}}}
			}); !ok {
				if ev2 := blockedEvidence("memEventBus).publishTopic", "memEventBus).publishAllSubscribers"); ev != "" && ev2 != "" {
					side.Hit("C20/pubsub/bus/publisher-not-receiving", "send on a registered source channel has been blocked for minutes (publishTopic goroutine stuck)", map[string]interface{}{"history": hist, "blocked": ev2})
				} else {
					skipReason = "bus-send-not-taken"
				}
				return "", hist, false
			}
			opS = fmt.Sprintf("OSend %d %d", i, marker)
			side.Count("bus_op:Send")
		case kind < 84:
			var live []int
			for i, s := range srcs {
				if s.ok && !s.closed {
					live = append(live, i)
				}
			}
			if len(live) == 0 {
				continue
			}
			i := live[r.Intn(len(live))]
			close(srcs[i].ch)
			srcs[i].closed = true
			opS = fmt.Sprintf("OClose %d", i)
			side.Count("bus_op:CloseSource")
			nontrivial = true
		case kind < 96:
			if len(subs) == 0 {
				continue
			}
			c := r.Intn(len(subs))
			on := r.Chance(75)
			subs[c].rd.listen(on)
			opS = fmt.Sprintf("OListen %d %s", c, CqBool(on))
			side.Count("bus_op:Listen")
		default:
			opS = "OTopics"
			side.Count("bus_op:Topics")
		}
		progress("memEventBus", hist.Ops, opS+" (executed; waiting for the publisher goroutines)")
		waitQuiet(t)
		// observation
		var names []int
		for _, tn := range bus.Topics() {
			var n int
			_, _ = fmt.Sscanf(tn, "t%d", &n)
			names = append(names, n)
		}
		sort.Ints(names)
		chans := make([]string, len(subs))
		for i, s := range subs {
			cl, got := s.rd.snapshot()
			chans[i] = fmt.Sprintf("(%s, %s)", CqBool(cl), cqNatList(got))
			// direct oracle: strictly increasing markers (order kept, nothing duplicated)
			for j := 1; j < len(got); j++ {
				if got[j] <= got[j-1] {
					side.Hit("C20/pubsub/bus/duplicate-or-reordered-delivery", fmt.Sprintf("subscriber %d received %v", i, got), hist)
				}
			}
			if len(got) > 0 {
				nontrivial = true
			}
		}
		snap := fmt.Sprintf("(mkSnap %s %s %s false)", CqNat(res), cqNatList(names), CqList(chans))
		ops = append(ops, "("+opS+")")
		snaps = append(snaps, snap)
		hist.Ops = append(hist.Ops, opS)
		hist.Snaps = append(hist.Snaps, snap)
	}
	// leave no goroutine behind: close live sources, stop readers
	for _, s := range srcs {
		if s.ok && !s.closed {
			close(s.ch)
		}
	}
	for _, s := range subs {
		s.rd.listen(false)
	}
	waitQuiet(t)
	return fmt.Sprintf("(PBus %s %s)", CqList(ops), CqList(snaps)), hist, nontrivial
}

// ------------------------------------------------------------------ EventSystem histories

type fsWorld struct {
	t    *testing.T
	f    *fakeWS
	lg   *sigLogger
	es   *rpcfilters.EventSystem
	nbar int
}

func newFsWorld(t *testing.T) *fsWorld {
	f := newFakeWS(t)
	lg := newSigLogger()
	return &fsWorld{t: t, f: f, lg: lg, es: rpcfilters.NewEventSystem(lg, f.client())}
}

// barrier: an event for a query nobody subscribed to goes through the socket, the WSClient and consumeEvents in order
func (w *fsWorld) barrier() bool {
	w.nbar++
	q := fmt.Sprintf("verif.barrier.%d", w.nbar)
	w.f.push(q, 0)
	deadline := time.Now().Add(longWait)
	for w.lg.seen(q) == 0 {
		if time.Now().After(deadline) {
			return false
		}
		time.Sleep(50 * time.Microsecond)
	}
	return true
}

type fsHist struct {
	Ops   []string `json:"ops"`
	Snaps []string `json:"snaps"`
}

func runFsHistory(t *testing.T, r *Rng, side *Sidecar, nops int) (string, fsHist, bool) {
	w := newFsWorld(t)
	queries := map[int]string{1: qHeader, 2: qEvm, 3: qTx}
	type subInfo struct {
		kind     int
		sub      *rpcfilters.Subscription
		unsub    pubsub.UnsubscribeFunc
		rd       *reader
		uninst   bool
		busUnsub bool
	}
	var subs []*subInfo
	var ops, snaps []string
	var hist fsHist
	marker := 0
	nontrivial := false
	for k := 0; k < nops; k++ {
		var opS string
		kind := r.Intn(100)
		switch {
		case kind < 30:
			kd := 1 + r.Intn(3)
			if r.Chance(50) {
				kd = 1
			}
			var sub *rpcfilters.Subscription
			var unsub pubsub.UnsubscribeFunc
			var err error
			done := make(chan struct{})
			go func() {
				switch kd {
				case 1:
					sub, unsub, err = w.es.SubscribeNewHeads()
				case 2:
					sub, unsub, err = w.es.SubscribeLogs(ethLogsCrit())
				default:
					sub, unsub, err = w.es.SubscribePendingTxs()
				}
				close(done)
			}()
			select {
			case <-done:
			case <-time.After(longWait):
				if ev := blockedEvidence("EventSystem).subscribe"); ev != "" {
					side.Hit("C20/pubsub/filtersys/subscribe-deadlock", "EventSystem.subscribe has been blocked for minutes", map[string]interface{}{"history": hist, "blocked": ev})
				} else {
					skipReason = "fs-subscribe-slow"
				}
				return "", hist, false
			}
			si := &subInfo{kind: kd}
			if err == nil {
				si.sub, si.unsub, si.rd = sub, unsub, &reader{ch: sub.Event()}
			}
			subs = append(subs, si)
			opS = fmt.Sprintf("FSubscribe %d %d", kd, kd)
			side.Count("fs_op:Subscribe")
			if err != nil {
				side.Count("fs_subscribe:error")
			}
		case kind < 45:
			var cand []int
			for i, s := range subs {
				if s.sub != nil && !s.uninst {
					cand = append(cand, i)
				}
			}
			if len(cand) == 0 {
				continue
			}
			i := cand[r.Intn(len(cand))]
			subs[i].uninst = true
			subs[i].sub.Unsubscribe(w.es)
			select {
			case <-subs[i].sub.Err():
			case <-time.After(longWait):
				if ev := blockedEvidence("Subscription).Unsubscribe", "EventSystem).eventLoop"); ev != "" {
					side.Hit("C20/pubsub/filtersys/uninstall-deadlock", "an uninstall has not been processed for minutes", map[string]interface{}{"history": hist, "blocked": ev})
				} else {
					skipReason = "fs-uninstall-slow"
				}
				return "", hist, false
			}
			opS = fmt.Sprintf("FUninstall %d", i)
			side.Count("fs_op:Uninstall")
			nontrivial = true
		case kind < 53:
			var cand []int
			for i, s := range subs {
				if s.sub != nil {
					cand = append(cand, i)
				}
			}
			if len(cand) == 0 {
				continue
			}
			i := cand[r.Intn(len(cand))]
			subs[i].unsub()
			subs[i].busUnsub = true
			opS = fmt.Sprintf("FBusUnsub %d", i)
			side.Count("fs_op:BusUnsubscribe")
		case kind < 85:
			kd := 1 + r.Intn(3)
			if r.Chance(50) {
				kd = 1
			}
			marker++
			w.f.push(queries[kd], kd*100000+marker)
			if !w.barrier() {
				if ev := blockedEvidence("EventSystem).consumeEvents"); ev != "" && !strings.Contains(ev, "[chan receive") {
					side.Hit("C20/pubsub/filtersys/consume-stuck", "consumeEvents has been blocked for minutes", map[string]interface{}{"history": hist, "blocked": ev})
				} else {
					skipReason = "fs-barrier-slow"
				}
				return "", hist, false
			}
			opS = fmt.Sprintf("FEvent %d", kd)
			side.Count("fs_op:Event")
		default:
			var cand []int
			for i, s := range subs {
				if s.sub != nil {
					cand = append(cand, i)
				}
			}
			if len(cand) == 0 {
				continue
			}
			i := cand[r.Intn(len(cand))]
			on := r.Chance(80)
			subs[i].rd.listen(on)
			opS = fmt.Sprintf("FListen %d %s", i, CqBool(on))
			side.Count("fs_op:Listen")
		}
		progress("EventSystem", hist.Ops, opS+" (executed; waiting for the goroutines)")
		waitQuiet(t)
		obs := make([]string, len(subs))
		for i, s := range subs {
			if s.sub == nil {
				obs[i] = "(false, false, [], false)"
				continue
			}
			cl, got := s.rd.snapshot()
			errClosed := false
			select {
			case _, ok := <-s.sub.Err():
				errClosed = !ok
			default:
			}
			topics := make([]int, len(got))
			for j, m := range got {
				topics[j] = m / 100000
				// direct oracle: only events of the subscription's own query, in order, no duplicates
				if topics[j] != s.kind {
					side.Hit("C20/pubsub/filtersys/foreign-event-delivered", fmt.Sprintf("subscription %d (kind %d) received marker %d", i, s.kind, m), hist)
				}
				if j > 0 && got[j]%100000 <= got[j-1]%100000 {
					side.Hit("C20/pubsub/filtersys/duplicate-or-reordered-delivery", fmt.Sprintf("subscription %d received %v", i, got), hist)
				}
			}
			if len(got) > 0 {
				nontrivial = true
			}
			obs[i] = fmt.Sprintf("(true, %s, %s, %s)", CqBool(cl), cqNatList(topics), CqBool(errClosed))
		}
		snap := fmt.Sprintf("(%s, false)", CqList(obs))
		ops = append(ops, "("+opS+")")
		snaps = append(snaps, snap)
		hist.Ops = append(hist.Ops, opS)
		hist.Snaps = append(hist.Snaps, snap)
	}
	for _, s := range subs {
		if s.rd != nil {
			s.rd.listen(false)
		}
	}
	w.f.shutdown()
	return fmt.Sprintf("(PFs %s %s)", CqList(ops), CqList(snaps)), hist, nontrivial
}

// ------------------------------------------------------------------ the replay (child process)

// TestChildReplay runs in a child process: subscribe newHeads, push a header event, and when consumeEvents reaches
// the yield point (channel looked up, event not yet sent) issue the Unsubscribe and give eventLoop 300 ms to
// process it; then let consumeEvents continue.
func TestChildReplay(t *testing.T) {
	if os.Getenv("VERIF_PUBSUB_CHILD") != "replay" {
		t.Skip("child only")
	}
	w := newFsWorld(t)
	sub, _, err := w.es.SubscribeNewHeads()
	require.NoError(t, err)
	rd := &reader{ch: sub.Event()}
	rd.listen(true)
	var once sync.Once
	completed := false
	rpcfilters.VerifYield = func(point, topic string) {
		if point != "consume-before-send" || topic != qHeader {
			return
		}
		once.Do(func() {
			sub.Unsubscribe(w.es)
			select {
			case <-sub.Err():
				completed = true
			case <-time.After(300 * time.Millisecond):
			}
			fmt.Printf("REPLAY completed_during_pause=%v\n", completed)
		})
	}
	w.f.push(qHeader, 100001)
	if !w.barrier() {
		fmt.Println("REPLAY inconclusive: barrier not reached")
		return
	}
	select {
	case <-sub.Err():
	case <-time.After(longWait):
		fmt.Println("REPLAY uninstall_never_completed")
	}
	waitQuiet(t)
	fmt.Println("REPLAY survived")
}

func runReplayChild(t *testing.T) (completed, crashed bool, out string) {
	exe, err := os.Executable()
	require.NoError(t, err)
	cmd := exec.Command(exe, "-test.run", "^TestChildReplay$", "-test.count", "1", "-test.timeout", "1800s")
	cmd.Env = append(os.Environ(), "VERIF_PUBSUB_CHILD=replay")
	var buf bytes.Buffer
	cmd.Stdout, cmd.Stderr = &buf, &buf
	runErr := cmd.Run()
	out = buf.String()
	completed = strings.Contains(out, "REPLAY completed_during_pause=true")
	crashed = diedByPanic(runErr, out)
	if !crashed && !strings.Contains(out, "REPLAY survived") {
		out = "INCONCLUSIVE\n" + out
	}
	return
}

// diedByPanic: the child process ended because a goroutine panicked or the runtime gave up (fatal error: deadlock,
// concurrent map access) -- as opposed to a child that was merely slow (test timeout, failed harness assertion), which
// is no observation about the code under test.
func diedByPanic(runErr error, out string) bool {
	if runErr == nil {
		return false
	}
	if strings.Contains(out, "panic: test timed out") {
		return false
	}
	return strings.Contains(out, "panic:") || strings.Contains(out, "fatal error:") || strings.Contains(out, "[signal ")
}

// minutesBlocked: the dump in out shows a goroutine with one of the frames blocked for minutes.
func minutesBlocked(out string, frames ...string) bool {
	for _, blk := range strings.Split(out, "\n\n") {
		hdr := blk
		if i := strings.IndexByte(blk, '\n'); i >= 0 {
			hdr = blk[:i]
		}
		if !strings.HasPrefix(strings.TrimSpace(hdr), "goroutine ") || !strings.Contains(hdr, " minutes") {
			continue
		}
		for _, f := range frames {
			if strings.Contains(blk, f) {
				return true
			}
		}
	}
	return false
}

// ------------------------------------------------------------------ driver

// TestDriverPubsub re-executes itself as a child process: a goroutine panic inside the components under test
// (send on / close of a closed channel) kills the process that runs the histories, and that must be an
// observation with a signature, not the end of the driver.
func TestDriverPubsub(t *testing.T) {
	dir := OutDir(t)
	seed := EnvSeed()
	if os.Getenv("VERIF_PUBSUB_CHILD") == "" {
		exe, err := os.Executable()
		require.NoError(t, err)
		cmd := exec.Command(exe, "-test.run", "^TestDriverPubsub$", "-test.count", "1", "-test.timeout", "7000s")
		cmd.Env = append(os.Environ(), "VERIF_PUBSUB_CHILD=histories")
		_ = os.Remove(filepath.Join(dir, "current_history.txt"))
		var buf bytes.Buffer
		cmd.Stdout, cmd.Stderr = &buf, &buf
		runErr := cmd.Run()
		if runErr == nil {
			return // the child wrote cases_*.v and driver.json
		}
		out := buf.String()
		if !diedByPanic(runErr, out) && !minutesBlocked(out, "rpc/ethereum/pubsub.", "eth/filters.", "evermint/v12/rpc.") {
			// the child was slow or a harness assertion failed: no observation about the code; an empty run is reported as such
			side := NewSidecar("pubsub", seed, "the process running the histories ended without a verdict (slow machine / harness failure)")
			side.Count("skipped:histories-child-ended-without-verdict")
			side.Extra["child_output_tail"] = tail(out, 2000)
			NewCases(dir, "From Evm Require Import Conc PubSub FilterSys FilterApi Total CorrPubSub.", "ps_mismatches").Write(t, 40)
			side.Write(t, dir)
			return
		}
		side := NewSidecar("pubsub", seed, "the process running the histories crashed")
		sig := "C20/pubsub/histories/crash"
		switch {
		case strings.Contains(out, "send on closed channel"):
			sig = "C20/pubsub/histories/send-on-closed-channel"
		case strings.Contains(out, "close of closed channel"):
			sig = "C20/pubsub/histories/close-of-closed-channel"
		case strings.Contains(out, "all goroutines are asleep") || strings.Contains(out, "test timed out"):
			sig = "C20/pubsub/histories/deadlock"
		case strings.Contains(out, "Unlock of unlocked"):
			sig = "C20/pubsub/histories/unlock-of-unlocked-mutex"
		}
		i := strings.Index(out, "panic:")
		if i < 0 {
			i = 0
		}
		excerpt := out[i:]
		if len(excerpt) > 2500 {
			excerpt = excerpt[:2500]
		}
		hist, _ := os.ReadFile(filepath.Join(dir, "current_history.txt"))
		side.Hit(sig, "the process driving sequential histories on the event bus / filter system died", map[string]interface{}{"history": string(hist), "output": excerpt})
		side.Write(t, dir) // no cases file: nothing was observed to the end
		return
	}
	n := EnvInt("VERIF_N", 120)
	progressPath = filepath.Join(dir, "current_history.txt")
	rng := NewRng(seed)
	side := NewSidecar("pubsub", seed,
		"case = one sequential history (10..40 ops, quiescence between ops decided from goroutine states) on the real memEventBus "+
			"(AddTopic/RemoveTopic/Subscribe/unsubscribe/send on source/close source/readers on and off/Topics) or on the real EventSystem "+
			"(SubscribeNewHeads/Logs/PendingTxs, Subscription.Unsubscribe, bus unsubscribe, events through a real WSClient, readers) "+
			"with the per-op snapshots; plus one replay case; non-trivial = a message was delivered or a channel was closed in the history")
	cases := NewCases(dir, "From Evm Require Import Conc PubSub FilterSys FilterApi Total CorrPubSub.", "ps_mismatches")

	idx := 0
	for i := 0; i < n; i++ {
		r := rng.Fork(uint64(i))
		nops := 10 + r.Intn(31)
		skipReason = ""
		if i%4 == 3 {
			term, h, nt := runApiHistory(t, r, side, nops)
			if skipReason != "" {
				side.Count("skipped:api-history:" + skipReason)
				skipReason = ""
				continue
			}
			if watchdogHit != "" {
				sig := "C20/pubsub/not-quiescent"
				if strings.Contains(watchdogHit, "filter consumer busy") {
					sig = "C20/pubsub/api/filter-consumer-never-parks"
				}
				side.Hit(sig, "one goroutine of the filter API stayed away from its loop head for minutes, in every sample: "+watchdogHit, h)
				break
			}
			if term == "" {
				continue
			}
			cases.Add(term)
			side.Case(idx, "api:"+fmt.Sprint(h.Cap)+":"+strings.Join(h.Ops, ";"), nt, h)
		} else if i%4 != 2 {
			term, h, nt := runBusHistory(t, r, side, nops)
			if skipReason != "" {
				side.Count("skipped:bus-history:" + skipReason)
				skipReason = ""
				continue
			}
			if term == "" {
				continue
			}
			cases.Add(term)
			side.Case(idx, "bus:"+strings.Join(h.Ops, ";"), nt, h)
		} else {
			term, h, nt := runFsHistory(t, r, side, nops)
			if skipReason != "" {
				side.Count("skipped:fs-history:" + skipReason)
				skipReason = ""
				continue
			}
			if term == "" {
				continue
			}
			cases.Add(term)
			side.Case(idx, "fs:"+strings.Join(h.Ops, ";"), nt, h)
		}
		idx++
		if watchdogHit != "" {
			side.Hit("C20/pubsub/not-quiescent", "one component goroutine stayed away from its loop head for minutes, in every sample: "+watchdogHit, nil)
			break
		}
	}

	// deterministic replay of the witness interleaving of Proofs/FilterSysProofs.v (fs_window_crashes)
	completed, crashed, out := runReplayChild(t)
	side.Count(fmt.Sprintf("replay:completed_during_pause=%v,crashed=%v", completed, crashed))
	rc := map[string]interface{}{"completed_during_pause": completed, "crashed": crashed, "output_tail": tail(out, 1500)}
	if strings.HasPrefix(out, "INCONCLUSIVE") {
		side.Count("skipped:replay-child-ended-without-verdict")
	} else {
		cases.Add(fmt.Sprintf("(PReplay %s %s)", CqBool(completed), CqBool(crashed)))
		side.Case(idx, "replay", true, rc)
		idx++
	}
	if crashed {
		sig := "C20/pubsub/filtersys/replay-crashed"
		if strings.Contains(out, "send on closed channel") {
			sig = "C20/pubsub/filtersys/send-on-closed-channel"
		}
		side.Hit(sig, "uninstall issued while consumeEvents was between topic-channel lookup and send crashed the process", rc)
	} else if completed {
		side.Hit("C20/pubsub/filtersys/uninstall-not-excluded", "eventLoop closed the topic channel while consumeEvents was between lookup and send", rc)
	}

	// Tx events of committed-but-invalid transactions delivered to an installed pending-transaction filter
	for _, k := range []struct {
		name            string
		hasMsgs, validB bool
	}{{"garbage-eth-payload", true, false}, {"no-messages", false, false}} {
		exe, err := os.Executable()
		require.NoError(t, err)
		cmd := exec.Command(exe, "-test.run", "^TestChildPending$", "-test.count", "1", "-test.timeout", "1800s")
		cmd.Env = append(os.Environ(), "VERIF_PUBSUB_CHILD=pending:"+k.name)
		var buf bytes.Buffer
		cmd.Stdout, cmd.Stderr = &buf, &buf
		runErr := cmd.Run()
		out := buf.String()
		survived := runErr == nil && strings.Contains(out, "PENDING survived")
		pc := map[string]interface{}{"input": k.name, "survived": survived}
		if !survived && !diedByPanic(runErr, out) {
			side.Count("skipped:pending-child-ended-without-verdict:" + k.name)
			continue
		}
		if !survived {
			i := strings.Index(out, "panic:")
			if i < 0 {
				i = 0
			}
			pc["output"] = tail(out[i:], 1500)
			if len(out[i:]) > 1500 {
				pc["output"] = out[i : i+1500]
			}
			side.Hit("C20/pubsub/pending-tx/"+k.name, "a Tx event of a committed transaction crashed the pending-transaction filter goroutine (whole process)", pc)
		}
		side.Count(fmt.Sprintf("pending:%s:survived=%v", k.name, survived))
		cases.Add(fmt.Sprintf("(PPending %s %s %s)", CqBool(k.hasMsgs), CqBool(k.validB), CqBool(survived)))
		side.Case(idx, "pending:"+k.name, true, pc)
		idx++
	}

	// the lock skeleton of api.go against the one FilterApi.v was written from (apiskel_test.go)
	{
		repo := os.Getenv("VERIF_REPO")
		if repo == "" {
			repo = "/repo"
		}
		diffs, found, err := apiSkeletonDiffs(repo)
		require.NoError(t, err)
		fns := make([]string, 0, len(apiSkeletons))
		for fn := range apiSkeletons {
			fns = append(fns, fn)
		}
		sort.Strings(fns)
		for _, fn := range fns {
			d, changed := diffs[fn]
			sc := map[string]interface{}{"function": fn, "skeleton": found[fn]}
			if changed {
				sc["modelled"] = d[0]
				side.Hit("C20/pubsub/api/lock-skeleton-changed/"+fn,
					"the order of filtersMu.Lock/Unlock, api.filters accesses, EventSystem calls and timer operations in "+fn+" is no longer the one coq/Model/FilterApi.v models; modelled: "+d[0]+"; found: "+d[1], sc)
			}
			side.Count(fmt.Sprintf("api_skeleton:%s:matches=%v", fn, !changed))
			cases.Add(fmt.Sprintf("(PSkel %s)", CqBool(!changed)))
			side.Case(idx, "api-skeleton:"+fn+":"+found[fn], true, sc)
			idx++
		}
	}

	// log filters (logs_test.go): FilterLogs on the product criteria x log, and the real consumers end to end in a child
	{
		before := len(side.OracleHits)
		pairs := logFilterProduct(side)
		ok := len(side.OracleHits) == before
		cases.Add(fmt.Sprintf("(PLogFilter %s)", CqBool(ok)))
		side.Case(idx, "log-filter-product", true, map[string]interface{}{"pairs": pairs, "no_panic": ok})
		idx++
		exe, err := os.Executable()
		require.NoError(t, err)
		cmd := exec.Command(exe, "-test.run", "^TestChildLogFilters$", "-test.count", "1", "-test.timeout", "3000s")
		cmd.Env = append(os.Environ(), "VERIF_PUBSUB_CHILD=logfilters")
		var buf bytes.Buffer
		cmd.Stdout, cmd.Stderr = &buf, &buf
		runErr := cmd.Run()
		out := buf.String()
		survived := runErr == nil && strings.Contains(out, "LOGFILTERS survived")
		switch {
		case survived:
			cases.Add("(PLogFilter true)")
			side.Case(idx, "log-filter-delivery", true, map[string]interface{}{"survived": true})
			idx++
			side.Count("log_filter_delivery:survived")
		case diedByPanic(runErr, out) || strings.Contains(out, "ws_alive=false"):
			_, ex := wsCrashSignature("C20/pubsub/log-filters", out)
			side.Hit("C20/pubsub/log-filters/delivery-killed-the-process", "delivering EVM Tx events with logs of 0..4 topics to log filters of every criteria shape (eth_newFilter consumers, websocket logs subscriptions) killed the process",
				map[string]interface{}{"stderr": ex})
			cases.Add("(PLogFilter false)")
			side.Case(idx, "log-filter-delivery", true, map[string]interface{}{"survived": false})
			idx++
		default:
			side.Count("skipped:log-filter-child-ended-without-verdict")
		}
	}

	// the same events delivered to a newPendingTransactions subscription of the real websocket server (ws_test.go)
	for _, k := range []struct {
		name            string
		hasMsgs, validB bool
	}{{"garbage-eth-payload", true, false}, {"no-messages", false, false}} {
		survived, died, out := runWsChild(t, "ws:pending:"+k.name)
		pc := map[string]interface{}{"input": k.name, "survived": survived, "server": "websocket"}
		if !survived && !died {
			side.Count("skipped:ws-pending-child-ended-without-verdict:" + k.name)
			continue
		}
		if !survived {
			_, ex := wsCrashSignature("C20/pubsub/ws/pending-tx", out)
			pc["output"] = ex
			side.Hit("C20/pubsub/ws/pending-tx/"+k.name, "a Tx event of a committed transaction crashed the websocket server's newPendingTransactions consumer goroutine (whole process)", pc)
		}
		side.Count(fmt.Sprintf("ws_pending:%s:survived=%v", k.name, survived))
		cases.Add(fmt.Sprintf("(PPending %s %s %s)", CqBool(k.hasMsgs), CqBool(k.validB), CqBool(survived)))
		side.Case(idx, "ws-pending:"+k.name, true, pc)
		idx++
	}
	// concurrent websocket clients on the real websocket server, in a child process (ws_test.go)
	{
		wms := 2500
		if os.Getenv("VERIF_TIER") == "thorough" {
			wms = 30000
		}
		survived, died, out := runWsChild(t, "ws:stress", fmt.Sprintf("VERIF_WSSTRESS_MS=%d", EnvInt("VERIF_WSSTRESS_MS", wms)))
		if !survived && !died {
			side.Count("skipped:ws-stress-child-ended-without-verdict")
		} else if !survived {
			sig, ex := wsCrashSignature("C20/pubsub/ws-stress", out)
			side.Hit(sig, "the process running the websocket server under concurrent clients (subscribe / unsubscribe / malformed messages / dropped connections while events stream) died or stalled",
				map[string]interface{}{"stderr": ex})
		}
		side.Count(fmt.Sprintf("ws_stress:ok=%v", survived))
		if survived || died {
			cases.Add(fmt.Sprintf("(PWsStress %s)", CqBool(survived)))
			side.Case(idx, "ws-stress", true, map[string]interface{}{"survived": survived})
			idx++
		}
	}

	// concurrent JSON-RPC filter calls on the real PublicFilterAPI, in a child process (api_test.go)
	ms := 3000
	if os.Getenv("VERIF_TIER") == "thorough" {
		ms = 45000
	}
	ms = EnvInt("VERIF_APISTRESS_MS", ms)
	if survived, conclusive := apiStress(t, side, ms); conclusive {
		cases.Add(fmt.Sprintf("(PApiStress %s)", CqBool(survived)))
		side.Case(idx, "api-stress", true, map[string]interface{}{"survived": survived, "ms": ms})
		idx++
	}

	if os.Getenv("VERIF_TIER") == "thorough" {
		stress(t, side)
	}
	_ = os.Remove(progressPath)
	cases.Write(t, 40)
	side.Write(t, dir)
}

func tail(s string, n int) string {
	if len(s) > n {
		return s[len(s)-n:]
	}
	return s
}

// stress (thorough tier): concurrent clients on both components, in a child process; supports, never replaces, the theorems.
func stress(t *testing.T, side *Sidecar) {
	exe, err := os.Executable()
	require.NoError(t, err)
	cmd := exec.Command(exe, "-test.run", "^TestChildStress$", "-test.count", "1", "-test.timeout", "3000s")
	cmd.Env = append(os.Environ(), "VERIF_PUBSUB_CHILD=stress")
	var buf bytes.Buffer
	cmd.Stdout, cmd.Stderr = &buf, &buf
	runErr := cmd.Run()
	out := buf.String()
	ok := runErr == nil && strings.Contains(out, "STRESS survived")
	side.Count(fmt.Sprintf("stress:ok=%v", ok))
	if ok {
		return
	}
	if !diedByPanic(runErr, out) && !minutesBlocked(out, "rpc/ethereum/pubsub.", "eth/filters.") {
		side.Count("skipped:stress-child-ended-without-verdict")
		return
	}
	sig := "C20/pubsub/stress/crash-or-deadlock"
	if strings.Contains(out, "send on closed channel") {
		sig = "C20/pubsub/stress/send-on-closed-channel"
	} else if strings.Contains(out, "close of closed channel") {
		sig = "C20/pubsub/stress/close-of-closed-channel"
	} else if strings.Contains(out, "STRESS deadlock") || strings.Contains(out, "test timed out") {
		sig = "C20/pubsub/stress/deadlock"
	}
	side.Hit(sig, "goroutine stress run crashed or stalled", map[string]interface{}{"output_tail": tail(out, 3000)})
}

// stalled: a stress client waited longWait for something; the dump decides in the parent whether that is a deadlock.
func stalled(what string) {
	fmt.Println("STRESS deadlock: " + what)
	for _, g := range goroutines() {
		fmt.Println(g.stack + "\n")
	}
	os.Exit(3)
}

func TestChildStress(t *testing.T) {
	if os.Getenv("VERIF_PUBSUB_CHILD") != "stress" {
		t.Skip("child only")
	}
	seed := EnvSeed()
	// (1) event bus: concurrent AddTopic/RemoveTopic/Subscribe/unsubscribe against publishers and source closes
	bus := pubsub.NewEventBus()
	var wg sync.WaitGroup
	stop := make(chan struct{})
	for g := 0; g < 8; g++ {
		wg.Add(1)
		go func(g int) {
			defer wg.Done()
			r := NewRng(seed + uint64(g)*7919)
			for {
				select {
				case <-stop:
					return
				default:
				}
				name := fmt.Sprintf("t%d", r.Intn(3))
				switch r.Intn(5) {
				case 0:
					src := make(chan coretypes.ResultEvent)
					if bus.AddTopic(name, src) == nil {
						go func() {
							for i := 0; i < 50; i++ {
								select {
								case src <- coretypes.ResultEvent{Query: name}:
								case <-time.After(longWait):
									stalled("publisher not receiving")
								}
							}
							close(src)
						}()
					}
				case 1:
					bus.RemoveTopic(name)
				case 2, 3:
					ch, unsub, err := bus.Subscribe(name)
					if err == nil {
						go func() {
							for i := 0; i < 20; i++ {
								select {
								case _, ok := <-ch:
									if !ok {
										return
									}
								case <-time.After(2 * time.Millisecond):
								}
							}
							unsub()
						}()
					}
				default:
					_ = bus.Topics()
				}
			}
		}(g)
	}
	time.Sleep(8 * time.Second)
	close(stop)
	done := make(chan struct{})
	go func() { wg.Wait(); close(done) }()
	select {
	case <-done:
	case <-time.After(2 * longWait):
		stalled("bus clients stuck")
	}
	// (2) EventSystem: concurrent subscribers / unsubscribers while events stream
	w := newFsWorld(t)
	stop2 := make(chan struct{})
	pusherDone := make(chan struct{})
	go func() {
		defer close(pusherDone)
		for i := 0; ; i++ {
			select {
			case <-stop2:
				return
			default:
			}
			if w.f.pushQuiet([]string{qHeader, qEvm, qTx}[i%3], i) != nil {
				return
			}
		}
	}()
	var wg2 sync.WaitGroup
	for g := 0; g < 6; g++ {
		wg2.Add(1)
		go func(g int) {
			defer wg2.Done()
			r := NewRng(seed + uint64(g)*104729)
			end := time.Now().Add(10 * time.Second)
			for time.Now().Before(end) {
				var sub *rpcfilters.Subscription
				var unsub pubsub.UnsubscribeFunc
				var err error
				switch r.Intn(3) {
				case 0:
					sub, unsub, err = w.es.SubscribeNewHeads()
				case 1:
					sub, unsub, err = w.es.SubscribeLogs(ethLogsCrit())
				default:
					sub, unsub, err = w.es.SubscribePendingTxs()
				}
				if err != nil {
					continue
				}
				stopR := make(chan struct{})
				go func() {
					for {
						select {
						case _, ok := <-sub.Event():
							if !ok {
								return
							}
						case <-stopR:
							return
						}
					}
				}()
				time.Sleep(time.Duration(r.Intn(300)) * time.Microsecond)
				if r.Chance(70) {
					sub.Unsubscribe(w.es)
					select {
					case <-sub.Err():
					case <-time.After(longWait):
						stalled("uninstall not processed")
					}
				}
				unsub()
				close(stopR)
			}
		}(g)
	}
	done2 := make(chan struct{})
	go func() { wg2.Wait(); close(done2) }()
	select {
	case <-done2:
	case <-time.After(3 * longWait):
		stalled("filter system clients stuck")
	}
	close(stop2)
	<-pusherDone
	fmt.Println("STRESS survived")
}
