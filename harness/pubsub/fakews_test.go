package pubsub

// A stand-in for CometBFT's websocket RPC endpoint: accepts the JSON-RPC subscribe / unsubscribe calls of the
// real cmtjrpcclient.WSClient and lets the harness push event responses. Everything behind the socket
// (WSClient read routine, ResponsesCh, EventSystem.consumeEvents, eventLoop, the event bus) is the real code.

import (
	"encoding/json"
	"fmt"
	"net"
	"net/http"
	"strings"
	"sync"
	"testing"
	"time"

	"cosmossdk.io/log"
	tmjson "github.com/cometbft/cometbft/libs/json"
	coretypes "github.com/cometbft/cometbft/rpc/core/types"
	cmtjrpcclient "github.com/cometbft/cometbft/rpc/jsonrpc/client"
	"github.com/gorilla/websocket"
	"github.com/stretchr/testify/require"
)

type fakeWS struct {
	t        *testing.T
	ln       net.Listener
	srv      *http.Server
	mu       sync.Mutex
	conn     *websocket.Conn
	calls    []string // "subscribe <query>" / "unsubscribe <query>" in arrival order
	callCond *sync.Cond
	clients  []*cmtjrpcclient.WSClient
	down     bool
}

// shutdown stops the clients and the endpoint of a world that is no longer used (a driver runs hundreds of histories in
// one process: what a finished world leaves behind must not pile up in the goroutine dumps of the quiescence check).
func (f *fakeWS) shutdown() {
	f.mu.Lock()
	if f.down {
		f.mu.Unlock()
		return
	}
	f.down = true
	cls := f.clients
	f.mu.Unlock()
	for _, c := range cls {
		_ = c.Stop()
	}
	_ = f.srv.Close()
}

func newFakeWS(t *testing.T) *fakeWS {
	ln, err := net.Listen("tcp", "127.0.0.1:0")
	require.NoError(t, err)
	f := &fakeWS{t: t, ln: ln}
	f.callCond = sync.NewCond(&f.mu)
	up := websocket.Upgrader{CheckOrigin: func(*http.Request) bool { return true }}
	mux := http.NewServeMux()
	mux.HandleFunc("/websocket", func(w http.ResponseWriter, r *http.Request) {
		c, err := up.Upgrade(w, r, nil)
		if err != nil {
			return
		}
		f.mu.Lock()
		f.conn = c
		f.callCond.Broadcast()
		f.mu.Unlock()
		for {
			_, data, err := c.ReadMessage()
			if err != nil {
				return
			}
			var req struct {
				Method string                 `json:"method"`
				Params map[string]interface{} `json:"params"`
			}
			if json.Unmarshal(data, &req) == nil {
				f.mu.Lock()
				f.calls = append(f.calls, fmt.Sprintf("%s %v", req.Method, req.Params["query"]))
				f.callCond.Broadcast()
				f.mu.Unlock()
			}
		}
	})
	f.srv = &http.Server{Handler: mux}
	go func() { _ = f.srv.Serve(ln) }()
	t.Cleanup(f.shutdown)
	return f
}

func (f *fakeWS) addr() string { return "tcp://" + f.ln.Addr().String() }

// client returns a started real WSClient connected to the fake endpoint.
func (f *fakeWS) client() *cmtjrpcclient.WSClient {
	c, err := cmtjrpcclient.NewWS(f.addr(), "/websocket", cmtjrpcclient.PingPeriod(0), cmtjrpcclient.ReadWait(0), cmtjrpcclient.WriteWait(0))
	require.NoError(f.t, err)
	require.NoError(f.t, c.Start())
	f.mu.Lock()
	for f.conn == nil {
		f.callCond.Wait()
	}
	f.clients = append(f.clients, c)
	f.mu.Unlock()
	return c
}

// push sends one event response for query q carrying the marker n.
func (f *fakeWS) push(q string, n int) {
	ev := coretypes.ResultEvent{Query: q, Events: map[string][]string{"verif.n": {fmt.Sprint(n)}}}
	res, err := tmjson.Marshal(ev)
	require.NoError(f.t, err)
	msg := fmt.Sprintf(`{"jsonrpc":"2.0","id":1,"result":%s}`, res)
	f.mu.Lock()
	defer f.mu.Unlock()
	require.NoError(f.t, f.conn.WriteMessage(websocket.TextMessage, []byte(msg)))
}

// pushQuiet is push without assertions (for streams that run until the connection goes away).
func (f *fakeWS) pushQuiet(q string, n int) error {
	ev := coretypes.ResultEvent{Query: q, Events: map[string][]string{"verif.n": {fmt.Sprint(n)}}}
	res, err := tmjson.Marshal(ev)
	if err != nil {
		return err
	}
	msg := fmt.Sprintf(`{"jsonrpc":"2.0","id":1,"result":%s}`, res)
	f.mu.Lock()
	defer f.mu.Unlock()
	return f.conn.WriteMessage(websocket.TextMessage, []byte(msg))
}

func (f *fakeWS) waitCalls(n int) {
	f.mu.Lock()
	defer f.mu.Unlock()
	deadline := time.Now().Add(20 * time.Second)
	for len(f.calls) < n {
		if time.Now().After(deadline) {
			f.t.Fatalf("fake ws: expected %d calls, have %v", n, f.calls)
		}
		f.mu.Unlock()
		time.Sleep(200 * time.Microsecond)
		f.mu.Lock()
	}
}

func markerOf(ev coretypes.ResultEvent) int {
	var n int
	if v := ev.Events["verif.n"]; len(v) == 1 {
		_, _ = fmt.Sscan(v[0], &n)
	}
	return n
}

// sigLogger is the logger handed to NewEventSystem: consumeEvents logs "channel for subscription not found"
// (Debug) for an event whose query has no topic channel; the harness uses such events as in-band barriers.
type sigLogger struct {
	mu      sync.Mutex
	unknown map[string]int
}

func newSigLogger() *sigLogger { return &sigLogger{unknown: map[string]int{}} }

func (l *sigLogger) Info(string, ...any)  {}
func (l *sigLogger) Warn(string, ...any)  {}
func (l *sigLogger) Error(string, ...any) {}
func (l *sigLogger) Debug(msg string, kv ...any) {
	if strings.HasPrefix(msg, "channel for subscription not found") && len(kv) >= 2 {
		l.mu.Lock()
		l.unknown[fmt.Sprint(kv[1])]++
		l.mu.Unlock()
	}
}
func (l *sigLogger) With(...any) log.Logger { return l }
func (l *sigLogger) Impl() any              { return l }

func (l *sigLogger) seen(topic string) int {
	l.mu.Lock()
	defer l.mu.Unlock()
	return l.unknown[topic]
}
