package pubsub

// The lock skeleton of rpc/namespaces/ethereum/eth/filters/api.go: for every function that coq/Model/FilterApi.v models,
// the order of filtersMu.Lock / Unlock / deferred Unlock, the accesses to api.filters, the calls into the EventSystem
// (Subscribe*, Unsubscribe) and the operations on a filter's deadline timer, read off the source of $VERIF_REPO with go/ast.
// FilterApi.v splits each call exactly at these points and makes everything between a Lock and its Unlock as atomic as
// the mutex makes it; if a statement moves across a lock boundary (look-up and delete no longer in one critical section,
// timer handling outside the lock, Unsubscribe before the delete, ...) the theorems are about another program. The driver
// therefore compares the skeleton with the one the model was written from; a difference is an oracle hit
// C20/pubsub/api/lock-skeleton-changed/<function> (and a correspondence mismatch), whether or not the stress run happens
// to hit the interleaving that the change opens.

import (
	"go/ast"
	"go/parser"
	"go/token"
	"os"
	"path/filepath"
	"strings"
)

// modelled skeletons (code of /repo as FilterApi.v describes it); `{` `}` = body of a function literal (the consumer goroutine)
var apiSkeletons = map[string]string{
	// TL_lock; TL_scan (fired timer: Unsubscribe + delete, one critical section); TL_unlock
	"timeoutLoop": "L trecv unsub del U",
	// NF_lock; NF_cap; NF_sub; NF_put; consumer: event -> W_ev_*, closed eventCh / errCh -> W_cl_*
	"NewPendingTransactionFilter": "L DU len sub put { DU:cancel L del U L get U L del U }",
	"NewBlockFilter":              "L DU len sub put { DU:cancel L del U L get U L del U }",
	"NewFilter":                   "L DU len sub put { DU:cancel L del U L get U L del U }",
	// UF_lock; UF_look = look-up AND delete; UF_unlock; UF_unsub
	"UninstallFilter": "L get del U unsub",
	// GL_lock; GL_look; GL_unlock
	"GetFilterLogs": "L get U",
	// GC_lock; GC_do (timer Stop / drain / Reset and the results, all under the lock); GC_unlock (deferred)
	"GetFilterChanges": "L DU get tstop trecv treset",
}

func exprString(e ast.Expr) string {
	switch x := e.(type) {
	case *ast.Ident:
		return x.Name
	case *ast.SelectorExpr:
		return exprString(x.X) + "." + x.Sel.Name
	case *ast.CallExpr:
		return exprString(x.Fun) + "()"
	case *ast.IndexExpr:
		return exprString(x.X) + "[]"
	case *ast.UnaryExpr:
		return x.Op.String() + exprString(x.X)
	case *ast.StarExpr:
		return "*" + exprString(x.X)
	case *ast.ParenExpr:
		return exprString(x.X)
	}
	return "?"
}

// skeletonOf walks a function body in source order. Calls of other methods of the API defined in the same file
// (helpers: a look-up moved into its own function, ...) are inlined, their deferred Unlock taking effect where the helper
// returns, so that extracting a helper does not change the skeleton but moving statements between critical sections does.
func skeletonOf(body *ast.BlockStmt, helpers map[string]*ast.FuncDecl, depth int) string {
	var out []string
	var walk func(n ast.Node)
	emitCall := func(c *ast.CallExpr, deferred bool) bool {
		f := exprString(c.Fun)
		switch {
		case strings.HasSuffix(f, "filtersMu.Lock"):
			out = append(out, "L")
		case strings.HasSuffix(f, "filtersMu.Unlock"):
			if deferred {
				out = append(out, "DU")
			} else {
				out = append(out, "U")
			}
		case strings.HasSuffix(f, ".Unsubscribe"):
			out = append(out, "unsub")
		case strings.Contains(f, "events.Subscribe"):
			out = append(out, "sub")
		case f == "delete" && len(c.Args) > 0 && strings.HasSuffix(exprString(c.Args[0]), "api.filters"):
			out = append(out, "del")
		case f == "len" && len(c.Args) > 0 && strings.HasSuffix(exprString(c.Args[0]), "api.filters"):
			out = append(out, "len")
		case strings.HasSuffix(f, "deadline.Stop"):
			out = append(out, "tstop")
		case strings.HasSuffix(f, "deadline.Reset"):
			out = append(out, "treset")
		case deferred && (f == "cancelSubs"):
			out = append(out, "DU:cancel")
		default:
			if h, ok := helpers[strings.TrimPrefix(f, "api.")]; ok && strings.HasPrefix(f, "api.") && depth < 3 && !deferred {
				inl := strings.Fields(skeletonOf(h.Body, helpers, depth+1))
				du := false
				for _, tk := range inl {
					if tk == "DU" {
						du = true
						continue
					}
					out = append(out, tk)
				}
				if du {
					out = append(out, "U")
				}
				return true
			}
			return false
		}
		return true
	}
	walk = func(n ast.Node) {
		ast.Inspect(n, func(m ast.Node) bool {
			switch x := m.(type) {
			case *ast.DeferStmt:
				emitCall(x.Call, true)
				return false
			case *ast.FuncLit:
				out = append(out, "{")
				walk(x.Body)
				out = append(out, "}")
				return false
			case *ast.AssignStmt:
				// api.filters[id] = ... is a put; reads on the right-hand side are gets
				for _, r := range x.Rhs {
					walk(r)
				}
				for _, l := range x.Lhs {
					if ix, ok := l.(*ast.IndexExpr); ok && strings.HasSuffix(exprString(ix.X), "api.filters") {
						out = append(out, "put")
					} else {
						walk(l)
					}
				}
				return false
			case *ast.IndexExpr:
				if strings.HasSuffix(exprString(x.X), "api.filters") {
					out = append(out, "get")
				}
			case *ast.UnaryExpr:
				if x.Op == token.ARROW && strings.HasSuffix(exprString(x.X), "deadline.C") {
					out = append(out, "trecv")
				}
			case *ast.CallExpr:
				if emitCall(x, false) {
					for _, a := range x.Args {
						if _, isLit := a.(*ast.FuncLit); isLit {
							walk(a)
						}
					}
					return false
				}
			}
			return true
		})
	}
	walk(body)
	return strings.Join(out, " ")
}

// apiSkeletonDiffs returns function -> [expected, found] for every modelled function whose skeleton differs.
func apiSkeletonDiffs(repo string) (map[string][2]string, map[string]string, error) {
	path := filepath.Join(repo, "rpc", "namespaces", "ethereum", "eth", "filters", "api.go")
	src, err := os.ReadFile(path)
	if err != nil {
		return nil, nil, err
	}
	fset := token.NewFileSet()
	file, err := parser.ParseFile(fset, path, src, 0)
	if err != nil {
		return nil, nil, err
	}
	found := map[string]string{}
	helpers := map[string]*ast.FuncDecl{}
	for _, d := range file.Decls {
		if fd, ok := d.(*ast.FuncDecl); ok && fd.Recv != nil && fd.Body != nil {
			if _, modelled := apiSkeletons[fd.Name.Name]; !modelled {
				helpers[fd.Name.Name] = fd
			}
		}
	}
	for _, d := range file.Decls {
		fd, ok := d.(*ast.FuncDecl)
		if !ok || fd.Recv == nil || fd.Body == nil {
			continue
		}
		if _, modelled := apiSkeletons[fd.Name.Name]; modelled {
			found[fd.Name.Name] = skeletonOf(fd.Body, helpers, 0)
		}
	}
	diffs := map[string][2]string{}
	for fn, want := range apiSkeletons {
		if got, ok := found[fn]; !ok {
			diffs[fn] = [2]string{want, "<function not found>"}
		} else if got != want {
			diffs[fn] = [2]string{want, got}
		}
	}
	return diffs, found, nil
}
