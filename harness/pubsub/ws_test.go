package pubsub

// The websocket JSON-RPC server (rpc/websockets.go): the real server (rpc.NewWebsocketsServer + Start) on a loopback
// port, real websocket clients, a real EventSystem behind it fed by the fake CometBFT endpoint.
// Everything the server starts per subscription is an unrecovered goroutine (a panic in readLoop itself is recovered by
// net/http), so all of it runs in CHILD PROCESSES:
//   ws:pending:<input>  a newPendingTransactions subscription receives Tx events of committed-but-invalid transactions
//   ws:stress           several client connections subscribe (every kind, well-formed and malformed parameters),
//                       unsubscribe (own, foreign, unknown ids, wrong types), send malformed / batch / non-subscription
//                       messages and drop their connections abruptly while header / tx events stream; afterwards a
//                       fresh client must still get its notifications.

import (
	"bytes"
	"encoding/json"
	"fmt"
	"net"
	"os"
	"os/exec"
	"strings"
	"sync"
	"testing"
	"time"

	"github.com/cosmos/cosmos-sdk/client"
	"github.com/gorilla/websocket"
	"github.com/stretchr/testify/require"

	evrpc "github.com/EscanBE/evermint/v12/rpc"
	"github.com/EscanBE/evermint/v12/server/config"

	. "verifharness/hx"
)

type wsWorld struct {
	t    *testing.T
	f    *fakeWS
	addr string
}

func freeAddr(t *testing.T) string {
	ln, err := net.Listen("tcp", "127.0.0.1:0")
	require.NoError(t, err)
	a := ln.Addr().String()
	_ = ln.Close()
	return a
}

func newWsWorld(t *testing.T) *wsWorld {
	encOnce.Do(func() { encTxConfig = chainappEncoding() })
	f := newFakeWS(t)
	clientCtx := client.Context{}.WithTxConfig(encTxConfig)
	// the port is chosen, released and then bound by the server: another process may take it in between -> try again
	for attempt := 0; attempt < 6; attempt++ {
		cfg := config.DefaultConfig()
		cfg.JSONRPC.Address = freeAddr(t) // nothing listens there: non-subscription calls get an error response
		cfg.JSONRPC.WsAddress = freeAddr(t)
		srv := evrpc.NewWebsocketsServer(clientCtx, newSigLogger(), f.client(), cfg)
		srv.Start()
		w := &wsWorld{t: t, f: f, addr: cfg.JSONRPC.WsAddress}
		dl := time.Now().Add(3 * time.Second)
		for time.Now().Before(dl) {
			if c, err := w.dial(); err == nil { // a websocket handshake, not just an open port
				_ = c.Close()
				return w
			}
			time.Sleep(time.Millisecond)
		}
	}
	t.Fatalf("websocket server did not start on a free loopback port")
	return nil
}

func (w *wsWorld) dial() (*websocket.Conn, error) {
	c, _, err := websocket.DefaultDialer.Dial("ws://"+w.addr+"/", nil)
	return c, err
}

// call sends one message and returns the first response that is not a notification.
func wsCall(c *websocket.Conn, msg string, wait time.Duration) (map[string]interface{}, error) {
	if err := c.WriteMessage(websocket.TextMessage, []byte(msg)); err != nil {
		return nil, err
	}
	dl := time.Now().Add(wait)
	for {
		_ = c.SetReadDeadline(dl)
		_, data, err := c.ReadMessage()
		if err != nil {
			return nil, err
		}
		var m map[string]interface{}
		if json.Unmarshal(data, &m) != nil {
			continue
		}
		if m["method"] == "eth_subscription" {
			continue
		}
		return m, nil
	}
}

// waitNotification reads until a notification for subscription id arrives.
func wsWaitNotification(c *websocket.Conn, id string, wait time.Duration) bool {
	dl := time.Now().Add(wait)
	for time.Now().Before(dl) {
		_ = c.SetReadDeadline(dl)
		_, data, err := c.ReadMessage()
		if err != nil {
			return false
		}
		var m struct {
			Method string `json:"method"`
			Params struct {
				Subscription string `json:"subscription"`
			} `json:"params"`
		}
		if json.Unmarshal(data, &m) == nil && m.Method == "eth_subscription" && m.Params.Subscription == id {
			return true
		}
	}
	return false
}

// alive: a fresh client subscribes to newHeads and must receive a header pushed afterwards.
func (w *wsWorld) alive() bool {
	c, err := w.dial()
	if err != nil {
		fmt.Println("WS alive: dial failed:", err)
		return false
	}
	defer c.Close()
	r, err := wsCall(c, `{"jsonrpc":"2.0","id":1,"method":"eth_subscribe","params":["newHeads"]}`, longWait)
	if err != nil {
		fmt.Println("WS alive: subscribe failed:", err)
		return false
	}
	id, _ := r["result"].(string)
	if id == "" {
		fmt.Println("WS alive: no subscription id:", r)
		return false
	}
	got := make(chan bool, 1)
	go func() { got <- wsWaitNotification(c, id, longWait) }()
	for i := 0; i < 5000; i++ {
		_ = w.f.pushHeader(qHeader, int64(1000+i))
		select {
		case ok := <-got:
			return ok
		case <-time.After(20 * time.Millisecond):
		}
	}
	return <-got
}

func TestChildWs(t *testing.T) {
	mode := os.Getenv("VERIF_PUBSUB_CHILD")
	if !strings.HasPrefix(mode, "ws:") {
		t.Skip("child only")
	}
	w := newWsWorld(t)
	switch {
	case strings.HasPrefix(mode, "ws:pending:"):
		in := pendingInputs(t)[mode[len("ws:pending:"):]]
		c, err := w.dial()
		require.NoError(t, err)
		r, err := wsCall(c, `{"jsonrpc":"2.0","id":1,"method":"eth_subscribe","params":["newPendingTransactions"]}`, longWait)
		require.NoError(t, err)
		fmt.Printf("WS subscribed %v\n", r["result"])
		w.f.pushTx(qTx, in)
		time.Sleep(300 * time.Millisecond)
		w.f.pushTx(qTx, in)
		time.Sleep(300 * time.Millisecond)
		fmt.Printf("WS alive=%v\n", w.alive())
		fmt.Println("WS survived")
	case mode == "ws:stress":
		wsStress(t, w)
	}
}

func wsStress(t *testing.T, w *wsWorld) {
	seed := EnvSeed()
	dur := time.Duration(EnvInt("VERIF_WSSTRESS_MS", 2500)) * time.Millisecond
	garbage := pendingInputs(t)
	stop := make(chan struct{})
	pushDone := make(chan struct{})
	go func() {
		defer close(pushDone)
		for i := int64(1); ; i++ {
			select {
			case <-stop:
				return
			default:
			}
			switch i % 5 {
			case 0, 1:
				_ = w.f.pushHeader(qHeader, i)
			case 2:
				_ = w.f.pushQuiet(qEvm, int(i))
			case 3:
				_ = w.f.pushTxQuiet(qTx, garbage["garbage-eth-payload"])
			default:
				_ = w.f.pushTxQuiet([]string{qTx, qEvm}[int(i/5)%2], [][]byte{garbage["no-messages"], {0xff, 0x01}}[int(i/10)%2])
			}
			time.Sleep(150 * time.Microsecond)
		}
	}()
	var shared sync.Mutex
	var sharedIDs []string // subscription ids of all clients: unsubscribing a foreign id must be refused, not crash
	subscribeMsgs := []string{
		`{"jsonrpc":"2.0","id":%d,"method":"eth_subscribe","params":["newHeads"]}`,
		`{"jsonrpc":"2.0","id":%d,"method":"eth_subscribe","params":["newHeads",{"x":1}]}`,
		`{"jsonrpc":"2.0","id":%d,"method":"eth_subscribe","params":["newPendingTransactions"]}`,
		`{"jsonrpc":"2.0","id":%d,"method":"eth_subscribe","params":["logs"]}`,
		`{"jsonrpc":"2.0","id":%d,"method":"eth_subscribe","params":["logs",{"address":"0x0000000000000000000000000000000000000001","topics":[null,"0x01",["0x02","0x03"]]}]}`,
		`{"jsonrpc":"2.0","id":%d,"method":"eth_subscribe","params":["logs",{"address":["0x01","0x02"],"topics":[]}]}`,
		`{"jsonrpc":"2.0","id":%d,"method":"eth_subscribe","params":["logs",{"address":[1,2]}]}`,
		`{"jsonrpc":"2.0","id":%d,"method":"eth_subscribe","params":["logs",{"address":7}]}`,
		`{"jsonrpc":"2.0","id":%d,"method":"eth_subscribe","params":["logs",{"topics":"0x01"}]}`,
		`{"jsonrpc":"2.0","id":%d,"method":"eth_subscribe","params":["logs",{"topics":[[1]]}]}`,
		`{"jsonrpc":"2.0","id":%d,"method":"eth_subscribe","params":["logs",{"topics":[{"a":1}]}]}`,
		`{"jsonrpc":"2.0","id":%d,"method":"eth_subscribe","params":["logs",[1]]}`,
		`{"jsonrpc":"2.0","id":%d,"method":"eth_subscribe","params":["logs",{"fromBlock":"0x5","toBlock":"0x1"}]}`,
		`{"jsonrpc":"2.0","id":%d,"method":"eth_subscribe","params":["syncing"]}`,
		`{"jsonrpc":"2.0","id":%d,"method":"eth_subscribe","params":["nonsense"]}`,
		`{"jsonrpc":"2.0","id":%d,"method":"eth_subscribe","params":[42]}`,
		`{"jsonrpc":"2.0","id":%d,"method":"eth_subscribe","params":[]}`,
		`{"jsonrpc":"2.0","id":%d,"method":"eth_subscribe","params":{"a":1}}`,
		`{"jsonrpc":"2.0","id":%d,"method":"eth_subscribe"}`,
	}
	otherMsgs := []string{
		`{"jsonrpc":"2.0","id":"7","method":"eth_subscribe","params":["newHeads"]}`,
		`{"jsonrpc":"2.0","id":"x","method":"eth_subscribe","params":["newHeads"]}`,
		`{"jsonrpc":"2.0","id":{"a":1},"method":"eth_subscribe","params":["newHeads"]}`,
		`{"jsonrpc":"2.0","id":null,"method":"eth_unsubscribe","params":["0x1"]}`,
		`{"jsonrpc":"2.0","method":"eth_subscribe","params":["newHeads"]}`,
		`{"jsonrpc":"2.0","id":1,"method":"eth_unsubscribe","params":[1]}`,
		`{"jsonrpc":"2.0","id":1,"method":"eth_unsubscribe","params":[null]}`,
		`{"jsonrpc":"2.0","id":1,"method":"eth_unsubscribe","params":[]}`,
		`{"jsonrpc":"2.0","id":1,"method":"eth_unsubscribe","params":"0x1"}`,
		`{"jsonrpc":"2.0","id":1,"method":"eth_blockNumber","params":[]}`,
		`{"jsonrpc":"2.0","id":1,"method":7}`,
		`[{"jsonrpc":"2.0","id":1,"method":"eth_subscribe","params":["newHeads"]}]`,
		`[]`, `{`, `nul`, `"str"`, `1e400`, ``, "\x00\xff", `{"method":"eth_subscribe","id":1e400,"params":["newHeads"]}`,
		`{"jsonrpc":"2.0","id":1,"method":"eth_subscribe","params":["logs",{"topics":[` + strings.Repeat(`[`, 2000) + strings.Repeat(`]`, 2000) + `]}]}`,
	}
	var wg sync.WaitGroup
	end := time.Now().Add(dur)
	var ops [8]int64
	var subsOK, unsubTrue, errResp int64
	var opsMu sync.Mutex
	for g := 0; g < 6; g++ {
		wg.Add(1)
		go func(g int) {
			defer wg.Done()
			r := NewRng(seed*31 + uint64(g)*7919)
			var c *websocket.Conn
			var mine []string
			n := 0
			for time.Now().Before(end) {
				if c == nil {
					var err error
					c, err = w.dial()
					if err != nil {
						time.Sleep(time.Millisecond)
						continue
					}
					mine = nil
				}
				n++
				kind := r.Intn(100)
				var err error
				switch {
				case kind < 40:
					var resp map[string]interface{}
					resp, err = wsCall(c, fmt.Sprintf(subscribeMsgs[r.Intn(len(subscribeMsgs))], n), 5*time.Second)
					if resp != nil && resp["error"] != nil {
						opsMu.Lock()
						errResp++
						opsMu.Unlock()
					}
					if id, ok := resp["result"].(string); ok && id != "" {
						opsMu.Lock()
						subsOK++
						opsMu.Unlock()
						mine = append(mine, id)
						shared.Lock()
						sharedIDs = append(sharedIDs, id)
						if len(sharedIDs) > 200 {
							sharedIDs = sharedIDs[100:]
						}
						shared.Unlock()
					}
				case kind < 60: // unsubscribe: own id (possibly twice), a foreign id, an unknown id
					id := "0xdeadbeef"
					switch {
					case len(mine) > 0 && r.Chance(60):
						id = mine[r.Intn(len(mine))]
					case r.Chance(60):
						shared.Lock()
						if len(sharedIDs) > 0 {
							id = sharedIDs[r.Intn(len(sharedIDs))]
						}
						shared.Unlock()
					}
					var resp map[string]interface{}
					resp, err = wsCall(c, fmt.Sprintf(`{"jsonrpc":"2.0","id":%d,"method":"eth_unsubscribe","params":["%s"]}`, n, id), 5*time.Second)
					if b, ok := resp["result"].(bool); ok && b {
						opsMu.Lock()
						unsubTrue++
						opsMu.Unlock()
					}
				case kind < 75:
					err = c.WriteMessage(websocket.TextMessage, []byte(otherMsgs[r.Intn(len(otherMsgs))]))
				case kind < 85: // read whatever arrives for a moment
					_ = c.SetReadDeadline(time.Now().Add(time.Duration(1+r.Intn(3)) * time.Millisecond))
					_, _, _ = c.ReadMessage()
					// a read timeout poisons a gorilla connection: start over with a new one
					_ = c.Close()
					c = nil
				case kind < 93: // abrupt drop while subscriptions are live
					_ = c.UnderlyingConn().Close()
					c = nil
				default:
					_ = c.WriteMessage(websocket.BinaryMessage, rbytesPs(r, r.Intn(64)))
				}
				if err != nil && c != nil {
					_ = c.Close()
					c = nil
				}
				opsMu.Lock()
				ops[kind*8/100]++
				opsMu.Unlock()
			}
			if c != nil {
				_ = c.Close()
			}
		}(g)
	}
	done := make(chan struct{})
	go func() { wg.Wait(); close(done) }()
	select {
	case <-done:
	case <-time.After(dur + 2*longWait):
		// every client call has its own deadline, so the clients themselves cannot hang; whatever the dump shows decides
		fmt.Println("WSSTRESS deadlock: clients stuck")
		for _, g := range goroutines() {
			fmt.Println(g.stack + "\n")
		}
		os.Exit(3)
	}
	close(stop)
	<-pushDone
	time.Sleep(100 * time.Millisecond)
	ok := w.alive()
	fmt.Printf("WSSTRESS ops=%v subscriptions=%d error_responses=%d unsubscribed=%d alive=%v\n", ops, subsOK, errResp, unsubTrue, ok)
	if ok {
		fmt.Println("WS survived")
	}
}

func rbytesPs(r *Rng, n int) []byte {
	b := make([]byte, n)
	for i := range b {
		b[i] = byte(r.U64())
	}
	return b
}

// runWsChild: survived = the child did all its work and the server was still usable; died = it ended by a panic / fatal
// error of the code under test, or with a dump showing server goroutines blocked for minutes, or the server no longer
// answered a fresh client that waited longWait. Neither = no verdict (slow machine, harness failure).
func runWsChild(t *testing.T, mode string, env ...string) (survived, died bool, out string) {
	exe, err := os.Executable()
	require.NoError(t, err)
	cmd := exec.Command(exe, "-test.run", "^TestChildWs$", "-test.count", "1", "-test.timeout", "3000s")
	cmd.Env = append(append(os.Environ(), "VERIF_PUBSUB_CHILD="+mode), env...)
	var buf bytes.Buffer
	cmd.Stdout, cmd.Stderr = &buf, &buf
	runErr := cmd.Run()
	out = buf.String()
	survived = runErr == nil && strings.Contains(out, "WS survived")
	died = !survived && (diedByPanic(runErr, out) || strings.Contains(out, "alive=false") ||
		minutesBlocked(out, "evermint/v12/rpc.", "eth/filters.", "rpc/ethereum/pubsub."))
	return
}

func wsCrashSignature(prefix, out string) (string, string) {
	sig := prefix + "/crash"
	switch {
	case strings.Contains(out, "close of closed channel"):
		sig = prefix + "/close-of-closed-channel"
	case strings.Contains(out, "send on closed channel"):
		sig = prefix + "/send-on-closed-channel"
	case strings.Contains(out, "concurrent map") || strings.Contains(out, "concurrent write to websocket"):
		sig = prefix + "/unsynchronised-access"
	case strings.Contains(out, "WSSTRESS deadlock") || strings.Contains(out, "test timed out"):
		sig = prefix + "/deadlock"
	case strings.Contains(out, "panic:"):
		sig = prefix + "/goroutine-panic"
	case strings.Contains(out, "alive=false"):
		sig = prefix + "/server-unusable-afterwards"
	}
	i := strings.Index(out, "panic:")
	if j := strings.Index(out, "fatal error:"); j >= 0 && (i < 0 || j < i) {
		i = j
	}
	if i < 0 {
		return sig, tail(out, 2000)
	}
	ex := out[i:]
	if len(ex) > 2500 {
		ex = ex[:2500]
	}
	return sig, ex
}
