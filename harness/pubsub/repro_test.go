package pubsub

import (
	"strings"
	"os"
	"testing"
	"time"

	cmttypes "github.com/cometbft/cometbft/types"

	rpcfilters "github.com/EscanBE/evermint/v12/rpc/namespaces/ethereum/eth/filters"
)

var headerQuery = cmttypes.QueryForEvent(cmttypes.EventNewBlockHeader).String()

// Manual stress reproduction (VERIF_REPRO=1): install/uninstall the only newHeads subscription while header events stream.
func TestReproSendOnClosed(t *testing.T) {
	if os.Getenv("VERIF_REPRO") == "" {
		t.Skip("manual")
	}
	f := newFakeWS(t)
	es := rpcfilters.NewEventSystem(newSigLogger(), f.client())
	stop := make(chan struct{})
	go func() {
		for i := 0; ; i++ {
			select {
			case <-stop:
				return
			default:
			}
			if f.pushQuiet(headerQuery, i) != nil {
				return
			}
		}
	}()
	deadline := time.Now().Add(20 * time.Second)
	n, nerr := 0, 0
	for time.Now().Before(deadline) {
		sub, unsub, err := es.SubscribeNewHeads()
		if err != nil {
			nerr++
			continue
		}
		closed := make(chan struct{})
		go func() {
			for range sub.Event() {
			}
			close(closed)
		}()
		sub.Unsubscribe(es)
		<-sub.Err()
		<-closed
		unsub()
		time.Sleep(100 * time.Microsecond) // let the old publishTopic goroutine delete its topic entry
		n++
	}
	close(stop)
	t.Logf("%d install/uninstall cycles without a crash (%d subscribe errors)", n, nerr)
}

// Manual reproduction (VERIF_REPRO=spin): a pending-transaction filter that is uninstalled while another one keeps the
// topic alive leaves its consumer goroutine spinning on the closed err channel.
func TestReproPendingSpin(t *testing.T) {
	if os.Getenv("VERIF_REPRO") != "spin" {
		t.Skip("manual")
	}
	w := newApiWorld(t, 100, time.Hour, time.Hour)
	a := w.api.NewPendingTransactionFilter()
	b := w.api.NewPendingTransactionFilter()
	t.Logf("filters %s %s", a, b)
	if !w.api.UninstallFilter(b) {
		t.Fatal("uninstall failed")
	}
	time.Sleep(500 * time.Millisecond)
	for i := 0; i < 5; i++ {
		ok, why, _ := quietApi()
		t.Logf("quiet=%v %s", ok, why)
		time.Sleep(100 * time.Millisecond)
	}
	for _, g := range goroutines() {
		if strings.Contains(g.stack, "NewPendingTransactionFilter.func1") {
			t.Logf("consumer goroutine state=%q\n%s", g.state, g.stack)
		}
	}
}

// Manual (VERIF_REPRO=skel): print the lock skeletons read off api.go.
func TestPrintApiSkeleton(t *testing.T) {
	if os.Getenv("VERIF_REPRO") != "skel" {
		t.Skip("manual")
	}
	repo := os.Getenv("VERIF_REPO")
	if repo == "" {
		repo = "/repo"
	}
	diffs, found, err := apiSkeletonDiffs(repo)
	if err != nil {
		t.Fatal(err)
	}
	for fn, sk := range found {
		t.Logf("%-30s %s", fn, sk)
	}
	for fn, d := range diffs {
		t.Logf("DIFF %s\n  want %s\n  got  %s", fn, d[0], d[1])
	}
}
