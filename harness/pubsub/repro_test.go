package pubsub

import (
	"os"
	"testing"
	"time"

	cmttypes "github.com/cometbft/cometbft/types"

	rpcfilters "github.com/EscanBE/evermint/v12/rpc/namespaces/ethereum/eth/filters"
)

var headerQuery = cmttypes.QueryForEvent(cmttypes.EventNewBlockHeader).String()

// Manual stress reproduction (VERIF_REPRO=1): install/uninstall the only newHeads subscription while header events stream.
func TestReproSendOnClosed(t *testing.T) {
	if os.Getenv("VERIF_REPRO") == "" {
		t.Skip("manual")
	}
	f := newFakeWS(t)
	es := rpcfilters.NewEventSystem(newSigLogger(), f.client())
	stop := make(chan struct{})
	go func() {
		for i := 0; ; i++ {
			select {
			case <-stop:
				return
			default:
			}
			if f.pushQuiet(headerQuery, i) != nil {
				return
			}
		}
	}()
	deadline := time.Now().Add(20 * time.Second)
	n, nerr := 0, 0
	for time.Now().Before(deadline) {
		sub, unsub, err := es.SubscribeNewHeads()
		if err != nil {
			nerr++
			continue
		}
		closed := make(chan struct{})
		go func() {
			for range sub.Event() {
			}
			close(closed)
		}()
		sub.Unsubscribe(es)
		<-sub.Err()
		<-closed
		unsub()
		time.Sleep(100 * time.Microsecond) // let the old publishTopic goroutine delete its topic entry
		n++
	}
	close(stop)
	t.Logf("%d install/uninstall cycles without a crash (%d subscribe errors)", n, nerr)
}
