package pubsub

// The pending-transaction consumers of rpc/namespaces/ethereum/eth/filters/api.go receive CometBFT's Tx event for
// every transaction of a committed block -- also for transactions that failed basic validation in FinalizeBlock
// (a proposer may include any decodable bytes: ProcessProposal accepts everything). Child process: install a
// pending-transaction filter on the real PublicFilterAPI and deliver such events.

import (
	"fmt"
	"os"
	"testing"
	"time"

	abci "github.com/cometbft/cometbft/abci/types"
	tmjson "github.com/cometbft/cometbft/libs/json"
	coretypes "github.com/cometbft/cometbft/rpc/core/types"
	cmttypes "github.com/cometbft/cometbft/types"
	"github.com/cosmos/cosmos-sdk/client"
	codectypes "github.com/cosmos/cosmos-sdk/codec/types"
	sdk "github.com/cosmos/cosmos-sdk/types"
	"github.com/ethereum/go-ethereum/common"
	ethtypes "github.com/ethereum/go-ethereum/core/types"
	"github.com/gorilla/websocket"
	"github.com/stretchr/testify/require"

	rpcfilters "github.com/EscanBE/evermint/v12/rpc/namespaces/ethereum/eth/filters"
	rpctypes "github.com/EscanBE/evermint/v12/rpc/types"
	evmtypes "github.com/EscanBE/evermint/v12/x/evm/types"

	. "verifharness/hx"
)

type stubBackend struct{}

func (stubBackend) GetBlockByNumber(rpctypes.BlockNumber, bool) (map[string]interface{}, error) {
	return nil, fmt.Errorf("stub")
}
func (stubBackend) HeaderByNumber(rpctypes.BlockNumber) (*ethtypes.Header, error) { return nil, fmt.Errorf("stub") }
func (stubBackend) HeaderByHash(common.Hash) (*ethtypes.Header, error)           { return nil, fmt.Errorf("stub") }
func (stubBackend) CometBFTBlockByHash(common.Hash) (*coretypes.ResultBlock, error) {
	return nil, fmt.Errorf("stub")
}
func (stubBackend) CometBFTBlockResultByNumber(*int64) (*coretypes.ResultBlockResults, error) {
	return nil, fmt.Errorf("stub")
}
func (stubBackend) GetLogs(common.Hash) ([][]*ethtypes.Log, error)       { return nil, fmt.Errorf("stub") }
func (stubBackend) GetLogsByHeight(*int64) ([][]*ethtypes.Log, error)    { return nil, fmt.Errorf("stub") }
func (stubBackend) BlockBloom(*coretypes.ResultBlockResults) ethtypes.Bloom { return ethtypes.Bloom{} }
func (stubBackend) BloomStatus() (uint64, uint64)                        { return 0, 0 }
func (stubBackend) RPCFilterCap() int32                                  { return 100 }
func (stubBackend) RPCLogsCap() int32                                    { return 100 }
func (stubBackend) RPCBlockRangeCap() int32                              { return 100 }

func (f *fakeWS) pushTx(q string, tx []byte) {
	ev := coretypes.ResultEvent{Query: q, Data: cmttypes.EventDataTx{TxResult: abci.TxResult{Height: 5, Tx: tx, Result: abci.ExecTxResult{Code: 18}}}}
	res, err := tmjson.Marshal(ev)
	require.NoError(f.t, err)
	msg := fmt.Sprintf(`{"jsonrpc":"2.0","id":1,"result":%s}`, res)
	f.mu.Lock()
	defer f.mu.Unlock()
	require.NoError(f.t, f.conn.WriteMessage(websocket.TextMessage, []byte(msg)))
}

// pendingInputs: decodable transactions that FinalizeBlock rejects but a block may carry
func pendingInputs(t *testing.T) map[string][]byte {
	opt, err := codectypes.NewAnyWithValue(&evmtypes.ExtensionOptionsEthereumTx{})
	require.NoError(t, err)
	garbage := &RawTx{Msgs: []sdk.Msg{&evmtypes.MsgEthereumTx{From: "evm1xyz", MarshalledTx: []byte{0xc1, 0xff, 0x00, 0x01}}}, ExtOpts: []*codectypes.Any{opt}, Gas: 21000}
	g, err := garbage.Encode()
	require.NoError(t, err)
	empty := &RawTx{Gas: 1}
	e, err := empty.Encode()
	require.NoError(t, err)
	return map[string][]byte{"garbage-eth-payload": g, "no-messages": e}
}

func TestChildPending(t *testing.T) {
	which := os.Getenv("VERIF_PUBSUB_CHILD")
	if which != "pending:garbage-eth-payload" && which != "pending:no-messages" {
		t.Skip("child only")
	}
	suite := NewSuite(t)
	w := newFsWorld(t)
	_ = w.es // the API under test owns its own EventSystem on a second client of the same fake endpoint
	clientCtx := client.Context{}.WithTxConfig(suite.EncodingConfig.TxConfig).WithCodec(suite.EncodingConfig.Codec)
	api := rpcfilters.NewPublicAPI(newSigLogger(), clientCtx, w.f.client(), stubBackend{})
	id := api.NewPendingTransactionFilter()
	fmt.Printf("PENDING filter=%s\n", id)
	in := pendingInputs(t)[which[len("pending:"):]]
	_, derr := suite.EncodingConfig.TxConfig.TxDecoder()(in)
	fmt.Printf("PENDING decodes=%v\n", derr == nil)
	w.f.pushTx(qTx, in)
	time.Sleep(300 * time.Millisecond)
	w.f.pushTx(qTx, in)
	time.Sleep(300 * time.Millisecond)
	_, err := api.GetFilterChanges(id)
	fmt.Printf("PENDING survived changes_err=%v\n", err)
}
