package pubsub

import (
	ethfilters "github.com/ethereum/go-ethereum/eth/filters"
)

func ethLogsCrit() ethfilters.FilterCriteria { return ethfilters.FilterCriteria{} }
