package vauth

import (
	"encoding/hex"
	"fmt"
	"math/big"
	"os"
	"strings"
	"testing"
	"time"

	sdk "github.com/cosmos/cosmos-sdk/types"
	vestingtypes "github.com/cosmos/cosmos-sdk/x/auth/vesting/types"
	"github.com/cosmos/cosmos-sdk/x/authz"
	"github.com/stretchr/testify/require"

	vauthtypes "github.com/EscanBE/evermint/v12/x/vauth/types"

	. "verifharness/hx"
)

// TestProbe prints facts about the real chain the driver relies on (run by hand: VERIF_PROBE=1).
func TestProbe(t *testing.T) {
	if os.Getenv("VERIF_PROBE") == "" {
		t.Skip("manual probe")
	}
	c := NewChain(t, time.Time{})
	e18 := new(big.Int).Exp(big.NewInt(10), big.NewInt(18), nil)
	sub := DetAccount(1, "p-sub", 0)
	poor := DetAccount(1, "p-sub", 1)
	acc := DetAccount(1, "p-acc", 0)
	acc2 := DetAccount(1, "p-acc", 1)
	c.Fund(sub.GetCosmosAddress(), c.Denom(), new(big.Int).Mul(e18, big.NewInt(100)))
	c.Fund(poor.GetCosmosAddress(), c.Denom(), new(big.Int).Div(e18, big.NewInt(2)))
	c.RunBlock(nil)
	price := new(big.Int).Mul(c.BaseFee(c.QueryCtx()), big.NewInt(2))
	fmt.Println("price", price)
	mk := func(signer interface {
		GetCosmosAddress() sdk.AccAddress
	}, msgs ...sdk.Msg) []byte {
		return nil
	}
	_ = mk
	tx := func(s int, msgs ...sdk.Msg) []byte {
		a := []*struct{}{nil}
		_ = a
		acct := sub
		if s == 1 {
			acct = poor
		}
		accNum, seq := c.AccNumSeq(acct.GetCosmosAddress())
		raw := &RawTx{Msgs: msgs, Gas: 400000, Fee: c.FeeCoins(new(big.Int).Mul(price, big.NewInt(400000)))}
		require.NoError(t, raw.SignDirect(c.ChainID(), acct, accNum, seq))
		bz, err := raw.Encode()
		require.NoError(t, err)
		return bz
	}
	run := func(name string, bz []byte) {
		s0 := c.Supply(c.QueryCtx(), c.Denom())
		b0 := c.Bal(c.QueryCtx(), sub.GetCosmosAddress(), c.Denom())
		chk, _ := c.CheckTx(bz, false)
		res := c.RunBlock([][]byte{bz})
		s1 := c.Supply(c.QueryCtx(), c.Denom())
		b1 := c.Bal(c.QueryCtx(), sub.GetCosmosAddress(), c.Denom())
		r := res.TxResults[0]
		var minted string
		for _, e := range res.Events {
			if e.Type == "mint" {
				minted = EventAttrs(e)["amount"]
			}
		}
		evs := []string{}
		for _, e := range r.Events {
			evs = append(evs, e.Type)
		}
		log := r.Log
		if len(log) > 100 {
			log = log[:100]
		}
		fmt.Printf("%-28s check=%s/%d deliver=%s/%d gas=%d supplyDelta=%s minted=%s subDelta=%s evs=%v log=%s\n", name, chk.Codespace, chk.Code, r.Codespace, r.Code, r.GasUsed,
			new(big.Int).Sub(s1, s0), minted, new(big.Int).Sub(b1, b0), strings.Join(evs, ","), log)
	}
	sig := "0x" + hex.EncodeToString(VauthSignature(acc))
	subS := sub.GetCosmosAddress().String()
	run("wrong-key", tx(0, &vauthtypes.MsgSubmitProofExternalOwnedAccount{Submitter: subS, Account: acc2.GetCosmosAddress().String(), Signature: sig}))
	run("upper", tx(0, &vauthtypes.MsgSubmitProofExternalOwnedAccount{Submitter: subS, Account: acc.GetCosmosAddress().String(), Signature: "0x" + strings.ToUpper(sig[2:])}))
	run("poor", tx(1, &vauthtypes.MsgSubmitProofExternalOwnedAccount{Submitter: poor.GetCosmosAddress().String(), Account: acc.GetCosmosAddress().String(), Signature: sig}))
	ex := authz.NewMsgExec(sub.GetCosmosAddress(), []sdk.Msg{&vauthtypes.MsgSubmitProofExternalOwnedAccount{Submitter: subS, Account: acc2.GetCosmosAddress().String(), Signature: sig}})
	run("exec-wrong-key", tx(0, &ex))
	ex3 := authz.NewMsgExec(sub.GetCosmosAddress(), []sdk.Msg{&vauthtypes.MsgSubmitProofExternalOwnedAccount{Submitter: subS, Account: acc.GetCosmosAddress().String(), Signature: sig}})
	ex3b := authz.NewMsgExec(sub.GetCosmosAddress(), []sdk.Msg{&ex3})
	ex3c := authz.NewMsgExec(sub.GetCosmosAddress(), []sdk.Msg{&ex3b})
	run("exec3-valid", tx(0, &ex3c))
	run("exec2-valid", tx(0, &ex3b))
	run("again", tx(0, &vauthtypes.MsgSubmitProofExternalOwnedAccount{Submitter: subS, Account: acc.GetCosmosAddress().String(), Signature: sig}))
	// 32-byte address whose last 20 bytes are acc2's address
	long := append(make([]byte, 12), acc2.GetCosmosAddress().Bytes()...)
	long[0] = 0xAB
	sig2 := "0x" + hex.EncodeToString(VauthSignature(acc2))
	run("32-byte", tx(0, &vauthtypes.MsgSubmitProofExternalOwnedAccount{Submitter: subS, Account: sdk.AccAddress(long).String(), Signature: sig2}))
	fmt.Println("has32", c.App.VAuthKeeper.HasProofExternalOwnedAccount(c.QueryCtx(), sdk.AccAddress(long)), "has20", c.App.VAuthKeeper.HasProofExternalOwnedAccount(c.QueryCtx(), acc2.GetCosmosAddress()))
	amt := sdk.NewCoins(sdk.NewInt64Coin(c.Denom(), 5))
	run("vest-32", tx(0, &vestingtypes.MsgCreateVestingAccount{FromAddress: subS, ToAddress: sdk.AccAddress(long).String(), Amount: amt, EndTime: 4102444800}))
	run("vest-unproven", tx(0, &vestingtypes.MsgCreateVestingAccount{FromAddress: subS, ToAddress: acc2.GetCosmosAddress().String(), Amount: amt, EndTime: 4102444800}))
	run("vest-proven", tx(0, &vestingtypes.MsgCreateVestingAccount{FromAddress: subS, ToAddress: acc.GetCosmosAddress().String(), Amount: amt, EndTime: 4102444800}))
	run("vest-proven-again", tx(0, &vestingtypes.MsgCreatePermanentLockedAccount{FromAddress: subS, ToAddress: acc.GetCosmosAddress().String(), Amount: amt}))
	fmt.Println("vauth module bal", c.Bal(c.QueryCtx(), c.App.AccountKeeper.GetModuleAddress("vauth"), c.Denom()))
}
