package vauth

import (
	"fmt"
	"testing"
	"time"

	. "verifharness/hx"
)

func TestProbe(t *testing.T) {
	c := NewChain(t, time.Time{})
	for i := 0; i < 3; i++ {
		s0 := c.Supply(c.QueryCtx(), c.Denom())
		res := c.RunBlock(nil)
		s1 := c.Supply(c.QueryCtx(), c.Denom())
		fmt.Println("supply", s0, s1, len(res.Events))
		for _, e := range res.Events {
			fmt.Println("  ", e.Type, EventAttrs(e))
		}
	}
	fmt.Println(c.StoreDigests(c.QueryCtx()))
}
