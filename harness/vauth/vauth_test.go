package vauth

// Driver `vauth` (C16): histories of real blocks on the real application.  Every block carries 1-4 transactions out of
//   * MsgSubmitProofExternalOwnedAccount — valid / upper-case / mixed-case hex / 0X prefix / no prefix / signed by another
//     key / by the submitter / over another message / wrong length / v = 27 / malleated / odd or non-hex / empty / random
//     signatures; accounts fresh, already proven (by the same and by other submitters), proven earlier in the same block,
//     existing, holding code, a real contract, module accounts, a 32-byte address ending in a key's address, a foreign
//     bech32 prefix; submitter = account; submitter balances 0 / fee-1 / fee / fee+1 / fee+COST-1 / fee+COST /
//     fee+COST+1 / rich; top level or nested in 1-3 MsgExec, run by the submitter itself or by a grantee who pays the fee;
//   * the three vesting-account creation messages for proven / unproven / just-being-proven / existing targets, top level,
//     beside other messages and nested in MsgExec at depth 1-3;
//   * now and then, in front of a block, an ICA host packet (no ante handler, no transaction) carrying a vesting-creation
//     message, and one from a second interchain account carrying a proof submission (fee-less route into the message server).
// Every transaction goes through CheckTx and FinalizeBlock.  Before and after each block the driver reads the vauth store,
// balances, supply (net of what x/mint minted) and the auth accounts; coq/Corr/CorrVauth.v replays the block on
// coq/Model/Vauth.v.  The Go oracle below states the property text directly and never looks at the model.

import (
	"crypto/ecdsa"
	"encoding/hex"
	"fmt"
	"math/big"
	"sort"
	"strings"
	"testing"
	"time"

	storetypes "cosmossdk.io/store/types"
	abci "github.com/cometbft/cometbft/abci/types"
	sdk "github.com/cosmos/cosmos-sdk/types"
	"github.com/cosmos/cosmos-sdk/types/bech32"
	sdkaddress "github.com/cosmos/cosmos-sdk/types/address"
	authtypes "github.com/cosmos/cosmos-sdk/x/auth/types"
	vestexported "github.com/cosmos/cosmos-sdk/x/auth/vesting/exported"
	vestingtypes "github.com/cosmos/cosmos-sdk/x/auth/vesting/types"
	"github.com/cosmos/cosmos-sdk/x/authz"
	banktypes "github.com/cosmos/cosmos-sdk/x/bank/types"
	"github.com/cosmos/gogoproto/proto"
	icahost "github.com/cosmos/ibc-go/v8/modules/apps/27-interchain-accounts/host"
	icatypes "github.com/cosmos/ibc-go/v8/modules/apps/27-interchain-accounts/types"
	clienttypes "github.com/cosmos/ibc-go/v8/modules/core/02-client/types"
	channeltypes "github.com/cosmos/ibc-go/v8/modules/core/04-channel/types"
	"github.com/ethereum/go-ethereum/common"
	ethcrypto "github.com/ethereum/go-ethereum/crypto"
	"github.com/stretchr/testify/require"

	itutiltypes "github.com/EscanBE/evermint/v12/integration_test_util/types"
	evmtypes "github.com/EscanBE/evermint/v12/x/evm/types"
	vauthtypes "github.com/EscanBE/evermint/v12/x/vauth/types"
	vauthutils "github.com/EscanBE/evermint/v12/x/vauth/utils"

	. "verifharness/hx"
)

const (
	submitGas  = 400_000
	vestingGas = 700_000
	connID     = "connection-0"
	chanID     = "channel-0"
	ctrlPort   = "icacontroller-verif-c16"
	chanIDS    = "channel-1"
	ctrlPortS  = "icacontroller-verif-c16-submit"
)

// the fixed fee of the property text, written out (not read from the code)
var cost = new(big.Int).Exp(big.NewInt(10), big.NewInt(18), nil)

// the module's fixed message and its hash, computed here
var fixedHash = ethcrypto.Keccak256([]byte(vauthtypes.MessageToSign))

var secpN, _ = new(big.Int).SetString("fffffffffffffffffffffffffffffffebaaedce6af48a03bbfd25e8cd0364141", 16)

// ------------------------------------------------------------------ universe

type acctInfo struct {
	id   uint64
	addr sdk.AccAddress
	key  *itutiltypes.TestAccount // the key controlling exactly this address; nil if there is none
	sfx  *itutiltypes.TestAccount // 32-byte address: the key controlling its last 20 bytes
	tag  string
	cls  string // length class of an address that is not 20 bytes long
}

type storedProof struct{ Account, Hash, Signature string }

type world struct {
	t       *testing.T
	c       *Chain
	seed    uint64
	ids     map[string]uint64 // address bytes (hex) or "str:<string>" -> model id
	byHex   map[string]*acctInfo
	pool    []*acctInfo // candidate accounts to prove / vesting targets
	oddlen  []*acctInfo // the addresses of the pool that are not 20 bytes long
	rich    []*itutiltypes.TestAccount
	sink    *itutiltypes.TestAccount
	ica     sdk.AccAddress // interchain account sending vesting-creation messages
	icaS    sdk.AccAddress // a second interchain account (own controller port) submitting proofs
	icaMod  icahost.IBCModule
	strIDs  map[string]uint64
	byteIDs map[string]uint64
	shadow  map[string]storedProof // vauth store as last read (address hex -> proof)
	vested  map[string]bool
	nKey    int
	nFresh  int
	price   *big.Int
	submitU string
}

func (w *world) idOf(key string) uint64 {
	if id, ok := w.ids[key]; ok {
		return id
	}
	id := uint64(len(w.ids) + 1)
	w.ids[key] = id
	return id
}

func (w *world) register(addr sdk.AccAddress, key *itutiltypes.TestAccount, tag string) *acctInfo {
	h := hex.EncodeToString(addr)
	if a, ok := w.byHex[h]; ok {
		return a
	}
	a := &acctInfo{id: w.idOf(h), addr: addr, key: key, tag: tag}
	w.byHex[h] = a
	return a
}

func (w *world) regKey(k *itutiltypes.TestAccount, tag string) *acctInfo {
	return w.register(k.GetCosmosAddress(), k, tag)
}

func (w *world) newFresh() *acctInfo {
	w.nFresh++
	a := w.regKey(DetAccount(w.seed, "vauth-fresh", w.nFresh), "fresh")
	w.pool = append(w.pool, a)
	return a
}

// newFunded creates an auth account with exactly amt of the EVM denomination (between blocks).
func (w *world) newFunded(amt *big.Int) *itutiltypes.TestAccount {
	w.nKey++
	k := DetAccount(w.seed, "vauth-funded", w.nKey)
	ctx := w.c.Ctx()
	addr := k.GetCosmosAddress()
	if w.c.App.AccountKeeper.GetAccount(ctx, addr) == nil {
		w.c.App.AccountKeeper.SetAccount(ctx, w.c.App.AccountKeeper.NewAccountWithAddress(ctx, addr))
	}
	if amt.Sign() > 0 {
		w.c.Fund(addr, w.c.Denom(), amt)
	}
	w.regKey(k, "funded")
	return k
}

func (w *world) setup() {
	c := w.c
	big24 := new(big.Int).Exp(big.NewInt(10), big.NewInt(24), nil)
	for i := 0; i < 10; i++ {
		k := DetAccount(w.seed, "vauth-rich", i)
		c.Fund(k.GetCosmosAddress(), c.Denom(), big24)
		w.rich = append(w.rich, k)
		w.regKey(k, "rich")
	}
	w.sink = DetAccount(w.seed, "vauth-sink", 0)
	c.Fund(w.sink.GetCosmosAddress(), c.Denom(), big.NewInt(1))
	w.regKey(w.sink, "sink")
	for i := 0; i < 6; i++ {
		w.newFresh()
	}
	// an existing, funded key account; a key account holding code; a rich signer (all provable, none a fresh vesting target)
	ex := w.newFunded(big.NewInt(12345))
	w.pool = append(w.pool, w.byHex[hex.EncodeToString(ex.GetCosmosAddress())])
	w.pool[len(w.pool)-1].tag = "existing"
	ck := w.newFunded(big.NewInt(1))
	c.SetCode(ck.GetEthAddress(), []byte{0x60, 0x00, 0x60, 0x00, 0xf3})
	w.pool = append(w.pool, w.byHex[hex.EncodeToString(ck.GetCosmosAddress())])
	w.pool[len(w.pool)-1].tag = "key-with-code"
	w.pool = append(w.pool, w.byHex[hex.EncodeToString(w.rich[9].GetCosmosAddress())])
	// ... and two of the accounts that sign vesting transactions: once proven themselves they keep sending to unproven targets
	w.pool = append(w.pool, w.byHex[hex.EncodeToString(w.rich[8].GetCosmosAddress())], w.byHex[hex.EncodeToString(w.rich[7].GetCosmosAddress())])
	// addresses no key controls: the staking precompile, two module accounts
	w.pool = append(w.pool, w.register(sdk.AccAddress(common.HexToAddress("0xCc02000000000000000000000000000000000002").Bytes()), nil, "contract"))
	w.pool = append(w.pool, w.register(authtypes.NewModuleAddress(authtypes.FeeCollectorName), nil, "module"))
	w.pool = append(w.pool, w.register(authtypes.NewModuleAddress(vauthtypes.ModuleName), nil, "module"))
	// Addresses that are NOT 20 bytes long, of every length class an SDK address may have.  No key controls any of them;
	// where it is feasible each comes with the key a sloppy length rule would mistake for its owner: the key whose 20-byte
	// Ethereum address is the address cut to its last / first 20 bytes (longer ones), or the address padded with a zero
	// byte in front / behind (19 bytes: keys ground, deterministically from the seed, until their address starts / ends
	// with a zero byte; about 256 tries each).
	odd := func(b []byte, k *itutiltypes.TestAccount, cls string) {
		a := w.register(sdk.AccAddress(b), nil, "oddlen")
		a.sfx, a.cls = k, cls
		w.pool = append(w.pool, a)
		w.oddlen = append(w.oddlen, a)
	}
	grind := func(tag string, pred func(common.Address) bool) *itutiltypes.TestAccount {
		for i := 0; ; i++ {
			if k := DetAccount(w.seed, tag, i); pred(k.GetEthAddress()) {
				return k
			}
		}
	}
	cat := func(parts ...[]byte) []byte {
		var out []byte
		for _, p := range parts {
			out = append(out, p...)
		}
		return out
	}
	pad12 := []byte{0xAB, 1, 3, 4, 5, 6, 7, 8, 9, 10, 11, 12}
	kLead := grind("vauth-lead0", func(a common.Address) bool { return a[0] == 0 })
	kTrail := grind("vauth-trail0", func(a common.Address) bool { return a[19] == 0 })
	odd(kLead.GetEthAddress().Bytes()[1:], kLead, "len19/zero-padded-in-front-is-a-key")
	odd(kTrail.GetEthAddress().Bytes()[:19], kTrail, "len19/zero-padded-behind-is-a-key")
	k21a, k21b := DetAccount(w.seed, "vauth-suffix", 10), DetAccount(w.seed, "vauth-suffix", 11)
	odd(cat([]byte{0x01}, k21a.GetCosmosAddress()), k21a, "len21/last-20-are-a-key")
	odd(cat(k21b.GetCosmosAddress(), []byte{0x01}), k21b, "len21/first-20-are-a-key")
	k32a, k32b, k32c := DetAccount(w.seed, "vauth-suffix", 0), DetAccount(w.seed, "vauth-suffix", 1), DetAccount(w.seed, "vauth-suffix", 2)
	odd(cat(pad12, k32a.GetCosmosAddress()), k32a, "len32/last-20-are-a-key")
	odd(cat(pad12[:11], []byte{0}, k32b.GetCosmosAddress()), k32b, "len32/last-20-are-a-key")
	odd(cat(k32c.GetCosmosAddress(), pad12), k32c, "len32/first-20-are-a-key")
	odd([]byte{0x07}, nil, "len1")
	odd(sdkaddress.Module("verif-c16", []byte("derived")), nil, "len32/module-derived")
	w.submitU = sdk.MsgTypeURL(&vauthtypes.MsgSubmitProofExternalOwnedAccount{})

	// ICA host: the state a permissionless channel handshake leaves behind, placed through the keepers (as driver `routes`)
	w.ica = sdk.AccAddress(authtypes.NewModuleAddress("verif-ica-account-" + ctrlPort))
	c.Fund(w.ica, c.Denom(), new(big.Int).Mul(cost, big.NewInt(5)))
	{
		ctx := c.Ctx()
		meta := icatypes.NewMetadata(icatypes.Version, connID, connID, w.ica.String(), icatypes.EncodingProtobuf, icatypes.TxTypeSDKMultiMsg)
		ver := string(icatypes.ModuleCdc.MustMarshalJSON(&meta))
		c.App.IBCKeeper.ChannelKeeper.SetChannel(ctx, icatypes.HostPortID, chanID, channeltypes.Channel{
			State: channeltypes.OPEN, Ordering: channeltypes.ORDERED,
			Counterparty:   channeltypes.Counterparty{PortId: ctrlPort, ChannelId: chanID},
			ConnectionHops: []string{connID}, Version: ver,
		})
		c.App.ICAHostKeeper.SetActiveChannelID(ctx, connID, ctrlPort, chanID)
		c.App.ICAHostKeeper.SetInterchainAccountAddress(ctx, connID, ctrlPort, w.ica.String())
	}
	w.icaS = sdk.AccAddress(authtypes.NewModuleAddress("verif-ica-account-" + ctrlPortS))
	c.Fund(w.icaS, c.Denom(), new(big.Int).Mul(cost, big.NewInt(3)))
	{
		ctx := c.Ctx()
		meta := icatypes.NewMetadata(icatypes.Version, connID, connID, w.icaS.String(), icatypes.EncodingProtobuf, icatypes.TxTypeSDKMultiMsg)
		ver := string(icatypes.ModuleCdc.MustMarshalJSON(&meta))
		c.App.IBCKeeper.ChannelKeeper.SetChannel(ctx, icatypes.HostPortID, chanIDS, channeltypes.Channel{
			State: channeltypes.OPEN, Ordering: channeltypes.ORDERED,
			Counterparty:   channeltypes.Counterparty{PortId: ctrlPortS, ChannelId: chanIDS},
			ConnectionHops: []string{connID}, Version: ver,
		})
		c.App.ICAHostKeeper.SetActiveChannelID(ctx, connID, ctrlPortS, chanIDS)
		c.App.ICAHostKeeper.SetInterchainAccountAddress(ctx, connID, ctrlPortS, w.icaS.String())
	}
	w.icaMod = icahost.NewIBCModule(c.App.ICAHostKeeper)
	c.RunBlock(nil)
}

// ------------------------------------------------------------------ signature strings

type sigSpec struct {
	Str   string
	Class string
}

func (w *world) genSig(r *Rng, acc *acctInfo, sub *itutiltypes.TestAccount) sigSpec {
	owner := acc.key
	if owner == nil {
		owner = acc.sfx
	}
	other := DetAccount(w.seed, "vauth-otherkey", r.Intn(4))
	good := func(k *itutiltypes.TestAccount) []byte { return VauthSignature(k) }
	h := func(b []byte) string { return "0x" + hex.EncodeToString(b) }
	if owner == nil {
		// nobody can sign for this address: offer somebody's well-formed signature, or junk
		switch x := r.Intn(100); {
		case x < 60:
			return sigSpec{h(good(other)), "otherkey"}
		case x < 80:
			return sigSpec{h(good(sub)), "submitter-key"}
		default:
			b := r.BigBits(65 * 8).FillBytes(make([]byte, 65))
			b[64] = byte(r.Intn(2))
			return sigSpec{h(b), "random65"}
		}
	}
	v := good(owner)
	if acc.key == nil && r.Chance(65) {
		return sigSpec{h(v), "valid"} // genuine signature of the key that is NOT the owner of this odd-length address
	}
	switch x := r.Intn(100); {
	case x < 46:
		return sigSpec{h(v), "valid"}
	case x < 54:
		return sigSpec{"0x" + strings.ToUpper(hex.EncodeToString(v)), "upper"}
	case x < 58:
		s := []byte(hex.EncodeToString(v))
		done := false
		for i := range s {
			if s[i] >= 'a' && s[i] <= 'f' && (r.Bool() || !done) {
				s[i] = s[i] - 'a' + 'A'
				done = true
			}
		}
		if !done { // no letter at all: practically impossible
			return sigSpec{h(v), "valid"}
		}
		return sigSpec{"0x" + string(s), "mixed"}
	case x < 61:
		return sigSpec{"0X" + hex.EncodeToString(v), "prefix-0X"}
	case x < 64:
		return sigSpec{hex.EncodeToString(v), "no-prefix"}
	case x < 72:
		return sigSpec{h(good(other)), "otherkey"}
	case x < 76:
		return sigSpec{h(good(sub)), "submitter-key"}
	case x < 79:
		return sigSpec{h(v[:64]), "len64"}
	case x < 82:
		return sigSpec{h(append(append([]byte{}, v...), 0)), "len66"}
	case x < 85:
		b := append([]byte{}, v...)
		b[64] += 27
		return sigSpec{h(b), "v27"}
	case x < 87:
		return sigSpec{"0x", "empty"}
	case x < 89:
		return sigSpec{h(v) + "a", "odd-hex"}
	case x < 91:
		return sigSpec{"0x" + strings.Replace(hex.EncodeToString(v), hex.EncodeToString(v)[:1], "g", 1), "non-hex"}
	case x < 94:
		// (r, n-s, v^1): the other ECDSA signature of the same key over the same hash
		b := append([]byte{}, v...)
		s := new(big.Int).SetBytes(b[32:64])
		s.Sub(secpN, s)
		s.FillBytes(b[32:64])
		b[64] ^= 1
		return sigSpec{h(b), "malleated"}
	case x < 97:
		// the right key over another message (what personal_sign would produce)
		pre := fmt.Sprintf("\x19Ethereum Signed Message:\n%d%s", len(vauthtypes.MessageToSign), vauthtypes.MessageToSign)
		b, err := owner.PrivateKey.Sign(ethcrypto.Keccak256([]byte(pre)))
		require.NoError(w.t, err)
		return sigSpec{h(b), "other-message"}
	default:
		b := append([]byte{}, v...)
		b[64] ^= 1
		return sigSpec{h(b), "wrong-v"}
	}
}

// ownerSigned states the property text: the string is 0x-prefixed hex of an ECDSA signature (r, s, v) over keccak256 of
// the fixed message that verifies under the public key of the key controlling the address.  Plain ECDSA verification, no recovery.
func ownerSigned(owner *itutiltypes.TestAccount, sig string) bool {
	if owner == nil || !strings.HasPrefix(sig, "0x") {
		return false
	}
	b, err := hex.DecodeString(sig[2:])
	if err != nil || len(b) != 65 {
		return false
	}
	priv, err := owner.PrivateKey.ToECDSA()
	if err != nil {
		return false
	}
	return ecdsa.Verify(&priv.PublicKey, fixedHash, new(big.Int).SetBytes(b[:32]), new(big.Int).SetBytes(b[32:64]))
}

// ------------------------------------------------------------------ operations

const (
	opSubmit = iota
	opVesting
	opIca
	opIcaSubmit
)

type vmsg struct {
	Kind   int // 0 vesting, 1 exec, 2 other
	VK     int
	Target *acctInfo
	Inner  []*vmsg
}

var vestingNames = []string{"VCreate", "VPeriodic", "VPermanent"}

func (m *vmsg) coq() string {
	switch m.Kind {
	case 0:
		return fmt.Sprintf("(MVesting %s %s)", vestingNames[m.VK], CqN(m.Target.id))
	case 1:
		in := make([]string, len(m.Inner))
		for i, x := range m.Inner {
			in[i] = x.coq()
		}
		return "(MExec " + CqList(in) + ")"
	default:
		return "(MOther 0%N)"
	}
}

func (m *vmsg) canon() string {
	switch m.Kind {
	case 0:
		return fmt.Sprintf("V%d(%s)", m.VK, m.Target.tag)
	case 1:
		in := make([]string, len(m.Inner))
		for i, x := range m.Inner {
			in[i] = x.canon()
		}
		return "X[" + strings.Join(in, ",") + "]"
	default:
		return "O"
	}
}

func walk(l []*vmsg, d int, f func(m *vmsg, d int)) {
	for _, m := range l {
		f(m, d)
		if m.Kind == 1 {
			walk(m.Inner, d+1, f)
		}
	}
}

type op struct {
	Kind int
	// submission
	Nest     int
	Payer    *itutiltypes.TestAccount
	Sub      *itutiltypes.TestAccount
	Acc      *acctInfo // nil when the account string is not an address
	AccStr   string
	AccClass string
	AccOK    bool
	AccID    uint64
	Sig      sigSpec
	BalClass string
	Fee      *big.Int
	// vesting / ica
	Msgs []*vmsg
	// transaction and observations
	bz         []byte
	checkOK    bool
	checkCode  uint32
	code       uint32
	codespace  string
	antePassed bool
	icaAck     bool
}

func (w *world) buildVmsg(m *vmsg, from sdk.AccAddress) sdk.Msg {
	c := w.c
	amt := sdk.NewCoins(sdk.NewInt64Coin(c.Denom(), 5))
	switch m.Kind {
	case 0:
		to := m.Target.addr.String()
		switch m.VK {
		case 0:
			return &vestingtypes.MsgCreateVestingAccount{FromAddress: from.String(), ToAddress: to, Amount: amt, EndTime: 4102444800, Delayed: m.Target.id%2 == 0}
		case 1:
			return &vestingtypes.MsgCreatePeriodicVestingAccount{FromAddress: from.String(), ToAddress: to, StartTime: 4000000000,
				VestingPeriods: []vestingtypes.Period{{Length: 1000, Amount: amt}}}
		default:
			return &vestingtypes.MsgCreatePermanentLockedAccount{FromAddress: from.String(), ToAddress: to, Amount: amt}
		}
	case 1:
		inner := make([]sdk.Msg, len(m.Inner))
		for i, x := range m.Inner {
			inner[i] = w.buildVmsg(x, from)
		}
		ex := authz.NewMsgExec(from, inner)
		return &ex
	default:
		return &banktypes.MsgSend{FromAddress: from.String(), ToAddress: w.sink.GetCosmosAddress().String(), Amount: sdk.NewCoins(sdk.NewInt64Coin(c.Denom(), 1))}
	}
}

func (w *world) signTx(signer *itutiltypes.TestAccount, gas uint64, msgs ...sdk.Msg) ([]byte, *big.Int) {
	c := w.c
	accNum, seq := c.AccNumSeq(signer.GetCosmosAddress())
	fee := new(big.Int).Mul(w.price, new(big.Int).SetUint64(gas))
	raw := &RawTx{Msgs: msgs, Gas: gas, Fee: c.FeeCoins(fee)}
	require.NoError(w.t, raw.SignDirect(c.ChainID(), signer, accNum, seq))
	bz, err := raw.Encode()
	require.NoError(w.t, err)
	return bz, fee
}

// pickAcc chooses the account a submission tries to prove / a vesting message targets.
func (w *world) pickAcc(r *Rng, inBlock []*acctInfo, wantFresh int) *acctInfo {
	x := r.Intn(100)
	if x < wantFresh {
		// an unproven fresh address (new ones are added as the old ones get used up)
		var cand []*acctInfo
		for _, a := range w.pool {
			if _, p := w.shadow[hex.EncodeToString(a.addr)]; !p && a.tag == "fresh" && !w.vested[hex.EncodeToString(a.addr)] {
				cand = append(cand, a)
			}
		}
		if len(cand) < 3 {
			return w.newFresh()
		}
		return cand[r.Intn(len(cand))]
	}
	if x >= 96 {
		// one of the accounts that also sign vesting transactions
		return w.byHex[hex.EncodeToString(w.rich[7+r.Intn(2)].GetCosmosAddress())]
	}
	if x < wantFresh+12 && len(inBlock) > 0 {
		return inBlock[r.Intn(len(inBlock))]
	}
	if x < wantFresh+20 {
		// an address that is not 20 bytes long
		for {
			if a := w.oddlen[r.Intn(len(w.oddlen))]; a.sfx != nil || r.Chance(30) {
				return a
			}
		}
	}
	if x < wantFresh+30 {
		// an already proven one
		var cand []*acctInfo
		for _, a := range w.pool {
			if _, p := w.shadow[hex.EncodeToString(a.addr)]; p {
				cand = append(cand, a)
			}
		}
		if len(cand) > 0 {
			return cand[r.Intn(len(cand))]
		}
	}
	return w.pool[r.Intn(len(w.pool))]
}

func (w *world) genSubmit(r *Rng, signers *[]*itutiltypes.TestAccount, inBlock []*acctInfo) *op {
	o := &op{Kind: opSubmit}
	acc := w.pickAcc(r, inBlock, 50)
	// an address of odd length with the key a sloppy length rule would accept: mostly the plain, well-funded, top-level case
	plain := len(acc.addr) != 20 && acc.sfx != nil && r.Chance(75)
	switch x := r.Intn(100); {
	case x < 68 || plain:
		o.Nest = 0
	case x < 82:
		o.Nest = 1
	case x < 93:
		o.Nest = 2
	default:
		o.Nest = 3
	}
	gas := uint64(submitGas)
	o.Fee = new(big.Int).Mul(w.price, new(big.Int).SetUint64(gas))
	fc := new(big.Int).Add(o.Fee, cost)
	otherPayer := o.Nest > 0 && r.Chance(50)
	pop := func() *itutiltypes.TestAccount {
		k := (*signers)[0]
		*signers = (*signers)[1:]
		return k
	}
	if otherPayer {
		// a grantee runs the MsgExec and pays the transaction fee; the submitter (granter) owes the fixed cost
		o.Payer = pop()
		var amt *big.Int
		switch x := r.Intn(5); x {
		case 0:
			amt, o.BalClass = big.NewInt(0), "granter:0"
		case 1:
			amt, o.BalClass = Bsub(cost, 1), "granter:COST-1"
		case 2:
			amt, o.BalClass = new(big.Int).Set(cost), "granter:COST"
		case 3:
			amt, o.BalClass = Badd(cost, 1), "granter:COST+1"
		default:
			amt, o.BalClass = new(big.Int).Mul(cost, big.NewInt(3)), "granter:rich"
		}
		o.Sub = w.newFunded(amt)
		require.NoError(w.t, w.c.App.AuthzKeeper.SaveGrant(w.c.Ctx(), o.Payer.GetCosmosAddress(), o.Sub.GetCosmosAddress(), authz.NewGenericAuthorization(w.submitU), nil))
	} else if !plain && r.Chance(55) {
		var amt *big.Int
		switch x := r.Intn(8); x {
		case 0:
			amt, o.BalClass = big.NewInt(0), "0"
		case 1:
			amt, o.BalClass = Bsub(o.Fee, 1), "fee-1"
		case 2:
			amt, o.BalClass = new(big.Int).Set(o.Fee), "fee"
		case 3:
			amt, o.BalClass = Badd(o.Fee, 1), "fee+1"
		case 4:
			amt, o.BalClass = Bsub(fc, 1), "fee+COST-1"
		case 5:
			amt, o.BalClass = new(big.Int).Set(fc), "fee+COST"
		case 6:
			amt, o.BalClass = Badd(fc, 1), "fee+COST+1"
		default:
			amt, o.BalClass = new(big.Int).Add(fc, cost), "fee+2COST"
		}
		o.Sub = w.newFunded(amt)
		o.Payer = o.Sub
	} else {
		o.Sub = pop()
		o.Payer = o.Sub
		o.BalClass = "rich"
	}
	// account
	o.Acc, o.AccStr, o.AccOK, o.AccClass = acc, acc.addr.String(), len(acc.addr) == 20, "bech32"
	if len(acc.addr) != 20 {
		o.AccClass = acc.cls
	} else {
		switch x := r.Intn(100); {
		case x < 5:
			// submitter proves itself
			acc = w.byHex[hex.EncodeToString(o.Sub.GetCosmosAddress())]
			o.Acc, o.AccStr, o.AccOK, o.AccClass = acc, acc.addr.String(), true, "self"
		case x < 10:
			o.AccStr, o.AccClass = strings.ToUpper(o.AccStr), "bech32-upper-case"
		case x < 14:
			s, err := bech32.ConvertAndEncode("cosmos", acc.addr)
			require.NoError(w.t, err)
			o.AccStr, o.AccOK, o.AccClass = s, false, "foreign-prefix"
		case x < 16:
			o.AccStr, o.AccOK, o.AccClass = o.AccStr[:len(o.AccStr)-1]+"!", false, "not-bech32"
		}
	}
	if o.AccOK || len(acc.addr) != 20 {
		o.AccID = acc.id
	} else {
		o.Acc = nil
		o.AccID = w.idOf("str:" + o.AccStr)
	}
	o.Sig = w.genSig(r, acc, o.Sub)

	var m sdk.Msg = &vauthtypes.MsgSubmitProofExternalOwnedAccount{Submitter: o.Sub.GetCosmosAddress().String(), Account: o.AccStr, Signature: o.Sig.Str}
	for i := 0; i < o.Nest; i++ {
		ex := authz.NewMsgExec(o.Payer.GetCosmosAddress(), []sdk.Msg{m})
		m = &ex
	}
	o.bz, _ = w.signTx(o.Payer, gas, m)
	return o
}

func (w *world) genVesting(r *Rng, signers *[]*itutiltypes.TestAccount, inBlock []*acctInfo) *op {
	o := &op{Kind: opVesting}
	o.Payer = (*signers)[0]
	*signers = (*signers)[1:]
	_, funderProven := w.shadow[hex.EncodeToString(o.Payer.GetCosmosAddress())]
	leaf := func(proven int) *vmsg {
		if funderProven {
			// a sender that is itself a proven EOA: mostly unproven targets (the proof that counts is the target's)
			proven = 25
		}
		return &vmsg{Kind: 0, VK: r.Intn(3), Target: w.pickTarget(r, inBlock, proven)}
	}
	n := 1
	if r.Chance(35) {
		n = 2 + r.Intn(2)
	}
	for i := 0; i < n; i++ {
		switch x := r.Intn(100); {
		case x < 55:
			o.Msgs = append(o.Msgs, leaf(60))
		case x < 75:
			o.Msgs = append(o.Msgs, &vmsg{Kind: 2})
		default:
			// nested: depth 1-3, around a vesting message (mostly for a PROVEN target) or a bank send
			var in *vmsg
			if r.Chance(75) {
				in = leaf(75)
			} else {
				in = &vmsg{Kind: 2}
			}
			m := &vmsg{Kind: 1, Inner: []*vmsg{in}}
			if r.Chance(30) {
				m.Inner = append(m.Inner, &vmsg{Kind: 2})
			}
			for d := r.Intn(3); d > 0; d-- {
				m = &vmsg{Kind: 1, Inner: []*vmsg{m}}
			}
			o.Msgs = append(o.Msgs, m)
		}
	}
	hasV := false
	walk(o.Msgs, 0, func(m *vmsg, _ int) { hasV = hasV || m.Kind == 0 })
	if !hasV {
		o.Msgs = append(o.Msgs, leaf(60))
	}
	msgs := make([]sdk.Msg, len(o.Msgs))
	for i, m := range o.Msgs {
		msgs[i] = w.buildVmsg(m, o.Payer.GetCosmosAddress())
	}
	o.bz, o.Fee = w.signTx(o.Payer, vestingGas, msgs...)
	return o
}

// pickTarget: provenPct % of the time an address that has a proof and no account yet.
func (w *world) pickTarget(r *Rng, inBlock []*acctInfo, provenPct int) *acctInfo {
	if r.Chance(provenPct) {
		var cand []*acctInfo
		for _, a := range w.pool {
			h := hex.EncodeToString(a.addr)
			if _, p := w.shadow[h]; p && a.tag == "fresh" && !w.vested[h] {
				cand = append(cand, a)
			}
		}
		if len(cand) > 0 {
			return cand[r.Intn(len(cand))]
		}
	}
	return w.pickAcc(r, inBlock, 35)
}

// ------------------------------------------------------------------ reading the chain

func (w *world) readStore(ctx sdk.Context) map[string]storedProof {
	out := map[string]storedProof{}
	st := ctx.KVStore(w.c.App.GetKVStoreKey()[vauthtypes.StoreKey])
	it := storetypes.KVStorePrefixIterator(st, vauthtypes.KeyPrefixProofExternalOwnedAccount)
	defer it.Close()
	for ; it.Valid(); it.Next() {
		var p vauthtypes.ProofExternalOwnedAccount
		require.NoError(w.t, proto.Unmarshal(it.Value(), &p))
		out[hex.EncodeToString(it.Key()[len(vauthtypes.KeyPrefixProofExternalOwnedAccount):])] = storedProof{p.Account, p.Hash, p.Signature}
	}
	return out
}

func (w *world) isVesting(ctx sdk.Context, a sdk.AccAddress) bool {
	acc := w.c.App.AccountKeeper.GetAccount(ctx, a)
	if acc == nil {
		return false
	}
	_, ok := acc.(vestexported.VestingAccount)
	return ok
}

func (w *world) strID(s string) uint64 {
	if id, ok := w.strIDs[s]; ok {
		return id
	}
	id := uint64(len(w.strIDs) + 1)
	w.strIDs[s] = id
	return id
}

func (w *world) bytesID(b []byte) uint64 {
	k := hex.EncodeToString(b)
	if id, ok := w.byteIDs[k]; ok {
		return id
	}
	id := uint64(len(w.byteIDs) + 1)
	w.byteIDs[k] = id
	return id
}

// ------------------------------------------------------------------ the driver

func TestDriverVauth(t *testing.T) {
	dir := OutDir(t)
	seed := EnvSeed()
	n := EnvInt("VERIF_N", 300)
	c := NewChain(t, time.Time{})
	w := &world{t: t, c: c, seed: seed, ids: map[string]uint64{}, byHex: map[string]*acctInfo{}, strIDs: map[string]uint64{}, byteIDs: map[string]uint64{},
		shadow: map[string]storedProof{}, vested: map[string]bool{}}
	w.setup()
	side := NewSidecar("vauth", seed,
		"case = one block of the real chain with 1-4 transactions (proof submissions with 17 classes of signature string, 8 account classes, 13 balance classes, "+
			"nesting 0-3 in MsgExec with the submitter or a grantee paying the fee; vesting-creation transactions of the three kinds for proven / unproven / "+
			"in-block-proven / existing targets, top level, beside other messages, nested at depth 1-3) and sometimes ICA host packets in front of it (one carrying a "+
			"vesting-creation message, one carrying a proof submission by a second interchain account); every "+
			"transaction through CheckTx and FinalizeBlock; the chain persists across cases (histories); non-trivial = distinct (operation kinds, signature / account / "+
			"balance / target classes, result codes); restrictions: one transaction per signer per block, fee price 2 x base fee, ample gas limits, grants exist for "+
			"grantee-paid submissions; IBC packet proof verification in front of the ICA host is not exercised")
	side.Extra["fixed_message"] = vauthtypes.MessageToSign
	side.Extra["fixed_cost"] = cost.String()
	cases := NewCases(dir, "From Evm Require Import Lane Vauth CorrVauth.", "vauth_mismatches")
	rng := NewRng(seed)
	vauthMod := authtypes.NewModuleAddress(vauthtypes.ModuleName)

	for idx := 0; idx < n; idx++ {
		r := rng.Fork(uint64(idx))
		w.price = new(big.Int).Mul(c.BaseFee(c.QueryCtx()), big.NewInt(2))
		if w.price.Sign() == 0 {
			w.price = big.NewInt(1)
		}
		signers := append([]*itutiltypes.TestAccount{}, w.rich[:9]...)
		for i := len(signers) - 1; i > 0; i-- {
			j := r.Intn(i + 1)
			signers[i], signers[j] = signers[j], signers[i]
		}
		// ---- generate (state set-up such as funding and grants happens here, before the "before" snapshot)
		nOps := 1 + r.Intn(4)
		var ops []*op
		var inBlock []*acctInfo
		var icaOp *op
		if r.Chance(6) {
			icaOp = &op{Kind: opIca, Msgs: []*vmsg{{Kind: 0, VK: r.Intn(3), Target: w.pickAcc(r, nil, 70)}}}
			inBlock = append(inBlock, icaOp.Msgs[0].Target)
		}
		var icaSub *op
		if r.Chance(9) {
			// a proof submission carried by an ICA host packet: submitter = the interchain account, no transaction, no fee
			acc := w.pickAcc(r, inBlock, 55)
			icaSub = &op{Kind: opIcaSubmit, Acc: acc, AccStr: acc.addr.String(), AccOK: len(acc.addr) == 20, AccID: acc.id, AccClass: "bech32", Fee: big.NewInt(0), BalClass: "ica"}
			if len(acc.addr) != 20 {
				icaSub.AccClass = acc.cls
			}
			icaSub.Sig = w.genSig(r, acc, w.sink)
			inBlock = append(inBlock, acc)
			if b := c.Bal(c.QueryCtx(), w.icaS, c.Denom()); b.Cmp(cost) < 0 && r.Chance(60) {
				c.Fund(w.icaS, c.Denom(), new(big.Int).Sub(cost, b)) // exactly the fixed cost
			}
		}
		for j := 0; j < nOps; j++ {
			var o *op
			if r.Chance(62) {
				o = w.genSubmit(r, &signers, inBlock)
				if o.Acc != nil {
					inBlock = append(inBlock, o.Acc)
				}
			} else {
				o = w.genVesting(r, &signers, inBlock)
				walk(o.Msgs, 0, func(m *vmsg, _ int) {
					if m.Kind == 0 {
						inBlock = append(inBlock, m.Target)
					}
				})
			}
			ops = append(ops, o)
		}

		// ---- universe of this case and the state before
		univ := map[string]*acctInfo{}
		tracked := map[string]*acctInfo{}
		for _, a := range inBlock {
			univ[hex.EncodeToString(a.addr)] = a
		}
		for k := 0; k < 3; k++ {
			a := w.pool[r.Intn(len(w.pool))]
			univ[hex.EncodeToString(a.addr)] = a
		}
		for _, o := range ops {
			if o.Kind == opSubmit {
				for _, k := range []*itutiltypes.TestAccount{o.Payer, o.Sub} {
					a := w.regKey(k, "signer")
					tracked[hex.EncodeToString(a.addr)] = a
					univ[hex.EncodeToString(a.addr)] = a
				}
			}
		}
		if icaSub != nil {
			a := w.register(w.icaS, nil, "ica")
			tracked[hex.EncodeToString(a.addr)] = a
			univ[hex.EncodeToString(a.addr)] = a
		}
		sorted := func(m map[string]*acctInfo) []*acctInfo {
			l := make([]*acctInfo, 0, len(m))
			for _, a := range m {
				l = append(l, a)
			}
			sort.Slice(l, func(i, j int) bool { return l[i].id < l[j].id })
			return l
		}
		U, T := sorted(univ), sorted(tracked)
		if r.Chance(4) {
			// coins that reached the module account some other way (placed through the bank keeper) are nobody's cost and must stay
			coins := sdk.NewCoins(sdk.NewInt64Coin(c.Denom(), int64(1+r.Intn(1000))))
			require.NoError(t, c.App.BankKeeper.MintCoins(c.Ctx(), evmtypes.ModuleName, coins))
			require.NoError(t, c.App.BankKeeper.SendCoinsFromModuleToModule(c.Ctx(), evmtypes.ModuleName, vauthtypes.ModuleName, coins))
			side.Count("setup:module-account-funded")
		}
		pre := c.QueryCtx()
		modBefore := c.Bal(pre, vauthMod, c.Denom())
		storeBefore := w.readStore(pre)
		supplyBefore := c.Supply(pre, c.Denom())
		balBefore := map[string]*big.Int{}
		var cqProofs, cqBal, cqVested, cqAcct, cqUniv []string
		vestedBefore := map[string]bool{}
		for _, a := range U {
			h := hex.EncodeToString(a.addr)
			cqUniv = append(cqUniv, CqN(a.id))
			if p, ok := storeBefore[h]; ok {
				cqProofs = append(cqProofs, fmt.Sprintf("(%s, %s)", CqN(a.id), CqN(w.strID(p.Signature))))
			}
			if w.isVesting(pre, a.addr) {
				vestedBefore[h] = true
				cqVested = append(cqVested, CqN(a.id))
			}
			if c.App.AccountKeeper.GetAccount(pre, a.addr) != nil {
				cqAcct = append(cqAcct, CqN(a.id))
			}
		}
		for _, a := range T {
			h := hex.EncodeToString(a.addr)
			balBefore[h] = c.Bal(pre, a.addr, c.Denom())
			cqBal = append(cqBal, fmt.Sprintf("(%s, %s)", CqN(a.id), CqZ(balBefore[h])))
		}

		// ---- the ICA host packet (no transaction, no ante handler), then CheckTx of every transaction, then the block
		if icaOp != nil {
			ctx := c.Ctx().WithEventManager(sdk.NewEventManager())
			msg := w.buildVmsg(icaOp.Msgs[0], w.ica)
			data, err := icatypes.SerializeCosmosTx(c.S.EncodingConfig.Codec, []proto.Message{msg}, icatypes.EncodingProtobuf)
			require.NoError(t, err)
			pd := icatypes.InterchainAccountPacketData{Type: icatypes.EXECUTE_TX, Data: data}
			pkt := channeltypes.NewPacket(pd.GetBytes(), uint64(idx+1), ctrlPort, chanID, icatypes.HostPortID, chanID, clienttypes.NewHeight(1, 1<<40), 0)
			p := CatchPanic(func() { icaOp.icaAck = w.icaMod.OnRecvPacket(ctx, pkt, w.sink.GetCosmosAddress()).Success() })
			require.Nil(t, p, "OnRecvPacket panicked: %v", p)
		}
		if icaSub != nil {
			ctx := c.Ctx().WithEventManager(sdk.NewEventManager())
			msg := &vauthtypes.MsgSubmitProofExternalOwnedAccount{Submitter: w.icaS.String(), Account: icaSub.AccStr, Signature: icaSub.Sig.Str}
			data, err := icatypes.SerializeCosmosTx(c.S.EncodingConfig.Codec, []proto.Message{msg}, icatypes.EncodingProtobuf)
			require.NoError(t, err)
			pd := icatypes.InterchainAccountPacketData{Type: icatypes.EXECUTE_TX, Data: data}
			pkt := channeltypes.NewPacket(pd.GetBytes(), uint64(idx+1), ctrlPortS, chanIDS, icatypes.HostPortID, chanIDS, clienttypes.NewHeight(1, 1<<40), 0)
			var ackBz []byte
			p := CatchPanic(func() {
				ack := w.icaMod.OnRecvPacket(ctx, pkt, w.sink.GetCosmosAddress())
				icaSub.icaAck, ackBz = ack.Success(), ack.Acknowledgement()
			})
			switch {
			case p != nil:
				icaSub.code, icaSub.codespace = 111222, "undefined" // what baseapp makes of a panic in a MsgRecvPacket
			case icaSub.icaAck:
				icaSub.code = 0
			default:
				// ibc-go error acknowledgement: "ABCI code: <n>: error handling packet: see events for details"
				var n uint32
				if i := strings.Index(string(ackBz), "ABCI code: "); i >= 0 {
					fmt.Sscanf(string(ackBz)[i+len("ABCI code: "):], "%d", &n)
				}
				require.NotZero(t, n, "cannot read the ABCI code of the error acknowledgement %s", string(ackBz))
				icaSub.code, icaSub.codespace = n, "sdk"
			}
		}
		var txs [][]byte
		for _, o := range ops {
			chk, err := c.CheckTx(o.bz, false)
			require.NoError(t, err)
			o.checkOK, o.checkCode = chk.Code == 0, chk.Code
			txs = append(txs, o.bz)
		}
		res := c.RunBlock(txs)
		minted := big.NewInt(0)
		for _, e := range res.Events {
			if e.Type == "mint" {
				if v, ok := new(big.Int).SetString(EventAttrs(e)["amount"], 10); ok {
					minted.Add(minted, v)
				}
			}
		}
		for i, o := range ops {
			tr := res.TxResults[i]
			o.code, o.codespace = tr.Code, tr.Codespace
			o.antePassed = anteEvents(tr)
		}
		post := c.QueryCtx()
		storeAfter := w.readStore(post)
		supplyAfter := c.Supply(post, c.Denom())

		// ---- the case for Coq
		var cqVer, cqOps, cqCheck, cqObs, cqProofsA, cqBalA, cqVestedA []string
		if icaOp != nil {
			cqOps = append(cqOps, fmt.Sprintf("(OIcaPacket ica_default true %s)", CqList([]string{icaOp.Msgs[0].coq()})))
			cqCheck = append(cqCheck, "true")
			cqObs = append(cqObs, "XNone")
		}
		cqOps = append(cqOps, fmt.Sprintf("(OMint 0%%N %s)", CqZ(minted)))
		cqCheck = append(cqCheck, "true")
		cqObs = append(cqObs, "XNone")
		verSeen := map[string]bool{}
		sigCoq := func(o *op) string {
			prefix := strings.HasPrefix(o.Sig.Str, "0x")
			var raw []byte
			hexOK := false
			if len(o.Sig.Str) >= 2 {
				b, err := hex.DecodeString(o.Sig.Str[2:])
				if err == nil && len(b) >= 1 {
					hexOK, raw = true, b
				}
			}
			bid := uint64(0)
			if hexOK {
				bid = w.bytesID(raw)
				if o.Acc != nil {
					// the external function, called as the message's ValidateBasic calls it
					k := fmt.Sprintf("%d/%d", o.AccID, bid)
					if !verSeen[k] {
						verSeen[k] = true
						ok := false
						CatchPanic(func() {
							v, err := vauthutils.VerifySignature(common.BytesToAddress(o.Acc.addr), raw, vauthtypes.MessageToSign)
							ok = v && err == nil
						})
						cqVer = append(cqVer, fmt.Sprintf("(%s, %s, %s)", CqN(o.AccID), CqN(bid), CqBool(ok)))
					}
				}
			}
			return fmt.Sprintf("(Build_sigstr %s %s %s %s %s)", CqN(w.strID(o.Sig.Str)), CqN(bid), CqBool(prefix), CqBool(hexOK), CqBool(strings.ToLower(o.Sig.Str) == o.Sig.Str))
		}
		if icaSub != nil {
			// executed before BeginBlock of this block: in front of the mint operation
			pos := len(cqOps) - 1
			opS := fmt.Sprintf("(OIcaSubmit %s %s %s %s)", CqN(w.register(w.icaS, nil, "ica").id), CqN(icaSub.AccID), CqBool(icaSub.AccOK), sigCoq(icaSub))
			cqOps = append(cqOps[:pos], append([]string{opS}, cqOps[pos:]...)...)
			cqCheck = append(cqCheck, "true")
			cqObs = append(cqObs[:pos], append([]string{fmt.Sprintf("(XIca %s)", CqZi(int64(icaSub.code)))}, cqObs[pos:]...)...)
		}
		for _, o := range ops {
			cqCheck = append(cqCheck, CqBool(o.checkOK))
			switch o.Kind {
			case opSubmit:
				g := sigCoq(o)
				cqOps = append(cqOps, fmt.Sprintf("(OSubmit %s %s %s %s %s %s %s)", CqNat(o.Nest), CqN(w.regKey(o.Payer, "signer").id), CqN(w.regKey(o.Sub, "signer").id),
					CqN(o.AccID), CqBool(o.AccOK), g, CqZ(o.Fee)))
				code := int64(o.code)
				if o.codespace != "sdk" && o.codespace != "undefined" && o.codespace != "" {
					code = -int64(o.code) - 1 // a module codespace: never expected
				}
				cqObs = append(cqObs, fmt.Sprintf("(XSubmit %s %s)", CqBool(o.antePassed), CqZi(code)))
			case opVesting:
				ms := make([]string, len(o.Msgs))
				for i, m := range o.Msgs {
					ms[i] = m.coq()
				}
				sh := fmt.Sprintf("(Build_shape %s [] [] 1%%nat 1%%nat false false MemoNone TNone [(0%%N, %s)] %s)", CqList(ms), CqZ(o.Fee), CqZu(vestingGas))
				cqOps = append(cqOps, fmt.Sprintf("(OVestingTx None (fun _ => None) %s)", sh))
				switch {
				case o.code == 0:
					cqObs = append(cqObs, "(XVesting VOk)")
				case o.antePassed:
					cqObs = append(cqObs, "(XVesting VExecFail)")
				default:
					cqObs = append(cqObs, "(XVesting VAnteRej)")
				}
			}
		}
		for _, a := range U {
			h := hex.EncodeToString(a.addr)
			if p, ok := storeAfter[h]; ok {
				cqProofsA = append(cqProofsA, fmt.Sprintf("(Some %s)", CqN(w.strID(p.Signature))))
			} else {
				cqProofsA = append(cqProofsA, "None")
			}
			cqVestedA = append(cqVestedA, CqBool(w.isVesting(post, a.addr)))
		}
		balAfter := map[string]*big.Int{}
		for _, a := range T {
			h := hex.EncodeToString(a.addr)
			balAfter[h] = c.Bal(post, a.addr, c.Denom())
			cqBalA = append(cqBalA, CqZ(balAfter[h]))
		}
		cases.Add(fmt.Sprintf("(Build_vcase %s %s %s %s %s %s %s %s %s %s %s %s %s %s)", CqList(cqUniv), CqList(cqProofs), CqList(cqBal), CqZ(supplyBefore),
			CqList(cqVested), CqList(cqAcct), CqList(cqVer), CqList(cqOps), CqList(cqCheck), CqList(cqObs), CqList(cqProofsA), CqList(cqBalA),
			CqZ(supplyAfter), CqList(cqVestedA)))

		// ---- description, histogram
		var descOps []map[string]interface{}
		var canon []string
		if icaOp != nil {
			descOps = append(descOps, map[string]interface{}{"op": "ica-host-packet", "msg": icaOp.Msgs[0].canon(), "target": hex.EncodeToString(icaOp.Msgs[0].Target.addr), "ack_success": icaOp.icaAck})
			canon = append(canon, "ica:"+icaOp.Msgs[0].canon())
			side.Count("op:ica-host-packet")
			side.Count(fmt.Sprintf("ica:ack_success=%v", icaOp.icaAck))
		}
		if icaSub != nil {
			tag := icaSub.Acc.tag
			if _, p := storeBefore[hex.EncodeToString(icaSub.Acc.addr)]; p {
				tag += "+proven"
			}
			descOps = append(descOps, map[string]interface{}{"op": "ica-host-packet-submit-proof", "submitter": w.icaS.String(), "account": icaSub.AccStr, "account_kind": tag,
				"signature": icaSub.Sig.Str, "signature_class": icaSub.Sig.Class, "ack_success": icaSub.icaAck, "code": icaSub.code})
			canon = append(canon, fmt.Sprintf("icaS|%s|%s|%d", icaSub.Sig.Class, tag, icaSub.code))
			side.Count("op:ica-host-packet-submit-proof")
			side.Count(fmt.Sprintf("ica-submit:code=%d", icaSub.code))
			side.Count("ica-submit:sig:" + icaSub.Sig.Class)
		}
		for i, o := range ops {
			d := map[string]interface{}{"tx_index": i, "check_code": o.checkCode, "deliver_code": fmt.Sprintf("%s/%d", o.codespace, o.code), "ante_passed": o.antePassed}
			switch o.Kind {
			case opSubmit:
				d["op"] = "submit-proof"
				d["nest"], d["payer"], d["submitter"] = o.Nest, o.Payer.GetCosmosAddress().String(), o.Sub.GetCosmosAddress().String()
				d["account"], d["account_class"], d["signature"], d["signature_class"], d["balance_class"] = o.AccStr, o.AccClass, o.Sig.Str, o.Sig.Class, o.BalClass
				tag := "-"
				if o.Acc != nil {
					tag = o.Acc.tag
					if _, p := storeBefore[hex.EncodeToString(o.Acc.addr)]; p {
						tag += "+proven"
					}
				}
				d["account_kind"] = tag
				cn := fmt.Sprintf("S%d|%s|%s|%s|%s|%v|%d/%v", o.Nest, o.Sig.Class, o.AccClass, tag, o.BalClass, o.Payer == o.Sub, o.code, o.antePassed)
				canon = append(canon, cn)
				side.Count("op:submit")
				side.Count("submit:sig:" + o.Sig.Class)
				side.Count("submit:account:" + o.AccClass + "/" + tag)
				side.Count("submit:balance:" + o.BalClass)
				side.Count(fmt.Sprintf("submit:nest:%d/self-paid=%v", o.Nest, o.Payer == o.Sub))
				side.Count(fmt.Sprintf("submit:check:%d", o.checkCode))
				side.Count(fmt.Sprintf("submit:deliver:%s/%d/ante_passed=%v", o.codespace, o.code, o.antePassed))
			case opVesting:
				d["op"] = "vesting-tx"
				ms := make([]string, len(o.Msgs))
				for k, m := range o.Msgs {
					ms[k] = m.canon()
				}
				d["msgs"] = strings.Join(ms, ";")
				maxd := 0
				walk(o.Msgs, 0, func(m *vmsg, dd int) {
					if m.Kind == 0 {
						h := hex.EncodeToString(m.Target.addr)
						_, p := storeBefore[h]
						side.Count(fmt.Sprintf("vesting:msg:kind=%d/depth=%d/target=%s/proven_at_block_start=%v", m.VK, dd, m.Target.tag, p))
						if dd > maxd {
							maxd = dd
						}
					}
				})
				canon = append(canon, fmt.Sprintf("V|%s|%d/%v", strings.Join(ms, ";"), o.code, o.antePassed))
				side.Count("op:vesting-tx")
				side.Count(fmt.Sprintf("vesting:n_msgs:%d", len(o.Msgs)))
				side.Count(fmt.Sprintf("vesting:check:%d", o.checkCode))
				side.Count(fmt.Sprintf("vesting:deliver:%s/%d/ante_passed=%v", o.codespace, o.code, o.antePassed))
			}
			descOps = append(descOps, d)
		}
		desc := map[string]interface{}{"height": c.Height - 1, "ops": descOps, "minted": minted.String(),
			"supply_delta": new(big.Int).Sub(supplyAfter, supplyBefore).String()}
		side.Count(fmt.Sprintf("block:n_txs:%d", len(ops)))
		side.Case(idx, strings.Join(canon, " ; "), true, desc)

		// =================================================================== oracle: the property text
		hit := func(sig, msg string) { side.Hit("C16/vauth/"+sig, msg, desc) }
		okSubmit := func(o *op) bool { return (o.Kind == opSubmit || o.Kind == opIcaSubmit) && o.code == 0 }
		// submissions in the order they ran: the one carried by an ICA packet (if any) ran before the block
		seq := ops
		if icaSub != nil {
			seq = append([]*op{icaSub}, ops...)
		}

		// (1) unforgeable: a proof appears only together with a signature by the key controlling that address over the fixed message
		for h, p := range storeAfter {
			if _, was := storeBefore[h]; was {
				continue
			}
			a := w.byHex[h]
			if a == nil {
				hit("proof/stored-for-address-nobody-submitted", "a proof appeared for an address no transaction of the block named: "+h)
				continue
			}
			if len(a.addr) != 20 {
				signer := "nobody's"
				if ownerSigned(a.sfx, p.Signature) {
					signer = "the key of the OTHER address " + hex.EncodeToString(a.sfx.GetCosmosAddress())
				}
				hit("proof/stored-for-non-20-byte-address", fmt.Sprintf("a proof was stored for the %d-byte address %s (%s), which no key controls; the stored signature is %s", len(a.addr), h, a.cls, signer))
				continue
			}
			by := false
			for _, o := range seq {
				if okSubmit(o) && o.Acc == a && o.Sig.Str == p.Signature {
					by = true
				}
			}
			if !by {
				hit("proof/stored-by-rejected-or-no-submission", "a proof was stored although no successful submission of this block carried that account and signature: "+h)
			}
			if !ownerSigned(a.key, p.Signature) {
				hit("proof/stored-without-owner-signature", fmt.Sprintf("a proof was stored for %s (%s) with a signature string that is not a signature by the key controlling it over the fixed message: %s", h, a.tag, p.Signature))
			}
			if p.Hash != "0x"+hex.EncodeToString(fixedHash) {
				hit("proof/hash-not-of-fixed-message", "stored hash differs from keccak256 of the fixed message: "+p.Hash)
			}
			if dec, err := sdk.AccAddressFromBech32(p.Account); err != nil || hex.EncodeToString(dec) != h {
				hit("proof/stored-under-another-address", "the stored proof names another account than the key it is stored under")
			}
		}
		// (2) final: never proved again, overwritten or removed
		for h, p := range storeBefore {
			if q, ok := storeAfter[h]; !ok || q != p {
				hit("proof/overwritten-or-removed", "a stored proof changed or disappeared: "+h)
			}
		}
		for _, o := range seq {
			if okSubmit(o) && o.Acc != nil {
				if _, was := storeBefore[hex.EncodeToString(o.Acc.addr)]; was {
					hit("proof/proven-address-proved-again", "a submission for an already proven address succeeded")
				}
			}
		}
		for i, o := range seq {
			for _, o2 := range seq[:i] {
				if okSubmit(o) && okSubmit(o2) && o.Acc != nil && o.Acc == o2.Acc {
					hit("proof/proven-address-proved-again", "two submissions of one block for the same address both succeeded")
				}
			}
		}
		// (3) cost: exactly the fixed fee from the submitter, burnt; a rejected submission burns nothing.
		// Per tracked account: -(transaction fees of the transactions it signed whose ante handler passed) - COST per successful submission it made.
		nOK := int64(0)
		for _, o := range seq {
			if okSubmit(o) {
				nOK++
			}
		}
		for _, a := range T {
			h := hex.EncodeToString(a.addr)
			want := new(big.Int).Set(balBefore[h])
			if icaSub != nil && icaSub.code == 0 && hex.EncodeToString(w.icaS) == h {
				want.Sub(want, cost) // no transaction, no transaction fee: the interchain account owes the fixed cost only
			}
			for _, o := range ops {
				if o.Kind != opSubmit {
					continue
				}
				if o.antePassed && hex.EncodeToString(o.Payer.GetCosmosAddress()) == h {
					want.Sub(want, o.Fee)
				}
				if o.code == 0 && hex.EncodeToString(o.Sub.GetCosmosAddress()) == h {
					want.Sub(want, cost)
				}
			}
			if want.Cmp(balAfter[h]) != 0 {
				hit("cost/submitter-or-payer-charged-otherwise", fmt.Sprintf("account %s: balance %s -> %s, expected %s (transaction fees of ante-passed transactions + 10^18 per successful submission)", h, balBefore[h], balAfter[h], want))
			}
		}
		wantSupply := new(big.Int).Add(supplyBefore, minted)
		wantSupply.Sub(wantSupply, new(big.Int).Mul(cost, big.NewInt(nOK)))
		if wantSupply.Cmp(supplyAfter) != 0 {
			hit("cost/burn-not-exact", fmt.Sprintf("supply %s -> %s with %s minted by x/mint and %d successful submission(s): expected %s", supplyBefore, supplyAfter, minted, nOK, wantSupply))
		}
		if b := c.Bal(post, vauthMod, c.Denom()); b.Cmp(modBefore) != 0 {
			hit("cost/module-account-balance-changed", "the vauth module account held "+modBefore.String()+" before and "+b.String()+" after the block: the cost was not burnt exactly")
		}
		// (4) vesting accounts only for addresses that already have a proof, never through MsgExec
		for _, o := range ops {
			if o.Kind != opVesting {
				continue
			}
			nested, unprovenTop := false, false
			walk(o.Msgs, 0, func(m *vmsg, d int) {
				if m.Kind != 0 {
					return
				}
				if d > 0 {
					nested = true
				} else if _, p := storeBefore[hex.EncodeToString(m.Target.addr)]; !p && !(icaSub != nil && icaSub.code == 0 && icaSub.Acc == m.Target) {
					// (a proof stored by the ICA packet delivered in front of this block is already there when CheckTx runs)
					unprovenTop = true
				}
			})
			if o.checkOK && nested {
				hit("vesting/check/nested-creation-accepted", "CheckTx accepted a transaction nesting a vesting-creation message in MsgExec")
			}
			if o.checkOK && unprovenTop {
				hit("vesting/check/unproven-target-accepted", "CheckTx accepted a vesting-creation message for an address without stored proof")
			}
			if o.antePassed && nested {
				hit("vesting/deliver/nested-creation-passed-ante", "a delivered transaction nesting a vesting-creation message in MsgExec passed the ante handler")
			}
		}
		for _, a := range U {
			h := hex.EncodeToString(a.addr)
			now := w.isVesting(post, a.addr)
			if !now || vestedBefore[h] {
				w.vested[h] = now
				continue
			}
			w.vested[h] = true
			// which transaction created it, and was the proof there before?
			first := -1
			for i, o := range ops {
				if o.Kind == opVesting && o.code == 0 {
					walk(o.Msgs, 0, func(m *vmsg, d int) {
						if m.Kind == 0 && m.Target == a && first < 0 {
							first = i
						}
					})
				}
			}
			byIca := icaOp != nil && icaOp.Msgs[0].Target == a && icaOp.icaAck
			_, proven := storeBefore[h]
			if icaSub != nil && icaSub.code == 0 && icaSub.Acc == a {
				proven = true
			}
			if first >= 0 {
				for _, o := range ops[:first] {
					if okSubmit(o) && o.Acc == a {
						proven = true
					}
				}
			}
			switch {
			case byIca && first < 0:
				if _, p := storeBefore[h]; !p {
					hit("ica-host/vesting-created-without-proof", "a vesting account was created for an address without ownership proof by a message carried in an ICA host packet: "+h)
				}
			case first < 0:
				hit("vesting/deliver/created-by-no-successful-transaction", "a vesting account appeared although no successful transaction of the block creates it top level: "+h)
			case !proven:
				hit("vesting/deliver/created-without-prior-proof", "a user transaction created a vesting account for an address that had no stored proof at that point: "+h)
			}
		}
		w.shadow = storeAfter
	}
	side.Extra["proofs_stored_at_end"] = len(w.shadow)
	cases.Write(t, 60)
	side.Write(t, dir)
}

// anteEvents: the ante handler's fee deduction leaves a `tx` event with a `fee` attribute; baseapp keeps ante events of failed transactions.
func anteEvents(tr *abci.ExecTxResult) bool {
	for _, e := range tr.Events {
		if e.Type == "tx" {
			if _, ok := EventAttrs(e)["fee"]; ok {
				return true
			}
		}
	}
	return false
}
