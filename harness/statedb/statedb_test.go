package statedb

// Driver `statedb` (C03; the discard half also serves C08): random operation sequences on the REAL
// context-based StateDB (x/evm/vm) over a live application context, mixing StateDB interface ops,
// writes of other modules made through GetCurrentContext() with the real keepers / message servers,
// real evm.Call frames into stateful precompiles (directly and through a forwarder contract), nested
// Snapshot / RevertToSnapshot / re-snapshot, then CommitMultiStore or discard.
//
// After every step the whole multistore view through the current context is dumped and diffed, all
// side components are read, and the step is written as a Coq term; Corr/CorrCacheStack.v replays the
// sequence on Model/CacheStack.v and compares everything.  Independently of the model, the Go oracle
// checks the property text: digest after RevertToSnapshot(id) == digest recorded at Snapshot() = id,
// original context untouched before commit, committed store == last current view (+ destroy loop).

import (
	"bytes"
	"crypto/sha256"
	"encoding/hex"
	"fmt"
	"math/big"
	"sort"
	"strings"
	"testing"
	"time"

	sdkmath "cosmossdk.io/math"
	sdk "github.com/cosmos/cosmos-sdk/types"
	distrkeeper "github.com/cosmos/cosmos-sdk/x/distribution/keeper"
	distrtypes "github.com/cosmos/cosmos-sdk/x/distribution/types"
	stakingkeeper "github.com/cosmos/cosmos-sdk/x/staking/keeper"
	stakingtypes "github.com/cosmos/cosmos-sdk/x/staking/types"
	"github.com/ethereum/go-ethereum/common"
	ethtypes "github.com/ethereum/go-ethereum/core/types"
	corevm "github.com/ethereum/go-ethereum/core/vm"
	"github.com/stretchr/testify/require"

	cpctypes "github.com/EscanBE/evermint/v12/x/cpc/types"
	evmtypes "github.com/EscanBE/evermint/v12/x/evm/types"
	evmvm "github.com/EscanBE/evermint/v12/x/evm/vm"

	. "verifharness/hx"
)

const (
	nA     = 6 // logical address universe (ids 0..5), see Corr/CorrCacheStack.v ADDRS
	nSlots = 4
	nTKeys = 3
)

type env struct {
	c      *Chain
	A      []common.Address // logical universe
	F      []common.Address // foreign-module actors (delegators, token holders)
	vals   []sdk.ValAddress
	codes  [][]byte // code universe, id = index+1
	erc20  common.Address
	fwd    common.Address // forwarder contract
	stk    stakingtypes.MsgServer
	dst    distrtypes.MsgServer
	denom  string
	bigbal *big.Int
}

func newEnv(t *testing.T) *env {
	c := NewChain(t, time.Time{})
	e := &env{c: c, denom: c.Denom()}
	w := c.S.WalletAccounts
	e.A = []common.Address{
		w.Number(1).GetEthAddress(), w.Number(2).GetEthAddress(),
		common.HexToAddress("0x1000000000000000000000000000000000000a01"), // fresh
		common.HexToAddress("0x1000000000000000000000000000000000000a02"), // fresh
		common.HexToAddress("0x1000000000000000000000000000000000000c01"), // contract-like, set up below
		common.HexToAddress("0x1000000000000000000000000000000000000c02"), // contract-like with balance
	}
	e.F = []common.Address{w.Number(3).GetEthAddress(), w.Number(4).GetEthAddress(), w.Number(5).GetEthAddress()}
	for i := 1; i <= 3; i++ {
		e.vals = append(e.vals, c.S.ValidatorAccounts.Number(i).GetValidatorAddress())
	}
	e.codes = [][]byte{{0x60, 0x00, 0x60, 0x00, 0xf3}, {0x00}, {0xfe, 0x01, 0x02}}
	e.stk = stakingkeeper.NewMsgServerImpl(c.App.StakingKeeper)
	e.dst = distrkeeper.NewMsgServerImpl(c.App.DistrKeeper)
	e.fwd = common.HexToAddress("0x1000000000000000000000000000000000000f01")

	ctx := c.Ctx()
	var err error
	e.erc20, err = c.App.CPCKeeper.DeployErc20CustomPrecompiledContract(ctx, "Wrapped Native",
		cpctypes.Erc20CustomPrecompiledContractMeta{Symbol: "WN", Decimals: 18, MinDenom: e.denom})
	require.NoError(t, err)
	if !c.App.CPCKeeper.HasCustomPrecompiledContract(ctx, cpctypes.CpcStakingFixedAddress) {
		_, err = c.App.CPCKeeper.DeployStakingCustomPrecompiledContract(ctx, cpctypes.StakingCustomPrecompiledContractMeta{Symbol: "STK", Decimals: 18})
		require.NoError(t, err)
	}
	// contract-like accounts and the forwarder, written through a StateDB that is committed
	sdb := evmvm.NewStateDB(ctx, common.Address{}, c.App.EvmKeeper, c.App.AccountKeeper, c.App.BankKeeper)
	sdb.SetCode(e.A[4], e.codes[0])
	sdb.SetState(e.A[4], common.BigToHash(Bi(1)), common.BigToHash(Bi(41)))
	sdb.SetState(e.A[4], common.BigToHash(Bi(2)), common.BigToHash(Bi(42)))
	sdb.SetNonce(e.A[4], 1)
	sdb.SetCode(e.A[5], e.codes[2])
	sdb.SetNonce(e.A[5], 1)
	sdb.AddBalance(e.A[5], big.NewInt(777_000))
	sdb.SetCode(e.fwd, BuildForwarder())
	sdb.SetNonce(e.fwd, 1)
	sdb.AddBalance(e.fwd, new(big.Int).Exp(Bi(10), Bi(18), nil))
	require.NoError(t, sdb.CommitMultiStore(false))
	// delegations so that undelegate / withdraw have something to act on, then blocks for rewards
	for i, f := range e.F {
		_, err := e.stk.Delegate(ctx, stakingtypes.NewMsgDelegate(sdk.AccAddress(f.Bytes()).String(), e.vals[i%len(e.vals)].String(),
			sdk.NewCoin(e.denom, sdkmath.NewInt(1_000_000_000_000))))
		require.NoError(t, err)
	}
	_, err = e.stk.Delegate(ctx, stakingtypes.NewMsgDelegate(sdk.AccAddress(e.fwd.Bytes()).String(), e.vals[0].String(),
		sdk.NewCoin(e.denom, sdkmath.NewInt(1_000_000_000))))
	require.NoError(t, err)
	for i := 0; i < 3; i++ {
		c.RunBlock(nil)
	}
	return e
}

// ---------------------------------------------------------------- dumps

func dumpView(c *Chain, ctx sdk.Context) map[string][]byte {
	out := map[string][]byte{}
	for n, k := range c.App.GetKVStoreKey() {
		it := ctx.MultiStore().GetKVStore(k).Iterator(nil, nil)
		for ; it.Valid(); it.Next() {
			out[n+"\x00"+string(it.Key())] = append([]byte{}, it.Value()...)
		}
		it.Close()
	}
	return out
}

// diffDump lists the keys whose value differs (sorted), cur relative to prev.
func diffDump(prev, cur map[string][]byte) []string {
	var ks []string
	for k, v := range cur {
		if pv, ok := prev[k]; !ok || !bytes.Equal(pv, v) {
			ks = append(ks, k)
		}
	}
	for k := range prev {
		if _, ok := cur[k]; !ok {
			ks = append(ks, k)
		}
	}
	sort.Strings(ks)
	return ks
}

// ---------------------------------------------------------------- one case

type caseRun struct {
	t    *testing.T
	e    *env
	r    *Rng
	side *Sidecar

	base sdk.Context
	sdb  evmvm.CStateDB

	keyIds   map[string]int
	keyOrder []string
	valIds   map[string]int
	evIds    map[string]int
	addrIds  map[common.Address]int
	logIds   map[string]int
	codeIds  map[string]int

	first    map[string][]byte // dump at NewStateDB time (base values)
	prev     map[string][]byte // last dump through the current context
	prevTop  int               // number of events in the current context's manager after the last step
	baseDig  string
	nextLog  int
	opaque   map[int]bool // snapshot ids created inside evm.Call frames (never targeted afterwards)
	snapRec  map[int][2]string
	steps    []string
	desc     []string
	feat     map[string]bool
	commited bool
	evm      *corevm.EVM // created at the first frame and re-used: the real code runs all frames of a message on ONE EVM
}

func (cr *caseRun) kid(k string) int {
	if id, ok := cr.keyIds[k]; ok {
		return id
	}
	id := len(cr.keyOrder)
	cr.keyIds[k] = id
	cr.keyOrder = append(cr.keyOrder, k)
	return id
}

func (cr *caseRun) vid(v []byte) int {
	s := string(v)
	if id, ok := cr.valIds[s]; ok {
		return id
	}
	id := len(cr.valIds) + 1
	cr.valIds[s] = id
	return id
}

func (cr *caseRun) aid(a common.Address) int {
	if id, ok := cr.addrIds[a]; ok {
		return id
	}
	id := 8 + len(cr.addrIds) - nA
	cr.addrIds[a] = id
	return id
}

func hashN(h common.Hash) string { return h.Big().String() }

// overlay term for the difference cur vs prev
func (cr *caseRun) ovTerm(prev, cur map[string][]byte) string {
	ks := diffDump(prev, cur)
	items := make([]string, 0, len(ks))
	for _, k := range ks {
		if v, ok := cur[k]; ok {
			items = append(items, fmt.Sprintf("(%d, Some %d)", 2*cr.kid(k)+1, cr.vid(v)))
		} else {
			items = append(items, fmt.Sprintf("(%d, None)", 2*cr.kid(k)+1))
		}
	}
	return CqList(items)
}

func evKey(ev sdk.Event) string {
	var sb strings.Builder
	sb.WriteString(ev.Type)
	for _, a := range ev.Attributes {
		sb.WriteString("|" + a.Key + "=" + a.Value)
	}
	return sb.String()
}

func (cr *caseRun) evTerm(evs sdk.Events) string {
	items := make([]string, len(evs))
	for i, ev := range evs {
		k := evKey(ev)
		id, ok := cr.evIds[k]
		if !ok {
			id = len(cr.evIds) + 1
			cr.evIds[k] = id
		}
		items[i] = fmt.Sprint(id)
	}
	return CqList(items)
}

func (cr *caseRun) logID(l *ethtypes.Log) int {
	var sb strings.Builder
	sb.WriteString(l.Address.Hex())
	for _, tp := range l.Topics {
		sb.WriteString(tp.Hex())
	}
	sb.WriteString(hex.EncodeToString(l.Data))
	k := sb.String()
	id, ok := cr.logIds[k]
	if !ok {
		id = len(cr.logIds) + 1
		cr.logIds[k] = id
	}
	return id
}

func (cr *caseRun) codeID(code []byte) int {
	if len(code) == 0 {
		return 0
	}
	id, ok := cr.codeIds[string(code)]
	if !ok {
		id = len(cr.codeIds) + 10
		cr.codeIds[string(code)] = id
	}
	return id
}

// sideTerm reads every revertible side component of the real StateDB; returns the Coq oside term and a
// canonical string (for the Go oracle).
func (cr *caseRun) sideTerm() (string, string) {
	ids := func(m evmvm.AccountTracker) []int {
		var out []int
		for a := range m {
			out = append(out, cr.aid(a))
		}
		sort.Ints(out)
		return out
	}
	touched := ids(cr.sdb.ForTest_CloneTouched())
	sd := ids(cr.sdb.ForTest_CloneSelfDestructed())
	var alA []int
	var alS [][2]string
	for a, slots := range cr.sdb.ForTest_CloneAccessList().CloneElements() {
		alA = append(alA, cr.aid(a))
		for s := range slots {
			alS = append(alS, [2]string{fmt.Sprint(cr.aid(a)), hashN(s)})
		}
	}
	sort.Ints(alA)
	sort.Slice(alS, func(i, j int) bool { return alS[i][0]+"/"+alS[i][1] < alS[j][0]+"/"+alS[j][1] })
	var logs []string
	for _, l := range cr.sdb.GetTransactionLogs() {
		logs = append(logs, fmt.Sprint(cr.logID(l)))
	}
	var ts []string
	for a := 0; a < nA; a++ {
		for k := 0; k < nTKeys; k++ {
			v := cr.sdb.GetTransientState(cr.e.A[a], common.BigToHash(Bi(int64(k))))
			if v != (common.Hash{}) {
				ts = append(ts, fmt.Sprintf("(%d, %d, %s)", a, k, hashN(v)))
			}
		}
	}
	is := func(l []int) string {
		s := make([]string, len(l))
		for i, x := range l {
			s[i] = fmt.Sprint(x)
		}
		return CqList(s)
	}
	sl := make([]string, len(alS))
	for i, p := range alS {
		sl[i] = fmt.Sprintf("(%s, %s)", p[0], p[1])
	}
	term := fmt.Sprintf("(mkOSide %s %d %s %s %s %s %s)", is(touched), cr.sdb.GetRefund(), is(sd), is(alA), CqList(sl), CqList(logs), CqList(ts))
	return term, term
}

type getterObs struct{ term, val string }

func (cr *caseRun) getter(kind, a, b int) getterObs {
	s := cr.sdb
	b2 := func(x bool) string {
		if x {
			return "1"
		}
		return "0"
	}
	switch kind {
	case 0:
		return getterObs{fmt.Sprintf("GState %d %d", a, b), hashN(s.GetState(cr.e.A[a], common.BigToHash(Bi(int64(b)))))}
	case 1:
		return getterObs{fmt.Sprintf("GNonce %d", a), fmt.Sprint(s.GetNonce(cr.e.A[a]))}
	case 2:
		code := s.GetCode(cr.e.A[a])
		if n := s.GetCodeSize(cr.e.A[a]); n != len(code) {
			cr.side.Hit("C03/statedb/getter/GetCodeSize!=len(GetCode)", "code size getter disagrees with code getter", cr.desc)
		}
		return getterObs{fmt.Sprintf("GCode %d", a), fmt.Sprint(cr.codeID(code))}
	case 3:
		return getterObs{fmt.Sprintf("GBal %d", a), s.GetBalance(cr.e.A[a]).String()}
	case 4:
		return getterObs{fmt.Sprintf("GExist %d", a), b2(s.Exist(cr.e.A[a]))}
	case 5:
		return getterObs{fmt.Sprintf("GSuicided %d", a), b2(s.HasSuicided(cr.e.A[a]))}
	case 6:
		return getterObs{"GRefund", fmt.Sprint(s.GetRefund())}
	case 7:
		return getterObs{fmt.Sprintf("GAlAddr %d", a), b2(s.AddressInAccessList(cr.e.A[a]))}
	case 8:
		x, y := s.SlotInAccessList(cr.e.A[a], common.BigToHash(Bi(int64(b))))
		v := 0
		if x {
			v += 2
		}
		if y {
			v++
		}
		return getterObs{fmt.Sprintf("GAlSlot %d %d", a, b), fmt.Sprint(v)}
	case 9:
		return getterObs{fmt.Sprintf("GTs %d %d", a, b%nTKeys), hashN(s.GetTransientState(cr.e.A[a], common.BigToHash(Bi(int64(b%nTKeys)))))}
	default:
		return getterObs{"GLogsLen", fmt.Sprint(len(s.GetTransactionLogs()))}
	}
}

func (cr *caseRun) depth() int { return len(cr.sdb.ForTest_GetSnapshots()) }

// observe finishes a step: mop is the macro op term WITHOUT its raw diff when rawInput is true (the raw
// diff is appended here), out the observed output term; extra getters may be requested.
func (cr *caseRun) observe(kind string, mopFmt string, out string, rawInput bool, related []getterObs, commitObs string) {
	ctx := cr.sdb.GetCurrentContext()
	cur := dumpView(cr.e.c, ctx)
	raw := cr.ovTerm(cr.prev, cur)
	changed := len(diffDump(cr.prev, cur))
	evs := ctx.EventManager().Events()
	newEv := "[]"
	if len(evs) >= cr.prevTop && rawInput {
		newEv = cr.evTerm(evs[cr.prevTop:])
	} else if rawInput {
		newEv = cr.evTerm(evs)
	}
	if !rawInput && len(evs) > cr.prevTop && kind != "Revert" && kind != "FrameFail" && kind != "Commit" {
		newEv = cr.evTerm(evs[cr.prevTop:])
	}
	topEv := cr.evTerm(evs)
	sideT, _ := cr.sideTerm()
	reads := append([]getterObs{}, related...)
	for i := 0; i < 2; i++ {
		reads = append(reads, cr.getter(cr.r.Intn(11), cr.r.Intn(nA), cr.r.Intn(nSlots)))
	}
	rs := make([]string, len(reads))
	for i, g := range reads {
		rs[i] = fmt.Sprintf("(%s, %s)", g.term, g.val)
	}
	mop := mopFmt
	if strings.Contains(mop, "%RAW%") {
		mop = strings.ReplaceAll(mop, "%RAW%", raw)
	}
	if commitObs == "" {
		commitObs = "None"
	}
	cr.steps = append(cr.steps, fmt.Sprintf("((%s), mkObs %s %s %s %s %d%%nat %s %s %s)", mop, out, raw, newEv, topEv, cr.depth(), sideT, CqList(rs), commitObs))
	cr.desc = append(cr.desc, kind)
	cr.side.Count("op:" + kind)
	if changed > 0 {
		cr.side.Count("steps_changing_store")
	}
	cr.prev = cur
	cr.prevTop = len(evs)

	// oracle: nothing reaches the original context before commit
	if !cr.commited {
		if d := cr.e.c.StoreDigest(cr.base); d != cr.baseDig {
			cr.side.Hit("C03/statedb/original-context-changed-before-commit/"+kind, "the context NewStateDB was given changed although CommitMultiStore was not called", cr.desc)
			cr.baseDig = d
		}
	}
}

// digestNow = digest of the whole multistore view through the current context + all side components + top events
func (cr *caseRun) digestNow() [2]string {
	_, s := cr.sideTerm()
	return [2]string{cr.e.c.StoreDigest(cr.sdb.GetCurrentContext()), s}
}

func (cr *caseRun) related(a int) []getterObs {
	return []getterObs{cr.getter(3, a, 0), cr.getter(1, a, 0), cr.getter(4, a, 0), cr.getter(2, a, 0), cr.getter(0, a, cr.r.Intn(nSlots))}
}

func (cr *caseRun) pickAmount(bal *big.Int) *big.Int {
	switch cr.r.Intn(6) {
	case 0:
		return Bi(0)
	case 1:
		return Bi(1)
	case 2:
		return new(big.Int).Set(bal)
	case 3:
		if bal.Sign() > 0 {
			return new(big.Int).Mod(cr.r.BigBits(70), bal)
		}
		return Bi(0)
	case 4:
		return Bi(1000)
	default:
		return cr.r.BigBits(40)
	}
}

func (cr *caseRun) step() {
	e, r, s := cr.e, cr.r, cr.sdb
	a := r.Intn(nA)
	A := e.A[a]
	ctx := s.GetCurrentContext()
	switch k := r.Intn(100); {
	case k < 8: // SetState
		sl, v := r.Intn(nSlots), int64(r.Intn(6))
		if r.Chance(30) {
			v = int64(r.U64() >> 20)
		}
		s.SetState(A, common.BigToHash(Bi(int64(sl))), common.BigToHash(Bi(v)))
		cr.observe("SetState", fmt.Sprintf("MSetState %d %d %d %%RAW%%", a, sl, v), "MoOk", true, cr.related(a), "")
	case k < 12: // SetNonce
		n := uint64(r.Intn(5))
		if r.Chance(20) {
			n = r.U64() >> 10
		}
		s.SetNonce(A, n)
		cr.observe("SetNonce", fmt.Sprintf("MSetNonce %d %d %%RAW%%", a, n), "MoOk", true, cr.related(a), "")
	case k < 16: // SetCode
		ci := r.Intn(len(e.codes) + 1)
		var code []byte
		if ci < len(e.codes) {
			code = e.codes[ci]
		}
		s.SetCode(A, code)
		cr.observe("SetCode", fmt.Sprintf("MSetCode %d %d %%RAW%%", a, cr.codeID(code)), "MoOk", true, cr.related(a), "")
	case k < 23: // AddBalance
		x := cr.pickAmount(s.GetBalance(A))
		s.AddBalance(A, x)
		cr.observe("AddBalance", fmt.Sprintf("MAddBalance %d %s %%RAW%%", a, x), "MoOk", true, cr.related(a), "")
	case k < 29: // SubBalance
		bal := s.GetBalance(A)
		x := cr.pickAmount(bal)
		if x.Cmp(bal) > 0 && !r.Chance(25) {
			x = new(big.Int).Set(bal)
		}
		p := CatchPanic(func() { s.SubBalance(A, x) })
		out := "MoOk"
		if p != nil {
			out = "MoPanic"
			cr.feat["panic"] = true
		}
		cr.observe("SubBalance", fmt.Sprintf("MSubBalance %d %s %%RAW%%", a, x), out, p == nil, cr.related(a), "")
	case k < 32: // Suicide
		ret := s.Suicide(A)
		cr.observe("Suicide", fmt.Sprintf("MSuicide %d %%RAW%%", a), "(MoBool "+CqBool(ret)+")", ret, cr.related(a), "")
	case k < 34: // CreateAccount
		s.CreateAccount(A)
		cr.observe("CreateAccount", fmt.Sprintf("MCreateAccount %d %%RAW%%", a), "MoOk", true, cr.related(a), "")
	case k < 35: // DestroyAccount
		s.DestroyAccount(A)
		cr.observe("DestroyAccount", fmt.Sprintf("MDestroy %d %%RAW%%", a), "MoOk", true, cr.related(a), "")
	case k < 39: // AddRefund
		g := []uint64{0, 1, 100, 4800, 1 << 63, ^uint64(0)}[r.Intn(6)]
		p := CatchPanic(func() { s.AddRefund(g) })
		out := "MoOk"
		if p != nil {
			out = "MoPanic"
			cr.feat["panic"] = true
		}
		cr.observe("AddRefund", fmt.Sprintf("MSide (AddRefund %d)", g), out, false, []getterObs{cr.getter(6, 0, 0)}, "")
	case k < 42: // SubRefund
		cur := s.GetRefund()
		g := []uint64{0, 1, cur, cur + 1, cur / 2}[r.Intn(5)]
		p := CatchPanic(func() { s.SubRefund(g) })
		out := "MoOk"
		if p != nil {
			out = "MoPanic"
			cr.feat["panic"] = true
		}
		cr.observe("SubRefund", fmt.Sprintf("MSide (SubRefund %d)", g), out, false, []getterObs{cr.getter(6, 0, 0)}, "")
	case k < 45: // AddLog
		cr.doAddLog(a)
	case k < 48:
		s.AddAddressToAccessList(A)
		cr.observe("AddAddressToAccessList", fmt.Sprintf("MSide (AlAddAddr %d)", a), "MoOk", false, []getterObs{cr.getter(7, a, 0)}, "")
	case k < 51:
		cr.doAddSlot(a, r.Intn(nSlots))
	case k < 55:
		cr.doTsSet(a, r.Intn(nTKeys), r.Intn(4))
	case k < 64: // Snapshot
		cr.doSnapshot()
	case k < 67: // copy-versus-alias gadget on one side component
		cr.gadget()
	case k < 79: // RevertToSnapshot
		cr.revert()
	case k < 83: // bank send inside the logical universe
		b := r.Intn(nA)
		bal := s.GetBalance(A)
		if b == a || bal.Sign() == 0 {
			cr.observe("Nop", "MNop", "MoOk", false, nil, "")
			return
		}
		x := new(big.Int).Add(new(big.Int).Mod(r.BigBits(70), bal), Bi(1))
		if x.Cmp(bal) > 0 {
			x = bal
		}
		err := e.c.App.BankKeeper.SendCoins(ctx, A.Bytes(), e.A[b].Bytes(), sdk.NewCoins(sdk.NewCoin(e.denom, sdkmath.NewIntFromBigInt(x))))
		if err != nil {
			cr.observe("BankSendErr", "MForeign %RAW%", "MoOk", true, nil, "")
			return
		}
		cr.feat["foreign"] = true
		cr.observe("BankSend", fmt.Sprintf("MBankSend %d %d %s %%RAW%%", a, b, x), "MoOk", true, append(cr.related(a), cr.related(b)...), "")
	case k < 90:
		cr.foreign()
	default:
		cr.frame()
	}
}

func (cr *caseRun) doAddLog(a int) {
	cr.nextLog++
	l := &ethtypes.Log{Address: cr.e.A[a], Data: big.NewInt(int64(cr.nextLog)).Bytes()}
	id := cr.logID(l)
	cr.sdb.AddLog(l)
	cr.observe("AddLog", fmt.Sprintf("MSide (AddLog %d)", id), "MoOk", false, []getterObs{cr.getter(10, 0, 0)}, "")
}

func (cr *caseRun) doAddSlot(a, sl int) {
	cr.sdb.AddSlotToAccessList(cr.e.A[a], common.BigToHash(Bi(int64(sl))))
	cr.observe("AddSlotToAccessList", fmt.Sprintf("MSide (AlAddSlot %d %d)", a, sl), "MoOk", false, []getterObs{cr.getter(8, a, sl), cr.getter(7, a, 0)}, "")
}

func (cr *caseRun) doTsSet(a, tk, v int) {
	cr.sdb.SetTransientState(cr.e.A[a], common.BigToHash(Bi(int64(tk))), common.BigToHash(Bi(int64(v))))
	cr.observe("SetTransientState", fmt.Sprintf("MSide (TsSet %d %d %d)", a, tk, v), "MoOk", false, []getterObs{cr.getter(9, a, tk)}, "")
}

// doSnapshot returns the new id, or -1 when the depth cap is reached (a Nop step is recorded instead).
func (cr *caseRun) doSnapshot() int {
	if cr.depth() > 12 {
		cr.observe("Nop", "MNop", "MoOk", false, nil, "")
		return -1
	}
	id := cr.sdb.Snapshot()
	cr.snapRec[id] = cr.digestNow()
	delete(cr.opaque, id)
	cr.feat["snapshot"] = true
	cr.observe("Snapshot", "MSnapshot", fmt.Sprintf("(MoId (%d)%%Z)", id), false, nil, "")
	return id
}

// gadget: the pattern on which a shared (not copied) container inside a snapshot shows: the address already has an
// entry in the component, a frame adds a further entry for the SAME address (nested once more sometimes), the frame is
// reverted, the entry is re-queried (every step reads all side components) and sometimes added again.
func (cr *caseRun) gadget() {
	r := cr.r
	a := r.Intn(nA)
	kind := r.Intn(4)
	name := []string{"access-list-slot", "transient-storage", "logs", "touched+suicided"}[kind]
	x := r.Intn(12)
	put := func(i int) {
		switch kind {
		case 0:
			cr.doAddSlot(a, (x+i)%nSlots)
		case 1:
			cr.doTsSet(a, (x+i)%nTKeys, 1+r.Intn(3))
		case 2:
			cr.doAddLog(a)
		default:
			b := (a + i) % nA
			if i%2 == 0 {
				cr.sdb.AddBalance(cr.e.A[b], Bi(0))
				cr.observe("AddBalance", fmt.Sprintf("MAddBalance %d 0 %%RAW%%", b), "MoOk", true, cr.related(b), "")
			} else {
				ret := cr.sdb.Suicide(cr.e.A[b])
				cr.observe("Suicide", fmt.Sprintf("MSuicide %d %%RAW%%", b), "(MoBool "+CqBool(ret)+")", ret, cr.related(b), "")
			}
		}
	}
	put(0)
	id := cr.doSnapshot()
	if id < 0 {
		return
	}
	put(1)
	if r.Chance(40) {
		if id2 := cr.doSnapshot(); id2 >= 0 {
			put(2)
			if r.Chance(50) {
				cr.revertTo(id2, true)
				put(2)
			}
		}
	}
	cr.revertTo(id, true)
	if r.Chance(50) {
		put(1)
	}
	cr.side.Count("gadget:" + name)
}

func (cr *caseRun) revert() {
	s, r := cr.sdb, cr.r
	d := cr.depth()
	var id int
	valid := true
	switch {
	case r.Chance(8):
		id = []int{-1, -2, d - 1, d, d + 3}[r.Intn(5)]
		valid = false
	case d <= 1:
		id = 0
		valid = false
	default:
		// live ids are 0 .. d-2; prefer recent ones
		id = d - 2 - r.Intn(minInt(d-1, 1+r.Intn(4)))
		for tries := 0; cr.opaque[id] && tries < 8; tries++ {
			id = r.Intn(d - 1)
		}
		if cr.opaque[id] {
			cr.observe("Nop", "MNop", "MoOk", false, nil, "")
			return
		}
	}
	_ = s
	cr.revertTo(id, valid)
}

func (cr *caseRun) revertTo(id int, valid bool) {
	s := cr.sdb
	d := cr.depth()
	before := cr.digestNow()
	p := CatchPanic(func() { s.RevertToSnapshot(id) })
	after := cr.digestNow()
	out := "MoOk"
	if p != nil {
		out = "MoPanic"
		cr.feat["panic"] = true
		if valid {
			cr.side.Hit("C03/statedb/RevertToSnapshot/panic-on-live-id", fmt.Sprintf("RevertToSnapshot(%d) panicked with depth %d: %v", id, d, p), cr.desc)
		}
		if after != before {
			cr.side.Hit("C03/statedb/RevertToSnapshot/panic-changed-state", "a panicking RevertToSnapshot changed state", cr.desc)
		}
	} else {
		if !valid {
			cr.side.Hit("C03/statedb/RevertToSnapshot/accepted-dead-id", fmt.Sprintf("RevertToSnapshot(%d) accepted with depth %d", id, d), cr.desc)
		} else {
			rec := cr.snapRec[id]
			if after[0] != rec[0] {
				cr.side.Hit("C03/statedb/RevertToSnapshot/store-differs-from-snapshot-time", fmt.Sprintf("after RevertToSnapshot(%d) the multistore view differs from the one recorded at Snapshot()=%d", id, id), cr.desc)
			}
			if after[1] != rec[1] {
				cr.side.Hit("C03/statedb/RevertToSnapshot/side-state-differs-from-snapshot-time", fmt.Sprintf("after RevertToSnapshot(%d): side %s, at snapshot %s", id, after[1], rec[1]), cr.desc)
			}
			if n := len(s.GetCurrentContext().EventManager().Events()); n != 0 {
				cr.side.Hit("C03/statedb/RevertToSnapshot/events-survive", "events of the reverted frame are still in the current context", cr.desc)
			}
			if before != after {
				cr.feat["revert_undid"] = true
			}
			cr.feat["revert"] = true
			// ids above the target are dead now
			for k := range cr.snapRec {
				if k > id {
					delete(cr.snapRec, k)
				}
			}
		}
	}
	if p == nil {
		cr.prevTop = 0
	}
	cr.observe("Revert", fmt.Sprintf("MRevert (%d)%%Z", id), out, false, nil, "")
}

func minInt(a, b int) int {
	if a < b {
		return a
	}
	return b
}

// foreign: writes of other modules through the current context, with the real keepers / message servers
func (cr *caseRun) foreign() {
	e, r := cr.e, cr.r
	ctx := cr.sdb.GetCurrentContext()
	f := e.F[r.Intn(len(e.F))]
	g := e.F[r.Intn(len(e.F))]
	v := e.vals[r.Intn(len(e.vals))]
	del := sdk.AccAddress(f.Bytes())
	kind := ""
	var err error
	switch r.Intn(6) {
	case 0:
		kind = "F:BankSend"
		amt := int64(1 + r.Intn(1_000_000))
		err = e.c.App.BankKeeper.SendCoins(ctx, del, g.Bytes(), sdk.NewCoins(sdk.NewCoin(e.denom, sdkmath.NewInt(amt))))
	case 1:
		kind = "F:Allowance"
		amt := []*big.Int{Bi(0), Bi(1), Bi(500), Bsub(Pow2(256), 1), r.BigBits(60)}[r.Intn(5)]
		e.c.App.CPCKeeper.SetErc20CpcAllowance(ctx, f, g, amt)
	case 2:
		kind = "F:Delegate"
		_, err = e.stk.Delegate(ctx, stakingtypes.NewMsgDelegate(del.String(), v.String(), sdk.NewCoin(e.denom, sdkmath.NewInt(int64(1+r.Intn(5_000_000))))))
	case 3:
		kind = "F:Undelegate"
		_, err = e.stk.Undelegate(ctx, stakingtypes.NewMsgUndelegate(del.String(), v.String(), sdk.NewCoin(e.denom, sdkmath.NewInt(int64(1+r.Intn(1_000_000))))))
	case 4:
		kind = "F:WithdrawReward"
		_, err = e.dst.WithdrawDelegatorReward(ctx, distrtypes.NewMsgWithdrawDelegatorReward(del.String(), v.String()))
	default:
		kind = "F:Redelegate"
		w := e.vals[r.Intn(len(e.vals))]
		_, err = e.stk.BeginRedelegate(ctx, stakingtypes.NewMsgBeginRedelegate(del.String(), v.String(), w.String(), sdk.NewCoin(e.denom, sdkmath.NewInt(int64(1+r.Intn(100_000))))))
	}
	if err != nil {
		kind += ":err"
	} else {
		cr.feat["foreign"] = true
	}
	cr.observe(kind, "MForeign %RAW%", "MoOk", true, nil, "")
}

// frame: a real evm.Call into a stateful precompile, directly or through the forwarder contract (which
// performs the call and then returns, reverts or hits INVALID), possibly nested forwarder -> forwarder.
func (cr *caseRun) frame() {
	e, r, s := cr.e, cr.r, cr.sdb
	caller := e.F[r.Intn(len(e.F))]
	other := e.F[r.Intn(len(e.F))]
	var payload []byte
	target := e.erc20
	pk := ""
	amt := Bi(0)
	val := e.vals[r.Intn(len(e.vals))]
	switch r.Intn(4) {
	case 0:
		pk = "transfer"
		amt = Bi(int64(1 + r.Intn(1000)))
		payload = append([]byte{0xa9, 0x05, 0x9c, 0xbb}, append(common.LeftPadBytes(other.Bytes(), 32), common.LeftPadBytes(amt.Bytes(), 32)...)...)
	case 1:
		pk = "approve"
		amt = Bi(int64(r.Intn(1000)))
		payload = append([]byte{0x09, 0x5e, 0xa7, 0xb3}, append(common.LeftPadBytes(other.Bytes(), 32), common.LeftPadBytes(amt.Bytes(), 32)...)...)
	case 2:
		pk = "delegate"
		target = cpctypes.CpcStakingFixedAddress
		amt = Bi(int64(1 + r.Intn(100000)))
		payload = append([]byte{0x02, 0x6e, 0x40, 0x2b}, append(common.LeftPadBytes(val.Bytes(), 32), common.LeftPadBytes(amt.Bytes(), 32)...)...)
	default:
		pk = "transfer-too-much"
		payload = append([]byte{0xa9, 0x05, 0x9c, 0xbb}, append(common.LeftPadBytes(other.Bytes(), 32), common.LeftPadBytes(Pow2(200).Bytes(), 32)...)...)
	}
	to := target
	input := payload
	shape := "direct"
	actor := caller // who the precompile sees as msg.sender
	switch r.Intn(5) {
	case 0, 1:
	case 2:
		shape = "fwd-return"
		to, input = e.fwd, FwdInput(FwdReturn, target, payload)
	case 3:
		shape = []string{"fwd-revert", "fwd-invalid"}[r.Intn(2)]
		mode := FwdRevert
		if shape == "fwd-invalid" {
			mode = FwdInvalid
		}
		to, input = e.fwd, FwdInput(mode, target, payload)
	default:
		// outer forwarder returns normally, inner forwarder frame reverts after the precompile call
		shape = "fwd(fwd-revert)-return"
		to, input = e.fwd, FwdInput(FwdReturn, e.fwd, FwdInput(FwdRevert, target, payload))
	}
	if shape != "direct" {
		actor = e.fwd
	}
	// what PrepareAccessList does for a transaction's destination (SSTORE gas accounting needs it)
	if to == e.fwd && !s.AddressInAccessList(e.fwd) {
		s.AddAddressToAccessList(e.fwd)
		cr.observe("AddAddressToAccessList", fmt.Sprintf("MSide (AlAddAddr %d)", cr.aid(e.fwd)), "MoOk", false, nil, "")
	}
	if cr.evm == nil {
		cfg, err := e.c.App.EvmKeeper.EVMConfig(cr.base, nil)
		require.NoError(cr.t, err)
		msg := ethtypes.NewMessage(caller, &to, 0, Bi(0), 2_000_000, Bi(0), Bi(0), Bi(0), input, nil, true)
		cr.evm = e.c.App.EvmKeeper.NewEVM(cr.base, msg, cfg, evmtypes.NewNoOpTracer(), s)
	} else {
		cr.side.Count("frame-on-reused-evm")
	}
	evm := cr.evm
	// the three quantities a precompile call of this driver can change, read through the current context
	probe := func() [3]string {
		ctx := s.GetCurrentContext()
		out := [3]string{e.c.EvmBal(ctx, other).String(), e.c.App.CPCKeeper.GetErc20CpcAllowance(ctx, actor, other).String(), "0"}
		if d, err := e.c.App.StakingKeeper.GetDelegation(ctx, sdk.AccAddress(actor.Bytes()), val); err == nil {
			out[2] = d.Shares.TruncateInt().String()
		}
		return out
	}
	p0 := probe()
	d0 := cr.depth()
	before := cr.digestNow()
	var callErr error
	var ret []byte
	p := CatchPanic(func() { ret, _, callErr = evm.Call(corevm.AccountRef(caller), to, input, 2_000_000, Bi(0)) })
	require.Nil(cr.t, p, "evm.Call panicked: %v", p)
	d1 := cr.depth()
	for id := d0 - 1; id <= d1-2; id++ {
		if id > d0-1 {
			cr.opaque[id] = true
		} else {
			delete(cr.opaque, id)
		}
	}
	kind := "Frame:" + pk + ":" + shape
	if callErr != nil {
		after := cr.digestNow()
		if after != before {
			sig := "C03/statedb/evm.Call/failed-frame-left-a-trace/" + pk + "/" + shape
			cr.side.Hit(sig, fmt.Sprintf("evm.Call failed (%v) but store or side state differs from before the call", callErr), cr.desc)
		}
		if n := len(s.GetCurrentContext().EventManager().Events()); n != 0 {
			cr.side.Hit("C03/statedb/evm.Call/events-survive/"+pk+"/"+shape, "events of the failed frame are still in the current context", cr.desc)
		}
		cr.snapRec[d0-1] = before
		cr.prevTop = 0
		cr.feat["frame_fail"] = true
		cr.observe(kind+":fail", fmt.Sprintf("MFrame false %d%%nat [] side0", 0), "(MoBool false)", false, nil, "")
		return
	}
	// success of the outermost frame.  What the precompile call inside must have left, by the property text: its effect
	// when the call succeeded in frames that all completed, nothing when the frame around it reverted.
	p1 := probe()
	innerOK := shape == "direct" || (shape == "fwd-return" && len(ret) == 32 && ret[31] == 1)
	exp := p0
	if innerOK {
		add := func(x string, d *big.Int) string { v, _ := new(big.Int).SetString(x, 10); return v.Add(v, d).String() }
		switch pk {
		case "transfer":
			if actor != other {
				exp[0] = add(p0[0], amt)
			}
		case "approve":
			exp[1] = amt.String()
		case "delegate":
			exp[2] = add(p0[2], amt)
			if actor == other {
				exp[0] = p1[0] // the delegator's own balance pays (and receives pending rewards): not part of this check
			}
		}
		cr.side.Count("frame-effect-expected:" + pk)
	} else {
		cr.side.Count("frame-no-effect-expected:" + pk)
	}
	if p1 != exp {
		what := "effects-of-successful-frames-lost"
		if !innerOK {
			what = "reverted-inner-frame-left-a-trace"
		}
		cr.side.Hit("C03/statedb/evm.Call/"+what+"/"+pk+"/"+shape,
			fmt.Sprintf("recipient balance / allowance / delegation shares through the current context: before %v, after %v, the property implies %v", p0, p1, exp), cr.desc)
	}
	// the frame's own snapshot stays revertible; record what it must restore
	cr.snapRec[d0-1] = before
	cr.feat["frame_ok"] = true
	cr.prevTop = 0
	sideT, _ := cr.sideTerm()
	cr.observe(kind+":ok", fmt.Sprintf("MFrame true %d%%nat %%RAW%% (side_of %s)", d1-d0-1, sideT), "(MoBool true)", true, nil, "")
}

func (cr *caseRun) finish() {
	e, s := cr.e, cr.sdb
	if !cr.r.Chance(65) {
		// discard: the original context must be exactly as it was
		if d := e.c.StoreDigest(cr.base); d != cr.baseDig {
			cr.side.Hit("C03/statedb/discard/original-context-changed", "discarded StateDB changed the original context", cr.desc)
		}
		if n := len(cr.base.EventManager().Events()); n != 0 {
			cr.side.Hit("C03/statedb/discard/events-leaked", "discarded StateDB emitted events into the original context", cr.desc)
		}
		cr.feat["discard"] = true
		cr.side.Count("end:discard")
		return
	}
	deleteEmpty := cr.r.Chance(70)
	// expected effect of the destroy loop, computed on a scratch branch with a second StateDB (never committed)
	cc, _ := s.GetCurrentContext().CacheContext()
	sdb2 := evmvm.NewStateDB(cc, common.Address{}, e.c.App.EvmKeeper, e.c.App.AccountKeeper, e.c.App.BankKeeper)
	touched := s.ForTest_CloneTouched()
	sdset := s.ForTest_CloneSelfDestructed()
	var addrs []common.Address
	for a := range touched {
		addrs = append(addrs, a)
	}
	sort.Slice(addrs, func(i, j int) bool { return bytes.Compare(addrs[i].Bytes(), addrs[j].Bytes()) < 0 })
	var destroyed []string
	pd := CatchPanic(func() {
		for _, a := range addrs {
			if sdset.Has(a) || (deleteEmpty && sdb2.Empty(a)) {
				sdb2.DestroyAccount(a)
				if id := cr.aid(a); id < nA {
					destroyed = append(destroyed, fmt.Sprint(id))
				}
			}
		}
	})
	if pd != nil {
		cr.side.Count("end:destroy-would-panic")
		return
	}
	expDump := dumpView(e.c, sdb2.GetCurrentContext())
	expDigest := e.c.StoreDigest(sdb2.GetCurrentContext())
	destroyRaw := cr.ovTerm(cr.prev, expDump)
	destroyEv := cr.evTerm(sdb2.GetCurrentContext().EventManager().Events())
	lastView := cr.prev
	lastDigest := e.c.StoreDigest(s.GetCurrentContext())

	var cerr error
	p := CatchPanic(func() { cerr = s.CommitMultiStore(deleteEmpty) })
	if p != nil || cerr != nil {
		cr.side.Hit("C03/statedb/CommitMultiStore/failed", fmt.Sprintf("CommitMultiStore failed: %v %v", p, cerr), cr.desc)
		return
	}
	cr.commited = true
	got := e.c.StoreDigest(cr.base)
	if got != expDigest {
		sig := "C03/statedb/CommitMultiStore/committed-store-differs-from-last-view"
		if len(destroyed) > 0 || expDigest != lastDigest {
			sig += "+destroy"
		}
		cr.side.Hit(sig, "the store of the original context after CommitMultiStore is not the last current view (with the destroy loop applied)", cr.desc)
	}
	if d := e.c.StoreDigest(s.GetCurrentContext()); d != got {
		cr.side.Hit("C03/statedb/CommitMultiStore/current-view-differs-from-committed", "after commit the current context reads something else than the committed store", cr.desc)
	}
	committed := dumpView(e.c, cr.base)
	cd := cr.ovTerm(lastView, committed)
	cev := cr.evTerm(cr.base.EventManager().Events())
	cr.feat["commit"] = true
	if len(destroyed) > 0 {
		cr.feat["destroy"] = true
	}
	cr.side.Count("end:commit")
	cr.prevTop = len(s.GetCurrentContext().EventManager().Events())
	cr.observe("Commit", fmt.Sprintf("MCommit %s %s %s", CqList(destroyed), destroyRaw, destroyEv), "MoOk", false, cr.related(cr.r.Intn(nA)),
		fmt.Sprintf("(Some (%s, %s))", cd, cev))
	// second commit must panic and change nothing
	p2 := CatchPanic(func() { _ = s.CommitMultiStore(deleteEmpty) })
	if p2 == nil {
		cr.side.Hit("C03/statedb/CommitMultiStore/second-commit-accepted", "CommitMultiStore can be called twice", cr.desc)
	}
	cr.observe("Commit2", "MCommit [] [] []", "MoPanic", false, nil, "")
}

func runCase(t *testing.T, e *env, idx int, r *Rng, side *Sidecar, cases *CasesFile, maxLen int) {
	base, _ := e.c.Ctx().CacheContext()
	cr := &caseRun{t: t, e: e, r: r, side: side, base: base,
		keyIds: map[string]int{}, valIds: map[string]int{}, evIds: map[string]int{}, addrIds: map[common.Address]int{},
		logIds: map[string]int{}, codeIds: map[string]int{}, opaque: map[int]bool{}, snapRec: map[int][2]string{}, feat: map[string]bool{}}
	for i, a := range e.A {
		cr.addrIds[a] = i
	}
	for i, code := range e.codes {
		cr.codeIds[string(code)] = 10 + i
	}
	cr.sdb = evmvm.NewStateDB(base, common.Address{}, e.c.App.EvmKeeper, e.c.App.AccountKeeper, e.c.App.BankKeeper)
	cr.first = dumpView(e.c, cr.sdb.GetCurrentContext())
	cr.prev = cr.first
	cr.baseDig = e.c.StoreDigest(base)
	if d := e.c.StoreDigest(cr.sdb.GetCurrentContext()); d != cr.baseDig {
		side.Hit("C03/statedb/NewStateDB/view-differs-from-original", "fresh StateDB reads something else than its original context", nil)
	}
	// logical base values
	var baseItems []string
	for a := 0; a < nA; a++ {
		s := cr.sdb
		if s.Exist(e.A[a]) {
			baseItems = append(baseItems, fmt.Sprintf("(kAcct %d, Some 1)", a))
		}
		if n := s.GetNonce(e.A[a]); n != 0 {
			baseItems = append(baseItems, fmt.Sprintf("(kNonce %d, Some %d)", a, n))
		}
		if c := s.GetCode(e.A[a]); len(c) != 0 {
			baseItems = append(baseItems, fmt.Sprintf("(kCode %d, Some %d)", a, cr.codeID(c)))
		}
		if b := s.GetBalance(e.A[a]); b.Sign() != 0 {
			baseItems = append(baseItems, fmt.Sprintf("(kBal %d, Some %s)", a, b))
		}
		for sl := 0; sl < nSlots; sl++ {
			if v := s.GetState(e.A[a], common.BigToHash(Bi(int64(sl)))); v != (common.Hash{}) {
				baseItems = append(baseItems, fmt.Sprintf("(kSt %d %d, Some %s)", a, sl, hashN(v)))
			}
		}
	}
	n := 8 + r.Intn(maxLen-7)
	for i := 0; i < n; i++ {
		cr.step()
	}
	cr.finish()
	// base values of every raw key the case touched
	for _, k := range cr.keyOrder {
		if v, ok := cr.first[k]; ok {
			baseItems = append(baseItems, fmt.Sprintf("(%d, Some %d)", 2*cr.keyIds[k]+1, cr.vid(v)))
		}
	}
	cases.Add(fmt.Sprintf("(mkCase %s\n   %s)%%N", CqList(baseItems), CqList(cr.steps)))
	h := sha256.Sum256([]byte(strings.Join(cr.steps, "\n")))
	nontrivial := cr.feat["revert_undid"] && cr.feat["snapshot"] && (cr.feat["foreign"] || cr.feat["frame_ok"] || cr.feat["frame_fail"])
	for f := range cr.feat {
		side.Count("case_has:" + f)
	}
	side.Case(idx, hex.EncodeToString(h[:8]), nontrivial, map[string]interface{}{"index": idx, "ops": cr.desc})
}

func TestDriverStatedb(t *testing.T) {
	dir := OutDir(t)
	seed := EnvSeed()
	n := EnvInt("VERIF_N", 120)
	maxLen := 60
	if Thorough() || n > 1000 {
		maxLen = 300
	}
	side := NewSidecar("statedb", seed,
		"case = random op sequence (8..60 ops quick, ..300 thorough; depth <= 13) on the real CStateDB: StateDB interface ops, foreign-module writes through GetCurrentContext() "+
			"(bank, cpc allowance, staking delegate/undelegate/redelegate, distribution withdraw), real evm.Call frames into ERC-20 / staking precompiles directly and through a forwarder "+
			"contract that returns / REVERTs / hits INVALID (all frames of a case on ONE EVM instance, the precompile's effect checked against its arguments), copy-versus-alias gadgets "+
			"(entry present, snapshot, further entry for the same address, revert, re-add) on access-list slots / transient storage / logs / touched+suicided, nested Snapshot / RevertToSnapshot, "+
			"then CommitMultiStore or discard; every step compared with Model/CacheStack.v. "+
			"non-trivial = distinct sequence containing a snapshot, a revert that really undid something and at least one foreign-module write or precompile frame. "+
			"Plus (cases 1000000+) random call trees as real transactions: frames on three interpreter hosts calling ERC-20 / staking precompile methods repeatedly (one favourite method per tree), "+
			"SSTORE / LOG / CREATE / value / touch / SELFDESTRUCT / warmth probes, frames ending by RETURN / REVERT / INVALID / out of gas, compared with the survivors-only twin and a Go ledger; "+
			"non-trivial = tree with a leaf in a failing frame and (a kept successful leaf or a failing top frame)")
	cases := NewCases(dir, "From Evm Require Import CacheStack CorrCacheStack.", "sdb_mismatches")
	rng := NewRng(seed)
	e := newEnv(t)
	for i := 0; i < n; i++ {
		runCase(t, e, i, rng.Fork(uint64(i)), side, cases, maxLen)
	}
	runE2E(t, side, rng.Fork(1<<40))
	nt := EnvInt("VERIF_TREES", 0)
	if nt == 0 {
		nt = 40 + n/3
		if nt > 600 {
			nt = 600
		}
	}
	runTrees(t, side, rng.Fork(1<<41), nt)
	cases.Write(t, 10)
	side.Write(t, dir)
}
