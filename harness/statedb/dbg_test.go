package statedb

import (
	"fmt"
	"testing"

	"github.com/ethereum/go-ethereum/common"
	ethtypes "github.com/ethereum/go-ethereum/core/types"
	corevm "github.com/ethereum/go-ethereum/core/vm"

	cpctypes "github.com/EscanBE/evermint/v12/x/cpc/types"
	evmtypes "github.com/EscanBE/evermint/v12/x/evm/types"
	evmvm "github.com/EscanBE/evermint/v12/x/evm/vm"

	. "verifharness/hx"
)

func TestDbg(t *testing.T) {
	e := newEnv(t)
	base := e.c.QueryCtx()
	s := evmvm.NewStateDB(base, common.Address{}, e.c.App.EvmKeeper, e.c.App.AccountKeeper, e.c.App.BankKeeper)
	to := cpctypes.CpcStakingFixedAddress
	input := abiCall(selDelegate, common.BytesToAddress(e.vals[0].Bytes()), Bi(2_000_000))
	cfg, _ := e.c.App.EvmKeeper.EVMConfig(base, nil)
	msg := ethtypes.NewMessage(e.fwd, &to, 0, Bi(0), 2_000_000, Bi(0), Bi(0), Bi(0), input, nil, true)
	evm := e.c.App.EvmKeeper.NewEVM(base, msg, cfg, evmtypes.NewNoOpTracer(), s)
	ret, left, err := evm.Call(corevm.AccountRef(e.fwd), to, input, 2_000_000, Bi(0))
	fmt.Println("direct from fwd:", ret, left, err)
	s.AddAddressToAccessList(e.fwd)
	in2 := FwdInput(FwdReturn, to, input)
	ret, left, err = evm.Call(corevm.AccountRef(e.F[0]), e.fwd, in2, 2_000_000, Bi(0))
	fmt.Println("via fwd:", ret, left, err)
}
