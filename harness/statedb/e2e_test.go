package statedb

// End-to-end half of the `statedb` driver: real Ethereum transactions, delivered in real blocks, whose
// inner call frames REVERT / hit INVALID after calling stateful precompiles (ERC-20 transfer / approve,
// staking delegate), and transactions whose top-level frame fails.  Oracle from the property text:
//   * a reverted inner frame leaves nothing: bank balances, allowance, delegation, contract storage,
//     logs of that frame are as before, while the surrounding successful frame's effects are kept;
//   * the same frame completing normally DOES leave its effects (positive control);
//   * when the whole transaction ends with a VM error, the only store keys that change beyond what an
//     empty block changes belong to the sender's account / balance and the fee bookkeeping.

import (
	"bytes"
	"fmt"
	"math/big"
	"testing"
	"time"

	sdkmath "cosmossdk.io/math"
	sdk "github.com/cosmos/cosmos-sdk/types"
	authtypes "github.com/cosmos/cosmos-sdk/x/auth/types"
	"github.com/ethereum/go-ethereum/common"
	ethtypes "github.com/ethereum/go-ethereum/core/types"
	"github.com/stretchr/testify/require"

	cpctypes "github.com/EscanBE/evermint/v12/x/cpc/types"
	evmtypes "github.com/EscanBE/evermint/v12/x/evm/types"
	evmvm "github.com/EscanBE/evermint/v12/x/evm/vm"

	. "verifharness/hx"
)

type e2e struct {
	t     *testing.T
	c     *Chain
	side  *Sidecar
	fwd   common.Address
	erc20 common.Address
	val   sdk.ValAddress
	rcpt  common.Address
}

func abiCall(sel []byte, a common.Address, amt *big.Int) []byte {
	return append(append([]byte{}, sel...), append(common.LeftPadBytes(a.Bytes(), 32), common.LeftPadBytes(amt.Bytes(), 32)...)...)
}

var (
	selTransfer = []byte{0xa9, 0x05, 0x9c, 0xbb}
	selApprove  = []byte{0x09, 0x5e, 0xa7, 0xb3}
	selDelegate = []byte{0x02, 0x6e, 0x40, 0x2b}
)

type worldObs struct {
	balFwd, balRcpt, allowance, delegation string
	dump                                   map[string][]byte
}

func (x *e2e) obs() worldObs {
	ctx := x.c.QueryCtx()
	o := worldObs{
		balFwd:    x.c.EvmBal(ctx, x.fwd).String(),
		balRcpt:   x.c.EvmBal(ctx, x.rcpt).String(),
		allowance: x.c.App.CPCKeeper.GetErc20CpcAllowance(ctx, x.fwd, x.rcpt).String(),
		dump:      dumpView(x.c, ctx),
	}
	del, err := x.c.App.StakingKeeper.GetDelegation(ctx, sdk.AccAddress(x.fwd.Bytes()), x.val)
	if err == nil {
		o.delegation = del.Shares.String()
	} else {
		o.delegation = "none"
	}
	return o
}

func (x *e2e) slot(ctx sdk.Context, n int) uint64 {
	return x.c.App.EvmKeeper.GetState(ctx, x.fwd, common.BigToHash(Bi(int64(n)))).Big().Uint64()
}

// deliver one tx in its own block; returns the MsgEthereumTxResponse
func (x *e2e) deliver(sender int, data []byte, gas uint64) (*evmtypes.MsgEthereumTxResponse, uint32) {
	acct := x.c.S.WalletAccounts.Number(sender)
	ctx := x.c.QueryCtx()
	to := x.fwd
	price := new(big.Int).Mul(x.c.BaseFee(ctx), Bi(2))
	bz, _, err := x.c.EthTxBytes(acct, &ethtypes.LegacyTx{Nonce: x.c.Nonce(ctx, acct.GetEthAddress()), GasPrice: price, Gas: gas, To: &to, Value: Bi(0), Data: data})
	require.NoError(x.t, err)
	res := x.c.RunBlock([][]byte{bz})
	require.Len(x.t, res.TxResults, 1)
	tr := res.TxResults[0]
	var rsp *evmtypes.MsgEthereumTxResponse
	if tr.Code == 0 {
		var msgData sdk.TxMsgData
		require.NoError(x.t, msgData.Unmarshal(tr.Data))
		require.Len(x.t, msgData.MsgResponses, 1)
		rsp = &evmtypes.MsgEthereumTxResponse{}
		require.NoError(x.t, rsp.Unmarshal(msgData.MsgResponses[0].Value))
	}
	return rsp, tr.Code
}

func runE2E(t *testing.T, side *Sidecar, r *Rng) {
	c := NewChain(t, time.Time{})
	x := &e2e{t: t, c: c, side: side, fwd: common.HexToAddress("0x1000000000000000000000000000000000000f01"),
		val: c.S.ValidatorAccounts.Number(1).GetValidatorAddress(), rcpt: common.HexToAddress("0x1000000000000000000000000000000000000b01")}
	ctx := c.Ctx()
	var err error
	x.erc20, err = c.App.CPCKeeper.DeployErc20CustomPrecompiledContract(ctx, "Wrapped Native",
		cpctypes.Erc20CustomPrecompiledContractMeta{Symbol: "WN", Decimals: 18, MinDenom: c.Denom()})
	require.NoError(t, err)
	if !c.App.CPCKeeper.HasCustomPrecompiledContract(ctx, cpctypes.CpcStakingFixedAddress) {
		_, err = c.App.CPCKeeper.DeployStakingCustomPrecompiledContract(ctx, cpctypes.StakingCustomPrecompiledContractMeta{Symbol: "STK", Decimals: 18})
		require.NoError(t, err)
	}
	sdb := evmvm.NewStateDB(ctx, common.Address{}, c.App.EvmKeeper, c.App.AccountKeeper, c.App.BankKeeper)
	sdb.SetCode(x.fwd, BuildForwarder())
	sdb.SetNonce(x.fwd, 1)
	sdb.AddBalance(x.fwd, new(big.Int).Exp(Bi(10), Bi(18), nil))
	require.NoError(t, sdb.CommitMultiStore(false))
	c.RunBlock(nil)

	feeCollector := authtypes.NewModuleAddress(authtypes.FeeCollectorName)
	type precompileCall struct {
		name    string
		target  common.Address
		payload []byte
	}
	amt := Bi(int64(1000 + r.Intn(100000)))
	calls := []precompileCall{
		{"transfer", x.erc20, abiCall(selTransfer, x.rcpt, amt)},
		{"approve", x.erc20, abiCall(selApprove, x.rcpt, amt)},
		{"delegate", cpctypes.CpcStakingFixedAddress, abiCall(selDelegate, common.BytesToAddress(x.val.Bytes()), Badd(amt, 1_000_000))},
	}
	sender := 1
	for _, pc := range calls {
		for _, shape := range []string{"inner-revert", "inner-invalid", "inner-return", "top-revert", "top-invalid"} {
			var data []byte
			switch shape {
			case "inner-revert":
				data = FwdInput(FwdReturn, x.fwd, FwdInput(FwdRevert, pc.target, pc.payload))
			case "inner-invalid":
				data = FwdInput(FwdReturn, x.fwd, FwdInput(FwdInvalid, pc.target, pc.payload))
			case "inner-return":
				data = FwdInput(FwdReturn, x.fwd, FwdInput(FwdReturn, pc.target, pc.payload))
			case "top-revert":
				data = FwdInput(FwdRevert, pc.target, pc.payload)
			case "top-invalid":
				data = FwdInput(FwdInvalid, pc.target, pc.payload)
			}
			name := pc.name + "/" + shape
			// baseline: what an empty block changes
			d0 := dumpView(c, c.QueryCtx())
			c.RunBlock(nil)
			before := x.obs()
			emptyChanged := map[string]bool{}
			for _, k := range diffDump(d0, before.dump) {
				emptyChanged[k] = true
			}
			outerSlot, innerSlot := len(data), len(data)-21
			sOuter0, sInner0 := x.slot(c.QueryCtx(), outerSlot), x.slot(c.QueryCtx(), innerSlot)
			senderAddr := c.S.WalletAccounts.Number(sender).GetEthAddress()
			nonce0 := c.Nonce(c.QueryCtx(), senderAddr)
			rsp, code := x.deliver(sender, data, 900_000)
			after := x.obs()
			side.Count("e2e:" + shape)
			if code != 0 || rsp == nil {
				side.Hit("C03/statedb/e2e/tx-rejected/"+name, fmt.Sprintf("transaction was not executed (code %d)", code), name)
				continue
			}
			failed := rsp.VmError != ""
			sOuter1, sInner1 := x.slot(c.QueryCtx(), outerSlot), x.slot(c.QueryCtx(), innerSlot)
			if c.Nonce(c.QueryCtx(), senderAddr) != nonce0+1 {
				side.Hit("C03/statedb/e2e/nonce-not-incremented/"+name, "sender nonce did not increase by one", name)
			}
			unchanged := before.balFwd == after.balFwd && before.balRcpt == after.balRcpt && before.allowance == after.allowance && before.delegation == after.delegation
			switch shape {
			case "inner-revert", "inner-invalid":
				if failed {
					side.Hit("C03/statedb/e2e/outer-frame-failed/"+name, "outer frame should succeed: "+rsp.VmError, name)
				}
				if !unchanged {
					side.Hit("C03/statedb/e2e/reverted-inner-frame-left-a-trace/"+name,
						fmt.Sprintf("after an inner frame that reverted: %v -> %v", before, after), name)
				}
				if sInner1 != sInner0 {
					side.Hit("C03/statedb/e2e/reverted-inner-frame-storage-kept/"+name, "storage written by the reverted frame is still there", name)
				}
				if sOuter1 != 1 {
					side.Hit("C03/statedb/e2e/successful-outer-frame-lost/"+name, "storage written by the successful outer frame is missing", name)
				}
				if n := countLogs(rsp); n != 1 {
					side.Hit("C03/statedb/e2e/logs-of-reverted-frame/"+name, fmt.Sprintf("receipt has %d logs, want 1 (outer frame only)", n), name)
				}
			case "inner-return":
				if failed {
					side.Hit("C03/statedb/e2e/outer-frame-failed/"+name, "outer frame should succeed: "+rsp.VmError, name)
				}
				moved := false
				switch pc.name {
				case "transfer":
					moved = before.balRcpt != after.balRcpt && before.balFwd != after.balFwd
				case "approve":
					moved = after.allowance == amt.String()
				case "delegate":
					moved = before.delegation != after.delegation
				}
				if !moved || sInner1 != 1 || sOuter1 != 1 {
					side.Hit("C03/statedb/e2e/successful-frame-effects-lost/"+name, fmt.Sprintf("effects of frames that completed successfully are missing: %v -> %v", before, after), name)
				}
				if n := countLogs(rsp); n < 2 {
					side.Hit("C03/statedb/e2e/logs-of-successful-frames-lost/"+name, fmt.Sprintf("receipt has %d logs, want >= 2", n), name)
				}
				side.Count("e2e:positive-control-ok")
			case "top-revert", "top-invalid":
				if !failed {
					side.Hit("C03/statedb/e2e/top-level-should-fail/"+name, "expected a VM error", name)
				}
				if !unchanged || sOuter1 != sOuter0 {
					side.Hit("C03/statedb/e2e/failed-tx-left-a-trace/"+name, fmt.Sprintf("after a transaction that ended with a VM error: %v -> %v", before, after), name)
				}
				if n := countLogs(rsp); n != 0 {
					side.Hit("C03/statedb/e2e/failed-tx-has-logs/"+name, "a failed transaction kept logs", name)
				}
				// key-level: beyond what an empty block changes, only nonce and fee bookkeeping
				for _, k := range diffDump(before.dump, after.dump) {
					if emptyChanged[k] {
						continue
					}
					store, key := splitKey(k)
					ok := false
					switch store {
					case "acc":
						ok = bytes.Contains(key, senderAddr.Bytes())
					case "bank":
						ok = bytes.Contains(key, senderAddr.Bytes()) || bytes.Contains(key, feeCollector.Bytes()) || (len(key) > 0 && key[0] == 0x00)
					case "feemarket":
						ok = true
					case "evm":
						// block hash by height, stored by the ante handler for a block that has an Ethereum transaction
						ok = len(key) == 9 && key[0] == 0x05
					case "staking":
						// historical info by height (begin block; a new key every block)
						ok = len(key) > 0 && key[0] == 0x50
					}
					if !ok {
						side.Hit("C03/statedb/e2e/failed-tx-changed-foreign-key/"+store, fmt.Sprintf("%s: key %x of store %s changed although the transaction ended with a VM error", name, key, store), name)
					}
				}
			}
			sender = sender%2 + 1
		}
	}
	_ = sdkmath.ZeroInt
}

func splitKey(k string) (string, []byte) {
	for i := 0; i < len(k); i++ {
		if k[i] == 0 {
			return k[:i], []byte(k[i+1:])
		}
	}
	return k, nil
}

func countLogs(rsp *evmtypes.MsgEthereumTxResponse) int {
	rc := &ethtypes.Receipt{}
	if err := rc.UnmarshalBinary(rsp.MarshalledReceipt); err != nil {
		return -1
	}
	return len(rc.Logs)
}
