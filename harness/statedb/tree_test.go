package statedb

// Call-tree half of the `statedb` driver (C03): random call TREES executed as real Ethereum transactions.
// Every frame of a tree runs the interpreter contract (hx/sdbtree_interp.go) at one of three host addresses and
// performs, in program order: calls of stateful precompile methods (ERC-20 transfer / approve / transferFrom /
// burn / burnFrom of two tokens, staking delegate / undelegate / withdrawReward), SSTOREs, LOGs, CREATEs, value
// transfers, zero-value calls of empty accounts (touched: deleted at commit), SELFDESTRUCT of a victim contract, warmth probes (gas cost of SLOAD / BALANCE written to storage),
// and child frames; a frame ends by RETURN, REVERT, INVALID or by running out of gas.  The generator repeats ONE
// favourite method (same contract, same selector) over sibling and nested frames with mixed outcomes.
//
// Oracle, from the property text ("every effect made inside a failing frame disappears ... effects of frames that
// completed successfully are all kept ... when the whole transaction ends with a VM error only the sender's nonce
// increment and gas fee remain"):
//   (a) twin: the SURVIVORS-ONLY program (the same tree with every failing frame cut out) is executed on the same
//       committed state through EvmKeeper.ApplyMessage on a discarded branch; the full program, executed the same
//       way, must produce exactly the same multistore (every key of every module), logs, SDK events and result word;
//   (b) the full program delivered as a REAL transaction in a block must leave every store key that mentions an
//       address of the universe (hosts, recipients, victims: bank, cpc allowances, staking, distribution, evm
//       storage/code, auth) exactly as the survivors-only run left it, the same logs and the same result word;
//   (c) an independent Go ledger (balances, allowances, delegation shares, host storage) computed from the leaves
//       that succeeded inside surviving frames must equal what the keepers report after the block.

import (
	"bytes"
	"encoding/hex"
	"fmt"
	"math/big"
	"sort"
	"strings"
	"testing"
	"time"

	sdkmath "cosmossdk.io/math"
	sdk "github.com/cosmos/cosmos-sdk/types"
	stakingkeeper "github.com/cosmos/cosmos-sdk/x/staking/keeper"
	stakingtypes "github.com/cosmos/cosmos-sdk/x/staking/types"
	"github.com/ethereum/go-ethereum/common"
	ethtypes "github.com/ethereum/go-ethereum/core/types"
	"github.com/stretchr/testify/require"

	cpctypes "github.com/EscanBE/evermint/v12/x/cpc/types"
	evmtypes "github.com/EscanBE/evermint/v12/x/evm/types"
	evmvm "github.com/EscanBE/evermint/v12/x/evm/vm"

	. "verifharness/hx"
)

var (
	selTransferFrom   = []byte{0x23, 0xb8, 0x72, 0xdd}
	selBurn           = []byte{0x42, 0x96, 0x6c, 0x68}
	selBurnFrom       = []byte{0x79, 0xcc, 0x67, 0x90}
	selUndelegate     = []byte{0x4d, 0x99, 0xdd, 0x16}
	selWithdrawReward = []byte{0xb8, 0x6e, 0x32, 0x1c}
	treeMaxU256       = Bsub(Pow2(256), 1)
)

type treeEnv struct {
	t       *testing.T
	c       *Chain
	side    *Sidecar
	hosts   []common.Address
	rcpt    []common.Address
	victims []common.Address
	empties []common.Address // existing accounts with nothing in them: a zero-value call "touches" them (EIP-161)
	uni     []common.Address
	tokens  []common.Address
	denoms  []string
	vals    []sdk.ValAddress
	sender  int
}

// leaf = one call of a precompile method (or a plain value transfer / victim call) by the frame that contains it
type treeLeaf struct {
	method string // e.g. "erc20[0].transfer", "staking.delegate", "value", "victim"
	tok    int
	a, b   common.Address
	val    sdk.ValAddress
	amt    *big.Int
	bit    int
	frame  *TreeFrame
	alive  bool // the frame and all its ancestors end normally
}

func words(sel []byte, ws ...[]byte) []byte {
	out := append([]byte{}, sel...)
	for _, w := range ws {
		out = append(out, common.LeftPadBytes(w, 32)...)
	}
	return out
}

func newTreeEnv(t *testing.T, side *Sidecar) *treeEnv {
	c := NewChain(t, time.Time{})
	x := &treeEnv{t: t, c: c, side: side, sender: 1}
	for i := 1; i <= 3; i++ {
		x.hosts = append(x.hosts, common.HexToAddress(fmt.Sprintf("0x1000000000000000000000000000000000000e0%d", i)))
	}
	x.rcpt = []common.Address{common.HexToAddress("0x1000000000000000000000000000000000000b01"), common.HexToAddress("0x1000000000000000000000000000000000000b02")}
	x.victims = []common.Address{common.HexToAddress("0x1000000000000000000000000000000000000d01"), common.HexToAddress("0x1000000000000000000000000000000000000d02")}
	x.empties = []common.Address{common.HexToAddress("0x1000000000000000000000000000000000000a11"), common.HexToAddress("0x1000000000000000000000000000000000000a12")}
	x.uni = append(append(append(append([]common.Address{}, x.hosts...), x.rcpt...), x.victims...), x.empties...)
	x.denoms = []string{c.Denom(), "utwo"}
	for i := 1; i <= 2; i++ {
		x.vals = append(x.vals, c.S.ValidatorAccounts.Number(i).GetValidatorAddress())
	}
	ctx := c.Ctx()
	for i, d := range x.denoms {
		a, err := c.App.CPCKeeper.DeployErc20CustomPrecompiledContract(ctx, fmt.Sprintf("Token %d", i),
			cpctypes.Erc20CustomPrecompiledContractMeta{Symbol: fmt.Sprintf("T%d", i), Decimals: 18, MinDenom: d})
		require.NoError(t, err)
		x.tokens = append(x.tokens, a)
	}
	if !c.App.CPCKeeper.HasCustomPrecompiledContract(ctx, cpctypes.CpcStakingFixedAddress) {
		_, err := c.App.CPCKeeper.DeployStakingCustomPrecompiledContract(ctx, cpctypes.StakingCustomPrecompiledContractMeta{Symbol: "STK", Decimals: 18})
		require.NoError(t, err)
	}
	sdb := evmvm.NewStateDB(ctx, common.Address{}, c.App.EvmKeeper, c.App.AccountKeeper, c.App.BankKeeper)
	code := BuildTreeInterp()
	for _, h := range x.hosts {
		sdb.SetCode(h, code)
		sdb.SetNonce(h, 1)
		sdb.AddBalance(h, new(big.Int).Exp(Bi(10), Bi(18), nil))
	}
	require.NoError(t, sdb.CommitMultiStore(false))
	for _, h := range x.hosts {
		c.Fund(sdk.AccAddress(h.Bytes()), "utwo", Bi(1_000_000_000))
	}
	x.rearm()
	stk := stakingkeeper.NewMsgServerImpl(c.App.StakingKeeper)
	for i, h := range x.hosts {
		_, err := stk.Delegate(ctx, stakingtypes.NewMsgDelegate(sdk.AccAddress(h.Bytes()).String(), x.vals[i%len(x.vals)].String(),
			sdk.NewCoin(c.Denom(), sdkmath.NewInt(5_000_000))))
		require.NoError(t, err)
	}
	c.App.CPCKeeper.SetErc20CpcAllowance(ctx, x.hosts[0], x.hosts[1], Bi(5000))
	c.App.CPCKeeper.SetErc20CpcAllowance(ctx, x.hosts[1], x.hosts[2], treeMaxU256)
	c.RunBlock(nil)
	return x
}

// rearm re-installs victim contracts that an earlier transaction destroyed (between blocks).
func (x *treeEnv) rearm() {
	c := x.c
	ctx := c.Ctx()
	for _, e := range x.empties {
		if !c.App.AccountKeeper.HasAccount(ctx, e.Bytes()) {
			c.App.AccountKeeper.SetAccount(ctx, c.App.AccountKeeper.NewAccountWithAddress(ctx, e.Bytes()))
		}
	}
	var missing []common.Address
	for _, v := range x.victims {
		if len(c.App.EvmKeeper.GetCode(ctx, c.App.EvmKeeper.GetCodeHash(ctx, v.Bytes()))) == 0 {
			missing = append(missing, v)
		}
	}
	if len(missing) == 0 {
		return
	}
	sdb := evmvm.NewStateDB(ctx, common.Address{}, c.App.EvmKeeper, c.App.AccountKeeper, c.App.BankKeeper)
	for _, v := range missing {
		sdb.SetCode(v, BuildSelfDestruct(x.rcpt[1]))
		sdb.SetNonce(v, 1)
		sdb.AddBalance(v, Bi(1000))
	}
	require.NoError(x.t, sdb.CommitMultiStore(false))
}

// ---------------------------------------------------------------- generation

type treeGen struct {
	x      *treeEnv
	r      *Rng
	frames int
	leaves []*treeLeaf
	fav    *treeLeaf // favourite method, repeated all over the tree
}

func (g *treeGen) pick(l []common.Address) common.Address { return l[g.r.Intn(len(l))] }

func (g *treeGen) smallAmt() *big.Int {
	switch g.r.Intn(6) {
	case 0:
		return Bi(0)
	case 1:
		return Bi(1)
	case 2:
		return Pow2(200) // more than anybody has: the leaf itself fails
	default:
		return Bi(int64(1 + g.r.Intn(3000)))
	}
}

// newLeaf draws a leaf; with like != nil the same method (contract + selector) with fresh arguments.
func (g *treeGen) newLeaf(like *treeLeaf) *treeLeaf {
	x := g.x
	l := &treeLeaf{}
	if like != nil {
		l.method, l.tok = like.method, like.tok
	} else {
		l.tok = g.r.Intn(2)
		switch k := g.r.Intn(100); {
		case k < 22:
			l.method = "transfer"
		case k < 38:
			l.method = "approve"
		case k < 52:
			l.method = "transferFrom"
		case k < 60:
			l.method = "burn"
		case k < 66:
			l.method = "burnFrom"
		case k < 80:
			l.method = "delegate"
		case k < 88:
			l.method = "undelegate"
		case k < 93:
			l.method = "withdrawReward"
		case k < 96:
			l.method = "value"
		case k < 98:
			l.method = "touch"
		default:
			l.method = "victim"
		}
	}
	all := append(append([]common.Address{}, x.hosts...), x.rcpt...)
	switch l.method {
	case "transfer":
		l.b, l.amt = g.pick(all), g.smallAmt()
	case "approve":
		l.b, l.amt = g.pick(x.hosts), []*big.Int{Bi(0), Bi(100), Bi(2500), Bi(100_000), treeMaxU256}[g.r.Intn(5)]
	case "transferFrom":
		l.a, l.b, l.amt = g.pick(x.hosts), g.pick(all), g.smallAmt()
	case "burn":
		l.amt = g.smallAmt()
	case "burnFrom":
		l.a, l.amt = g.pick(x.hosts), g.smallAmt()
	case "delegate", "undelegate":
		l.val, l.amt = x.vals[g.r.Intn(len(x.vals))], Bi(int64(1+g.r.Intn(200_000)))
		if g.r.Chance(10) {
			l.amt = Pow2(120)
		}
	case "withdrawReward":
		l.val = x.vals[g.r.Intn(len(x.vals))]
	case "value":
		l.b, l.amt = g.pick(x.rcpt), Bi(int64(1+g.r.Intn(200)))
	case "victim":
		l.b = g.pick(x.victims)
	case "touch":
		l.b = g.pick(x.empties)
	}
	return l
}

func (l *treeLeaf) key(x *treeEnv) string {
	switch l.method {
	case "transfer", "approve", "transferFrom", "burn", "burnFrom":
		return fmt.Sprintf("erc20[%d].%s", l.tok, l.method)
	case "delegate", "undelegate", "withdrawReward":
		return "staking." + l.method
	}
	return l.method
}

func (l *treeLeaf) item(x *treeEnv) TreeItem {
	it := TreeItem{Kind: 0x10, Bit: l.bit}
	amt := func() []byte { return l.amt.Bytes() }
	switch l.method {
	case "transfer":
		it.Target, it.Gas, it.Payload = x.tokens[l.tok], 90_000, words(selTransfer, l.b.Bytes(), amt())
	case "approve":
		it.Target, it.Gas, it.Payload = x.tokens[l.tok], 90_000, words(selApprove, l.b.Bytes(), amt())
	case "transferFrom":
		it.Target, it.Gas, it.Payload = x.tokens[l.tok], 90_000, words(selTransferFrom, l.a.Bytes(), l.b.Bytes(), amt())
	case "burn":
		it.Target, it.Gas, it.Payload = x.tokens[l.tok], 90_000, words(selBurn, amt())
	case "burnFrom":
		it.Target, it.Gas, it.Payload = x.tokens[l.tok], 90_000, words(selBurnFrom, l.a.Bytes(), amt())
	case "delegate":
		it.Target, it.Gas, it.Payload = cpctypes.CpcStakingFixedAddress, 400_000, words(selDelegate, l.val.Bytes(), amt())
	case "undelegate":
		it.Target, it.Gas, it.Payload = cpctypes.CpcStakingFixedAddress, 300_000, words(selUndelegate, l.val.Bytes(), amt())
	case "withdrawReward":
		it.Target, it.Gas, it.Payload = cpctypes.CpcStakingFixedAddress, 300_000, words(selWithdrawReward, l.val.Bytes())
	case "value":
		it.Target, it.Gas, it.Value = l.b, 30_000, byte(l.amt.Int64())
	case "victim":
		it.Target, it.Gas = l.b, 60_000
	case "touch":
		it.Target, it.Gas = l.b, 30_000
	}
	return it
}

func (g *treeGen) frame(depth int, root bool, parent *TreeFrame) *TreeFrame {
	x, r := g.x, g.r
	f := &TreeFrame{Host: g.pick(x.hosts), Gas: TreeGasAll}
	if parent != nil && r.Chance(45) {
		f.Host = parent.Host // re-entrant frame: same storage, same caller for the precompiles
	}
	g.frames++
	switch k := r.Intn(100); {
	case root && k < 78, !root && k < 45:
		f.End = TreeEndReturn
	case root && k < 90, !root && k < 70:
		f.End = TreeEndRevert
	case root, k < 85:
		f.End = TreeEndInvalid
	default:
		f.End = TreeEndSpin
	}
	n := 1 + r.Intn(5)
	if root {
		n = 2 + r.Intn(5)
	}
	for i := 0; i < n; i++ {
		switch k := r.Intn(100); {
		case k < 38 && len(g.leaves) < 40:
			var l *treeLeaf
			if g.fav != nil && r.Chance(60) {
				l = g.newLeaf(g.fav)
			} else {
				l = g.newLeaf(nil)
			}
			if g.fav == nil && l.method != "value" && l.method != "victim" && l.method != "touch" {
				g.fav = l
			}
			l.bit, l.frame = len(g.leaves), f
			g.leaves = append(g.leaves, l)
			f.Items = append(f.Items, l.item(x))
		case k < 66 && depth < 4 && g.frames < 12:
			child := g.frame(depth+1, false, f)
			it := TreeItem{Kind: 0x10, Child: child}
			if r.Chance(20) {
				it.Value = byte(1 + r.Intn(100))
			}
			f.Items = append(f.Items, it)
			// re-query what a failing frame warmed: the slot / address must be cold again for the surviving code
			if !child.Survives() && r.Chance(60) {
				for _, ci := range child.Items {
					if (ci.Kind == 0x11 || ci.Kind == 0x13) && child.Host == f.Host {
						if r.Chance(50) {
							other := (ci.A + 1 + byte(r.Intn(3))) % 4
							f.Items = append([]TreeItem{{Kind: 0x13, A: other, B: byte(0x88 + r.Intn(4))}}, f.Items...)
						}
						f.Items = append(f.Items, TreeItem{Kind: 0x13, A: ci.A, B: byte(0x80 + r.Intn(8))})
						break
					}
					if ci.Kind == 0x14 {
						f.Items = append(f.Items, TreeItem{Kind: 0x14, Addr: ci.Addr, B: byte(0x90 + r.Intn(8))})
						break
					}
				}
			}
		case k < 74:
			f.Items = append(f.Items, TreeItem{Kind: 0x11, A: byte(r.Intn(4)), B: byte(r.Intn(4))})
		case k < 78:
			f.Items = append(f.Items, TreeItem{Kind: 0x12, A: byte(r.Intn(200))})
		case k < 89:
			f.Items = append(f.Items, TreeItem{Kind: 0x13, A: byte(r.Intn(4)), B: byte(0x80 + r.Intn(8))})
		case k < 94:
			f.Items = append(f.Items, TreeItem{Kind: 0x14, Addr: g.pick(append(append([]common.Address{}, x.rcpt...), x.victims...)), B: byte(0x90 + r.Intn(8))})
		case k < 97:
			f.Items = append(f.Items, TreeItem{Kind: 0x15})
		}
	}
	return f
}

// order lists the leaves in execution order and marks them alive / dead; also collects the alive SSTOREs and value transfers
// into child frames.
type aliveEffect struct {
	leaf   *treeLeaf // nil for the two kinds below
	host   common.Address
	slot   byte
	val    byte
	sstore bool
	to     common.Address // value sent along a call into a surviving child frame
	value  byte
}

func (g *treeGen) effects(root *TreeFrame) []aliveEffect {
	byBit := map[int]*treeLeaf{}
	for _, l := range g.leaves {
		byBit[l.bit] = l
	}
	var out []aliveEffect
	var rec func(f *TreeFrame, alive bool)
	rec = func(f *TreeFrame, parentAlive bool) {
		alive := parentAlive && f.Survives()
		for i := range f.Items {
			it := &f.Items[i]
			switch {
			case it.Kind == 0x10 && it.Child != nil:
				if alive && it.Child.Survives() && it.Value > 0 {
					out = append(out, aliveEffect{host: f.Host, to: it.Child.Host, value: it.Value})
				}
				rec(it.Child, alive)
			case it.Kind == 0x10:
				l := byBit[it.Bit]
				l.alive = alive
				if alive {
					out = append(out, aliveEffect{leaf: l, host: f.Host})
				}
			case it.Kind == 0x11 && alive:
				out = append(out, aliveEffect{host: f.Host, slot: it.A, val: it.B, sstore: true})
			}
		}
	}
	rec(root, true)
	return out
}

func descFrame(x *treeEnv, g *treeGen, f *TreeFrame) string {
	byBit := map[int]*treeLeaf{}
	for _, l := range g.leaves {
		byBit[l.bit] = l
	}
	hostName := func(a common.Address) string {
		for i, h := range x.hosts {
			if h == a {
				return fmt.Sprintf("H%d", i)
			}
		}
		return a.Hex()[36:]
	}
	var sb strings.Builder
	var rec func(f *TreeFrame)
	rec = func(f *TreeFrame) {
		sb.WriteString(hostName(f.Host) + "{")
		for i := range f.Items {
			it := &f.Items[i]
			switch it.Kind {
			case 0x10:
				if it.Child != nil {
					if it.Value > 0 {
						sb.WriteString(fmt.Sprintf("v%d:", it.Value))
					}
					rec(it.Child)
				} else {
					l := byBit[it.Bit]
					sb.WriteString(fmt.Sprintf("#%d:%s", l.bit, l.key(x)))
					if l.amt != nil {
						if l.amt.BitLen() > 64 {
							sb.WriteString("(big)")
						} else {
							sb.WriteString("(" + l.amt.String() + ")")
						}
					}
				}
			case 0x11:
				sb.WriteString(fmt.Sprintf("s[%d]=%d", it.A, it.B))
			case 0x12:
				sb.WriteString("log")
			case 0x13:
				sb.WriteString(fmt.Sprintf("probeS%d", it.A))
			case 0x14:
				sb.WriteString("probeB")
			case 0x15:
				sb.WriteString("create")
			}
			sb.WriteString(" ")
		}
		sb.WriteString("}" + []string{"ret", "REVERT", "INVALID", "OOG"}[f.End])
	}
	rec(f)
	return sb.String()
}

// ---------------------------------------------------------------- execution and oracle

type treeRun struct {
	vmErr  bool
	ret    []byte
	logs   []string
	events []string
	dump   map[string][]byte
}

func logKey(l *ethtypes.Log) string {
	var sb strings.Builder
	sb.WriteString(l.Address.Hex())
	for _, tp := range l.Topics {
		sb.WriteString("|" + tp.Hex())
	}
	sb.WriteString("|" + hex.EncodeToString(l.Data))
	return sb.String()
}

func receiptLogs(t *testing.T, bz []byte) []string {
	var rc ethtypes.Receipt
	require.NoError(t, rc.UnmarshalBinary(bz))
	out := []string{}
	for _, l := range rc.Logs {
		out = append(out, logKey(l))
	}
	return out
}

// keeperRun executes the program through EvmKeeper.ApplyMessage(commit) on a branch of the committed state that is
// thrown away afterwards.
func (x *treeEnv) keeperRun(root common.Address, prog []byte, gas uint64) treeRun {
	c := x.c
	q := c.QueryCtx()
	from := c.S.WalletAccounts.Number(x.sender).GetEthAddress()
	bf := c.BaseFee(q)
	msg := ethtypes.NewMessage(from, &root, c.Nonce(q, from), Bi(0), gas, bf, bf, bf, prog, nil, false)
	res, err := c.App.EvmKeeper.ApplyMessage(q, msg, evmtypes.NewNoOpTracer(), true)
	require.NoError(x.t, err)
	run := treeRun{vmErr: res.VmError != "", ret: res.Ret, logs: receiptLogs(x.t, res.MarshalledReceipt), dump: dumpView(c, q), events: []string{}}
	for _, ev := range q.EventManager().Events() {
		run.events = append(run.events, evKey(ev))
	}
	return run
}

func (x *treeEnv) mentionsUniverse(k string) bool {
	_, key := splitKey(k)
	for _, a := range x.uni {
		if bytes.Contains(key, a.Bytes()) {
			return true
		}
	}
	return false
}

type treeLedger struct {
	bal   map[string]*big.Int // address|denom index
	allow map[string]*big.Int // owner|spender
	del   map[string]*big.Int // delegator|validator -> shares (whole numbers while the validators are unslashed)
	slots map[string]byte     // host|slot
}

func lk(a common.Address, i int) string         { return fmt.Sprintf("%s|%d", a.Hex(), i) }
func lk2(a, b common.Address) string            { return a.Hex() + "|" + b.Hex() }
func lkv(a common.Address, v sdk.ValAddress) string { return a.Hex() + "|" + v.String() }

func (x *treeEnv) readLedger(ctx sdk.Context) *treeLedger {
	c := x.c
	led := &treeLedger{bal: map[string]*big.Int{}, allow: map[string]*big.Int{}, del: map[string]*big.Int{}, slots: map[string]byte{}}
	for _, a := range x.uni {
		for i, d := range x.denoms {
			led.bal[lk(a, i)] = c.Bal(ctx, a.Bytes(), d)
		}
		for _, b := range x.uni {
			led.allow[lk2(a, b)] = c.App.CPCKeeper.GetErc20CpcAllowance(ctx, a, b)
		}
		for _, v := range x.vals {
			led.del[lkv(a, v)] = Bi(0)
			if d, err := c.App.StakingKeeper.GetDelegation(ctx, a.Bytes(), v); err == nil {
				led.del[lkv(a, v)] = d.Shares.TruncateInt().BigInt()
			}
		}
	}
	for _, h := range x.hosts {
		for s := 0; s < 6; s++ {
			led.slots[lk(h, s)] = byte(c.App.EvmKeeper.GetState(ctx, h, common.BigToHash(Bi(int64(s)))).Big().Uint64())
		}
	}
	return led
}

// apply advances the ledger by one effect that the property says must be kept.
func (led *treeLedger) apply(x *treeEnv, e aliveEffect) {
	mv := func(from, to common.Address, d int, amt *big.Int) {
		led.bal[lk(from, d)] = new(big.Int).Sub(led.bal[lk(from, d)], amt)
		if _, ok := led.bal[lk(to, d)]; ok {
			led.bal[lk(to, d)] = new(big.Int).Add(led.bal[lk(to, d)], amt)
		}
	}
	switch {
	case e.sstore:
		if e.slot < 6 {
			led.slots[lk(e.host, int(e.slot))] = e.val
		}
		return
	case e.leaf == nil:
		mv(e.host, e.to, 0, Bi(int64(e.value)))
		return
	}
	l, caller := e.leaf, e.host
	spend := func(owner common.Address) {
		if owner != caller {
			if cur := led.allow[lk2(owner, caller)]; cur.Cmp(treeMaxU256) != 0 {
				led.allow[lk2(owner, caller)] = new(big.Int).Sub(cur, l.amt)
			}
		}
	}
	switch l.method {
	case "transfer":
		mv(caller, l.b, l.tok, l.amt)
	case "approve":
		led.allow[lk2(caller, l.b)] = new(big.Int).Set(l.amt)
	case "transferFrom":
		spend(l.a)
		mv(l.a, l.b, l.tok, l.amt)
	case "burn":
		mv(caller, common.Address{}, l.tok, l.amt)
	case "burnFrom":
		spend(l.a)
		mv(l.a, common.Address{}, l.tok, l.amt)
	case "delegate":
		mv(caller, common.Address{}, 0, l.amt)
		led.del[lkv(caller, l.val)] = new(big.Int).Add(led.del[lkv(caller, l.val)], l.amt)
	case "undelegate":
		led.del[lkv(caller, l.val)] = new(big.Int).Sub(led.del[lkv(caller, l.val)], l.amt)
	case "value":
		mv(caller, l.b, 0, l.amt)
	case "victim":
		mv(l.b, x.rcpt[1], 0, led.bal[lk(l.b, 0)])
	}
}

func (led *treeLedger) diff(o *treeLedger) []string {
	var out []string
	cmp := func(kind string, a, b map[string]*big.Int) {
		for k, v := range a {
			if v.Cmp(b[k]) != 0 {
				out = append(out, fmt.Sprintf("%s[%s] expected %s got %s", kind, k, v, b[k]))
			}
		}
	}
	cmp("balance", led.bal, o.bal)
	cmp("allowance", led.allow, o.allow)
	cmp("delegation", led.del, o.del)
	for k, v := range led.slots {
		if o.slots[k] != v {
			out = append(out, fmt.Sprintf("storage[%s] expected %d got %d", k, v, o.slots[k]))
		}
	}
	sort.Strings(out)
	return out
}

func sameStrings(a, b []string) bool { return strings.Join(a, "\n") == strings.Join(b, "\n") && len(a) == len(b) }

func runTrees(t *testing.T, side *Sidecar, r0 *Rng, n int) {
	x := newTreeEnv(t, side)
	c := x.c
	for i := 0; i < n; i++ {
		r := r0.Fork(uint64(i))
		x.rearm()
		var g *treeGen
		var root *TreeFrame
		var gas uint64
		for {
			g = &treeGen{x: x, r: r}
			root = g.frame(0, true, nil)
			gas = root.Budget()
			if gas <= 25_000_000 && len(g.leaves) > 0 {
				break
			}
		}
		eff := g.effects(root)
		desc := descFrame(x, g, root)
		progA := root.Encode(false)
		progB := root.Encode(true)
		if !root.Survives() {
			progB = []byte{TreeEndReturn} // a transaction that does nothing: nonce and fee only
		}
		// statistics: the same method executed in several frames with mixed fates
		type fate struct{ frames map[*TreeFrame]bool; alive, dead, firstDead bool }
		per := map[string]*fate{}
		for _, l := range g.leaves {
			k := l.key(x)
			ft := per[k]
			if ft == nil {
				ft = &fate{frames: map[*TreeFrame]bool{}, firstDead: !l.alive}
				per[k] = ft
			}
			ft.frames[l.frame] = true
			if l.alive {
				ft.alive = true
			} else {
				ft.dead = true
			}
		}
		repeated, lostPattern, leakPattern := false, false, false
		for k, ft := range per {
			if k == "value" || k == "victim" || k == "touch" || len(ft.frames) < 2 {
				continue
			}
			if ft.alive && ft.dead {
				repeated = true
				if ft.firstDead {
					lostPattern = true
				} else {
					leakPattern = true
				}
			}
		}
		side.Count("tree:cases")
		side.Count(fmt.Sprintf("tree:root-%s", []string{"ret", "revert", "invalid", "oog"}[root.End]))
		if repeated {
			side.Count("tree:same-method-in-surviving-and-failing-frames")
		}
		if lostPattern {
			side.Count("tree:method-first-called-in-failing-frame-then-in-surviving")
		}
		if leakPattern {
			side.Count("tree:method-first-called-in-surviving-frame-then-in-failing")
		}
		root.Walk(func(fr *TreeFrame, alive bool) {
			side.Count("tree:frame-end-" + []string{"ret", "revert", "invalid", "oog"}[fr.End])
		})
		for _, l := range g.leaves {
			side.Count("tree:leaf:" + l.key(x))
		}
		hit := func(sig, msg string) {
			side.Hit(sig, msg, map[string]interface{}{"tree": desc, "index": i, "program": hex.EncodeToString(progA), "survivors": hex.EncodeToString(progB)})
		}

		// (a) twin on discarded branches of the same committed state
		pre := x.readLedger(c.QueryCtx())
		runB := x.keeperRun(root.Host, progB, gas)
		runA := x.keeperRun(root.Host, progA, gas)
		if runA.vmErr != !root.Survives() || runB.vmErr {
			hit("C03/statedb/tree/unexpected-vm-result", fmt.Sprintf("root frame ends with %d but vm error = %v (survivors-only: %v)", root.End, runA.vmErr, runB.vmErr))
		}
		if ks := diffDump(runB.dump, runA.dump); len(ks) > 0 {
			store, key := splitKey(ks[0])
			hit("C03/statedb/tree/keeper/store-differs-from-survivors-only/"+store,
				fmt.Sprintf("%d keys differ between the transaction and its survivors-only twin, first: store %s key %x: %x vs %x", len(ks), store, key, runA.dump[ks[0]], runB.dump[ks[0]]))
		}
		if !sameStrings(runA.logs, runB.logs) {
			hit("C03/statedb/tree/keeper/logs-differ-from-survivors-only", fmt.Sprintf("logs %v vs %v", runA.logs, runB.logs))
		}
		if !sameStrings(runA.events, runB.events) {
			hit("C03/statedb/tree/keeper/events-differ-from-survivors-only", fmt.Sprintf("%d vs %d SDK events", len(runA.events), len(runB.events)))
		}
		if root.Survives() && !bytes.Equal(runA.ret, runB.ret) {
			hit("C03/statedb/tree/keeper/result-differs-from-survivors-only", fmt.Sprintf("success mask %x vs %x", runA.ret, runB.ret))
		}

		// (b) the real transaction
		acct := c.S.WalletAccounts.Number(x.sender)
		q := c.QueryCtx()
		nonce0 := c.Nonce(q, acct.GetEthAddress())
		to := root.Host
		price := new(big.Int).Mul(c.BaseFee(q), Bi(2))
		bz, _, err := c.EthTxBytes(acct, &ethtypes.LegacyTx{Nonce: nonce0, GasPrice: price, Gas: gas, To: &to, Value: Bi(0), Data: progA})
		require.NoError(t, err)
		res := c.RunBlock([][]byte{bz})
		require.Len(t, res.TxResults, 1)
		er := c.DecodeEthResult(res.TxResults[0])
		if er.Code != 0 {
			hit("C03/statedb/tree/tx/rejected", fmt.Sprintf("transaction was not executed: code %d %s", er.Code, er.Log))
			continue
		}
		postCtx := c.QueryCtx()
		if c.Nonce(postCtx, acct.GetEthAddress()) != nonce0+1 {
			hit("C03/statedb/tree/tx/nonce", "sender nonce did not increase by one")
		}
		if (er.VmError != "") != !root.Survives() {
			hit("C03/statedb/tree/unexpected-vm-result", fmt.Sprintf("root frame ends with %d but the transaction's vm error is %q", root.End, er.VmError))
		}
		post := dumpView(c, postCtx)
		var bad []string
		for k := range runB.dump {
			if x.mentionsUniverse(k) && !bytes.Equal(post[k], runB.dump[k]) {
				bad = append(bad, k)
			}
		}
		for k := range post {
			if _, ok := runB.dump[k]; !ok && x.mentionsUniverse(k) {
				bad = append(bad, k)
			}
		}
		if len(bad) > 0 {
			sort.Strings(bad)
			store, key := splitKey(bad[0])
			sig := "C03/statedb/tree/tx/state-differs-from-survivors-only/" + store
			if !root.Survives() {
				sig = "C03/statedb/tree/tx/failed-tx-left-a-trace/" + store
			}
			hit(sig, fmt.Sprintf("%d keys of the universe differ from the survivors-only twin, first: store %s key %x: %x vs %x", len(bad), store, key, post[bad[0]], runB.dump[bad[0]]))
		}
		var txLogs []string
		for _, l := range er.Logs {
			txLogs = append(txLogs, logKey(l))
		}
		if !sameStrings(txLogs, runB.logs) {
			hit("C03/statedb/tree/tx/logs-differ-from-survivors-only", fmt.Sprintf("receipt logs %v, survivors-only %v", txLogs, runB.logs))
		}
		if root.Survives() && !bytes.Equal(er.Ret, runB.ret) {
			hit("C03/statedb/tree/tx/result-differs-from-survivors-only", fmt.Sprintf("success mask %x vs %x", er.Ret, runB.ret))
		}

		// (c) independent ledger
		mask := new(big.Int)
		if root.Survives() && len(er.Ret) == 32 {
			mask.SetBytes(er.Ret)
		}
		okLeaves := 0
		for _, e := range eff {
			if e.leaf != nil && mask.Bit(e.leaf.bit) == 0 {
				continue
			}
			if e.leaf != nil {
				okLeaves++
				side.Count("tree:kept-leaf:" + e.leaf.key(x))
			}
			pre.apply(x, e)
		}
		for _, l := range g.leaves {
			if !l.alive && mask.Bit(l.bit) != 0 {
				hit("C03/statedb/tree/tx/mask-has-leaf-of-failing-frame", fmt.Sprintf("leaf #%d sits in a failing frame but its success bit reached the result", l.bit))
			}
		}
		got := x.readLedger(postCtx)
		if d := pre.diff(got); len(d) > 0 {
			kind := strings.SplitN(d[0], "[", 2)[0]
			hit("C03/statedb/tree/tx/ledger/"+kind, fmt.Sprintf("state after the block is not what the successful calls of surviving frames imply: %s", strings.Join(d, "; ")))
		}
		dead := 0
		for _, l := range g.leaves {
			if !l.alive {
				dead++
			}
		}
		nontrivial := dead > 0 && (okLeaves > 0 || !root.Survives())
		side.Case(1_000_000+i, "tree:"+hex.EncodeToString(progA), nontrivial, map[string]interface{}{"index": i, "tree": desc})
		x.sender = x.sender%2 + 1
	}
}
