package basefee

// Driver `basefee` (C09, C20): feemarketkeeper.CalculateBaseFee on generated
// (base fee, block gas used, consensus max_gas, min gas price) and whole EndBlock runs.

import (
	"fmt"
	"math/big"
	"strings"
	"testing"

	sdkmath "cosmossdk.io/math"
	storetypes "cosmossdk.io/store/types"
	tmproto "github.com/cometbft/cometbft/proto/tendermint/types"
	sdk "github.com/cosmos/cosmos-sdk/types"
	"github.com/stretchr/testify/require"

	feemarkettypes "github.com/EscanBE/evermint/v12/x/feemarket/types"

	. "verifharness/hx"
)

type basefeeCase struct {
	B       string `json:"base_fee"`
	Used    uint64 `json:"gas_used"`
	MaxGas  int64  `json:"max_gas"`
	MinDec  string `json:"min_gas_price_x1e18"`
	Outcome string `json:"outcome"`
}

func TestDriverBasefee(t *testing.T) {
	dir := OutDir(t)
	seed := EnvSeed()
	n := EnvInt("VERIF_N", 1500)
	suite := NewSuite(t)
	rng := NewRng(seed)
	side := NewSidecar("basefee", seed,
		"case = (base fee, block gas used, consensus max_gas, min gas price); boundary-heavy generator (target-1/target/target+1, max_gas in {-1,0,1,2,3,...}, base fee in {0,1,7,8,2^64,2^255,2^256-1,random}); "+
			"non-trivial = base fee > 0 and used != target (fee actually moves or clamps) and distinct (b,used,max_gas,min)")
	cases := NewCases(dir, "From Evm Require Import BaseFee CorrBaseFee.", "bf_mismatches")

	k := suite.ChainApp.FeeMarketKeeper()
	max256 := Bsub(Pow2(256), 1)
	e18 := new(big.Int).Exp(Bi(10), Bi(18), nil)
	bCands := []*big.Int{Bi(0), Bi(1), Bi(7), Bi(8), Bi(9), Bi(1_000_000_000), Pow2(64), Bsub(Pow2(64), 1), Pow2(255), max256,
		Bsub(max256, 1), new(big.Int).Div(new(big.Int).Mul(max256, Bi(4)), Bi(5)), new(big.Int).Div(new(big.Int).Mul(max256, Bi(8)), Bi(9))}
	mgCands := []int64{-1, 0, 1, 2, 3, 4, 5, 100, 101, 30_000_000, 40_000_000, 1<<62 + 1, 1<<63 - 1}

	for i := 0; i < n; i++ {
		r := rng.Fork(uint64(i))
		var b *big.Int
		switch r.Intn(4) {
		case 0:
			b = r.PickBig(bCands)
		case 1:
			b = r.BigBits(1 + r.Intn(40))
		case 2:
			b = r.BigBits(1 + r.Intn(256))
		default:
			b = new(big.Int).Add(Bi(1_000_000_000), r.BigBits(30))
		}
		maxGas := mgCands[r.Intn(len(mgCands))]
		if r.Chance(25) {
			maxGas = int64(r.U64()>>(1+uint(r.Intn(62)))) + 2
		}
		var limit uint64
		if maxGas > -1 {
			limit = uint64(maxGas)
		} else {
			limit = ^uint64(0)
		}
		target := limit / 2
		var used uint64
		switch r.Intn(8) {
		case 0:
			used = 0
		case 1:
			used = target
		case 2:
			used = target + 1
		case 3:
			if target > 0 {
				used = target - 1
			}
		case 4:
			used = limit
		case 5:
			used = 1
		default:
			if limit > 0 {
				used = r.U64() % limit
			}
		}
		// the block gas meter caps consumption at the limit for a finite meter; an infinite meter
		// (max_gas in {-1,0}) reports anything
		if maxGas > 0 && used > limit {
			used = limit
		}
		var minDec *big.Int
		switch r.Intn(6) {
		case 0:
			minDec = Bi(0)
		case 1:
			minDec = new(big.Int).Add(new(big.Int).Mul(b, e18), r.BigBits(59)) // around b, fractional
		case 2:
			minDec = new(big.Int).Mul(Badd(b, 1), e18)
		case 3:
			minDec = new(big.Int).Mul(Bi(1_000_000_000), e18)
		case 4:
			minDec = r.BigBits(1 + r.Intn(120))
		default:
			minDec = Bsub(e18, 1) // 0.999.. truncates to 0
		}

		if minDec.BitLen() > 315 { // LegacyDec holds at most 315 bits
			minDec = Bsub(Pow2(315), 1)
		}
		ctx, _ := suite.CurrentContext.CacheContext()
		params := feemarkettypes.Params{BaseFee: sdkmath.NewIntFromBigInt(b), MinGasPrice: sdkmath.LegacyNewDecFromBigIntWithPrec(minDec, 18)}
		require.NoError(t, k.SetParams(ctx, params))
		ctx = ctx.WithConsensusParams(tmproto.ConsensusParams{Block: &tmproto.BlockParams{MaxGas: maxGas, MaxBytes: 22020096}})
		var meter storetypes.GasMeter
		if maxGas > 0 {
			meter = storetypes.NewGasMeter(uint64(maxGas))
		} else {
			meter = storetypes.NewInfiniteGasMeter()
		}
		_ = CatchPanic(func() { meter.ConsumeGas(used, "verif") })
		require.Equal(t, used, meter.GasConsumedToLimit())
		ctx = ctx.WithBlockGasMeter(meter)

		var got sdkmath.Int
		p := CatchPanic(func() { got = k.CalculateBaseFee(ctx) })
		obs, outcome := "", ""
		if p != nil {
			msg := fmt.Sprint(p)
			switch {
			case strings.Contains(msg, "division by zero"):
				obs, outcome = "ObsPanicDivZero", "PANIC_DIVZERO"
			case strings.Contains(msg, "overflow") || strings.Contains(msg, "out of bound"):
				obs, outcome = "ObsPanicOverflow", "PANIC_OVERFLOW"
			default:
				obs, outcome = "ObsPanicOther", "PANIC_OTHER:"+msg
			}
		} else {
			obs, outcome = "(ObsOk "+CqZ(got.BigInt())+")", "OK"
		}
		// second observation: the whole EndBlock (what block production runs), same inputs
		p2 := CatchPanic(func() {
			ectx, _ := ctx.CacheContext()
			ectx = ectx.WithEventManager(sdk.NewEventManager())
			k.EndBlock(ectx)
			if p == nil {
				stored := k.GetBaseFee(ectx)
				if !stored.Equal(got) {
					side.Hit("C09/basefee/endblock-stores-other-value", "EndBlock stored a base fee different from CalculateBaseFee", nil)
				}
			}
		})
		if (p == nil) != (p2 == nil) {
			side.Hit("C09/basefee/endblock-vs-calc", fmt.Sprintf("EndBlock panic=%v but CalculateBaseFee panic=%v", p2, p), nil)
		}

		c := basefeeCase{B: b.String(), Used: used, MaxGas: maxGas, MinDec: minDec.String(), Outcome: outcome}
		cases.Add(fmt.Sprintf("(%s, %s, %s, %s, %s)", CqZ(b), CqZu(used), CqZi(maxGas), CqZ(minDec), obs))
		side.Count("outcome:" + strings.SplitN(outcome, ":", 2)[0])
		switch {
		case used == target:
			side.Count("usage:at_target")
		case used > target:
			side.Count("usage:above")
		default:
			side.Count("usage:below")
		}
		side.Count(fmt.Sprintf("max_gas_class:%s", mgClass(maxGas)))
		side.Case(i, fmt.Sprintf("%s/%d/%d/%s", b, used, maxGas, minDec), b.Sign() > 0 && used != target, c)

		// direct oracle from the property text: computing never fails for valid consensus params
		if p != nil {
			sig := "C09/basefee/" + strings.ToLower(strings.SplitN(outcome, ":", 2)[0])
			if outcome == "PANIC_DIVZERO" {
				sig = fmt.Sprintf("C09/basefee/panic_divzero/max_gas=%d", maxGas)
				if maxGas > 1 || maxGas < 0 {
					sig = "C09/basefee/panic_divzero/other"
				}
			}
			if outcome == "PANIC_OVERFLOW" {
				// only the documented corner: result would exceed 2^256-1
				sig = "C09/basefee/panic_overflow/next_base_fee_exceeds_2^256-1"
			}
			side.Hit(sig, fmt.Sprintf("CalculateBaseFee panicked: %v", p), c)
		} else {
			// the property text, re-computed independently of the implementation and of the Coq model (hx.C09SpecNext):
			// never negative, never below trunc(min gas price), unchanged at the target, otherwise moved by
			// b x |used - target| / target / 8 in integer arithmetic, at least +1 above the target
			g := got.BigInt()
			minTrunc := C09FloorMin(minDec)
			want, cl := C09SpecNext(b, used, maxGas, minDec)
			side.Count("spec-class:" + cl)
			switch {
			case g.Sign() < 0:
				side.Hit("C09/basefee/negative", fmt.Sprintf("next base fee %s is negative", g), c)
			case g.Cmp(minTrunc) < 0:
				side.Hit("C09/basefee/below-floor", fmt.Sprintf("next base fee %s is below trunc(min gas price) %s", g, minTrunc), c)
			case g.Cmp(want) != 0:
				class := strings.TrimSuffix(cl, "-clamped")
				if class == "above-target" && g.Cmp(b) <= 0 {
					class = "above-target/not-raised-by-at-least-1"
				}
				if class == "below-target" && g.Cmp(b) > 0 {
					class = "below-target/raised"
				}
				side.Hit("C09/basefee/not-eip1559/"+class, fmt.Sprintf("next base fee %s, EIP-1559 from the property text gives %s (%s; target %s)", g, want, cl, C09Target(maxGas)), c)
			}
		}
	}
	cases.Write(t, 500)
	side.Write(t, dir)
}

func mgClass(m int64) string {
	switch {
	case m == -1:
		return "-1"
	case m == 0:
		return "0"
	case m == 1:
		return "1"
	case m < 10:
		return "2..9"
	case m < 1<<32:
		return "10..2^32"
	default:
		return ">=2^32"
	}
}
