package gethdiff

// Applying one transaction to the real evermint keeper and to go-ethereum's own state transition.

import (
	"errors"
	"fmt"
	"math"
	"math/big"
	"strings"
	"time"

	sdkmath "cosmossdk.io/math"
	sdk "github.com/cosmos/cosmos-sdk/types"
	authtypes "github.com/cosmos/cosmos-sdk/x/auth/types"
	"github.com/ethereum/go-ethereum/common"
	"github.com/ethereum/go-ethereum/core"
	"github.com/ethereum/go-ethereum/core/state"
	ethtypes "github.com/ethereum/go-ethereum/core/types"
	corevm "github.com/ethereum/go-ethereum/core/vm"
	"github.com/ethereum/go-ethereum/crypto"

	evertypes "github.com/EscanBE/evermint/v12/types"
	evmkeeper "github.com/EscanBE/evermint/v12/x/evm/keeper"
	evmvm "github.com/EscanBE/evermint/v12/x/evm/vm"

	. "verifharness/hx"
)

func crypto256(b []byte) common.Hash { return crypto.Keccak256Hash(b) }

type logView struct {
	Addr   common.Address
	Topics []common.Hash
	Data   []byte
}

func (l logView) String() string { return fmt.Sprintf("%x:%x:%x", l.Addr[:], l.Topics, l.Data) }

type outcome struct {
	Core    string // core (consensus) error class, "" when the transition ran
	Vm      string // vm error class, "" on success
	Ret     []byte
	GasUsed uint64
	Logs    []logView
	Panic   string
	// extra information from the traced run
	EvmGasUsed uint64 // gas consumed by the top-level frame
	Refund     uint64 // refund counter at the end of the top-level frame
	Ops        []opRec
}

var coreErrs = []struct {
	e error
	n string
}{
	{core.ErrNonceTooLow, "nonce-too-low"}, {core.ErrNonceTooHigh, "nonce-too-high"}, {core.ErrNonceMax, "nonce-max"},
	{core.ErrGasLimitReached, "gas-limit-reached"}, {core.ErrInsufficientFundsForTransfer, "insufficient-funds"},
	{core.ErrInsufficientFunds, "insufficient-funds"}, {core.ErrGasUintOverflow, "gas-uint-overflow"},
	{core.ErrIntrinsicGas, "intrinsic-gas"}, {core.ErrTxTypeNotSupported, "tx-type"}, {core.ErrTipAboveFeeCap, "tip-above-cap"},
	{core.ErrTipVeryHigh, "tip-very-high"}, {core.ErrFeeCapVeryHigh, "cap-very-high"}, {core.ErrFeeCapTooLow, "cap-too-low"},
	{core.ErrSenderNoEOA, "sender-no-eoa"},
}

func coreClass(err error) string {
	if err == nil {
		return ""
	}
	for _, c := range coreErrs {
		if errors.Is(err, c.e) {
			return c.n
		}
	}
	// cosmos errors may flatten the chain: fall back to the sentinel's text
	for _, c := range coreErrs {
		if strings.Contains(err.Error(), c.e.Error()) {
			return c.n
		}
	}
	return "other-core-error"
}

var vmErrClasses = []string{"out of gas", "execution reverted", "invalid opcode", "stack underflow", "stack limit reached", "invalid jump destination",
	"write protection", "return data out of bounds", "gas uint64 overflow", "contract address collision", "max code size exceeded",
	"invalid code: must not begin with 0xef", "contract creation code storage out of gas", "max call depth exceeded", "insufficient balance for transfer"}

func vmClass(s string) string {
	if s == "" {
		return ""
	}
	for _, c := range vmErrClasses {
		if strings.HasPrefix(s, c) {
			return c
		}
	}
	return "other:" + s
}

type blockEnv struct {
	cfg      *evmvm.EVMConfig
	blockCtx corevm.BlockContext
	signer   ethtypes.Signer
}

func (w *world) blockEnv(ctx sdk.Context) blockEnv {
	k := w.c.App.EvmKeeper
	cfg, err := k.EVMConfig(ctx, nil)
	if err != nil {
		w.t.Fatal(err)
	}
	return blockEnv{cfg: cfg,
		blockCtx: corevm.BlockContext{
			CanTransfer: core.CanTransfer, Transfer: core.Transfer, GetHash: k.GetHashFn(ctx), Coinbase: cfg.CoinBase,
			GasLimit: evertypes.BlockGasLimit(ctx), BlockNumber: big.NewInt(ctx.BlockHeight()), Time: big.NewInt(ctx.BlockHeader().Time.Unix()),
			Difficulty: big.NewInt(0), BaseFee: cfg.BaseFee,
		},
		signer: ethtypes.MakeSigner(cfg.ChainConfig, big.NewInt(ctx.BlockHeight())),
	}
}

// antePay emulates the fee deduction of the ante handler (gas limit x effective price to the fee collector).
func (w *world) antePay(ctx sdk.Context, msg core.Message) error {
	fee := new(big.Int).Mul(new(big.Int).SetUint64(msg.Gas()), msg.GasPrice())
	if fee.Sign() == 0 {
		return nil
	}
	coins := sdk.NewCoins(sdk.NewCoin(w.c.Denom(), sdkmath.NewIntFromBigInt(fee)))
	return w.c.App.BankKeeper.SendCoinsFromAccountToModule(ctx, sdk.AccAddress(msg.From().Bytes()), authtypes.FeeCollectorName, coins)
}

func receiptLogs(bz []byte) []logView {
	var rc ethtypes.Receipt
	if err := rc.UnmarshalBinary(bz); err != nil {
		return []logView{{Data: []byte("bad receipt " + err.Error())}}
	}
	return toLogViews(rc.Logs)
}

func toLogViews(ls []*ethtypes.Log) []logView {
	out := []logView{}
	for _, l := range ls {
		out = append(out, logView{Addr: l.Address, Topics: l.Topics, Data: l.Data})
	}
	return out
}

// runEvermint: the path of a delivered transaction after the ante handler: SetupExecutionContext + ApplyTransaction.
func (w *world) runEvermint(ctx sdk.Context, tx *ethtypes.Transaction, msg core.Message) (o outcome) {
	k := w.c.App.EvmKeeper
	if err := w.antePay(ctx, msg); err != nil {
		return outcome{Core: "insufficient-funds"}
	}
	k.SetFlagSenderPaidTxFeeInAnteHandle(ctx, true)
	ctx = k.SetupExecutionContext(ctx, tx)
	defer func() {
		if p := recover(); p != nil {
			o = outcome{Panic: fmt.Sprint(p)}
		}
	}()
	rsp, err := k.ApplyTransaction(ctx, tx)
	if err != nil {
		return outcome{Core: coreClass(err)}
	}
	return outcome{Vm: vmClass(rsp.VmError), Ret: rsp.Ret, GasUsed: rsp.GasUsed, Logs: receiptLogs(rsp.MarshalledReceipt)}
}

// topTracer notes the gas used by the top-level frame, the refund counter at its end and every address a frame touches.
type topTracer struct {
	db      corevm.StateDB
	gasUsed uint64
	refund  uint64
	addrs   map[common.Address]bool
	ops     map[string]int
	faults  map[string]int
	depth   int
	maxDep  int
}

func newTopTracer() *topTracer {
	return &topTracer{addrs: map[common.Address]bool{}, ops: map[string]int{}, faults: map[string]int{}}
}
func (t *topTracer) CaptureTxStart(uint64) {}
func (t *topTracer) CaptureTxEnd(uint64)   {}
func (t *topTracer) CaptureStart(env *corevm.EVM, from, to common.Address, create bool, input []byte, gas uint64, value *big.Int) {
	t.db = env.StateDB
	t.addrs[from], t.addrs[to] = true, true
}
func (t *topTracer) CaptureEnd(output []byte, gasUsed uint64, _ time.Duration, err error) {
	t.gasUsed = gasUsed
	if r, ok := t.db.(*recDB); ok {
		r.off = true
		t.refund = t.db.GetRefund()
		r.off = false
	} else if t.db != nil {
		t.refund = t.db.GetRefund()
	}
	if err != nil {
		t.faults["depth0:"+vmClass(err.Error())]++
	}
}
func (t *topTracer) CaptureEnter(typ corevm.OpCode, from, to common.Address, input []byte, gas uint64, value *big.Int) {
	t.addrs[from], t.addrs[to] = true, true
	t.depth++
	if t.depth > t.maxDep {
		t.maxDep = t.depth
	}
}
func (t *topTracer) CaptureExit(output []byte, gasUsed uint64, err error) {
	if err != nil {
		d := t.depth
		if d > 3 {
			d = 3
		}
		t.faults[fmt.Sprintf("depth%d:%s", d, vmClass(err.Error()))]++
	}
	t.depth--
}
func (t *topTracer) CaptureState(pc uint64, op corevm.OpCode, gas, cost uint64, scope *corevm.ScopeContext, rData []byte, depth int, err error) {
	t.ops[op.String()]++
}
func (t *topTracer) CaptureFault(pc uint64, op corevm.OpCode, gas, cost uint64, scope *corevm.ScopeContext, depth int, err error) {
}

// traceEvermint: the same transition composed from the exported pieces (NewStateDB, NewEVM, ApplyMessage,
// CommitMultiStore) with a recording proxy around the StateDB and a tracer; used on a scratch branch on which
// the ante fee has already been paid.
func (w *world) traceEvermint(ctx sdk.Context, be blockEnv, msg core.Message) (o outcome, tr *topTracer) {
	k := w.c.App.EvmKeeper
	tr = newTopTracer()
	defer func() {
		if p := recover(); p != nil {
			o.Panic = fmt.Sprint(p)
		}
	}()
	sdb := evmvm.NewStateDB(ctx, be.cfg.CoinBase, k, w.c.App.AccountKeeper, w.c.App.BankKeeper)
	rec := &recDB{in: sdb}
	evm := k.NewEVM(ctx, msg, be.cfg, tr, rec)
	gp := core.GasPool(msg.Gas())
	res, err := evmkeeper.ApplyMessage(evm, msg, &gp, func(st *evmkeeper.StateTransition) { st.SenderPaidTheFee = true })
	o.Ops = rec.log
	if err != nil {
		o.Core = coreClass(err)
		return o, tr
	}
	o.Logs = toLogViews(sdb.GetTransactionLogs())
	if err := sdb.CommitMultiStore(true); err != nil {
		o.Panic = "commit: " + err.Error()
	}
	o.Ops = append(o.Ops, opRec{Op: "Finalise"})
	o.GasUsed, o.Ret = res.UsedGas, res.ReturnData
	if res.Err != nil {
		o.Vm = vmClass(res.Err.Error())
		o.Logs = []logView{}
	}
	o.EvmGasUsed, o.Refund = tr.gasUsed, tr.refund
	return o, tr
}

// refStateDB is go-ethereum's StateDB plus exactly the documented differences in the initial access
// list: registered custom precompiles and the coinbase are warm.
type refStateDB struct {
	*state.StateDB
	extraWarm []common.Address
}

func (r *refStateDB) PrepareAccessList(sender common.Address, dst *common.Address, precompiles []common.Address, list ethtypes.AccessList) {
	r.StateDB.PrepareAccessList(sender, dst, precompiles, list)
	for _, a := range r.extraWarm {
		r.StateDB.AddAddressToAccessList(a)
	}
}

// runGeth applies the message with go-ethereum's core.ApplyMessage over go-ethereum's StateDB, then Finalise(true).
func (w *world) runGeth(s *state.StateDB, be blockEnv, msg core.Message, txHash common.Hash, txIdx int, record bool) (o outcome, tr *topTracer) {
	ref := &refStateDB{StateDB: s, extraWarm: append(append([]common.Address{}, w.cpcs...), be.cfg.CoinBase)}
	var db corevm.StateDB = ref
	var rec *recDB
	tr = newTopTracer()
	vmCfg := corevm.Config{ExtraEips: be.cfg.Params.EIPs(), NoBaseFee: be.cfg.NoBaseFee}
	if record {
		rec = &recDB{in: ref}
		db = rec
		vmCfg.Debug, vmCfg.Tracer = true, tr
	}
	s.Prepare(txHash, txIdx)
	evm := corevm.NewEVM(be.blockCtx, core.NewEVMTxContext(msg), db, be.cfg.ChainConfig, vmCfg)
	gp := new(core.GasPool).AddGas(math.MaxUint64)
	defer func() {
		if p := recover(); p != nil {
			o.Panic = fmt.Sprint(p)
		}
	}()
	res, err := core.ApplyMessage(evm, msg, gp)
	if rec != nil {
		o.Ops = rec.log
	}
	if err != nil {
		o.Core = coreClass(err)
		return o, tr
	}
	o.Logs = toLogViews(s.GetLogs(txHash, common.Hash{}))
	s.Finalise(true)
	o.Ops = append(o.Ops, opRec{Op: "Finalise"})
	o.GasUsed, o.Ret = res.UsedGas, res.ReturnData
	if res.Err != nil {
		o.Vm = vmClass(res.Err.Error())
	}
	o.EvmGasUsed, o.Refund = tr.gasUsed, tr.refund
	return o, tr
}

var _ = Bi
