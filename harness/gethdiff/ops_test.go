package gethdiff

// Part (a) of the `gethdiff` driver: random sequences of core/vm.StateDB interface operations, NOT filtered by
// what the interpreter would do (raw Exist, SetState on non-contracts, CreateAccount after Suicide, double
// reverts, refunds below zero, credits to module accounts, ...), applied to the real evermint CStateDB over a
// live application context and to go-ethereum's own StateDB over a memory database holding the same EVM view.
// Every returned value is recorded; Corr/CorrGethDiff.v replays each side's sequence on that side's model
// (CRandEvm / CRandGeth), including the operation at which the implementation panicked, and compares the
// EVM view after the end-of-transaction step.  The two real traces are compared with each other for information
// only (histogram): outside the interpreter's discipline they legitimately differ (Properties/C02.v, _refuted).

import (
	"fmt"
	"math/big"

	sdk "github.com/cosmos/cosmos-sdk/types"
	"github.com/ethereum/go-ethereum/common"
	ethtypes "github.com/ethereum/go-ethereum/core/types"
	corevm "github.com/ethereum/go-ethereum/core/vm"

	evmvm "github.com/EscanBE/evermint/v12/x/evm/vm"

	. "verifharness/hx"
)

type randOp struct {
	kind string
	a    common.Address
	k    common.Hash
	v    *big.Int
	code []byte
	n    int // ordinal for reverts
	prep *prepArgs
	log  *ethtypes.Log
}

func (w *world) opsUniverse() []common.Address {
	return []common.Address{w.senders[0].GetEthAddress(), w.funded, w.contracts[0], w.contracts[1], w.absent[0], w.emptyExisting,
		common.BytesToAddress([]byte{3}), w.codelessNonce, w.evmModule}
}

func genRandOps(r *Rng, w *world, n int) []randOp {
	u := w.opsUniverse()
	addr := func() common.Address {
		if r.Chance(3) {
			return u[len(u)-1] // module account: rarely
		}
		return u[r.Intn(len(u)-1)]
	}
	key := func() common.Hash { return common.BigToHash(slotKeys[r.Intn(3)]) }
	amt := func() *big.Int { return []*big.Int{Bi(0), Bi(0), Bi(1), Bi(5), Bi(1000), Bi(100000)}[r.Intn(6)] }
	codes := [][]byte{nil, {0x00}, {0x60, 0x00, 0xf3}}
	var ops []randOp
	snaps := 0
	if r.Chance(60) {
		a := addr()
		ops = append(ops, randOp{kind: "PrepareAccessList", prep: &prepArgs{Sender: addr(), Dst: &a, Precompiles: []common.Address{common.BytesToAddress([]byte{1}), common.BytesToAddress([]byte{3})},
			List: ethtypes.AccessList{{Address: addr(), StorageKeys: []common.Hash{key()}}}}})
	}
	for i := 0; i < n; i++ {
		switch k := r.Intn(100); {
		case k < 4:
			ops = append(ops, randOp{kind: "CreateAccount", a: addr()})
		case k < 10:
			ops = append(ops, randOp{kind: "SubBalance", a: addr(), v: []*big.Int{Bi(0), Bi(0), Bi(1), Bi(2), Bi(3), Bi(100000)}[r.Intn(6)]})
		case k < 18:
			ops = append(ops, randOp{kind: "AddBalance", a: addr(), v: amt()})
		case k < 22:
			ops = append(ops, randOp{kind: "GetBalance", a: addr()})
		case k < 25:
			ops = append(ops, randOp{kind: "GetNonce", a: addr()})
		case k < 29:
			ops = append(ops, randOp{kind: "SetNonce", a: addr(), v: Bi(int64(r.Intn(4)))})
		case k < 33:
			ops = append(ops, randOp{kind: "GetCodeHash", a: addr()})
		case k < 35:
			ops = append(ops, randOp{kind: "GetCode", a: addr()})
		case k < 39:
			ops = append(ops, randOp{kind: "SetCode", a: addr(), code: codes[r.Intn(len(codes))]})
		case k < 41:
			ops = append(ops, randOp{kind: "GetCodeSize", a: addr()})
		case k < 44:
			if r.Chance(4) {
				ops = append(ops, randOp{kind: "AddRefund", v: new(big.Int).SetUint64(^uint64(0) - uint64(r.Intn(3)))}) // uint64 overflow: go-ethereum wraps, evermint panics
			} else {
				ops = append(ops, randOp{kind: "AddRefund", v: Bi(int64(r.Intn(5000)))})
			}
		case k < 46:
			ops = append(ops, randOp{kind: "SubRefund", v: Bi(int64(r.Intn(8) * r.Intn(8) * r.Intn(60)))})
		case k < 47:
			ops = append(ops, randOp{kind: "GetRefund"})
		case k < 52:
			ops = append(ops, randOp{kind: "GetCommittedState", a: addr(), k: key()})
		case k < 56:
			ops = append(ops, randOp{kind: "GetState", a: addr(), k: key()})
		case k < 65:
			ops = append(ops, randOp{kind: "SetState", a: addr(), k: key(), v: []*big.Int{Bi(0), Bi(0), Bi(1), Bi(2)}[r.Intn(4)]})
		case k < 68:
			ops = append(ops, randOp{kind: "Suicide", a: addr()})
		case k < 70:
			ops = append(ops, randOp{kind: "HasSuicided", a: addr()})
		case k < 74:
			ops = append(ops, randOp{kind: "Exist", a: addr()})
		case k < 79:
			ops = append(ops, randOp{kind: "Empty", a: addr()})
		case k < 80:
			// PrepareAccessList replaces the list object: go-ethereum's journal entries of earlier access-list changes would
			// then be replayed against the new list (a panic the full-copy model does not have), so it is generated only as
			// the first operation, where the real transition calls it
			if i == 0 || len(ops) == 0 {
				a := addr()
				p := &prepArgs{Sender: addr(), Precompiles: []common.Address{common.BytesToAddress([]byte{1}), common.BytesToAddress([]byte{3})},
					List: ethtypes.AccessList{{Address: addr(), StorageKeys: []common.Hash{key()}}}}
				if r.Bool() {
					p.Dst = &a
				}
				ops = append(ops, randOp{kind: "PrepareAccessList", prep: p})
			}
		case k < 82:
			ops = append(ops, randOp{kind: "AddressInAccessList", a: u[r.Intn(4)]})
		case k < 84:
			ops = append(ops, randOp{kind: "SlotInAccessList", a: u[r.Intn(3)], k: key()})
		case k < 86:
			ops = append(ops, randOp{kind: "AddAddressToAccessList", a: u[r.Intn(4)]})
		case k < 88:
			ops = append(ops, randOp{kind: "AddSlotToAccessList", a: u[r.Intn(3)], k: key()})
		case k < 94:
			ops = append(ops, randOp{kind: "Snapshot"})
			snaps++
		case k < 98:
			if snaps > 0 {
				n := snaps - 1 - r.Intn(min(snaps, 3)) // mostly recent ones, sometimes stale
				ops = append(ops, randOp{kind: "RevertToSnapshot", n: n})
			}
		default:
			ops = append(ops, randOp{kind: "AddLog", log: &ethtypes.Log{Address: addr(), Topics: []common.Hash{key()}, Data: []byte{byte(r.Intn(3))}}})
		}
		// look at what a mutating operation left behind, on the same address
		if len(ops) > 0 && r.Chance(45) {
			last := ops[len(ops)-1]
			switch last.kind {
			case "CreateAccount", "SubBalance", "AddBalance", "SetNonce", "SetCode", "SetState", "Suicide", "RevertToSnapshot":
				a := last.a
				if last.kind == "RevertToSnapshot" {
					a = addr()
				}
				obsKinds := []string{"GetCommittedState", "GetState", "Empty", "Exist", "GetBalance", "GetNonce", "GetCodeHash", "GetCodeSize", "HasSuicided", "GetCommittedState"}
				for j, m := 0, 1+r.Intn(3); j < m; j++ {
					ops = append(ops, randOp{kind: obsKinds[r.Intn(len(obsKinds))], a: a, k: key()})
				}
			}
		}
	}
	return ops
}

// applyRandOps applies the operations through the recording proxy until one panics; ids holds what Snapshot returned.
func applyRandOps(rec *recDB, ops []randOp) (panicAt int, panicMsg string) {
	var ids []int
	for i, o := range ops {
		p := CatchPanic(func() {
			switch o.kind {
			case "CreateAccount":
				rec.CreateAccount(o.a)
			case "SubBalance":
				rec.SubBalance(o.a, o.v)
			case "AddBalance":
				rec.AddBalance(o.a, o.v)
			case "GetBalance":
				rec.GetBalance(o.a)
			case "GetNonce":
				rec.GetNonce(o.a)
			case "SetNonce":
				rec.SetNonce(o.a, o.v.Uint64())
			case "GetCodeHash":
				rec.GetCodeHash(o.a)
			case "GetCode":
				rec.GetCode(o.a)
			case "SetCode":
				rec.SetCode(o.a, o.code)
			case "GetCodeSize":
				rec.GetCodeSize(o.a)
			case "AddRefund":
				rec.AddRefund(o.v.Uint64())
			case "SubRefund":
				rec.SubRefund(o.v.Uint64())
			case "GetRefund":
				rec.GetRefund()
			case "GetCommittedState":
				rec.GetCommittedState(o.a, o.k)
			case "GetState":
				rec.GetState(o.a, o.k)
			case "SetState":
				rec.SetState(o.a, o.k, common.BigToHash(o.v))
			case "Suicide":
				rec.Suicide(o.a)
			case "HasSuicided":
				rec.HasSuicided(o.a)
			case "Exist":
				rec.Exist(o.a)
			case "Empty":
				rec.Empty(o.a)
			case "PrepareAccessList":
				rec.PrepareAccessList(o.prep.Sender, o.prep.Dst, o.prep.Precompiles, o.prep.List)
			case "AddressInAccessList":
				rec.AddressInAccessList(o.a)
			case "SlotInAccessList":
				rec.SlotInAccessList(o.a, o.k)
			case "AddAddressToAccessList":
				rec.AddAddressToAccessList(o.a)
			case "AddSlotToAccessList":
				rec.AddSlotToAccessList(o.a, o.k)
			case "Snapshot":
				ids = append(ids, rec.Snapshot())
			case "RevertToSnapshot":
				rec.RevertToSnapshot(ids[o.n])
			case "AddLog":
				rec.AddLog(o.log)
			}
		})
		if p != nil {
			return i, fmt.Sprint(p)
		}
	}
	return -1, ""
}

// panicOpTerm renders the operation that panicked as a Coq op (arguments only).
func (t *codeTable) panicOpTerm(o randOp, rec *recDB) string {
	switch o.kind {
	case "CreateAccount":
		return fmt.Sprintf("(OCreateAccount %s)", az(o.a))
	case "SubBalance":
		return fmt.Sprintf("(OSubBalance %s %s)", az(o.a), zz(o.v))
	case "AddBalance":
		return fmt.Sprintf("(OAddBalance %s %s)", az(o.a), zz(o.v))
	case "AddRefund":
		return fmt.Sprintf("(OAddRefund %s)", zz(o.v))
	case "SubRefund":
		return fmt.Sprintf("(OSubRefund %s)", zz(o.v))
	case "Suicide":
		return fmt.Sprintf("(OSuicide %s)", az(o.a))
	case "SetNonce":
		return fmt.Sprintf("(OSetNonce %s %s)", az(o.a), zz(o.v))
	case "SetCode":
		return fmt.Sprintf("(OSetCode %s %s)", az(o.a), zz(t.id(o.code)))
	case "SetState":
		return fmt.Sprintf("(OSetState %s %s %s)", az(o.a), hz(o.k), zz(o.v))
	case "RevertToSnapshot":
		return fmt.Sprintf("(ORevert %d%%nat)", o.n)
	case "Finalise":
		return "OFinalise"
	}
	return ""
}

type randReport struct {
	Case   int      `json:"case"`
	Seed   uint64   `json:"seed"`
	Ops    []string `json:"ops"`
	EvmObs []string `json:"evermint"`
	GethObs []string `json:"geth"`
	Notes  []string `json:"notes,omitempty"`
}

// runRandCase: one random sequence on both real implementations; returns the Coq terms.
func runRandCase(w *world, r *Rng, idx int, seed uint64, side *Sidecar) (terms []string, canon string) {
	t := newCodeTable()
	base, _ := w.c.Ctx().CacheContext()
	g := &gen{r: r, w: w, feat: map[string]int{}}
	// pre-state: a small universe with random contents (also shapes the interpreter never leaves behind:
	// storage without code, an existing empty account at the ripemd address)
	var pre []preAcct
	bal := func() *big.Int { return []*big.Int{Bi(0), Bi(3), Bi(5000)}[r.Intn(3)] }
	for i := 0; i < 2; i++ {
		p := preAcct{Addr: w.contracts[i], Nonce: uint64(r.Intn(2)), Balance: bal(), Code: g.leafRuntime(), Storage: map[common.Hash]common.Hash{}}
		for _, k := range slotKeys[:3] {
			if r.Chance(50) {
				p.Storage[common.BigToHash(k)] = common.BigToHash(Bi(int64(1 + r.Intn(2))))
			}
		}
		pre = append(pre, p)
	}
	pre = append(pre, preAcct{Addr: w.senders[0].GetEthAddress(), Exists: true, Balance: Bi(1_000_000)})
	pre = append(pre, preAcct{Addr: w.funded, Balance: Bi(77)}, preAcct{Addr: w.emptyExisting, Exists: true}, preAcct{Addr: w.codelessNonce, Nonce: 5})
	if r.Chance(30) {
		pre = append(pre, preAcct{Addr: common.BytesToAddress([]byte{3}), Exists: true})
		side.Count("rand:pre-empty-account-at-ripemd")
	}
	if r.Chance(15) {
		pre = append(pre, preAcct{Addr: w.absent[0], Storage: map[common.Hash]common.Hash{common.BigToHash(Bi(1)): common.BigToHash(Bi(9))}})
		side.Count("rand:pre-storage-without-code")
	}
	for _, p := range pre {
		w.writePre(base, p)
	}
	universe := dedup(w.opsUniverse())
	gs, _ := w.mirror(base, universe)
	// two transactions: the second one looks at what the end-of-transaction step of the first left behind
	ops1 := genRandOps(r, w, 20+r.Intn(50))
	ops2 := genRandOps(r, w, 4+r.Intn(14))
	k1 := len(ops1)
	ops := append(append(append([]randOp{}, ops1...), randOp{kind: "Finalise"}), ops2...)
	ops = append(ops, randOp{kind: "Finalise"})
	rep := randReport{Case: idx, Seed: seed}
	for _, o := range ops {
		rep.Ops = append(rep.Ops, o.kind)
		side.Count("randop:" + o.kind)
	}

	views := func(f func(a common.Address) acctView, raw bool, num func(a common.Address) uint64) (pre []string) {
		for _, a := range universe {
			if v := f(a); !blankView(v) {
				pre = append(pre, t.preTerm(a, v, num(a), raw))
			}
		}
		return
	}
	posts := func(f func(a common.Address) acctView) (post []string) {
		for _, a := range universe {
			post = append(post, t.postTerm(a, f(a)))
		}
		return
	}

	// ---- evermint
	preE := views(func(a common.Address) acctView { return w.evmView(base, a) }, true, func(a common.Address) uint64 { return w.accountNumber(base, a) })
	nextNum := w.nextAccountNumber(base)
	cfg, _ := w.c.App.EvmKeeper.EVMConfig(base, nil)
	newSdb := func() evmvm.CStateDB {
		return evmvm.NewStateDB(base, cfg.CoinBase, w.c.App.EvmKeeper, w.c.App.AccountKeeper, w.c.App.BankKeeper)
	}
	sdb := newSdb()
	recE := &recDB{in: sdb}
	pE, msgE := applyRandOps(recE, ops[:k1])
	if pE < 0 {
		if p := CatchPanic(func() { _ = sdb.CommitMultiStore(true) }); p != nil {
			pE, msgE = k1, fmt.Sprint(p)
		} else {
			recE.log = append(recE.log, opRec{Op: "Finalise"})
			// the next transaction gets a new StateDB over the committed context
			sdb2 := newSdb()
			recE2 := &recDB{in: sdb2, nsnap: recE.nsnap}
			p2, m2 := applyRandOps(recE2, ops[k1+1:len(ops)-1])
			if p2 >= 0 {
				pE, msgE = k1+1+p2, m2
			} else if p := CatchPanic(func() { _ = sdb2.CommitMultiStore(true) }); p != nil {
				pE, msgE = len(ops)-1, fmt.Sprint(p)
			} else {
				recE2.log = append(recE2.log, opRec{Op: "Finalise"})
			}
			recE.log = append(recE.log, recE2.log...)
		}
	}
	// ---- go-ethereum: the same StateDB goes on after Finalise
	preG := views(func(a common.Address) acctView { return gethView(gs, a) }, false, func(common.Address) uint64 { return 0 })
	var gdb corevm.StateDB = &refStateDB{StateDB: gs, extraWarm: []common.Address{cfg.CoinBase}}
	recG := &recDB{in: gdb}
	pG, msgG := applyRandOps(recG, ops[:k1])
	if pG < 0 {
		gs.Finalise(true)
		recG.log = append(recG.log, opRec{Op: "Finalise"})
		recG.lastOf, recG.live = nil, nil
		p2, m2 := applyRandOps(recG, ops[k1+1:len(ops)-1])
		if p2 >= 0 {
			pG, msgG = k1+1+p2, m2
		} else {
			gs.Finalise(true)
			recG.log = append(recG.log, opRec{Op: "Finalise"})
		}
	}

	emit := func(isGeth bool, rec *recDB, panicAt int, pre []string, post []string) {
		ot, ok := t.opsTerm(rec.log)
		if !ok {
			side.Count("rand:unrenderable")
			return
		}
		panicTerm := "None"
		if panicAt >= 0 {
			pt := t.panicOpTerm(ops[panicAt], rec)
			if pt == "" {
				side.Count("rand:panic-in-unexpected-op:" + ops[panicAt].kind)
				side.Hit("C02/gethdiff/ops/panic-in-"+ops[panicAt].kind, fmt.Sprintf("geth=%v: %s / %s", isGeth, msgE, msgG), rep)
				return
			}
			panicTerm = "(Some " + pt + ")"
			post = nil
		}
		if isGeth {
			terms = append(terms, fmt.Sprintf("CRandGeth %s\n   %s\n   %s\n   %s\n   %s", CqList([]string{az(cfg.CoinBase)}), CqList(pre), ot, panicTerm, CqList(post)))
		} else {
			terms = append(terms, fmt.Sprintf("CRandEvm %s %s %s\n   %s\n   %s\n   %s\n   %s", CqList([]string{az(cfg.CoinBase)}), w.modsTerm(), zu(nextNum), CqList(pre), ot, panicTerm, CqList(post)))
		}
	}
	emit(false, recE, pE, preE, posts(func(a common.Address) acctView { return w.evmView(base, a) }))
	emit(true, recG, pG, preG, posts(func(a common.Address) acctView { return gethView(gs, a) }))
	if pE >= 0 {
		side.Count("rand:evermint-panic-in:" + ops[pE].kind)
		rep.Notes = append(rep.Notes, "evermint panic: "+msgE)
	}
	if pG >= 0 {
		side.Count("rand:geth-panic-in:" + ops[pG].kind)
		rep.Notes = append(rep.Notes, "go-ethereum panic: "+msgG)
	}
	// information only: do the two real traces agree?
	same := pE == pG && len(recE.log) == len(recG.log)
	if same {
		for i := range recE.log {
			if !recE.log[i].same(recG.log[i]) && !(recE.log[i].Op == "Snapshot" && recG.log[i].Op == "Snapshot") {
				same = false
				break
			}
		}
	}
	if same {
		side.Count("rand:both-implementations-same-trace")
	} else {
		side.Count("rand:implementations-differ(outside-discipline)")
	}
	for _, o := range recE.log {
		rep.EvmObs = append(rep.EvmObs, o.String())
	}
	for _, o := range recG.log {
		rep.GethObs = append(rep.GethObs, o.String())
	}
	side.Case(caseKey(idx), fmt.Sprint(rep.Ops, rep.EvmObs), true, rep)
	return terms, ""
}

var _ = sdk.AccAddress{}
