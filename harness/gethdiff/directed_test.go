package gethdiff

// Directed scenarios: the situations DESIGN.md / the code reading single out, run before the random cases.

import (
	"fmt"
	"math/big"

	"github.com/ethereum/go-ethereum/common"
	ethtypes "github.com/ethereum/go-ethereum/core/types"
	"github.com/ethereum/go-ethereum/crypto"

	. "verifharness/hx"
)

type scenario struct {
	name  string
	pre   func(w *world) []preAcct
	txs   []txSpec
	extra []common.Address
}

func one18() *big.Int { return new(big.Int).Exp(Bi(10), Bi(18), nil) }

func basePre(w *world, codes map[int][]byte, more ...preAcct) []preAcct {
	var pre []preAcct
	for i, a := range w.contracts {
		c := codes[i]
		if c == nil {
			c = []byte{opSTOP}
		}
		pre = append(pre, preAcct{Addr: a, Nonce: 1, Balance: Bi(5000), Code: c, Storage: map[common.Hash]common.Hash{common.BigToHash(Bi(1)): common.BigToHash(Bi(1))}})
	}
	rich := new(big.Int).Exp(Bi(10), Bi(22), nil)
	for _, s := range w.senders {
		pre = append(pre, preAcct{Addr: s.GetEthAddress(), Exists: true, Balance: rich})
	}
	pre = append(pre, preAcct{Addr: w.emptyExisting, Exists: true}, preAcct{Addr: w.funded, Balance: Bi(12345)}, preAcct{Addr: w.codelessNonce, Nonce: 5})
	return append(pre, more...)
}

func callTx(to common.Address, value int64, gas uint64) txSpec {
	return txSpec{Sender: 0, To: &to, Value: Bi(value), Gas: gas, Type: 0}
}

func build(f func(p *prog)) []byte {
	p := newProg(map[string]int{})
	f(p)
	return p.a.Bytes()
}

func directedScenarios(w *world) []*scenario {
	c := w.contracts
	ripemd := common.BytesToAddress([]byte{3})
	var out []*scenario
	add := func(name string, codes map[int][]byte, more []preAcct, extra []common.Address, txs ...txSpec) {
		out = append(out, &scenario{name: name, pre: func(w *world) []preAcct { return basePre(w, codes, more...) }, txs: txs, extra: extra})
	}
	// BALANCE / EXTCODEHASH of the zero address, coinbase, a custom precompile address, a cold fresh address
	add("warmth-of-special-addresses", map[int][]byte{0: build(func(p *prog) {
		p.ext(opBALANCE, "BALANCE", common.Address{})
		p.ext(opBALANCE, "BALANCE", w.coinbase)
		for _, a := range w.cpcs {
			p.ext(opEXTCODESIZE, "EXTCODESIZE", a)
		}
		p.ext(opEXTCODEHASH, "EXTCODEHASH", w.absent[0])
		p.ext(opBALANCE, "BALANCE", common.BytesToAddress([]byte{9}))
		p.env(opGAS, "GAS")
		p.end(endReturn, common.Address{})
	})}, nil, nil, callTx(c[0], 0, 200000))
	// value sent to a module account (blocked recipient in the bank module)
	add("value-to-module-account", map[int][]byte{0: build(func(p *prog) {
		p.call(opCALL, "CALL", w.moduleAddr, Bi(7), nil, 0)
		p.end(endReturn, common.Address{})
	})}, nil, nil, callTx(c[0], 0, 200000))
	add("tx-value-to-module-account", nil, nil, nil, callTx(w.moduleAddr, 5, 60000))
	// zero-value call of a module account (touched; empty when it holds nothing)
	add("zero-value-call-of-module-account", map[int][]byte{0: build(func(p *prog) {
		p.call(opCALL, "CALL", w.moduleAddr, Bi(0), nil, 0)
		p.end(endReturn, common.Address{})
	})}, nil, nil, callTx(c[0], 0, 200000))
	// ripemd touched inside a frame that runs out of gas, with an existing empty account at 0x03
	add("ripemd-touched-in-reverted-frame", map[int][]byte{0: build(func(p *prog) {
		p.call(opCALL, "CALL", c[1], Bi(0), Bi(30000), 0)
		p.ext(opBALANCE, "BALANCE", ripemd)
		p.end(endReturn, common.Address{})
	}), 1: build(func(p *prog) {
		p.call(opCALL, "CALL", ripemd, Bi(0), nil, 0)
		p.end(endInvalid, common.Address{})
	})}, []preAcct{{Addr: ripemd, Exists: true}}, nil, callTx(c[0], 0, 200000), callTx(ripemd, 0, 30000))
	// selfdestruct, then the same address is called, receives value, and is looked at, in the same and in the next transaction
	add("selfdestruct-then-use", map[int][]byte{0: build(func(p *prog) {
		p.call(opCALL, "CALL", c[1], Bi(0), nil, 0)
		p.call(opCALL, "CALL", c[1], Bi(3), nil, 0)
		p.ext(opBALANCE, "BALANCE", c[1])
		p.ext(opEXTCODEHASH, "EXTCODEHASH", c[1])
		p.ext(opEXTCODESIZE, "EXTCODESIZE", c[1])
		p.end(endReturn, common.Address{})
	}), 1: build(func(p *prog) {
		p.sstore(Bi(2), Bi(9))
		p.end(endSelfdestruct, w.absent[0])
	})}, nil, nil, callTx(c[0], 0, 300000), callTx(c[0], 0, 300000), callTx(c[1], 1, 100000))
	// CREATE2: deploy, call the child (it selfdestructs), create again at the same address (collision), look at it;
	// the next transaction runs the same code: the child is gone, so the creation succeeds again with fresh storage
	{
		feat := map[string]int{}
		child := build(func(p *prog) { p.sload(Bi(0)); p.sstore(Bi(0), Bi(5)); p.end(endSelfdestruct, w.funded) })
		init := initReturning(func(p *prog) { p.sstore(Bi(1), Bi(7)) }, child, feat)
		childAddr := crypto.CreateAddress2(c[0], common.BigToHash(Bi(0)), crypto.Keccak256(init))
		add("create2-selfdestruct-recreate", map[int][]byte{0: build(func(p *prog) {
			p.create(true, Bi(1), init, Bi(0))
			p.call(opCALL, "CALL", childAddr, Bi(2), nil, 0)
			p.create(true, Bi(1), init, Bi(0))
			p.ext(opBALANCE, "BALANCE", childAddr)
			p.ext(opEXTCODEHASH, "EXTCODEHASH", childAddr)
			p.end(endReturn, common.Address{})
		})}, nil, []common.Address{childAddr}, callTx(c[0], 0, 500000), callTx(c[0], 0, 500000), callTx(childAddr, 0, 100000))
	}
	// SSTORE net metering and refunds against the committed value, across two transactions
	add("sstore-refund-sequences", map[int][]byte{0: build(func(p *prog) {
		p.sstore(Bi(1), Bi(0))
		p.sstore(Bi(1), Bi(1))
		p.sstore(Bi(1), Bi(0))
		p.sstore(Bi(2), Bi(5))
		p.sstore(Bi(2), Bi(0))
		p.sstore(Bi(3), Bi(4))
		p.env(opGAS, "GAS")
		p.end(endReturn, common.Address{})
	})}, nil, nil, callTx(c[0], 0, 200000), callTx(c[0], 0, 200000))
	// zero-value transfer to a fresh address (touched, stays absent), then calls that look at it
	add("touch-absent-then-look", map[int][]byte{0: build(func(p *prog) {
		p.call(opCALL, "CALL", w.absent[0], Bi(0), nil, 0)
		p.call(opSTATICCALL, "STATICCALL", w.absent[1], Bi(0), nil, 0)
		p.ext(opEXTCODEHASH, "EXTCODEHASH", w.absent[0])
		p.ext(opEXTCODEHASH, "EXTCODEHASH", w.absent[1])
		p.call(opCALL, "CALL", w.absent[1], Bi(0), nil, 0)
		p.call(opCALL, "CALL", w.absent[1], Bi(1), nil, 0)
		p.ext(opEXTCODEHASH, "EXTCODEHASH", w.absent[1])
		p.call(opCALL, "CALL", w.emptyExisting, Bi(0), nil, 0)
		p.end(endSelfdestruct, w.absent[0])
	})}, nil, nil, callTx(c[0], 0, 400000), callTx(w.emptyExisting, 0, 50000), callTx(w.absent[0], 0, 50000))
	// deep recursion: every level bumps a storage slot and calls itself with all remaining gas; the innermost levels run
	// out of gas and are reverted one by one (hundreds of nested snapshots)
	add("deep-recursion", map[int][]byte{0: build(func(p *prog) {
		p.a.PushU(1).PushU(0).Op(opSLOAD).Op(opADD).PushU(0).Op(opSSTORE)
		p.call(opCALL, "CALL", c[0], Bi(0), nil, 0)
		p.sload(Bi(0))
		p.end(endReturn, common.Address{})
	})}, nil, nil, callTx(c[0], 0, 3000000), callTx(c[0], 0, 400000))
	// the block and transaction context the interpreter reports
	add("block-context", map[int][]byte{0: build(func(p *prog) {
		for _, e := range []struct {
			op byte
			n  string
		}{{opTIMESTAMP, "TIMESTAMP"}, {opNUMBER, "NUMBER"}, {opCOINBASE, "COINBASE"}, {opBASEFEE, "BASEFEE"}, {opGASLIMIT, "GASLIMIT"}, {opCHAINID, "CHAINID"},
			{opDIFFICULTY, "DIFFICULTY"}, {opGASPRICE, "GASPRICE"}, {opORIGIN, "ORIGIN"}, {opCALLER, "CALLER"}, {opCALLVALUE, "CALLVALUE"}, {opSELFBALANCE, "SELFBALANCE"},
			{opCODESIZE, "CODESIZE"}, {opCALLDATASIZE, "CALLDATASIZE"}, {opADDRESS, "ADDRESS"}, {opPUSH0, "PUSH0"}} {
			p.env(e.op, e.n)
		}
		for n := uint64(0); n < 6; n++ {
			p.blockhash(n)
		}
		p.blockhash(1 << 40)
		p.end(endReturn, common.Address{})
	})}, nil, nil, txSpec{Sender: 1, To: &c[0], Value: Bi(17), Gas: 200000, Type: 2, Data: []byte{1, 2, 3}}, callTx(c[0], 0, 200000))
	// everything a reverted frame did to the access list, the refund counter, the logs and the self-destruct set must be
	// gone: a DELEGATECALL frame (same storage context) warms slots and addresses, clears a slot (refund), logs,
	// self-destructs, then fails; the caller then touches the same slots / addresses and reports GAS
	for ei, endKind := range []int{endRevert, endInvalid, endRevert} {
		ei, endKind := ei, endKind
		add(fmt.Sprintf("reverted-frame-leaves-no-trace-%d", ei), map[int][]byte{0: build(func(p *prog) {
			p.sload(Bi(0))
			p.call(opDELEGATECALL, "DELEGATECALL", c[1], Bi(0), Bi(100000), 0)
			p.env(opGAS, "GAS")
			p.sload(Bi(1))
			p.env(opGAS, "GAS")
			p.sstore(Bi(2), Bi(7))
			p.env(opGAS, "GAS")
			p.ext(opBALANCE, "BALANCE", w.absent[1])
			p.env(opGAS, "GAS")
			p.sstore(Bi(1), Bi(0))
			p.call(opCALL, "CALL", c[2], Bi(0), Bi(100000), 0)
			p.ext(opEXTCODESIZE, "EXTCODESIZE", c[3])
			p.env(opGAS, "GAS")
			if ei == 2 {
				// credit the contract that self-destructed inside the reverted frame: it is touched again, and must survive
				p.end(endSelfdestruct, c[3])
			} else {
				p.end(endReturn, common.Address{})
			}
		}), 1: build(func(p *prog) {
			p.sload(Bi(1))
			p.sstore(Bi(2), Bi(9))
			p.sstore(Bi(1), Bi(0))
			p.ext(opBALANCE, "BALANCE", w.absent[1])
			p.logn(1, 8, []*big.Int{Bi(5)})
			p.end(endKind, common.Address{})
		}), 2: build(func(p *prog) {
			p.ext(opEXTCODEHASH, "EXTCODEHASH", c[3])
			p.sstore(Bi(1), Bi(0))
			p.logn(0, 4, nil)
			p.call(opCALL, "CALL", c[3], Bi(1), nil, 0)
			p.end(endKind, common.Address{})
		}), 3: build(func(p *prog) { p.end(endSelfdestruct, w.absent[0]) })},
			nil, nil, txSpec{Sender: 0, To: &c[0], Value: Bi(0), Gas: 400000, Type: 1, AL: ethtypes.AccessList{{Address: c[0], StorageKeys: []common.Hash{common.BigToHash(Bi(3))}}}},
			callTx(c[3], 0, 60000))
	}
	return out
}

var _ = crypto.CreateAddress2
