package gethdiff

// recDB wraps a vm.StateDB and records every interface operation with its returned observation, so
// that the interpreter's use of the two StateDB implementations can be compared op by op and replayed
// on the Coq models.  Snapshot ids are recorded as positions in the stack of live snapshots (the
// interpreter never computes with ids, it only hands them back).

import (
	"fmt"
	"math/big"

	"github.com/ethereum/go-ethereum/common"
	ethtypes "github.com/ethereum/go-ethereum/core/types"
	corevm "github.com/ethereum/go-ethereum/core/vm"
)

type opRec struct {
	Op   string
	A    common.Address
	K    common.Hash
	V    *big.Int // value / amount / nonce / gas / position
	Code []byte
	Log  *ethtypes.Log
	Prep *prepArgs
	// observation
	OZ    *big.Int
	OB    bool
	OB2   bool
	OCode []byte
	OHash common.Hash
	RawID   int // Snapshot: the identifier the implementation returned
	Ordinal int // RevertToSnapshot: ordinal of the Snapshot operation that returned the identifier handed back (-1: none)
}

type prepArgs struct {
	Sender      common.Address
	Dst         *common.Address
	Precompiles []common.Address
	List        ethtypes.AccessList
}

func (o opRec) String() string {
	s := o.Op + " " + o.A.Hex()[2:10]
	if o.V != nil {
		s += " v=" + o.V.String()
	}
	switch o.Op {
	case "GetState", "GetCommittedState", "SetState", "SlotInAccessList", "AddSlotToAccessList":
		s += " k=" + o.K.Big().String()
	}
	switch o.Op {
	case "GetBalance", "GetNonce", "GetCodeSize", "GetRefund", "GetState", "GetCommittedState", "Snapshot":
		s += " => " + o.OZ.String()
	case "Suicide", "HasSuicided", "Exist", "Empty", "AddressInAccessList":
		s += fmt.Sprintf(" => %v", o.OB)
	case "SlotInAccessList":
		s += fmt.Sprintf(" => %v,%v", o.OB, o.OB2)
	case "GetCodeHash":
		s += " => " + o.OHash.Hex()[:12]
	case "GetCode":
		s += fmt.Sprintf(" => %d bytes", len(o.OCode))
	case "SetCode":
		s += fmt.Sprintf(" %d bytes", len(o.Code))
	}
	return s
}

// same compares two records (operation, arguments and observation).
func (o opRec) same(p opRec) bool { return o.String() == p.String() && string(o.Code) == string(p.Code) && string(o.OCode) == string(p.OCode) }

type recDB struct {
	in   corevm.StateDB
	log  []opRec
	live []int // ids of live snapshots, bottom first
	off  bool
	nsnap  int
	lastOf map[int]int // identifier -> ordinal of the latest Snapshot that returned it
}

var _ corevm.StateDB = (*recDB)(nil)

func (r *recDB) add(o opRec) {
	if !r.off {
		r.log = append(r.log, o)
	}
}

func u64(x uint64) *big.Int { return new(big.Int).SetUint64(x) }

func (r *recDB) CreateAccount(a common.Address) { r.in.CreateAccount(a); r.add(opRec{Op: "CreateAccount", A: a}) }
func (r *recDB) SubBalance(a common.Address, v *big.Int) {
	r.in.SubBalance(a, v)
	r.add(opRec{Op: "SubBalance", A: a, V: new(big.Int).Set(v)})
}
func (r *recDB) AddBalance(a common.Address, v *big.Int) {
	r.in.AddBalance(a, v)
	r.add(opRec{Op: "AddBalance", A: a, V: new(big.Int).Set(v)})
}
func (r *recDB) GetBalance(a common.Address) *big.Int {
	x := r.in.GetBalance(a)
	r.add(opRec{Op: "GetBalance", A: a, OZ: new(big.Int).Set(x)})
	return x
}
func (r *recDB) GetNonce(a common.Address) uint64 {
	x := r.in.GetNonce(a)
	r.add(opRec{Op: "GetNonce", A: a, OZ: u64(x)})
	return x
}
func (r *recDB) SetNonce(a common.Address, n uint64) { r.in.SetNonce(a, n); r.add(opRec{Op: "SetNonce", A: a, V: u64(n)}) }
func (r *recDB) GetCodeHash(a common.Address) common.Hash {
	x := r.in.GetCodeHash(a)
	r.add(opRec{Op: "GetCodeHash", A: a, OHash: x})
	return x
}
func (r *recDB) GetCode(a common.Address) []byte {
	x := r.in.GetCode(a)
	r.add(opRec{Op: "GetCode", A: a, OCode: append([]byte{}, x...)})
	return x
}
func (r *recDB) SetCode(a common.Address, c []byte) {
	r.in.SetCode(a, c)
	r.add(opRec{Op: "SetCode", A: a, Code: append([]byte{}, c...)})
}
func (r *recDB) GetCodeSize(a common.Address) int {
	x := r.in.GetCodeSize(a)
	r.add(opRec{Op: "GetCodeSize", A: a, OZ: big.NewInt(int64(x))})
	return x
}
func (r *recDB) AddRefund(g uint64) { r.in.AddRefund(g); r.add(opRec{Op: "AddRefund", V: u64(g)}) }
func (r *recDB) SubRefund(g uint64) { r.in.SubRefund(g); r.add(opRec{Op: "SubRefund", V: u64(g)}) }
func (r *recDB) GetRefund() uint64 {
	x := r.in.GetRefund()
	r.add(opRec{Op: "GetRefund", OZ: u64(x)})
	return x
}
func (r *recDB) GetCommittedState(a common.Address, k common.Hash) common.Hash {
	x := r.in.GetCommittedState(a, k)
	r.add(opRec{Op: "GetCommittedState", A: a, K: k, OZ: x.Big()})
	return x
}
func (r *recDB) GetState(a common.Address, k common.Hash) common.Hash {
	x := r.in.GetState(a, k)
	r.add(opRec{Op: "GetState", A: a, K: k, OZ: x.Big()})
	return x
}
func (r *recDB) SetState(a common.Address, k, v common.Hash) {
	r.in.SetState(a, k, v)
	r.add(opRec{Op: "SetState", A: a, K: k, V: v.Big()})
}
func (r *recDB) Suicide(a common.Address) bool {
	x := r.in.Suicide(a)
	r.add(opRec{Op: "Suicide", A: a, OB: x})
	return x
}
func (r *recDB) HasSuicided(a common.Address) bool {
	x := r.in.HasSuicided(a)
	r.add(opRec{Op: "HasSuicided", A: a, OB: x})
	return x
}
func (r *recDB) Exist(a common.Address) bool {
	x := r.in.Exist(a)
	r.add(opRec{Op: "Exist", A: a, OB: x})
	return x
}
func (r *recDB) Empty(a common.Address) bool {
	x := r.in.Empty(a)
	r.add(opRec{Op: "Empty", A: a, OB: x})
	return x
}
func (r *recDB) PrepareAccessList(sender common.Address, dest *common.Address, precompiles []common.Address, txAccesses ethtypes.AccessList) {
	r.in.PrepareAccessList(sender, dest, precompiles, txAccesses)
	r.add(opRec{Op: "PrepareAccessList", A: sender, Prep: &prepArgs{Sender: sender, Dst: dest, Precompiles: append([]common.Address{}, precompiles...), List: txAccesses}})
}
func (r *recDB) AddressInAccessList(a common.Address) bool {
	x := r.in.AddressInAccessList(a)
	r.add(opRec{Op: "AddressInAccessList", A: a, OB: x})
	return x
}
func (r *recDB) SlotInAccessList(a common.Address, k common.Hash) (bool, bool) {
	x, y := r.in.SlotInAccessList(a, k)
	r.add(opRec{Op: "SlotInAccessList", A: a, K: k, OB: x, OB2: y})
	return x, y
}
func (r *recDB) AddAddressToAccessList(a common.Address) {
	r.in.AddAddressToAccessList(a)
	r.add(opRec{Op: "AddAddressToAccessList", A: a})
}
func (r *recDB) AddSlotToAccessList(a common.Address, k common.Hash) {
	r.in.AddSlotToAccessList(a, k)
	r.add(opRec{Op: "AddSlotToAccessList", A: a, K: k})
}
func (r *recDB) RevertToSnapshot(id int) {
	pos := -1
	for i, x := range r.live {
		if x == id {
			pos = i
		}
	}
	r.in.RevertToSnapshot(id)
	if pos >= 0 {
		r.live = r.live[:pos]
	}
	ord := -1
	if x, ok := r.lastOf[id]; ok {
		ord = x
	}
	r.add(opRec{Op: "RevertToSnapshot", V: big.NewInt(int64(pos)), Ordinal: ord})
}
func (r *recDB) Snapshot() int {
	id := r.in.Snapshot()
	r.add(opRec{Op: "Snapshot", OZ: big.NewInt(int64(len(r.live))), RawID: id})
	r.live = append(r.live, id)
	if r.lastOf == nil {
		r.lastOf = map[int]int{}
	}
	r.lastOf[id] = r.nsnap
	r.nsnap++
	return id
}
func (r *recDB) AddLog(l *ethtypes.Log) {
	r.in.AddLog(l)
	r.add(opRec{Op: "AddLog", A: l.Address, Log: &ethtypes.Log{Address: l.Address, Topics: append([]common.Hash{}, l.Topics...), Data: append([]byte{}, l.Data...)}})
}
func (r *recDB) AddPreimage(h common.Hash, b []byte) { r.in.AddPreimage(h, b) }
func (r *recDB) ForEachStorage(a common.Address, f func(common.Hash, common.Hash) bool) error {
	return r.in.ForEachStorage(a, f)
}
