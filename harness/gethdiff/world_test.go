package gethdiff

// The address universe, pre-state construction on the real evermint stores, mirroring of the EVM view
// into go-ethereum's own StateDB, and reading back the EVM view of both after a transaction.

import (
	"bytes"
	"fmt"
	"math/big"
	"sort"
	"testing"
	"time"

	sdkmath "cosmossdk.io/math"
	sdk "github.com/cosmos/cosmos-sdk/types"
	authtypes "github.com/cosmos/cosmos-sdk/x/auth/types"
	"github.com/ethereum/go-ethereum/common"
	"github.com/ethereum/go-ethereum/core/rawdb"
	"github.com/ethereum/go-ethereum/core/state"
	"github.com/stretchr/testify/require"

	itutiltypes "github.com/EscanBE/evermint/v12/integration_test_util/types"
	cpctypes "github.com/EscanBE/evermint/v12/x/cpc/types"
	evmtypes "github.com/EscanBE/evermint/v12/x/evm/types"

	. "verifharness/hx"
)

type world struct {
	t *testing.T
	c *Chain

	senders       []*itutiltypes.TestAccount
	contracts     []common.Address
	emptyExisting common.Address // auth account, nothing else
	absent        []common.Address
	funded        common.Address // balance only
	codelessNonce common.Address // nonce 5, no code
	coinbase      common.Address
	cpcs          []common.Address
	moduleAddr    common.Address // a blocked module account (fee collector)
	feeCollector  common.Address
	evmModule     common.Address
}

func newWorld(t *testing.T, withCpc bool) *world {
	c := NewChain(t, time.Time{})
	w := &world{t: t, c: c}
	for i := 1; i <= 3; i++ {
		w.senders = append(w.senders, c.S.WalletAccounts.Number(i))
	}
	for i := 0; i < 4; i++ {
		w.contracts = append(w.contracts, common.HexToAddress(fmt.Sprintf("0x20000000000000000000000000000000000c0d%02x", i)))
	}
	w.emptyExisting = common.HexToAddress("0x2000000000000000000000000000000000e0e001")
	w.absent = []common.Address{
		common.HexToAddress("0x2000000000000000000000000000000000ab5e01"),
		common.HexToAddress("0x2000000000000000000000000000000000ab5e02"),
	}
	w.funded = common.HexToAddress("0x2000000000000000000000000000000000f00d01")
	w.codelessNonce = common.HexToAddress("0x2000000000000000000000000000000000f00d02")
	w.feeCollector = common.BytesToAddress(authtypes.NewModuleAddress(authtypes.FeeCollectorName))
	w.evmModule = common.BytesToAddress(authtypes.NewModuleAddress(evmtypes.ModuleName))
	w.moduleAddr = w.evmModule

	ctx := c.Ctx()
	if withCpc {
		a, err := c.App.CPCKeeper.DeployErc20CustomPrecompiledContract(ctx, "Wrapped Native",
			cpctypes.Erc20CustomPrecompiledContractMeta{Symbol: "WN", Decimals: 18, MinDenom: c.Denom()})
		require.NoError(t, err)
		w.cpcs = append(w.cpcs, a)
		if !c.App.CPCKeeper.HasCustomPrecompiledContract(ctx, cpctypes.CpcStakingFixedAddress) {
			_, err = c.App.CPCKeeper.DeployStakingCustomPrecompiledContract(ctx, cpctypes.StakingCustomPrecompiledContractMeta{Symbol: "STK", Decimals: 18})
			require.NoError(t, err)
		}
	}
	for _, m := range c.App.CPCKeeper.GetAllCustomPrecompiledContractsMeta(ctx) {
		a := common.BytesToAddress(m.Address)
		dup := false
		for _, x := range w.cpcs {
			dup = dup || x == a
		}
		if !dup {
			w.cpcs = append(w.cpcs, a)
		}
	}
	c.RunBlock(nil)
	cfg, err := c.App.EvmKeeper.EVMConfig(c.Ctx(), nil)
	require.NoError(t, err)
	w.coinbase = cfg.CoinBase
	return w
}

func (w *world) class(a common.Address) string {
	switch {
	case a == (common.Address{}):
		return "zero"
	case a == w.coinbase:
		return "coinbase"
	case a == w.emptyExisting:
		return "empty-existing"
	case a == w.funded:
		return "eoa-funded"
	case a == w.codelessNonce:
		return "codeless-nonce"
	case a == w.moduleAddr:
		return "module-account"
	}
	if new(big.Int).SetBytes(a.Bytes()).Cmp(Bi(9)) <= 0 {
		return "precompile"
	}
	if new(big.Int).SetBytes(a.Bytes()).Cmp(Bi(10)) == 0 {
		return "0x0a"
	}
	for _, x := range w.cpcs {
		if x == a {
			return "custom-precompile"
		}
	}
	for _, x := range w.contracts {
		if x == a {
			return "contract"
		}
	}
	for _, x := range w.absent {
		if x == a {
			return "absent"
		}
	}
	for _, x := range w.senders {
		if x.GetEthAddress() == a {
			return "sender-eoa"
		}
	}
	return "predicted-create-address"
}

// fixedUniverse: every address the generator can name, apart from predicted creation addresses.
func (w *world) fixedUniverse() []common.Address {
	u := []common.Address{{}, w.coinbase, w.emptyExisting, w.funded, w.codelessNonce, w.feeCollector, w.evmModule, common.BytesToAddress([]byte{0x0a})}
	for i := 1; i <= 9; i++ {
		u = append(u, common.BytesToAddress([]byte{byte(i)}))
	}
	u = append(u, w.contracts...)
	u = append(u, w.absent...)
	u = append(u, w.cpcs...)
	for _, s := range w.senders {
		u = append(u, s.GetEthAddress())
	}
	return u
}

func dedup(as []common.Address) []common.Address {
	seen := map[common.Address]bool{}
	var out []common.Address
	for _, a := range as {
		if !seen[a] {
			seen[a] = true
			out = append(out, a)
		}
	}
	sort.Slice(out, func(i, j int) bool { return bytes.Compare(out[i][:], out[j][:]) < 0 })
	return out
}

// ---------------------------------------------------------------- EVM view of one account

type acctView struct {
	Exists  bool
	Nonce   uint64
	Balance *big.Int
	Code    []byte
	Storage map[common.Hash]common.Hash // non-zero slots only
	StorageRaw map[common.Hash]common.Hash // every stored entry (evermint keeps zero-valued entries)
	Other      bool                        // evermint only: some other denomination is non-zero
}

func (v acctView) String() string {
	ks := make([]string, 0, len(v.Storage))
	for k, x := range v.Storage {
		ks = append(ks, fmt.Sprintf("%x=%x", k.Big(), x.Big()))
	}
	sort.Strings(ks)
	return fmt.Sprintf("{n=%d b=%s code=%d:%x st=%v}", v.Nonce, v.Balance, len(v.Code), crc(v.Code), ks)
}

func crc(b []byte) uint32 {
	var h uint32 = 2166136261
	for _, x := range b {
		h = (h ^ uint32(x)) * 16777619
	}
	return h
}

// evmView reads the EVM view of an address from the real stores through keepers.
func (w *world) evmView(ctx sdk.Context, a common.Address) acctView {
	k := w.c.App.EvmKeeper
	v := acctView{Storage: map[common.Hash]common.Hash{}, StorageRaw: map[common.Hash]common.Hash{}}
	v.Exists = w.c.App.AccountKeeper.HasAccount(ctx, sdk.AccAddress(a.Bytes()))
	v.Nonce = w.c.Nonce(ctx, a)
	v.Balance = w.c.EvmBal(ctx, a)
	for _, coin := range w.c.App.BankKeeper.GetAllBalances(ctx, sdk.AccAddress(a.Bytes())) {
		if coin.Denom != w.c.Denom() && !coin.Amount.IsZero() {
			v.Other = true
		}
	}
	v.Code = k.GetCode(ctx, k.GetCodeHash(ctx, a.Bytes()))
	k.ForEachStorage(ctx, a, func(key, val common.Hash) bool {
		v.StorageRaw[key] = val
		if val != (common.Hash{}) {
			v.Storage[key] = val
		}
		return true
	})
	return v
}

var probeKeys = func() []common.Hash {
	var out []common.Hash
	for _, k := range slotKeys {
		out = append(out, common.BigToHash(k))
	}
	return out
}()

// gethView reads the same through go-ethereum's StateDB getters (storage: the keys programs can write).
func gethView(s *state.StateDB, a common.Address) acctView {
	v := acctView{Storage: map[common.Hash]common.Hash{}}
	v.Exists = s.Exist(a)
	v.Nonce = s.GetNonce(a)
	v.Balance = new(big.Int).Set(s.GetBalance(a))
	v.Code = s.GetCode(a)
	for _, k := range probeKeys {
		if x := s.GetState(a, k); x != (common.Hash{}) {
			v.Storage[k] = x
		}
	}
	return v
}

func viewsEqual(a, b acctView) (bool, string) {
	if a.Nonce != b.Nonce {
		return false, "nonce"
	}
	if a.Balance.Cmp(b.Balance) != 0 {
		return false, "balance"
	}
	if !bytes.Equal(a.Code, b.Code) {
		return false, "code"
	}
	if len(a.Storage) != len(b.Storage) {
		return false, "storage"
	}
	for k, x := range a.Storage {
		if b.Storage[k] != x {
			return false, "storage"
		}
	}
	return true, ""
}

// ---------------------------------------------------------------- pre-state

type preAcct struct {
	Addr    common.Address
	Exists  bool // bare auth account when nothing else is set
	Nonce   uint64
	Balance *big.Int
	Code    []byte
	Storage map[common.Hash]common.Hash
}

// writePre writes the account into the real stores through the keepers of the application.
func (w *world) writePre(ctx sdk.Context, p preAcct) {
	app := w.c.App
	addr := sdk.AccAddress(p.Addr.Bytes())
	needAcc := p.Exists || p.Nonce > 0 || len(p.Code) > 0 || len(p.Storage) > 0
	if needAcc && app.AccountKeeper.GetAccount(ctx, addr) == nil {
		app.AccountKeeper.SetAccount(ctx, app.AccountKeeper.NewAccountWithAddress(ctx, addr))
	}
	if p.Nonce > 0 {
		acc := app.AccountKeeper.GetAccount(ctx, addr)
		require.NoError(w.t, acc.SetSequence(p.Nonce))
		app.AccountKeeper.SetAccount(ctx, acc)
	}
	cur := w.c.EvmBal(ctx, p.Addr)
	if p.Balance != nil && p.Balance.Cmp(cur) > 0 {
		coins := sdk.NewCoins(sdk.NewCoin(w.c.Denom(), sdkmath.NewIntFromBigInt(new(big.Int).Sub(p.Balance, cur))))
		require.NoError(w.t, app.BankKeeper.MintCoins(ctx, evmtypes.ModuleName, coins))
		require.NoError(w.t, app.BankKeeper.SendCoinsFromModuleToAccount(ctx, evmtypes.ModuleName, addr, coins))
	} else if p.Balance != nil && p.Balance.Cmp(cur) < 0 {
		coins := sdk.NewCoins(sdk.NewCoin(w.c.Denom(), sdkmath.NewIntFromBigInt(new(big.Int).Sub(cur, p.Balance))))
		require.NoError(w.t, app.BankKeeper.SendCoinsFromAccountToModule(ctx, addr, evmtypes.ModuleName, coins))
		require.NoError(w.t, app.BankKeeper.BurnCoins(ctx, evmtypes.ModuleName, coins))
	}
	if len(p.Code) > 0 {
		h := crypto256(p.Code)
		app.EvmKeeper.SetCode(ctx, h.Bytes(), p.Code)
		app.EvmKeeper.SetCodeHash(ctx, p.Addr, h)
	}
	for k, v := range p.Storage {
		if v != (common.Hash{}) {
			app.EvmKeeper.SetState(ctx, p.Addr, k, v.Bytes())
		}
	}
}

// mirror builds go-ethereum's own state database holding the EVM view of every universe address as
// read back from the real stores.
func (w *world) mirror(ctx sdk.Context, universe []common.Address) (*state.StateDB, state.Database) {
	db := state.NewDatabase(rawdb.NewMemoryDatabase())
	s, err := state.New(common.Hash{}, db, nil)
	require.NoError(w.t, err)
	for _, a := range universe {
		v := w.evmView(ctx, a)
		if !v.Exists && v.Balance.Sign() == 0 && v.Nonce == 0 && len(v.Code) == 0 && len(v.Storage) == 0 {
			continue
		}
		s.CreateAccount(a)
		s.SetNonce(a, v.Nonce)
		s.SetBalance(a, v.Balance)
		if len(v.Code) > 0 {
			s.SetCode(a, v.Code)
		}
		for k, x := range v.Storage {
			s.SetState(a, k, x)
		}
	}
	root, err := s.Commit(false)
	require.NoError(w.t, err)
	s2, err := state.New(root, db, nil)
	require.NoError(w.t, err)
	return s2, db
}
