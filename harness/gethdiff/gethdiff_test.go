package gethdiff

// Driver `gethdiff` (C02).  Part (b): random PROGRAMS.  For every case a pre-state (contracts with generated
// code, EOAs, empty / absent / code-less accounts, optional squatters on future creation addresses) is
// written into the real evermint stores, its EVM view is mirrored into go-ethereum's own StateDB
// (state.New over a memory database), and 1..3 signed transactions (legacy / access-list / dynamic-fee)
// are applied to both: evermint through Keeper.SetupExecutionContext + Keeper.ApplyTransaction (after the
// ante handler's fee deduction), go-ethereum through core.ApplyMessage + Finalise(true) with the same
// chain config and block context.  The oracle is the comparison: core error class, vm error class,
// return data, gas used, logs, and nonce / balance / code / storage of every address of the universe
// (balances modulo the documented fee routing).  The reference side gets exactly the documented
// differences (custom precompile addresses and coinbase warm) and nothing else.
// Part (a) (ops_test.go): StateDB interface-operation sequences, recorded from the interpreter and random.

import (
	"bytes"
	"fmt"
	"math/big"
	"sort"
	"strings"
	"testing"

	sdk "github.com/cosmos/cosmos-sdk/types"
	"github.com/ethereum/go-ethereum/common"
	"github.com/ethereum/go-ethereum/core"
	"github.com/ethereum/go-ethereum/core/state"
	ethtypes "github.com/ethereum/go-ethereum/core/types"
	"github.com/stretchr/testify/require"

	. "verifharness/hx"
)

type txSpec struct {
	Sender   int
	To       *common.Address
	Value    *big.Int
	Gas      uint64
	Type     int
	GasPrice *big.Int
	FeeCap   *big.Int
	TipCap   *big.Int
	Data     []byte
	AL       ethtypes.AccessList
	NonceOff int
}

func (s txSpec) String() string {
	to := "create"
	if s.To != nil {
		to = s.To.Hex()
	}
	return fmt.Sprintf("tx{type=%d from=#%d to=%s value=%s gas=%d price=%v cap=%v tip=%v data=%x al=%d nonce%+d}",
		s.Type, s.Sender, to, s.Value, s.Gas, s.GasPrice, s.FeeCap, s.TipCap, s.Data, len(s.AL), s.NonceOff)
}

func (g *gen) txSpec(baseFee *big.Int) txSpec {
	r, w := g.r, g.w
	s := txSpec{Sender: r.Intn(len(w.senders)), Value: Bi(0), Type: r.Intn(3)}
	switch k := r.Intn(100); {
	case k < 58:
		a := w.contracts[0]
		s.To = &a
	case k < 68:
		a := w.contracts[r.Intn(len(w.contracts))]
		s.To = &a
	case k < 84:
		a := g.callTarget(-1)
		s.To = &a
	default:
		s.Data = g.initCode(-1, 0)
	}
	if s.To != nil {
		n := r.Intn(70)
		s.Data = make([]byte, n)
		for i := range s.Data {
			if r.Chance(60) {
				s.Data[i] = byte(r.Intn(256))
			}
		}
	}
	switch r.Intn(10) {
	case 0, 1:
		s.Value = Bi(int64(1 + r.Intn(1000)))
	case 2:
		if r.Chance(30) {
			s.Value = new(big.Int).Exp(Bi(10), Bi(30), nil)
		}
	}
	gases := []uint64{21000, 22000, 30000, 53000, 60000, 100000, 150000, 300000, 1000000, 3000000}
	s.Gas = gases[r.Intn(len(gases))]
	if r.Chance(30) {
		s.Gas = uint64(21000 + r.Intn(400000))
	}
	if r.Chance(2) {
		s.Gas = uint64(r.Intn(21000))
	}
	bf := new(big.Int).Set(baseFee)
	switch s.Type {
	case 0, 1:
		s.GasPrice = new(big.Int).Add(bf, Bi(int64(r.Intn(3))*1000))
		if r.Chance(2) && bf.Sign() > 0 {
			s.GasPrice = new(big.Int).Sub(bf, Bi(1))
		}
	case 2:
		s.TipCap = []*big.Int{Bi(0), Bi(1), Bi(1000), bf}[r.Intn(4)]
		s.FeeCap = new(big.Int).Add(bf, s.TipCap)
		if r.Chance(40) {
			s.FeeCap = new(big.Int).Add(s.FeeCap, Bi(int64(r.Intn(5000))))
		}
		if r.Chance(2) && bf.Sign() > 0 {
			s.FeeCap = new(big.Int).Sub(bf, Bi(1))
			s.TipCap = Bi(0)
		}
		if r.Chance(2) {
			s.TipCap = new(big.Int).Add(s.FeeCap, Bi(1))
		}
	}
	if s.Type != 0 {
		n := r.Intn(4)
		for i := 0; i < n; i++ {
			t := ethtypes.AccessTuple{Address: g.anyAddr()}
			nk := r.Intn(3)
			for j := 0; j < nk; j++ {
				t.StorageKeys = append(t.StorageKeys, common.BigToHash(g.key()))
			}
			s.AL = append(s.AL, t)
		}
		// the same address in two or more tuples with different keys (go-ethereum's PrepareAccessList merges the keys of
		// all of them): mostly the destination, whose code reads and writes the slots of slotKeys; a slot named only by
		// the LATER tuple must be as warm as one named by the first.  Own fork: the draws above and below are unchanged.
		if rr := r.Fork(0xA11D); rr.Chance(35) {
			var a common.Address
			switch {
			case s.To != nil && rr.Chance(60):
				a = *s.To
			case len(s.AL) > 0:
				a = s.AL[rr.Intn(len(s.AL))].Address
			default:
				a = g.w.contracts[rr.Intn(len(g.w.contracts))]
			}
			first := ethtypes.AccessTuple{Address: a}
			i0 := rr.Intn(len(slotKeys))
			if rr.Chance(70) {
				first.StorageKeys = append(first.StorageKeys, common.BigToHash(slotKeys[i0]))
			}
			later := ethtypes.AccessTuple{Address: a}
			for j := range slotKeys {
				if j != i0 && rr.Chance(60) {
					later.StorageKeys = append(later.StorageKeys, common.BigToHash(slotKeys[j]))
				}
			}
			s.AL = append(s.AL, first, later)
		}
	}
	if r.Chance(3) {
		s.NonceOff = []int{-1, 1}[r.Intn(2)]
	}
	return s
}

func (s txSpec) txData(nonce uint64, chainID *big.Int) ethtypes.TxData {
	n := uint64(int64(nonce) + int64(s.NonceOff))
	if nonce == 0 && s.NonceOff < 0 {
		n = 1
	}
	switch s.Type {
	case 0:
		return &ethtypes.LegacyTx{Nonce: n, GasPrice: s.GasPrice, Gas: s.Gas, To: s.To, Value: s.Value, Data: s.Data}
	case 1:
		return &ethtypes.AccessListTx{ChainID: chainID, Nonce: n, GasPrice: s.GasPrice, Gas: s.Gas, To: s.To, Value: s.Value, Data: s.Data, AccessList: s.AL}
	default:
		return &ethtypes.DynamicFeeTx{ChainID: chainID, Nonce: n, GasTipCap: s.TipCap, GasFeeCap: s.FeeCap, Gas: s.Gas, To: s.To, Value: s.Value, Data: s.Data, AccessList: s.AL}
	}
}

// genPre generates the pre-state of one case (and, with it, the code of the universe contracts).
func (g *gen) genPre() []preAcct {
	r, w := g.r, g.w
	var pre []preAcct
	codes := make([][]byte, len(w.contracts))
	for i := len(w.contracts) - 1; i >= 0; i-- {
		codes[i] = g.contractCode(i)
		g.predicted = g.predictedAddrs()
	}
	bal := func() *big.Int {
		return []*big.Int{Bi(0), Bi(0), Bi(1), Bi(5000), new(big.Int).Exp(Bi(10), Bi(18), nil)}[r.Intn(5)]
	}
	for i, a := range w.contracts {
		p := preAcct{Addr: a, Nonce: 1, Balance: bal(), Code: codes[i], Storage: map[common.Hash]common.Hash{}}
		for _, k := range slotKeys {
			if r.Chance(40) {
				p.Storage[common.BigToHash(k)] = common.BigToHash(g.val())
			}
		}
		pre = append(pre, p)
	}
	rich := new(big.Int).Exp(Bi(10), Bi(22), nil)
	for _, s := range w.senders {
		pre = append(pre, preAcct{Addr: s.GetEthAddress(), Exists: true, Balance: rich})
	}
	pre = append(pre, preAcct{Addr: w.emptyExisting, Exists: true})
	pre = append(pre, preAcct{Addr: w.funded, Balance: Bi(int64(1 + r.Intn(100000)))})
	pre = append(pre, preAcct{Addr: w.codelessNonce, Nonce: 5, Balance: bal()})
	if r.Chance(30) { // an existing empty account at a precompile / zero address
		a := []common.Address{{}, common.BytesToAddress([]byte{3}), common.BytesToAddress([]byte{4}), common.BytesToAddress([]byte{1})}[r.Intn(4)]
		pre = append(pre, preAcct{Addr: a, Exists: true, Balance: []*big.Int{Bi(0), Bi(0), Bi(1)}[r.Intn(3)]})
		g.feat["pre:account-at-"+w.class(a)]++
	}
	// squatters on addresses a CREATE/CREATE2 of this case will try to use
	for _, a := range g.predicted {
		if !r.Chance(18) {
			continue
		}
		switch r.Intn(4) {
		case 0:
			pre = append(pre, preAcct{Addr: a, Nonce: 1, Code: g.leafRuntime(), Balance: bal()})
			g.feat["pre:squatter-with-code"]++
		case 1:
			pre = append(pre, preAcct{Addr: a, Nonce: 3})
			g.feat["pre:squatter-with-nonce"]++
		case 2:
			pre = append(pre, preAcct{Addr: a, Balance: Bi(777)})
			g.feat["pre:squatter-balance-only"]++
		default:
			pre = append(pre, preAcct{Addr: a, Exists: true})
			g.feat["pre:squatter-empty-account"]++
		}
	}
	return pre
}

type caseReport struct {
	Case     int      `json:"case"`
	Seed     uint64   `json:"seed"`
	World    string   `json:"world"`
	Txs      []string `json:"txs"`
	Pre      []string `json:"pre"`
	Diffs    []string `json:"diffs,omitempty"`
	Evermint []string `json:"evermint"`
	Geth     []string `json:"geth"`
}

func (o outcome) summary() string {
	return fmt.Sprintf("core=%q vm=%q gas=%d ret=%d:%08x logs=%d panic=%q", o.Core, o.Vm, o.GasUsed, len(o.Ret), crc(o.Ret), len(o.Logs), o.Panic)
}

// diffOutcome lists the fields in which two outcomes differ.
func diffOutcome(e, g outcome) []string {
	var d []string
	if e.Panic != "" || g.Panic != "" {
		if e.Panic != g.Panic {
			d = append(d, "panic")
		}
		return d
	}
	// the balance check for gas x fee cap + value is made by the ante handler in evermint and by buyGas (before
	// the intrinsic gas check) in go-ethereum: when go-ethereum reports insufficient funds, any core error is the same verdict
	if e.Core != g.Core && !(g.Core == "insufficient-funds" && e.Core != "") {
		d = append(d, "core-error-class")
	}
	if e.Core != "" || g.Core != "" {
		return d
	}
	if e.Vm != g.Vm {
		d = append(d, "vm-error-class")
	}
	if !bytes.Equal(e.Ret, g.Ret) {
		d = append(d, "return-data")
	}
	if e.GasUsed != g.GasUsed {
		d = append(d, "gas-used")
	}
	if len(e.Logs) != len(g.Logs) {
		d = append(d, "logs")
	} else {
		for i := range e.Logs {
			if e.Logs[i].String() != g.Logs[i].String() {
				d = append(d, "logs")
				break
			}
		}
	}
	return d
}

type progCase struct {
	idx    int
	w      *world
	wname  string
	side   *Sidecar
	rep    caseReport
	codes  *codeTable
	tcases []string // Coq terms (transition cases)
	ocases []string // Coq terms (op-sequence cases)
}

func (pc *progCase) hit(sig, msg string) {
	pc.rep.Diffs = append(pc.rep.Diffs, sig+": "+msg)
	pc.side.Hit(sig, msg, pc.rep)
}

// runProgCase generates and runs one case; returns canonical string and whether it is non-trivial.
func (pc *progCase) run(t *testing.T, r *Rng, sc *scenario) (string, bool) {
	w := pc.w
	g := &gen{r: r, w: w, feat: map[string]int{}}
	base, _ := w.c.Ctx().CacheContext()
	var pre []preAcct
	if sc != nil {
		pre = sc.pre(w)
		g.predicted = sc.extra
	} else {
		pre = g.genPre()
	}
	for _, p := range pre {
		w.writePre(base, p)
		pc.rep.Pre = append(pc.rep.Pre, fmt.Sprintf("%s(%s) n=%d b=%v code=%x st=%d", p.Addr.Hex(), w.class(p.Addr), p.Nonce, p.Balance, p.Code, len(p.Storage)))
	}
	universe := dedup(append(w.fixedUniverse(), g.predicted...))
	gs, _ := w.mirror(base, universe)
	be := w.blockEnv(base)
	chainID := be.cfg.ChainConfig.ChainID
	ntx := 1 + r.Intn(3)
	if sc != nil {
		ntx = len(sc.txs)
		pc.side.Count("directed:" + sc.name)
	}
	nontrivial := false
	var canon []string
	known := append([]common.Address{}, universe...)
	tipAcc, feeAcc := new(big.Int), new(big.Int) // tipAcc stays zero: the tip is taken back out of the reference state after every transaction
	for ti := 0; ti < ntx; ti++ {
		var spec txSpec
		if sc != nil {
			spec = sc.txs[ti]
			spec.GasPrice = new(big.Int).Add(be.cfg.BaseFee, Bi(1000))
			if spec.Type == 2 {
				spec.TipCap, spec.FeeCap = Bi(1000), new(big.Int).Add(be.cfg.BaseFee, Bi(2000))
			}
		} else {
			spec = g.txSpec(be.cfg.BaseFee)
		}
		acct := w.senders[spec.Sender]
		from := acct.GetEthAddress()
		ecdsaKey, err := acct.PrivateKey.ToECDSA()
		require.NoError(t, err)
		tx, err := ethtypes.SignNewTx(ecdsaKey, be.signer, spec.txData(w.c.Nonce(base, from), chainID))
		require.NoError(t, err)
		msg, err := tx.AsMessage(be.signer, be.cfg.BaseFee)
		require.NoError(t, err)
		require.Equal(t, from, msg.From())
		pc.rep.Txs = append(pc.rep.Txs, spec.String())

		// traced runs on scratch copies; EVM views before and after for the Coq replay
		scratchCtx, _ := base.CacheContext()
		var eT, gT outcome
		var eTr, gTr *topTracer
		anteErr := w.antePay(scratchCtx, msg)
		knownList := dedup(known)
		var preE []string
		var nextNum uint64
		sE := senderView{Nonce: w.c.Nonce(scratchCtx, from), Bal: w.c.EvmBal(scratchCtx, from)}
		{
			v := w.evmView(scratchCtx, from)
			sE.Code = codeClass(v.Exists, v.Code, pc.codes)
		}
		if anteErr != nil {
			eT, eTr = outcome{Core: "insufficient-funds"}, newTopTracer()
		} else {
			for _, a := range knownList {
				if v := w.evmView(scratchCtx, a); !blankView(v) {
					preE = append(preE, pc.codes.preTerm(a, v, w.accountNumber(scratchCtx, a), true))
				}
			}
			nextNum = w.nextAccountNumber(scratchCtx)
			eT, eTr = w.traceEvermint(scratchCtx, be, msg)
		}
		gcopy := gs.Copy()
		var preG []string
		for _, a := range knownList {
			if v := gethView(gcopy, a); !blankView(v) {
				preG = append(preG, pc.codes.preTerm(a, v, 0, false))
			}
		}
		sG := senderView{Nonce: gcopy.GetNonce(from), Bal: new(big.Int).Set(gcopy.GetBalance(from)), Code: codeClass(gcopy.Exist(from), gcopy.GetCode(from), pc.codes)}
		gT, gTr = w.runGeth(gcopy, be, msg, tx.Hash(), ti, true)
		for a := range eTr.addrs {
			known = append(known, a)
		}
		for a := range gTr.addrs {
			known = append(known, a)
		}
		if anteErr == nil && eT.Panic == "" && gT.Panic == "" {
			pc.emitCoq(msg, be, eT, gT, sE, sG, preE, preG, nextNum, scratchCtx, gcopy, dedup(known))
		}
		// real runs
		eO := w.runEvermint(base, tx, msg)
		gO, _ := w.runGeth(gs, be, msg, tx.Hash(), ti, false)
		pc.rep.Evermint = append(pc.rep.Evermint, eO.summary())
		pc.rep.Geth = append(pc.rep.Geth, gO.summary())
		canon = append(canon, spec.String(), eO.summary())

		for k, v := range eTr.ops {
			pc.side.Histogram["op:"+k] += v
		}
		for k, v := range eTr.faults {
			pc.side.Histogram["fault:"+k] += v
		}
		pc.side.Count(fmt.Sprintf("max-depth:%d", min(eTr.maxDep, 4)))
		pc.side.Count("outcome:core=" + eO.Core + ",vm=" + eO.Vm)
		pc.side.Count(fmt.Sprintf("tx-type:%d", spec.Type))
		if spec.To == nil {
			pc.side.Count("tx:create")
		} else {
			pc.side.Count("tx:call@" + w.class(*spec.To))
		}
		if eT.Refund > 0 {
			pc.side.Count("refund-counter>0")
			if eT.Refund > (eT.GasUsed+eT.Refund)/5 {
				pc.side.Count("refund-capped")
			}
		}
		if len(eO.Logs) > 0 {
			pc.side.Count("logs>0")
		}

		// (1) the oracle: evermint's real path against go-ethereum
		for _, d := range diffOutcome(eO, gO) {
			if d == "panic" {
				d = "panic:" + panicClass(eO.Panic)
			}
			pc.hit("C02/gethdiff/prog/"+d, fmt.Sprintf("tx %d: evermint %s | go-ethereum %s", ti, eO.summary(), gO.summary()))
		}
		// (2) consistency of the traced composition with the real path on each side
		if d := diffOutcome(eO, eT); len(d) > 0 {
			pc.hit("C02/gethdiff/prog/evermint-traced-run-differs", fmt.Sprintf("tx %d: %v: real %s | traced %s", ti, d, eO.summary(), eT.summary()))
		}
		if d := diffOutcome(gO, gT); len(d) > 0 {
			pc.hit("C02/gethdiff/prog/geth-traced-run-differs", fmt.Sprintf("tx %d: %v", ti, d))
		}
		// (3) the interpreter saw the same StateDB operations with the same observations
		if eT.Panic == "" && gT.Panic == "" && eT.Core == "" && gT.Core == "" {
			if where := firstOpDiff(interpOps(eT.Ops, false), interpOps(gT.Ops, true), w); where != "" {
				pc.hit("C02/gethdiff/prog/statedb-op-trace", fmt.Sprintf("tx %d: %s", ti, where))
			}
		}
		if eO.Core != "" || gO.Core != "" || eO.Panic != "" || gO.Panic != "" {
			if eO.Panic != "" {
				pc.side.Count("evermint-panic")
			}
			break // not includable: nothing further to compare in this case
		}
		nontrivial = nontrivial || eT.EvmGasUsed > 0
		// (4) post-state of every address
		addrs := append([]common.Address{}, universe...)
		for a := range eTr.addrs {
			addrs = append(addrs, a)
		}
		for a := range gTr.addrs {
			addrs = append(addrs, a)
		}
		// documented difference applied to the reference: go-ethereum tips the coinbase, evermint does not
		if tip := new(big.Int).Mul(effectiveTip(msg, be.cfg.BaseFee), new(big.Int).SetUint64(gO.GasUsed)); tip.Sign() > 0 {
			gs.SubBalance(be.cfg.CoinBase, tip)
			gs.Finalise(false)
		}
		feeAcc.Add(feeAcc, new(big.Int).Mul(msg.GasPrice(), new(big.Int).SetUint64(eO.GasUsed)))
		for _, a := range dedup(addrs) {
			ev, gv := w.evmView(base, a), gethView(gs, a)
			if a == be.cfg.CoinBase { // documented: go-ethereum tips the coinbase
				gv.Balance = new(big.Int).Sub(gv.Balance, tipAcc)
			}
			if a == w.feeCollector { // documented: the fee (gas used x effective price) stays with the fee collector
				ev.Balance = new(big.Int).Sub(ev.Balance, feeAcc)
			}
			if ok, what := viewsEqual(ev, gv); !ok {
				pc.hit("C02/gethdiff/prog/post-state-"+what+"@"+w.class(a),
					fmt.Sprintf("tx %d: %s: evermint %s | go-ethereum %s", ti, a.Hex(), ev, gv))
			}
			if ev.Exists != gv.Exists {
				pc.side.Count("existence-differs@" + w.class(a))
			}
		}
	}
	for k, v := range g.feat {
		pc.side.Histogram["gen:"+k] += v
	}
	return strings.Join(canon, "|"), nontrivial
}

func panicClass(p string) string {
	switch {
	case p == "":
		return "reference-only"
	case strings.Contains(p, "is not allowed to receive funds"):
		return "value-sent-to-blocked-module-account"
	case strings.Contains(p, "prohibited to destroy existing account"):
		return "touched-empty-protected-account"
	}
	return "other"
}

func effectiveTip(msg core.Message, baseFee *big.Int) *big.Int {
	tip := new(big.Int).Sub(msg.GasFeeCap(), baseFee)
	if msg.GasTipCap().Cmp(tip) < 0 {
		tip = msg.GasTipCap()
	}
	return tip
}

// interpOps cuts the operations of the transition wrapper that legitimately differ (go-ethereum's buyGas
// GetBalance/SubBalance before the access list is prepared, and its final AddBalance to the coinbase):
// what is left starts at PrepareAccessList and contains every operation the interpreter issued, the
// nonce bump, the refund (GetRefund, AddBalance to the sender) and the end-of-transaction Finalise.
func interpOps(ops []opRec, isGeth bool) []opRec {
	start := -1
	for i, o := range ops {
		if o.Op == "PrepareAccessList" {
			start = i
			break
		}
	}
	if start < 0 {
		return nil
	}
	out := append([]opRec{}, ops[start:]...)
	if isGeth {
		n := len(out)
		if n >= 2 && out[n-1].Op == "Finalise" && out[n-2].Op == "AddBalance" {
			out = append(out[:n-2], out[n-1])
		}
	}
	return out
}

func firstOpDiff(e, g []opRec, w *world) string {
	e, g = composeCallEnter(e), composeCallEnter(g)
	n := len(e)
	if len(g) < n {
		n = len(g)
	}
	for i := 0; i < n; i++ {
		if !opsEquivalent(e[i], g[i], w) {
			return fmt.Sprintf("op %d: evermint %s | go-ethereum %s", i, e[i], g[i])
		}
	}
	if len(e) != len(g) {
		return fmt.Sprintf("length %d vs %d", len(e), len(g))
	}
	return ""
}

// composeCallEnter folds the prologue of evm.Call -- Exist(a); [CreateAccount(a)]; Transfer = SubBalance(caller,v) + AddBalance(a,v);
// [GetCode(a)] -- into one composite record "CallEnter a" whose observation is the code that will run (empty when
// the call returns early because the account does not exist).  Raw Exist legitimately differs on accounts that
// go-ethereum holds as touched-empty objects while evermint holds no account; no interpreter path can tell.
func composeCallEnter(ops []opRec) []opRec {
	var out []opRec
	for i := 0; i < len(ops); i++ {
		o := ops[i]
		if o.Op != "Exist" {
			out = append(out, o)
			continue
		}
		c := opRec{Op: "CallEnter", A: o.A, V: new(big.Int)}
		j := i + 1
		if j < len(ops) && ops[j].Op == "CreateAccount" && ops[j].A == o.A {
			j++
		}
		if j+1 < len(ops) && ops[j].Op == "SubBalance" && ops[j+1].Op == "AddBalance" && ops[j+1].A == o.A {
			c.K = common.BytesToHash(ops[j].A.Bytes()) // caller
			c.V = ops[j].V
			j += 2
			if j < len(ops) && ops[j].Op == "GetCode" && ops[j].A == o.A {
				c.OCode = ops[j].OCode
				j++
			}
		}
		if c.V.Sign() == 0 {
			c.K = common.Hash{} // the caller of a zero-value transfer is not observable
		}
		out = append(out, c)
		i = j - 1
	}
	return out
}

// opsEquivalent: equal operation, arguments and observation; PrepareAccessList differs by the documented
// extra precompile addresses on the evermint side (compared separately through the warm set).
func opsEquivalent(e, g opRec, w *world) bool {
	if e.Op != g.Op {
		return false
	}
	if e.Op == "AddLog" {
		return logView{e.Log.Address, e.Log.Topics, e.Log.Data}.String() == logView{g.Log.Address, g.Log.Topics, g.Log.Data}.String()
	}
	if e.Op == "PrepareAccessList" {
		return e.Prep.Sender == g.Prep.Sender
	}
	if e.Op == "GetCodeHash" { // zero hash (no account) and the hash of empty code are the same answer to every caller in core/vm
		return e.A == g.A && noCode(e.OHash) == noCode(g.OHash) && (noCode(e.OHash) || e.OHash == g.OHash)
	}
	if e.Op == "CallEnter" {
		return e.A == g.A && e.K == g.K && e.V.Cmp(g.V) == 0 && bytes.Equal(e.OCode, g.OCode)
	}
	return e.same(g)
}

func (pc *progCase) emitCoq(msg core.Message, be blockEnv, eT, gT outcome, sE, sG senderView, preE, preG []string, nextNum uint64,
	ctxAfter sdk.Context, gAfter *state.StateDB, addrs []common.Address) {
	w, t := pc.w, pc.codes
	from := msg.From()
	pc.tcases = append(pc.tcases, transCase(msg, be, sE, sG, eT, gT, w.c.Nonce(ctxAfter, from), gAfter.GetNonce(from)))
	pc.side.Count("coq:CTrans")
	if eT.Core != "" || gT.Core != "" {
		return
	}
	if len(eT.Ops) <= maxOpsPerCase {
		if ot, ok := t.opsTerm(eT.Ops); ok {
			var post []string
			for _, a := range addrs {
				if v := w.evmView(ctxAfter, a); opsMention(eT.Ops, a) || !blankView(v) {
					post = append(post, t.postTerm(a, v))
				}
			}
			pc.tcases = append(pc.tcases, fmt.Sprintf("COpsEvm %s %s %s\n   %s\n   %s\n   %s", CqList([]string{az(be.cfg.CoinBase)}), w.modsTerm(), zu(nextNum),
				CqList(preE), ot, CqList(post)))
			pc.side.Count("coq:COpsEvm")
		}
	} else {
		pc.side.Count("coq:ops-trace-too-long")
	}
	if len(gT.Ops) <= maxOpsPerCase {
		if ot, ok := t.opsTerm(gT.Ops); ok {
			var post, ex []string
			for _, a := range addrs {
				if v := gethView(gAfter, a); opsMention(gT.Ops, a) || !blankView(v) {
					post = append(post, t.postTerm(a, v))
				}
			}
			for _, a := range append(append([]common.Address{}, w.cpcs...), be.cfg.CoinBase) {
				ex = append(ex, az(a))
			}
			pc.tcases = append(pc.tcases, fmt.Sprintf("COpsGeth %s\n   %s\n   %s\n   %s", CqList(ex), CqList(preG), ot, CqList(post)))
			pc.side.Count("coq:COpsGeth")
		}
	}
}

func blankView(v acctView) bool {
	return !v.Exists && v.Nonce == 0 && v.Balance.Sign() == 0 && len(v.Code) == 0 && len(v.Storage) == 0 && len(v.StorageRaw) == 0 && !v.Other
}

func opsMention(ops []opRec, a common.Address) bool {
	for _, o := range ops {
		if o.A == a && o.Op != "AddRefund" && o.Op != "SubRefund" && o.Op != "GetRefund" {
			return true
		}
	}
	return false
}

func noCode(h common.Hash) bool { return h == (common.Hash{}) || h == crypto256(nil) }

var _ = state.New
var _ = sort.Strings

// driver cases are numbered from 1000000 in the sidecar's case index; the plain numbers are the indices of the Coq
// terms (what ./check reports for a model mismatch), each pointing to the driver case it belongs to
func caseKey(i int) int { return 1000000 + i }

func addTerms(cases *CasesFile, side *Sidecar, i int, terms []string) {
	for _, c := range terms {
		kind := c
		if j := strings.IndexAny(c, " \n"); j > 0 {
			kind = c[:j]
		}
		side.CaseIndex[fmt.Sprint(cases.Len())] = map[string]interface{}{"see_case": fmt.Sprint(caseKey(i)), "term": kind}
		cases.Add(c)
	}
}

func TestDriverGethdiff(t *testing.T) {
	out := OutDir(t)
	seed := EnvSeed()
	n := EnvInt("VERIF_N", 300)
	rng := NewRng(seed)
	side := NewSidecar("gethdiff", seed, "program cases (generated pre-state + 1..3 transactions, evermint vs go-ethereum) count as non-trivial when the interpreter executed code (top-level frame used gas > 0), distinct by transactions + outcomes; random interface-operation sequences always count, distinct by operations + observations; end-to-end cases (real blocks) like program cases")
	worlds := []*world{newWorld(t, true), newWorld(t, false)}
	names := []string{"custom-precompiles-registered", "no-custom-precompile"}
	cases := NewCases(out, "From Evm Require Import EvmAbs GethStateDB EvmStateDB Transition CorrBase CorrGethDiff.", "gd_mismatches")
	var directed []*scenario
	var dworld []int
	for wi, w := range worlds {
		for _, sc := range directedScenarios(w) {
			directed = append(directed, sc)
			dworld = append(dworld, wi)
		}
	}
	for i := 0; i < n+len(directed); i++ {
		wi := 0
		if i%4 == 3 {
			wi = 1
		}
		var sc *scenario
		if i < len(directed) {
			sc, wi = directed[i], dworld[i]
		}
		pc := &progCase{idx: i, w: worlds[wi], wname: names[wi], side: side, codes: newCodeTable(), rep: caseReport{Case: i, Seed: seed, World: names[wi]}}
		canon, nt := pc.run(t, rng.Fork(uint64(i)), sc)
		side.Case(caseKey(i), canon, nt, pc.rep)
		side.Count("world:" + names[wi])
		addTerms(cases, side, i, pc.tcases)
	}
	// part (a): random interface-operation sequences
	nRand := n / 2
	for j := 0; j < nRand; j++ {
		i := n + len(directed) + j
		terms, _ := runRandCase(worlds[j%2], rng.Fork(uint64(i)), i, seed, side)
		addTerms(cases, side, i, terms)
	}
	// end-to-end leg: transactions delivered in real blocks
	runE2ECases(t, newWorld(t, true), rng, 12+n/12, side, n+len(directed)+nRand)
	cases.Write(t, 60)
	side.Write(t, out)
}
