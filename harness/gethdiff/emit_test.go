package gethdiff

// Emission of Coq terms (Corr/CorrGethDiff.v: CTrans, COpsGeth, COpsEvm).

import (
	"fmt"
	"math/big"
	"strings"

	sdk "github.com/cosmos/cosmos-sdk/types"
	"github.com/ethereum/go-ethereum/common"
	"github.com/ethereum/go-ethereum/core"

	. "verifharness/hx"
)

// codeTable numbers distinct byte strings: id = index * 2^20 + length, 0 for the empty string.
type codeTable struct {
	byHash map[common.Hash]*big.Int
	n      int64
}

func newCodeTable() *codeTable { return &codeTable{byHash: map[common.Hash]*big.Int{}} }

func (t *codeTable) id(b []byte) *big.Int {
	if len(b) == 0 {
		return Bi(0)
	}
	h := crypto256(b)
	if x, ok := t.byHash[h]; ok {
		return x
	}
	t.n++
	x := new(big.Int).Add(new(big.Int).Lsh(Bi(t.n), 20), Bi(int64(len(b))))
	t.byHash[h] = x
	return x
}

func (t *codeTable) hashObs(h common.Hash) *big.Int {
	switch {
	case h == (common.Hash{}):
		return Bi(-1)
	case h == crypto256(nil):
		return Bi(0)
	}
	if x, ok := t.byHash[h]; ok {
		return x
	}
	return Bi(-2) // hash of a byte string never seen: cannot happen for code set through the interface
}

// addresses are numbered (the models only compare them): numerically small addresses (zero, precompiles) keep
// their value, every other address gets 100000 + its index in a per-run table.  Literals are written without
// scope delimiters (the cases file opens Z_scope): parsing dominates the checking time.
var addrIndex = map[common.Address]int{}

func az(a common.Address) string {
	n := new(big.Int).SetBytes(a.Bytes())
	if n.Cmp(Bi(65536)) < 0 {
		return n.String()
	}
	i, ok := addrIndex[a]
	if !ok {
		i = len(addrIndex)
		addrIndex[a] = i
	}
	return fmt.Sprint(100000 + i)
}
func zz(z *big.Int) string {
	if z.Sign() < 0 {
		return "(" + z.String() + ")"
	}
	return z.String()
}
func zu(u uint64) string      { return fmt.Sprint(u) }
func zi(i int64) string       { return zz(big.NewInt(i)) }
func hz(h common.Hash) string { return h.Big().String() }

func cqPairs(m map[common.Hash]common.Hash, keys []common.Hash) string {
	var xs []string
	for _, k := range keys {
		if v, ok := m[k]; ok {
			xs = append(xs, fmt.Sprintf("(%s, %s)", hz(k), hz(v)))
		}
	}
	return CqList(xs)
}

func sortedKeys(m map[common.Hash]common.Hash) []common.Hash {
	var ks []common.Hash
	for k := range m {
		ks = append(ks, k)
	}
	for i := range ks {
		for j := i + 1; j < len(ks); j++ {
			if ks[j].Big().Cmp(ks[i].Big()) < 0 {
				ks[i], ks[j] = ks[j], ks[i]
			}
		}
	}
	return ks
}

func (t *codeTable) opTerm(o opRec) (string, bool) {
	obsZ := func(z *big.Int) string { return "ObZ " + zz(z) }
	ob := func(b bool) string { return "ObB " + CqBool(b) }
	switch o.Op {
	case "CreateAccount":
		return fmt.Sprintf("(OCreateAccount %s, ObNone)", az(o.A)), true
	case "SubBalance":
		return fmt.Sprintf("(OSubBalance %s %s, ObNone)", az(o.A), zz(o.V)), true
	case "AddBalance":
		return fmt.Sprintf("(OAddBalance %s %s, ObNone)", az(o.A), zz(o.V)), true
	case "GetBalance":
		return fmt.Sprintf("(OGetBalance %s, %s)", az(o.A), obsZ(o.OZ)), true
	case "GetNonce":
		return fmt.Sprintf("(OGetNonce %s, %s)", az(o.A), obsZ(o.OZ)), true
	case "SetNonce":
		return fmt.Sprintf("(OSetNonce %s %s, ObNone)", az(o.A), zz(o.V)), true
	case "GetCodeHash":
		if h := t.hashObs(o.OHash); h.Sign() < 0 {
			return fmt.Sprintf("(OGetCodeHash %s, ObHash false 0)", az(o.A)), h.Cmp(Bi(-1)) == 0
		} else {
			return fmt.Sprintf("(OGetCodeHash %s, ObHash true %s)", az(o.A), zz(h)), true
		}
	case "GetCode":
		return fmt.Sprintf("(OGetCode %s, %s)", az(o.A), obsZ(t.id(o.OCode))), true
	case "SetCode":
		return fmt.Sprintf("(OSetCode %s %s, ObNone)", az(o.A), zz(t.id(o.Code))), true
	case "GetCodeSize":
		return fmt.Sprintf("(OGetCodeSize %s, %s)", az(o.A), obsZ(o.OZ)), true
	case "AddRefund":
		return fmt.Sprintf("(OAddRefund %s, ObNone)", zz(o.V)), true
	case "SubRefund":
		return fmt.Sprintf("(OSubRefund %s, ObNone)", zz(o.V)), true
	case "GetRefund":
		return fmt.Sprintf("(OGetRefund, %s)", obsZ(o.OZ)), true
	case "GetCommittedState":
		return fmt.Sprintf("(OGetCommitted %s %s, %s)", az(o.A), hz(o.K), obsZ(o.OZ)), true
	case "GetState":
		return fmt.Sprintf("(OGetState %s %s, %s)", az(o.A), hz(o.K), obsZ(o.OZ)), true
	case "SetState":
		return fmt.Sprintf("(OSetState %s %s %s, ObNone)", az(o.A), hz(o.K), zz(o.V)), true
	case "Suicide":
		return fmt.Sprintf("(OSuicide %s, %s)", az(o.A), ob(o.OB)), true
	case "HasSuicided":
		return fmt.Sprintf("(OHasSuicided %s, %s)", az(o.A), ob(o.OB)), true
	case "Exist":
		return fmt.Sprintf("(OExist %s, %s)", az(o.A), ob(o.OB)), true
	case "Empty":
		return fmt.Sprintf("(OEmpty %s, %s)", az(o.A), ob(o.OB)), true
	case "PrepareAccessList":
		dst := "None"
		if o.Prep.Dst != nil {
			dst = "(Some " + az(*o.Prep.Dst) + ")"
		}
		var pre, ts []string
		for _, a := range o.Prep.Precompiles {
			pre = append(pre, az(a))
		}
		for _, tp := range o.Prep.List {
			var ks []string
			for _, k := range tp.StorageKeys {
				ks = append(ks, hz(k))
			}
			ts = append(ts, fmt.Sprintf("(%s, %s)", az(tp.Address), CqList(ks)))
		}
		return fmt.Sprintf("(OPrepare %s %s %s %s, ObNone)", az(o.Prep.Sender), dst, CqList(pre), CqList(ts)), true
	case "AddressInAccessList":
		return fmt.Sprintf("(OAddrInAL %s, %s)", az(o.A), ob(o.OB)), true
	case "SlotInAccessList":
		return fmt.Sprintf("(OSlotInAL %s %s, ObBB %s %s)", az(o.A), hz(o.K), CqBool(o.OB), CqBool(o.OB2)), true
	case "AddAddressToAccessList":
		return fmt.Sprintf("(OAddAddrAL %s, ObNone)", az(o.A)), true
	case "AddSlotToAccessList":
		return fmt.Sprintf("(OAddSlotAL %s %s, ObNone)", az(o.A), hz(o.K)), true
	case "Snapshot":
		return fmt.Sprintf("(OSnapshot, %s)", obsZ(Bi(int64(o.RawID)))), true
	case "RevertToSnapshot":
		if o.Ordinal < 0 {
			return "", false
		}
		return fmt.Sprintf("(ORevert %d%%nat, ObNone)", o.Ordinal), true
	case "AddLog":
		var tp []string
		for _, x := range o.Log.Topics {
			tp = append(tp, hz(x))
		}
		return fmt.Sprintf("(OAddLog (%s, %s, %s), ObNone)", az(o.Log.Address), CqList(tp), zz(t.id(o.Log.Data))), true
	case "Finalise":
		return "(OFinalise, ObNone)", true
	}
	return "", false
}

func (t *codeTable) opsTerm(ops []opRec) (string, bool) {
	var xs []string
	for _, o := range ops {
		s, ok := t.opTerm(o)
		if !ok {
			return "", false
		}
		xs = append(xs, s)
	}
	return "[" + strings.Join(xs, ";\n    ") + "]", true
}

func (t *codeTable) preTerm(a common.Address, v acctView, num uint64, raw bool) string {
	st := v.Storage
	if raw {
		st = v.StorageRaw
	}
	return fmt.Sprintf("(%s, %s, %s, %s, %s, %s, %s, %s)", az(a), CqBool(v.Exists), zu(num), zu(v.Nonce), zz(v.Balance), zz(t.id(v.Code)),
		cqPairs(st, sortedKeys(st)), CqBool(v.Other))
}

func (t *codeTable) postTerm(a common.Address, v acctView) string {
	var xs []string
	for _, k := range probeKeys {
		xs = append(xs, fmt.Sprintf("(%s, %s)", hz(k), hz(v.Storage[k])))
	}
	return fmt.Sprintf("(%s, %s, %s, %s, %s)", az(a), zu(v.Nonce), zz(v.Balance), zz(t.id(v.Code)), CqList(xs))
}

func (w *world) accountNumber(ctx sdk.Context, a common.Address) uint64 {
	acc := w.c.App.AccountKeeper.GetAccount(ctx, sdk.AccAddress(a.Bytes()))
	if acc == nil {
		return 0
	}
	return acc.GetAccountNumber()
}

func (w *world) nextAccountNumber(ctx sdk.Context) uint64 {
	n, err := w.c.App.AccountKeeper.AccountNumber.Peek(ctx)
	if err != nil {
		w.t.Fatal(err)
	}
	return n
}

func (w *world) modsTerm() string { return CqList([]string{az(w.feeCollector), az(w.evmModule)}) }

const maxOpsPerCase = 700

// ---------------------------------------------------------------- transition cases

var coreClassNum = map[string]int64{"nonce-too-high": 1, "nonce-too-low": 2, "nonce-max": 3, "sender-no-eoa": 4, "cap-very-high": 5, "tip-very-high": 6,
	"tip-above-cap": 7, "cap-too-low": 8, "insufficient-funds": 9, "gas-limit-reached": 10, "gas-uint-overflow": 11, "intrinsic-gas": 12}

type senderView struct {
	Nonce uint64
	Code  *big.Int
	Bal   *big.Int
}

func (s senderView) term() string {
	return fmt.Sprintf("(mkSender %s %s %s)", zu(s.Nonce), zz(s.Code), zz(s.Bal))
}

func codeClass(exists bool, code []byte, t *codeTable) *big.Int {
	if len(code) > 0 {
		return t.id(code)
	}
	if exists {
		return Bi(0)
	}
	return Bi(-1)
}

// wrapperDelta: what the transition wrapper itself did to the sender (gas purchase, refund) and to the
// coinbase, read off the recorded operations.
func wrapperDelta(ops []opRec, sender, coinbase common.Address, isGeth bool) (senderDelta, coinbaseFee *big.Int) {
	senderDelta, coinbaseFee = new(big.Int), new(big.Int)
	n := len(ops)
	if n > 0 && ops[n-1].Op == "Finalise" {
		n--
	}
	if isGeth {
		// the last operation is AddBalance(coinbase, fee) unless fees are skipped; before it AddBalance(sender, remaining)
		if n > 0 && ops[n-1].Op == "AddBalance" && ops[n-1].A == coinbase && (n < 2 || ops[n-2].Op == "AddBalance") {
			coinbaseFee = ops[n-1].V
			n--
		}
		for _, o := range ops {
			if o.Op == "PrepareAccessList" {
				break
			}
			if o.Op == "SubBalance" && o.A == sender {
				senderDelta.Sub(senderDelta, o.V)
			}
		}
	}
	if n > 0 && ops[n-1].Op == "AddBalance" && ops[n-1].A == sender && n > 1 && ops[n-2].Op == "GetRefund" {
		senderDelta.Add(senderDelta, ops[n-1].V)
	}
	return
}

func tobsTerm(o outcome, ops []opRec, sender, coinbase common.Address, nonceAfter uint64, isGeth bool) string {
	if o.Core != "" {
		return fmt.Sprintf("(TObsErr %s)", zi(coreClassNum[o.Core]))
	}
	d, f := wrapperDelta(ops, sender, coinbase, isGeth)
	return fmt.Sprintf("(TObsOk %s %s %s %s)", zu(o.GasUsed), zz(d), zu(nonceAfter), zz(f))
}

func transCase(msg core.Message, be blockEnv, sE, sG senderView, eT, gT outcome, nonceAfterE, nonceAfterG uint64) string {
	nz, z := 0, 0
	for _, b := range msg.Data() {
		if b != 0 {
			nz++
		} else {
			z++
		}
	}
	keys := 0
	for _, tp := range msg.AccessList() {
		keys += len(tp.StorageKeys)
	}
	m := fmt.Sprintf("(mkMsg %s %s %s %s %s %s %s %s %s %s %s false)", zu(msg.Nonce()), zu(msg.Gas()), zz(msg.GasPrice()), zz(msg.GasFeeCap()), zz(msg.GasTipCap()),
		zz(msg.Value()), zi(int64(nz)), zi(int64(z)), CqBool(msg.To() == nil), zi(int64(len(msg.AccessList()))), zi(int64(keys)))
	london := be.cfg.ChainConfig.IsLondon(be.blockCtx.BlockNumber)
	e := fmt.Sprintf("(mkEnv %s %s %s %s)", zz(be.cfg.BaseFee), CqBool(london), CqBool(be.cfg.NoBaseFee), "18446744073709551615")
	oe := fmt.Sprintf("(mkOracle %s %s)", zu(eT.EvmGasUsed), zu(eT.Refund))
	og := fmt.Sprintf("(mkOracle %s %s)", zu(gT.EvmGasUsed), zu(gT.Refund))
	return fmt.Sprintf("CTrans %s %s true %s %s %s %s 0 0\n   %s\n   %s", m, e, sE.term(), sG.term(), oe, og,
		tobsTerm(eT, eT.Ops, msg.From(), be.cfg.CoinBase, nonceAfterE, false), tobsTerm(gT, gT.Ops, msg.From(), be.cfg.CoinBase, nonceAfterG, true))
}
