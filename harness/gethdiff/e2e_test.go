package gethdiff

// End-to-end leg of the `gethdiff` driver: the same comparison with the transaction delivered in a REAL block
// (ante handler, message server, ApplyTransaction, commit) instead of the emulated ante step, so that the fee
// deduction / nonce handling emulated in run_test.go is itself checked against the production path: the
// sender's final balance and nonce, the result (gas used, return data, vm error), the logs of the receipt and
// the EVM view of every address must equal go-ethereum's for the block the transaction was executed in.

import (
	"fmt"
	"math/big"
	"testing"

	sdk "github.com/cosmos/cosmos-sdk/types"
	"github.com/ethereum/go-ethereum/common"
	ethtypes "github.com/ethereum/go-ethereum/core/types"
	"github.com/stretchr/testify/require"

	evmtypes "github.com/EscanBE/evermint/v12/x/evm/types"

	. "verifharness/hx"
)

func runE2ECases(t *testing.T, w *world, r *Rng, n int, side *Sidecar, firstIdx int) {
	c := w.c
	var everSeen []common.Address // the chain keeps the state of earlier cases: everything ever written or touched is mirrored
	for j := 0; j < n; j++ {
		idx := firstIdx + j
		rr := r.Fork(uint64(idx))
		g := &gen{r: rr, w: w, feat: map[string]int{}}
		rep := caseReport{Case: idx, Seed: EnvSeed(), World: "end-to-end (real block)"}
		// pre-state written into the committed store between blocks
		ctx := c.Ctx()
		pre := g.genPre()
		for _, p := range pre {
			w.writePre(ctx, p)
			rep.Pre = append(rep.Pre, fmt.Sprintf("%s(%s) n=%d b=%v code=%x st=%d", p.Addr.Hex(), w.class(p.Addr), p.Nonce, p.Balance, p.Code, len(p.Storage)))
		}
		// storage left over from earlier cases at contract addresses is part of the pre-state: it is mirrored as it is
		everSeen = append(everSeen, g.predicted...)
		universe := dedup(append(w.fixedUniverse(), everSeen...))
		ctx = c.Ctx()
		be := w.blockEnv(ctx)
		gs, _ := w.mirror(ctx, universe)
		spec := g.txSpec(be.cfg.BaseFee)
		spec.NonceOff = 0
		if spec.Type == 2 && spec.FeeCap.Cmp(spec.TipCap) < 0 {
			spec.TipCap = Bi(0)
		}
		// the ante handler must admit it: price at least the base fee, affordable
		if spec.GasPrice != nil && spec.GasPrice.Cmp(be.cfg.BaseFee) < 0 {
			spec.GasPrice = new(big.Int).Set(be.cfg.BaseFee)
		}
		if spec.FeeCap != nil && spec.FeeCap.Cmp(be.cfg.BaseFee) < 0 {
			spec.FeeCap = new(big.Int).Add(be.cfg.BaseFee, spec.TipCap)
		}
		if spec.Gas < 21000 {
			spec.Gas = 60000
		}
		if spec.Value.Cmp(new(big.Int).Exp(Bi(10), Bi(20), nil)) > 0 {
			spec.Value = Bi(3)
		}
		acct := w.senders[spec.Sender]
		from := acct.GetEthAddress()
		key, err := acct.PrivateKey.ToECDSA()
		require.NoError(t, err)
		tx, err := ethtypes.SignNewTx(key, be.signer, spec.txData(c.Nonce(ctx, from), be.cfg.ChainConfig.ChainID))
		require.NoError(t, err)
		msg, err := tx.AsMessage(be.signer, be.cfg.BaseFee)
		require.NoError(t, err)
		rep.Txs = []string{spec.String()}

		ethMsg := &evmtypes.MsgEthereumTx{}
		if err := ethMsg.FromEthereumTx(tx, from); err != nil {
			side.Count("e2e:rejected-by-FromEthereumTx")
			continue
		}
		bz, err := c.WrapEthMsg(ethMsg)
		require.NoError(t, err)

		gO, gTr := w.runGeth(gs, be, msg, tx.Hash(), 0, true)
		res := c.RunBlock([][]byte{bz})
		require.Len(t, res.TxResults, 1)
		tr := res.TxResults[0]
		after := c.Ctx()
		var eO outcome
		if tr.Code != 0 {
			eO = outcome{Core: "rejected"}
		} else {
			var msgData sdk.TxMsgData
			require.NoError(t, msgData.Unmarshal(tr.Data))
			require.Len(t, msgData.MsgResponses, 1)
			rsp := &evmtypes.MsgEthereumTxResponse{}
			require.NoError(t, rsp.Unmarshal(msgData.MsgResponses[0].Value))
			eO = outcome{Vm: vmClass(rsp.VmError), Ret: rsp.Ret, GasUsed: rsp.GasUsed, Logs: receiptLogs(rsp.MarshalledReceipt)}
		}
		rep.Evermint, rep.Geth = []string{eO.summary() + " log=" + firstLine(tr.Log)}, []string{gO.summary()}
		side.Count("e2e:outcome:core=" + eO.Core + ",vm=" + eO.Vm)
		hit := func(sig, m string) {
			rep.Diffs = append(rep.Diffs, sig+": "+m)
			side.Hit(sig, m, rep)
		}
		switch {
		case gO.Panic != "":
			hit("C02/gethdiff/e2e/reference-panic", gO.Panic)
		case eO.Core != "" && gO.Core != "":
			// rejected on both sides (classes are not comparable: the ante handler rejects first)
		case eO.Core != "" && gO.Core == "":
			// delivered transactions that panic inside the message (the two known module-account findings) surface as a failed tx
			if cl := panicClass(tr.Log); cl != "other" {
				hit("C02/gethdiff/prog/panic:"+cl, "delivered in a block: "+firstLine(tr.Log))
			} else {
				hit("C02/gethdiff/e2e/rejected-but-reference-executes", fmt.Sprintf("%s | go-ethereum %s", firstLine(tr.Log), gO.summary()))
			}
		case eO.Core == "" && gO.Core != "":
			hit("C02/gethdiff/e2e/executed-but-reference-rejects", fmt.Sprintf("evermint %s | go-ethereum %s", eO.summary(), gO.summary()))
		default:
			for _, d := range diffOutcome(eO, gO) {
				hit("C02/gethdiff/e2e/"+d, fmt.Sprintf("evermint %s | go-ethereum %s", eO.summary(), gO.summary()))
			}
			addrs := append([]common.Address{}, universe...)
			for a := range gTr.addrs {
				addrs = append(addrs, a)
				everSeen = append(everSeen, a)
			}
			for _, a := range dedup(addrs) {
				if a == be.cfg.CoinBase || a == w.feeCollector || w.class(a) == "module-account" {
					continue // fee routing and block rewards: documented differences (C04 / C05)
				}
				ev, gv := w.evmView(after, a), gethView(gs, a)
				if ok, what := viewsEqual(ev, gv); !ok {
					hit("C02/gethdiff/e2e/post-state-"+what+"@"+w.class(a), fmt.Sprintf("%s: evermint %s | go-ethereum %s", a.Hex(), ev, gv))
				}
			}
		}
		side.Case(caseKey(idx), spec.String()+eO.summary(), gTr.gasUsed > 0, rep)
	}
}

func firstLine(s string) string {
	if len(s) > 300 {
		s = s[:300]
	}
	return s
}
