package gethdiff

// Program generator for the `gethdiff` driver (C02): bytecode assembled from a grammar of actions.
// Every action that yields a value stores it in the next 32-byte "observation slot" of memory, and the
// normal end of a frame RETURNs (or REVERTs with) all observation slots, so everything a program sees
// (call success flags, returned data, balances, code hashes, GAS, storage reads, created addresses)
// flows into the transaction's return data, which is compared with go-ethereum's.

import (
	"fmt"
	"math/big"

	"github.com/ethereum/go-ethereum/common"
	"github.com/ethereum/go-ethereum/crypto"

	. "verifharness/hx"
)

const (
	opSTOP           byte = 0x00
	opADD            byte = 0x01
	opSHA3           byte = 0x20
	opADDRESS        byte = 0x30
	opBALANCE        byte = 0x31
	opORIGIN         byte = 0x32
	opCALLER         byte = 0x33
	opCALLVALUE      byte = 0x34
	opCALLDATALOAD   byte = 0x35
	opCALLDATASIZE   byte = 0x36
	opCODESIZE       byte = 0x38
	opCODECOPY       byte = 0x39
	opGASPRICE       byte = 0x3a
	opEXTCODESIZE    byte = 0x3b
	opEXTCODECOPY    byte = 0x3c
	opRETURNDATASIZE byte = 0x3d
	opEXTCODEHASH    byte = 0x3f
	opBLOCKHASH      byte = 0x40
	opCOINBASE       byte = 0x41
	opTIMESTAMP      byte = 0x42
	opNUMBER         byte = 0x43
	opDIFFICULTY     byte = 0x44
	opGASLIMIT       byte = 0x45
	opCHAINID        byte = 0x46
	opSELFBALANCE    byte = 0x47
	opBASEFEE        byte = 0x48
	opPOP            byte = 0x50
	opMLOAD          byte = 0x51
	opMSTORE         byte = 0x52
	opSLOAD          byte = 0x54
	opSSTORE         byte = 0x55
	opJUMP           byte = 0x56
	opMSIZE          byte = 0x59
	opGAS            byte = 0x5a
	opJUMPDEST       byte = 0x5b
	opPUSH0          byte = 0x5f
	opLOG0           byte = 0xa0
	opCREATE         byte = 0xf0
	opCALL           byte = 0xf1
	opCALLCODE       byte = 0xf2
	opRETURN         byte = 0xf3
	opDELEGATECALL   byte = 0xf4
	opCREATE2        byte = 0xf5
	opSTATICCALL     byte = 0xfa
	opREVERT         byte = 0xfd
	opINVALID        byte = 0xfe
	opSELFDESTRUCT   byte = 0xff
)

const (
	maxObs  = 48     // observation slots per frame
	scratch = 0x1000 // memory scratch area (call return buffer, init code, extcodecopy)
)

// prog builds one contract body.
type prog struct {
	a     *Asm
	nobs  int
	ndata int
	feat  map[string]int // features used (histogram)
}

func newProg(feat map[string]int) *prog { return &prog{a: NewAsm(), feat: feat} }

func (p *prog) f(k string) { p.feat[k]++ }

// obs consumes the top of the stack into the next observation slot.
func (p *prog) obs() {
	if p.nobs >= maxObs {
		p.a.Op(opPOP)
		return
	}
	p.a.PushU(uint64(32 * p.nobs)).Op(opMSTORE)
	p.nobs++
}

func (p *prog) sstore(k, v *big.Int) { p.a.Push(v).Push(k).Op(opSSTORE); p.f("SSTORE") }
func (p *prog) sload(k *big.Int)     { p.a.Push(k).Op(opSLOAD); p.obs(); p.f("SLOAD") }

func (p *prog) logn(n int, size uint64, topics []*big.Int) {
	for i := n - 1; i >= 0; i-- {
		p.a.Push(topics[i])
	}
	p.a.PushU(size).PushU(0).Op(opLOG0 + byte(n))
	p.f(fmt.Sprintf("LOG%d", n))
}

func (p *prog) ext(op byte, name string, addr common.Address) {
	if op == opEXTCODECOPY {
		// clear scratch word, copy 32 bytes of code at offset 0, observe
		p.a.PushU(0).PushU(scratch).Op(opMSTORE)
		p.a.PushU(32).PushU(0).PushU(scratch).PushAddr(addr).Op(opEXTCODECOPY)
		p.a.PushU(scratch).Op(opMLOAD)
	} else {
		p.a.PushAddr(addr).Op(op)
	}
	p.obs()
	p.f(name)
}

func (p *prog) env(op byte, name string) { p.a.Op(op); p.obs(); p.f(name) }

func (p *prog) blockhash(n uint64) { p.a.PushU(n).Op(opBLOCKHASH); p.obs(); p.f("BLOCKHASH") }

func (p *prog) sha3(size uint64) { p.a.PushU(size).PushU(0).Op(opSHA3); p.obs(); p.f("SHA3") }

func (p *prog) calldataload(off uint64) { p.a.PushU(off).Op(opCALLDATALOAD); p.obs(); p.f("CALLDATALOAD") }

func (p *prog) memExpand(off uint64) { p.a.PushU(1).PushU(off).Op(opMSTORE); p.f("MEMEXPAND") }

// call: gas==nil means the GAS opcode (all but one 64th).
func (p *prog) call(op byte, name string, target common.Address, value *big.Int, gas *big.Int, argSize uint64) {
	p.a.PushU(0).PushU(scratch).Op(opMSTORE) // clear the return buffer
	p.a.PushU(32).PushU(scratch).PushU(argSize).PushU(0)
	if op == opCALL || op == opCALLCODE {
		p.a.Push(value)
	}
	p.a.PushAddr(target)
	if gas == nil {
		p.a.Op(opGAS)
	} else {
		p.a.Push(gas)
	}
	p.a.Op(op)
	p.obs()
	p.a.Op(opRETURNDATASIZE)
	p.obs()
	p.a.PushU(scratch).Op(opMLOAD)
	p.obs()
	p.f(name)
}

// create: copies init code from the data section to scratch and runs CREATE / CREATE2.
func (p *prog) create(op2 bool, value *big.Int, init []byte, salt *big.Int) {
	l := fmt.Sprintf("i%d", p.ndata)
	p.ndata++
	p.a.Data(l, init)
	p.a.PushU(uint64(len(init))).PushLabel(l).PushU(scratch).Op(opCODECOPY)
	if op2 {
		p.a.Push(salt)
	}
	p.a.PushU(uint64(len(init))).PushU(scratch).Push(value)
	if op2 {
		p.a.Op(opCREATE2)
		p.f("CREATE2")
	} else {
		p.a.Op(opCREATE)
		p.f("CREATE")
	}
	p.obs()
	p.a.Op(opRETURNDATASIZE)
	p.obs()
}

const (
	endReturn = iota
	endStop
	endRevert
	endInvalid
	endLoop
	endSelfdestruct
	endUnderflow
	endBadJump
)

func (p *prog) end(kind int, benef common.Address) {
	switch kind {
	case endReturn:
		p.a.PushU(uint64(32 * p.nobs)).PushU(0).Op(opRETURN)
		p.f("end:RETURN")
	case endStop:
		p.a.Op(opSTOP)
		p.f("end:STOP")
	case endRevert:
		p.a.PushU(uint64(32 * p.nobs)).PushU(0).Op(opREVERT)
		p.f("end:REVERT")
	case endInvalid:
		p.a.Op(opINVALID)
		p.f("end:INVALID")
	case endLoop:
		p.a.Label("loop").PushLabel("loop").Op(opJUMP)
		p.f("end:LOOP(out-of-gas)")
	case endSelfdestruct:
		p.a.PushAddr(benef).Op(opSELFDESTRUCT)
		p.f("end:SELFDESTRUCT")
	case endUnderflow:
		p.a.Op(opADD)
		p.f("end:STACK-UNDERFLOW")
	case endBadJump:
		p.a.PushU(1).Op(opJUMP)
		p.f("end:BAD-JUMP")
	}
}

// initReturning builds init code that runs `pre` and then returns `runtime` as the code to deploy.
func initReturning(pre func(p *prog), runtime []byte, feat map[string]int) []byte {
	p := newProg(feat)
	if pre != nil {
		pre(p)
	}
	p.a.Data("rt", runtime)
	p.a.PushU(uint64(len(runtime))).PushLabel("rt").PushU(0).Op(opCODECOPY)
	p.a.PushU(uint64(len(runtime))).PushU(0).Op(opRETURN)
	return p.a.Bytes()
}

// ---------------------------------------------------------------- random generation

type gen struct {
	r    *Rng
	w    *world
	feat map[string]int
	// addresses that CREATE/CREATE2 of the generated programs will (try to) use; collected for the universe
	predicted []common.Address
	creates   []createSite
}

type createSite struct {
	creator common.Address
	op2     bool
	salt    *big.Int
	init    []byte
}

var slotKeys = []*big.Int{Bi(0), Bi(1), Bi(2), Bi(3), new(big.Int).Sub(Pow2(256), Bi(1))}
var slotVals = []*big.Int{Bi(0), Bi(0), Bi(1), Bi(2), Bi(1), new(big.Int).Sub(Pow2(255), Bi(7))}

func (g *gen) key() *big.Int { return slotKeys[g.r.Intn(len(slotKeys))] }
func (g *gen) val() *big.Int { return slotVals[g.r.Intn(len(slotVals))] }

func (g *gen) smallValue() *big.Int {
	switch g.r.Intn(8) {
	case 0, 1, 2, 3:
		return Bi(0)
	case 4:
		return Bi(1)
	case 5:
		return Bi(int64(1 + g.r.Intn(500)))
	case 6:
		return Bi(1000)
	default:
		return new(big.Int).Exp(Bi(10), Bi(30), nil) // more than anybody has
	}
}

func (g *gen) callGas() *big.Int {
	switch g.r.Intn(8) {
	case 0, 1, 2, 3:
		return nil
	case 4:
		return Bi(0)
	case 5:
		return Bi(2300)
	case 6:
		return Bi(int64(3000 + g.r.Intn(40000)))
	default:
		return Bi(int64(100 + g.r.Intn(2000)))
	}
}

// anyAddr picks an address of the universe for EXT*/BALANCE/beneficiary/access-list purposes.
func (g *gen) anyAddr() common.Address {
	w := g.w
	switch g.r.Intn(14) {
	case 0:
		return w.contracts[g.r.Intn(len(w.contracts))]
	case 1:
		return w.senders[g.r.Intn(len(w.senders))].GetEthAddress()
	case 2:
		return w.emptyExisting
	case 3:
		return w.absent[g.r.Intn(len(w.absent))]
	case 4:
		return w.funded
	case 5:
		return common.BytesToAddress([]byte{byte(1 + g.r.Intn(9))})
	case 6:
		return common.Address{}
	case 7:
		return w.coinbase
	case 8:
		if len(w.cpcs) > 0 {
			return w.cpcs[g.r.Intn(len(w.cpcs))]
		}
		return common.BytesToAddress([]byte{0x0a}) // just above the precompile range
	case 9:
		if len(g.predicted) > 0 {
			return g.predicted[g.r.Intn(len(g.predicted))]
		}
		return w.absent[0]
	case 10:
		return w.codelessNonce
	case 11:
		if g.r.Chance(12) {
			return w.moduleAddr
		}
		return w.funded
	default:
		return w.contracts[g.r.Intn(len(w.contracts))]
	}
}

// callTarget: like anyAddr but never a custom precompile (not callable on the reference side) and
// with contract targets biased to higher indices than `self` (so that recursion is the exception).
func (g *gen) callTarget(self int) common.Address {
	w := g.w
	if g.r.Chance(55) {
		n := len(w.contracts)
		if self >= 0 && self+1 < n && g.r.Chance(85) {
			return w.contracts[self+1+g.r.Intn(n-self-1)]
		}
		return w.contracts[g.r.Intn(n)]
	}
	for {
		a := g.anyAddr()
		isCpc := false
		for _, c := range w.cpcs {
			if c == a {
				isCpc = true
			}
		}
		if !isCpc {
			return a
		}
	}
}

// leafRuntime: small runtime code for created contracts.
func (g *gen) leafRuntime() []byte {
	p := newProg(g.feat)
	n := g.r.Intn(4)
	for i := 0; i < n; i++ {
		switch g.r.Intn(5) {
		case 0:
			p.sstore(g.key(), g.val())
		case 1:
			p.sload(g.key())
		case 2:
			p.logn(g.r.Intn(3), uint64(g.r.Intn(40)), []*big.Int{Bi(7), Bi(8), Bi(9), Bi(10)})
		case 3:
			p.env(opSELFBALANCE, "SELFBALANCE")
		case 4:
			p.env(opCALLER, "CALLER")
		}
	}
	switch g.r.Intn(6) {
	case 0:
		p.end(endSelfdestruct, g.anyAddr())
	case 1:
		p.end(endRevert, common.Address{})
	default:
		p.end(endReturn, common.Address{})
	}
	return p.a.Bytes()
}

// initCode generates init code of one of the classes the property names.
func (g *gen) initCode(creator int, depth int) []byte {
	pre := func(p *prog) {
		n := g.r.Intn(3)
		for i := 0; i < n; i++ {
			g.action(p, creator, depth+1, true)
		}
	}
	switch g.r.Intn(12) {
	case 0: // revert
		p := newProg(g.feat)
		pre(p)
		p.end(endRevert, common.Address{})
		g.feat["init:REVERT"]++
		return p.a.Bytes()
	case 1: // invalid
		p := newProg(g.feat)
		pre(p)
		p.end(endInvalid, common.Address{})
		g.feat["init:INVALID"]++
		return p.a.Bytes()
	case 2: // code starting with 0xEF (EIP-3541)
		g.feat["init:0xEF"]++
		return initReturning(pre, []byte{0xEF, 0x00, 0x01}, g.feat)
	case 3: // empty code
		g.feat["init:EMPTY-CODE"]++
		return initReturning(pre, nil, g.feat)
	case 4: // selfdestruct during init
		p := newProg(g.feat)
		pre(p)
		p.end(endSelfdestruct, g.anyAddr())
		g.feat["init:SELFDESTRUCT"]++
		return p.a.Bytes()
	case 5: // oversize code (max code size exceeded)
		p := newProg(g.feat)
		p.a.PushU(24577).PushU(0).Op(opRETURN)
		g.feat["init:OVERSIZE"]++
		return p.a.Bytes()
	case 6: // out of gas in init
		p := newProg(g.feat)
		pre(p)
		p.end(endLoop, common.Address{})
		g.feat["init:OOG"]++
		return p.a.Bytes()
	default:
		g.feat["init:DEPLOY"]++
		return initReturning(pre, g.leafRuntime(), g.feat)
	}
}

// action appends one random action to p. self = index of the contract in the universe (-1: created code / tx init code).
func (g *gen) action(p *prog, self int, depth int, inInit bool) {
	r := g.r
	switch k := r.Intn(100); {
	case k < 14:
		p.sstore(g.key(), g.val())
	case k < 22:
		p.sload(g.key())
	case k < 28:
		p.logn(r.Intn(5), uint64(r.Intn(70)), []*big.Int{Bi(int64(r.Intn(3))), Bi(2), g.val(), Bi(4)})
	case k < 40:
		ops := []struct {
			op byte
			n  string
		}{{opBALANCE, "BALANCE"}, {opEXTCODESIZE, "EXTCODESIZE"}, {opEXTCODEHASH, "EXTCODEHASH"}, {opEXTCODECOPY, "EXTCODECOPY"}}
		o := ops[r.Intn(len(ops))]
		a := g.anyAddr()
		p.ext(o.op, o.n, a)
		p.f("ext@" + g.w.class(a))
	case k < 47:
		envs := []struct {
			op byte
			n  string
		}{{opADDRESS, "ADDRESS"}, {opORIGIN, "ORIGIN"}, {opCALLER, "CALLER"}, {opCALLVALUE, "CALLVALUE"}, {opCALLDATASIZE, "CALLDATASIZE"},
			{opCODESIZE, "CODESIZE"}, {opGASPRICE, "GASPRICE"}, {opRETURNDATASIZE, "RETURNDATASIZE"}, {opCOINBASE, "COINBASE"},
			{opTIMESTAMP, "TIMESTAMP"}, {opNUMBER, "NUMBER"}, {opDIFFICULTY, "DIFFICULTY"}, {opGASLIMIT, "GASLIMIT"}, {opCHAINID, "CHAINID"},
			{opSELFBALANCE, "SELFBALANCE"}, {opBASEFEE, "BASEFEE"}, {opMSIZE, "MSIZE"}, {opGAS, "GAS"}, {opGAS, "GAS"}, {opPUSH0, "PUSH0"}}
		e := envs[r.Intn(len(envs))]
		p.env(e.op, e.n)
	case k < 49:
		p.blockhash(uint64(r.Intn(12)))
	case k < 51:
		p.sha3(uint64(r.Intn(100)))
	case k < 53:
		p.calldataload(uint64(r.Intn(40)))
	case k < 55:
		p.memExpand(uint64(0x2000 + r.Intn(0x4000)))
	case k < 88:
		calls := []struct {
			op byte
			n  string
		}{{opCALL, "CALL"}, {opCALL, "CALL"}, {opCALL, "CALL"}, {opCALLCODE, "CALLCODE"}, {opDELEGATECALL, "DELEGATECALL"}, {opSTATICCALL, "STATICCALL"}}
		c := calls[r.Intn(len(calls))]
		t := g.callTarget(self)
		v := g.smallValue()
		gas := g.callGas()
		// back edges (recursion) get a bounded gas operand
		for j, ca := range g.w.contracts {
			if ca == t && self >= 0 && j <= self && gas == nil {
				gas = Bi(int64(20000 + r.Intn(60000)))
			}
		}
		p.call(c.op, c.n, t, v, gas, uint64(r.Intn(3)*32))
		p.f("call@" + g.w.class(t))
		if v.Sign() > 0 && (c.op == opCALL || c.op == opCALLCODE) {
			p.f("call-with-value")
		}
	default:
		if depth >= 2 {
			p.sload(g.key())
			return
		}
		op2 := r.Bool()
		init := g.initCode(self, depth)
		salt := Bi(int64(r.Intn(2)))
		v := g.smallValue()
		p.create(op2, v, init, salt)
		if self >= 0 {
			g.creates = append(g.creates, createSite{creator: g.w.contracts[self], op2: op2, salt: salt, init: init})
		}
		if r.Chance(25) { // the same creation again: CREATE2 collides, CREATE uses the next nonce
			p.create(op2, v, init, salt)
			p.f("create-repeated")
		}
	}
}

// contractCode generates the runtime code of universe contract number self.
func (g *gen) contractCode(self int) []byte {
	p := newProg(g.feat)
	n := 1 + g.r.Intn(7)
	for i := 0; i < n; i++ {
		g.action(p, self, 0, false)
	}
	switch k := g.r.Intn(100); {
	case k < 50:
		p.end(endReturn, common.Address{})
	case k < 56:
		p.end(endStop, common.Address{})
	case k < 68:
		p.end(endRevert, common.Address{})
	case k < 74:
		p.end(endInvalid, common.Address{})
	case k < 78:
		p.end(endLoop, common.Address{})
	case k < 92:
		var b common.Address
		switch g.r.Intn(4) {
		case 0:
			b = g.w.contracts[self] // self beneficiary
			p.f("selfdestruct-to-self")
		case 1:
			b = g.w.absent[g.r.Intn(len(g.w.absent))]
			p.f("selfdestruct-to-fresh")
		default:
			b = g.anyAddr()
		}
		p.end(endSelfdestruct, b)
	case k < 96:
		p.end(endUnderflow, common.Address{})
	default:
		p.end(endBadJump, common.Address{})
	}
	return p.a.Bytes()
}

// predictedAddrs computes the addresses the recorded create sites would produce (creator nonces 1..3 for CREATE).
func (g *gen) predictedAddrs() []common.Address {
	var out []common.Address
	for _, c := range g.creates {
		if c.op2 {
			out = append(out, crypto.CreateAddress2(c.creator, common.BigToHash(c.salt), crypto.Keccak256(c.init)))
		} else {
			for n := uint64(1); n <= 3; n++ {
				out = append(out, crypto.CreateAddress(c.creator, n))
			}
		}
	}
	return out
}
