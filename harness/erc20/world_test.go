package erc20

// Set-up of one fresh chain per history: two ERC-20 precompiles (native denom and `utwo`), two forwarder
// contracts (bytecode assembled here), a vesting account with locked coins, the address universe, snapshots.

import (
	"bytes"
	"math/big"
	"sort"
	"testing"
	"time"

	sdkmath "cosmossdk.io/math"
	sdk "github.com/cosmos/cosmos-sdk/types"
	authtypes "github.com/cosmos/cosmos-sdk/x/auth/types"
	vestingtypes "github.com/cosmos/cosmos-sdk/x/auth/vesting/types"
	govtypes "github.com/cosmos/cosmos-sdk/x/gov/types"
	"github.com/ethereum/go-ethereum/common"
	ethtypes "github.com/ethereum/go-ethereum/core/types"
	"github.com/ethereum/go-ethereum/crypto"
	"github.com/stretchr/testify/require"

	itu "github.com/EscanBE/evermint/v12/integration_test_util"
	itutiltypes "github.com/EscanBE/evermint/v12/integration_test_util/types"
	cpctypes "github.com/EscanBE/evermint/v12/x/cpc/types"
	evmtypes "github.com/EscanBE/evermint/v12/x/evm/types"

	. "verifharness/hx"
)

// forwarder runtime: calldata = 20-byte target || payload; CALL(gas, target, 0, payload); then
//   strict : success -> RETURN(returndata), failure -> REVERT(returndata)
//   lenient: RETURN(success(32 bytes) || returndata) whatever the inner call did (outer frame commits)
var (
	fwdPrefix = []byte{
		0x60, 0x14, 0x36, 0x03, // len = calldatasize - 20
		0x80, 0x60, 0x14, 0x60, 0x00, 0x37, // calldatacopy(0, 20, len)
		0x60, 0x00, 0x60, 0x00, 0x82, 0x60, 0x00, 0x60, 0x00, // retSize retOff argsSize argsOff value
		0x60, 0x00, 0x35, 0x60, 0x60, 0x1c, // target = calldataload(0) >> 96
		0x5a, 0xf1, // call(gas, ...)
	}
	fwdStrictSuffix = []byte{
		0x3d, 0x60, 0x00, 0x60, 0x00, 0x3e, // returndatacopy(0,0,rds)
		0x3d, 0x60, 0x00, 0x82, 0x60, 0x29, 0x57, // if success jump 0x29
		0xfd,       // revert(0, rds)
		0x5b, 0xf3, // return(0, rds)
	}
	fwdLenientSuffix = []byte{
		0x60, 0x00, 0x52, // mstore(0, success)
		0x3d, 0x60, 0x00, 0x60, 0x20, 0x3e, // returndatacopy(32,0,rds)
		0x3d, 0x60, 0x20, 0x01, 0x60, 0x00, 0xf3, // return(0, rds+32)
	}
)

func initCode(runtime []byte) []byte {
	l := byte(len(runtime))
	return append([]byte{0x60, l, 0x60, 0x0c, 0x60, 0x00, 0x39, 0x60, l, 0x60, 0x00, 0xf3}, runtime...)
}

type tokenInfo struct {
	addr     common.Address
	denom    string
	denomID  int
	name     string
	symbol   string
	decimals uint8
}

type world struct {
	t       *testing.T
	c       *Chain
	tok     [2]tokenInfo
	denoms  []string // id -> denom
	eoa     []*itutiltypes.TestAccount
	relayer *itutiltypes.TestAccount
	vest    *itutiltypes.TestAccount
	proxyS  common.Address
	proxyL  common.Address
	hosts   []common.Address // call-tree interpreter contracts (hx.BuildTreeInterp): frames of multi-call transactions
	module  common.Address // cpc module account
	gov     common.Address // a blocked module account
	fresh   common.Address // never has an account
	uni     []common.Address
	uniName []string
	blocked []common.Address
	locked  map[string]*big.Int // key = addr|denomID, constant over the history
}

func (w *world) idx(a common.Address) int {
	for i, x := range w.uni {
		if x == a {
			return i
		}
	}
	return -1
}

func newWorld(t *testing.T, r *Rng) *world {
	c := NewChain(t, time.Time{})
	w := &world{t: t, c: c}
	native := c.Denom()
	w.denoms = []string{native, "utwo", "uthree"}
	for i := 1; i <= 3; i++ {
		w.eoa = append(w.eoa, c.S.WalletAccounts.Number(i))
	}
	w.relayer = c.S.WalletAccounts.Number(5)
	w.vest = itu.NewTestAccount(t, nil)
	w.module = cpctypes.CpcModuleAddress
	w.gov = common.BytesToAddress(authtypes.NewModuleAddress(govtypes.ModuleName))
	w.fresh = common.HexToAddress("0x00000000000000000000000000000000deadbeef")

	ctx := c.Ctx()
	k := c.App.CPCKeeper
	// two ERC-20 precompiles
	metas := [2]tokenInfo{
		{denom: native, denomID: 0, name: "Wrapped Native", symbol: "WNAT", decimals: 18},
		{denom: "utwo", denomID: 1, name: "Token Two", symbol: "TWO", decimals: 6},
	}
	for i := range metas {
		addr, err := k.DeployErc20CustomPrecompiledContract(ctx, metas[i].name, cpctypes.Erc20CustomPrecompiledContractMeta{
			Symbol: metas[i].symbol, Decimals: metas[i].decimals, MinDenom: metas[i].denom,
		})
		require.NoError(t, err)
		metas[i].addr = addr
	}
	w.tok = metas

	// forwarders, deployed by real transactions
	base := c.BaseFee(ctx)
	cap2 := new(big.Int).Mul(base, big.NewInt(2))
	dep := w.relayer
	n0 := c.Nonce(ctx, dep.GetEthAddress())
	var txs [][]byte
	for i, rt := range [][]byte{append(append([]byte{}, fwdPrefix...), fwdStrictSuffix...), append(append([]byte{}, fwdPrefix...), fwdLenientSuffix...)} {
		bz, _, err := c.EthTxBytes(dep, &ethtypes.DynamicFeeTx{Nonce: n0 + uint64(i), GasFeeCap: cap2, GasTipCap: big.NewInt(0), Gas: 300_000, To: nil, Value: big.NewInt(0), Data: initCode(rt)})
		require.NoError(t, err)
		txs = append(txs, bz)
	}
	res := c.RunBlock(txs)
	for _, tr := range res.TxResults {
		require.Equal(t, uint32(0), tr.Code, tr.Log)
	}
	w.proxyS = crypto.CreateAddress(dep.GetEthAddress(), n0)
	w.proxyL = crypto.CreateAddress(dep.GetEthAddress(), n0+1)
	ctx = c.Ctx()
	require.True(t, len(c.App.EvmKeeper.GetCode(ctx, c.App.EvmKeeper.GetCodeHash(ctx, w.proxyS.Bytes()))) == 43)
	require.True(t, len(c.App.EvmKeeper.GetCode(ctx, c.App.EvmKeeper.GetCodeHash(ctx, w.proxyL.Bytes()))) == 43)

	// balances: a large `utwo` holder, forwarders and module accounts hold some of both denoms, small balances
	big255 := Pow2(250)
	c.Fund(w.eoa[0].GetCosmosAddress(), "utwo", new(big.Int).Add(big255, r.BigBits(200)))
	for _, a := range []common.Address{w.proxyS, w.proxyL} {
		c.Fund(sdk.AccAddress(a.Bytes()), native, new(big.Int).Add(big.NewInt(1_000_000), r.BigBits(40)))
		c.Fund(sdk.AccAddress(a.Bytes()), "utwo", new(big.Int).Add(big.NewInt(5), r.BigBits(70)))
	}
	// call-tree interpreter at two addresses (the same bytecode; the program is the calldata)
	w.hosts = []common.Address{common.HexToAddress("0x1000000000000000000000000000000000000e01"), common.HexToAddress("0x1000000000000000000000000000000000000e02")}
	for _, a := range w.hosts {
		c.Fund(sdk.AccAddress(a.Bytes()), native, new(big.Int).Add(big.NewInt(500_000), r.BigBits(30)))
		c.Fund(sdk.AccAddress(a.Bytes()), "utwo", new(big.Int).Add(big.NewInt(9), r.BigBits(50)))
		c.SetCode(a, BuildTreeInterp())
	}
	fundAny(t, c, sdk.AccAddress(w.gov.Bytes()), "utwo", big.NewInt(7))
	c.Fund(w.eoa[2].GetCosmosAddress(), "uthree", big.NewInt(3))

	// vesting account: everything vests far in the future, so LockedCoins is constant = original vesting
	ctx = c.Ctx()
	ov := sdk.NewCoins(sdk.NewCoin(native, sdkmath.NewIntFromBigInt(new(big.Int).Add(big.NewInt(1000), r.BigBits(30)))),
		sdk.NewCoin("utwo", sdkmath.NewIntFromBigInt(new(big.Int).Add(big.NewInt(500), r.BigBits(20)))))
	baseAcc := c.App.AccountKeeper.NewAccountWithAddress(ctx, w.vest.GetCosmosAddress()).(*authtypes.BaseAccount)
	start := c.Time.Add(1000 * 24 * time.Hour).Unix()
	va, err := vestingtypes.NewContinuousVestingAccount(baseAcc, ov, start, start+1_000_000)
	require.NoError(t, err)
	c.App.AccountKeeper.SetAccount(ctx, va)
	for _, coin := range ov {
		// balance = locked + a spendable part
		c.Fund(w.vest.GetCosmosAddress(), coin.Denom, new(big.Int).Add(coin.Amount.BigInt(), new(big.Int).Add(big.NewInt(10), r.BigBits(12))))
	}

	w.uni = []common.Address{w.eoa[0].GetEthAddress(), w.eoa[1].GetEthAddress(), w.eoa[2].GetEthAddress(), w.vest.GetEthAddress(),
		w.proxyS, w.proxyL, {}, w.module, w.gov, w.tok[0].addr, w.tok[1].addr, w.fresh, w.hosts[0], w.hosts[1]}
	w.uniName = []string{"eoa1", "eoa2", "eoa3", "vesting", "proxyStrict", "proxyLenient", "zero", "cpcModule", "govModule", "tokenA", "tokenB", "fresh", "host1", "host2"}
	for _, a := range w.uni {
		if c.App.BankKeeper.BlockedAddr(sdk.AccAddress(a.Bytes())) {
			w.blocked = append(w.blocked, a)
		}
	}
	ctx = c.Ctx()
	w.locked = map[string]*big.Int{}
	for _, a := range w.uni {
		lc := c.App.BankKeeper.LockedCoins(ctx, sdk.AccAddress(a.Bytes()))
		for id, d := range w.denoms {
			w.locked[lkey(a, id)] = lc.AmountOf(d).BigInt()
		}
	}
	require.True(t, w.locked[lkey(w.vest.GetEthAddress(), 0)].Sign() > 0)
	return w
}

// fundAny mints and sends with the keeper-level SendCoins, which (unlike SendCoinsFromModuleToAccount) accepts blocked recipients.
func fundAny(t *testing.T, c *Chain, to sdk.AccAddress, denom string, amt *big.Int) {
	ctx := c.Ctx()
	coins := sdk.NewCoins(sdk.NewCoin(denom, sdkmath.NewIntFromBigInt(amt)))
	require.NoError(t, c.App.BankKeeper.MintCoins(ctx, evmtypes.ModuleName, coins))
	require.NoError(t, c.App.BankKeeper.SendCoins(ctx, authtypes.NewModuleAddress(evmtypes.ModuleName), to, coins))
}

func lkey(a common.Address, d int) string { return a.Hex() + "|" + string(rune('0'+d)) }

// ------------------------------------------------------------------ snapshots of the whole universe

type snap struct {
	bal   [][]*big.Int // [universe][denom]
	sup   []*big.Int
	allow [][]*big.Int // [owner][spender]
}

func (w *world) snapshot(ctx sdk.Context) *snap {
	s := &snap{}
	for _, a := range w.uni {
		row := make([]*big.Int, len(w.denoms))
		for id, d := range w.denoms {
			row[id] = w.c.Bal(ctx, sdk.AccAddress(a.Bytes()), d)
		}
		s.bal = append(s.bal, row)
	}
	for _, d := range w.denoms {
		s.sup = append(s.sup, w.c.Supply(ctx, d))
	}
	for _, o := range w.uni {
		row := make([]*big.Int, len(w.uni))
		for j, sp := range w.uni {
			row[j] = w.c.App.CPCKeeper.GetErc20CpcAllowance(ctx, o, sp)
		}
		s.allow = append(s.allow, row)
	}
	return s
}

func (w *world) lockedUnchanged(ctx sdk.Context) bool {
	for _, a := range w.uni {
		lc := w.c.App.BankKeeper.LockedCoins(ctx, sdk.AccAddress(a.Bytes()))
		for id, d := range w.denoms {
			if lc.AmountOf(d).BigInt().Cmp(w.locked[lkey(a, id)]) != 0 {
				return false
			}
		}
	}
	return true
}

// sumAllBalances iterates the whole bank store (every account, not only the universe).
func (w *world) sumAllBalances(ctx sdk.Context) []*big.Int {
	out := make([]*big.Int, len(w.denoms))
	for i := range out {
		out[i] = new(big.Int)
	}
	w.c.App.BankKeeper.IterateAllBalances(ctx, func(_ sdk.AccAddress, coin sdk.Coin) bool {
		for id, d := range w.denoms {
			if coin.Denom == d {
				out[id].Add(out[id], coin.Amount.BigInt())
			}
		}
		return false
	})
	return out
}

func snapEqual(a, b *snap) bool {
	for i := range a.bal {
		for j := range a.bal[i] {
			if a.bal[i][j].Cmp(b.bal[i][j]) != 0 {
				return false
			}
		}
	}
	for i := range a.sup {
		if a.sup[i].Cmp(b.sup[i]) != 0 {
			return false
		}
	}
	for i := range a.allow {
		for j := range a.allow[i] {
			if a.allow[i][j].Cmp(b.allow[i][j]) != 0 {
				return false
			}
		}
	}
	return true
}

// ------------------------------------------------------------------ small helpers

func word(z *big.Int) []byte { return common.LeftPadBytes(z.Bytes(), 32) }

func addrZ(a common.Address) *big.Int { return new(big.Int).SetBytes(a.Bytes()) }

// strZ encodes a string injectively as a number (leading 0x01 byte).
func strZ(s string) *big.Int { return new(big.Int).SetBytes(append([]byte{1}, []byte(s)...)) }

func sortedKeys(m map[string]int) []string {
	ks := make([]string, 0, len(m))
	for k := range m {
		ks = append(ks, k)
	}
	sort.Strings(ks)
	return ks
}

var (
	sigTransfer     = []byte{0xa9, 0x05, 0x9c, 0xbb}
	sigTransferFrom = []byte{0x23, 0xb8, 0x72, 0xdd}
	sigApprove      = []byte{0x09, 0x5e, 0xa7, 0xb3}
	sigBurn         = []byte{0x42, 0x96, 0x6c, 0x68}
	sigBurnFrom     = []byte{0x79, 0xcc, 0x67, 0x90}
	sigBalanceOf    = []byte{0x70, 0xa0, 0x82, 0x31}
	sigTotalSupply  = []byte{0x18, 0x16, 0x0d, 0xdd}
	sigAllowance    = []byte{0xdd, 0x62, 0xed, 0x3e}
	sigName         = []byte{0x06, 0xfd, 0xde, 0x03}
	sigSymbol       = []byte{0x95, 0xd8, 0x9b, 0x41}
	sigDecimals     = []byte{0x31, 0x3c, 0xe5, 0x67}

	topicTransfer = common.HexToHash("0xddf252ad1be2c89b69c2b068fc378daa952ba7f163c4a11628f55a4df523b3ef")
	topicApproval = common.HexToHash("0x8c5be1e5ebec7d5bd14f71427d1e84f3dd0314c0f7b2291e5b200ac8c7c3b925")
)

func init() {
	// the selectors and topics above are the standard ERC-20 ones: check against keccak so a typo cannot hide
	chk := func(sig string, want []byte) {
		if !bytes.Equal(crypto.Keccak256([]byte(sig))[:4], want) {
			panic("selector mismatch for " + sig)
		}
	}
	chk("transfer(address,uint256)", sigTransfer)
	chk("transferFrom(address,address,uint256)", sigTransferFrom)
	chk("approve(address,uint256)", sigApprove)
	chk("burn(uint256)", sigBurn)
	chk("burnFrom(address,uint256)", sigBurnFrom)
	chk("balanceOf(address)", sigBalanceOf)
	chk("totalSupply()", sigTotalSupply)
	chk("allowance(address,address)", sigAllowance)
	chk("name()", sigName)
	chk("symbol()", sigSymbol)
	chk("decimals()", sigDecimals)
	if crypto.Keccak256Hash([]byte("Transfer(address,address,uint256)")) != topicTransfer ||
		crypto.Keccak256Hash([]byte("Approval(address,address,uint256)")) != topicApproval {
		panic("topic mismatch")
	}
}

var _ = evmtypes.ModuleName
