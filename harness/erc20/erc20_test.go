package erc20

// Driver `erc20` (C10): histories of ERC-20 precompile calls (two tokens: native denom and `utwo`) by EOAs,
// a vesting account, forwarder contracts and (as fake senders) the zero address / module accounts, interleaved
// with native x/bank MsgSend, executed on the REAL keeper/EVM/StateDB/bank code - either as direct
// EvmKeeper.ApplyMessage(commit) calls (same function the transaction path ends in) or as real transactions
// in blocks (relayer -> forwarder -> precompile). After every step (every block in tx mode) the outcome, logs
// and ALL balances (3 denoms), supplies and allowances of the address universe are recorded for the Coq model,
// and a Go oracle written from the property text checks the implementation directly.

import (
	"fmt"
	"math/big"
	"os"
	"strings"
	"testing"

	sdkmath "cosmossdk.io/math"
	abci "github.com/cometbft/cometbft/abci/types"
	sdk "github.com/cosmos/cosmos-sdk/types"
	bankkeeper "github.com/cosmos/cosmos-sdk/x/bank/keeper"
	banktypes "github.com/cosmos/cosmos-sdk/x/bank/types"
	"github.com/ethereum/go-ethereum/common"
	ethtypes "github.com/ethereum/go-ethereum/core/types"
	"github.com/stretchr/testify/require"

	evmtypes "github.com/EscanBE/evermint/v12/x/evm/types"

	. "verifharness/hx"
)

type kind int

const (
	kName kind = iota
	kSymbol
	kDecimals
	kTotalSupply
	kBalanceOf
	kAllowance
	kTransfer
	kTransferFrom
	kApprove
	kBurn
	kBurnFrom
	kMalformed
	kBankSend
	kEnvSupply // supply of a denom changed by OTHER modules (inflation minting, fee handling) on accounts outside the universe; tx mode only
	kTree      // ONE transaction whose call tree makes several ERC-20 calls from nested frames, some of which fail
)

var kindName = []string{"name", "symbol", "decimals", "totalSupply", "balanceOf", "allowance", "transfer", "transferFrom", "approve", "burn", "burnFrom", "malformed", "bankSend", "envSupply", "tree"}

const (
	viaDirect = iota
	viaStrict
	viaLenient
	viaTree
)

var viaName = []string{"direct", "proxyStrict", "proxyLenient", "tree"}

type opx struct {
	kind   kind
	via    int
	fake   bool
	sender common.Address // msg.From of the outer message
	caller common.Address // what the precompile sees
	tok    int
	w      []*big.Int // raw calldata words
	raw    []byte     // calldata for kMalformed
	extra  []byte     // trailing bytes after well-formed arguments (ignored by ABI decoding)
	// kBankSend
	from, to common.Address
	denom    int
	amt      *big.Int
	// kTree
	tree *fnode
	// generator only: owner whose coins a transferFrom / burnFrom is to spend
	forceFrom *common.Address
}

type obsx struct {
	ok    bool
	ret   []byte
	logs  []*ethtypes.Log
	vmErr string // diagnostics only, never compared
}

var max256 = Bsub(Pow2(256), 1)
var mask160 = Bsub(Pow2(160), 1)

func lowAddr(wd *big.Int) common.Address {
	return common.BigToAddress(new(big.Int).And(wd, mask160))
}

func (o *opx) calldata() []byte {
	var sig []byte
	switch o.kind {
	case kName:
		sig = sigName
	case kSymbol:
		sig = sigSymbol
	case kDecimals:
		sig = sigDecimals
	case kTotalSupply:
		sig = sigTotalSupply
	case kBalanceOf:
		sig = sigBalanceOf
	case kAllowance:
		sig = sigAllowance
	case kTransfer:
		sig = sigTransfer
	case kTransferFrom:
		sig = sigTransferFrom
	case kApprove:
		sig = sigApprove
	case kBurn:
		sig = sigBurn
	case kBurnFrom:
		sig = sigBurnFrom
	case kMalformed:
		return o.raw
	}
	d := append([]byte{}, sig...)
	for _, x := range o.w {
		d = append(d, word(x)...)
	}
	return append(d, o.extra...)
}

// moves decodes (from, to, amount) of a transfer-like call from the raw words (to = zero address for burns).
func (o *opx) moves() (from, to common.Address, amt *big.Int, ok bool) {
	switch o.kind {
	case kTransfer:
		return o.caller, lowAddr(o.w[0]), o.w[1], true
	case kTransferFrom:
		return lowAddr(o.w[0]), lowAddr(o.w[1]), o.w[2], true
	case kBurn:
		return o.caller, common.Address{}, o.w[0], true
	case kBurnFrom:
		return lowAddr(o.w[0]), common.Address{}, o.w[1], true
	}
	return common.Address{}, common.Address{}, nil, false
}

func (o *opx) coq(w *world) string { return o.coqAs(w, "Call") }

// coqAs renders a call with the given constructor: "Call" (an operation of a history) or "FLeaf" (a leaf of a call tree).
func (o *opx) coqAs(w *world, ctor string) string {
	if o.kind == kTree {
		return o.tree.coq(w)
	}
	if o.kind == kEnvSupply {
		return fmt.Sprintf("(EnvSupply %s %s)", CqZi(int64(o.denom)), CqZ(o.amt))
	}
	if o.kind == kBankSend {
		return fmt.Sprintf("(BankSend %s %s %s %s)", CqZ(addrZ(o.from)), CqZ(addrZ(o.to)), CqZi(int64(o.denom)), CqZ(o.amt))
	}
	var c string
	ws := make([]string, len(o.w))
	for i, x := range o.w {
		ws[i] = CqZ(x)
	}
	switch o.kind {
	case kName:
		c = "Name"
	case kSymbol:
		c = "Symbol"
	case kDecimals:
		c = "Decimals"
	case kTotalSupply:
		c = "TotalSupply"
	case kBalanceOf:
		c = "(BalanceOf " + ws[0] + ")"
	case kAllowance:
		c = "(Allowance " + ws[0] + " " + ws[1] + ")"
	case kTransfer:
		c = "(Transfer " + ws[0] + " " + ws[1] + ")"
	case kTransferFrom:
		c = "(TransferFrom " + ws[0] + " " + ws[1] + " " + ws[2] + ")"
	case kApprove:
		c = "(Approve " + ws[0] + " " + ws[1] + ")"
	case kBurn:
		c = "(Burn " + ws[0] + ")"
	case kBurnFrom:
		c = "(BurnFrom " + ws[0] + " " + ws[1] + ")"
	case kMalformed:
		c = "Malformed"
	}
	return fmt.Sprintf("(%s %s %s %s)", ctor, CqZ(addrZ(o.caller)), CqZ(addrZ(w.tok[o.tok].addr)), c)
}

func (o *opx) desc(w *world) string {
	name := func(a common.Address) string {
		if i := w.idx(a); i >= 0 {
			return w.uniName[i]
		}
		return a.Hex()
	}
	if o.kind == kTree {
		return "tree " + o.tree.desc(w)
	}
	if o.kind == kEnvSupply {
		return fmt.Sprintf("envSupply %s %s", w.denoms[o.denom], o.amt)
	}
	if o.kind == kBankSend {
		return fmt.Sprintf("bankSend %s->%s %s %s", name(o.from), name(o.to), w.denoms[o.denom], o.amt)
	}
	ws := make([]string, len(o.w))
	for i, x := range o.w {
		if x.BitLen() > 64 && x.BitLen() <= 160 {
			ws[i] = name(lowAddr(x))
		} else {
			ws[i] = x.String()
		}
	}
	return fmt.Sprintf("%s(%s) token=%s caller=%s via=%s", kindName[o.kind], strings.Join(ws, ","), w.tok[o.tok].symbol, name(o.caller), viaName[o.via])
}

// ------------------------------------------------------------------ generation

func (w *world) pickAddrWord(r *Rng, bias []common.Address) *big.Int {
	var a common.Address
	if len(bias) > 0 && r.Chance(55) {
		a = bias[r.Intn(len(bias))]
	} else {
		a = w.uni[r.Intn(len(w.uni))]
	}
	z := addrZ(a)
	if r.Chance(6) { // dirty high bytes: ABI decoding keeps the low 20 bytes
		z = new(big.Int).Add(z, new(big.Int).Lsh(Badd(r.BigBits(95), 1), 160))
	}
	return z
}

func (w *world) pickAmount(r *Rng, s *snap, from, spender common.Address, denom int) *big.Int {
	bal, allow, lockedAmt := big.NewInt(0), big.NewInt(0), big.NewInt(0)
	if i := w.idx(from); i >= 0 {
		bal = s.bal[i][denom]
		lockedAmt = w.locked[lkey(from, denom)]
		if j := w.idx(spender); j >= 0 {
			allow = s.allow[i][j]
		}
	}
	spendable := new(big.Int).Sub(bal, lockedAmt)
	if spendable.Sign() < 0 {
		spendable = big.NewInt(0)
	}
	var z *big.Int
	switch r.Intn(16) {
	case 0:
		z = big.NewInt(0)
	case 1:
		z = big.NewInt(1)
	case 2:
		z = new(big.Int).Set(bal)
	case 3:
		z = Badd(bal, 1)
	case 4:
		z = Bsub(bal, 1)
	case 5:
		z = new(big.Int).Set(allow)
	case 6:
		z = Badd(allow, 1)
	case 7:
		z = Bsub(allow, 1)
	case 8:
		z = new(big.Int).Set(max256)
	case 9:
		z = r.BigBits(1 + r.Intn(256))
	case 10:
		z = new(big.Int).Set(spendable)
	case 11:
		z = Badd(spendable, 1)
	default: // a random part of the smaller of balance and allowance: most likely to succeed
		lim := new(big.Int).Set(spendable)
		if allow.Sign() > 0 && allow.Cmp(lim) < 0 && r.Chance(70) {
			lim = new(big.Int).Set(allow)
		}
		if lim.Sign() <= 0 {
			z = big.NewInt(int64(r.Intn(3)))
		} else {
			z = new(big.Int).Mod(r.BigBits(lim.BitLen()+8), Badd(lim, 1))
			if r.Chance(50) {
				z = new(big.Int).Rsh(z, uint(r.Intn(lim.BitLen()+1)))
			}
		}
	}
	if z.Sign() < 0 {
		z = big.NewInt(0)
	}
	if z.Cmp(max256) > 0 {
		z = new(big.Int).Set(max256)
	}
	return z
}

func (w *world) genOp(r *Rng, s *snap, txMode bool) *opx {
	if r.Chance(14) {
		return w.genTree(r, s, txMode)
	}
	o := &opx{tok: r.Intn(2)}
	weights := []int{1, 1, 1, 3, 6, 6, 20, 24, 18, 6, 9, 3, 8}
	tot := 0
	for _, x := range weights {
		tot += x
	}
	p := r.Intn(tot)
	for i, x := range weights {
		if p < x {
			o.kind = kind(i)
			break
		}
		p -= x
	}
	if o.kind == kBankSend {
		senders := []common.Address{w.eoa[0].GetEthAddress(), w.eoa[1].GetEthAddress(), w.eoa[2].GetEthAddress(), w.vest.GetEthAddress()}
		o.from = senders[r.Intn(len(senders))]
		o.to = w.uni[r.Intn(len(w.uni))]
		o.denom = r.Intn(len(w.denoms))
		o.amt = w.pickAmount(r, s, o.from, o.from, o.denom)
		if r.Chance(60) && o.amt.Sign() == 0 {
			o.amt = big.NewInt(1)
		}
		return o
	}
	// route and caller
	eoas := []common.Address{w.eoa[0].GetEthAddress(), w.eoa[1].GetEthAddress(), w.eoa[2].GetEthAddress(), w.vest.GetEthAddress()}
	if txMode {
		o.via = viaStrict + r.Intn(2)
		o.sender = w.relayer.GetEthAddress()
	} else {
		switch p := r.Intn(100); {
		case p < 50:
			o.via = viaDirect
		case p < 70:
			o.via = viaStrict
		default:
			o.via = viaLenient
		}
		o.sender = eoas[r.Intn(len(eoas))]
		if o.via == viaDirect && r.Chance(10) {
			// senders that can only appear as message senders of system calls: zero address, module accounts, fresh
			fk := []common.Address{{}, w.module, w.gov, w.fresh}
			o.sender = fk[r.Intn(len(fk))]
			o.fake = true
		}
	}
	// spending calls: most of the time by a caller that really holds an allowance (unlimited ones preferred), so that
	// approve-spend-respend sequences and the unlimited case are reached often
	if (o.kind == kTransferFrom || o.kind == kBurnFrom) && r.Chance(65) {
		type pr struct {
			owner  common.Address
			via    int
			sender common.Address
		}
		var some, unlimited []pr
		for j, sp := range w.uni {
			var route *pr
			switch {
			case sp == w.proxyS:
				route = &pr{via: viaStrict, sender: o.sender}
			case sp == w.proxyL:
				route = &pr{via: viaLenient, sender: o.sender}
			case !txMode:
				for _, e := range eoas {
					if e == sp {
						route = &pr{via: viaDirect, sender: sp}
					}
				}
			}
			if route == nil {
				continue
			}
			for i, owner := range w.uni {
				if i == j || s.allow[i][j].Sign() <= 0 {
					continue
				}
				x := *route
				x.owner = owner
				some = append(some, x)
				if s.allow[i][j].Cmp(max256) == 0 {
					unlimited = append(unlimited, x)
				}
			}
		}
		pick := some
		if len(unlimited) > 0 && r.Chance(50) {
			pick = unlimited
		}
		if len(pick) > 0 {
			x := pick[r.Intn(len(pick))]
			o.via, o.sender, o.fake = x.via, x.sender, false
			if o.via != viaDirect && !txMode {
				o.sender = eoas[r.Intn(len(eoas))]
			}
			o.forceFrom = &x.owner
		}
	}
	switch o.via {
	case viaDirect:
		o.caller = o.sender
	case viaStrict:
		o.caller = w.proxyS
	case viaLenient:
		o.caller = w.proxyL
	}
	w.genArgs(r, s, o)
	return o
}

// genArgs draws the argument words of a call of kind o.kind made by o.caller.
func (w *world) genArgs(r *Rng, s *snap, o *opx) {
	denom := w.tok[o.tok].denomID
	ci := w.idx(o.caller)
	// owners that granted the caller something / spenders the caller granted something
	var granters, grantees []common.Address
	for i, a := range w.uni {
		if ci >= 0 && s.allow[i][ci].Sign() > 0 {
			granters = append(granters, a)
		}
		if ci >= 0 && s.allow[ci][i].Sign() > 0 {
			grantees = append(grantees, a)
		}
	}
	callers := []common.Address{w.eoa[0].GetEthAddress(), w.eoa[1].GetEthAddress(), w.eoa[2].GetEthAddress(), w.vest.GetEthAddress(), w.proxyS, w.proxyL, w.hosts[0], w.hosts[1]}
	switch o.kind {
	case kBalanceOf:
		o.w = []*big.Int{w.pickAddrWord(r, nil)}
	case kAllowance:
		o.w = []*big.Int{w.pickAddrWord(r, granters), w.pickAddrWord(r, callers)}
	case kTransfer:
		to := w.pickAddrWord(r, nil)
		o.w = []*big.Int{to, w.pickAmount(r, s, o.caller, o.caller, denom)}
	case kTransferFrom:
		from := w.pickAddrWord(r, granters)
		if o.forceFrom != nil {
			from = addrZ(*o.forceFrom)
		}
		to := w.pickAddrWord(r, nil)
		o.w = []*big.Int{from, to, w.pickAmount(r, s, lowAddr(from), o.caller, denom)}
	case kApprove:
		sp := w.pickAddrWord(r, callers)
		var v *big.Int
		switch r.Intn(8) {
		case 0:
			v = big.NewInt(0)
		case 1, 7:
			v = new(big.Int).Set(max256)
		case 2:
			v = Bsub(max256, 1)
		case 3:
			v = r.BigBits(1 + r.Intn(256))
		default:
			v = w.pickAmount(r, s, o.caller, o.caller, denom)
		}
		o.w = []*big.Int{sp, v}
	case kBurn:
		o.w = []*big.Int{w.pickAmount(r, s, o.caller, o.caller, denom)}
	case kBurnFrom:
		from := w.pickAddrWord(r, granters)
		if o.forceFrom != nil {
			from = addrZ(*o.forceFrom)
		}
		o.w = []*big.Int{from, w.pickAmount(r, s, lowAddr(from), o.caller, denom)}
	case kMalformed:
		switch r.Intn(5) {
		case 0: // truncated arguments of a state-changing method
			full := append(append([]byte{}, sigTransfer...), append(word(addrZ(w.eoa[1].GetEthAddress())), word(big.NewInt(1))...)...)
			o.raw = full[:4+r.Intn(60)]
		case 1: // unknown selector
			o.raw = append([]byte{0xde, 0xad, 0xbe, 0xef}, word(big.NewInt(1))...)
		case 2: // fewer than four bytes
			o.raw = make([]byte, r.Intn(4))
		case 3: // transferFrom with two words only
			o.raw = append(append([]byte{}, sigTransferFrom...), append(word(addrZ(o.caller)), word(addrZ(w.eoa[1].GetEthAddress()))...)...)
		default: // approve without arguments
			o.raw = append([]byte{}, sigApprove...)
		}
	}
	if o.kind != kMalformed && r.Chance(5) {
		o.extra = r.BigBits(8 * (1 + r.Intn(40))).Bytes()
	}
}

// ------------------------------------------------------------------ execution

// applyKeeper runs one message through EvmKeeper.ApplyMessage(commit=true) on the committed state.
func (w *world) applyKeeper(o *opx) obsx {
	c := w.c
	ctx := c.Ctx()
	to := w.tok[o.tok].addr
	gas := uint64(3_000_000)
	var data []byte
	if o.kind == kTree {
		fr := o.tree.frame(w)
		gas = fr.Budget() // sets the gas operand of every frame: before Encode
		to, data = fr.Host, fr.Encode(false)
	} else {
		data = o.calldata()
	}
	switch o.via {
	case viaStrict:
		data = append(append([]byte{}, to.Bytes()...), data...)
		to = w.proxyS
	case viaLenient:
		data = append(append([]byte{}, to.Bytes()...), data...)
		to = w.proxyL
	}
	base := c.BaseFee(ctx)
	msg := ethtypes.NewMessage(o.sender, &to, c.Nonce(ctx, o.sender), big.NewInt(0), gas, base, base, base, data, nil, o.fake)
	res, err := c.App.EvmKeeper.ApplyMessage(ctx, msg, evmtypes.NewNoOpTracer(), true)
	require.NoError(w.t, err)
	return w.decodeResponse(o, res)
}

func (w *world) decodeResponse(o *opx, res *evmtypes.MsgEthereumTxResponse) obsx {
	var rc ethtypes.Receipt
	require.NoError(w.t, rc.UnmarshalBinary(res.MarshalledReceipt))
	ob := obsx{ok: res.VmError == "", ret: res.Ret, logs: rc.Logs, vmErr: res.VmError}
	require.Equal(w.t, ob.ok, rc.Status == ethtypes.ReceiptStatusSuccessful)
	if o.via == viaLenient {
		// the forwarder itself must never fail
		require.True(w.t, ob.ok, "lenient forwarder failed: %s", res.VmError)
		require.True(w.t, len(ob.ret) >= 32)
		ob.ok = new(big.Int).SetBytes(ob.ret[:32]).Sign() != 0
		ob.ret = ob.ret[32:]
	}
	return ob
}

func (w *world) bankSend(o *opx) obsx {
	c := w.c
	ctx, write := c.Ctx().CacheContext()
	msg := &banktypes.MsgSend{
		FromAddress: sdk.AccAddress(o.from.Bytes()).String(),
		ToAddress:   sdk.AccAddress(o.to.Bytes()).String(),
		Amount:      sdk.Coins{sdk.Coin{Denom: w.denoms[o.denom], Amount: sdkmath.NewIntFromBigInt(o.amt)}},
	}
	_, err := bankkeeper.NewMsgServerImpl(c.App.BankKeeper).Send(ctx, msg)
	if err == nil {
		write()
	}
	return obsx{ok: err == nil}
}

// ------------------------------------------------------------------ observation -> Coq

func (w *world) coqOut(o *opx, ob obsx) string {
	if !ob.ok {
		if len(ob.logs) != 0 {
			return "XBad"
		}
		return "XErr"
	}
	var ret string
	switch o.kind {
	case kTree:
		if len(ob.ret) != 32 {
			return "XBad"
		}
		ret = "(RUint " + CqZ(new(big.Int).SetBytes(ob.ret)) + ")"
	case kBankSend, kEnvSupply:
		ret = "RNone"
	case kName, kSymbol:
		s, ok := abiString(ob.ret)
		if !ok {
			return "XBad"
		}
		ret = "(RStr " + CqZ(strZ(s)) + ")"
	case kDecimals, kTotalSupply, kBalanceOf, kAllowance:
		if len(ob.ret) != 32 {
			return "XBad"
		}
		ret = "(RUint " + CqZ(new(big.Int).SetBytes(ob.ret)) + ")"
	default:
		if len(ob.ret) != 32 {
			return "XBad"
		}
		v := new(big.Int).SetBytes(ob.ret)
		if v.Cmp(big.NewInt(1)) == 0 {
			ret = "(RBool true)"
		} else if v.Sign() == 0 {
			ret = "(RBool false)"
		} else {
			return "XBad"
		}
	}
	var ls []string
	for _, l := range ob.logs {
		ls = append(ls, coqLog(l))
	}
	return "(XOk " + ret + " " + CqList(ls) + ")"
}

func coqLog(l *ethtypes.Log) string {
	if len(l.Topics) == 3 && len(l.Data) == 32 && (l.Topics[0] == topicTransfer || l.Topics[0] == topicApproval) {
		ctor := "LTransfer"
		if l.Topics[0] == topicApproval {
			ctor = "LApproval"
		}
		return fmt.Sprintf("(%s %s %s %s %s)", ctor, CqZ(addrZ(l.Address)), CqZ(new(big.Int).SetBytes(l.Topics[1].Bytes())),
			CqZ(new(big.Int).SetBytes(l.Topics[2].Bytes())), CqZ(new(big.Int).SetBytes(l.Data)))
	}
	return "(LTransfer (-1)%Z 0%Z 0%Z 0%Z)" // unknown log: never equal to a model log
}

func abiString(b []byte) (string, bool) {
	if len(b) < 64 || new(big.Int).SetBytes(b[:32]).Cmp(big.NewInt(32)) != 0 {
		return "", false
	}
	n := new(big.Int).SetBytes(b[32:64])
	if !n.IsInt64() || int(n.Int64()) > len(b)-64 || len(b) != 64+((int(n.Int64())+31)/32)*32 {
		return "", false
	}
	return string(b[64 : 64+n.Int64()]), true
}

func (w *world) coqDiff(pre, post *snap) (string, string, string) {
	var db, ds, da []string
	for i, a := range w.uni {
		for d := range w.denoms {
			if pre.bal[i][d].Cmp(post.bal[i][d]) != 0 {
				db = append(db, fmt.Sprintf("(%s, %s, %s)", CqZ(addrZ(a)), CqZi(int64(d)), CqZ(post.bal[i][d])))
			}
		}
	}
	for d := range w.denoms {
		if pre.sup[d].Cmp(post.sup[d]) != 0 {
			ds = append(ds, fmt.Sprintf("(%s, %s)", CqZi(int64(d)), CqZ(post.sup[d])))
		}
	}
	for i, a := range w.uni {
		for j, b := range w.uni {
			if pre.allow[i][j].Cmp(post.allow[i][j]) != 0 {
				da = append(da, fmt.Sprintf("(%s, %s, %s)", CqZ(addrZ(a)), CqZ(addrZ(b)), CqZ(post.allow[i][j])))
			}
		}
	}
	return CqList(db), CqList(ds), CqList(da)
}

func (w *world) coqHeader(s *snap) string {
	var sb strings.Builder
	sb.WriteString("{| c_tokens := [")
	for i, tk := range w.tok {
		if i > 0 {
			sb.WriteString("; ")
		}
		sb.WriteString(fmt.Sprintf("(%s, {| tk_denom := %s; tk_name := %s; tk_symbol := %s; tk_decimals := %s |})",
			CqZ(addrZ(tk.addr)), CqZi(int64(tk.denomID)), CqZ(strZ(tk.name)), CqZ(strZ(tk.symbol)), CqZi(int64(tk.decimals))))
	}
	sb.WriteString("];\n   c_blocked := ")
	var bl, un, dn, bs, lk, sp, al []string
	for _, a := range w.blocked {
		bl = append(bl, CqZ(addrZ(a)))
	}
	for i, a := range w.uni {
		un = append(un, CqZ(addrZ(a)))
		for d := range w.denoms {
			if s.bal[i][d].Sign() != 0 {
				bs = append(bs, fmt.Sprintf("(%s, %s, %s)", CqZ(addrZ(a)), CqZi(int64(d)), CqZ(s.bal[i][d])))
			}
			if l := w.locked[lkey(a, d)]; l.Sign() != 0 {
				lk = append(lk, fmt.Sprintf("(%s, %s, %s)", CqZ(addrZ(a)), CqZi(int64(d)), CqZ(l)))
			}
		}
		for j, b := range w.uni {
			if s.allow[i][j].Sign() != 0 {
				al = append(al, fmt.Sprintf("(%s, %s, %s)", CqZ(addrZ(a)), CqZ(addrZ(b)), CqZ(s.allow[i][j])))
			}
		}
	}
	for d := range w.denoms {
		dn = append(dn, CqZi(int64(d)))
		sp = append(sp, fmt.Sprintf("(%s, %s)", CqZi(int64(d)), CqZ(s.sup[d])))
	}
	sb.WriteString(CqList(bl) + "; c_module := " + CqZ(addrZ(w.module)) + ";\n   c_universe := " + CqList(un) + ";\n   c_denoms := " + CqList(dn) +
		";\n   c_bal := " + CqList(bs) + ";\n   c_locked := " + CqList(lk) + ";\n   c_sup := " + CqList(sp) + ";\n   c_allow := " + CqList(al) + ";\n   c_steps := [\n")
	return sb.String()
}

// ------------------------------------------------------------------ the driver

type histDesc struct {
	Index int      `json:"index"`
	Mode  string   `json:"mode"`
	Steps int      `json:"steps"`
	Ops   []string `json:"ops"`
}

func TestDriverErc20(t *testing.T) {
	dir := OutDir(t)
	seed := EnvSeed()
	n := EnvInt("VERIF_N", 40)
	maxSteps := 40
	if strings.EqualFold(os.Getenv("VERIF_TIER"), "thorough") {
		maxSteps = 300
	}
	rng := NewRng(seed)
	side := NewSidecar("erc20", seed,
		"case = one history (<= 40 steps quick / 300 thorough) on a fresh chain with two ERC-20 precompiles (native denom, utwo): transfer/transferFrom/approve/burn/burnFrom/views/malformed calldata "+
			"by 3 EOAs, a vesting account, strict and lenient forwarder contracts and fake senders (zero address, module accounts), interleaved with x/bank MsgSend and with multi-call transactions "+
			"(call trees on two interpreter hosts: several ERC-20 calls per transaction from nested frames that RETURN / REVERT / hit INVALID / run out of gas, one favourite method repeated); "+
			"amounts from {0,1,bal,bal+-1,allow,allow+-1,spendable,spendable+1,2^256-1,random}; keeper mode = EvmKeeper.ApplyMessage(commit), tx mode = relayer->forwarder transactions in blocks (1-3 per block); "+
			"after every step (block) outcome, logs and all balances/supplies/allowances of a 14-address universe x 3 denoms are compared with the model; "+
			"non-trivial = history with >= 1 successful allowance spend by spender != owner and >= 1 failing state-changing call and >= 1 successful burn or transfer")
	cases := NewCases(dir, "From Evm Require Import Erc20 CorrErc20.", "erc20_mismatches")

	for i := 0; i < n; i++ {
		r := rng.Fork(uint64(i))
		w := newWorld(t, r)
		txMode := r.Chance(25)
		steps := 8 + r.Intn(maxSteps-7)
		if txMode && steps > 60 {
			steps = 60
		}
		orc := newOracle(w, side)
		pre := w.snapshot(w.c.Ctx())
		var sb strings.Builder
		sb.WriteString(w.coqHeader(pre))
		hd := histDesc{Index: i, Mode: map[bool]string{true: "tx", false: "keeper"}[txMode]}
		var canon strings.Builder
		first := true
		emit := func(o *opx, ob obsx, check bool, pre, post *snap) {
			db, ds, da := "[]", "[]", "[]"
			if check {
				db, ds, da = w.coqDiff(pre, post)
			}
			if !first {
				sb.WriteString(";\n")
			}
			first = false
			wrap := "XOp"
			if o.kind == kTree {
				wrap = "XTx"
				side.Count(fmt.Sprintf("tree:root-keep:%v", o.tree.keep))
				o.tree.count(side, true)
			}
			sb.WriteString(fmt.Sprintf("    {| s_op := (%s %s); s_out := %s; s_check := %s; s_dbal := %s; s_dsup := %s; s_dallow := %s |}",
				wrap, o.coq(w), w.coqOut(o, ob), CqBool(check), db, ds, da))
			d := o.desc(w) + " => " + map[bool]string{true: "ok", false: "err"}[ob.ok]
			hd.Ops = append(hd.Ops, d)
			canon.WriteString(d + ";")
			side.Count("kind:" + kindName[o.kind])
			side.Count("via:" + viaName[o.via])
			side.Count(fmt.Sprintf("outcome:%s:%v", kindName[o.kind], ob.ok))
			if o.fake {
				side.Count("fake-sender")
			}
		}
		done := 0
		for done < steps {
			o := w.genOp(r, pre, txMode)
			var items []item
			switch {
			case o.kind == kBankSend:
				items = []item{{o, w.bankSend(o)}}
			case !txMode:
				items = []item{{o, w.applyKeeper(o)}}
			default:
				// tx mode: a block of 1..3 forwarded calls
				group := []*opx{o}
				if r.Chance(35) {
					for g := 1 + r.Intn(2); g > 0; g-- {
						if x := w.genOp(r, pre, true); x.kind != kBankSend {
							group = append(group, x)
						}
					}
				}
				if len(group) > 1 {
					side.Count("multi-tx-block")
				}
				items = w.runBlock(group)
			}
			post := w.snapshot(w.c.Ctx())
			orc.checkSeq(items, pre, post, i, done)
			for gi := range items {
				emit(items[gi].o, items[gi].ob, gi == len(items)-1, pre, post)
				if items[gi].o.kind != kEnvSupply {
					done++
				}
			}
			pre = post
		}
		require.True(t, w.lockedUnchanged(w.c.Ctx()), "locked coins changed during the history")
		orc.finish(i)
		sb.WriteString("\n   ] |}")
		cases.Add(sb.String())
		hd.Steps = done
		side.Count("mode:" + hd.Mode)
		side.Case(i, canon.String(), orc.allowanceSpends > 0 && orc.failedWrites > 0 && orc.moves > 0, hd)
		w.c.S.Cleanup()
	}
	cases.Write(t, 4)
	side.Write(t, dir)
}

type item struct {
	o  *opx
	ob obsx
}

// runBlock executes the group as real transactions relayer -> forwarder -> precompile in ONE block. Supply changes made by
// other modules during the block (coinbase / burn events of x/bank whose minter / burner is not the cpc module) are
// returned as kEnvSupply items at the position where they happened.
func (w *world) runBlock(group []*opx) []item {
	c := w.c
	ctx := c.Ctx()
	base := c.BaseFee(ctx)
	cap2 := new(big.Int).Mul(base, big.NewInt(2))
	n0 := c.Nonce(ctx, w.relayer.GetEthAddress())
	var txs [][]byte
	for i, o := range group {
		proxy := w.proxyS
		if o.via == viaLenient {
			proxy = w.proxyL
		}
		gas := uint64(2_000_000)
		var data []byte
		if o.kind == kTree {
			fr := o.tree.frame(w)
			gas = fr.Budget() // sets the gas operand of every frame: before Encode
			proxy, data = fr.Host, fr.Encode(false)
		} else {
			data = append(append([]byte{}, w.tok[o.tok].addr.Bytes()...), o.calldata()...)
		}
		bz, _, err := c.EthTxBytes(w.relayer, &ethtypes.DynamicFeeTx{Nonce: n0 + uint64(i), GasFeeCap: cap2, GasTipCap: big.NewInt(0), Gas: gas, To: &proxy, Value: big.NewInt(0), Data: data})
		require.NoError(w.t, err)
		txs = append(txs, bz)
	}
	res := c.RunBlock(txs)
	require.Len(w.t, res.TxResults, len(group))
	var out []item
	var begin, end []abci.Event
	for _, e := range res.Events {
		if EventAttrs(e)["mode"] == "BeginBlock" {
			begin = append(begin, e)
		} else {
			end = append(end, e)
		}
	}
	out = append(out, w.envItems(begin)...)
	for i, tr := range res.TxResults {
		require.Equal(w.t, uint32(0), tr.Code, "tx rejected: %s", tr.Log)
		resp, err := evmtypes.DecodeTxResponse(tr.Data)
		require.NoError(w.t, err)
		out = append(out, item{group[i], w.decodeResponse(group[i], resp)})
		out = append(out, w.envItems(tr.Events)...)
	}
	out = append(out, w.envItems(end)...)
	return out
}

// envItems: net supply change per denom caused by x/bank mint (coinbase) and burn events of modules other than cpc.
func (w *world) envItems(evs []abci.Event) []item {
	net := make([]*big.Int, len(w.denoms))
	for i := range net {
		net[i] = new(big.Int)
	}
	cpcBech := sdk.AccAddress(w.module.Bytes()).String()
	for _, e := range evs {
		if e.Type != "coinbase" && e.Type != "burn" {
			continue
		}
		at := EventAttrs(e)
		coins, err := sdk.ParseCoinsNormalized(at["amount"])
		require.NoError(w.t, err)
		for id, d := range w.denoms {
			a := coins.AmountOf(d).BigInt()
			if e.Type == "coinbase" {
				net[id].Add(net[id], a)
			} else if at["burner"] != cpcBech {
				net[id].Sub(net[id], a)
			}
		}
	}
	var out []item
	for id := range w.denoms {
		if net[id].Sign() != 0 {
			out = append(out, item{&opx{kind: kEnvSupply, denom: id, amt: net[id]}, obsx{ok: true}})
		}
	}
	return out
}
