package erc20

// Direct oracle for C10, written from the property text only (it never looks at the Coq model):
//   * balanceOf / totalSupply equal the bank balance / supply, allowance equals the stored allowance;
//   * a successful transfer / transferFrom / burn / burnFrom moves or destroys exactly the stated amount, emits exactly
//     one matching Transfer log and leaves every other balance (all denoms, whole universe) and supply untouched;
//   * nobody moves or burns another holder's coins beyond the allowance that holder approved ON THAT TOKEN
//     (the oracle keeps its own per-token ERC-20 ledger); unlimited is never decremented, any other allowance is
//     reduced by exactly the amount spent;
//   * a failing call changes nothing;
//   * sum of all bank balances = supply, supply changes only by burns.

import (
	"fmt"
	"math/big"

	"github.com/ethereum/go-ethereum/common"

	. "verifharness/hx"
)

type pair struct{ o, s common.Address }

type oracle struct {
	w      *world
	side   *Sidecar
	perTok [2]map[pair]*big.Int // what owner approved to spender on this token and is still unspent
	pooled map[pair]*big.Int    // the same ledger if all tokens shared one allowance (used only to classify a hit)

	allowanceSpends, failedWrites, moves int
}

func newOracle(w *world, side *Sidecar) *oracle {
	return &oracle{w: w, side: side, perTok: [2]map[pair]*big.Int{{}, {}}, pooled: map[pair]*big.Int{}}
}

func get(m map[pair]*big.Int, p pair) *big.Int {
	if v, ok := m[p]; ok {
		return v
	}
	return big.NewInt(0)
}

type hitCase struct {
	History int    `json:"history"`
	Step    int    `json:"step"`
	Op      string `json:"op"`
	Detail  string `json:"detail"`
}

func (or *oracle) hit(sig, msg string, o *opx, hist, step int) {
	or.side.Hit(sig, msg, hitCase{History: hist, Step: step, Op: o.desc(or.w), Detail: msg})
}

// checkSeq checks the items executed between two observations of the state (one call in keeper mode; the calls of one
// block plus the supply changes made by other modules in tx mode): every outcome is checked on its own, the state the
// property text prescribes is composed item by item and compared with the state observed afterwards.
func (or *oracle) checkSeq(items []item, pre, post *snap, hist, step int) {
	w := or.w
	cur := cloneSnap(pre)
	calls := 0
	var last *opx
	// a transaction with a call tree counts as the sequence of the calls of its surviving frames
	trees := 0
	var flat []item
	for _, it := range items {
		if it.o.kind == kTree {
			trees++
			last = it.o
			flat = append(flat, or.treeItems(it, hist, step)...)
		} else {
			flat = append(flat, it)
		}
	}
	items = flat
	for _, it := range items {
		o, ob := it.o, it.ob
		if o.kind == kEnvSupply {
			cur.sup[o.denom] = new(big.Int).Add(cur.sup[o.denom], o.amt)
			continue
		}
		calls++
		last = o
		if !ob.ok {
			if o.kind >= kTransfer && o.kind <= kBurnFrom {
				or.failedWrites++
			}
			if len(ob.logs) != 0 {
				or.hit("C10/erc20/failed-call-changed-state/"+kindName[o.kind], "a failing call left logs", o, hist, step)
			}
			or.mustSucceed(o, cur, hist, step)
			continue // a failing call changes nothing: cur stays
		}
		or.applyOk(o, ob, cur, hist, step)
	}
	if !snapEqual(cur, post) {
		sig := "C10/erc20/state-after-block"
		if trees > 0 {
			sig = "C10/erc20/tree/state-after-tx"
		} else if calls == 1 {
			if items[len(items)-1].ob.ok || last.kind == kEnvSupply {
				sig = "C10/erc20/state-after-success/" + kindName[last.kind]
			}
			for _, it := range items {
				if it.o.kind != kEnvSupply && !it.ob.ok {
					sig = "C10/erc20/failed-call-changed-state/" + kindName[it.o.kind]
				}
			}
		}
		or.hit(sig, "state observed afterwards is not what the executed calls state: "+diffSnap(w, cur, post), last, hist, step)
	}
	// bank invariant over ALL accounts
	sums := w.sumAllBalances(w.c.Ctx())
	for d := range w.denoms {
		if sums[d].Cmp(post.sup[d]) != 0 {
			or.hit("C10/erc20/supply-ne-sum-of-balances", fmt.Sprintf("denom %s: sum of balances %s, supply %s", w.denoms[d], sums[d], post.sup[d]), last, hist, step)
		}
	}
}

// applyOk checks one successful operation (outcome, logs, allowance rule) against the state [cur] it ran on and
// advances [cur] to the state the property text prescribes, as well as the oracle's own ledgers.
func (or *oracle) applyOk(o *opx, ob obsx, cur *snap, hist, step int) {
	w := or.w
	switch o.kind {
	case kBankSend:
		fi, ti := w.idx(o.from), w.idx(o.to)
		cur.bal[fi][o.denom] = new(big.Int).Sub(cur.bal[fi][o.denom], o.amt)
		cur.bal[ti][o.denom] = new(big.Int).Add(cur.bal[ti][o.denom], o.amt)
		if w.c.App.BankKeeper.BlockedAddr(o.to.Bytes()) {
			or.hit("C10/erc20/banksend-to-blocked", "MsgSend to a blocked address succeeded", o, hist, step)
		}
	case kName, kSymbol:
		s, ok := abiString(ob.ret)
		want := w.tok[o.tok].name
		if o.kind == kSymbol {
			want = w.tok[o.tok].symbol
		}
		if !ok || s != want {
			or.hit("C10/erc20/view-mismatch/"+kindName[o.kind], fmt.Sprintf("returned %q want %q", s, want), o, hist, step)
		}
	case kDecimals, kTotalSupply, kBalanceOf, kAllowance:
		var want *big.Int
		switch o.kind {
		case kDecimals:
			want = big.NewInt(int64(w.tok[o.tok].decimals))
		case kTotalSupply:
			want = cur.sup[w.tok[o.tok].denomID]
		case kBalanceOf:
			want = cur.bal[w.idx(lowAddr(o.w[0]))][w.tok[o.tok].denomID]
		case kAllowance:
			want = cur.allow[w.idx(lowAddr(o.w[0]))][w.idx(lowAddr(o.w[1]))]
		}
		if len(ob.ret) != 32 || new(big.Int).SetBytes(ob.ret).Cmp(want) != 0 {
			or.hit("C10/erc20/view-mismatch/"+kindName[o.kind], fmt.Sprintf("returned %x want %s", ob.ret, want), o, hist, step)
		}
		if len(ob.logs) != 0 {
			or.hit("C10/erc20/view-emitted-log/"+kindName[o.kind], "a view emitted logs", o, hist, step)
		}
	case kApprove:
		owner, sp, v := o.caller, lowAddr(o.w[0]), o.w[1]
		if oi, si := w.idx(owner), w.idx(sp); oi >= 0 && si >= 0 {
			cur.allow[oi][si] = new(big.Int).Set(v)
		}
		or.perTok[o.tok][pair{owner, sp}] = new(big.Int).Set(v)
		or.pooled[pair{owner, sp}] = new(big.Int).Set(v)
		if !(len(ob.logs) == 1 && ob.logs[0].Address == w.tok[o.tok].addr && len(ob.logs[0].Topics) == 3 && ob.logs[0].Topics[0] == topicApproval &&
			ob.logs[0].Topics[1] == common.BytesToHash(owner.Bytes()) && ob.logs[0].Topics[2] == common.BytesToHash(sp.Bytes()) &&
			new(big.Int).SetBytes(ob.logs[0].Data).Cmp(v) == 0) {
			or.hit("C10/erc20/approval-log", "approve did not emit exactly one matching Approval log", o, hist, step)
		}
	case kTransfer, kTransferFrom, kBurn, kBurnFrom:
		from, to, amt, _ := o.moves()
		d := w.tok[o.tok].denomID
		fi, ti := w.idx(from), w.idx(to)
		burn := o.kind == kBurn || o.kind == kBurnFrom
		or.moves++
		if fi < 0 || (ti < 0 && !burn) {
			or.hit("C10/erc20/address-outside-universe", "generator bug", o, hist, step)
			return
		}
		preAllow := big.NewInt(0)
		ci := w.idx(o.caller)
		if ci >= 0 {
			preAllow = cur.allow[fi][ci]
		}
		if cur.bal[fi][d].Cmp(amt) < 0 {
			or.hit("C10/erc20/moved-more-than-balance/"+kindName[o.kind], "success although the holder's balance is smaller than the amount", o, hist, step)
		}
		cur.bal[fi][d] = new(big.Int).Sub(cur.bal[fi][d], amt)
		if burn {
			cur.sup[d] = new(big.Int).Sub(cur.sup[d], amt)
		} else {
			cur.bal[ti][d] = new(big.Int).Add(cur.bal[ti][d], amt)
		}
		if !(len(ob.logs) == 1 && ob.logs[0].Address == w.tok[o.tok].addr && len(ob.logs[0].Topics) == 3 && ob.logs[0].Topics[0] == topicTransfer &&
			ob.logs[0].Topics[1] == common.BytesToHash(from.Bytes()) && ob.logs[0].Topics[2] == common.BytesToHash(to.Bytes()) &&
			len(ob.logs[0].Data) == 32 && new(big.Int).SetBytes(ob.logs[0].Data).Cmp(amt) == 0) {
			or.hit("C10/erc20/transfer-log/"+kindName[o.kind], "not exactly one matching Transfer log", o, hist, step)
		}
		if len(ob.ret) != 32 || new(big.Int).SetBytes(ob.ret).Cmp(big.NewInt(1)) != 0 {
			or.hit("C10/erc20/return-not-true/"+kindName[o.kind], "successful call did not return true", o, hist, step)
		}
		if from != o.caller {
			// somebody else's coins: needs the allowance this holder approved on THIS token
			or.allowanceSpends++
			p := pair{from, o.caller}
			have := get(or.perTok[o.tok], p)
			if have.Cmp(max256) != 0 {
				if amt.Cmp(have) > 0 {
					pool := get(or.pooled, p)
					if pool.Cmp(max256) == 0 || amt.Cmp(pool) <= 0 {
						or.hit("C10/erc20/allowance-shared-across-tokens",
							fmt.Sprintf("%s of %s's %s moved by %s with only %s approved on this token (approval given on the other token was used)", amt, from.Hex(), w.tok[o.tok].symbol, o.caller.Hex(), have), o, hist, step)
					} else {
						or.hit("C10/erc20/spend-beyond-allowance/"+kindName[o.kind],
							fmt.Sprintf("%s moved with %s approved on this token and %s approved in total", amt, have, pool), o, hist, step)
					}
					or.perTok[o.tok][p] = big.NewInt(0)
				} else {
					or.perTok[o.tok][p] = new(big.Int).Sub(have, amt)
				}
			}
			if pool := get(or.pooled, p); pool.Cmp(max256) != 0 {
				np := new(big.Int).Sub(pool, amt)
				if np.Sign() < 0 {
					np = big.NewInt(0)
				}
				or.pooled[p] = np
			}
			// stored allowance: unlimited never decremented, any other reduced by exactly the amount
			if ci >= 0 && preAllow.Cmp(max256) != 0 {
				if preAllow.Cmp(amt) < 0 {
					or.hit("C10/erc20/spend-beyond-stored-allowance/"+kindName[o.kind], "stored allowance smaller than the amount spent", o, hist, step)
				}
				cur.allow[fi][ci] = new(big.Int).Sub(preAllow, amt)
			}
		}
	}
}

// mustSucceed: an exact ERC-20 view does what ERC-20 says whenever the ledger allows it: a well-formed transfer /
// transferFrom / burn / burnFrom of an amount the holder can spend (bank balance minus locked vesting coins), by the
// holder or by a spender whose stored allowance covers it, and a well-formed approve, may not fail.
func (or *oracle) mustSucceed(o *opx, cur *snap, hist, step int) {
	w := or.w
	if len(o.extra) != 0 || o.caller == (common.Address{}) {
		return
	}
	switch o.kind {
	case kApprove:
		if lowAddr(o.w[0]) != (common.Address{}) {
			or.hit("C10/erc20/valid-call-failed/approve", "approve of a non-zero spender by a non-zero owner failed", o, hist, step)
		}
	case kTransfer, kTransferFrom, kBurn, kBurnFrom:
		from, to, amt, _ := o.moves()
		burn := o.kind == kBurn || o.kind == kBurnFrom
		fi, ci := w.idx(from), w.idx(o.caller)
		if from == (common.Address{}) || (!burn && to == (common.Address{})) || fi < 0 || ci < 0 {
			return
		}
		d := w.tok[o.tok].denomID
		spendable := new(big.Int).Sub(cur.bal[fi][d], w.locked[lkey(from, d)])
		if spendable.Cmp(amt) < 0 {
			return
		}
		if from != o.caller {
			if a := cur.allow[fi][ci]; a.Cmp(max256) != 0 && a.Cmp(amt) < 0 {
				return
			}
		}
		or.hit("C10/erc20/valid-call-failed/"+kindName[o.kind],
			fmt.Sprintf("%s of %s failed although the holder can spend %s and the caller is the holder or holds allowance %s", kindName[o.kind], amt, spendable, cur.allow[fi][ci]), o, hist, step)
	}
}

func (or *oracle) finish(hist int) {}

func cloneSnap(s *snap) *snap {
	c := &snap{}
	for _, row := range s.bal {
		c.bal = append(c.bal, append([]*big.Int{}, row...))
	}
	c.sup = append([]*big.Int{}, s.sup...)
	for _, row := range s.allow {
		c.allow = append(c.allow, append([]*big.Int{}, row...))
	}
	return c
}

func diffSnap(w *world, a, b *snap) string {
	out := ""
	for i := range a.bal {
		for d := range a.bal[i] {
			if a.bal[i][d].Cmp(b.bal[i][d]) != 0 {
				out += fmt.Sprintf("bal[%s,%s] want %s got %s; ", w.uniName[i], w.denoms[d], a.bal[i][d], b.bal[i][d])
			}
		}
	}
	for d := range a.sup {
		if a.sup[d].Cmp(b.sup[d]) != 0 {
			out += fmt.Sprintf("supply[%s] want %s got %s; ", w.denoms[d], a.sup[d], b.sup[d])
		}
	}
	for i := range a.allow {
		for j := range a.allow[i] {
			if a.allow[i][j].Cmp(b.allow[i][j]) != 0 {
				out += fmt.Sprintf("allow[%s,%s] want %s got %s; ", w.uniName[i], w.uniName[j], a.allow[i][j], b.allow[i][j])
			}
		}
	}
	return out
}
