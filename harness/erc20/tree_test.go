package erc20

// Multi-call transactions (C10): ONE transaction to the call-tree interpreter contract (hx/sdbtree_interp.go) whose
// frames - at two host addresses, nested up to three deep - make several ERC-20 calls each, and end by RETURN, REVERT,
// INVALID or by running out of gas.  The generator repeats one favourite method (same token, same selector) over sibling
// and nested frames with mixed outcomes.  The Coq model executes the same tree (Model/Erc20.v exec_tree); the Go oracle
// walks the calls of the surviving frames in program order with the success bits the contract returned and the logs
// of the receipt, and checks each of them and the state after the transaction exactly like a sequence of direct calls.

import (
	"fmt"
	"math/big"
	"strings"

	"github.com/ethereum/go-ethereum/common"

	. "verifharness/hx"
)

type fnode struct {
	leaf *opx // a call of an ERC-20 method by the enclosing frame's host; nil for a frame
	bit  int  // leaf: index in program order = bit in the returned mask
	host common.Address
	end  byte
	keep bool
	kids []*fnode
}

type treeGenC10 struct {
	w      *world
	r      *Rng
	s      *snap
	frames int
	leaves int
	fav    *opx
}

var treeLeafKinds = []kind{kTransfer, kTransferFrom, kApprove, kBurn, kBurnFrom, kMalformed}
var treeLeafWeights = []int{22, 26, 20, 8, 10, 3}

func (g *treeGenC10) leaf(host common.Address) *fnode {
	r := g.r
	o := &opx{via: viaTree, caller: host, sender: host, tok: r.Intn(2)}
	if g.fav != nil && r.Chance(55) {
		o.kind, o.tok = g.fav.kind, g.fav.tok
	} else {
		tot := 0
		for _, x := range treeLeafWeights {
			tot += x
		}
		p := r.Intn(tot)
		for i, x := range treeLeafWeights {
			if p < x {
				o.kind = treeLeafKinds[i]
				break
			}
			p -= x
		}
	}
	g.w.genArgs(r, g.s, o)
	if g.fav == nil && o.kind != kMalformed {
		g.fav = o
	}
	n := &fnode{leaf: o, bit: g.leaves}
	g.leaves++
	return n
}

func (g *treeGenC10) node(depth int, parent *fnode) *fnode {
	r := g.r
	n := &fnode{host: g.w.hosts[r.Intn(len(g.w.hosts))]}
	if parent != nil && r.Chance(50) {
		n.host = parent.host
	}
	g.frames++
	root := parent == nil
	switch k := r.Intn(100); {
	case root && k < 82, !root && k < 48:
		n.end = TreeEndReturn
	case root && k < 92, !root && k < 74:
		n.end = TreeEndRevert
	case root, k < 90:
		n.end = TreeEndInvalid
	default:
		n.end = TreeEndSpin
	}
	n.keep = n.end == TreeEndReturn
	cnt := 1 + r.Intn(4)
	if root {
		cnt = 2 + r.Intn(4)
	}
	for i := 0; i < cnt; i++ {
		if r.Chance(58) || depth >= 3 || g.frames >= 7 {
			if g.leaves < 12 {
				n.kids = append(n.kids, g.leaf(n.host))
			}
		} else {
			n.kids = append(n.kids, g.node(depth+1, n))
		}
	}
	return n
}

func (w *world) genTree(r *Rng, s *snap, txMode bool) *opx {
	o := &opx{kind: kTree, via: viaTree}
	if txMode {
		o.sender = w.relayer.GetEthAddress()
	} else {
		o.sender = w.eoa[r.Intn(len(w.eoa))].GetEthAddress()
	}
	for {
		g := &treeGenC10{w: w, r: r, s: s}
		o.tree = g.node(0, nil)
		if g.leaves > 0 {
			break
		}
	}
	o.caller = o.tree.host
	return o
}

// frame builds the interpreter program of the (sub)tree.
func (n *fnode) frame(w *world) *TreeFrame {
	f := &TreeFrame{Host: n.host, End: n.end, Gas: TreeGasAll}
	for _, k := range n.kids {
		if k.leaf != nil {
			f.Items = append(f.Items, TreeItem{Kind: 0x10, Bit: k.bit, Gas: 120_000, Target: w.tok[k.leaf.tok].addr, Payload: k.leaf.calldata()})
		} else {
			f.Items = append(f.Items, TreeItem{Kind: 0x10, Child: k.frame(w)})
		}
	}
	return f
}

func (n *fnode) coq(w *world) string {
	if n.leaf != nil {
		return n.leaf.coqAs(w, "FLeaf")
	}
	ks := make([]string, len(n.kids))
	for i, k := range n.kids {
		ks[i] = k.coq(w)
	}
	return fmt.Sprintf("(FNode %s %s)", CqBool(n.keep), CqList(ks))
}

func (n *fnode) desc(w *world) string {
	if n.leaf != nil {
		return fmt.Sprintf("#%d:%s", n.bit, n.leaf.desc(w))
	}
	ks := make([]string, len(n.kids))
	for i, k := range n.kids {
		ks[i] = k.desc(w)
	}
	return fmt.Sprintf("%s{%s}%s", w.uniName[w.idx(n.host)], strings.Join(ks, "; "), []string{"ret", "REVERT", "INVALID", "OOG"}[n.end])
}

// count records the shape in the histogram: leaves by method and fate, frames by ending.
func (n *fnode) count(side *Sidecar, alive bool) {
	if n.leaf != nil {
		side.Count(fmt.Sprintf("tree:leaf:%s:frame-survives=%v", kindName[n.leaf.kind], alive))
		return
	}
	side.Count("tree:frame-end:" + []string{"ret", "revert", "invalid", "oog"}[n.end])
	for _, k := range n.kids {
		k.count(side, alive && n.keep)
	}
}

// repeated reports whether some method (token + selector) is called both in a surviving and in a failing frame.
func (n *fnode) repeated() bool {
	type fate struct{ alive, dead bool }
	per := map[string]*fate{}
	var rec func(x *fnode, alive bool)
	rec = func(x *fnode, alive bool) {
		if x.leaf != nil {
			k := fmt.Sprintf("%d/%d", x.leaf.tok, x.leaf.kind)
			if per[k] == nil {
				per[k] = &fate{}
			}
			if alive {
				per[k].alive = true
			} else {
				per[k].dead = true
			}
			return
		}
		for _, k := range x.kids {
			rec(k, alive && x.keep)
		}
	}
	rec(n, true)
	for _, f := range per {
		if f.alive && f.dead {
			return true
		}
	}
	return false
}

// treeItems turns the observed outcome of a tree transaction into the sequence of calls the property says took effect:
// the leaves of surviving frames in program order, each with the success bit the contract returned and - for a
// successful state-changing call - the next log of the receipt.
func (or *oracle) treeItems(it item, hist, step int) []item {
	o, ob := it.o, it.ob
	root := o.tree
	if ob.ok != root.keep {
		or.hit("C10/erc20/tree/unexpected-vm-result", fmt.Sprintf("top frame ends with mode %d but the transaction's success is %v (%s)", root.end, ob.ok, ob.vmErr), o, hist, step)
	}
	if !ob.ok {
		if len(ob.logs) != 0 {
			or.hit("C10/erc20/tree/failed-tx-has-logs", "a transaction that ended with a VM error kept logs", o, hist, step)
		}
		return nil
	}
	mask := new(big.Int)
	if len(ob.ret) == 32 {
		mask.SetBytes(ob.ret)
	} else {
		or.hit("C10/erc20/tree/no-mask", "the interpreter contract did not return its 32-byte success mask", o, hist, step)
	}
	logs := ob.logs
	var out []item
	var rec func(n *fnode, alive bool)
	rec = func(n *fnode, alive bool) {
		if n.leaf != nil {
			okBit := mask.Bit(n.bit) != 0
			if !alive {
				if okBit {
					or.hit("C10/erc20/tree/mask-has-leaf-of-failing-frame", fmt.Sprintf("leaf #%d sits in a failing frame but its success bit reached the result", n.bit), o, hist, step)
				}
				return
			}
			lo := obsx{ok: okBit}
			if okBit && n.leaf.kind >= kTransfer && n.leaf.kind <= kBurnFrom {
				lo.ret = word(big.NewInt(1)) // the contract only forwards the success flag
				if len(logs) > 0 {
					lo.logs, logs = logs[:1], logs[1:]
				}
			}
			out = append(out, item{o: n.leaf, ob: lo})
			return
		}
		for _, k := range n.kids {
			rec(k, alive && n.keep)
		}
	}
	rec(root, true)
	if len(logs) != 0 {
		or.hit("C10/erc20/tree/logs-of-failing-frames", fmt.Sprintf("%d logs of the receipt belong to no successful call of a surviving frame", len(logs)), o, hist, step)
	}
	return out
}
