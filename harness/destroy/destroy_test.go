package destroy

// Driver `destroy` (C15; the commit-loop order also serves C01).
//
// Every case builds a small universe (module accounts, every vesting kind before/at/after its end time
// relative to the BLOCK time, base accounts, contracts, absent addresses, multi-denomination balances) in
// a branch of a real chain's state, creates the real cStateDb on it and drives it
//   (A) directly (raw StateDB calls, including CreateAccount / DestroyAccount / Snapshot / Revert) and through
//       the real EVM interpreter (evm.Call / evm.Create / evm.Create2 on assembled bytecode), or
//   (B) with the real TransitionDb on a generated message, and then again as a real signed transaction in a
//       real block through ABCI (FinalizeBlock + Commit) — both must agree.
// The interpreter's StateDB calls are recorded by a wrapper; the recorded operation list, the initial stores and
// everything observed afterwards go to Coq (Corr/CorrDestroy.v), which runs the model on them.
// The oracle below is written from the property text and uses only the SDK's own answers (LockedCoins, stores).
//
// Round 3 (foreign_test.go): within one StateDB life, touches and reads of an address are interleaved with writes that
// OTHER MODULES make on the StateDB's current context - the ERC-20 and staking precompiles called by any address or
// by planted programs, and bank sends / burns / delegations made by the harness itself - in both orders (touched then
// paid, funded then drained), scripted and random; addresses and storage keys carry boundary bytes; the WHOLE raw x/evm
// store is scanned before the transaction, before the commit and after it, and the oracle's expectation for the commit
// (deleted, completely, iff touched and (self-destructed or empty in the stores when the commit starts); untouched
// otherwise) is computed from those scans, bank and auth only.

import (
	"fmt"
	"math/big"
	"os"
	"sort"
	"strings"
	"testing"
	"time"

	sdk "github.com/cosmos/cosmos-sdk/types"
	authtypes "github.com/cosmos/cosmos-sdk/x/auth/types"
	vestingtypes "github.com/cosmos/cosmos-sdk/x/auth/vesting/types"
	distrtypes "github.com/cosmos/cosmos-sdk/x/distribution/types"
	stakingtypes "github.com/cosmos/cosmos-sdk/x/staking/types"
	"github.com/ethereum/go-ethereum/common"
	ethtypes "github.com/ethereum/go-ethereum/core/types"
	corevm "github.com/ethereum/go-ethereum/core/vm"
	ethcrypto "github.com/ethereum/go-ethereum/crypto"
	"github.com/stretchr/testify/require"

	evmtypes "github.com/EscanBE/evermint/v12/x/evm/types"
	evmvm "github.com/EscanBE/evermint/v12/x/evm/vm"

	. "verifharness/hx"
)

// ---------------------------------------------------------------- universe

type role int

const (
	rAbsent role = iota
	rBalanceOnly
	rEmptyBase
	rBase
	rContract
	rStorageOnly
	rVesting
	rModuleForeign
)

type world struct {
	t       *testing.T
	c       *Chain
	ctx     sdk.Context // the branch the universe lives in (parent of the StateDB)
	denoms  []string
	ct      *codeTable
	addrs   []common.Address // universe, in insertion order
	inUni   map[common.Address]bool
	desc    map[common.Address]string
	blocked []common.Address
	now     time.Time
	r       *Rng
	side    *Sidecar
	cpc     *cpcEnv
	hot     common.Address   // the address most touches and foreign writes of the case aim at
	fam     []common.Address // a family of boundary addresses (see boundaryFamily), handed out by nextAddr
	nPlain  int
}

// nextAddr hands out the addresses of the universe: members of the boundary family first (in a random half of the
// cases), plain ones otherwise.
func (w *world) nextAddr() common.Address {
	for len(w.fam) > 0 {
		a := w.fam[0]
		w.fam = w.fam[1:]
		if !w.inUni[a] && w.r.Chance(70) {
			return a
		}
	}
	w.nPlain++
	return plainAddr(1 + w.nPlain)
}

func boundaryLabel(a common.Address) string {
	switch {
	case a[19] == 0xff && a[18] == 0xff:
		return "addr:..ffff"
	case a[19] == 0xff:
		return "addr:..ff"
	case a[19] == 0x00:
		return "addr:..00"
	case a[0] == 0xff:
		return "addr:ff.."
	case a[0] == 0x00:
		return "addr:00.."
	}
	return "addr:plain"
}

func (w *world) add(a common.Address, d string) {
	if !w.inUni[a] {
		w.inUni[a] = true
		w.addrs = append(w.addrs, a)
		w.desc[a] = d
	}
}

func plainAddr(i int) common.Address {
	return common.BytesToAddress([]byte{0xA1, 0x5C, 0, 0, 0, 0, 0, 0, 0, 0, 0, 0, 0, 0, 0, 0, 0, 0, 0xD0, byte(i)})
}

// amounts: boundary heavy, far below 2^128 so that LegacyDec arithmetic of continuous vesting cannot overflow
func (w *world) amount() *big.Int {
	switch w.r.Intn(6) {
	case 0:
		return Bi(0)
	case 1:
		return Bi(1)
	case 2:
		return Bi(int64(1 + w.r.Intn(1000)))
	case 3:
		return new(big.Int).Add(Bi(1_000_000_000_000_000_000), Bi(int64(w.r.Intn(7))))
	case 4:
		return w.r.BigBits(1 + w.r.Intn(90))
	default:
		return Bi(int64(3 + 2*w.r.Intn(50)))
	}
}

func (w *world) balances() []*big.Int {
	v := make([]*big.Int, len(w.denoms))
	for i := range v {
		v[i] = Bi(0)
		if w.r.Chance(45) {
			v[i] = w.amount()
		}
	}
	return v
}

// end time relative to the block time: boundary heavy on both sides
func (w *world) endTime() int64 {
	now := w.now.Unix()
	deltas := []int64{-100_000_000, -86_400, -2, -1, 0, 1, 2, 86_400, 100_000_000, 1_000_000_000}
	e := now + deltas[w.r.Intn(len(deltas))]
	if e < 1 {
		e = 1
	}
	return e
}

func (w *world) setBalance(a common.Address, v []*big.Int, keepAccount bool) {
	had := w.c.App.AccountKeeper.HasAccount(w.ctx, a.Bytes())
	mint(w.t, w.c, w.ctx, a, w.denoms, v)
	if !had && !keepAccount {
		if acc := w.c.App.AccountKeeper.GetAccount(w.ctx, a.Bytes()); acc != nil {
			w.c.App.AccountKeeper.RemoveAccount(w.ctx, acc) // bank's SendCoins created it
		}
	}
}

func (w *world) plantBase(a common.Address, nonce uint64) {
	ak := w.c.App.AccountKeeper
	acc := ak.GetAccount(w.ctx, a.Bytes())
	if acc == nil {
		acc = ak.NewAccountWithAddress(w.ctx, a.Bytes())
	}
	require.NoError(w.t, acc.SetSequence(nonce))
	ak.SetAccount(w.ctx, acc)
}

func (w *world) plantCode(a common.Address, code []byte) {
	w.ct.id(code)
	h := ethcrypto.Keccak256Hash(code)
	w.c.App.EvmKeeper.SetCode(w.ctx, h.Bytes(), code)
	w.c.App.EvmKeeper.SetCodeHash(w.ctx, a, h)
}

// storage: a few slots, or many; small keys and boundary keys (00..00, ff..ff, ff00..00, ...)
func (w *world) plantStorage(a common.Address) {
	n := 1 + w.r.Intn(4)
	if w.r.Chance(20) {
		n = 8 + w.r.Intn(12)
	}
	for i := 0; i < n; i++ {
		k := Bi(int64(1 + w.r.Intn(6)))
		if w.r.Chance(50) {
			k = boundaryKey(w.r)
		}
		v := Bi(int64(w.r.Intn(3)))
		if w.r.Chance(25) {
			v = boundaryKey(w.r)
		}
		w.c.App.EvmKeeper.SetState(w.ctx, a, common.BigToHash(k), common.BigToHash(v).Bytes())
	}
}

// plantVesting creates a vesting account of a random kind with a Validate()-valid schedule.
func (w *world) plantVesting(a common.Address, forceKind int) string {
	ak := w.c.App.AccountKeeper
	orig := make([]*big.Int, len(w.denoms))
	nonzero := false
	for i := range orig {
		orig[i] = Bi(0)
		if i == 0 || w.r.Chance(35) {
			orig[i] = Badd(w.amount(), 1)
			nonzero = true
		}
	}
	require.True(w.t, nonzero)
	origCoins := toCoins(w.denoms, orig)
	base := ak.NewAccountWithAddress(w.ctx, a.Bytes()).(*authtypes.BaseAccount)
	if w.r.Chance(30) {
		require.NoError(w.t, base.SetSequence(uint64(1+w.r.Intn(3))))
	}
	kind := forceKind
	if kind < 0 {
		kind = w.r.Intn(5)
	}
	end := w.endTime()
	var acc sdk.AccountI
	var bva *vestingtypes.BaseVestingAccount
	var err error
	switch kind {
	case 0:
		bva, err = vestingtypes.NewBaseVestingAccount(base, origCoins, end)
		acc = bva
	case 1:
		var d *vestingtypes.DelayedVestingAccount
		d, err = vestingtypes.NewDelayedVestingAccount(base, origCoins, end)
		acc, bva = d, d.BaseVestingAccount
	case 2:
		var cv *vestingtypes.ContinuousVestingAccount
		start := end - int64(1+w.r.Intn(3)) - int64(w.r.Intn(2))*int64(w.r.Intn(200_000_000))
		if start < 0 {
			start = 0
		}
		cv, err = vestingtypes.NewContinuousVestingAccount(base, origCoins, start, end)
		acc, bva = cv, cv.BaseVestingAccount
	case 3:
		// periods that sum to orig; the end time is start + sum of lengths
		np := 1 + w.r.Intn(3)
		var periods vestingtypes.Periods
		rest := make([]*big.Int, len(orig))
		for i := range rest {
			rest[i] = new(big.Int).Set(orig[i])
		}
		var total int64
		for p := 0; p < np; p++ {
			amt := make([]*big.Int, len(orig))
			for i := range amt {
				if p == np-1 {
					amt[i] = rest[i]
				} else {
					amt[i] = new(big.Int).Div(rest[i], Bi(int64(2+w.r.Intn(2))))
					rest[i] = new(big.Int).Sub(rest[i], amt[i])
				}
			}
			cs := toCoins(w.denoms, amt)
			if cs.IsZero() {
				continue
			}
			l := int64(1 + w.r.Intn(3) + w.r.Intn(2)*w.r.Intn(100_000_000))
			total += l
			periods = append(periods, vestingtypes.Period{Length: l, Amount: cs})
		}
		start := end - total
		if start < 0 {
			start = 0
		}
		var pv *vestingtypes.PeriodicVestingAccount
		pv, err = vestingtypes.NewPeriodicVestingAccount(base, origCoins, start, periods)
		acc, bva = pv, pv.BaseVestingAccount
	default:
		var pl *vestingtypes.PermanentLockedAccount
		pl, err = vestingtypes.NewPermanentLockedAccount(base, origCoins)
		acc, bva = pl, pl.BaseVestingAccount
	}
	require.NoError(w.t, err)
	// delegations: none / part / all of the original vesting
	delv := make([]*big.Int, len(orig))
	mode := w.r.Intn(4)
	for i := range orig {
		switch mode {
		case 0, 1:
			delv[i] = Bi(0)
		case 2:
			delv[i] = new(big.Int).Div(orig[i], Bi(2))
		default:
			delv[i] = new(big.Int).Set(orig[i])
		}
	}
	bva.DelegatedVesting = toCoins(w.denoms, delv)
	bva.DelegatedFree = sdk.NewCoins()
	ak.SetAccount(w.ctx, acc)
	// balance: what is left after the delegation, sometimes plus free coins, sometimes something unrelated
	bal := make([]*big.Int, len(orig))
	for i := range bal {
		bal[i] = new(big.Int).Sub(orig[i], delv[i])
		switch w.r.Intn(5) {
		case 0:
			bal[i] = new(big.Int).Add(bal[i], w.amount())
		case 1:
			bal[i] = w.amount()
		}
	}
	w.setBalance(a, bal, true)
	return fmt.Sprintf("vesting:%s end-now=%d delegated-mode=%d", vkindNames[kind], bva.EndTime-w.now.Unix(), mode)
}

func (w *world) plantRole(a common.Address, ro role, program []byte) string {
	switch ro {
	case rAbsent:
		return "absent"
	case rBalanceOnly:
		w.setBalance(a, w.balances(), false)
		return "balance-without-account"
	case rEmptyBase:
		w.plantBase(a, 0)
		return "empty-base"
	case rBase:
		w.plantBase(a, uint64(w.r.Intn(3)))
		w.setBalance(a, w.balances(), true)
		return "base"
	case rContract:
		w.plantBase(a, 1)
		w.plantCode(a, program)
		if w.r.Chance(50) {
			w.plantStorage(a)
		}
		w.setBalance(a, w.balances(), true)
		return "contract"
	case rStorageOnly:
		w.plantBase(a, 0)
		w.plantStorage(a)
		if w.r.Chance(50) {
			w.setBalance(a, w.balances(), true)
		}
		return "storage-only"
	case rVesting:
		return w.plantVesting(a, -1)
	case rModuleForeign:
		macc := authtypes.NewEmptyModuleAccount("verifmod" + a.Hex()[2:8])
		macc.BaseAccount.Address = sdk.AccAddress(a.Bytes()).String()
		w.c.App.AccountKeeper.SetAccount(w.ctx, w.c.App.AccountKeeper.NewAccount(w.ctx, macc))
		if w.r.Chance(50) {
			w.setBalance(a, w.balances(), true)
		}
		return "module-not-blocked"
	}
	return "?"
}

func (w *world) randomRole() role {
	switch x := w.r.Intn(100); {
	case x < 10:
		return rAbsent
	case x < 16:
		return rBalanceOnly
	case x < 26:
		return rEmptyBase
	case x < 40:
		return rBase
	case x < 52:
		return rStorageOnly
	case x < 92:
		return rVesting
	default:
		return rModuleForeign
	}
}

func (w *world) pick() common.Address { return w.addrs[w.r.Intn(len(w.addrs))] }

// the app's module accounts (all of them are blocked addresses of the bank keeper)
func (w *world) addModules() {
	for _, name := range []string{authtypes.FeeCollectorName, evmtypes.ModuleName, distrtypes.ModuleName, stakingtypes.BondedPoolName, "cpc", "vauth"} {
		a := common.BytesToAddress(authtypes.NewModuleAddress(name).Bytes())
		w.blocked = append(w.blocked, a)
		if w.r.Chance(40) {
			w.add(a, "module:"+name)
		}
	}
}

// ---------------------------------------------------------------- case plumbing

type group struct {
	evm   bool
	ops   []recOp
	focus common.Address
	exist bool
	empty bool
	bal   *big.Int // StateDB.GetBalance
	nonce uint64   // StateDB.GetNonce
	code  int      // StateDB.GetCodeHash as a code id
	panic bool
	desc  string
}

type caseOut struct {
	Index   int      `json:"index"`
	Mode    string   `json:"mode"`
	Now     int64    `json:"block_time"`
	Uni     []string `json:"universe"`
	Actions []string `json:"actions"`
	Outcome string   `json:"outcome"`
}

func cqGroups(gs []group) string {
	items := make([]string, len(gs))
	for i, g := range gs {
		o := "GPanic"
		if !g.panic {
			o = fmt.Sprintf("(GOk %s %s %s %s %d %d)", az(g.focus), CqBool(g.exist), CqBool(g.empty), cz(g.bal), g.nonce, g.code)
		}
		ops := make([]string, len(g.ops))
		for j, op := range g.ops {
			ops[j] = op.coq
		}
		items[i] = fmt.Sprintf("(%s, [%s], %s)", CqBool(g.evm), strings.Join(ops, "; "), o)
	}
	return "[" + strings.Join(items, ";\n      ") + "]"
}

type burn struct {
	addr common.Address
	amt  []*big.Int
}

func cqBurns(bs []burn) string {
	items := make([]string, len(bs))
	for i, b := range bs {
		items[i] = fmt.Sprintf("(%s, %s)", az(b.addr), cqCoins(b.amt))
	}
	return "[" + strings.Join(items, "; ") + "]"
}

// everything observed around one StateDB life
type run struct {
	w         *world
	db        *recDB
	evm       *corevm.EVM
	groups    []group
	seen      map[common.Address]bool
	failed    bool
	suicided  map[common.Address]bool
	preTx     []obsEntry
	preCom    []obsEntry
	post      []obsEntry
	nextPre   uint64
	nextPost  uint64
	burns     []burn
	blockMode bool
	locked    map[common.Address][]*big.Int // SDK LockedCoins(block time) of the accounts before the transaction
	touched   map[common.Address]bool       // the StateDB's touched set when the commit starts
	rawInit   []rawEntry                    // raw x/evm store before the transaction, before the commit, after it
	rawPre    []rawEntry
	rawPost   []rawEntry
}

func newRun(w *world, from common.Address) *run {
	c := w.c
	cfg, err := c.App.EvmKeeper.EVMConfig(w.ctx, nil)
	require.NoError(w.t, err)
	inner := evmvm.NewStateDB(w.ctx, cfg.CoinBase, c.App.EvmKeeper, c.App.AccountKeeper, c.App.BankKeeper)
	db := &recDB{CStateDB: inner, t: w.t, ct: w.ct, cpc: w.cpc}
	to := common.Address{}
	msg := ethtypes.NewMessage(from, &to, 0, Bi(0), 10_000_000, Bi(0), Bi(0), Bi(0), nil, nil, false)
	evm := c.App.EvmKeeper.NewEVM(w.ctx, msg, cfg, nil, db)
	return &run{w: w, db: db, evm: evm, seen: map[common.Address]bool{}}
}

// do runs one action, records the group of StateDB operations it made and what is visible afterwards.
func (r *run) do(evm bool, focus common.Address, desc string, f func()) bool {
	if r.failed {
		return false
	}
	r.w.add(focus, "op-target")
	p := CatchPanic(f)
	g := group{evm: evm, ops: r.db.take(), focus: focus, desc: desc}
	if p != nil {
		g.panic = true
		r.failed = true
		if os.Getenv("VERIF_DEBUG") != "" {
			fmt.Printf("DEBUG panic in %q: %v\n", desc, p)
		}
		r.w.side.Count("op_panic:" + strings.Fields(desc)[0])
	} else {
		g.exist = r.db.Exist(focus)
		g.empty = r.db.Empty(focus)
		g.bal = r.db.GetBalance(focus)
		g.nonce = r.db.GetNonce(focus)
		if h := r.db.GetCodeHash(focus); h != (common.Hash{}) && !evmtypes.IsEmptyCodeHash(h) {
			g.code = codeIDOfHash(r.w.ct, h.Bytes())
		}
	}
	r.groups = append(r.groups, g)
	return p == nil
}

var moduleEvm = common.BytesToAddress(authtypes.NewModuleAddress(evmtypes.ModuleName).Bytes())

// finish observes the pre-commit state through the StateDB's own context, commits, and observes the result.
func (r *run) finish() {
	w := r.w
	// every address mentioned by a recorded operation belongs to the universe
	for _, g := range r.groups {
		for _, o := range g.ops {
			for _, a := range o.addrs {
				w.add(a, "op-created")
			}
		}
	}
	// ... and so does every address that owns a key of the raw x/evm store, before or after
	r.rawInit = rawScan(w.c, w.ctx)
	for _, a := range rawOwners(r.rawInit) {
		w.add(a, "raw-store-owner")
	}
	var cur sdk.Context
	if !r.failed {
		cur = r.db.GetCurrentContext()
		r.rawPre = rawScan(w.c, cur)
		for _, a := range rawOwners(r.rawPre) {
			w.add(a, "raw-store-owner")
		}
	}
	sort.Slice(w.addrs, func(i, j int) bool { return strings.Compare(w.addrs[i].Hex(), w.addrs[j].Hex()) < 0 })
	var err error
	r.nextPre, err = w.c.App.AccountKeeper.AccountNumber.Peek(w.ctx)
	require.NoError(w.t, err)
	r.locked = map[common.Address][]*big.Int{}
	for _, a := range w.addrs {
		r.preTx = append(r.preTx, observe(w.t, w.c, w.ctx, w.denoms, w.ct, a, r.rawInit))
		r.locked[a] = lockedAt(w.c.App.AccountKeeper.GetAccount(w.ctx, a.Bytes()), w.denoms, w.now)
	}
	if r.failed {
		return
	}
	r.suicided = map[common.Address]bool{}
	r.touched = map[common.Address]bool{}
	for a := range r.db.ForTest_CloneTouched() {
		r.touched[a] = true
	}
	for _, a := range w.addrs {
		r.suicided[a] = r.db.HasSuicided(a)
		r.preCom = append(r.preCom, observe(w.t, w.c, cur, w.denoms, w.ct, a, r.rawPre))
	}
	em := cur.EventManager()
	n0 := len(em.Events())
	p := CatchPanic(func() { require.NoError(w.t, r.db.CommitMultiStore(true)) })
	if p != nil {
		r.failed = true
		w.side.Count("commit_panic")
		return
	}
	for _, ev := range em.Events()[n0:] {
		if ev.Type != "coin_spent" {
			continue
		}
		var spender, amount string
		for _, at := range ev.Attributes {
			if at.Key == "spender" {
				spender = at.Value
			}
			if at.Key == "amount" {
				amount = at.Value
			}
		}
		sp, err := sdk.AccAddressFromBech32(spender)
		require.NoError(w.t, err)
		if common.BytesToAddress(sp.Bytes()) == moduleEvm {
			continue // second half of the burn: the evm module account spends what it received
		}
		cs, err := sdk.ParseCoinsNormalized(amount)
		require.NoError(w.t, err)
		v, ok := coinsVec(w.denoms, cs)
		require.True(w.t, ok)
		r.burns = append(r.burns, burn{common.BytesToAddress(sp.Bytes()), v})
	}
	r.nextPost, err = w.c.App.AccountKeeper.AccountNumber.Peek(w.ctx)
	require.NoError(w.t, err)
	r.rawPost = rawScan(w.c, w.ctx)
	for _, a := range rawOwners(r.rawPost) {
		if !w.inUni[a] {
			// cannot happen with the code as it is: the commit only deletes. Reported, not fatal.
			w.side.Hit("C15/destroy/commit_changed_kept_address", fmt.Sprintf("the commit created x/evm keys of %s, an address no operation named", a.Hex()), &caseOut{Index: -1, Uni: w.describe()})
		}
	}
	for _, a := range w.addrs {
		r.post = append(r.post, observe(w.t, w.c, w.ctx, w.denoms, w.ct, a, r.rawPost))
	}
}

func (r *run) coqCase() string {
	w := r.w
	final := "None"
	if !r.failed {
		final = fmt.Sprintf("(Some (%s,\n      %d, %s,\n      %s,\n      %s))", cqEntries(r.post), r.nextPost, cqBurns(r.burns),
			cqRaw(r.rawPre, w.ct), cqRaw(r.rawPost, w.ct))
	}
	var bl []string
	for _, b := range w.blocked {
		bl = append(bl, az(b))
	}
	return fmt.Sprintf("(mkCase %d [%s] [0; 1; 2]\n      %s\n      %d\n      %s\n      %s\n      %s)",
		w.now.Unix(), strings.Join(bl, "; "), cqEntries(r.preTx), r.nextPre, cqRaw(r.rawInit, w.ct), cqGroups(r.groups), final)
}

// ---------------------------------------------------------------- the oracle (property text, no model)

func isProtected(a *obsAcc, now int64) (bool, string) {
	if a == nil {
		return false, ""
	}
	switch a.Kind {
	case kModule:
		return true, "module"
	case kVesting:
		if a.Sched.VKind == 4 {
			return true, "permanent_locked"
		}
		if a.Sched.End > now {
			return true, "vesting_unexpired_at_block_time"
		}
	}
	return false, ""
}

func sameIdentity(a, b *obsAcc) bool {
	if a == nil || b == nil {
		return a == b
	}
	x, y := *a, *b
	x.Nonce, y.Nonce = 0, 0
	if x.Sched != nil && y.Sched != nil {
		xs, ys := *x.Sched, *y.Sched
		xs.DelV, ys.DelV = nil, nil
		x.Sched, y.Sched = &xs, &ys
	}
	return cqAcc(&x) == cqAcc(&y)
}

func zeroVec(v []*big.Int) bool {
	for _, x := range v {
		if x.Sign() != 0 {
			return false
		}
	}
	return true
}

// what an address holds, all stores: the raw x/evm view and the keeper's view both count
func holdsCodeOrStorage(e obsEntry) bool {
	return e.Code != 0 || len(e.Stor) != 0 || e.RawCode != 0 || len(e.RawStor) != 0
}

func trulyEmpty(e obsEntry) bool {
	return !holdsCodeOrStorage(e) && zeroVec(e.Bal) && (e.Acc == nil || e.Acc.Nonce == 0)
}

func nothingLeft(e obsEntry) bool {
	return e.Acc == nil && zeroVec(e.Bal) && !holdsCodeOrStorage(e)
}

func (r *run) oracle(idx int, co *caseOut, onlyEvm bool) {
	w := r.w
	// 0. the keeper's per-address view (ForEachStorage, GetCodeHash) is the raw store's content, at every observation
	for _, obs := range [][]obsEntry{r.preTx, r.preCom, r.post} {
		for _, e := range obs {
			if e.Code != e.RawCode || !sameSlots(e.Stor, e.RawStor) {
				w.side.Hit("C15/destroy/keeper_view_differs_from_raw_store",
					fmt.Sprintf("case %d: %s (%s): %s", idx, e.Addr.Hex(), boundaryLabel(e.Addr), entryFull(e)), co)
			}
		}
	}
	if r.failed {
		// "a transaction that would do so fails as a whole": nothing of the StateDB reached the parent state
		// (mode B compares with the state after the real block instead)
		if !r.blockMode {
			raw := rawScan(w.c, w.ctx)
			for i, a := range w.addrs {
				now := observe(w.t, w.c, w.ctx, w.denoms, w.ct, a, raw)
				if !entryEqual(now, r.preTx[i]) {
					w.side.Hit("C15/destroy/failed_tx_left_trace", fmt.Sprintf("case %d: %s changed although the StateDB panicked", idx, a.Hex()), co)
				}
			}
		}
		return
	}
	nowUnix := w.now.Unix()
	for i, a := range w.addrs {
		pre, com, post := r.preTx[i], r.preCom[i], r.post[i]
		// 1. protected accounts survive with their type, schedule and account number (a staking delegation may move
		// coins into the delegated-vesting counter: compared without it)
		if prot, why := isProtected(pre.Acc, nowUnix); prot && !sameIdentity(pre.Acc, post.Acc) {
			w.side.Hit("C15/destroy/protected_destroyed/"+why,
				fmt.Sprintf("case %d: %s (%s) was %s and is %s after a successful StateDB commit at block time %d", idx, a.Hex(), w.desc[a], cqAcc(pre.Acc), cqAcc(post.Acc), nowUnix), co)
		}
		// 2. locked coins stay (the SDK's LockedCoins at block time is the reference): still in the balance, or
		// delegated and counted as delegated vesting
		if pre.Acc != nil && pre.Acc.Kind == kVesting {
			locked := r.locked[a]
			for d := range w.denoms {
				floor := pre.Bal[d]
				if locked[d].Cmp(floor) < 0 {
					floor = locked[d]
				}
				have := new(big.Int).Set(post.Bal[d])
				if post.Acc != nil && post.Acc.Kind == kVesting {
					have.Add(have, new(big.Int).Sub(post.Acc.Sched.DelV[d], pre.Acc.Sched.DelV[d]))
				}
				if have.Cmp(floor) < 0 {
					w.side.Hit("C15/destroy/locked_spent",
						fmt.Sprintf("case %d: %s denom %d balance %s -> %s, locked %s", idx, a.Hex(), d, pre.Bal[d], post.Bal[d], locked[d]), co)
				}
			}
		}
		// 3. the commit deletes exactly the touched addresses that self-destructed or are empty IN THE STATE THE COMMIT
		// STARTS FROM (whatever the StateDB or anybody else wrote before), removes them completely, and changes
		// nothing else. The expectation uses the stores only: bank, auth, the raw x/evm scan.
		expectDeleted := r.touched[a] && (r.suicided[a] || trulyEmpty(com))
		switch {
		case expectDeleted && !nothingLeft(post):
			if entryEqual(post, com) {
				w.side.Hit("C15/destroy/touched_empty_or_selfdestructed_kept",
					fmt.Sprintf("case %d: %s (%s) suicided=%v is still %s", idx, a.Hex(), boundaryLabel(a), r.suicided[a], entryFull(post)), co)
			} else {
				w.side.Hit("C15/destroy/incomplete_destroy",
					fmt.Sprintf("case %d: %s (%s) left behind %s", idx, a.Hex(), boundaryLabel(a), entryFull(post)), co)
			}
		case !expectDeleted && com.Acc != nil && post.Acc == nil:
			w.side.Hit("C15/destroy/nonempty_deleted",
				fmt.Sprintf("case %d: %s touched=%v deleted at commit while it did not self-destruct and held: %s", idx, a.Hex(), r.touched[a], entryFull(com)), co)
		case !expectDeleted && !entryEqual(post, com):
			w.side.Hit("C15/destroy/commit_changed_kept_address",
				fmt.Sprintf("case %d: %s touched=%v was %s when the commit started and is %s", idx, a.Hex(), r.touched[a], entryFull(com), entryFull(post)), co)
		}
		// 3b. traces made only by the interpreter never replace an account that has code or a non-zero nonce
		if onlyEvm && pre.Acc != nil && (pre.RawCode != 0 || pre.Acc.Nonce != 0) && !r.suicided[a] {
			if post.Acc == nil || post.Acc.Num != pre.Acc.Num || post.RawCode != pre.RawCode || post.Acc.Nonce < pre.Acc.Nonce || len(post.RawStor) < len(pre.RawStor) {
				w.side.Hit("C15/destroy/contract_replaced",
					fmt.Sprintf("case %d: %s was %s and is %s without having self-destructed", idx, a.Hex(), entryFull(pre), entryFull(post)), co)
			}
		}
		// 4. whatever had an account before or at commit time and has none now is gone completely
		if (pre.Acc != nil || com.Acc != nil) && post.Acc == nil && !nothingLeft(post) {
			w.side.Hit("C15/destroy/incomplete_destroy",
				fmt.Sprintf("case %d: %s (%s) left behind %s", idx, a.Hex(), boundaryLabel(a), entryFull(post)), co)
		}
	}
}
