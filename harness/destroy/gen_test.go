package destroy

import (
	"fmt"
	"math/big"
	"os"
	"strings"
	"testing"
	"time"

	sdkmath "cosmossdk.io/math"
	sdk "github.com/cosmos/cosmos-sdk/types"
	authtypes "github.com/cosmos/cosmos-sdk/x/auth/types"
	"github.com/ethereum/go-ethereum/common"
	"github.com/ethereum/go-ethereum/core"
	ethtypes "github.com/ethereum/go-ethereum/core/types"
	corevm "github.com/ethereum/go-ethereum/core/vm"
	ethcrypto "github.com/ethereum/go-ethereum/crypto"
	"github.com/holiman/uint256"
	"github.com/stretchr/testify/require"

	"github.com/EscanBE/evermint/v12/crypto/ethsecp256k1"
	itu "github.com/EscanBE/evermint/v12/integration_test_util"
	itutiltypes "github.com/EscanBE/evermint/v12/integration_test_util/types"
	evmkeeper "github.com/EscanBE/evermint/v12/x/evm/keeper"
	evmtypes "github.com/EscanBE/evermint/v12/x/evm/types"

	. "verifharness/hx"
)

// block times on both sides of any plausible wall clock (the wall clock itself is never read)
var blockTimes = []time.Time{
	time.Date(1995, 6, 1, 12, 0, 0, 0, time.UTC),
	time.Date(2001, 1, 1, 0, 0, 0, 0, time.UTC),
	time.Date(2015, 3, 3, 3, 3, 3, 0, time.UTC),
	time.Date(2030, 1, 1, 0, 0, 0, 0, time.UTC),
	time.Date(2045, 7, 7, 7, 7, 7, 0, time.UTC),
	time.Date(2100, 12, 31, 23, 59, 59, 0, time.UTC),
}

var runtimeR1 = []byte{0x5b, 0x00}

var maxKey = new(big.Int).Sub(new(big.Int).Lsh(big.NewInt(1), 256), big.NewInt(1))

type createSpec struct {
	caller common.Address
	salt   *big.Int
	init   []byte
	kind   int
	addr   common.Address
}

// a CREATE2 at an address of a boundary class: the salt is mined (deterministic in caller, init code, class, start)
func newSpec(r *Rng, caller common.Address, beneficiary common.Address) createSpec {
	sp := createSpec{caller: caller, kind: r.Intn(5)}
	sp.init = initCode(sp.kind, beneficiary)
	cls := randClass(r)
	if cls == clsLastFFFF && !r.Chance(25) {
		cls = clsLastFF
	}
	sp.salt = mineSalt(caller, sp.init, cls, int64(1+r.Intn(3)))
	sp.addr = ethcrypto.CreateAddress2(sp.caller, salt32(sp.salt), ethcrypto.Keccak256(sp.init))
	return sp
}

func initCode(kind int, beneficiary common.Address) []byte {
	switch kind {
	case 0:
		return initReturning(nil, nil)
	case 1:
		return initReturning(runtimeR1, nil)
	case 2:
		return initReturning(runtimeR1, (&asm{}).sstore(1, 7).sstore(0, 9))
	case 3:
		return (&asm{}).revert().b
	default:
		return (&asm{}).selfdestruct(beneficiary).b
	}
}

func salt32(s *big.Int) [32]byte {
	var x [32]byte
	s.FillBytes(x[:])
	return x
}

func newWorld(t *testing.T, c *Chain, ctx sdk.Context, now time.Time, r *Rng, side *Sidecar) *world {
	return &world{t: t, c: c, ctx: ctx, denoms: denomsOf(c), ct: newCodeTable(), inUni: map[common.Address]bool{},
		desc: map[common.Address]string{}, now: now, r: r, side: side}
}

// target of a touch or a foreign write: the case's hot address, or any address of the universe
func (w *world) target() common.Address {
	if w.r.Chance(45) {
		return w.hot
	}
	return w.pick()
}

// program for a planted contract (address self): a few steps over the universe. Touches (calls, self-destruct
// beneficiaries of children), reads that ask the StateDB about an address, and writes of other modules (ERC-20 and
// staking precompiles) aim at the same few addresses, so that "touched / asked about, then changed behind the back of
// the StateDB" happens within one call tree in both orders.
func (w *world) program(self common.Address, specs []createSpec, depth int) ([]byte, string) {
	if w.r.Chance(30) {
		return w.scenarioProgram(self)
	}
	a := &asm{}
	var d []string
	n := 1 + w.r.Intn(5)
	for i := 0; i < n; i++ {
		switch x := w.r.Intn(100); {
		case x < 18:
			to := w.target()
			v := Bi(int64(w.r.Intn(3)))
			if w.r.Chance(40) {
				v = Bi(0)
			}
			a.call(to, v)
			d = append(d, fmt.Sprintf("call(%s,%s)", w.desc[to], v))
		case x < 28:
			if w.r.Bool() {
				k, v := byte(1+w.r.Intn(6)), byte(w.r.Intn(3))
				a.sstore(k, v)
				d = append(d, fmt.Sprintf("sstore(%d,%d)", k, v))
			} else {
				k := boundaryKey(w.r)
				a.sstoreBig(k, Bi(int64(1+w.r.Intn(3))))
				d = append(d, fmt.Sprintf("sstore(%s)", k.Text(16)))
			}
		case x < 36:
			if len(specs) > 0 {
				// the spec's address assumes its own caller; from another contract the address differs (recorded anyway)
				sp := specs[w.r.Intn(len(specs))]
				a.create2(sp.init, Bi(int64(w.r.Intn(2))), sp.salt)
				d = append(d, fmt.Sprintf("create2(init%d,salt%s)", sp.kind, sp.salt))
			}
		case x < 42:
			k := w.r.Intn(5)
			a.create(initCode(k, w.target()), Bi(int64(w.r.Intn(2))))
			d = append(d, fmt.Sprintf("create(init%d)", k))
		case x < 58:
			// a child that self-destructs toward the target: Empty(target) is asked (gas) and the target is touched
			to := w.target()
			v := Bi(0)
			if w.r.Chance(25) {
				v = Bi(1)
			}
			a.createSD(to, v)
			d = append(d, fmt.Sprintf("createSD(->%s,%s)", w.desc[to], v))
		case x < 68:
			to := w.target()
			k := w.r.Intn(3)
			a.probe(to, k)
			d = append(d, fmt.Sprintf("%s(%s)", []string{"extcodehash", "balance", "extcodesize"}[k], w.desc[to]))
		default:
			cc := w.cpcCall(w.ctx, self)
			a.callData(cc.to, Bi(0), cc.data)
			d = append(d, cc.desc)
		}
	}
	switch w.r.Intn(6) {
	case 0, 1:
		b := w.target()
		a.selfdestruct(b)
		d = append(d, "selfdestruct->"+w.desc[b])
	case 2:
		a.revert()
		d = append(d, "revert")
	default:
		a.stop()
	}
	return a.b, strings.Join(d, ";")
}

// wipeProgram: a contract that writes a few more slots (boundary keys among them) and self-destructs; its storage was
// planted with many slots. Everything under its address must be gone afterwards, and nothing of its neighbours.
func (w *world) wipeProgram(safe common.Address) ([]byte, string) {
	a := &asm{}
	var d []string
	for i := w.r.Intn(3); i > 0; i-- {
		k := boundaryKey(w.r)
		a.sstoreBig(k, Bi(int64(1+w.r.Intn(3))))
		d = append(d, "sstore("+k.Text(16)+")")
	}
	b := safe
	if w.r.Chance(30) {
		b = w.target()
	}
	a.selfdestruct(b)
	d = append(d, "selfdestruct->"+w.desc[b])
	return a.b, "WIPE " + strings.Join(d, ";")
}

// plantNeighbours gives every unused member of the boundary family storage (and sometimes code): they are the
// addresses next to the wiped one in key order.
func (w *world) plantNeighbours() {
	for _, a := range w.fam {
		if w.inUni[a] {
			continue
		}
		w.add(a, "")
		if w.r.Bool() {
			w.desc[a] = "neighbour:" + w.plantRole(a, rStorageOnly, nil)
		} else {
			w.plantRole(a, rContract, runtimeR1)
			w.plantStorage(a)
			w.desc[a] = "neighbour:contract"
		}
	}
	w.fam = nil
}

// scenarioProgram: the hot address is asked about and touched, and LATER in the same call tree paid (or, when it
// holds coins, drained) through a precompile, with no revert in between; a few unrelated steps are mixed in.
func (w *world) scenarioProgram(self common.Address) ([]byte, string) {
	a := &asm{}
	var d []string
	x := w.hot
	noise := func() {
		switch w.r.Intn(4) {
		case 0:
			k, v := byte(1+w.r.Intn(6)), byte(1+w.r.Intn(2))
			a.sstore(k, v)
			d = append(d, fmt.Sprintf("sstore(%d,%d)", k, v))
		case 1:
			to := w.pick()
			a.probe(to, w.r.Intn(3))
			d = append(d, "probe("+w.desc[to]+")")
		}
	}
	// the contract can pay in every denomination
	w.setBalance(self, []*big.Int{Bi(5000), Bi(5000), Bi(5000)}, true)
	dn := w.r.Intn(len(w.denoms))
	bal := w.c.App.BankKeeper.GetBalance(w.ctx, x.Bytes(), w.denoms[dn]).Amount.BigInt()
	drain := bal.Sign() > 0 && w.r.Chance(60)
	touch := func() {
		if w.r.Chance(40) {
			k := w.r.Intn(3)
			a.probe(x, k)
			d = append(d, fmt.Sprintf("%s(hot)", []string{"extcodehash", "balance", "extcodesize"}[k]))
		}
		switch w.r.Intn(3) {
		case 0:
			a.call(x, Bi(0))
			d = append(d, "call(hot,0)")
		default:
			a.createSD(x, Bi(0))
			d = append(d, "createSD(->hot,0)")
		}
	}
	pay := func() {
		amt := Bi(int64(1 + w.r.Intn(100)))
		a.callData(w.cpc.erc20[dn], Bi(0), cdTransfer(x, amt))
		d = append(d, fmt.Sprintf("erc20[%d].transfer(hot,%s)", dn, amt))
	}
	drainAll := func() {
		// everything the hot address holds, in every denomination, leaves it through transferFrom / burnFrom
		for i := range w.denoms {
			b := w.c.App.BankKeeper.GetBalance(w.ctx, x.Bytes(), w.denoms[i]).Amount.BigInt()
			if b.Sign() == 0 {
				continue
			}
			w.c.App.CPCKeeper.SetErc20CpcAllowance(w.ctx, x, self, new(big.Int).Lsh(Bi(1), 200))
			if w.r.Chance(70) {
				a.callData(w.cpc.erc20[i], Bi(0), cdTransferFrom(x, self, b))
				d = append(d, fmt.Sprintf("erc20[%d].transferFrom(hot,self,%s)", i, b))
			} else {
				a.callData(w.cpc.erc20[i], Bi(0), cdBurnFrom(x, b))
				d = append(d, fmt.Sprintf("erc20[%d].burnFrom(hot,%s)", i, b))
			}
		}
	}
	noise()
	if drain {
		if w.r.Bool() {
			touch()
			noise()
			drainAll()
		} else {
			drainAll()
			noise()
			touch()
		}
		w.side.Count("scenario_program:touch+drain")
	} else {
		if w.r.Chance(80) {
			touch()
			noise()
			pay()
		} else {
			pay()
			noise()
			touch()
		}
		w.side.Count("scenario_program:touch+pay")
	}
	noise()
	a.stop()
	return a.b, "SCENARIO " + strings.Join(d, ";")
}

func (w *world) describe() []string {
	var out []string
	for _, a := range w.addrs {
		out = append(out, a.Hex()[2:10]+"="+w.desc[a])
	}
	return out
}

// ---------------------------------------------------------------- mode A

// pickHot chooses the case's hot address: preferably one that holds nothing (absent, empty base account, ended
// vesting account with everything delegated) or only coins - the ones whose emptiness other modules can change.
func (w *world) pickHot(cands []common.Address) {
	var light []common.Address
	for _, a := range cands {
		d := w.desc[a]
		if strings.HasPrefix(d, "absent") || strings.HasPrefix(d, "empty-base") || strings.HasPrefix(d, "balance-without") || strings.HasPrefix(d, "vesting") {
			light = append(light, a)
		}
	}
	if len(light) > 0 && w.r.Chance(70) {
		w.hot = light[w.r.Intn(len(light))]
	} else {
		w.hot = cands[w.r.Intn(len(cands))]
	}
	w.side.Count("hot:" + strings.SplitN(w.desc[w.hot], " ", 2)[0])
}

// nBig > 0: the case is a "big wipe" - the first planted contract holds exactly `nBig` storage slots (written through the
// keeper before the transaction: no gas, no interpreter) when it is destroyed (Suicide + commit, CreateAccount over it, or
// its own SELFDESTRUCT program); the counts sit around the batch-like boundaries 128 / 256 (see bigSlotCounts).
func caseA(t *testing.T, c *Chain, cpc *cpcEnv, idx int, r *Rng, side *Sidecar, cases *CasesFile, nBig int) {
	now := blockTimes[r.Intn(len(blockTimes))].Add(time.Duration(r.Intn(1000)) * time.Second)
	ctx, _ := c.Ctx().WithBlockTime(now).CacheContext()
	ctx = ctx.WithEventManager(sdk.NewEventManager())
	w := newWorld(t, c, ctx, now, r, side)
	w.cpc = cpc
	if r.Chance(65) {
		w.fam = boundaryFamily(r)
	}
	w.addModules()

	callers := []common.Address{plainAddr(0), plainAddr(1)}
	for _, k := range callers {
		w.add(k, "caller")
		// the caller's nonce decides where its CREATE lands: mined onto a boundary class half of the time
		nonce := uint64(r.Intn(3))
		if r.Bool() {
			nonce = mineNonce(k, randClass(r), uint64(r.Intn(3)))
		}
		w.plantBase(k, nonce)
		w.setBalance(k, []*big.Int{new(big.Int).Add(Bi(1_000_000), w.amount()), w.amount(), w.amount()}, true)
	}
	// contracts with programs get their addresses first: boundary addresses when the case has a family
	nProg := 1 + r.Intn(3)
	var progs []common.Address
	for i := 0; i < nProg; i++ {
		a := w.nextAddr()
		w.add(a, "contract")
		progs = append(progs, a)
	}
	var cands []common.Address
	nPlain := 3 + r.Intn(4)
	for i := 0; i < nPlain; i++ {
		a := w.nextAddr()
		ro := w.randomRole()
		w.add(a, "")
		w.desc[a] = w.plantRole(a, ro, nil)
		cands = append(cands, a)
		side.Count("role:" + strings.SplitN(w.desc[a], " ", 2)[0])
		side.Count(boundaryLabel(a))
	}
	w.pickHot(cands)
	if r.Chance(30) {
		w.add(common.BytesToAddress([]byte{1}), "precompile-ecrecover")
	}
	// addresses that CREATE2 / CREATE will hit, planted with accounts of every kind
	var specs []createSpec
	for i := 0; i < 3; i++ {
		sp := newSpec(r, callers[r.Intn(2)], w.hot)
		specs = append(specs, sp)
		if !w.inUni[sp.addr] {
			w.add(sp.addr, "")
			ro := w.randomRole()
			if r.Chance(35) {
				ro = rAbsent
			}
			w.desc[sp.addr] = "create2-target:" + w.plantRole(sp.addr, ro, nil)
			side.Count("role:create2-target:" + strings.SplitN(strings.TrimPrefix(w.desc[sp.addr], "create2-target:"), " ", 2)[0])
			side.Count("create2-target-" + boundaryLabel(sp.addr))
		}
	}
	for _, k := range callers {
		if r.Chance(40) {
			a := ethcrypto.CreateAddress(k, c.App.AccountKeeper.GetAccount(ctx, k.Bytes()).GetSequence())
			if !w.inUni[a] {
				w.add(a, "")
				w.desc[a] = "create-target:" + w.plantRole(a, w.randomRole(), nil)
				side.Count("create-target-" + boundaryLabel(a))
			}
		}
	}
	// the programs over this universe
	wipe := r.Chance(22) || nBig > 0
	for i, a := range progs {
		w.plantRole(a, rContract, []byte{0})
		code, d := w.program(a, specs, 0)
		if wipe && i == 0 {
			code, d = w.wipeProgram(callers[0])
			if nBig > 0 {
				code, d = (&asm{}).selfdestruct(callers[0]).b, "WIPE selfdestruct->caller"
				w.plantBigStorage(a, nBig)
				d = fmt.Sprintf("%s slots=%d", d, nBig)
				side.Count(fmt.Sprintf("scenario_big_wipe:slots=%d", nBig))
			} else {
				w.plantStorage(a)
				w.plantStorage(a)
			}
			side.Count("scenario_wipe:" + boundaryLabel(a))
		}
		w.plantCode(a, code)
		w.desc[a] = "contract{" + d + "}"
		side.Count("contract-" + boundaryLabel(a))
	}
	if wipe {
		w.plantNeighbours()
	}
	w.ct.id(runtimeR1)

	run := newRun(w, callers[0])
	onlyEvm := r.Chance(35)
	nAct := 2 + r.Intn(7)
	var acts []string
	anyAddr := func() common.Address { return w.target() }
	if wipe {
		v := progs[0]
		var d string
		switch r.Intn(6) {
		case 0:
			d = "Suicide " + w.desc[v]
			run.do(false, v, d, func() { run.db.Suicide(v) })
		case 1:
			d = "CreateAccount " + w.desc[v]
			if run.do(false, v, d, func() { run.db.CreateAccount(v) }) {
				// CreateAccount over an existing account destroys it first (DestroyAccount, at once, not at commit): the
				// re-made account starts with nothing of the old one in the x/evm store
				left, code := 0, !evmtypes.IsEmptyCodeHash(c.App.EvmKeeper.GetCodeHash(run.db.GetCurrentContext(), v.Bytes()))
				for _, kv := range rawScan(c, run.db.GetCurrentContext()) {
					if len(kv.Key) >= 21 && kv.Key[0] == rawPfxStorage && common.BytesToAddress(kv.Key[1:21]) == v {
						left++
					}
				}
				if left > 0 || code {
					side.Hit("C15/destroy/incomplete_destroy", fmt.Sprintf("case %d: CreateAccount over %s (%s): the account it replaced left %d storage slots (code hash left: %v) to the new one",
						idx, v.Hex(), w.desc[v], left, code), &caseOut{Index: idx, Mode: "A", Now: now.Unix(), Uni: w.describe(), Actions: []string{d}})
				}
			}
		default:
			from := callers[r.Intn(2)]
			d = "evm.Call " + w.desc[v] + " value 0"
			run.do(true, v, d, func() {
				run.db.AddAddressToAccessList(from)
				run.db.AddAddressToAccessList(v)
				_, _, _ = run.evm.Call(corevm.AccountRef(from), v, nil, 5_000_000, Bi(0))
			})
		}
		acts = append(acts, d)
		side.Count("action:" + strings.Fields(d)[0])
		nAct = r.Intn(4)
		if nBig > 0 {
			nAct = r.Intn(2) * r.Intn(3) // mostly nothing afterwards: the big wipe is what the case is about
		}
		onlyEvm = false
	} else if r.Chance(16) {
		acts = scriptedLocked(w, run, callers)
		nAct = r.Intn(3)
		onlyEvm = false
	} else if r.Chance(30) {
		acts = scriptedA(w, run, callers, progs)
		nAct = r.Intn(3) // a few random actions after the script
		onlyEvm = false
	}
	for i := 0; i < nAct && !run.failed; i++ {
		x := r.Intn(130)
		if onlyEvm {
			x = 60 + r.Intn(58)
		}
		a := anyAddr()
		var d string
		switch {
		case x < 7:
			d = "CreateAccount " + w.desc[a]
			run.do(false, a, d, func() { run.db.CreateAccount(a) })
		case x < 10:
			d = "DestroyAccount " + w.desc[a]
			run.do(false, a, d, func() { run.db.DestroyAccount(a) })
		case x < 20:
			v := w.amount()
			if r.Chance(35) {
				v = Bi(0) // a touch
			}
			d = fmt.Sprintf("AddBalance %s %s", w.desc[a], v)
			run.do(false, a, d, func() { run.db.AddBalance(a, v) })
		case x < 30:
			bal := run.db.GetBalance(a)
			var v *big.Int
			switch r.Intn(6) {
			case 0:
				v = Bi(0)
			case 1:
				v = bal
			case 2:
				v = Badd(bal, 1)
			case 3:
				v = new(big.Int).Div(bal, Bi(2))
			case 4:
				v = Bi(1)
			default:
				// exactly the spendable amount, or one more
				l := lockedAt(c.App.AccountKeeper.GetAccount(run.db.GetCurrentContext(), a.Bytes()), w.denoms, now)[0]
				v = new(big.Int).Sub(bal, l)
				if v.Sign() < 0 {
					v = Bi(1)
				} else if r.Bool() {
					v = Badd(v, 1)
				}
			}
			d = fmt.Sprintf("SubBalance %s %s", w.desc[a], v)
			run.do(false, a, d, func() { run.db.SubBalance(a, v) })
		case x < 36:
			n := uint64([]int{0, 1, 5}[r.Intn(3)])
			d = fmt.Sprintf("SetNonce %s %d", w.desc[a], n)
			run.do(false, a, d, func() { run.db.SetNonce(a, n) })
		case x < 40:
			code := [][]byte{nil, runtimeR1}[r.Intn(2)]
			d = fmt.Sprintf("SetCode %s len=%d", w.desc[a], len(code))
			run.do(false, a, d, func() { run.db.SetCode(a, code) })
		case x < 46:
			k, v := Bi(int64(1+r.Intn(6))), int64(r.Intn(3))
			if r.Chance(40) {
				k = boundaryKey(r)
			}
			d = fmt.Sprintf("SetState %s %s %d", w.desc[a], k.Text(16), v)
			run.do(false, a, d, func() { run.db.SetState(a, common.BigToHash(k), common.BigToHash(Bi(v))) })
		case x < 54:
			d = "Suicide " + w.desc[a]
			run.do(false, a, d, func() { run.db.Suicide(a) })
		case x < 57:
			d = "Snapshot"
			run.do(false, a, d, func() { run.db.Snapshot() })
		case x < 60:
			id := run.db.nsnaps - 1 - r.Intn(2)
			if r.Chance(10) {
				id = run.db.nsnaps + r.Intn(2) // unknown id: the StateDB panics
			}
			if id < 0 && !r.Chance(10) {
				continue
			}
			d = fmt.Sprintf("RevertTo %d", id)
			run.do(false, a, d, func() { run.db.RevertToSnapshot(id) })
		case x < 82:
			from := callers[r.Intn(2)]
			v := []*big.Int{Bi(0), Bi(0), Bi(1), Bi(int64(1 + r.Intn(500))), Bi(2_000_000)}[r.Intn(5)]
			if r.Chance(50) {
				a = progs[r.Intn(len(progs))]
			}
			d = fmt.Sprintf("evm.Call %s value %s", w.desc[a], v)
			run.do(true, a, d, func() {
				// what PrepareAccessList does for a transaction's sender and destination
				run.db.AddAddressToAccessList(from)
				run.db.AddAddressToAccessList(a)
				_, _, _ = run.evm.Call(corevm.AccountRef(from), a, nil, 5_000_000, v)
			})
		case x < 100:
			// a precompile called by any address of the universe: the coins move through the bank keeper on the StateDB's
			// current context; the caller is touched by the interpreter, the recipient is not
			from := a
			if r.Chance(60) {
				from = w.payer(run.db.GetCurrentContext(), r.Intn(len(w.denoms)))
			}
			cc := w.cpcCall(run.db.GetCurrentContext(), from)
			d = fmt.Sprintf("evm.CallCpc from %s: %s", w.desc[from], cc.desc)
			run.do(true, w.hot, d, func() {
				n0 := len(run.db.log)
				_, _, err := run.evm.Call(corevm.AccountRef(from), cc.to, cc.data, 5_000_000, Bi(0))
				// a top-level precompile call that failed was reverted to the state it started from (only the
				// precompile's own account was created and touched in between): the bank write it asked for must be
				// one the model refuses there too. A successful one was recorded from its log.
				if cc.op != "" {
					if err != nil {
						run.db.addForeign(fmt.Sprintf(cc.op, false), cc.addrs...)
						side.Count("cpc_call:refused")
					} else {
						recorded := false
						for _, o := range run.db.log[n0:] {
							recorded = recorded || o.coq == fmt.Sprintf(cc.op, true)
						}
						if !recorded {
							// a successful call that did not report the write it was asked for: the model applies it anyway
							// and the stores decide
							run.db.addForeign(fmt.Sprintf(cc.op, true), cc.addrs...)
							side.Count("cpc_call:done-without-log")
						}
						side.Count("cpc_call:done")
					}
				}
			})
		case x < 110:
			sp := specs[r.Intn(len(specs))]
			v := Bi(int64(r.Intn(3)))
			d = fmt.Sprintf("evm.Create2 init%d at %s value %s", sp.kind, w.desc[sp.addr], v)
			run.do(true, sp.addr, d, func() {
				s := salt32(sp.salt)
				_, _, _, _ = run.evm.Create2(corevm.AccountRef(sp.caller), sp.init, 5_000_000, v, new(uint256.Int).SetBytes(s[:]))
			})
		case x < 114:
			from := callers[r.Intn(2)]
			target := ethcrypto.CreateAddress(from, run.db.GetNonce(from))
			k := r.Intn(5)
			d = fmt.Sprintf("evm.Create init%d at %s", k, w.desc[target])
			run.do(true, target, d, func() {
				_, _, _, _ = run.evm.Create(corevm.AccountRef(from), initCode(k, w.hot), 5_000_000, Bi(int64(r.Intn(2))))
			})
		case x < 118:
			// only asks: Exist / Empty / GetBalance / GetNonce / GetCodeHash of an address (compared with the model)
			d = "Probe " + w.desc[a]
			run.do(true, a, d, func() {})
		default:
			// another module writes on the StateDB's current context
			dn := r.Intn(len(w.denoms))
			from, to := w.payer(run.db.GetCurrentContext(), dn), a
			if r.Chance(30) {
				from = w.target()
			}
			amt := w.foreignAmount(run.db.GetCurrentContext(), from, dn)
			if r.Chance(5) {
				amt = Bi(0)
			}
			switch y := r.Intn(10); {
			case y < 6:
				d = fmt.Sprintf("Foreign.Send %s -> %s denom %d %s", w.desc[from], w.desc[to], dn, amt)
				run.do(false, to, d, func() { run.foreignSend(from, to, dn, amt) })
			case y < 8:
				d = fmt.Sprintf("Foreign.Burn %s denom %d %s", w.desc[from], dn, amt)
				run.do(false, from, d, func() { run.foreignBurn(from, dn, amt) })
			default:
				d = fmt.Sprintf("Foreign.Delegate %s denom %d %s", w.desc[from], dn, amt)
				run.do(false, from, d, func() { run.foreignDelegate(from, dn, amt) })
			}
		}
		acts = append(acts, d)
		side.Count("action:" + strings.Fields(d)[0])
	}
	run.finish()
	finishCase(t, idx, "A", run, acts, onlyEvm, side, cases)
}

// scriptedA: the hot address is touched (and asked about) and LATER paid by a write of another module - or, when it
// holds coins, drained by one - within one StateDB life, no revert in between. Every step is an ordinary action.
func scriptedA(w *world, run *run, callers, progs []common.Address) []string {
	r, x := w.r, w.hot
	var acts []string
	act := func(evm bool, focus common.Address, d string, f func()) {
		if run.failed {
			return
		}
		run.do(evm, focus, d, f)
		acts = append(acts, d)
		w.side.Count("action:" + strings.Fields(d)[0])
	}
	cur := func() sdk.Context { return run.db.GetCurrentContext() }
	touch := func() {
		switch r.Intn(5) {
		case 0:
			act(false, x, "AddBalance "+w.desc[x]+" 0", func() { run.db.AddBalance(x, Bi(0)) })
		case 1:
			act(false, x, "SubBalance "+w.desc[x]+" 0", func() { run.db.SubBalance(x, Bi(0)) })
		case 2:
			from := callers[r.Intn(2)]
			act(true, x, "evm.Call "+w.desc[x]+" value 0", func() {
				run.db.AddAddressToAccessList(from)
				run.db.AddAddressToAccessList(x)
				_, _, _ = run.evm.Call(corevm.AccountRef(from), x, nil, 5_000_000, Bi(0))
			})
		default:
			// a contract without balance self-destructs toward the hot address
			from := callers[r.Intn(2)]
			act(true, x, "evm.Create selfdestruct->"+w.desc[x], func() {
				_, _, _, _ = run.evm.Create(corevm.AccountRef(from), (&asm{}).selfdestruct(x).b, 5_000_000, Bi(0))
			})
		}
		if r.Chance(40) {
			act(true, x, "Probe "+w.desc[x], func() {})
		}
	}
	noise := func() {
		if r.Chance(50) {
			a := w.pick()
			if a != x {
				act(true, a, "Probe "+w.desc[a], func() {})
			}
		}
	}
	pay := func() {
		dn := r.Intn(len(w.denoms))
		from := w.payer(cur(), dn)
		if from == x {
			from = callers[0]
			dn = 0
		}
		amt := Bi(int64(1 + r.Intn(50)))
		if r.Bool() {
			act(false, x, fmt.Sprintf("Foreign.Send %s -> %s denom %d %s", w.desc[from], w.desc[x], dn, amt), func() { run.foreignSend(from, x, dn, amt) })
		} else {
			act(true, x, fmt.Sprintf("evm.CallCpc from %s: erc20[%d].transfer(hot,%s)", w.desc[from], dn, amt), func() {
				_, _, _ = run.evm.Call(corevm.AccountRef(from), w.cpc.erc20[dn], cdTransfer(x, amt), 5_000_000, Bi(0))
			})
		}
	}
	drain := func() {
		for dn := range w.denoms {
			dn := dn
			b := w.c.App.BankKeeper.GetBalance(cur(), x.Bytes(), w.denoms[dn]).Amount.BigInt()
			if b.Sign() == 0 {
				continue
			}
			to := callers[1]
			switch r.Intn(4) {
			case 0:
				act(false, x, fmt.Sprintf("Foreign.Send %s -> caller denom %d %s", w.desc[x], dn, b), func() { run.foreignSend(x, to, dn, b) })
			case 1:
				act(false, x, fmt.Sprintf("Foreign.Burn %s denom %d %s", w.desc[x], dn, b), func() { run.foreignBurn(x, dn, b) })
			case 2:
				act(false, x, fmt.Sprintf("Foreign.Delegate %s denom %d %s", w.desc[x], dn, b), func() { run.foreignDelegate(x, dn, b) })
			default:
				// the hot address itself calls the precompile (the interpreter touches the caller)
				act(true, x, fmt.Sprintf("evm.CallCpc from %s: erc20[%d].transfer(caller,%s)", w.desc[x], dn, b), func() {
					_, _, _ = run.evm.Call(corevm.AccountRef(x), w.cpc.erc20[dn], cdTransfer(to, b), 5_000_000, Bi(0))
				})
			}
		}
	}
	holds := !w.c.App.BankKeeper.GetAllBalances(cur(), x.Bytes()).IsZero()
	noise()
	switch {
	case holds && r.Chance(65):
		if r.Bool() {
			touch()
			noise()
			drain()
		} else {
			drain()
			noise()
			touch()
		}
		w.side.Count("scenario_script:touch+drain")
	case r.Chance(80):
		touch()
		noise()
		pay()
		w.side.Count("scenario_script:touch+pay")
	default:
		pay()
		noise()
		touch()
		w.side.Count("scenario_script:pay+touch")
	}
	noise()
	return acts
}

// scriptedLocked: somebody tries to move coins of a vesting account that are locked at block time - through the StateDB
// (SubBalance, a value transfer) or through another module (bank send, ERC-20 precompile, burn) - taking a part of
// the locked amount only, so that the account is not empty afterwards and the commit has no reason to fail.
func scriptedLocked(w *world, run *run, callers []common.Address) []string {
	r := w.r
	var acts []string
	cur := run.db.GetCurrentContext()
	type cand struct {
		a common.Address
		d int
	}
	var cs []cand
	for _, a := range w.addrs {
		l := lockedAt(w.c.App.AccountKeeper.GetAccount(cur, a.Bytes()), w.denoms, w.now)
		for d := range w.denoms {
			if l[d].Sign() > 0 && w.c.App.BankKeeper.GetBalance(cur, a.Bytes(), w.denoms[d]).Amount.BigInt().Cmp(l[d]) >= 0 {
				cs = append(cs, cand{a, d})
			}
		}
	}
	if len(cs) == 0 {
		return acts
	}
	c := cs[r.Intn(len(cs))]
	for _, k := range cs {
		if k.d == 0 && r.Chance(60) {
			c = k // the EVM denomination: the StateDB's own paths apply
			break
		}
	}
	x, d := c.a, c.d
	bal := w.c.App.BankKeeper.GetBalance(cur, x.Bytes(), w.denoms[d]).Amount.BigInt()
	locked := lockedAt(w.c.App.AccountKeeper.GetAccount(cur, x.Bytes()), w.denoms, w.now)[d]
	spendable := new(big.Int).Sub(bal, locked)
	// a part of the locked amount: 1, half, all but one (all of it when only 1 is locked)
	part := []*big.Int{Bi(1), new(big.Int).Rsh(locked, 1), Bsub(locked, 1)}[r.Intn(3)]
	if part.Sign() <= 0 {
		part = Bi(1)
	}
	amt := new(big.Int).Add(spendable, part)
	to := callers[1]
	act := func(evm bool, dsc string, f func()) {
		if run.failed {
			return
		}
		run.do(evm, x, dsc, f)
		acts = append(acts, dsc)
		w.side.Count("action:" + strings.Fields(dsc)[0])
	}
	kind := r.Intn(10)
	if d == 0 && r.Bool() {
		kind = r.Intn(4)
	}
	if d != 0 && kind < 4 {
		kind = 4 + r.Intn(6)
	}
	switch {
	case kind < 2:
		act(false, fmt.Sprintf("SubBalance %s %s", w.desc[x], amt), func() { run.db.SubBalance(x, amt) })
	case kind < 4:
		act(true, fmt.Sprintf("evm.Call from %s value %s", w.desc[x], amt), func() {
			_, _, _ = run.evm.Call(corevm.AccountRef(x), to, nil, 5_000_000, amt)
		})
	case kind < 6:
		act(false, fmt.Sprintf("Foreign.Send %s -> caller denom %d %s", w.desc[x], d, amt), func() { run.foreignSend(x, to, d, amt) })
	case kind < 8:
		act(true, fmt.Sprintf("evm.CallCpc from %s: erc20[%d].transfer(caller,%s)", w.desc[x], d, amt), func() {
			_, _, err := run.evm.Call(corevm.AccountRef(x), w.cpc.erc20[d], cdTransfer(to, amt), 5_000_000, Bi(0))
			if err != nil {
				run.db.addForeign(fmt.Sprintf("XSend %s %s %d %s false", az(x), az(to), d, cz(amt)), x, to)
			}
		})
	default:
		act(false, fmt.Sprintf("Foreign.Burn %s denom %d %s", w.desc[x], d, amt), func() { run.foreignBurn(x, d, amt) })
	}
	w.side.Count(fmt.Sprintf("scenario_script:spend-locked kind=%d", kind/2))
	return acts
}

func finishCase(t *testing.T, idx int, mode string, run *run, acts []string, onlyEvm bool, side *Sidecar, cases *CasesFile) {
	w := run.w
	co := &caseOut{Index: idx, Mode: mode, Now: w.now.Unix(), Uni: w.describe(), Actions: acts}
	deleted, protReached, foreign := 0, false, false
	// who was paid / drained by a write of another module that is still in effect when the commit starts is not
	// known from the trace alone (reverts); the histogram counts what the trace mentions
	paid, drained := map[common.Address]bool{}, map[common.Address]bool{}
	for _, g := range run.groups {
		for _, o := range g.ops {
			switch {
			case strings.HasPrefix(o.coq, "XSend") && strings.HasSuffix(o.coq, "true"):
				drained[o.addrs[0]], paid[o.addrs[1]], foreign = true, true, true
				side.Count("foreign_op:send")
			case strings.HasPrefix(o.coq, "XBurn") && strings.HasSuffix(o.coq, "true"):
				drained[o.addrs[0]], foreign = true, true
				side.Count("foreign_op:burn")
			case strings.HasPrefix(o.coq, "XDelegate") && strings.HasSuffix(o.coq, "true"):
				drained[o.addrs[0]], foreign = true, true
				side.Count("foreign_op:delegate")
			case strings.HasPrefix(o.coq, "X") && strings.HasSuffix(o.coq, "false"):
				side.Count("foreign_op:refused")
			}
		}
	}
	if run.failed {
		co.Outcome = "FAILED_AS_A_WHOLE"
	} else {
		co.Outcome = "OK"
		for i, a := range w.addrs {
			com, post := run.preCom[i], run.post[i]
			gone := (com.Acc != nil || holdsCodeOrStorage(com) || !zeroVec(com.Bal)) && nothingLeft(post)
			if gone {
				deleted++
				if run.suicided[a] {
					side.Count("deleted:selfdestructed")
				} else {
					side.Count("deleted:touched-empty")
				}
				if len(com.RawStor) > 0 {
					side.Count("deleted-with-storage:" + boundaryLabel(a))
					side.Count("deleted-with-storage-slots:" + slotBucket(len(com.RawStor)))
				}
				if drained[a] && !run.suicided[a] {
					side.Count("scenario:drained_by_foreign_write_then_deleted_as_empty")
				}
			}
			if run.touched[a] && paid[a] && !run.suicided[a] && post.Acc != nil && !zeroVec(post.Bal) && run.preTx[i].Acc == nil {
				side.Count("scenario:fresh_address_touched_and_paid_by_foreign_write_kept")
			}
		}
	}
	for i := range w.addrs {
		if p, why := isProtected(run.preTx[i].Acc, w.now.Unix()); p {
			for _, g := range run.groups {
				for _, o := range g.ops {
					for _, x := range o.addrs {
						if x == w.addrs[i] {
							protReached = true
							side.Count("protected_touched:" + why)
						}
					}
				}
			}
		}
	}
	side.Count("outcome:" + mode + ":" + co.Outcome)
	run.oracle(idx, co, onlyEvm)
	term := run.coqCase()
	cases.Add(term)
	side.Case(idx, term, run.failed || deleted > 0 || protReached || foreign, co)
}

// ---------------------------------------------------------------- mode B: real transactions in real blocks

func caseB(t *testing.T, idx int, r *Rng, side *Sidecar, cases *CasesFile) {
	start := blockTimes[3+r.Intn(3)].Add(time.Duration(r.Intn(100000)) * time.Second)
	c := NewChain(t, start)
	defer c.S.Cleanup()
	{
		ctx := c.Ctx()
		p := c.App.FeeMarketKeeper.GetParams(ctx)
		p.BaseFee = sdkmath.OneInt() // gas price 1: the fee is gas limit x 1, small against every balance used here
		p.MinGasPrice = sdkmath.LegacyZeroDec()
		require.NoError(t, c.App.FeeMarketKeeper.SetParams(ctx, p))
	}
	cpc := deployCpcs(t, c)
	now := c.Time
	w := newWorld(t, c, c.Ctx(), now, r, side)
	w.cpc = cpc
	if r.Chance(65) {
		w.fam = boundaryFamily(r)
	}
	// app module accounts are blocked addresses; their balances move in Begin/EndBlock, so they are
	// call targets here but not part of the compared universe
	for _, name := range []string{"fee_collector", "evm", "distribution", "bonded_tokens_pool", "cpc", "vauth"} {
		w.blocked = append(w.blocked, common.BytesToAddress(authtypes.NewModuleAddress(name).Bytes()))
	}
	// sender: an ordinary wallet, or a vesting account whose key the harness holds
	var sender *itutiltypes.TestAccount
	vestingSender := r.Chance(40)
	if vestingSender {
		key := make([]byte, 32)
		for i := range key {
			key[i] = byte(r.U64())
		}
		key[0] &= 0x7f
		sender = itu.NewTestAccount(t, &ethsecp256k1.PrivKey{Key: key})
		w.add(sender.GetEthAddress(), "")
		w.desc[sender.GetEthAddress()] = "sender:" + w.plantVesting(sender.GetEthAddress(), 1+r.Intn(4))
		w.setBalance(sender.GetEthAddress(), []*big.Int{Bi(3_000_000 + int64(r.Intn(2))*int64(r.Intn(5000))), Bi(0), Bi(0)}, true) // free coins for the fee
	} else {
		sender = c.S.WalletAccounts.Number(1 + r.Intn(3))
		w.add(sender.GetEthAddress(), "sender:wallet")
	}
	from := sender.GetEthAddress()
	nonce := c.Nonce(w.ctx, from)
	var progs []common.Address
	for i := 0; i < 2; i++ {
		a := w.nextAddr()
		w.add(a, "contract")
		progs = append(progs, a)
	}
	var cands []common.Address
	nPlain := 3 + r.Intn(3)
	for i := 0; i < nPlain; i++ {
		a := w.nextAddr()
		w.add(a, "")
		w.desc[a] = w.plantRole(a, w.randomRole(), nil)
		cands = append(cands, a)
		side.Count("role:" + strings.SplitN(w.desc[a], " ", 2)[0])
		side.Count(boundaryLabel(a))
	}
	w.pickHot(cands)
	createTarget := ethcrypto.CreateAddress(from, nonce)
	var specs []createSpec
	for i := 0; i < 2; i++ {
		sp := newSpec(r, progs[0], w.hot)
		specs = append(specs, sp)
		if !w.inUni[sp.addr] {
			w.add(sp.addr, "")
			ro := w.randomRole()
			if r.Chance(35) {
				ro = rAbsent
			}
			w.desc[sp.addr] = "create2-target:" + w.plantRole(sp.addr, ro, nil)
			side.Count("create2-target-" + boundaryLabel(sp.addr))
		}
	}
	wipe := r.Chance(22)
	for i, a := range progs {
		w.plantRole(a, rContract, []byte{0})
		code, d := w.program(a, specs, 0)
		if wipe && i == 0 {
			code, d = w.wipeProgram(from)
			w.plantStorage(a)
			w.plantStorage(a)
			side.Count("scenario_wipe:" + boundaryLabel(a))
		}
		w.plantCode(a, code)
		w.desc[a] = "contract{" + d + "}"
		side.Count("contract-" + boundaryLabel(a))
	}
	if wipe {
		w.plantNeighbours()
	}
	w.ct.id(runtimeR1)

	// the transaction
	var to *common.Address
	var data []byte
	var d string
	txKind := r.Intn(12)
	if wipe {
		txKind = 100
	}
	switch x := txKind; {
	case x == 100:
		a := progs[0]
		to = &a
		d = "call " + w.desc[a]
	case x < 2:
		k := r.Intn(5)
		data = initCode(k, w.hot)
		if !w.inUni[createTarget] {
			w.add(createTarget, "")
			ro := w.randomRole()
			if r.Chance(40) {
				ro = rAbsent
			}
			w.desc[createTarget] = "create-target:" + w.plantRole(createTarget, ro, nil)
		}
		d = fmt.Sprintf("create tx init%d at %s", k, w.desc[createTarget])
	case x < 3 && len(w.blocked) > 0:
		a := w.blocked[r.Intn(len(w.blocked))]
		to = &a
		d = "call app module account " + a.Hex()[2:10]
	case x < 5:
		// the sender calls a precompile itself
		cc := w.cpcCall(w.ctx, from)
		a := cc.to
		to, data = &a, cc.data
		d = "callcpc " + cc.desc
	case x < 10:
		a := progs[r.Intn(len(progs))]
		to = &a
		d = "call " + w.desc[a]
	default:
		a := w.target()
		to = &a
		d = "call " + w.desc[a]
	}
	const gasLimit = 3_000_000
	bal := new(big.Int).Sub(c.EvmBal(w.ctx, from), Bi(gasLimit)) // what is left for the value after the fee
	if bal.Sign() < 0 {
		bal = Bi(0)
	}
	locked := lockedAt(c.App.AccountKeeper.GetAccount(w.ctx, from.Bytes()), w.denoms, now)[0]
	var value *big.Int
	switch r.Intn(6) {
	case 0, 1:
		value = Bi(0)
	case 2:
		value = Bi(1)
	case 3:
		value = new(big.Int).Sub(bal, locked) // everything spendable
		if value.Sign() < 0 {
			value = Bi(1)
		}
	case 4:
		value = Badd(new(big.Int).Sub(bal, locked), 1) // one more than spendable: locked coins
		if value.Sign() <= 0 || value.Cmp(bal) > 0 {
			value = bal
		}
	default:
		value = Bi(int64(1 + r.Intn(1000)))
	}
	if value.Cmp(bal) > 0 {
		value = bal // keep the message admissible for TransitionDb (clause 6); more than spendable is still possible
	}
	if strings.HasPrefix(d, "callcpc") {
		value = Bi(0)
	}
	if to != nil && value.Sign() == 0 && !w.inUni[*to] && !strings.HasPrefix(d, "callcpc") {
		// a zero-value call only touches; whether an app module account is empty at that moment depends on
		// Begin/EndBlock coin movements the branch run does not see, so such targets are always paid
		a := w.pick()
		to = &a
		d = "call " + w.desc[a]
	}
	d += fmt.Sprintf(" value %s (balance %s, locked %s)", value, bal, locked)
	side.Count("tx:" + strings.Fields(d)[0])

	// 1. the real TransitionDb on a branch, with the recording wrapper. The ante handler has moved the fee
	// (gas limit x price) to the fee collector before the message runs; bank enforces locked coins there too.
	branch, _ := c.Ctx().CacheContext()
	w.ctx = branch.WithEventManager(sdk.NewEventManager())
	fee := sdk.NewCoins(sdk.NewCoin(c.Denom(), sdkmath.NewInt(gasLimit)))
	if err := c.App.BankKeeper.SendCoinsFromAccountToModule(w.ctx, from.Bytes(), authtypes.FeeCollectorName, fee); err != nil {
		side.Count("tx:sender_cannot_pay_fee")
		return
	}
	run := newRun(w, from)
	run.blockMode = true
	msg := ethtypes.NewMessage(from, to, nonce, value, gasLimit, Bi(1), Bi(1), Bi(1), data, nil, false)
	focus := from
	if to != nil {
		focus = *to
	} else {
		focus = createTarget
	}
	run.do(true, focus, d, func() {
		gp := core.GasPool(gasLimit)
		_, err := evmkeeper.ApplyMessage(run.evm, msg, &gp, func(st *evmkeeper.StateTransition) { st.SenderPaidTheFee = true })
		require.NoError(t, err, "generated message must pass the consensus checks of TransitionDb")
	})
	run.finish()

	// 2. the same message as a signed transaction in a real block
	bz, _, err := c.EthTxBytes(sender, &ethtypes.LegacyTx{Nonce: nonce, GasPrice: Bi(1), Gas: gasLimit, To: to, Value: value, Data: data})
	require.NoError(t, err)
	res := c.RunBlock([][]byte{bz})
	require.Len(t, res.TxResults, 1)
	code := res.TxResults[0].Code
	co := &caseOut{Index: idx, Mode: "B", Now: now.Unix(), Uni: w.describe(), Actions: []string{d}, Outcome: fmt.Sprintf("code=%d dryrun_failed=%v", code, run.failed)}
	after := c.Ctx()
	if (code != 0) != run.failed {
		side.Hit("C15/destroy/blocks/outcome_differs_from_statedb_run",
			fmt.Sprintf("case %d: block result code %d (%s), TransitionDb on the same state failed=%v", idx, code, res.TxResults[0].Log, run.failed), co)
	} else {
		volatile := map[common.Address]bool{}
		for _, b := range w.blocked {
			volatile[b] = true // Begin/EndBlock move the app module accounts' coins
		}
		rawAfter := rawScan(c, after)
		for _, a := range rawOwners(rawAfter) {
			if !w.inUni[a] {
				side.Hit("C15/destroy/blocks/state_differs_from_statedb_run", fmt.Sprintf("case %d: %s owns x/evm keys after the block and was never named by the recorded run", idx, a.Hex()), co)
			}
		}
		for i, a := range w.addrs {
			got := observe(t, c, after, w.denoms, w.ct, a, rawAfter)
			want := run.preTx[i]
			if !run.failed {
				want = run.post[i]
			} else if a == from && want.Acc != nil {
				// ante: the nonce of a failed transaction is consumed
				cp := *want.Acc
				cp.Nonce++
				want.Acc = &cp
			}
			if volatile[a] {
				got.Bal, want.Bal = nil, nil
			}
			if !entryEqual(got, want) {
				sig := "C15/destroy/blocks/state_differs_from_statedb_run"
				if run.failed {
					sig = "C15/destroy/failed_tx_left_trace"
				}
				side.Hit(sig, fmt.Sprintf("case %d: %s is %s after the block, expected %s", idx, a.Hex(), entryFull(got), entryFull(want)), co)
			}
		}
	}
	w.ctx = branch // the oracle and the Coq case are about the recorded run (equal to the block, checked above)
	finishCase(t, idx, "B", run, []string{d}, true, side, cases)
}

// ---------------------------------------------------------------- big storage

// bigSlotCounts: how many storage slots the destroyed contract of the i-th big-wipe case holds. The counts sit on and
// next to powers of two (a storage wipe done in rounds / pages / batches goes wrong at such a count, if anywhere) plus
// a few between and far above. Quick tier: a handful per run (128+1 and 256+1 always, the rest rotates with the seed);
// thorough tier: all of them, several times (destroyed in the three different ways).
func bigSlotCounts(seed uint64, thorough bool) []int {
	all := []int{129, 257, 1, 127, 128, 255, 256, 300, 64, 65, 512, 513, 1000}
	if thorough {
		var out []int
		for k := 0; k < 3; k++ {
			out = append(out, all...)
		}
		return append(out, 1024, 1025, 2049)
	}
	out := []int{129, 257}
	rest := all[2:10]
	for k := 0; k < 4; k++ {
		out = append(out, rest[(int(seed%8)+3*k)%len(rest)])
	}
	return out
}

// plantBigStorage makes the account hold exactly n storage slots, written through the keeper (as genesis import and
// earlier transactions would have left them): small consecutive keys, keccak-scattered keys and the two extreme keys.
func (w *world) plantBigStorage(a common.Address, n int) {
	k := w.c.App.EvmKeeper
	var old []common.Hash
	k.ForEachStorage(w.ctx, a, func(key, _ common.Hash) bool { old = append(old, key); return true })
	for _, key := range old {
		k.SetState(w.ctx, a, key, nil)
	}
	have := map[common.Hash]bool{}
	set := func(key common.Hash) {
		if len(have) < n && !have[key] {
			have[key] = true
			k.SetState(w.ctx, a, key, common.BigToHash(Bi(int64(1+len(have)%250))).Bytes())
		}
	}
	set(common.Hash{})
	set(common.BigToHash(maxKey))
	scatter := w.r.Bool()
	for i := 0; len(have) < n; i++ {
		if scatter && i%2 == 1 {
			set(ethcrypto.Keccak256Hash(a.Bytes(), Bi(int64(i)).Bytes()))
		} else {
			set(common.BigToHash(Bi(int64(1000 + i))))
		}
	}
}

func slotBucket(n int) string {
	switch {
	case n <= 1:
		return "1"
	case n < 127:
		return "2-126"
	case n <= 129:
		return fmt.Sprintf("%d", n)
	case n < 255:
		return "130-254"
	case n <= 257:
		return fmt.Sprintf("%d", n)
	case n < 1000:
		return "258-999"
	}
	return "1000+"
}

// ---------------------------------------------------------------- the driver

func TestDriverDestroy(t *testing.T) {
	dir := OutDir(t)
	seed := EnvSeed()
	n := EnvInt("VERIF_N", 400)
	rng := NewRng(seed)
	side := NewSidecar("destroy", seed,
		"case = universe (module accounts, the five vesting kinds around the block time, base, contract, storage-only, balance-only, absent addresses, 3 denominations; "+
			"addresses and storage keys with boundary bytes: ..ff, ..00, ff suffixes of every length, all ff, neighbours in address order, mined CREATE2 salts / CREATE nonces) + "+
			"a sequence of raw cStateDb calls, real evm.Call/Create/Create2 runs on assembled bytecode, calls of the ERC-20 / staking precompiles and bank writes of another module on the StateDB's current context (mode A), "+
			"or one real transaction executed by TransitionDb on a branch and again in a real block (mode B: one case in eight); "+
			"the raw x/evm store is scanned before the transaction, before the commit and after it; "+
			"big-wipe cases: destroyed contracts holding 1/64/65/127/128/129/255/256/257/300/512/513/1000 storage slots written through the keeper; "+
			"block times 1995..2100, the wall clock is never read; non-trivial = an account was deleted at commit, or the transaction failed as a whole, or an operation named a protected account, or another module wrote; distinct by the full case term")
	cases := NewCases(dir, "From Coq Require Import List ZArith Bool.\nFrom Evm Require Import Destroy DestroyX CorrBase CorrDestroy.", "destroy_mismatches")
	c := NewChain(t, time.Time{})
	cpc := deployCpcs(t, c)
	bigs := bigSlotCounts(seed, os.Getenv("VERIF_TIER") == "thorough")
	for i := 0; i < n; i++ {
		r := rng.Fork(uint64(i))
		if i%8 == 7 {
			caseB(t, i, r, side, cases)
		} else {
			nBig := 0
			if i%8 == 3 && i/8 < len(bigs) {
				nBig = bigs[i/8]
			}
			caseA(t, c, cpc, i, r, side, cases, nBig)
		}
	}
	cases.Write(t, 40)
	side.Write(t, dir)
}
