package destroy

import (
	"fmt"
	"math/big"
	"strings"
	"testing"
	"time"

	sdkmath "cosmossdk.io/math"
	sdk "github.com/cosmos/cosmos-sdk/types"
	authtypes "github.com/cosmos/cosmos-sdk/x/auth/types"
	"github.com/ethereum/go-ethereum/common"
	"github.com/ethereum/go-ethereum/core"
	ethtypes "github.com/ethereum/go-ethereum/core/types"
	corevm "github.com/ethereum/go-ethereum/core/vm"
	ethcrypto "github.com/ethereum/go-ethereum/crypto"
	"github.com/holiman/uint256"
	"github.com/stretchr/testify/require"

	"github.com/EscanBE/evermint/v12/crypto/ethsecp256k1"
	itu "github.com/EscanBE/evermint/v12/integration_test_util"
	itutiltypes "github.com/EscanBE/evermint/v12/integration_test_util/types"
	evmkeeper "github.com/EscanBE/evermint/v12/x/evm/keeper"

	. "verifharness/hx"
)

// block times on both sides of any plausible wall clock (the wall clock itself is never read)
var blockTimes = []time.Time{
	time.Date(1995, 6, 1, 12, 0, 0, 0, time.UTC),
	time.Date(2001, 1, 1, 0, 0, 0, 0, time.UTC),
	time.Date(2015, 3, 3, 3, 3, 3, 0, time.UTC),
	time.Date(2030, 1, 1, 0, 0, 0, 0, time.UTC),
	time.Date(2045, 7, 7, 7, 7, 7, 0, time.UTC),
	time.Date(2100, 12, 31, 23, 59, 59, 0, time.UTC),
}

var runtimeR1 = []byte{0x5b, 0x00}

type createSpec struct {
	caller common.Address
	salt   byte
	init   []byte
	kind   int
	addr   common.Address
}

func initCode(kind int, beneficiary common.Address) []byte {
	switch kind {
	case 0:
		return initReturning(nil, nil)
	case 1:
		return initReturning(runtimeR1, nil)
	case 2:
		return initReturning(runtimeR1, (&asm{}).sstore(1, 7))
	case 3:
		return (&asm{}).revert().b
	default:
		return (&asm{}).selfdestruct(beneficiary).b
	}
}

func salt32(s byte) [32]byte {
	var x [32]byte
	x[31] = s
	return x
}

func newWorld(t *testing.T, c *Chain, ctx sdk.Context, now time.Time, r *Rng, side *Sidecar) *world {
	return &world{t: t, c: c, ctx: ctx, denoms: denomsOf(c), ct: newCodeTable(), inUni: map[common.Address]bool{},
		desc: map[common.Address]string{}, now: now, r: r, side: side}
}

// program for a planted contract: a few steps over the universe
func (w *world) program(specs []createSpec, depth int) ([]byte, string) {
	a := &asm{}
	var d []string
	n := 1 + w.r.Intn(3)
	for i := 0; i < n; i++ {
		switch w.r.Intn(6) {
		case 0, 1:
			to := w.pick()
			v := Bi(int64(w.r.Intn(3)))
			a.call(to, v)
			d = append(d, fmt.Sprintf("call(%s,%s)", w.desc[to], v))
		case 2:
			k, v := byte(1+w.r.Intn(6)), byte(w.r.Intn(3))
			a.sstore(k, v)
			d = append(d, fmt.Sprintf("sstore(%d,%d)", k, v))
		case 3:
			if len(specs) > 0 {
				// the spec's address assumes its own caller; from another contract the address differs (recorded anyway)
				sp := specs[w.r.Intn(len(specs))]
				a.create2(sp.init, Bi(int64(w.r.Intn(2))), sp.salt)
				d = append(d, fmt.Sprintf("create2(init%d,salt%d)", sp.kind, sp.salt))
			}
		case 4:
			k := w.r.Intn(5)
			a.create(initCode(k, w.pick()), Bi(int64(w.r.Intn(2))))
			d = append(d, fmt.Sprintf("create(init%d)", k))
		default:
		}
	}
	switch w.r.Intn(6) {
	case 0, 1:
		b := w.pick()
		a.selfdestruct(b)
		d = append(d, "selfdestruct->"+w.desc[b])
	case 2:
		a.revert()
		d = append(d, "revert")
	default:
		a.stop()
	}
	return a.b, strings.Join(d, ";")
}

func (w *world) describe() []string {
	var out []string
	for _, a := range w.addrs {
		out = append(out, a.Hex()[2:10]+"="+w.desc[a])
	}
	return out
}

// ---------------------------------------------------------------- mode A

func caseA(t *testing.T, c *Chain, idx int, r *Rng, side *Sidecar, cases *CasesFile) {
	now := blockTimes[r.Intn(len(blockTimes))].Add(time.Duration(r.Intn(1000)) * time.Second)
	ctx, _ := c.Ctx().WithBlockTime(now).CacheContext()
	ctx = ctx.WithEventManager(sdk.NewEventManager())
	w := newWorld(t, c, ctx, now, r, side)
	w.addModules()

	callers := []common.Address{plainAddr(0), plainAddr(1)}
	for _, k := range callers {
		w.add(k, "caller")
		w.plantBase(k, uint64(r.Intn(3)))
		w.setBalance(k, []*big.Int{new(big.Int).Add(Bi(1_000_000), w.amount()), w.amount(), Bi(0)}, true)
	}
	nPlain := 3 + r.Intn(4)
	for i := 0; i < nPlain; i++ {
		a := plainAddr(2 + i)
		ro := w.randomRole()
		w.add(a, "")
		w.desc[a] = w.plantRole(a, ro, nil)
		side.Count("role:" + strings.SplitN(w.desc[a], " ", 2)[0])
	}
	if r.Chance(30) {
		w.add(common.BytesToAddress([]byte{1}), "precompile-ecrecover")
	}
	// addresses that CREATE2 / CREATE will hit, planted with accounts of every kind
	var specs []createSpec
	for i := 0; i < 3; i++ {
		sp := createSpec{caller: callers[r.Intn(2)], salt: byte(1 + r.Intn(2)), kind: r.Intn(5)}
		sp.init = initCode(sp.kind, plainAddr(2))
		sp.addr = ethcrypto.CreateAddress2(sp.caller, salt32(sp.salt), ethcrypto.Keccak256(sp.init))
		specs = append(specs, sp)
		if !w.inUni[sp.addr] {
			w.add(sp.addr, "")
			ro := w.randomRole()
			if r.Chance(35) {
				ro = rAbsent
			}
			w.desc[sp.addr] = "create2-target:" + w.plantRole(sp.addr, ro, nil)
			side.Count("role:create2-target:" + strings.SplitN(strings.TrimPrefix(w.desc[sp.addr], "create2-target:"), " ", 2)[0])
		}
	}
	for _, k := range callers {
		if r.Chance(40) {
			a := ethcrypto.CreateAddress(k, c.App.AccountKeeper.GetAccount(ctx, k.Bytes()).GetSequence())
			if !w.inUni[a] {
				w.add(a, "")
				w.desc[a] = "create-target:" + w.plantRole(a, w.randomRole(), nil)
			}
		}
	}
	// contracts with programs over this universe
	nProg := 1 + r.Intn(3)
	for i := 0; i < nProg; i++ {
		a := plainAddr(20 + i)
		code, d := w.program(specs, 0)
		w.add(a, "")
		w.plantRole(a, rContract, code)
		w.desc[a] = "contract{" + d + "}"
	}
	w.ct.id(runtimeR1)

	run := newRun(w, callers[0])
	onlyEvm := r.Chance(35)
	nAct := 2 + r.Intn(6)
	var acts []string
	for i := 0; i < nAct && !run.failed; i++ {
		x := r.Intn(100)
		if onlyEvm {
			x = 60 + r.Intn(40)
		}
		a := w.pick()
		var d string
		switch {
		case x < 7:
			d = "CreateAccount " + w.desc[a]
			run.do(false, a, d, func() { run.db.CreateAccount(a) })
		case x < 10:
			d = "DestroyAccount " + w.desc[a]
			run.do(false, a, d, func() { run.db.DestroyAccount(a) })
		case x < 20:
			v := w.amount()
			d = fmt.Sprintf("AddBalance %s %s", w.desc[a], v)
			run.do(false, a, d, func() { run.db.AddBalance(a, v) })
		case x < 30:
			bal := run.db.GetBalance(a)
			var v *big.Int
			switch r.Intn(6) {
			case 0:
				v = Bi(0)
			case 1:
				v = bal
			case 2:
				v = Badd(bal, 1)
			case 3:
				v = new(big.Int).Div(bal, Bi(2))
			case 4:
				v = Bi(1)
			default:
				// exactly the spendable amount, or one more
				l := lockedAt(c.App.AccountKeeper.GetAccount(run.db.GetCurrentContext(), a.Bytes()), w.denoms, now)[0]
				v = new(big.Int).Sub(bal, l)
				if v.Sign() < 0 {
					v = Bi(1)
				} else if r.Bool() {
					v = Badd(v, 1)
				}
			}
			d = fmt.Sprintf("SubBalance %s %s", w.desc[a], v)
			run.do(false, a, d, func() { run.db.SubBalance(a, v) })
		case x < 36:
			n := uint64([]int{0, 1, 5}[r.Intn(3)])
			d = fmt.Sprintf("SetNonce %s %d", w.desc[a], n)
			run.do(false, a, d, func() { run.db.SetNonce(a, n) })
		case x < 40:
			code := [][]byte{nil, runtimeR1}[r.Intn(2)]
			d = fmt.Sprintf("SetCode %s len=%d", w.desc[a], len(code))
			run.do(false, a, d, func() { run.db.SetCode(a, code) })
		case x < 46:
			k, v := int64(1+r.Intn(6)), int64(r.Intn(3))
			d = fmt.Sprintf("SetState %s %d %d", w.desc[a], k, v)
			run.do(false, a, d, func() { run.db.SetState(a, common.BigToHash(Bi(k)), common.BigToHash(Bi(v))) })
		case x < 54:
			d = "Suicide " + w.desc[a]
			run.do(false, a, d, func() { run.db.Suicide(a) })
		case x < 57:
			d = "Snapshot"
			run.do(false, a, d, func() { run.db.Snapshot() })
		case x < 60:
			id := run.db.nsnaps - 1 - r.Intn(2)
			if r.Chance(10) {
				id = run.db.nsnaps + r.Intn(2) // unknown id: the StateDB panics
			}
			if id < 0 && !r.Chance(10) {
				continue
			}
			d = fmt.Sprintf("RevertTo %d", id)
			run.do(false, a, d, func() { run.db.RevertToSnapshot(id) })
		case x < 88:
			from := callers[r.Intn(2)]
			v := []*big.Int{Bi(0), Bi(0), Bi(1), Bi(int64(1 + r.Intn(500))), Bi(2_000_000)}[r.Intn(5)]
			d = fmt.Sprintf("evm.Call %s value %s", w.desc[a], v)
			run.do(true, a, d, func() {
				// what PrepareAccessList does for a transaction's sender and destination
				run.db.AddAddressToAccessList(from)
				run.db.AddAddressToAccessList(a)
				_, _, _ = run.evm.Call(corevm.AccountRef(from), a, nil, 5_000_000, v)
			})
		case x < 97:
			sp := specs[r.Intn(len(specs))]
			v := Bi(int64(r.Intn(3)))
			d = fmt.Sprintf("evm.Create2 init%d at %s value %s", sp.kind, w.desc[sp.addr], v)
			run.do(true, sp.addr, d, func() {
				s := salt32(sp.salt)
				_, _, _, _ = run.evm.Create2(corevm.AccountRef(sp.caller), sp.init, 5_000_000, v, new(uint256.Int).SetBytes(s[:]))
			})
		default:
			from := callers[r.Intn(2)]
			target := ethcrypto.CreateAddress(from, run.db.GetNonce(from))
			k := r.Intn(5)
			d = fmt.Sprintf("evm.Create init%d at %s", k, w.desc[target])
			run.do(true, target, d, func() {
				_, _, _, _ = run.evm.Create(corevm.AccountRef(from), initCode(k, plainAddr(2)), 5_000_000, Bi(int64(r.Intn(2))))
			})
		}
		acts = append(acts, d)
		side.Count("action:" + strings.Fields(d)[0])
	}
	run.finish()
	finishCase(t, idx, "A", run, acts, onlyEvm, side, cases)
}

func finishCase(t *testing.T, idx int, mode string, run *run, acts []string, onlyEvm bool, side *Sidecar, cases *CasesFile) {
	w := run.w
	co := &caseOut{Index: idx, Mode: mode, Now: w.now.Unix(), Uni: w.describe(), Actions: acts}
	deleted, protReached := 0, false
	if run.failed {
		co.Outcome = "FAILED_AS_A_WHOLE"
	} else {
		co.Outcome = "OK"
		for i := range w.addrs {
			if run.preCom[i].Acc != nil && run.post[i].Acc == nil {
				deleted++
				if run.suicided[w.addrs[i]] {
					side.Count("deleted:selfdestructed")
				} else {
					side.Count("deleted:touched-empty")
				}
			}
		}
	}
	for i := range w.addrs {
		if p, why := isProtected(run.preTx[i].Acc, w.now.Unix()); p {
			for _, g := range run.groups {
				for _, o := range g.ops {
					if strings.Contains(o, " "+az(w.addrs[i])) {
						protReached = true
						side.Count("protected_touched:" + why)
					}
				}
			}
		}
	}
	side.Count("outcome:" + mode + ":" + co.Outcome)
	run.oracle(idx, co, onlyEvm)
	term := run.coqCase()
	cases.Add(term)
	side.Case(idx, term, run.failed || deleted > 0 || protReached, co)
}

// ---------------------------------------------------------------- mode B: real transactions in real blocks

func caseB(t *testing.T, idx int, r *Rng, side *Sidecar, cases *CasesFile) {
	start := blockTimes[3+r.Intn(3)].Add(time.Duration(r.Intn(100000)) * time.Second)
	c := NewChain(t, start)
	defer c.S.Cleanup()
	{
		ctx := c.Ctx()
		p := c.App.FeeMarketKeeper.GetParams(ctx)
		p.BaseFee = sdkmath.OneInt() // gas price 1: the fee is gas limit x 1, small against every balance used here
		p.MinGasPrice = sdkmath.LegacyZeroDec()
		require.NoError(t, c.App.FeeMarketKeeper.SetParams(ctx, p))
	}
	now := c.Time
	w := newWorld(t, c, c.Ctx(), now, r, side)
	// app module accounts are blocked addresses; their balances move in Begin/EndBlock, so they are
	// call targets here but not part of the compared universe
	for _, name := range []string{"fee_collector", "evm", "distribution", "bonded_tokens_pool", "cpc", "vauth"} {
		w.blocked = append(w.blocked, common.BytesToAddress(authtypes.NewModuleAddress(name).Bytes()))
	}
	// sender: an ordinary wallet, or a vesting account whose key the harness holds
	var sender *itutiltypes.TestAccount
	vestingSender := r.Chance(40)
	if vestingSender {
		key := make([]byte, 32)
		for i := range key {
			key[i] = byte(r.U64())
		}
		key[0] &= 0x7f
		sender = itu.NewTestAccount(t, &ethsecp256k1.PrivKey{Key: key})
		w.add(sender.GetEthAddress(), "")
		w.desc[sender.GetEthAddress()] = "sender:" + w.plantVesting(sender.GetEthAddress(), 1+r.Intn(4))
		w.setBalance(sender.GetEthAddress(), []*big.Int{Bi(3_000_000 + int64(r.Intn(2))*int64(r.Intn(5000))), Bi(0), Bi(0)}, true) // free coins for the fee
	} else {
		sender = c.S.WalletAccounts.Number(1 + r.Intn(3))
		w.add(sender.GetEthAddress(), "sender:wallet")
	}
	from := sender.GetEthAddress()
	nonce := c.Nonce(w.ctx, from)
	nPlain := 3 + r.Intn(3)
	for i := 0; i < nPlain; i++ {
		a := plainAddr(2 + i)
		w.add(a, "")
		w.desc[a] = w.plantRole(a, w.randomRole(), nil)
		side.Count("role:" + strings.SplitN(w.desc[a], " ", 2)[0])
	}
	createTarget := ethcrypto.CreateAddress(from, nonce)
	var specs []createSpec
	for i := 0; i < 2; i++ {
		sp := createSpec{caller: plainAddr(20), salt: byte(1 + r.Intn(2)), kind: r.Intn(5)}
		sp.init = initCode(sp.kind, plainAddr(2))
		sp.addr = ethcrypto.CreateAddress2(sp.caller, salt32(sp.salt), ethcrypto.Keccak256(sp.init))
		specs = append(specs, sp)
		if !w.inUni[sp.addr] {
			w.add(sp.addr, "")
			ro := w.randomRole()
			if r.Chance(35) {
				ro = rAbsent
			}
			w.desc[sp.addr] = "create2-target:" + w.plantRole(sp.addr, ro, nil)
		}
	}
	for i := 0; i < 2; i++ {
		a := plainAddr(20 + i)
		code, d := w.program(specs, 0)
		w.add(a, "")
		w.plantRole(a, rContract, code)
		w.desc[a] = "contract{" + d + "}"
	}
	w.ct.id(runtimeR1)

	// the transaction
	var to *common.Address
	var data []byte
	var d string
	switch x := r.Intn(10); {
	case x < 2:
		k := r.Intn(5)
		data = initCode(k, plainAddr(2))
		if !w.inUni[createTarget] {
			w.add(createTarget, "")
			ro := w.randomRole()
			if r.Chance(40) {
				ro = rAbsent
			}
			w.desc[createTarget] = "create-target:" + w.plantRole(createTarget, ro, nil)
		}
		d = fmt.Sprintf("create tx init%d at %s", k, w.desc[createTarget])
	case x < 4 && len(w.blocked) > 0:
		a := w.blocked[r.Intn(len(w.blocked))]
		to = &a
		d = "call app module account " + a.Hex()[2:10]
	default:
		a := w.pick()
		to = &a
		d = "call " + w.desc[a]
	}
	const gasLimit = 3_000_000
	bal := new(big.Int).Sub(c.EvmBal(w.ctx, from), Bi(gasLimit)) // what is left for the value after the fee
	if bal.Sign() < 0 {
		bal = Bi(0)
	}
	locked := lockedAt(c.App.AccountKeeper.GetAccount(w.ctx, from.Bytes()), w.denoms, now)[0]
	var value *big.Int
	switch r.Intn(6) {
	case 0, 1:
		value = Bi(0)
	case 2:
		value = Bi(1)
	case 3:
		value = new(big.Int).Sub(bal, locked) // everything spendable
		if value.Sign() < 0 {
			value = Bi(1)
		}
	case 4:
		value = Badd(new(big.Int).Sub(bal, locked), 1) // one more than spendable: locked coins
		if value.Sign() <= 0 || value.Cmp(bal) > 0 {
			value = bal
		}
	default:
		value = Bi(int64(1 + r.Intn(1000)))
	}
	if value.Cmp(bal) > 0 {
		value = bal // keep the message admissible for TransitionDb (clause 6); more than spendable is still possible
	}
	if to != nil && value.Sign() == 0 && !w.inUni[*to] {
		// a zero-value call only touches; whether an app module account is empty at that moment depends on
		// Begin/EndBlock coin movements the branch run does not see, so such targets are always paid
		a := w.pick()
		to = &a
		d = "call " + w.desc[a]
	}
	d += fmt.Sprintf(" value %s (balance %s, locked %s)", value, bal, locked)
	side.Count("tx:" + strings.Fields(d)[0])

	// 1. the real TransitionDb on a branch, with the recording wrapper. The ante handler has moved the fee
	// (gas limit x price) to the fee collector before the message runs; bank enforces locked coins there too.
	branch, _ := c.Ctx().CacheContext()
	w.ctx = branch.WithEventManager(sdk.NewEventManager())
	fee := sdk.NewCoins(sdk.NewCoin(c.Denom(), sdkmath.NewInt(gasLimit)))
	if err := c.App.BankKeeper.SendCoinsFromAccountToModule(w.ctx, from.Bytes(), authtypes.FeeCollectorName, fee); err != nil {
		side.Count("tx:sender_cannot_pay_fee")
		return
	}
	run := newRun(w, from)
	run.blockMode = true
	msg := ethtypes.NewMessage(from, to, nonce, value, gasLimit, Bi(1), Bi(1), Bi(1), data, nil, false)
	focus := from
	if to != nil {
		focus = *to
	} else {
		focus = createTarget
	}
	run.do(true, focus, d, func() {
		gp := core.GasPool(gasLimit)
		_, err := evmkeeper.ApplyMessage(run.evm, msg, &gp, func(st *evmkeeper.StateTransition) { st.SenderPaidTheFee = true })
		require.NoError(t, err, "generated message must pass the consensus checks of TransitionDb")
	})
	run.finish()

	// 2. the same message as a signed transaction in a real block
	root := c.Ctx()
	bz, _, err := c.EthTxBytes(sender, &ethtypes.LegacyTx{Nonce: nonce, GasPrice: Bi(1), Gas: gasLimit, To: to, Value: value, Data: data})
	require.NoError(t, err)
	res := c.RunBlock([][]byte{bz})
	require.Len(t, res.TxResults, 1)
	code := res.TxResults[0].Code
	co := &caseOut{Index: idx, Mode: "B", Now: now.Unix(), Uni: w.describe(), Actions: []string{d}, Outcome: fmt.Sprintf("code=%d dryrun_failed=%v", code, run.failed)}
	after := c.Ctx()
	if (code != 0) != run.failed {
		side.Hit("C15/destroy/blocks/outcome_differs_from_statedb_run",
			fmt.Sprintf("case %d: block result code %d (%s), TransitionDb on the same state failed=%v", idx, code, res.TxResults[0].Log, run.failed), co)
	} else {
		volatile := map[common.Address]bool{}
		for _, b := range w.blocked {
			volatile[b] = true // Begin/EndBlock move the app module accounts' coins
		}
		for i, a := range w.addrs {
			got := observe(t, c, after, w.denoms, w.ct, a)
			want := run.preTx[i]
			if !run.failed {
				want = run.post[i]
			} else if a == from && want.Acc != nil {
				// ante: the nonce of a failed transaction is consumed
				cp := *want.Acc
				cp.Nonce++
				want.Acc = &cp
			}
			if volatile[a] {
				got.Bal, want.Bal = nil, nil
			}
			if !entryEqual(got, want) {
				sig := "C15/destroy/blocks/state_differs_from_statedb_run"
				if run.failed {
					sig = "C15/destroy/failed_tx_left_trace"
				}
				side.Hit(sig, fmt.Sprintf("case %d: %s is %s after the block, expected %s", idx, a.Hex(), cqEntry(got), cqEntry(want)), co)
			}
		}
	}
	_ = root
	w.ctx = branch // the oracle and the Coq case are about the recorded run (equal to the block, checked above)
	finishCase(t, idx, "B", run, []string{d}, true, side, cases)
}

// ---------------------------------------------------------------- the driver

func TestDriverDestroy(t *testing.T) {
	dir := OutDir(t)
	seed := EnvSeed()
	n := EnvInt("VERIF_N", 400)
	rng := NewRng(seed)
	side := NewSidecar("destroy", seed,
		"case = universe (module accounts, the five vesting kinds around the block time, base, contract, storage-only, balance-only, absent addresses, 3 denominations) + "+
			"a sequence of raw cStateDb calls and real evm.Call/Create/Create2 runs on assembled bytecode (mode A), or one real transaction executed by TransitionDb on a branch and again in a real block (mode B: one case in eight); "+
			"block times 1995..2100, the wall clock is never read; non-trivial = an account was deleted at commit, or the transaction failed as a whole, or an operation named a protected account; distinct by the full case term")
	cases := NewCases(dir, "From Coq Require Import List ZArith Bool.\nFrom Evm Require Import Destroy CorrBase CorrDestroy.", "destroy_mismatches")
	c := NewChain(t, time.Time{})
	for i := 0; i < n; i++ {
		r := rng.Fork(uint64(i))
		if i%8 == 7 {
			caseB(t, i, r, side, cases)
		} else {
			caseA(t, c, i, r, side, cases)
		}
	}
	cases.Write(t, 40)
	side.Write(t, dir)
}
