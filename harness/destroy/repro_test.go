package destroy

// Scratch reproductions of DESIGN.md section 7 items #2, #13, #3 on the real code (kept as plain tests:
// they print what the current tree does and never fail; the driver's oracle is what decides).

import (
	"fmt"
	"math/big"
	"testing"
	"time"

	sdkmath "cosmossdk.io/math"
	sdk "github.com/cosmos/cosmos-sdk/types"
	authtypes "github.com/cosmos/cosmos-sdk/x/auth/types"
	vestingtypes "github.com/cosmos/cosmos-sdk/x/auth/vesting/types"
	"github.com/ethereum/go-ethereum/common"
	"github.com/stretchr/testify/require"

	evmtypes "github.com/EscanBE/evermint/v12/x/evm/types"
	evmvm "github.com/EscanBE/evermint/v12/x/evm/vm"

	. "verifharness/hx"
)

func reproAddr(i int) common.Address {
	return common.BytesToAddress([]byte{0xC1, 0x50, byte(i >> 8), byte(i)})
}

func TestReproGuardClock(t *testing.T) {
	if testing.Short() {
		t.Skip()
	}
	c := NewChain(t, time.Time{})
	for _, tc := range []struct {
		name      string
		blockTime time.Time
		end       time.Time
	}{
		{"block 2030, end 2029 (expired at block time, ahead of wall clock)", time.Date(2030, 1, 1, 0, 0, 0, 0, time.UTC), time.Date(2029, 1, 1, 0, 0, 0, 0, time.UTC)},
		{"block 2001, end 2010 (unexpired at block time, behind wall clock)", time.Date(2001, 1, 1, 0, 0, 0, 0, time.UTC), time.Date(2010, 1, 1, 0, 0, 0, 0, time.UTC)},
	} {
		ctx, _ := c.Ctx().WithBlockTime(tc.blockTime).CacheContext()
		a := reproAddr(1)
		base := c.App.AccountKeeper.NewAccountWithAddress(ctx, a.Bytes()).(*authtypes.BaseAccount)
		acc, err := vestingtypes.NewDelayedVestingAccount(base, sdk.NewCoins(sdk.NewCoin(c.Denom(), sdkmath.NewInt(1000))), tc.end.Unix())
		require.NoError(t, err)
		c.App.AccountKeeper.SetAccount(ctx, acc)
		db := evmvm.NewStateDB(ctx, common.Address{}, c.App.EvmKeeper, c.App.AccountKeeper, c.App.BankKeeper)
		db.AddBalance(a, big.NewInt(0)) // anybody's zero-value call
		p := CatchPanic(func() { _ = db.CommitMultiStore(true) })
		fmt.Printf("REPRO#2 %s: panic=%v account-after=%v\n", tc.name, p != nil, c.App.AccountKeeper.GetAccount(ctx, a.Bytes()) != nil)
	}
}

func TestReproPermanentLocked(t *testing.T) {
	c := NewChain(t, time.Time{})
	ctx, _ := c.Ctx().CacheContext()
	a := reproAddr(2)
	base := c.App.AccountKeeper.NewAccountWithAddress(ctx, a.Bytes()).(*authtypes.BaseAccount)
	orig := sdk.NewCoins(sdk.NewCoin(c.Denom(), sdkmath.NewInt(1000)))
	acc, err := vestingtypes.NewPermanentLockedAccount(base, orig)
	require.NoError(t, err)
	acc.DelegatedVesting = orig // all coins delegated: bank balance is zero
	c.App.AccountKeeper.SetAccount(ctx, acc)
	db := evmvm.NewStateDB(ctx, common.Address{}, c.App.EvmKeeper, c.App.AccountKeeper, c.App.BankKeeper)
	db.AddBalance(a, big.NewInt(0))
	p := CatchPanic(func() { _ = db.CommitMultiStore(true) })
	fmt.Printf("REPRO#13 permanent locked, zero balance, seq 0, touched: panic=%v account-after=%v\n", p != nil, c.App.AccountKeeper.GetAccount(ctx, a.Bytes()) != nil)
}

func TestReproDestroyOrder(t *testing.T) {
	c := NewChain(t, time.Time{})
	orders := map[string]int{}
	for run := 0; run < 12; run++ {
		ctx, _ := c.Ctx().CacheContext()
		ctx = ctx.WithEventManager(sdk.NewEventManager())
		var addrs []common.Address
		for i := 0; i < 3; i++ {
			a := reproAddr(10 + i)
			addrs = append(addrs, a)
			base := c.App.AccountKeeper.NewAccountWithAddress(ctx, a.Bytes())
			require.NoError(t, base.SetSequence(1))
			c.App.AccountKeeper.SetAccount(ctx, base)
			coins := sdk.NewCoins(sdk.NewCoin("utwo", sdkmath.NewInt(int64(100+i))))
			require.NoError(t, c.App.BankKeeper.MintCoins(ctx, evmtypes.ModuleName, coins))
			require.NoError(t, c.App.BankKeeper.SendCoinsFromModuleToAccount(ctx, evmtypes.ModuleName, a.Bytes(), coins))
		}
		ctx = ctx.WithEventManager(sdk.NewEventManager())
		db := evmvm.NewStateDB(ctx, common.Address{}, c.App.EvmKeeper, c.App.AccountKeeper, c.App.BankKeeper)
		for _, a := range addrs {
			require.True(t, db.Suicide(a))
		}
		require.NoError(t, db.CommitMultiStore(true))
		order := ""
		for _, ev := range ctx.EventManager().Events() {
			if ev.Type == "coin_spent" {
				for _, at := range ev.Attributes {
					if at.Key == "amount" && len(at.Value) > 4 && at.Value[len(at.Value)-4:] == "utwo" {
						order += at.Value + ","
					}
				}
			}
		}
		orders[order]++
	}
	fmt.Printf("REPRO#3 distinct burn-event orders in 12 identical executions: %d %v\n", len(orders), orders)
}
