package destroy

// Shared pieces of the `destroy` driver: the observed per-address stores (auth / bank / evm), their
// rendering as Coq terms of Corr/CorrDestroy.v, the recording StateDB wrapper and a tiny assembler.

import (
	"bytes"
	"fmt"
	"math/big"
	"sort"
	"strings"
	"testing"
	"time"

	sdkmath "cosmossdk.io/math"
	sdk "github.com/cosmos/cosmos-sdk/types"
	authtypes "github.com/cosmos/cosmos-sdk/x/auth/types"
	vestexported "github.com/cosmos/cosmos-sdk/x/auth/vesting/exported"
	vestingtypes "github.com/cosmos/cosmos-sdk/x/auth/vesting/types"
	"github.com/ethereum/go-ethereum/common"
	ethtypes "github.com/ethereum/go-ethereum/core/types"
	ethcrypto "github.com/ethereum/go-ethereum/crypto"
	"github.com/stretchr/testify/require"

	evmtypes "github.com/EscanBE/evermint/v12/x/evm/types"
	evmvm "github.com/EscanBE/evermint/v12/x/evm/vm"

	. "verifharness/hx"
)

// ---------------------------------------------------------------- denominations

// index 0 is the EVM denomination; the others are secondary denominations only bank knows.
func denomsOf(c *Chain) []string { return []string{c.Denom(), "utwo", "uthree"} }

// ---------------------------------------------------------------- observed stores

const (
	kBase = iota
	kModule
	kVesting
)

var vkindNames = []string{"VRaw", "VDelayed", "VContinuous", "VPeriodic", "VPermanent"}

type obsSched struct {
	VKind      int        `json:"vkind"`
	Start, End int64      `json:"-"`
	Orig, DelV []*big.Int `json:"-"`
	Periods    []obsPeriod
}

type obsPeriod struct {
	Len int64
	Amt []*big.Int
}

type obsAcc struct {
	Kind  int
	Sched *obsSched
	Nonce uint64
	Num   uint64
}

type obsEntry struct {
	Addr common.Address
	Acc  *obsAcc
	Bal  []*big.Int // per denomination index
	Code int        // 0 = no (non-empty) code hash entry; the keeper's view (GetCodeHash)
	Stor [][2]*big.Int // the keeper's view (ForEachStorage)
	// what the RAW x/evm store holds for the address (whole-store scan, keys split in Go; see rawScan)
	RawCode int
	RawStor [][2]*big.Int
}

// ---------------------------------------------------------------- the raw x/evm store

// rawEntry is one key/value pair of the x/evm store under the storage (2) or code-hash (4) prefix, exactly as the
// store iterator returns it.
type rawEntry struct {
	Key, Val []byte
}

const (
	rawPfxStorage  = 2 // evmtypes.KeyPrefixStorage
	rawPfxCodeHash = 4 // evmtypes.KeyPrefixCodeHash
)

// rawScan walks the WHOLE x/evm store through ctx (no prefix iterator, no keeper) and keeps the storage and code-hash keys.
func rawScan(c *Chain, ctx sdk.Context) []rawEntry {
	key := c.App.GetKVStoreKey()[evmtypes.StoreKey]
	it := ctx.MultiStore().GetKVStore(key).Iterator(nil, nil)
	defer it.Close()
	var out []rawEntry
	for ; it.Valid(); it.Next() {
		k := it.Key()
		if len(k) > 0 && (k[0] == rawPfxStorage || k[0] == rawPfxCodeHash) {
			out = append(out, rawEntry{append([]byte{}, k...), append([]byte{}, it.Value()...)})
		}
	}
	return out
}

// rawOwners lists the addresses that own at least one key of the scan.
func rawOwners(raw []rawEntry) []common.Address {
	seen := map[common.Address]bool{}
	var out []common.Address
	for _, e := range raw {
		if len(e.Key) >= 21 {
			a := common.BytesToAddress(e.Key[1:21])
			if !seen[a] {
				seen[a] = true
				out = append(out, a)
			}
		}
	}
	return out
}

// rawView fills the raw part of an entry: every key that starts with 2 ++ address (slot = the rest of the key) and
// the key 4 ++ address.
func rawView(t *testing.T, raw []rawEntry, ct *codeTable, e *obsEntry) {
	sp := append([]byte{rawPfxStorage}, e.Addr.Bytes()...)
	ck := append([]byte{rawPfxCodeHash}, e.Addr.Bytes()...)
	e.RawCode, e.RawStor = 0, nil
	for _, kv := range raw {
		if bytes.HasPrefix(kv.Key, sp) {
			e.RawStor = append(e.RawStor, [2]*big.Int{new(big.Int).SetBytes(kv.Key[len(sp):]), new(big.Int).SetBytes(kv.Val)})
		}
		if bytes.Equal(kv.Key, ck) {
			e.RawCode = codeIDOfHash(ct, kv.Val)
		}
	}
	sort.Slice(e.RawStor, func(i, j int) bool { return e.RawStor[i][0].Cmp(e.RawStor[j][0]) < 0 })
}

// code id of a stored hash: the table's id, or -1 for a hash the driver never planted
func codeIDOfHash(ct *codeTable, h []byte) int {
	if id, ok := ct.byHash[common.BytesToHash(h)]; ok {
		return id
	}
	return -1
}

// a key as (length, the key as a big-endian number in hex); the value as a number (storage) or a code id (code hash)
func cqRaw(raw []rawEntry, ct *codeTable) string {
	items := make([]string, len(raw))
	for i, e := range raw {
		v := "0x" + new(big.Int).SetBytes(e.Val).Text(16)
		if e.Key[0] == rawPfxCodeHash {
			v = fmt.Sprintf("%d", codeIDOfHash(ct, e.Val))
			if strings.HasPrefix(v, "-") {
				v = "(" + v + ")"
			}
		}
		items[i] = fmt.Sprintf("(%d%%nat, 0x%s, %s)", len(e.Key), new(big.Int).SetBytes(e.Key).Text(16), v)
	}
	return "[" + strings.Join(items, ";\n      ") + "]"
}

func sameSlots(a, b [][2]*big.Int) bool {
	if len(a) != len(b) {
		return false
	}
	for i := range a {
		if a[i][0].Cmp(b[i][0]) != 0 || a[i][1].Cmp(b[i][1]) != 0 {
			return false
		}
	}
	return true
}

type codeTable struct {
	byHash map[common.Hash]int
	codes  [][]byte // id-1 -> code
}

func newCodeTable() *codeTable { return &codeTable{byHash: map[common.Hash]int{}} }

func (ct *codeTable) id(code []byte) int {
	if len(code) == 0 {
		return 0
	}
	h := ethcrypto.Keccak256Hash(code)
	if id, ok := ct.byHash[h]; ok {
		return id
	}
	ct.codes = append(ct.codes, code)
	ct.byHash[h] = len(ct.codes)
	return len(ct.codes)
}

func coinsVec(denoms []string, cs sdk.Coins) ([]*big.Int, bool) {
	out := make([]*big.Int, len(denoms))
	seen := 0
	for i, d := range denoms {
		out[i] = cs.AmountOf(d).BigInt()
		if out[i].Sign() != 0 {
			seen++
		}
	}
	return out, seen == len(cs)
}

func observeAcc(t *testing.T, denoms []string, acc sdk.AccountI) *obsAcc {
	if acc == nil {
		return nil
	}
	o := &obsAcc{Nonce: acc.GetSequence(), Num: acc.GetAccountNumber()}
	vec := func(cs sdk.Coins) []*big.Int {
		v, ok := coinsVec(denoms, cs)
		require.True(t, ok, "vesting coins outside the driver's denominations: %s", cs)
		return v
	}
	bva := func(k int, b *vestingtypes.BaseVestingAccount, start int64) {
		o.Kind = kVesting
		o.Sched = &obsSched{VKind: k, Start: start, End: b.EndTime, Orig: vec(b.OriginalVesting), DelV: vec(b.DelegatedVesting)}
	}
	switch a := acc.(type) {
	case *authtypes.BaseAccount:
		o.Kind = kBase
	case *authtypes.ModuleAccount:
		o.Kind = kModule
	case *vestingtypes.BaseVestingAccount:
		bva(0, a, 0)
	case *vestingtypes.DelayedVestingAccount:
		bva(1, a.BaseVestingAccount, 0)
	case *vestingtypes.ContinuousVestingAccount:
		bva(2, a.BaseVestingAccount, a.StartTime)
	case *vestingtypes.PeriodicVestingAccount:
		bva(3, a.BaseVestingAccount, a.StartTime)
		for _, p := range a.VestingPeriods {
			o.Sched.Periods = append(o.Sched.Periods, obsPeriod{Len: p.Length, Amt: vec(p.Amount)})
		}
	case *vestingtypes.PermanentLockedAccount:
		bva(4, a.BaseVestingAccount, 0)
	default:
		if _, ok := acc.(sdk.ModuleAccountI); ok {
			o.Kind = kModule
		} else {
			t.Fatalf("account type %T is outside the model", acc)
		}
	}
	return o
}

func observe(t *testing.T, c *Chain, ctx sdk.Context, denoms []string, ct *codeTable, a common.Address, raw []rawEntry) obsEntry {
	e := obsEntry{Addr: a}
	rawView(t, raw, ct, &e)
	e.Acc = observeAcc(t, denoms, c.App.AccountKeeper.GetAccount(ctx, a.Bytes()))
	all := c.App.BankKeeper.GetAllBalances(ctx, a.Bytes())
	var ok bool
	e.Bal, ok = coinsVec(denoms, all)
	require.True(t, ok, "balance outside the driver's denominations at %s: %s", a.Hex(), all)
	h := c.App.EvmKeeper.GetCodeHash(ctx, a.Bytes())
	if !evmtypes.IsEmptyCodeHash(h) {
		id, known := ct.byHash[h]
		require.True(t, known, "unknown code hash %s at %s", h.Hex(), a.Hex())
		e.Code = id
	}
	c.App.EvmKeeper.ForEachStorage(ctx, a, func(k, v common.Hash) bool {
		e.Stor = append(e.Stor, [2]*big.Int{k.Big(), v.Big()})
		return true
	})
	sort.Slice(e.Stor, func(i, j int) bool { return e.Stor[i][0].Cmp(e.Stor[j][0]) < 0 })
	return e
}

// ---------------------------------------------------------------- Coq rendering

// numbers as Coq terms: hexadecimal literals for big ones (coqc reads them several times faster than decimal)
func cz(b *big.Int) string {
	if b.Sign() < 0 {
		return "(" + b.String() + ")"
	}
	if b.BitLen() <= 40 {
		return b.String()
	}
	return "0x" + b.Text(16)
}

func az(a common.Address) string { return cz(new(big.Int).SetBytes(a.Bytes())) }

func cqCoins(v []*big.Int) string {
	var items []string
	for i, x := range v {
		if x != nil && x.Sign() != 0 {
			items = append(items, fmt.Sprintf("(%d, %s)", i, cz(x)))
		}
	}
	return "[" + strings.Join(items, "; ") + "]"
}

func cqAcc(a *obsAcc) string {
	if a == nil {
		return "None"
	}
	kind := "Base"
	switch a.Kind {
	case kModule:
		kind = "Module"
	case kVesting:
		var ps []string
		for _, p := range a.Sched.Periods {
			ps = append(ps, fmt.Sprintf("(%d, %s)", p.Len, cqCoins(p.Amt)))
		}
		kind = fmt.Sprintf("(Vesting (mkSched %s %d %d %s %s [%s]))", vkindNames[a.Sched.VKind], a.Sched.Start, a.Sched.End,
			cqCoins(a.Sched.Orig), cqCoins(a.Sched.DelV), strings.Join(ps, "; "))
	}
	return fmt.Sprintf("(Some (mkAcc %s %d %d))", kind, a.Nonce, a.Num)
}

func cqEntry(e obsEntry) string {
	var st []string
	for _, kv := range e.Stor {
		st = append(st, fmt.Sprintf("(%s, %s)", cz(kv[0]), cz(kv[1])))
	}
	return fmt.Sprintf("(%s, %s, %s, %d, [%s])", az(e.Addr), cqAcc(e.Acc), cqCoins(e.Bal), e.Code, strings.Join(st, "; "))
}

func cqEntries(es []obsEntry) string {
	items := make([]string, len(es))
	for i, e := range es {
		items[i] = cqEntry(e)
	}
	return "[" + strings.Join(items, ";\n      ") + "]"
}

// the keeper's view and the raw view
func entryFull(e obsEntry) string {
	var st []string
	for _, kv := range e.RawStor {
		st = append(st, kv[0].String()+"="+kv[1].String())
	}
	return fmt.Sprintf("%s raw{code %d, slots [%s]}", cqEntry(e), e.RawCode, strings.Join(st, " "))
}

func entryEqual(a, b obsEntry) bool { return entryFull(a) == entryFull(b) }

// ---------------------------------------------------------------- recording StateDB wrapper

// recOp is one recorded operation as a term of the model's [xop] type, with the addresses it names.
type recOp struct {
	coq   string
	addrs []common.Address
}

// recDB forwards everything to the real cStateDb and records the state-changing calls (before forwarding,
// so that a panicking call is the last one recorded) as terms of the model's [op] type. The custom precompiled
// contracts write to bank through the keepers on GetCurrentContext(), which no StateDB method sees; what they did
// is read off the EVM logs they add through this wrapper (ERC-20 Transfer, staking Delegate), in trace order.
type recDB struct {
	evmvm.CStateDB
	t      *testing.T
	ct     *codeTable
	log    []recOp
	nsnaps int
	cpc    *cpcEnv
}

func (r *recDB) add(s string, addrs ...common.Address) {
	r.log = append(r.log, recOp{"XOp (" + s + ")", addrs})
}
func (r *recDB) addForeign(s string, addrs ...common.Address) {
	r.log = append(r.log, recOp{s, addrs})
}
func (r *recDB) take() []recOp {
	l := r.log
	r.log = nil
	return l
}

func (r *recDB) CreateAccount(a common.Address) {
	r.add("CreateAccount "+az(a), a)
	r.CStateDB.CreateAccount(a)
}

func (r *recDB) DestroyAccount(a common.Address) {
	r.add("DestroyAccount "+az(a), a)
	r.CStateDB.DestroyAccount(a)
}

func cqSigned(b *big.Int) string { return cz(b) }

func (r *recDB) AddBalance(a common.Address, b *big.Int) {
	r.add(fmt.Sprintf("AddBalance %s %s", az(a), cqSigned(b)), a)
	r.CStateDB.AddBalance(a, b)
}

func (r *recDB) SubBalance(a common.Address, b *big.Int) {
	r.add(fmt.Sprintf("SubBalance %s %s", az(a), cqSigned(b)), a)
	r.CStateDB.SubBalance(a, b)
}

func (r *recDB) SetNonce(a common.Address, n uint64) {
	r.add(fmt.Sprintf("SetNonce %s %d", az(a), n), a)
	r.CStateDB.SetNonce(a, n)
}

func (r *recDB) SetCode(a common.Address, code []byte) {
	r.add(fmt.Sprintf("SetCode %s %d", az(a), r.ct.id(code)), a)
	r.CStateDB.SetCode(a, code)
}

func (r *recDB) SetState(a common.Address, k, v common.Hash) {
	r.add(fmt.Sprintf("SetState %s %s %s", az(a), cz(k.Big()), cz(v.Big())), a)
	r.CStateDB.SetState(a, k, v)
}

func (r *recDB) Suicide(a common.Address) bool {
	r.add("Suicide "+az(a), a)
	return r.CStateDB.Suicide(a)
}

func (r *recDB) Snapshot() int {
	r.add("Snapshot")
	id := r.CStateDB.Snapshot()
	require.Equal(r.t, r.nsnaps, id, "snapshot ids are consecutive (model: index into the snapshot list)")
	r.nsnaps++
	return id
}

func (r *recDB) RevertToSnapshot(id int) {
	r.add(fmt.Sprintf("RevertTo %s", cqSigned(big.NewInt(int64(id)))))
	r.CStateDB.RevertToSnapshot(id)
	r.nsnaps = id + 1
}

var (
	topicErc20Transfer   = common.HexToHash("0xddf252ad1be2c89b69c2b068fc378daa952ba7f163c4a11628f55a4df523b3ef")
	topicStakingDelegate = common.HexToHash("0x510b11bb3f3c799b11307c01ab7db0d335683ef5b2da98f7697de744f465eacc")
)

// AddLog: the precompiles report their bank writes as EVM logs; a log that is added was preceded by the write
// (a refused write returns an error before the log, and the interpreter reverts the frame).
func (r *recDB) AddLog(l *ethtypes.Log) {
	if r.cpc != nil && len(l.Topics) == 3 {
		amt := new(big.Int).SetBytes(l.Data)
		x, y := common.BytesToAddress(l.Topics[1].Bytes()), common.BytesToAddress(l.Topics[2].Bytes())
		if d, ok := r.cpc.denomOf[l.Address]; ok && l.Topics[0] == topicErc20Transfer && amt.Sign() != 0 && x != y {
			if y == (common.Address{}) {
				r.addForeign(fmt.Sprintf("XBurn %s %d %s true", az(x), d, cz(amt)), x)
			} else {
				r.addForeign(fmt.Sprintf("XSend %s %s %d %s true", az(x), az(y), d, cz(amt)), x, y)
			}
		}
		if l.Address == r.cpc.staking && l.Topics[0] == topicStakingDelegate && amt.Sign() != 0 {
			r.addForeign(fmt.Sprintf("XDelegate %s %s 0 %s true", az(x), az(r.cpc.pool), cz(amt)), x, r.cpc.pool)
		}
	}
	r.CStateDB.AddLog(l)
}

// ---------------------------------------------------------------- assembler

type asm struct{ b []byte }

func (a *asm) op(o ...byte) *asm { a.b = append(a.b, o...); return a }
func (a *asm) push(v *big.Int) *asm {
	bz := v.Bytes()
	if len(bz) == 0 {
		bz = []byte{0}
	}
	a.b = append(a.b, byte(0x5f+len(bz)))
	a.b = append(a.b, bz...)
	return a
}
func (a *asm) push1(v byte) *asm { return a.op(0x60, v) }
func (a *asm) pushAddr(x common.Address) *asm {
	a.b = append(a.b, 0x73)
	a.b = append(a.b, x.Bytes()...)
	return a
}

// CALL to with value v, no data, all gas; result popped
func (a *asm) call(to common.Address, v *big.Int) *asm {
	a.push1(0).push1(0).push1(0).push1(0).push(v).pushAddr(to)
	return a.op(0x5a, 0xf1, 0x50)
}
func (a *asm) selfdestruct(b common.Address) *asm { return a.pushAddr(b).op(0xff) }
func (a *asm) sstore(k, v byte) *asm              { return a.push1(v).push1(k).op(0x55) }
func (a *asm) sstoreBig(k, v *big.Int) *asm       { return a.push(v).push(k).op(0x55) }

// CALL to with value v and the given calldata (written to memory from offset 0), all gas; result popped
func (a *asm) callData(to common.Address, v *big.Int, data []byte) *asm {
	for off := 0; off < len(data); off += 32 {
		var w [32]byte
		copy(w[:], data[off:])
		a.b = append(a.b, 0x7f)
		a.b = append(a.b, w[:]...)
		a.push(big.NewInt(int64(off))).op(0x52)
	}
	a.push1(0).push1(0).push(big.NewInt(int64(len(data)))).push1(0).push(v).pushAddr(to)
	return a.op(0x5a, 0xf1, 0x50)
}

// reads that make the interpreter ask the StateDB about an address: EXTCODEHASH (asks Empty), BALANCE, EXTCODESIZE
func (a *asm) probe(x common.Address, kind int) *asm {
	return a.pushAddr(x).op([]byte{0x3f, 0x31, 0x3b}[kind%3], 0x50)
}

// CREATE a child whose init code is PUSH20 x; SELFDESTRUCT: the beneficiary is probed for emptiness (gas) and touched
func (a *asm) createSD(x common.Address, endow *big.Int) *asm {
	return a.create((&asm{}).selfdestruct(x).b, endow)
}
func (a *asm) revert() *asm                       { return a.push1(0).push1(0).op(0xfd) }
func (a *asm) stop() *asm                         { return a.op(0x00) }

// init code (at most 32 bytes) placed right-aligned in memory word 0
func (a *asm) initToMem(init []byte) *asm {
	if len(init) > 32 {
		panic("init code too long")
	}
	a.b = append(a.b, byte(0x5f+len(init)))
	a.b = append(a.b, init...)
	return a.push1(0).op(0x52)
}
func (a *asm) create2(init []byte, endow *big.Int, salt *big.Int) *asm {
	a.initToMem(init)
	a.push(salt).push1(byte(len(init))).push1(byte(32 - len(init))).push(endow)
	return a.op(0xf5, 0x50)
}
func (a *asm) create(init []byte, endow *big.Int) *asm {
	a.initToMem(init)
	a.push1(byte(len(init))).push1(byte(32 - len(init))).push(endow)
	return a.op(0xf0, 0x50)
}

// init codes: return the given runtime code (at most 32 bytes) from memory
func initReturning(runtime []byte, pre *asm) []byte {
	a := &asm{}
	if pre != nil {
		a.b = append(a.b, pre.b...)
	}
	if len(runtime) == 0 {
		return a.stop().b
	}
	a.b = append(a.b, byte(0x5f+len(runtime)))
	a.b = append(a.b, runtime...)
	a.push1(0).op(0x52)
	a.push1(byte(len(runtime))).push1(byte(32 - len(runtime))).op(0xf3)
	return a.b
}

// ---------------------------------------------------------------- universe building helpers

func mint(t *testing.T, c *Chain, ctx sdk.Context, a common.Address, denoms []string, v []*big.Int) {
	var cs sdk.Coins
	for i, x := range v {
		if x != nil && x.Sign() > 0 {
			cs = cs.Add(sdk.NewCoin(denoms[i], sdkmath.NewIntFromBigInt(x)))
		}
	}
	if cs.IsZero() {
		return
	}
	// balances are placed with the bank keeper's genesis-style setter path: mint to the evm module, then
	// move with SendCoins (SendCoinsFromModuleToAccount refuses blocked addresses, which the universe contains)
	require.NoError(t, c.App.BankKeeper.MintCoins(ctx, evmtypes.ModuleName, cs))
	require.NoError(t, c.App.BankKeeper.SendCoins(ctx, authtypes.NewModuleAddress(evmtypes.ModuleName), a.Bytes(), cs))
}

func toCoins(denoms []string, v []*big.Int) sdk.Coins {
	cs := sdk.NewCoins()
	for i, x := range v {
		if x != nil && x.Sign() > 0 {
			cs = cs.Add(sdk.NewCoin(denoms[i], sdkmath.NewIntFromBigInt(x)))
		}
	}
	return cs
}

// lockedAt is the SDK's own answer (independent of the model) for the oracle.
func lockedAt(acc sdk.AccountI, denoms []string, blockTime time.Time) []*big.Int {
	out := make([]*big.Int, len(denoms))
	for i := range out {
		out[i] = new(big.Int)
	}
	if va, ok := acc.(vestexported.VestingAccount); ok {
		l := va.LockedCoins(blockTime)
		for i, d := range denoms {
			out[i] = l.AmountOf(d).BigInt()
		}
	}
	return out
}
