package destroy

// Pieces of the `destroy` driver added for the round-3 seeds:
//   * the custom precompiled contracts (one ERC-20 per denomination, staking) and the calldata of the methods that
//     move coins behind the back of the StateDB;
//   * writes of "another module" made by the harness itself on the StateDB's current context through the bank keeper
//     (exactly what a precompile does), with the observed outcome;
//   * addresses and storage keys with boundary bytes (last byte 0xff / 0x00, 0xff suffixes of every length, all 0xff,
//     neighbours in address order), mined CREATE2 salts and CREATE nonces that land on such addresses.

import (
	"fmt"
	"math/big"
	"testing"

	sdkmath "cosmossdk.io/math"
	sdk "github.com/cosmos/cosmos-sdk/types"
	authtypes "github.com/cosmos/cosmos-sdk/x/auth/types"
	stakingtypes "github.com/cosmos/cosmos-sdk/x/staking/types"
	"github.com/ethereum/go-ethereum/common"
	ethcrypto "github.com/ethereum/go-ethereum/crypto"
	"github.com/stretchr/testify/require"

	cpctypes "github.com/EscanBE/evermint/v12/x/cpc/types"

	. "verifharness/hx"
)

// ---------------------------------------------------------------- custom precompiled contracts

type cpcEnv struct {
	erc20     []common.Address       // per denomination index
	denomOf   map[common.Address]int // ERC-20 precompile address -> denomination index
	staking   common.Address
	pool      common.Address // bonded pool: where a delegation to a bonded validator moves the coins
	cpcModule common.Address
	validator common.Address // a bonded validator (operator address as an EVM address)
}

// deployCpcs registers the precompiles on the chain (between blocks, through the keeper). Every denomination needs a
// positive supply first.
func deployCpcs(t *testing.T, c *Chain) *cpcEnv {
	denoms := denomsOf(c)
	for _, d := range denoms[1:] {
		c.Fund(authtypes.NewModuleAddress("verif-supply"), d, Bi(1_000_000))
	}
	env := &cpcEnv{denomOf: map[common.Address]int{}, staking: cpctypes.CpcStakingFixedAddress,
		pool:      common.BytesToAddress(authtypes.NewModuleAddress(stakingtypes.BondedPoolName).Bytes()),
		cpcModule: common.BytesToAddress(authtypes.NewModuleAddress(cpctypes.ModuleName).Bytes())}
	env.erc20 = c.DeployCpcs(denoms...)
	for i, a := range env.erc20 {
		env.denomOf[a] = i
	}
	vals, err := c.App.StakingKeeper.GetBondedValidatorsByPower(c.Ctx())
	require.NoError(t, err)
	require.NotEmpty(t, vals)
	vb, err := c.App.StakingKeeper.ValidatorAddressCodec().StringToBytes(vals[0].GetOperator())
	require.NoError(t, err)
	env.validator = common.BytesToAddress(vb)
	return env
}

func word(b []byte) []byte { return common.LeftPadBytes(b, 32) }

func cdTransfer(to common.Address, amt *big.Int) []byte {
	return append(append([]byte{0xa9, 0x05, 0x9c, 0xbb}, word(to.Bytes())...), word(amt.Bytes())...)
}
func cdTransferFrom(from, to common.Address, amt *big.Int) []byte {
	return append(append(append([]byte{0x23, 0xb8, 0x72, 0xdd}, word(from.Bytes())...), word(to.Bytes())...), word(amt.Bytes())...)
}
func cdBurn(amt *big.Int) []byte { return append([]byte{0x42, 0x96, 0x6c, 0x68}, word(amt.Bytes())...) }
func cdBurnFrom(from common.Address, amt *big.Int) []byte {
	return append(append([]byte{0x79, 0xcc, 0x67, 0x90}, word(from.Bytes())...), word(amt.Bytes())...)
}
func cdDelegate(val common.Address, amt *big.Int) []byte {
	return append(append([]byte{0x02, 0x6e, 0x40, 0x2b}, word(val.Bytes())...), word(amt.Bytes())...)
}

// a precompile call of a random kind made by `self` (the caller of the precompile), biased towards the hot address
type cpcCall struct {
	to   common.Address
	data []byte
	desc string
	// the bank write the call asks for, as an operation of the model with the outcome left open ("%v"); empty when
	// the precompile would write nothing (zero amount, payer = payee)
	op    string
	addrs []common.Address
}

func (w *world) intendedSend(from, to common.Address, d int, amt *big.Int) (string, []common.Address) {
	if amt.Sign() == 0 || from == to {
		return "", nil
	}
	return fmt.Sprintf("XSend %s %s %d %s %%v", az(from), az(to), d, cz(amt)), []common.Address{from, to}
}

func (w *world) intendedBurn(from common.Address, d int, amt *big.Int) (string, []common.Address) {
	if amt.Sign() == 0 {
		return "", nil
	}
	return fmt.Sprintf("XBurn %s %d %s %%v", az(from), d, cz(amt)), []common.Address{from}
}

func (w *world) cpcCall(ctx sdk.Context, self common.Address) cpcCall {
	hot := w.hot
	other := w.pick()
	d := w.r.Intn(len(w.denoms))
	amt := w.foreignAmount(ctx, self, d)
	switch x := w.r.Intn(100); {
	case x < 40:
		to := hot
		if w.r.Chance(30) {
			to = other
		}
		op, as := w.intendedSend(self, to, d, amt)
		return cpcCall{w.cpc.erc20[d], cdTransfer(to, amt), fmt.Sprintf("erc20[%d].transfer(%s,%s)", d, w.desc[to], amt), op, as}
	case x < 70:
		// transferFrom: the owner has approved `self` (allowances are planted by the harness); drain or pay the hot address
		from, to := hot, other
		if w.r.Chance(60) {
			from, to = w.payer(ctx, d), hot
		}
		amt = w.foreignAmount(ctx, from, d)
		w.c.App.CPCKeeper.SetErc20CpcAllowance(ctx, from, self, new(big.Int).Lsh(Bi(1), 200))
		op, as := w.intendedSend(from, to, d, amt)
		return cpcCall{w.cpc.erc20[d], cdTransferFrom(from, to, amt), fmt.Sprintf("erc20[%d].transferFrom(%s,%s,%s)", d, w.desc[from], w.desc[to], amt), op, as}
	case x < 78:
		op, as := w.intendedBurn(self, d, amt)
		return cpcCall{w.cpc.erc20[d], cdBurn(amt), fmt.Sprintf("erc20[%d].burn(%s)", d, amt), op, as}
	case x < 86:
		from := hot
		amt = w.foreignAmount(ctx, from, d)
		w.c.App.CPCKeeper.SetErc20CpcAllowance(ctx, from, self, new(big.Int).Lsh(Bi(1), 200))
		op, as := w.intendedBurn(from, d, amt)
		return cpcCall{w.cpc.erc20[d], cdBurnFrom(from, amt), fmt.Sprintf("erc20[%d].burnFrom(%s,%s)", d, w.desc[from], amt), op, as}
	default:
		amt = w.foreignAmount(ctx, self, 0)
		return cpcCall{w.cpc.staking, cdDelegate(w.cpc.validator, amt), fmt.Sprintf("staking.delegate(%s)", amt),
			fmt.Sprintf("XDelegate %s %s 0 %s %%v", az(self), az(w.cpc.pool), cz(amt)), []common.Address{self, w.cpc.pool}}
	}
}

// payer picks an address that holds coins of denomination d (most of the time), so that foreign writes go through
func (w *world) payer(ctx sdk.Context, d int) common.Address {
	if w.r.Chance(80) {
		var have []common.Address
		for _, a := range w.addrs {
			if w.c.App.BankKeeper.GetBalance(ctx, a.Bytes(), w.denoms[d]).Amount.IsPositive() {
				have = append(have, a)
			}
		}
		if len(have) > 0 {
			return have[w.r.Intn(len(have))]
		}
	}
	return w.pick()
}

// amounts of foreign writes: everything the payer holds (drains it), everything spendable, one more than spendable
// (locked coins), small, or more than the balance
func (w *world) foreignAmount(ctx sdk.Context, from common.Address, d int) *big.Int {
	bal := w.c.App.BankKeeper.GetBalance(ctx, from.Bytes(), w.denoms[d]).Amount.BigInt()
	locked := lockedAt(w.c.App.AccountKeeper.GetAccount(ctx, from.Bytes()), w.denoms, w.now)[d]
	switch w.r.Intn(7) {
	case 0, 1:
		if bal.Sign() > 0 {
			return bal
		}
		return Bi(1)
	case 2:
		v := new(big.Int).Sub(bal, locked)
		if v.Sign() > 0 {
			return v
		}
		return Bi(1)
	case 3:
		v := Badd(new(big.Int).Sub(bal, locked), 1)
		if v.Sign() > 0 {
			return v
		}
		return Bi(1)
	case 4:
		return Badd(bal, 1)
	default:
		return Bi(int64(1 + w.r.Intn(1000)))
	}
}

// ---------------------------------------------------------------- writes of another module, made by the harness

func coinOf(denom string, amt *big.Int) sdk.Coins {
	return sdk.NewCoins(sdk.NewCoin(denom, sdkmath.NewIntFromBigInt(amt)))
}

// foreign runs f on a branch of the StateDB's current context and keeps the branch only when f succeeds: a keeper
// that returns an error is always followed by a revert of the frame in the real callers.
func (r *run) foreign(f func(ctx sdk.Context) error) bool {
	cc, write := r.db.GetCurrentContext().CacheContext()
	if err := f(cc); err != nil {
		return false
	}
	write()
	return true
}

func (r *run) foreignSend(from, to common.Address, d int, amt *big.Int) {
	w := r.w
	ok := r.foreign(func(ctx sdk.Context) error {
		return w.c.App.BankKeeper.SendCoins(ctx, from.Bytes(), to.Bytes(), coinOf(w.denoms[d], amt))
	})
	r.db.addForeign(fmt.Sprintf("XSend %s %s %d %s %v", az(from), az(to), d, cz(amt), ok), from, to)
	w.side.Count(fmt.Sprintf("foreign:send ok=%v", ok))
}

func (r *run) foreignBurn(from common.Address, d int, amt *big.Int) {
	w := r.w
	ok := r.foreign(func(ctx sdk.Context) error {
		cs := coinOf(w.denoms[d], amt)
		if err := w.c.App.BankKeeper.SendCoinsFromAccountToModule(ctx, from.Bytes(), cpctypes.ModuleName, cs); err != nil {
			return err
		}
		return w.c.App.BankKeeper.BurnCoins(ctx, cpctypes.ModuleName, cs)
	})
	r.db.addForeign(fmt.Sprintf("XBurn %s %d %s %v", az(from), d, cz(amt), ok), from)
	w.side.Count(fmt.Sprintf("foreign:burn ok=%v", ok))
}

// the bank part of a staking delegation to a bonded validator
func (r *run) foreignDelegate(from common.Address, d int, amt *big.Int) {
	w := r.w
	ok := amt.Sign() > 0 && r.foreign(func(ctx sdk.Context) error {
		return w.c.App.BankKeeper.DelegateCoinsFromAccountToModule(ctx, from.Bytes(), stakingtypes.BondedPoolName, coinOf(w.denoms[d], amt))
	})
	r.db.addForeign(fmt.Sprintf("XDelegate %s %s %d %s %v", az(from), az(w.cpc.pool), d, cz(amt), ok), from, w.cpc.pool)
	w.side.Count(fmt.Sprintf("foreign:delegate ok=%v", ok))
}

// ---------------------------------------------------------------- boundary addresses and keys

// boundaryFamily returns a family of related addresses with boundary bytes: P||ff.., its predecessor and successor in
// address order, and the fixed extremes.
func boundaryFamily(r *Rng) []common.Address {
	var base [20]byte
	for i := range base {
		base[i] = byte(r.U64())
	}
	k := 1 + r.Intn(19) // length of the 0xff suffix
	if r.Chance(40) {
		k = 1
	}
	x := base
	for i := 20 - k; i < 20; i++ {
		x[i] = 0xff
	}
	xi := new(big.Int).SetBytes(x[:])
	mod := new(big.Int).Lsh(Bi(1), 160)
	succ := new(big.Int).Mod(Badd(xi, 1), mod) // ...00 after the carry
	pred := new(big.Int).Mod(Bsub(xi, 1), mod) // ...fe
	fam := []common.Address{common.BytesToAddress(x[:]), common.BigToAddress(succ), common.BigToAddress(pred)}
	// a second, unrelated address ending in 0xff (the plainest boundary case), and one ending in 0x00
	y2 := base
	y2[0] ^= 0x55
	y2[19] = 0xff
	fam = append(fam, common.BytesToAddress(y2[:]))
	y3 := base
	y3[0] ^= 0xaa
	y3[19] = 0x00
	fam = append(fam, common.BytesToAddress(y3[:]))
	if r.Chance(35) {
		// leading zero bytes
		y4 := base
		for i := 0; i < 1+r.Intn(3); i++ {
			y4[i] = 0
		}
		fam = append(fam, common.BytesToAddress(y4[:]))
	}
	shuffleAddrs(r, fam)
	switch r.Intn(6) {
	case 0:
		fam = append(fam, common.BigToAddress(Bsub(mod, 1))) // ff..ff
	case 1:
		fam = append(fam, common.BigToAddress(Bi(0xff))) // 00..00ff
	case 2:
		y := base
		y[0] = 0xff
		fam = append(fam, common.BytesToAddress(y[:]))
	case 3:
		y := base
		y[19] = 0x00
		fam = append(fam, common.BytesToAddress(y[:]))
	case 4:
		fam = append(fam, common.BigToAddress(Bsub(mod, 0x100))) // ff..ff00
	}
	return fam
}

func shuffleAddrs(r *Rng, l []common.Address) {
	for i := len(l) - 1; i > 0; i-- {
		j := r.Intn(i + 1)
		l[i], l[j] = l[j], l[i]
	}
}

// boundary storage keys
func boundaryKey(r *Rng) *big.Int {
	max := Bsub(new(big.Int).Lsh(Bi(1), 256), 1)
	switch r.Intn(9) {
	case 0:
		return Bi(0)
	case 1:
		return max
	case 2:
		return Bsub(max, 0xff) // ff..ff00
	case 3:
		return new(big.Int).Lsh(Bi(0xff), 248) // ff00..00
	case 4:
		return new(big.Int).Lsh(Bi(1), 255)
	case 5:
		return Bi(0xff)
	case 6:
		return r.BigBits(256)
	default:
		return Bi(int64(1 + r.Intn(6)))
	}
}

type addrClass int

const (
	clsAny addrClass = iota
	clsLastFF
	clsLast00
	clsFirstFF
	clsLastFFFF
	clsFirst00
)

func (c addrClass) has(a common.Address) bool {
	switch c {
	case clsLastFF:
		return a[19] == 0xff
	case clsLast00:
		return a[19] == 0x00
	case clsFirstFF:
		return a[0] == 0xff
	case clsLastFFFF:
		return a[19] == 0xff && a[18] == 0xff
	case clsFirst00:
		return a[0] == 0x00
	}
	return true
}

func (c addrClass) String() string {
	return []string{"any", "last-ff", "last-00", "first-ff", "last-ffff", "first-00"}[c]
}

func randClass(r *Rng) addrClass {
	switch x := r.Intn(100); {
	case x < 30:
		return clsAny
	case x < 65:
		return clsLastFF
	case x < 80:
		return clsLast00
	case x < 88:
		return clsFirstFF
	case x < 94:
		return clsFirst00
	default:
		return clsLastFFFF
	}
}

var salt2Cache = map[string]*big.Int{}

// mineSalt finds the first CREATE2 salt >= start whose address is in the class (deterministic in its arguments).
func mineSalt(caller common.Address, init []byte, cls addrClass, start int64) *big.Int {
	key := fmt.Sprintf("%x/%x/%d/%d", caller, ethcrypto.Keccak256(init), cls, start)
	if s, ok := salt2Cache[key]; ok {
		return s
	}
	h := ethcrypto.Keccak256(init)
	for s := start; s < start+400_000; s++ {
		var salt [32]byte
		Bi(s).FillBytes(salt[:])
		if cls.has(ethcrypto.CreateAddress2(caller, salt, h)) {
			salt2Cache[key] = Bi(s)
			return Bi(s)
		}
	}
	salt2Cache[key] = Bi(start)
	return Bi(start)
}

// mineNonce finds the first account nonce >= start whose CREATE address is in the class.
func mineNonce(from common.Address, cls addrClass, start uint64) uint64 {
	for n := start; n < start+100_000; n++ {
		if cls.has(ethcrypto.CreateAddress(from, n)) {
			return n
		}
	}
	return start
}
