package twin

// Node-local history about transactions that LATER appear in finalized blocks, modified or not (C01).
//
// Whatever a node remembers about a transaction it met outside block execution — in CheckTx, ReCheckTx, a simulation, a
// query, a proposal of a round whose block was never decided — must not change what the transaction, or anything that
// shares a part with it, does inside a block.  A MsgEthereumTx has two layers: the signed Ethereum transaction (its hash
// covers payload and signature) and the Cosmos wrapper around it (`From`, declared fee and gas limit), which nothing signs.
// So the generator
//   - "gossips" properly wrapped, fully valid Ethereum transactions that are never included (ghosts), by accounts of
//     their own (their nonce never moves: the ghost stays executable) and by regular senders: replicas 1.. meet them in
//     CheckTx before the block / ReCheckTx / CheckTx after the commit, simulations, eth_call / estimateGas of their
//     message, PrepareProposal / ProcessProposal of a block that is never finalized; replica 0 meets nothing;
//   - puts into blocks VARIANTS of transactions the replicas met (ghosts of this and earlier blocks, transactions of the
//     same block — before or after the original —, transactions included in earlier blocks): the same inner bytes in a
//     wrapper with another `From` (a funded account whose sequence equals the inner nonce — the fee payer of the Ethereum
//     lane is `From` —, an unfunded one, a regular sender, no account at all), another declared fee or gas limit, the
//     wrapper repeated byte for byte; and the same wrapper fields around the inner transaction signed again by another key.
// On the code as it is all of them are refused (or executed) identically everywhere.

import (
	"fmt"
	"math/big"

	sdkmath "cosmossdk.io/math"
	codectypes "github.com/cosmos/cosmos-sdk/codec/types"
	sdk "github.com/cosmos/cosmos-sdk/types"
	banktypes "github.com/cosmos/cosmos-sdk/x/bank/types"
	authtx "github.com/cosmos/cosmos-sdk/x/auth/tx"
	"github.com/ethereum/go-ethereum/common"
	ethtypes "github.com/ethereum/go-ethereum/core/types"
	"github.com/stretchr/testify/require"

	itutiltypes "github.com/EscanBE/evermint/v12/integration_test_util/types"
	evmtypes "github.com/EscanBE/evermint/v12/x/evm/types"

	. "verifharness/hx"
)

const variantKind = "wrapper-variant"

const nGhostAccs = 5

// sequences the ghost accounts are created with (they never have a transaction of their own in a block)
var ghostSeqs = []uint64{0, 0, 3, 17, 1}

// a transaction replicas 1.. met outside block execution
type seenTx struct {
	tx    *ethtypes.Transaction
	from  common.Address // the signer
	raw   []byte         // the proper wrapper
	block int            // block index at which it was met first
	ghost bool           // never included as it is
	rt    *RawTx         // a Cosmos-lane ghost (tx == nil): the envelope, signed by `from`'s key
}

func (w *world) ghostAcc(i int) *itutiltypes.TestAccount { return w.ref.DetAccount("twin-ghost", i) }

// setupGhosts: part of every replica's set-up
func (w *world) setupGhosts(c *Chain) {
	for i := 0; i < nGhostAccs; i++ {
		a := w.ghostAcc(i)
		placeAccount(c, a.GetEthAddress(), ghostSeqs[i])
		c.Fund(a.GetCosmosAddress(), w.bond, e18(1000))
	}
}

func (w *world) decodeEth(raw []byte) *evmtypes.MsgEthereumTx {
	tx, err := w.lead.S.EncodingConfig.TxConfig.TxDecoder()(raw)
	if err != nil || len(tx.GetMsgs()) != 1 {
		return nil
	}
	m, _ := tx.GetMsgs()[0].(*evmtypes.MsgEthereumTx)
	return m
}

func ethFee(tx *ethtypes.Transaction) *big.Int {
	p := tx.GasPrice()
	if tx.Type() == ethtypes.DynamicFeeTxType {
		p = tx.GasFeeCap()
	}
	return new(big.Int).Mul(p, new(big.Int).SetUint64(tx.Gas()))
}

// wrapWith: the Ethereum-lane envelope with every unsigned field chosen by the caller
func (w *world) wrapWith(from string, marshalled []byte, fee *big.Int, gas uint64) []byte {
	msg := &evmtypes.MsgEthereumTx{From: from, MarshalledTx: marshalled}
	txb := w.lead.S.EncodingConfig.TxConfig.NewTxBuilder()
	require.NoError(w.t, txb.SetMsgs(msg))
	opt, err := codectypes.NewAnyWithValue(&evmtypes.ExtensionOptionsEthereumTx{})
	require.NoError(w.t, err)
	txb.(authtx.ExtensionOptionsTxBuilder).SetExtensionOptions(opt)
	txb.SetGasLimit(gas)
	if fee.Sign() > 0 {
		txb.SetFeeAmount(sdk.NewCoins(sdk.NewCoin(w.bond, sdkmath.NewIntFromBigInt(fee))))
	}
	bz, err := w.lead.S.EncodingConfig.TxConfig.TxEncoder()(txb.GetTx())
	require.NoError(w.t, err)
	return bz
}

func bech(a common.Address) string { return sdk.AccAddress(a.Bytes()).String() }

// genGossip: ghosts of this block — valid, properly wrapped, met by replicas 1.. only, not part of the block
func (w *world) genGossip(r *Rng, b int) []*seenTx {
	if !r.Chance(45) {
		return nil
	}
	var out []*seenTx
	_, _, floor := w.floorNow()
	q := w.lead.QueryCtx()
	usedGhost := map[int]bool{}
	for i, m := 0, 1+r.Intn(2); i < m; i++ {
		var signer *itutiltypes.TestAccount
		if r.Chance(70) {
			gi := r.Intn(nGhostAccs)
			if usedGhost[gi] {
				continue // (a second one of the same account would meet a moved sequence in the check state)
			}
			usedGhost[gi] = true
			signer = w.ghostAcc(gi)
		} else if signer = w.pickSender(r); signer == nil {
			continue
		}
		from := signer.GetEthAddress()
		to := w.senders[r.Intn(len(w.senders))].GetEthAddress()
		if r.Chance(25) {
			// a Cosmos-lane ghost: its signature covers body and auth info
			c := w.lead
			msg := banktypes.NewMsgSend(signer.GetCosmosAddress(), to.Bytes(), sdk.NewCoins(sdk.NewCoin(w.bond, sdkmath.NewInt(int64(1+r.Intn(1000))))))
			price := new(big.Int).Mul(Badd(floor, 1), big.NewInt(3))
			accNum, seq := c.AccNumSeq(signer.GetCosmosAddress())
			rt := &RawTx{Msgs: []sdk.Msg{msg}, Fee: c.FeeCoins(new(big.Int).Mul(price, big.NewInt(300000))), Gas: 300000}
			require.NoError(w.t, rt.SignDirect(c.ChainID(), signer, accNum, seq))
			raw, err := rt.Encode()
			require.NoError(w.t, err)
			out = append(out, &seenTx{from: from, raw: raw, block: b, ghost: true, rt: rt})
			w.side.Count("gossip:ghost_tx_cosmos")
			continue
		}
		target, gas, data := &to, uint64(21000), []byte(nil)
		value := big.NewInt(int64(1 + r.Intn(1_000_000)))
		switch r.Intn(4) {
		case 0:
			target, gas, data = &w.store, 150000, []byte{byte(1 + r.Intn(3)), byte(1 + r.Intn(200))}
		case 1:
			target, gas, data, value = &w.logger, 60000, []byte{byte(r.Intn(4))}, big.NewInt(0)
		}
		f := feeSpec{dyn: r.Bool(), price: new(big.Int).Mul(Badd(floor, 1), big.NewInt(int64(2+r.Intn(2)))), tip: big.NewInt(0)}
		raw := w.ethRaw(signer, w.chainID, w.lead.Nonce(q, from), target, value, data, gas, f, r)
		m := w.decodeEth(raw)
		require.NotNil(w.t, m)
		s := &seenTx{tx: m.AsTransaction(), from: from, raw: raw, block: b, ghost: true}
		out = append(out, s)
		w.side.Count("gossip:ghost_tx")
	}
	return out
}

// victim: an account of its own, created on every replica between blocks with the given sequence
func (w *world) victim(seq uint64, funds *big.Int) common.Address {
	w.nextVictim++
	acc := w.ref.DetAccount("twin-victim", w.nextVictim)
	w.each(func(c *Chain) {
		placeAccount(c, acc.GetEthAddress(), seq)
		if funds.Sign() > 0 {
			c.Fund(acc.GetCosmosAddress(), w.bond, funds)
		}
	})
	return acc.GetEthAddress()
}

// the payload of tx once more, unsigned
func txDataOf(tx *ethtypes.Transaction) ethtypes.TxData {
	switch tx.Type() {
	case ethtypes.DynamicFeeTxType:
		return &ethtypes.DynamicFeeTx{ChainID: tx.ChainId(), Nonce: tx.Nonce(), GasTipCap: tx.GasTipCap(), GasFeeCap: tx.GasFeeCap(), Gas: tx.Gas(), To: tx.To(), Value: tx.Value(), Data: tx.Data(), AccessList: tx.AccessList()}
	case ethtypes.AccessListTxType:
		return &ethtypes.AccessListTx{ChainID: tx.ChainId(), Nonce: tx.Nonce(), GasPrice: tx.GasPrice(), Gas: tx.Gas(), To: tx.To(), Value: tx.Value(), Data: tx.Data(), AccessList: tx.AccessList()}
	default:
		return &ethtypes.LegacyTx{Nonce: tx.Nonce(), GasPrice: tx.GasPrice(), Gas: tx.Gas(), To: tx.To(), Value: tx.Value(), Data: tx.Data()}
	}
}

var variantMals = []string{"from-funded-same-seq", "from-funded-same-seq", "from-funded-same-seq", "from-funded-same-seq", "from-funded-same-seq",
	"from-unfunded-same-seq", "from-funded-other-seq", "from-missing", "from-other-sender", "dup-wrapper", "fee-other", "gas-other", "from-funded+fee-other",
	"resigned-other-key", "resigned-by-declared-from"}

// makeVariant: a transaction that shares the inner bytes (or the wrapper fields) with one the replicas met
func (w *world) makeVariant(r *Rng, s *seenTx, source string) *genTx {
	if s.rt != nil {
		return w.makeCosmosVariant(r, s, source)
	}
	mal := variantMals[r.Intn(len(variantMals))]
	tx := s.tx
	bz, err := tx.MarshalBinary()
	require.NoError(w.t, err)
	fee, gas := ethFee(tx), tx.Gas()
	// what the wrapper's fee payer needs: the fee and whatever the inner transaction moves
	funds := new(big.Int).Add(new(big.Int).Mul(fee, big.NewInt(3)), e18(2))
	otherFee := func() *big.Int {
		switch r.Intn(4) {
		case 0:
			return Badd(fee, 1)
		case 1:
			return Bsub(fee, 1)
		case 2:
			return big.NewInt(0)
		default:
			return new(big.Int).Mul(fee, big.NewInt(2))
		}
	}
	var raw []byte
	from := s.from
	switch mal {
	case "from-funded-same-seq":
		from = w.victim(tx.Nonce(), funds)
		raw = w.wrapWith(bech(from), bz, fee, gas)
	case "from-unfunded-same-seq":
		from = w.victim(tx.Nonce(), big.NewInt(0))
		raw = w.wrapWith(bech(from), bz, fee, gas)
	case "from-funded-other-seq":
		from = w.victim(tx.Nonce()+1+uint64(r.Intn(3)), funds)
		raw = w.wrapWith(bech(from), bz, fee, gas)
	case "from-missing":
		from = w.fresh()
		raw = w.wrapWith(bech(from), bz, fee, gas)
	case "from-other-sender":
		from = w.senders[r.Intn(len(w.senders))].GetEthAddress()
		if from == s.from {
			from = w.ghostAcc(r.Intn(nGhostAccs)).GetEthAddress()
		}
		raw = w.wrapWith(bech(from), bz, fee, gas)
	case "dup-wrapper":
		raw = s.raw
	case "fee-other":
		raw = w.wrapWith(bech(from), bz, otherFee(), gas)
	case "gas-other":
		g := []uint64{gas + 1, gas - 1, 0, gas * 2, 1 << 40}[r.Intn(5)]
		raw = w.wrapWith(bech(from), bz, fee, g)
	case "from-funded+fee-other":
		from = w.victim(tx.Nonce(), funds)
		raw = w.wrapWith(bech(from), bz, otherFee(), gas)
	case "resigned-other-key", "resigned-by-declared-from":
		// the same payload and the same wrapper fields; the signature is another key's.  (by-declared-from: that key's
		// account is the declared sender: a valid transaction of the victim with the ghost's payload)
		w.nextVictim++
		key := w.ref.DetAccount("twin-victim", w.nextVictim)
		w.each(func(c *Chain) {
			placeAccount(c, key.GetEthAddress(), tx.Nonce())
			c.Fund(key.GetCosmosAddress(), w.bond, funds)
		})
		ecdsa, err := key.PrivateKey.ToECDSA()
		require.NoError(w.t, err)
		tx2, err := ethtypes.SignTx(ethtypes.NewTx(txDataOf(tx)), ethtypes.LatestSignerForChainID(tx.ChainId()), ecdsa) // (the original's chain id, right or wrong)
		require.NoError(w.t, err)
		bz2, err := tx2.MarshalBinary()
		require.NoError(w.t, err)
		if mal == "resigned-by-declared-from" {
			from = key.GetEthAddress()
		}
		raw = w.wrapWith(bech(from), bz2, fee, gas)
	}
	w.side.Count("variant:" + mal)
	w.side.Count("variant-source:" + source)
	dyn := tx.Type() == ethtypes.DynamicFeeTxType
	return &genTx{Kind: variantKind, Mal: mal + ":" + source, Sender: from.Hex(), Gas: gas, isEth: true, Dyn: dyn, create: tx.To() == nil,
		Price: tx.GasFeeCap().String(), Tip: tx.GasTipCap().String(), raw: raw}
}

const cosmosVariantKind = "signed-envelope-variant"

// makeCosmosVariant: the signer infos and the signature of a Cosmos-lane transaction the replicas met, around a body /
// a fee the signature does not cover
func (w *world) makeCosmosVariant(r *Rng, s *seenTx, source string) *genTx {
	cp := *s.rt
	send := s.rt.Msgs[0].(*banktypes.MsgSend)
	mal := []string{"same-sig-other-amount", "same-sig-other-amount", "same-sig-other-recipient", "same-sig-lower-fee", "same-sig-no-fee", "same-sig-other-memo", "same-sig-other-gas", "dup"}[r.Intn(8)]
	switch mal {
	case "same-sig-other-amount":
		cp.Msgs = []sdk.Msg{&banktypes.MsgSend{FromAddress: send.FromAddress, ToAddress: send.ToAddress, Amount: sdk.NewCoins(sdk.NewCoin(w.bond, sdkmath.NewIntFromBigInt(e18(int64(1+r.Intn(500))))))}}
	case "same-sig-other-recipient":
		cp.Msgs = []sdk.Msg{&banktypes.MsgSend{FromAddress: send.FromAddress, ToAddress: bech(w.fresh()), Amount: send.Amount}}
	case "same-sig-lower-fee":
		cp.Fee = sdk.NewCoins(sdk.NewCoin(w.bond, s.rt.Fee[0].Amount.QuoRaw(2)))
	case "same-sig-no-fee":
		cp.Fee = nil
	case "same-sig-other-memo":
		cp.Memo = fmt.Sprintf("memo-%d", r.Intn(1000))
	case "same-sig-other-gas":
		cp.Gas = []uint64{s.rt.Gas + 1, s.rt.Gas * 3, 90000}[r.Intn(3)]
	}
	raw, err := cp.Encode()
	require.NoError(w.t, err)
	w.side.Count("variant:cosmos:" + mal)
	w.side.Count("variant-source:" + source)
	return &genTx{Kind: cosmosVariantKind, Mal: mal + ":" + source, Sender: s.from.Hex(), Gas: cp.Gas, raw: raw}
}

// addVariants inserts variants into the block being generated (gen: everything but a deployment that has to stay last)
func (w *world) addVariants(r *Rng, b int, gen []*genTx, gossip []*seenTx, special string) []*genTx {
	// first transaction fixed: the destroy special's branch run and the boundary transactions look at the block's beginning
	keepFirst := 0
	switch special {
	case "destroy", "destroy-straddle":
		keepFirst = 1
	case "apply-error":
		keepFirst = 3
	}
	if special == "destroy-straddle" {
		return gen // (that block runs against the wall clock)
	}
	// ghosts of this very block: replica 0 runs the block before any replica of this process has met them
	for _, s := range gossip {
		if r.Chance(55) {
			gen = append(gen, w.makeVariant(r, s, "ghost-of-this-block"))
		}
	}
	// transactions of this very block: the variant right after or (now and then) before the original
	if r.Chance(30) {
		var idx []int
		for i, g := range gen {
			if g.isEth && g.Kind != variantKind && g.plan == nil {
				idx = append(idx, i)
			}
		}
		if len(idx) > 0 {
			i := idx[r.Intn(len(idx))]
			if m := w.decodeEth(gen[i].raw); m != nil {
				s := &seenTx{tx: m.AsTransaction(), from: common.HexToAddress(gen[i].Sender), raw: gen[i].raw, block: b}
				at, source := len(gen), "tx-of-this-block-earlier"
				switch {
				case r.Chance(30) && i >= keepFirst:
					at, source = i, "tx-of-this-block-later"
				case r.Bool():
					at = i + 1
				}
				v := w.makeVariant(r, s, source)
				gen = append(gen[:at], append([]*genTx{v}, gen[at:]...)...)
			}
		}
	}
	// what the replicas met in earlier blocks (included there, or never included): the newest, or any
	for _, pool := range [][]*seenTx{w.seen, w.seenGhost} {
		n := len(pool)
		if n == 0 || !r.Chance(30) {
			continue
		}
		for i, m := 0, 1+r.Intn(2); i < m; i++ {
			s := pool[n-1-r.Intn(minInt(n, 6))]
			if r.Chance(35) {
				s = pool[r.Intn(n)]
			}
			source := "included-in-earlier-block"
			if s.ghost {
				source = "ghost-of-earlier-block"
			}
			if b-s.block > 3 {
				source += "-old"
			}
			gen = append(gen, w.makeVariant(r, s, source))
		}
	}
	return gen
}

func minInt(a, b int) int {
	if a < b {
		return a
	}
	return b
}

// noteSeen: after the block, what the replicas met while it was decided (capped: the newest 400)
func (w *world) noteSeen(b int, gen []*genTx, gossip []*seenTx) {
	w.seenGhost = append(w.seenGhost, gossip...)
	if len(w.seenGhost) > 200 {
		w.seenGhost = w.seenGhost[len(w.seenGhost)-200:]
	}
	for _, g := range gen {
		if !g.isEth || g.Kind == variantKind {
			continue
		}
		if m := w.decodeEth(g.raw); m != nil {
			w.seen = append(w.seen, &seenTx{tx: m.AsTransaction(), from: common.HexToAddress(g.Sender), raw: g.raw, block: b})
		}
	}
	if len(w.seen) > 400 {
		w.seen = w.seen[len(w.seen)-400:]
	}
}

// ---------------------------------------------------------------- the replicas' side

// gossipBefore: what a replica does with the ghosts before the block is executed.  Every kind of node-local contact
// occurs on some replica; which ones a ghost gets on this replica is drawn per ghost, so that ghosts exist that a replica
// met ONLY in a simulation, only in a proposal, only in ReCheckTx ...
func (w *world) gossipBefore(rep *replica, gossip []*seenTx, raws [][]byte, tr *Rng) (after []*seenTx) {
	c := rep.c
	tc := rep.cfg.Traffic
	var proposal [][]byte
	for _, s := range gossip {
		simFirst := tr.Bool() // (a simulation after CheckTx meets the sequence CheckTx left in the check state)
		if tc.Simulate && simFirst {
			_, _, err := c.App.BaseApp.Simulate(s.raw)
			w.side.Count(fmt.Sprintf("traffic:gossip:simulate_first:ok=%v", err == nil))
		}
		if rep.cfg.CheckTx {
			switch tr.Intn(4) {
			case 0, 1:
				cr, err := c.CheckTx(s.raw, false)
				w.side.Count(fmt.Sprintf("traffic:gossip:checktx:admitted=%v", err == nil && cr.Code == 0))
				if tr.Bool() {
					after = append(after, s) // and it is still in the mempool after the block
				}
			case 2:
				after = append(after, s) // reaches this node's mempool only after the block
			}
		}
		if tc.Simulate && !simFirst {
			_, _, err := c.App.BaseApp.Simulate(s.raw)
			w.side.Count(fmt.Sprintf("traffic:gossip:simulate:ok=%v", err == nil))
		}
		if (tc.Historic || tc.Window) && s.tx != nil && tr.Chance(60) {
			// a wallet asks before it sends
			if tr.Bool() {
				_, _, err := TwinEthCallAt(c, s.from, s.tx.To(), s.tx.Data(), 0)
				w.side.Count(fmt.Sprintf("traffic:gossip:eth_call:err=%v", err != nil))
			} else {
				_, err := TwinEstimateGasAt(c, s.from, s.tx.To(), s.tx.Data(), 0)
				w.side.Count(fmt.Sprintf("traffic:gossip:estimate_gas:err=%v", err != nil))
			}
		}
		if tc.Proposal > 0 && tr.Chance(70) {
			proposal = append(proposal, s.raw)
		}
	}
	if len(proposal) > 0 {
		// a round whose proposal is NOT the block that gets decided: the ghosts and some of the block's transactions
		for _, bz := range raws {
			if tr.Bool() {
				proposal = append(proposal, bz)
			}
		}
		if tr.Bool() {
			n, err := TwinPrepareProposal(c, proposal)
			w.side.Count(fmt.Sprintf("traffic:gossip:prepare_proposal_other_block:err=%v:kept_all=%v", err != nil, n == len(proposal)))
		}
		accepted, err := TwinProcessProposal(c, proposal)
		w.side.Count(fmt.Sprintf("traffic:gossip:process_proposal_other_block:err=%v:accepted=%v", err != nil, accepted))
	}
	return after
}

// gossipAfter: after the commit the mempool re-checks the ghosts it holds / admits the ones that arrive now
func (w *world) gossipAfter(rep *replica, after []*seenTx, tr *Rng) {
	for _, s := range after {
		recheck := tr.Bool()
		cr, err := rep.c.CheckTx(s.raw, recheck)
		w.side.Count(fmt.Sprintf("traffic:gossip:after_commit:recheck=%v:admitted=%v", recheck, err == nil && cr.Code == 0))
	}
}
