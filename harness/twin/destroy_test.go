package twin

// Destroy-heavy transactions: one call of the multi-caller contract that triggers several self-destructing
// contracts (holding coins of several denominations, so that the commit loop emits bank burns) and touches
// empty / vesting / module / non-existent accounts.  The message is first run by the real TransitionDb on a branch
// of the leader's state; the real cStateDb is inspected right before CommitMultiStore (world of the address universe,
// keys of `touched` / `selfDestructed` in the order Go enumerates them now) and the commit's outcome is observed:
// that is the Coq case (CCommit).  Then the same transaction runs in the block on every replica.

import (
	"fmt"
	"math/big"
	"sort"
	"strings"

	sdkmath "cosmossdk.io/math"
	abci "github.com/cometbft/cometbft/abci/types"
	sdk "github.com/cosmos/cosmos-sdk/types"
	authtypes "github.com/cosmos/cosmos-sdk/x/auth/types"
	vestingtypes "github.com/cosmos/cosmos-sdk/x/auth/vesting/types"
	banktypes "github.com/cosmos/cosmos-sdk/x/bank/types"
	"github.com/ethereum/go-ethereum/common"
	"github.com/ethereum/go-ethereum/core"
	ethtypes "github.com/ethereum/go-ethereum/core/types"
	"github.com/stretchr/testify/require"

	itutiltypes "github.com/EscanBE/evermint/v12/integration_test_util/types"
	evmkeeper "github.com/EscanBE/evermint/v12/x/evm/keeper"
	evmtypes "github.com/EscanBE/evermint/v12/x/evm/types"
	evmvm "github.com/EscanBE/evermint/v12/x/evm/vm"

	. "verifharness/hx"
)

type childSpec struct {
	Addr   common.Address `json:"addr"`
	Benef  string         `json:"beneficiary_kind"`
	benef  common.Address
	Native string `json:"native"`
	Two    string `json:"utwo"`
	Three  string `json:"uthree"`
	native, two, three *big.Int
}

type extraSpec struct {
	Kind string         `json:"kind"`
	Addr common.Address `json:"addr"`
	End  int64          `json:"vesting_end,omitempty"`
}

type destroyPlan struct {
	Children []childSpec `json:"children"`
	Extras   []extraSpec `json:"extras"`
	Straddle bool        `json:"wall_clock_straddle"`
	order    []common.Address
	sender   *itutiltypes.TestAccount
	gas      uint64
	price    *big.Int
	nonce    uint64
}

var failingExtras = map[string]bool{"vest-unexpired": true, "perm-locked": true, "module-empty": true}

// planDestroy draws a scenario. straddleEnd != 0: include a vesting account ending at that (wall-clock based) second,
// which lies before the block time.
func (w *world) planDestroy(r *Rng, straddleEnd int64) *destroyPlan {
	p := &destroyPlan{Straddle: straddleEnd != 0}
	blockTime := w.lead.Time.Unix()
	nc := 2 + r.Intn(5)
	amt := func(pct int, max int64) *big.Int {
		if r.Chance(pct) {
			return big.NewInt(1 + int64(r.Intn(int(max))))
		}
		return big.NewInt(0)
	}
	for i := 0; i < nc; i++ {
		c := childSpec{Addr: w.fresh(), native: amt(60, 1_000_000), two: amt(75, 5000), three: amt(40, 900)}
		switch r.Intn(4) {
		case 0:
			c.Benef, c.benef = "self", c.Addr
		case 1:
			c.Benef, c.benef = "fresh", w.fresh()
		default:
			c.Benef, c.benef = "wallet", w.senders[r.Intn(len(w.senders))].GetEthAddress()
		}
		c.Native, c.Two, c.Three = c.native.String(), c.two.String(), c.three.String()
		p.Children = append(p.Children, c)
	}
	kinds := []string{"vest-expired", "empty-existing", "nonexistent", "funded-wallet", "vest-expired"}
	ne := r.Intn(4)
	for i := 0; i < ne; i++ {
		p.Extras = append(p.Extras, w.mkExtra(r, kinds[r.Intn(len(kinds))], blockTime))
	}
	if straddleEnd != 0 {
		p.Extras = append(p.Extras, extraSpec{Kind: "vest-straddle", Addr: w.fresh(), End: straddleEnd})
	} else if r.Chance(30) {
		fk := []string{"vest-unexpired", "perm-locked", "module-empty"}
		p.Extras = append(p.Extras, w.mkExtra(r, fk[r.Intn(len(fk))], blockTime))
	}
	for _, c := range p.Children {
		p.order = append(p.order, c.Addr)
	}
	for _, e := range p.Extras {
		p.order = append(p.order, e.Addr)
	}
	// call order is part of the transaction: shuffle it
	for i := len(p.order) - 1; i > 0; i-- {
		j := r.Intn(i + 1)
		p.order[i], p.order[j] = p.order[j], p.order[i]
	}
	return p
}

func (w *world) mkExtra(r *Rng, kind string, blockTime int64) extraSpec {
	e := extraSpec{Kind: kind, Addr: w.fresh()}
	switch kind {
	case "vest-expired":
		// ended before the block time; half of them still ahead of the wall clock (block time is 2030)
		if r.Bool() {
			e.End = blockTime - int64(1+r.Intn(3600*24*300))
		} else {
			e.End = 1_500_000_000 + int64(r.Intn(100_000_000))
		}
	case "vest-unexpired":
		e.End = blockTime + int64(1+r.Intn(3600*24*365))
	case "module-empty":
		e.Addr = w.modAcc
	case "funded-wallet":
		e.Addr = w.senders[r.Intn(len(w.senders))].GetEthAddress()
	}
	return e
}

// apply writes the scenario's accounts into one replica (between blocks; identical on every replica).
func (p *destroyPlan) apply(w *world, c *Chain) {
	for _, ch := range p.Children {
		placeContract(c, ch.Addr, BuildSelfDestruct(ch.benef))
		for i, a := range []*big.Int{ch.native, ch.two, ch.three} {
			if a.Sign() > 0 {
				c.Fund(ch.Addr.Bytes(), w.denoms[i], a)
			}
		}
	}
	ctx := c.Ctx()
	orig := sdk.NewCoins(sdk.NewCoin(w.bond, sdkmath.NewInt(1000)))
	for _, e := range p.Extras {
		switch e.Kind {
		case "vest-expired", "vest-unexpired", "vest-straddle":
			base := c.App.AccountKeeper.NewAccountWithAddress(ctx, e.Addr.Bytes()).(*authtypes.BaseAccount)
			acc, err := vestingtypes.NewDelayedVestingAccount(base, orig, e.End)
			require.NoError(c.T, err)
			acc.DelegatedVesting = orig // everything delegated: the bank balance is zero
			c.App.AccountKeeper.SetAccount(ctx, acc)
		case "perm-locked":
			base := c.App.AccountKeeper.NewAccountWithAddress(ctx, e.Addr.Bytes()).(*authtypes.BaseAccount)
			acc, err := vestingtypes.NewPermanentLockedAccount(base, orig)
			require.NoError(c.T, err)
			acc.DelegatedVesting = orig
			c.App.AccountKeeper.SetAccount(ctx, acc)
		case "empty-existing":
			placeAccount(c, e.Addr, 0)
		}
	}
}

func (p *destroyPlan) calldata() []byte {
	var out []byte
	for _, a := range p.order {
		out = append(out, a.Bytes()...)
	}
	return out
}

func (p *destroyPlan) expectFail() bool {
	for _, e := range p.Extras {
		if failingExtras[e.Kind] {
			return true
		}
	}
	return false
}

// interesting: addresses whose coin_spent events the oracle follows (never the sender, modules, wallets)
func (p *destroyPlan) interesting() map[string]bool {
	m := map[string]bool{}
	for _, c := range p.Children {
		m[sdk.AccAddress(c.Addr.Bytes()).String()] = true
	}
	return m
}

// ---------------------------------------------------------------- the branch run

type burnObs struct {
	addr  common.Address
	coins sdk.Coins
}

type dryRun struct {
	ok        bool
	touched   []common.Address // Go's enumeration order, this time
	sd        []common.Address
	universe  []common.Address
	entries   []string
	next      uint64
	burns     []burnObs
	exists    map[common.Address]bool
	spends    []string // coin_spent events of the scenario's contracts over execution + commit, in order
	vmErr     string
	blockTime int64
}

func az(a common.Address) string { return CqZ(new(big.Int).SetBytes(a.Bytes())) }

func (w *world) coinsCoq(cs sdk.Coins) string {
	var items []string
	for i, d := range w.denoms {
		if v := cs.AmountOf(d); !v.IsZero() {
			items = append(items, fmt.Sprintf("(%s, %s)", CqZi(int64(i)), CqZ(v.BigInt())))
		}
	}
	for _, c := range cs {
		known := false
		for _, d := range w.denoms {
			known = known || d == c.Denom
		}
		require.Truef(w.t, known, "unexpected denomination %s in the universe", c.Denom)
	}
	return CqList(items)
}

func (w *world) accountCoq(acc sdk.AccountI) string {
	if acc == nil {
		return "None"
	}
	sched := func(kind string, start, end int64, orig, delv sdk.Coins) string {
		return fmt.Sprintf("(Vesting (mkSched %s %s %s %s %s []))", kind, CqZi(start), CqZi(end), w.coinsCoq(orig), w.coinsCoq(delv))
	}
	var kind string
	switch a := acc.(type) {
	case sdk.ModuleAccountI:
		kind = "Module"
	case *vestingtypes.DelayedVestingAccount:
		kind = sched("VDelayed", 0, a.EndTime, a.OriginalVesting, a.DelegatedVesting)
	case *vestingtypes.PermanentLockedAccount:
		kind = sched("VPermanent", 0, a.EndTime, a.OriginalVesting, a.DelegatedVesting)
	case *vestingtypes.ContinuousVestingAccount:
		kind = sched("VContinuous", a.StartTime, a.EndTime, a.OriginalVesting, a.DelegatedVesting)
	case *authtypes.BaseAccount:
		kind = "Base"
	default:
		// evermint's own account types embed BaseAccount and carry no vesting
		if _, ok := acc.(interface{ GetEndTime() int64 }); ok {
			require.Failf(w.t, "unsupported vesting account type", "%T", acc)
		}
		kind = "Base"
	}
	return fmt.Sprintf("(Some (mkAcc %s %s %s))", kind, CqZu(acc.GetSequence()), CqZu(acc.GetAccountNumber()))
}

func (w *world) entryCoq(c *Chain, ctx sdk.Context, a common.Address) string {
	acc := c.App.AccountKeeper.GetAccount(ctx, a.Bytes())
	bal := c.App.BankKeeper.GetAllBalances(ctx, a.Bytes())
	code := int64(0)
	if !evmtypes.IsEmptyCodeHash(c.App.EvmKeeper.GetCodeHash(ctx, a.Bytes())) {
		code = 1
	}
	stor := "[]"
	c.App.EvmKeeper.ForEachStorage(ctx, a, func(_, _ common.Hash) bool {
		stor = "[(1, 1)]"
		return false
	})
	return fmt.Sprintf("(%s, %s, %s, %s, %s)", az(a), w.accountCoq(acc), w.coinsCoq(bal), CqZi(code), stor)
}

func spendsOf(evs []abci.Event, interesting map[string]bool) []string {
	var out []string
	for _, ev := range evs {
		if ev.Type != banktypes.EventTypeCoinSpent {
			continue
		}
		at := EventAttrs(ev)
		if interesting[at[banktypes.AttributeKeySpender]] {
			out = append(out, at[banktypes.AttributeKeySpender]+" "+at[sdk.AttributeKeyAmount])
		}
	}
	return out
}

func (w *world) dryRun(p *destroyPlan) *dryRun {
	c := w.lead
	t := w.t
	from := p.sender.GetEthAddress()
	branch, _ := c.Ctx().CacheContext()
	ctx := branch.WithEventManager(sdk.NewEventManager())
	// what the ante handler does before the message runs: the fee for the whole gas limit goes to the fee collector
	fee := sdk.NewCoins(sdk.NewCoin(w.bond, sdkmath.NewIntFromBigInt(new(big.Int).Mul(p.price, new(big.Int).SetUint64(p.gas)))))
	require.NoError(t, c.App.BankKeeper.SendCoinsFromAccountToModule(ctx, from.Bytes(), authtypes.FeeCollectorName, fee))
	ctx = ctx.WithEventManager(sdk.NewEventManager())

	cfg, err := c.App.EvmKeeper.EVMConfig(ctx, nil)
	require.NoError(t, err)
	inner := evmvm.NewStateDB(ctx, cfg.CoinBase, c.App.EvmKeeper, c.App.AccountKeeper, c.App.BankKeeper)
	to := w.multi
	msg := ethtypes.NewMessage(from, &to, p.nonce, big.NewInt(0), p.gas, p.price, p.price, p.price, p.calldata(), nil, false)
	evm := c.App.EvmKeeper.NewEVM(ctx, msg, cfg, nil, inner)
	gp := core.GasPool(p.gas)
	d := &dryRun{exists: map[common.Address]bool{}, blockTime: ctx.BlockTime().Unix()}
	res, err := evmkeeper.ApplyMessage(evm, msg, &gp, func(st *evmkeeper.StateTransition) { st.SenderPaidTheFee = true })
	require.NoError(t, err, "the generated message must pass TransitionDb's consensus checks")
	if res.Err != nil {
		d.vmErr = res.Err.Error()
	}

	// ---- the real cStateDb right before the commit
	for a := range inner.ForTest_CloneTouched() { // Go's order, now
		d.touched = append(d.touched, a)
	}
	for a := range inner.ForTest_CloneSelfDestructed() {
		d.sd = append(d.sd, a)
	}
	uni := map[common.Address]bool{from: true, w.multi: true}
	for _, a := range d.touched {
		uni[a] = true
	}
	for _, a := range d.sd {
		uni[a] = true
	}
	for _, ch := range p.Children {
		uni[ch.Addr], uni[ch.benef] = true, true
	}
	for _, e := range p.Extras {
		uni[e.Addr] = true
	}
	for a := range uni {
		d.universe = append(d.universe, a)
	}
	sort.Slice(d.universe, func(i, j int) bool { return strings.Compare(d.universe[i].Hex(), d.universe[j].Hex()) < 0 })
	pctx := inner.GetCurrentContext()
	for _, a := range d.universe {
		d.entries = append(d.entries, w.entryCoq(c, pctx, a))
	}
	d.next, err = c.App.AccountKeeper.AccountNumber.Peek(pctx)
	require.NoError(t, err)
	for _, a := range d.sd {
		require.Zerof(t, c.EvmBal(pctx, a).Sign(), "a self-destructed contract still holds the EVM denomination before the commit: %s", a.Hex())
	}

	// ---- the commit itself: events of the deepest context from here on are the commit loop's
	deep := pctx.EventManager()
	before := len(deep.Events())
	pan := CatchPanic(func() { err = inner.CommitMultiStore(true) })
	d.ok = pan == nil && err == nil
	if d.ok {
		for _, ev := range deep.Events()[before:] {
			if ev.Type != banktypes.EventTypeCoinSpent {
				continue
			}
			at := map[string]string{}
			for _, a := range ev.Attributes {
				at[a.Key] = a.Value
			}
			if at[banktypes.AttributeKeySpender] == w.evmModule {
				continue // second half of a burn: the evm module account burns what it received
			}
			sp, err := sdk.AccAddressFromBech32(at[banktypes.AttributeKeySpender])
			require.NoError(t, err)
			coins, err := sdk.ParseCoinsNormalized(at[sdk.AttributeKeyAmount])
			require.NoError(t, err)
			d.burns = append(d.burns, burnObs{addr: common.BytesToAddress(sp), coins: coins})
		}
		for _, a := range d.universe {
			d.exists[a] = c.App.AccountKeeper.HasAccount(ctx, a.Bytes())
		}
		d.spends = spendsOf(ctx.EventManager().ABCIEvents(), p.interesting())
	}
	return d
}

func (w *world) commitCase(p *destroyPlan, d *dryRun) string {
	addrs := func(l []common.Address) string {
		var s []string
		for _, a := range l {
			s = append(s, az(a))
		}
		return CqList(s)
	}
	var burns, exists []string
	for _, b := range d.burns {
		burns = append(burns, fmt.Sprintf("(%s, %s)", az(b.addr), w.coinsCoq(b.coins)))
	}
	for _, a := range d.universe {
		if d.ok {
			exists = append(exists, fmt.Sprintf("(%s, %s)", az(a), CqBool(d.exists[a])))
		}
	}
	return fmt.Sprintf("(CCommit %s [] %s %s %s %s [0; 1; 2] false %s %s %s)",
		CqZi(d.blockTime), CqList(d.entries), CqZu(d.next), addrs(d.touched), addrs(d.sd),
		CqBool(d.ok), CqList(burns), CqList(exists))
}
