package twin

// Driver `twin` (C01): one generated history — genesis, keeper-level set-up between blocks, blocks of mixed
// transactions — executed by k fresh application instances in this process, each under other node-local conditions
// (minimum-gas-prices, evm.tracer, GOMAXPROCS, mempool activity, wall-clock instant, Go's map seeds; replicas 1.. are
// applications started the way `evmd start` starts them from an app.toml in which every setting is moved — world_test.go,
// hx/twin_apptoml.go), then once more by a plain fresh operating-system process and by a process that is a node with
// telemetry enabled and yet another configuration (freshProcess).
//
// Oracle (the property text, no model involved): after every block all instances must agree on the app hash, on every
// transaction result (code, codespace, data, gas wanted, gas used, events with their attributes in order), on the
// block events, the validator updates and the consensus-parameter updates.  A difference is a hit whose signature
// names the first differing field class and the kind of the transaction concerned.
//
// Correspondence (coq/Corr/CorrNondet.v, model coq/Model/Nondet.v): see destroy_test.go (CCommit), genStake (CStake),
// and the price-floor cases (CFloor).

import (
	"crypto/sha256"
	"encoding/hex"
	"encoding/json"
	"fmt"
	"math/big"
	"os"
	"os/exec"
	"path/filepath"
	"sort"
	"strconv"
	"strings"
	"sync"
	"testing"
	"time"

	sdkmath "cosmossdk.io/math"
	abci "github.com/cometbft/cometbft/abci/types"
	sdk "github.com/cosmos/cosmos-sdk/types"
	"github.com/ethereum/go-ethereum/common"
	ethtypes "github.com/ethereum/go-ethereum/core/types"
	"github.com/stretchr/testify/require"
	stakingtypes "github.com/cosmos/cosmos-sdk/x/staking/types"

	evmtypes "github.com/EscanBE/evermint/v12/x/evm/types"
	feemarkettypes "github.com/EscanBE/evermint/v12/x/feemarket/types"

	. "verifharness/hx"
)

func (w *world) wrap(tx *ethtypes.Transaction, from common.Address) ([]byte, *evmtypes.MsgEthereumTx, error) {
	msg := &evmtypes.MsgEthereumTx{}
	if err := msg.FromEthereumTx(tx, from); err != nil {
		return nil, nil, err
	}
	bz, err := w.lead.WrapEthMsg(msg)
	return bz, msg, err
}

// ---------------------------------------------------------------- projection of a block's consensus output

type txProj struct {
	Code      uint32
	Codespace string
	Data      string
	GW, GU    int64
	Events    []string
}

type blockProj struct {
	AppHash    string
	Txs        []txProj
	Events     []string
	ValUpd     []string
	ConsParams string
}

// an event as (type, attributes in order); the `index` flag is a node-local indexing hint (app.toml index-events)
func evStr(ev abci.Event) string {
	var sb strings.Builder
	sb.WriteString(ev.Type)
	sb.WriteString("{")
	for _, a := range ev.Attributes {
		sb.WriteString(a.Key)
		sb.WriteString("=")
		sb.WriteString(a.Value)
		sb.WriteString(";")
	}
	sb.WriteString("}")
	return sb.String()
}

func evStrs(evs []abci.Event) []string {
	out := make([]string, 0, len(evs))
	for _, e := range evs {
		out = append(out, evStr(e))
	}
	return out
}

func project(res *abci.ResponseFinalizeBlock) blockProj {
	p := blockProj{AppHash: hex.EncodeToString(res.AppHash), Events: evStrs(res.Events)}
	for _, tr := range res.TxResults {
		// Log and Info are diagnostics (a recovered panic's log carries a stack trace with goroutine ids): not consensus
		p.Txs = append(p.Txs, txProj{Code: tr.Code, Codespace: tr.Codespace, Data: hex.EncodeToString(tr.Data), GW: tr.GasWanted, GU: tr.GasUsed, Events: evStrs(tr.Events)})
	}
	for _, vu := range res.ValidatorUpdates {
		p.ValUpd = append(p.ValUpd, fmt.Sprintf("%s:%d", vu.PubKey.String(), vu.Power))
	}
	if res.ConsensusParamUpdates != nil {
		p.ConsParams = res.ConsensusParamUpdates.String()
	}
	return p
}

func strsDiff(a, b []string) (int, string) {
	for i := 0; i < len(a) || i < len(b); i++ {
		var x, y string
		if i < len(a) {
			x = a[i]
		} else {
			x = "<absent>"
		}
		if i < len(b) {
			y = b[i]
		} else {
			y = "<absent>"
		}
		if x != y {
			return i, fmt.Sprintf("#%d: %.300s  |vs|  %.300s", i, x, y)
		}
	}
	return -1, ""
}

// firstDiff names the first differing field class (most specific first) and the transaction concerned (-1: the block).
func firstDiff(a, b blockProj) (class string, tx int, detail string) {
	if len(a.Txs) != len(b.Txs) {
		return "tx_count", -1, fmt.Sprintf("%d vs %d", len(a.Txs), len(b.Txs))
	}
	for i := range a.Txs {
		x, y := a.Txs[i], b.Txs[i]
		switch {
		case x.Code != y.Code || x.Codespace != y.Codespace:
			return "tx_code", i, fmt.Sprintf("%s/%d vs %s/%d", x.Codespace, x.Code, y.Codespace, y.Code)
		case x.Data != y.Data:
			return "tx_data", i, fmt.Sprintf("%.200s vs %.200s", x.Data, y.Data)
		case x.GW != y.GW:
			return "tx_gas_wanted", i, fmt.Sprintf("%d vs %d", x.GW, y.GW)
		case x.GU != y.GU:
			return "tx_gas_used", i, fmt.Sprintf("%d vs %d", x.GU, y.GU)
		}
		if j, d := strsDiff(x.Events, y.Events); j >= 0 {
			return "tx_events", i, d
		}
	}
	if j, d := strsDiff(a.Events, b.Events); j >= 0 {
		return "block_events", -1, d
	}
	if j, d := strsDiff(a.ValUpd, b.ValUpd); j >= 0 {
		return "validator_updates", -1, d
	}
	if a.ConsParams != b.ConsParams {
		return "consensus_param_updates", -1, a.ConsParams + " vs " + b.ConsParams
	}
	if a.AppHash != b.AppHash {
		return "app_hash", -1, a.AppHash + " vs " + b.AppHash
	}
	return "", -1, ""
}

// ---------------------------------------------------------------- the driver

type blockDesc struct {
	Index    int      `json:"index"`
	Height   int64    `json:"height"`
	Special  string   `json:"special"`
	Txs      []*genTx `json:"txs"`
	Classes  []string `json:"result_classes"`
	Plan     *destroyPlan `json:"destroy_plan,omitempty"`
	Replicas []string `json:"replicas"`
}

func resClass(tr *abci.ExecTxResult) string {
	if tr.Code == 0 {
		return "ok"
	}
	return fmt.Sprintf("%s/%d", tr.Codespace, tr.Code)
}

// what one execution of a block leaves for the comparison between PROCESSES (see freshProcess)
type blockRec struct {
	Index int       `json:"index"`
	Raws  string    `json:"raw_txs_sha256"`
	Proj  blockProj `json:"projection"`
}

func rawsDigest(raws [][]byte) string {
	h := sha256.New()
	for _, bz := range raws {
		h.Write([]byte(strconv.Itoa(len(bz)) + ":"))
		h.Write(bz)
	}
	return hex.EncodeToString(h.Sum(nil))
}

// freshProcess re-executes the whole history in ANOTHER operating-system process: this test binary started again with
// the same seed and count, one replica, no request traffic, no restarts, another GOMAXPROCS, another wall-clock instant.
// The generator is deterministic (one PRNG, state read from the executing application), so the child signs the same
// transactions as long as its state is the same; it writes, per block, the digest of the raw transactions and the
// projection of the block's consensus output.  Everything a process keeps in package-level variables (caches,
// sync.Once, singletons) is shared by the replicas of THIS process and absent from the child.
//
// cfgVariant > 0: the child is, in addition, a node whose whole node-local configuration differs from replica 0's
// (childNodeCfg, hx/twin_apptoml.go): telemetry enabled process-wide, go-ethereum metrics, the application started from
// an app.toml in which every setting is moved, start flags (trace, inv-check-period, log level, trace store), its own
// request traffic.  Telemetry is a package-level switch of cosmos-sdk/telemetry: replicas of one process cannot differ in it.
func freshProcess(t *testing.T, dir string, seed uint64, n int, straddleEnd int64, cfgVariant int) ([]blockRec, string) {
	name := "fresh_process"
	procs := "GOMAXPROCS=2"
	if cfgVariant > 0 {
		name = fmt.Sprintf("node_config_process_%d", cfgVariant)
		procs = "GOMAXPROCS=6"
	}
	out := filepath.Join(dir, name+".json")
	_ = os.Remove(out)
	childDir := filepath.Join(dir, name+"_out")
	cmd := exec.Command(os.Args[0], "-test.run", "^TestDriverTwin$", "-test.count", "1", "-test.timeout", "2400s")
	cmd.Env = append(os.Environ(), "VERIF_TWIN_CHILD="+out, "VERIF_OUT="+childDir, fmt.Sprintf("VERIF_SEED=%d", seed), fmt.Sprintf("VERIF_N=%d", n),
		fmt.Sprintf("VERIF_TWIN_STRADDLE_END=%d", straddleEnd), fmt.Sprintf("VERIF_TWIN_CHILD_CFG=%d", cfgVariant), procs)
	log, err := cmd.CombinedOutput()
	tail := string(log)
	if len(tail) > 1500 {
		tail = tail[len(tail)-1500:]
	}
	if err != nil {
		return nil, "the child process failed: " + err.Error() + "\n" + tail
	}
	bz, err := os.ReadFile(out)
	if err != nil {
		return nil, "the child process left no record: " + err.Error() + "\n" + tail
	}
	var recs []blockRec
	if err := json.Unmarshal(bz, &recs); err != nil {
		return nil, "unreadable record: " + err.Error()
	}
	return recs, ""
}

func TestDriverTwin(t *testing.T) {
	dir := OutDir(t)
	seed := EnvSeed()
	n := EnvInt("VERIF_N", 40)
	k := 3
	if thoroughTier() {
		k = 8
	}
	k = EnvInt("VERIF_TWIN_K", k)
	childOut := os.Getenv("VERIF_TWIN_CHILD")
	isChild := childOut != ""
	childCfg := 0
	if isChild {
		k = 1
		childCfg = EnvInt("VERIF_TWIN_CHILD_CFG", 0)
	}
	var recs []blockRec
	var descs []blockDesc
	var straddleUsed int64
	rng := NewRng(seed)
	side := NewSidecar("twin", seed,
		"case = one block of the generated history (a destroy-heavy multi-call or a staking-precompile transfer() first, calls to an ERC-20 precompile deployed BY MESSAGE in the previous block, then 0-6 transactions of 21 kinds "+
			"(incl. constructors calling custom precompiles, calls to the address the next deployment will get, same-nonce pairs) x 6 malformations x fee variants, a MsgDeployErc20ContractRequest by a whitelisted / other sender last, only or first in the block, "+
			"feemarket minimum changed between blocks now and then) executed by k application instances started from identical genesis under different node-local conditions "+
			"(minimum-gas-prices, evm.tracer none/access_list/struct/json/markdown, GOMAXPROCS, CheckTx traffic in block or reverse order, restarts from the database, wall-clock instant incl. one block straddling a vesting end time, Go map seeds, "+
			"and each replica's own request traffic: eth_call / estimateGas / cpc queries pinned to OLDER heights, CheckTx / simulation / eth_call between FinalizeBlock and Commit, simulated deployments never included; replica 0 serves none), "+
			"and once more by a FRESH operating-system process (one replica, no traffic) and by a process that is a node with ANOTHER node-local configuration throughout (telemetry enabled process-wide, go-ethereum metrics, "+
			"app.toml with every setting moved, start flags, debug logger, store tracing, crisis invariant checks, state-sync snapshots, its own traffic) whose per-block outputs must equal replica 0's; "+
			"blocks also begin with transactions at the boundary of being refused by the state transition (value vs balance of a fresh account: CApply cases), contain gas hogs that exhaust the block gas limit, Cosmos transactions failing at every stage; "+
			"replicas 1.. also meet 'ghost' transactions that are never included as they are (CheckTx / ReCheckTx / simulation / eth_call / estimateGas / proposals of blocks never finalized) and blocks contain variants of what the replicas met "+
			"in this or an earlier block, included or not: the same inner Ethereum transaction in a wrapper with another From (funded account with sequence = inner nonce, unfunded, other sequence, regular sender, no account) / declared fee / gas limit, "+
			"the wrapper repeated, the inner transaction signed again by another key, Cosmos envelopes with the same signature around another body / fee (histogram variant:*, variant-source:*, variant-outcome:*); "+
			"a replica on which FinalizeBlock panics while others execute the block is a hit; "+
			"non-trivial = at least one transaction executed (code 0) and (a destroy / transfer() special or >= 3 transactions); distinct by (special, kinds, malformations, result classes)")
	cases := NewCases(dir, "From Evm Require Import CorrBase Destroy Nondet CorrNondet.", "nd_mismatches")
	w := newWorld(t, k, side, childCfg)
	side.Extra["replicas"] = w.describeCfgs()
	// which node-local options does the code under test read at all?  (the list the harness mirrors: hx/twin_apptoml.go)
	optReads, err := TwinAppOptionReads(repoDir())
	require.NoError(t, err)
	sweepDiff := ""
	if j, d := strsDiff(TwinKnownAppOptionReads, optReads); j >= 0 {
		sweepDiff = d
	}
	side.Extra["app_option_reads"] = optReads
	straddleAt := n / 2
	enumOrders := map[string]bool{}

	for b := 0; b < n; b++ {
		r := rng.Fork(uint64(b))
		w.used = map[common.Address]bool{}
		// process lifetime: some replicas are restarted now and then (a new application instance opened on the replica's
		// database, configured through app options); only right after a commit, nothing is pending in the stores then
		rr := r.Fork(777) // its own stream: the number of replicas must not influence the generated history
		afterDeploy := w.pendingFresh != nil
		for _, rep := range w.reps {
			if rep.idx%3 == 1 && (b%37 == 17 || rr.Chance(5) || (afterDeploy && rr.Bool())) {
				// every restart with other store settings of app.toml (inter-block cache, IAVL cache size, fast node)
				rep.restarts++
				rep.restartedAt = rep.c.Height
				if rep.cfg.AppToml > 0 {
					// the whole start-up path, every restart with the next app.toml variant
					w.restartNode(rep)
				} else {
					require.NoError(t, TwinRestart(rep.c, rep.cfg.MinGas, rep.cfg.Tracer, TwinNodeStoreOptions(rep.restarts)...))
					side.Count(fmt.Sprintf("replica_restart_store_options_variant:%d", rep.restarts%3))
					tr, err := TwinGetEvmTracer(rep.c.App)
					require.NoError(t, err)
					require.Equal(t, rep.cfg.Tracer, tr, "the restarted instance did not take evm.tracer from its app options")
				}
				side.Count("replica_restarted_from_db")
			}
		}
		// a governance-like change of the feemarket minimum between blocks, identical on every replica
		if r.Chance(12) {
			choice := r.Intn(3)
			extra := r.BigBits(70)
			w.each(func(c *Chain) {
				ctx := c.Ctx()
				p := c.App.FeeMarketKeeper.GetParams(ctx)
				switch choice {
				case 0:
					p.MinGasPrice = sdkmath.LegacyZeroDec()
				case 1:
					p.MinGasPrice = sdkmath.LegacyNewDecFromBigIntWithPrec(new(big.Int).Add(new(big.Int).Mul(c.BaseFee(ctx), e18(1)), extra), 18)
				default:
					p.MinGasPrice = feemarkettypes.DefaultMinGasPrice
				}
				require.NoError(t, c.App.FeeMarketKeeper.SetParams(ctx, p))
			})
			side.Count("setup:feemarket_min_gas_price_changed")
		}
		base, gminDec, _ := w.floorNow()

		// ---- the block's transactions
		var gen []*genTx
		special := "none"
		var straddleEnd int64
		switch {
		case b == straddleAt:
			special = "destroy-straddle"
			straddleEnd = time.Now().Unix() + 2
			if isChild {
				// the vesting end the parent process drew (by now in the past of the wall clock)
				straddleEnd = int64(EnvInt("VERIF_TWIN_STRADDLE_END", int(straddleEnd)))
			}
			straddleUsed = straddleEnd
		case r.Chance(35):
			special = "destroy"
		case r.Chance(40):
			special = "stake-transfer"
		}
		// their own streams: the draws above stay what they were
		ra := r.Fork(4242)
		switch {
		case b == straddleAt:
		case b%50 == 7:
			special = "apply-error" // every history of >= 8 blocks has one (the draws above were made all the same)
		case b%50 == 23:
			special = "gas-exhaust"
		case special != "none":
		case ra.Chance(22):
			special = "apply-error"
		case ra.Chance(6):
			special = "gas-exhaust"
		}
		// a deployment of an ERC-20 custom precompiled contract by message: after everything else in the block (mostly) or first
		var deployTx *genTx
		deployLast := true
		if b != straddleAt && r.Chance(14) {
			deployTx = w.genDeploy(r)
			deployLast = r.Chance(75)
		}
		fresh := w.pendingFresh
		w.pendingFresh = nil
		var dry *dryRun
		var plan *destroyPlan
		switch special {
		case "destroy", "destroy-straddle":
			g := w.genDestroy(r, straddleEnd)
			plan = g.plan
			dry = w.dryRun(plan)
			cases.Add(w.commitCase(plan, dry)) // self-contained: the branch run on the leader's state
			gen = append(gen, g)
			if special == "destroy-straddle" {
				// a contract that records TIMESTAMP / NUMBER in the same block
				if s := w.pickSender(r); s != nil {
					_, _, floor := w.floorNow()
					f := feeSpec{price: new(big.Int).Mul(Badd(floor, 1), big.NewInt(2)), tip: big.NewInt(0)}
					gen = append(gen, &genTx{Kind: "clock", Mal: "none", Sender: s.GetEthAddress().Hex(), Gas: 150000, isEth: true,
						raw: w.ethRaw(s, w.chainID, w.lead.Nonce(w.lead.QueryCtx(), s.GetEthAddress()), &w.clock, big.NewInt(0), nil, 150000, f, r), Price: f.price.String(), Tip: "0"})
				}
			}
		case "stake-transfer":
			if g := w.genStake(r); g != nil {
				gen = append(gen, g)
			} else {
				special = "none"
			}
		case "apply-error":
			// one to three transactions whose state transition sits at the boundary of being refused by the core
			for i, m := 0, 1+ra.Intn(3); i < m; i++ {
				gen = append(gen, w.genApplyError(ra))
			}
		case "gas-exhaust":
			gen = append(gen, w.genGasHogs(ra)...)
		}
		if fresh != nil {
			// the block after a deployment begins with calls to the fresh contract
			for i, m := 0, 1+r.Intn(2); i < m; i++ {
				if g := w.genFreshCall(r, *fresh, "cpc-fresh-call"); g != nil {
					gen = append(gen, g)
				}
			}
		}
		if deployTx != nil && !deployLast {
			gen = append(gen, deployTx)
		}
		nmixed := r.Intn(7)
		if deployTx != nil && deployLast && r.Chance(40) {
			nmixed = 0 // the deployment is the only transaction: nothing after it builds an EVM in this block
		}
		for i := 0; i < nmixed; i++ {
			if g := w.genMixed(r); g != nil {
				gen = append(gen, g)
			}
		}
		if r.Chance(15) {
			gen = append(gen, w.genNonceRace(r)...)
		}
		// ghosts (met by replicas 1.. only, never included) and variants of what the replicas met, now or earlier
		rv := r.Fork(9191)
		var gossip []*seenTx
		if EnvInt("VERIF_TWIN_VARIANTS", 1) != 0 {
			gossip = w.genGossip(rv, b)
			gen = w.addVariants(rv, b, gen, gossip, special)
		}
		if deployTx != nil && deployLast {
			gen = append(gen, deployTx)
		}
		var raws [][]byte
		for _, g := range gen {
			raws = append(raws, g.raw)
		}

		// ---- execution on every replica
		height := w.lead.Height
		projs := make([]blockProj, len(w.reps))
		var halted []string
		var res0 *abci.ResponseFinalizeBlock
		for i, rep := range w.reps {
			if special == "destroy-straddle" && !isChild {
				half := (len(w.reps) + 1) / 2
				if i < half {
					require.Lessf(t, time.Now().Unix(), straddleEnd, "the first replicas must run before the vesting end (wall clock)")
				} else {
					for time.Now().Unix() <= straddleEnd {
						time.Sleep(50 * time.Millisecond)
					}
				}
			}
			res, err := rep.runOn(w, raws, gossip, r.Fork(uint64(1000+rep.idx)))
			if err != nil {
				halted = append(halted, fmt.Sprintf("%s: %.300s", w.describeCfgs()[i], err.Error()))
				continue
			}
			require.Equal(t, len(raws), len(res.TxResults))
			projs[i] = project(res)
			if res0 == nil {
				res0 = res
			}
		}
		if len(halted) > 0 {
			// a node on which FinalizeBlock / Commit panics or fails halts; the others go on
			var gd []string
			for _, g := range gen {
				gd = append(gd, g.Kind+"/"+g.Mal)
			}
			desc := blockDesc{Index: b, Height: height, Special: special, Txs: gen, Replicas: w.describeCfgs()}
			if len(halted) == len(w.reps) {
				t.Fatalf("block %d (%s) cannot be executed on any replica: %s", b, strings.Join(gd, ","), halted[0])
			}
			side.Hit("C01/twin/block_execution_halts_on_some_replicas/"+special,
				fmt.Sprintf("block %d (height %d, %s): %d of %d replicas executed the block, the others halted: %s", b, height, strings.Join(gd, ","), len(w.reps)-len(halted), len(w.reps), strings.Join(halted, " | ")), desc)
			side.Count("forked_at_block")
			side.Case(b, fmt.Sprintf("halted-%d", b), false, desc)
			break
		}

		if dk := os.Getenv("VERIF_TWIN_DEBUG_KIND"); dk != "" {
			for ti, g := range gen {
				if g.Kind == dk {
					for ri := range projs {
						fmt.Fprintf(os.Stderr, "DEBUG block %d tx %d %s/%s replica %d: %s/%d gas %d/%d\n", b, ti, g.Kind, g.Mal, ri, projs[ri].Txs[ti].Codespace, projs[ri].Txs[ti].Code, projs[ri].Txs[ti].GW, projs[ri].Txs[ti].GU)
					}
				}
			}
		}
		// ---- oracle: any difference between two executions
		kindOf := func(tx int) string {
			if tx < 0 || tx >= len(gen) {
				return "block"
			}
			return gen[tx].Kind
		}
		var classes []string
		for _, tr := range res0.TxResults {
			classes = append(classes, resClass(tr))
		}
		desc := blockDesc{Index: b, Height: height, Special: special, Txs: gen, Classes: classes, Plan: plan, Replicas: w.describeCfgs()}
		recs = append(recs, blockRec{Index: b, Raws: rawsDigest(raws), Proj: projs[0]})
		descs = append(descs, desc)
		agree := true
		for i := 1; i < len(projs); i++ {
			if class, tx, detail := firstDiff(projs[0], projs[i]); class != "" {
				agree = false
				sig := fmt.Sprintf("C01/twin/%s/%s", class, kindOf(tx))
				if rep := w.reps[i]; class == "app_hash" && rep.restarts > 0 && rep.restartedAt == height {
					// everything else of the block's output agrees and this is the first block of an instance re-created on its database
					sig = "C01/twin/app_hash/after-restart"
				}
				side.Hit(sig,
					fmt.Sprintf("block %d (height %d): replica 0 and replica %d (%s) differ in %s of transaction %d (%s): %s", b, height, w.reps[i].idx, w.describeCfgs()[i], class, tx, kindOf(tx), detail), desc)
				break
			}
		}
		if !agree {
			// the histories have forked: nothing after this block can be compared
			side.Count("forked_at_block")
			side.Case(b, fmt.Sprintf("forked-%d", b), false, desc)
			break
		}

		// ---- correspondence cases and the oracle's second half (branch run vs block)
		anyOk := false
		for i, g := range gen {
			tr := res0.TxResults[i]
			anyOk = anyOk || tr.Code == 0
			side.Count("kind:" + g.Kind)
			side.Count("mal:" + g.Mal)
			side.Count("class:" + resClass(tr))
			if g.deploy {
				w.noteDeploy(g, tr)
				if tr.Code != 0 && g.Mal == "ok" {
					side.Count("cpc-deploy:unexpected-refusal:" + fmt.Sprintf("%.80s", tr.Log))
				}
				side.Count(fmt.Sprintf("cpc-deploy:%s:deployed=%v:last_in_block=%v", g.Mal, tr.Code == 0, i == len(gen)-1))
			}
			if g.Kind == "cpc-fresh-call" || g.Kind == "cpc-new-erc20" || g.Kind == "create-calls-cpc" {
				side.Count(g.Kind + ":" + resClass(tr))
			}
			side.Count("outcome:" + outcomeClass(g, tr))
			if g.Kind == variantKind || g.Kind == cosmosVariantKind {
				side.Count("variant-outcome:" + g.Kind + ":" + strings.SplitN(g.Mal, ":", 2)[0] + ":" + resClass(tr))
			}
			if g.apply != nil {
				if c := w.applyCase(g, tr, i, gen); c != "" {
					cases.Add(c)
				}
			}
			// (a transaction that found no block gas left never reached the ante handler)
			if g.floor && g.isEth && !(tr.Codespace == "sdk" && tr.Code == 11) {
				admitted := !(tr.Codespace == "sdk" && tr.Code == 13)
				cases.Add(fmt.Sprintf("(CFloor %s %s %s %s %s %s %s)", CqZ(base), CqZ(gminDec), CqBool(g.Dyn),
					CqZ(zeroIf(g.Dyn, g.price)), CqZ(zeroIf(!g.Dyn, g.tip)), CqZ(zeroIf(!g.Dyn, g.price)), CqBool(admitted)))
				side.Count(fmt.Sprintf("floor:admitted=%v", admitted))
			}
			if g.stake != nil {
				obs := "None"
				for _, ev := range tr.Events {
					if ev.Type == stakingtypes.EventTypeDelegate && tr.Code == 0 {
						at := EventAttrs(ev)
						amt := strings.TrimSuffix(at["amount"], w.bond)
						z, ok := new(big.Int).SetString(amt, 10)
						require.Truef(t, ok, "delegate event amount %q", at["amount"])
						rank, known := w.valRank[at[stakingtypes.AttributeKeyValidator]]
						require.True(t, known)
						obs = fmt.Sprintf("(Some (%s, %s))", CqZi(rank), CqZ(z))
					}
				}
				if obs == "None" && g.stake.amount.Sign() > 0 && len(g.stake.vals) > 0 {
					// the call failed although the model (which is given a balance that covers the amount) would delegate:
					// the cause lies outside the model (e.g. the balance left after the fee does not cover the amount).
					// C01 is about the choice being the same everywhere (compared across replicas above), not about when
					// transfer() succeeds (C11): count it, emit no model case
					side.Count("stake:failed-outside-model")
				} else {
					cases.Add(fmt.Sprintf("(CStake %s %s %s %s %s)", CqList(g.stake.vals), CqList(g.stake.dels), az(g.stake.caller), CqZ(g.stake.amount), obs))
				}
				side.Count("stake:" + g.stake.class)
				if g.stake.tie {
					side.Count("stake:tie_on_least_tokens")
				}
				side.Count(fmt.Sprintf("stake:delegated=%v", obs != "None"))
			}
		}
		if dry != nil {
			tr := res0.TxResults[0]
			side.Count(fmt.Sprintf("destroy:commit_ok=%v", dry.ok))
			side.Count(fmt.Sprintf("destroy:children=%d", len(plan.Children)))
			for _, e := range plan.Extras {
				side.Count("destroy:extra:" + e.Kind)
			}
			side.Count(fmt.Sprintf("destroy:burn_events=%d", len(dry.burns)))
			if dry.vmErr != "" {
				side.Count("destroy:vm_error")
			}
			// evidence that Go's enumeration really varies: the touched keys as enumerated vs sorted
			ord := make([]string, len(dry.touched))
			for i, a := range dry.touched {
				ord[i] = a.Hex()
			}
			if !sort.StringsAreSorted(lower(ord)) {
				side.Count("destroy:touched_enumerated_out_of_order")
			}
			enumOrders[strings.Join(ord, ",")] = true
			if dry.ok == plan.expectFail() {
				// generator's expectation (informational): failing extras make the commit panic
				side.Count("destroy:outcome_not_as_planned")
			}
			if (tr.Code == 0) != dry.ok {
				side.Hit("C01/twin/branch_run_vs_block/outcome", fmt.Sprintf("block %d: the transaction's code in the block is %s/%d, the same message on a branch of the same state: commit ok=%v", b, tr.Codespace, tr.Code, dry.ok), desc)
			} else if dry.ok {
				got := spendsOf(tr.Events, plan.interesting())
				if j, d := strsDiff(dry.spends, got); j >= 0 {
					side.Hit("C01/twin/branch_run_vs_block/burn_event_order", fmt.Sprintf("block %d: bank events of the destroyed contracts differ between the branch run and the block: %s", b, d), desc)
				}
			}
		}
		w.noteSeen(b, gen, gossip)
		side.Count("special:" + special)
		side.Count(fmt.Sprintf("block_txs:%d", len(gen)))
		if len(res0.ValidatorUpdates) > 0 {
			side.Count("block_with_validator_updates")
		}
		var canon []string
		for i, g := range gen {
			canon = append(canon, g.Kind+"/"+g.Mal+"/"+classes[i])
		}
		side.Case(b, special+"|"+strings.Join(canon, ","), anyOk && (special != "none" || len(gen) >= 3), desc)
	}
	if isChild {
		bz, err := json.Marshal(recs)
		require.NoError(t, err)
		require.NoError(t, os.WriteFile(childOut, bz, 0o644))
		return
	}
	// ---- the same history in a fresh operating-system process
	if EnvInt("VERIF_TWIN_FRESH_PROCESS", 1) != 0 {
		// variant 0 = a plain fresh process; the others = nodes with another node-local configuration, process-wide settings included
		variants := []int{0, 5}
		if thoroughTier() {
			variants = []int{0, 5, 4}
		}
		type childRes struct {
			recs    []blockRec
			problem string
		}
		results := make([]childRes, len(variants))
		var wg sync.WaitGroup
		sem := make(chan struct{}, 2) // at most two children at a time
		for vi, v := range variants {
			wg.Add(1)
			go func(vi, v int) { // the children are separate processes; this process only waits
				defer wg.Done()
				sem <- struct{}{}
				defer func() { <-sem }()
				results[vi].recs, results[vi].problem = freshProcess(t, dir, seed, n, straddleUsed, v)
			}(vi, v)
		}
		wg.Wait()
		for vi, v := range variants {
			label, who := "fresh_process", "a FRESH PROCESS (one replica, no request traffic, never restarted)"
			if v > 0 {
				label = "node_config_process"
				who = fmt.Sprintf("a process of its own that is a node with ANOTHER NODE-LOCAL CONFIGURATION (%s; telemetry enabled process-wide)", childNodeCfgSummary(v))
			}
			child, problem := results[vi].recs, results[vi].problem
			mine := recs
			if problem != "" && len(recs) > 0 {
				// this process executed the history, the other one could not
				side.Hit("C01/twin/"+label+"_halts/history", "the history this process executed cannot be executed by "+who+": "+problem, descs[0])
				child, mine = nil, nil
			}
			hk := fmt.Sprintf("%s:blocks_compared", label)
			if v > 0 {
				hk = fmt.Sprintf("%s:variant_%d:blocks_compared", label, v)
			}
			side.Count(hk)
			side.Histogram[hk] = 0
			for i := range mine {
				if i >= len(child) {
					side.Hit("C01/twin/"+label+"/history_length", fmt.Sprintf("this process executed %d blocks, %s %d", len(mine), who, len(child)), descs[i])
					break
				}
				if class, tx, detail := firstDiff(mine[i].Proj, child[i].Proj); class != "" {
					kind := "block"
					if tx >= 0 && tx < len(descs[i].Txs) {
						kind = descs[i].Txs[tx].Kind
					}
					side.Hit(fmt.Sprintf("C01/twin/%s/%s", class, kind),
						fmt.Sprintf("block %d (height %d): replica 0 of this process and %s differ in %s of transaction %d (%s/%s): %s",
							mine[i].Index, descs[i].Height, who, class, tx, kind, malOf(descs[i], tx), detail), descs[i])
					break
				}
				// same consensus output so far => same state => the deterministic generator must have produced the same block
				require.Equalf(t, mine[i].Raws, child[i].Raws, "block %d: the other process generated other transactions from the same state: the generator is not deterministic", mine[i].Index)
				side.Histogram[hk]++
			}
		}
	}
	if sweepDiff != "" && len(side.OracleHits) == 0 {
		// no difference was observed, but the set of node-local options the code reads is not the one this harness varies:
		// the run cannot vouch for the new one
		t.Fatalf("node-local option sweep: the application options read by cmd/, app/, x/ are not the ones the harness mirrors (hx/twin_apptoml.go TwinKnownAppOptionReads, TwinRestartNode): %s", sweepDiff)
	}
	side.Extra["distinct_touched_enumerations"] = len(enumOrders)
	if cases.Len() == 0 {
		cases.Add("(CFloor 0 0 false 1 0 0 true)") // the history forked before any case: keep the cases file well-formed
	}
	cases.Write(t, 60)
	side.Write(t, dir)
}

// hx.Thorough compares VERIF_TIER with "Thorough"; ./check passes "thorough"
func thoroughTier() bool { return strings.EqualFold(os.Getenv("VERIF_TIER"), "thorough") }

func repoDir() string {
	if d := os.Getenv("VERIF_REPO"); d != "" {
		return d
	}
	return "/repo"
}

func malOf(d blockDesc, tx int) string {
	if tx < 0 || tx >= len(d.Txs) {
		return "-"
	}
	return d.Txs[tx].Mal
}

func childNodeCfgSummary(v int) string {
	c := childNodeCfg(v)
	return fmt.Sprintf("app.toml variant %d through the start-up path, gomaxprocs 6, mempool=%v traffic=%s", v, c.CheckTx, c.Traffic)
}

var coreErrPhrases = []string{"insufficient funds for transfer", "insufficient funds for gas", "intrinsic gas too low", "nonce too low", "nonce too high", "gas limit reached",
	"max fee per gas less than block base fee", "sender not an eoa", "out of gas", "no block gas left", "invalid sequence", "insufficient fee", "insufficient funds", "invalid chain", "recovered"}

// outcomeClass: the class of a transaction's outcome, for the histogram only (it reads the log)
func outcomeClass(g *genTx, tr *abci.ExecTxResult) string {
	lane := "cosmos"
	if g.isEth {
		lane = "eth-call"
		if g.create {
			lane = "eth-create"
		}
	}
	if tr.Code == 0 {
		for _, ev := range tr.Events {
			if ev.Type == evmtypes.EventTypeTxReceipt {
				if e := EventAttrs(ev)[evmtypes.AttributeKeyReceiptVmError]; e != "" {
					if i := strings.Index(e, ":"); i > 0 {
						e = e[:i]
					}
					return lane + ":executed:vm-error:" + e
				}
			}
		}
		return lane + ":executed:success"
	}
	why := "other"
	low := strings.ToLower(tr.Log)
	for _, p := range coreErrPhrases {
		if strings.Contains(low, p) {
			why = p
			break
		}
	}
	stage := "refused"
	if strings.Contains(low, "failed to apply") {
		stage = "state-transition-error"
	}
	return fmt.Sprintf("%s:%s:%s/%d:%s", lane, stage, tr.Codespace, tr.Code, why)
}

// applyCase: the CApply case of a boundary transaction (genApplyError), when the sender's balance right before the
// state transition is known exactly: balance at the beginning of the block - the fee the ante handler took (read from
// the transaction's own first coin_spent event), nothing received from an earlier transaction of the block.
func (w *world) applyCase(g *genTx, tr *abci.ExecTxResult, idx int, gen []*genTx) string {
	a := g.apply
	if tr.Codespace == "sdk" {
		w.side.Count("apply:refused_by_ante:" + a.variant)
		return ""
	}
	var spent *big.Int
	me := sdk.AccAddress(common.HexToAddress(g.Sender).Bytes()).String()
	for _, ev := range tr.Events {
		if ev.Type == "coin_spent" {
			at := EventAttrs(ev)
			if at["spender"] == me {
				z, ok := new(big.Int).SetString(strings.TrimSuffix(at["amount"], w.bond), 10)
				if ok {
					spent = z
				}
				break
			}
		}
	}
	if spent == nil || spent.Cmp(a.fee) != 0 {
		w.side.Count("apply:fee_not_as_computed")
		return ""
	}
	post := new(big.Int).Sub(a.bal0, spent)
	refused := tr.Code != 0
	w.side.Count(fmt.Sprintf("apply:%s:refused=%v", a.variant, refused))
	return fmt.Sprintf("(CApply %s %s %s %s %s)", CqZ(post), CqZ(a.value), CqBool(a.create), CqZ(new(big.Int).SetUint64(uint64(tr.Code))), CqBool(tr.Codespace == "undefined" || tr.Code == 0))
}

func zeroIf(c bool, v *big.Int) *big.Int {
	if c || v == nil {
		return big.NewInt(0)
	}
	return v
}

func lower(l []string) []string {
	out := make([]string, len(l))
	for i, s := range l {
		out[i] = strings.ToLower(s)
	}
	return out
}
