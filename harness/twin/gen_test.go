package twin

// Transaction generator of the `twin` driver: every kind of transaction the property's quantifier names
// (transfers, contract creation, storage, logs, reverts, self-destructs, precompile calls incl. staking
// delegate / transfer / withdraw and ERC-20, Cosmos bank and staking messages, invalid transactions).
// All transactions are signed once, against the leader's state; every replica executes the same bytes.

import (
	"math/big"
	"sort"

	sdkmath "cosmossdk.io/math"
	sdk "github.com/cosmos/cosmos-sdk/types"
	authtypes "github.com/cosmos/cosmos-sdk/x/auth/types"
	banktypes "github.com/cosmos/cosmos-sdk/x/bank/types"
	stakingkeeper "github.com/cosmos/cosmos-sdk/x/staking/keeper"
	stakingtypes "github.com/cosmos/cosmos-sdk/x/staking/types"
	"github.com/ethereum/go-ethereum/common"
	"github.com/ethereum/go-ethereum/core"
	ethtypes "github.com/ethereum/go-ethereum/core/types"
	"github.com/stretchr/testify/require"

	itutiltypes "github.com/EscanBE/evermint/v12/integration_test_util/types"
	cpcabi "github.com/EscanBE/evermint/v12/x/cpc/abi"
	cpctypes "github.com/EscanBE/evermint/v12/x/cpc/types"
	"github.com/ethereum/go-ethereum/crypto"

	. "verifharness/hx"
)

type genTx struct {
	Kind   string `json:"kind"`
	Mal    string `json:"malformation"`
	Sender string `json:"sender"`
	Gas    uint64 `json:"gas"`
	Dyn    bool   `json:"dynamic_fee"`
	Price  string `json:"price_or_cap"`
	Tip    string `json:"tip"`
	raw    []byte
	isEth  bool
	floor  bool // an otherwise valid Ethereum transaction: a CFloor case
	price, tip *big.Int
	stake  *stakePre
	plan   *destroyPlan
	deploy bool // carries MsgDeployErc20ContractRequest
	create bool // an Ethereum transaction without recipient
	apply  *applyPre
}

// an Ethereum transaction whose sender owns exactly fee + base when the block begins: the state transition is refused
// (core error: insufficient funds for transfer) iff value > base; a CApply case
type applyPre struct {
	bal0, fee, value *big.Int
	create           bool
	variant          string
}

var mixedKinds = []string{"transfer", "transfer-fresh", "call-sink", "call-revert", "call-invalid", "call-logger", "store-set", "store-clear",
	"create-ok", "create-ok", "create-fail", "clock", "multi-touch", "cpc-delegate", "cpc-withdraw", "cpc-erc20", "cosmos-send", "cosmos-delegate",
	"cpc-new-erc20", "create-calls-cpc", "call-prospective-cpc"}

var malKinds = []string{"price-below-floor", "stale-nonce", "future-nonce", "wrong-chain-id", "gas-below-intrinsic", "value-above-balance"}

type feeSpec struct {
	dyn        bool
	price, tip *big.Int // price = gas price or fee cap
}

func (w *world) floorNow() (base, gminDec, floor *big.Int) {
	q := w.lead.QueryCtx()
	base = w.lead.BaseFee(q)
	gminDec = w.lead.App.FeeMarketKeeper.GetParams(q).MinGasPrice.BigInt()
	floor = new(big.Int).Set(base)
	if g := new(big.Int).Quo(gminDec, e18(1)); g.Cmp(floor) > 0 {
		floor = g
	}
	return
}

func (w *world) drawFee(r *Rng, floor *big.Int, low bool) feeSpec {
	f := feeSpec{dyn: r.Bool(), tip: big.NewInt(0)}
	switch r.Intn(6) {
	case 0:
		f.price = new(big.Int).Set(floor)
	case 1:
		f.price = Badd(floor, 1)
	case 2:
		f.price = new(big.Int).Mul(floor, big.NewInt(3))
	default:
		f.price = new(big.Int).Add(floor, r.BigBits(28))
	}
	if low && floor.Sign() > 0 {
		f.price = Bsub(floor, int64(1+r.Intn(3)))
		if f.price.Sign() < 0 {
			f.price = big.NewInt(0)
		}
	}
	if f.dyn {
		switch r.Intn(4) {
		case 0:
		case 1:
			f.tip = new(big.Int).Set(f.price)
		default:
			f.tip = new(big.Int).Rsh(r.BigBits(28), uint(r.Intn(20)))
			if f.tip.Cmp(f.price) > 0 {
				f.tip = new(big.Int).Set(f.price)
			}
		}
	}
	return f
}

func (w *world) pickSender(r *Rng) *itutiltypes.TestAccount {
	var free []*itutiltypes.TestAccount
	for _, s := range w.senders {
		if !w.used[s.GetEthAddress()] {
			free = append(free, s)
		}
	}
	if len(free) == 0 {
		return nil
	}
	s := free[r.Intn(len(free))]
	w.used[s.GetEthAddress()] = true
	return s
}

func (w *world) ethRaw(sender *itutiltypes.TestAccount, chainID *big.Int, nonce uint64, to *common.Address, value *big.Int, data []byte, gas uint64, f feeSpec, r *Rng) []byte {
	var td ethtypes.TxData
	switch {
	case f.dyn:
		td = &ethtypes.DynamicFeeTx{ChainID: chainID, Nonce: nonce, GasTipCap: f.tip, GasFeeCap: f.price, Gas: gas, To: to, Value: value, Data: data}
	case r.Bool():
		td = &ethtypes.AccessListTx{ChainID: chainID, Nonce: nonce, GasPrice: f.price, Gas: gas, To: to, Value: value, Data: data}
	default:
		td = &ethtypes.LegacyTx{Nonce: nonce, GasPrice: f.price, Gas: gas, To: to, Value: value, Data: data}
	}
	key, err := sender.PrivateKey.ToECDSA()
	require.NoError(w.t, err)
	tx, err := ethtypes.SignTx(ethtypes.NewTx(td), ethtypes.LatestSignerForChainID(chainID), key)
	require.NoError(w.t, err)
	bz, _, err := w.wrap(tx, sender.GetEthAddress())
	require.NoError(w.t, err)
	return bz
}

func (w *world) stakingPack(name string, args ...interface{}) []byte {
	bz, err := cpcabi.StakingCpcInfo.ABI.Pack(name, args...)
	require.NoError(w.t, err)
	return bz
}

// genMixed draws one transaction of a random kind, possibly malformed. nil = no sender left for this block.
func (w *world) genMixed(r *Rng) *genTx {
	kind := mixedKinds[r.Intn(len(mixedKinds))]
	if kind == "cpc-new-erc20" {
		if len(w.newCpcs) == 0 {
			kind = "cpc-erc20"
		} else {
			return w.genFreshCall(r, w.newCpcs[r.Intn(len(w.newCpcs))], kind)
		}
	}
	sender := w.pickSender(r)
	if sender == nil {
		return nil
	}
	c := w.lead
	q := c.QueryCtx()
	from := sender.GetEthAddress()
	mal := "none"
	if r.Chance(22) {
		mal = malKinds[r.Intn(len(malKinds))]
	}
	_, _, floor := w.floorNow()
	g := &genTx{Kind: kind, Mal: mal, Sender: from.Hex()}

	if kind == "cosmos-send" || kind == "cosmos-delegate" {
		// Cosmos failures of every stage: ante (sequence, fee), message execution (funds, unknown validator, blocked recipient), gas
		cm := "none"
		if r.Chance(35) {
			cm = []string{"amount-above-balance", "bad-target", "stale-sequence", "fee-below-floor", "gas-too-low"}[r.Intn(5)]
		}
		var msg sdk.Msg
		if kind == "cosmos-send" {
			to := w.senders[r.Intn(len(w.senders))].GetCosmosAddress()
			amt := sdkmath.NewInt(int64(1 + r.Intn(1000)))
			switch cm {
			case "amount-above-balance":
				// (more than anything an earlier transaction of the same block could add)
				amt = sdkmath.NewIntFromBigInt(Badd(c.Bal(q, sender.GetCosmosAddress(), "utwo"), 1_000_000))
			case "bad-target":
				to = authtypes.NewModuleAddress(authtypes.FeeCollectorName) // a blocked address
			}
			msg = banktypes.NewMsgSend(sender.GetCosmosAddress(), to, sdk.NewCoins(sdk.NewCoin("utwo", amt)))
		} else {
			v := w.vals[r.Intn(len(w.vals))].op
			amt := e18(int64(1 + r.Intn(3)))
			switch cm {
			case "amount-above-balance":
				amt = new(big.Int).Add(c.Bal(q, sender.GetCosmosAddress(), w.bond), e18(10))
			case "bad-target":
				v = sdk.ValAddress(w.senders[r.Intn(len(w.senders))].GetCosmosAddress()).String() // no such validator
			}
			msg = stakingtypes.NewMsgDelegate(sender.GetCosmosAddress().String(), v, sdk.NewCoin(w.bond, sdkmath.NewIntFromBigInt(amt)))
		}
		price := new(big.Int).Mul(Badd(floor, 1), big.NewInt(2))
		gasLimit := uint64(400000)
		// signed against the leader's own state (the reference suite's keepers belong to another app instance)
		accNum, seq := c.AccNumSeq(sender.GetCosmosAddress())
		switch cm {
		case "stale-sequence":
			if seq == 0 {
				seq = 5
			} else {
				seq--
			}
		case "fee-below-floor":
			if floor.Sign() > 0 {
				price = Bsub(floor, 1)
			} else {
				cm = "none"
			}
		case "gas-too-low":
			gasLimit = uint64(30000 + r.Intn(40000))
		}
		g.Mal = cm
		rt := &RawTx{Msgs: []sdk.Msg{msg}, Fee: c.FeeCoins(new(big.Int).Mul(price, new(big.Int).SetUint64(gasLimit))), Gas: gasLimit}
		require.NoError(w.t, rt.SignDirect(c.ChainID(), sender, accNum, seq))
		bz, err := rt.Encode()
		require.NoError(w.t, err)
		g.raw, g.Gas = bz, gasLimit
		return g
	}

	f := w.drawFee(r, floor, mal == "price-below-floor")
	if mal == "price-below-floor" && floor.Sign() == 0 {
		mal, g.Mal = "none", "none"
	}
	var to *common.Address
	var data []byte
	value := big.NewInt(0)
	gasExec := uint64(0)
	addr := func(a common.Address) *common.Address { return &a }
	switch kind {
	case "transfer":
		to = addr(w.senders[r.Intn(len(w.senders))].GetEthAddress())
		value = big.NewInt(int64(1 + r.Intn(1_000_000)))
	case "transfer-fresh":
		to = addr(w.fresh())
		value = big.NewInt(int64(r.Intn(3))) // zero value: the fresh address is touched and stays non-existent
		gasExec = 30000
	case "call-sink":
		to, gasExec = &w.sink, 3000
		value = big.NewInt(int64(r.Intn(1000)))
	case "call-revert":
		to, gasExec = &w.reverter, 3000
	case "call-invalid":
		to, gasExec = &w.invalid, 30000
	case "call-logger":
		nl := r.Intn(5)
		to, data, gasExec = &w.logger, []byte{byte(nl)}, 3000+uint64(nl)*700
	case "store-set":
		ns := 1 + r.Intn(5)
		to, data, gasExec = &w.store, []byte{byte(ns), byte(1 + r.Intn(200))}, 3000+uint64(ns)*23000
	case "store-clear":
		ns := 1 + r.Intn(5)
		to, data, gasExec = &w.store, []byte{byte(ns), 0}, 3000+uint64(ns)*23000
	case "create-ok":
		data, gasExec = InitCode(rtSink), 60000
		value = big.NewInt(int64(r.Intn(50)))
	case "create-fail":
		data, gasExec = []byte{0xfe}, 40000
	case "call-prospective-cpc":
		// the address the NEXT contract deployed by message will get (or the one after): nothing is registered there
		a := crypto.CreateAddress(cpctypes.CpcModuleAddress, cpcModuleSeq(c)+uint64(r.Intn(2)))
		to, data, gasExec = &a, w.erc20Pack([]string{"symbol", "name", "decimals"}[r.Intn(3)]), 60000
	case "create-calls-cpc":
		// the constructor calls a custom precompiled contract and installs its answer as code
		tg := w.erc20Cpc
		if n := len(w.newCpcs); n > 0 && r.Bool() {
			tg = w.newCpcs[n-1]
		}
		op := OpSTATICCALL
		if r.Bool() {
			op = OpCALL
		}
		data, gasExec = BuildInitProbe(op, tg, w.erc20Pack("symbol")), 120000
	case "clock":
		to, gasExec = &w.clock, 120000
	case "multi-touch":
		to = &w.multi
		n := 1 + r.Intn(4)
		for i := 0; i < n; i++ {
			if r.Bool() {
				data = append(data, w.fresh().Bytes()...)
			} else {
				data = append(data, w.senders[r.Intn(len(w.senders))].GetEthAddress().Bytes()...)
			}
		}
		gasExec = 10000 + uint64(n)*12000
	case "cpc-delegate":
		v := w.vals[r.Intn(len(w.vals))]
		to, data, gasExec = &w.stakingCpc, w.stakingPack("delegate", common.BytesToAddress(v.addr), e18(int64(1+r.Intn(3)))), 1_200_000
	case "cpc-withdraw":
		to, data, gasExec = &w.stakingCpc, w.stakingPack("withdrawRewards"), 1_200_000
	case "cpc-erc20":
		bz, err := cpcabi.Erc20CpcInfo.ABI.Pack("transfer", w.senders[r.Intn(len(w.senders))].GetEthAddress(), big.NewInt(int64(1+r.Intn(5000))))
		require.NoError(w.t, err)
		to, data, gasExec = &w.erc20Cpc, bz, 400_000
	}
	intr, err := core.IntrinsicGas(data, nil, to == nil, true, true)
	require.NoError(w.t, err)
	gas := intr + gasExec + uint64(r.Intn(30000))
	switch r.Intn(10) {
	case 0:
		gas = intr // nothing left for the execution
	case 1:
		gas = intr + gasExec/2
	}
	nonce := c.Nonce(q, from)
	chainID := w.chainID
	switch mal {
	case "stale-nonce":
		if nonce == 0 {
			nonce = 7
		} else {
			nonce--
		}
	case "future-nonce":
		nonce += 1 + uint64(r.Intn(3))
	case "wrong-chain-id":
		chainID = new(big.Int).Add(w.chainID, big.NewInt(int64(1+r.Intn(5))))
	case "gas-below-intrinsic":
		gas = intr - 1
		if gas < 20999 {
			gas = 20999
		}
	case "value-above-balance":
		value = new(big.Int).Add(c.EvmBal(q, from), big.NewInt(1))
	}
	g.raw = w.ethRaw(sender, chainID, nonce, to, value, data, gas, f, r)
	g.create = to == nil
	g.isEth, g.Gas, g.Dyn, g.price, g.tip = true, gas, f.dyn, f.price, f.tip
	g.Price, g.Tip = f.price.String(), f.tip.String()
	g.floor = mal == "none" || mal == "price-below-floor"
	return g
}

// ---------------------------------------------------------------- state transitions refused by the core (ApplyTransaction returns an error)

// genApplyError: the first transaction of its block, by a fresh account that every replica funds (between blocks) with
// exactly gas x price + base.  The ante handler in deliver mode takes the fee and lets the transaction pass (the
// simulation that would refuse it runs in CheckTx only); TransitionDb refuses it iff value > base.  Values sit on
// both sides of the boundary, for calls, plain transfers and creations.
func (w *world) genApplyError(r *Rng) *genTx {
	w.nextPauper++
	acc := w.ref.DetAccount("twin-pauper", w.nextPauper)
	from := acc.GetEthAddress()
	_, _, floor := w.floorNow()
	price := new(big.Int).Mul(Badd(floor, 1), big.NewInt(int64(2+r.Intn(3))))
	var to *common.Address
	var data []byte
	gas := uint64(21000)
	kind := "apply-transfer"
	switch r.Intn(3) {
	case 0:
		a := w.senders[r.Intn(len(w.senders))].GetEthAddress()
		to = &a
	case 1:
		to, gas, kind = &w.sink, 40000, "apply-call"
	default:
		data, kind = InitCode(rtSink), "apply-create"
		intr, err := core.IntrinsicGas(data, nil, true, true, true)
		require.NoError(w.t, err)
		gas = intr + 60000
	}
	fee := new(big.Int).Mul(price, new(big.Int).SetUint64(gas))
	base := []*big.Int{big.NewInt(0), big.NewInt(1), big.NewInt(1000), r.BigBits(60), e18(1)}[r.Intn(5)]
	var value *big.Int
	variant := ""
	switch r.Intn(7) {
	case 0:
		value, variant = Bsub(base, 1), "base-1"
	case 1:
		value, variant = new(big.Int).Set(base), "base"
	case 2, 3:
		value, variant = Badd(base, 1), "base+1"
	case 4:
		value, variant = new(big.Int).Add(base, fee), "base+fee"
	case 5:
		value, variant = new(big.Int).Lsh(big.NewInt(1), 200), "huge"
	default:
		value, variant = new(big.Int).Add(base, r.BigBits(40)), "base+random"
	}
	if value.Sign() < 0 {
		value, variant = big.NewInt(0), "zero"
	}
	bal0 := new(big.Int).Add(fee, base)
	w.each(func(c *Chain) {
		placeAccount(c, from, 0)
		if bal0.Sign() > 0 {
			c.Fund(acc.GetCosmosAddress(), w.bond, bal0)
		}
	})
	f := feeSpec{dyn: false, price: price, tip: big.NewInt(0)}
	g := &genTx{Kind: kind, Mal: variant, Sender: from.Hex(), Gas: gas, isEth: true, create: to == nil, Price: price.String(), Tip: "0",
		apply: &applyPre{bal0: bal0, fee: fee, value: value, create: to == nil, variant: variant}}
	td := &ethtypes.LegacyTx{Nonce: 0, GasPrice: f.price, Gas: gas, To: to, Value: value, Data: data}
	bz, _, err := w.lead.EthTxBytes(acc, td)
	require.NoError(w.t, err)
	g.raw = bz
	return g
}

// genGasHogs: transactions that burn their whole (large) gas limit, together more than the block's gas limit: the later
// ones run into the block gas meter, whatever follows finds no block gas left
func (w *world) genGasHogs(r *Rng) []*genTx {
	maxGas := w.lead.App.BaseApp.GetConsensusParams(w.lead.QueryCtx()).Block.MaxGas
	if maxGas <= 0 {
		return nil
	}
	per := uint64(maxGas)/3 + 1_000_000
	var out []*genTx
	for i, m := 0, 3+r.Intn(2); i < m; i++ {
		s := w.pickSender(r)
		if s == nil {
			break
		}
		_, _, floor := w.floorNow()
		f := feeSpec{dyn: r.Bool(), price: new(big.Int).Mul(Badd(floor, 1), big.NewInt(2)), tip: big.NewInt(0)}
		from := s.GetEthAddress()
		g := &genTx{Kind: "gas-hog", Mal: "none", Sender: from.Hex(), Gas: per, isEth: true, Dyn: f.dyn, Price: f.price.String(), Tip: "0"}
		g.raw = w.ethRaw(s, w.chainID, w.lead.Nonce(w.lead.QueryCtx(), from), &w.invalid, big.NewInt(0), nil, per, f, r)
		out = append(out, g)
	}
	return out
}

// ---------------------------------------------------------------- staking precompile transfer()

type stakePre struct {
	vals   []string // Coq validators in store order
	dels   []string
	caller common.Address
	amount *big.Int
	class  string
	tie    bool // the caller's two least-staked validators hold equal tokens: the operator string decides
}

func (w *world) genStake(r *Rng) *genTx {
	c := w.lead
	q := c.QueryCtx()
	// senders 1 (three delegations), 2 (one), others (none, unless earlier blocks delegated)
	var sender *itutiltypes.TestAccount
	var order []int
	switch r.Intn(4) {
	case 0, 3:
		order = []int{1, 2, 3 + r.Intn(len(w.senders)-3)}
	case 1:
		order = []int{2, 3 + r.Intn(len(w.senders)-3), 1}
	default:
		order = []int{3 + r.Intn(len(w.senders)-3), 0, 1, 2}
	}
	for _, i := range order {
		if !w.used[w.senders[i].GetEthAddress()] {
			sender = w.senders[i]
			break
		}
	}
	if sender == nil {
		return nil
	}
	w.used[sender.GetEthAddress()] = true
	from := sender.GetEthAddress()
	amount := e18(int64(1 + r.Intn(3)))
	if r.Chance(10) {
		amount = big.NewInt(0) // refused: no delegation
	} else if r.Chance(30) {
		amount = new(big.Int).Add(amount, r.BigBits(50))
	}
	sp := &stakePre{caller: from, amount: amount}
	if w.equaliseLowest(r, from) {
		sp.tie = true
		q = c.QueryCtx()
	}
	all, err := c.App.StakingKeeper.GetAllValidators(q) // store order
	require.NoError(w.t, err)
	for _, v := range all {
		sp.vals = append(sp.vals, "(mkVal "+CqZi(w.valRank[v.OperatorAddress])+" "+CqZ(v.Tokens.BigInt())+" "+CqBool(v.IsBonded())+")")
	}
	dels, err := c.App.StakingKeeper.GetAllDelegatorDelegations(q, from.Bytes())
	require.NoError(w.t, err)
	for _, d := range dels {
		sp.dels = append(sp.dels, "("+az(from)+", "+CqZi(w.valRank[d.ValidatorAddress])+", "+CqZ(d.Shares.TruncateInt().BigInt())+")")
	}
	switch {
	case amount.Sign() == 0:
		sp.class = "refused-zero"
	case len(dels) == 0:
		sp.class = "case1-median-of-bonded"
	case len(dels) == 1:
		sp.class = "case2-the-one"
	default:
		sp.class = "case3-least-of-mine"
	}
	_, _, floor := w.floorNow()
	f := feeSpec{dyn: false, price: new(big.Int).Mul(Badd(floor, 1), big.NewInt(2)), tip: big.NewInt(0)}
	g := &genTx{Kind: "cpc-staking-transfer", Mal: "none", Sender: from.Hex(), Gas: 1_500_000, isEth: true, stake: sp}
	g.raw = w.ethRaw(sender, w.chainID, c.Nonce(q, from), &w.stakingCpc, big.NewInt(0), w.stakingPack("transfer", from, amount), g.Gas, f, r)
	g.Price, g.Tip = f.price.String(), "0"
	return g
}

func (w *world) genDestroy(r *Rng, straddleEnd int64) *genTx {
	sender := w.pickSender(r)
	require.NotNil(w.t, sender)
	p := w.planDestroy(r, straddleEnd)
	p.sender = sender
	w.each(func(c *Chain) { p.apply(w, c) })
	q := w.lead.QueryCtx()
	_, _, floor := w.floorNow()
	p.price = new(big.Int).Mul(Badd(floor, 1), big.NewInt(2))
	p.gas = 400_000 + uint64(len(p.order))*60_000
	p.nonce = w.lead.Nonce(q, sender.GetEthAddress())
	g := &genTx{Kind: "destroy", Mal: "none", Sender: sender.GetEthAddress().Hex(), Gas: p.gas, isEth: true, plan: p, Price: p.price.String(), Tip: "0"}
	td := &ethtypes.LegacyTx{Nonce: p.nonce, GasPrice: p.price, Gas: p.gas, To: &w.multi, Value: big.NewInt(0), Data: p.calldata()}
	bz, _, err := w.lead.EthTxBytes(sender, td)
	require.NoError(w.t, err)
	g.raw = bz
	return g
}

// equaliseLowest: when the caller delegates to several bonded validators, now and then a third party delegates
// (keeper-level, on every replica, between blocks) exactly the difference between the two least-staked of them,
// so that transfer()'s comparison has to fall back on the operator string.
func (w *world) equaliseLowest(r *Rng, caller common.Address) bool {
	c := w.lead
	q := c.QueryCtx()
	dels, err := c.App.StakingKeeper.GetAllDelegatorDelegations(q, caller.Bytes())
	require.NoError(w.t, err)
	if len(dels) < 2 || !r.Chance(80) {
		return false
	}
	type vt struct {
		op     string
		tokens *big.Int
	}
	var mine []vt
	for _, d := range dels {
		bz, err := c.App.StakingKeeper.ValidatorAddressCodec().StringToBytes(d.ValidatorAddress)
		require.NoError(w.t, err)
		v, err := c.App.StakingKeeper.GetValidator(q, bz)
		require.NoError(w.t, err)
		if v.IsBonded() {
			mine = append(mine, vt{d.ValidatorAddress, v.Tokens.BigInt()})
		}
	}
	if len(mine) < 2 {
		return false
	}
	sort.Slice(mine, func(i, j int) bool { return mine[i].tokens.Cmp(mine[j].tokens) < 0 })
	diff := new(big.Int).Sub(mine[1].tokens, mine[0].tokens)
	if diff.Cmp(e18(200)) > 0 {
		return false // not worth the helper's funds
	}
	if diff.Sign() > 0 {
		helper := w.senders[0]
		w.each(func(rc *Chain) {
			ms := stakingkeeper.NewMsgServerImpl(rc.App.StakingKeeper)
			_, err := ms.Delegate(rc.Ctx(), stakingtypes.NewMsgDelegate(helper.GetCosmosAddress().String(), mine[0].op, sdk.NewCoin(w.bond, sdkmath.NewIntFromBigInt(diff))))
			require.NoError(w.t, err)
		})
	}
	return true
}
