package twin

// World of the `twin` driver (C01): k application instances ("replicas") started from byte-identical genesis, each
// with its own node-local configuration, and the set-up every replica receives identically between blocks.

import (
	"encoding/hex"
	"fmt"
	"math/big"
	"os"
	"path/filepath"
	"runtime"
	"sort"
	"testing"
	"time"

	sdkmath "cosmossdk.io/math"
	storetypes "cosmossdk.io/store/types"
	abci "github.com/cometbft/cometbft/abci/types"
	"github.com/cosmos/cosmos-sdk/telemetry"
	sdk "github.com/cosmos/cosmos-sdk/types"
	authtypes "github.com/cosmos/cosmos-sdk/x/auth/types"
	stakingkeeper "github.com/cosmos/cosmos-sdk/x/staking/keeper"
	stakingtypes "github.com/cosmos/cosmos-sdk/x/staking/types"
	"github.com/ethereum/go-ethereum/common"
	gethmetrics "github.com/ethereum/go-ethereum/metrics"
	"github.com/stretchr/testify/require"

	itutiltypes "github.com/EscanBE/evermint/v12/integration_test_util/types"
	cpctypes "github.com/EscanBE/evermint/v12/x/cpc/types"
	evmtypes "github.com/EscanBE/evermint/v12/x/evm/types"

	. "verifharness/hx"
)

// ---------------------------------------------------------------- node-local configuration

type nodeCfg struct {
	MinGas  string     `json:"minimum_gas_prices"`
	Tracer  string     `json:"evm_tracer"`
	Procs   int        `json:"gomaxprocs"` // 0 = leave as is
	CheckTx bool       `json:"mempool_activity"`
	Traffic trafficCfg `json:"request_traffic"` // what the node serves besides executing blocks (traffic_test.go)
	// AppToml > 0: the replica runs on an application built through the genuine start-up path (hx/twin_apptoml.go:
	// app.toml written with evermint's template, read back with viper, cmd/evmd newApp's options, a real logger,
	// store tracing, crisis invariant checks, state-sync snapshots, query services registered) from the first block on,
	// every restart with the next variant.  0 = the application the integration suite's constructor built.
	AppToml int `json:"app_toml_variant"`
}

// what an operator could put into app.toml / flags; replica 0 is the plain node
func nodeCfgs(denom string) []nodeCfg {
	return []nodeCfg{
		{MinGas: "", Tracer: "", Procs: 0, CheckTx: false},
		{MinGas: "1000000000000000" + denom, Tracer: "access_list", Procs: 1, CheckTx: true, Traffic: trafficCfg{Historic: true}, AppToml: 1},
		{MinGas: "7" + denom, Tracer: "struct", Procs: 4, CheckTx: true, Traffic: trafficCfg{Window: true, Simulate: true, Ghost: true, Reverse: true, Proposal: 2}, AppToml: 2},
		{MinGas: "", Tracer: "json", Procs: 2, CheckTx: true, Traffic: trafficCfg{Historic: true, Ghost: true, Proposal: 1}},
		{MinGas: "123456789" + denom, Tracer: "markdown", Procs: 8, CheckTx: false, Traffic: trafficCfg{Window: true}, AppToml: 4},
		{MinGas: "", Tracer: "access_list", Procs: 3, CheckTx: false, Traffic: trafficCfg{Proposal: 2}},
		{MinGas: "1" + denom, Tracer: "", Procs: 16, CheckTx: true, Traffic: trafficCfg{Historic: true, Window: true, Simulate: true, Ghost: true}, AppToml: 6},
		{MinGas: "999999999999999999999" + denom, Tracer: "struct", Procs: 1, CheckTx: true, Traffic: trafficCfg{Historic: true, Reverse: true, Proposal: 1}, AppToml: 7},
	}
}

// the configuration of the only replica of a child process started with VERIF_TWIN_CHILD_CFG=<variant> (> 0): a node
// that differs from replica 0 of the parent process in EVERY node-local setting, the process-wide ones included
// (telemetry enabled with global labels and prometheus retention, go-ethereum metrics)
func childNodeCfg(variant int) nodeCfg {
	return nodeCfg{MinGas: "", Tracer: "", Procs: 5, CheckTx: true, Traffic: trafficCfg{Window: true, Simulate: true, Proposal: 2}, AppToml: variant}
}

type replica struct {
	idx         int
	c           *Chain
	cfg         nodeCfg
	firstHeight int64 // oldest height the traffic asks about (committed after the set-up)
	restarts    int
	restartedAt int64 // height of the first block the present instance executes (0: the instance the replica was created with)
	node        *TwinNode // the parsed app.toml + flags the running instance was built from (nil: the suite's constructor)
}

// ---------------------------------------------------------------- world

type valInfo struct {
	op   string // bech32 operator
	addr sdk.ValAddress
	rank int64 // position of op among all operators in string order: the key of validatorSortFunc's tie-break
}

type world struct {
	t       *testing.T
	ref     *Chain
	reps    []*replica
	lead    *Chain
	bond    string
	denoms  []string // denom ids of the Coq cases: index in this list
	senders []*itutiltypes.TestAccount
	byAddr  map[common.Address]*itutiltypes.TestAccount
	chainID *big.Int
	vals    []valInfo
	valRank map[string]int64

	multi, sink, reverter, invalid, logger, store, clock common.Address
	stakingCpc, erc20Cpc                                 common.Address
	modAcc                                               common.Address // an application module account with no coins
	evmModule                                            string

	nextFresh  uint64
	nextPauper int
	used      map[common.Address]bool // senders that already have a transaction in the block being generated

	side         *Sidecar
	trafficAcc   *itutiltypes.TestAccount // signs the traffic's probe transactions; never has a transaction in a block
	nextDenom    int                      // next pool denomination without a contract
	newCpcs      []common.Address         // ERC-20 precompiles deployed by message during the history
	pendingFresh *common.Address          // deployed in the previous block: the next block begins with calls to it
	home         string                   // root of the replicas' node home directories (app.toml, snapshots)
	seen         []*seenTx                // Ethereum transactions replicas 1.. met outside block execution (variants_test.go)
	seenGhost    []*seenTx                // ... and never included as they are (ghosts)
	nextVictim   int
	processWide  string                   // what this process enabled process-wide (telemetry, geth metrics)
}

func e18(n int64) *big.Int { return new(big.Int).Mul(big.NewInt(n), new(big.Int).Exp(big.NewInt(10), big.NewInt(18), nil)) }

var (
	rtSink     = []byte{0x00}
	rtReverter = []byte{0x60, 0x00, 0x60, 0x00, 0xfd}
	rtInvalid  = []byte{0xfe}
	// n = calldata[0]; n times LOG0(0,0)
	rtLogger = []byte{0x60, 0x00, 0x35, 0x60, 0xf8, 0x1c, 0x5b, 0x80, 0x15, 0x60, 0x18, 0x57, 0x60, 0x00, 0x60, 0x00, 0xa0, 0x60, 0x01, 0x90, 0x03, 0x60, 0x06, 0x56, 0x5b, 0x00}
	// n = calldata[0], v = calldata[1]; for k = n..1: SSTORE(k, v)
	rtStore = []byte{0x60, 0x00, 0x35, 0x80, 0x60, 0xf8, 0x1c, 0x90, 0x60, 0xf0, 0x1c, 0x60, 0xff, 0x16, 0x5b, 0x81, 0x15, 0x60, 0x20, 0x57, 0x80, 0x82, 0x55, 0x90, 0x60, 0x01, 0x90, 0x03, 0x90, 0x60, 0x0e, 0x56, 0x5b, 0x00}
)

func fixedAddr(tag byte, i int) common.Address {
	return common.BytesToAddress([]byte{0xC0, 0x01, tag, 0, 0, 0, 0, 0, 0, 0, 0, 0, 0, 0, 0, 0, 0, 0, byte(i >> 8), byte(i)})
}

func newWorld(t *testing.T, k int, side *Sidecar, childCfg int) *world {
	ref := NewChain(t, time.Time{})
	w := &world{t: t, ref: ref, side: side, byAddr: map[common.Address]*itutiltypes.TestAccount{}, valRank: map[string]int64{}, home: t.TempDir()}
	if childCfg > 0 {
		// what server/start.go does once per process, BEFORE any replica exists: this whole process is a node with telemetry
		n, err := TwinWriteAppToml(filepath.Join(w.home, "process"), childCfg, ref.Denom(), "", "")
		require.NoError(t, err)
		require.NoError(t, TwinStartProcessWide(n))
		require.True(t, telemetry.IsTelemetryEnabled(), "the node-configuration child must run with telemetry enabled")
		w.processWide = fmt.Sprintf("telemetry enabled (labels %v, retention %ds), go-ethereum metrics %v", n.Config.Telemetry.GlobalLabels, n.Config.Telemetry.PrometheusRetentionTime, gethmetrics.Enabled)
	} else {
		require.False(t, telemetry.IsTelemetryEnabled(), "replica 0's process is the default node: telemetry off")
	}
	w.multi, w.sink, w.reverter, w.invalid = fixedAddr(1, 1), fixedAddr(1, 2), fixedAddr(1, 3), fixedAddr(1, 4)
	w.logger, w.store, w.clock = fixedAddr(1, 5), fixedAddr(1, 6), fixedAddr(1, 7)
	w.stakingCpc = cpctypes.CpcStakingFixedAddress
	w.modAcc = common.BytesToAddress(authtypes.NewModuleAddress("verif-empty-module"))
	w.evmModule = authtypes.NewModuleAddress(evmtypes.ModuleName).String()
	for i := 1; i <= 5; i++ {
		w.senders = append(w.senders, ref.S.WalletAccounts.Number(i))
	}
	for i := 0; i < 7; i++ {
		w.senders = append(w.senders, ref.DetAccount("twin-sender", i))
	}
	for _, s := range w.senders {
		w.byAddr[s.GetEthAddress()] = s
	}
	w.trafficAcc = ref.DetAccount("twin-traffic", 0)
	cfgs := nodeCfgs(ref.Denom())
	for i := 0; i < k; i++ {
		c := NewTwinReplica(t, ref, time.Time{})
		cfg := cfgs[i%len(cfgs)]
		if childCfg > 0 {
			cfg = childNodeCfg(childCfg)
		}
		rep := &replica{idx: i, c: c, cfg: cfg}
		if cfg.AppToml > 0 {
			// from here on (set-up blocks included) the replica is an application started the way `evmd start` starts it
			w.restartNode(rep)
		} else {
			TwinSetMinGasPrices(c.App, cfg.MinGas)
			require.NoError(t, TwinSetEvmTracer(c.App, cfg.Tracer))
		}
		w.reps = append(w.reps, rep)
	}
	w.lead = w.reps[0].c
	w.bond = w.lead.Denom()
	w.denoms = []string{w.bond, "utwo", "uthree"}
	for i := 0; i < nPoolDenoms; i++ {
		w.denoms = append(w.denoms, poolDenom(i))
	}
	w.chainID = w.lead.EvmChainID()

	w.each(func(c *Chain) { w.setupReplica(c) })

	vs, err := w.lead.App.StakingKeeper.GetAllValidators(w.lead.QueryCtx())
	require.NoError(t, err)
	for _, v := range vs {
		bz, err := w.lead.App.StakingKeeper.ValidatorAddressCodec().StringToBytes(v.OperatorAddress)
		require.NoError(t, err)
		w.vals = append(w.vals, valInfo{op: v.OperatorAddress, addr: bz})
	}
	sort.Slice(w.vals, func(i, j int) bool { return w.vals[i].op < w.vals[j].op })
	for i := range w.vals {
		w.vals[i].rank = int64(i)
		w.valRank[w.vals[i].op] = int64(i)
	}
	require.GreaterOrEqual(t, len(w.vals), 3)

	// delegations so that transfer() meets all three cases: sender 1 -> three validators (unequal and equal amounts),
	// sender 2 -> one validator, the others none; then rewards accrue over two voted blocks
	w.each(func(c *Chain) {
		ms := stakingkeeper.NewMsgServerImpl(c.App.StakingKeeper)
		del := func(s int, v int, amt *big.Int) {
			_, err := ms.Delegate(c.Ctx(), stakingtypes.NewMsgDelegate(w.senders[s].GetCosmosAddress().String(), w.vals[v].op, sdk.NewCoin(w.bond, sdkmath.NewIntFromBigInt(amt))))
			require.NoError(t, err)
		}
		del(1, 0, e18(3))
		del(1, 1, e18(1))
		del(1, 2, e18(1))
		del(2, 3%len(w.vals), e18(2))
		c.RunBlockVoted(nil)
		w.accrue(c)
		w.accrue(c)
	})
	w.dropForkedAtSetup()
	for _, rep := range w.reps {
		rep.firstHeight = rep.c.Height - 1
	}
	return w
}

// restartNode: a new application instance on the replica's database, configured from an app.toml of the replica's
// next variant (the replica's own minimum-gas-prices and evm.tracer win over the variant's when set)
func (w *world) restartNode(rep *replica) {
	variant := rep.cfg.AppToml + 8*rep.restarts
	n, err := TwinWriteAppToml(filepath.Join(w.home, fmt.Sprintf("replica%d-%d", rep.idx, rep.restarts)), variant, w.ref.Denom(), rep.cfg.MinGas, rep.cfg.Tracer)
	require.NoError(w.t, err)
	require.NoError(w.t, TwinRestartNode(rep.c, n))
	tr, err := TwinGetEvmTracer(rep.c.App)
	require.NoError(w.t, err)
	require.Equal(w.t, n.Config.EVM.Tracer, tr, "the restarted instance did not take evm.tracer from its app options")
	rep.node = n
	rep.cfg.Tracer = tr // the variant's tracer when the replica has none of its own (runOn silences the printing ones)
	w.side.Count(fmt.Sprintf("replica_started_from_app_toml:variant_mod8=%d", variant%8))
}

func (w *world) each(f func(c *Chain)) {
	for _, r := range w.reps {
		f(r.c)
	}
}

func (w *world) accrue(c *Chain) {
	ctx := c.Ctx()
	coins := sdk.NewCoins(sdk.NewCoin(w.bond, sdkmath.NewIntFromBigInt(e18(30))))
	require.NoError(w.t, c.App.BankKeeper.MintCoins(ctx, evmtypes.ModuleName, coins))
	require.NoError(w.t, c.App.BankKeeper.SendCoinsFromModuleToModule(ctx, evmtypes.ModuleName, authtypes.FeeCollectorName, coins))
	c.RunBlockVoted(nil)
}

// placeAccount creates the auth account for addr if missing (between blocks).
func placeAccount(c *Chain, addr common.Address, seq uint64) {
	ctx := c.Ctx()
	if c.App.AccountKeeper.GetAccount(ctx, addr.Bytes()) == nil {
		acc := c.App.AccountKeeper.NewAccountWithAddress(ctx, addr.Bytes())
		require.NoError(c.T, acc.SetSequence(seq))
		c.App.AccountKeeper.SetAccount(ctx, acc)
	}
}

func placeContract(c *Chain, addr common.Address, code []byte) {
	placeAccount(c, addr, 1)
	c.SetCode(addr, code)
}

func (w *world) setupReplica(c *Chain) {
	ctx := c.Ctx()
	w.erc20Cpc = c.DeployCpcs(w.bond, "utwo")[1]
	sp, err := c.App.StakingKeeper.GetParams(ctx)
	require.NoError(w.t, err)
	sp.MaxEntries = 10000
	require.NoError(w.t, c.App.StakingKeeper.SetParams(ctx, sp))
	for _, s := range w.senders {
		placeAccount(c, s.GetEthAddress(), 0)
		c.Fund(s.GetCosmosAddress(), w.bond, e18(100000))
		c.Fund(s.GetCosmosAddress(), "utwo", e18(5))
	}
	placeContract(c, w.multi, BuildMultiCaller())
	placeContract(c, w.sink, rtSink)
	placeContract(c, w.reverter, rtReverter)
	placeContract(c, w.invalid, rtInvalid)
	placeContract(c, w.logger, rtLogger)
	placeContract(c, w.store, rtStore)
	placeContract(c, w.clock, BuildClock())
	w.setupCpcDeployers(c)
	w.setupGhosts(c)
	// an application module account that holds nothing (touching it makes the commit loop try to delete it)
	c.App.AccountKeeper.SetAccount(ctx, c.App.AccountKeeper.NewAccount(ctx, authtypes.NewEmptyModuleAccount("verif-empty-module")))
	c.RunBlockVoted(nil)
}

// setupFork is the failing input of an app-hash divergence that is already there when the set-up is over: the set-up is
// the same sequence of blocks and between-block writes on every replica, so the only thing that differs is the
// replica's node-local side (configuration, and whether its application instance was re-created on its database).
type setupFork struct {
	Height           int64    `json:"height"` // first height whose committed app hash differs (0: unknown, somewhere up to height_after_set_up)
	HeightAfterSetup int64    `json:"height_after_set_up"`
	Replica          int      `json:"replica"`
	Restarted        bool     `json:"replica_restarted_from_db"` // a new application instance was opened on the replica's database before the height
	Restarts         int      `json:"restarts_during_history"`
	AppHash0         string   `json:"app_hash_replica_0"`
	AppHashReplica   string   `json:"app_hash_replica"`
	Replicas         []string `json:"replicas"`
}

// commitHashAt: the app hash the replica committed at the height (from the commit info in its database), "" if not kept
func commitHashAt(c *Chain, height int64) string {
	cms, ok := c.App.CommitMultiStore().(interface {
		GetCommitInfo(int64) (*storetypes.CommitInfo, error)
	})
	if !ok {
		return ""
	}
	ci, err := cms.GetCommitInfo(height)
	if err != nil || ci == nil {
		return ""
	}
	return hex.EncodeToString(ci.Hash())
}

// firstForkHeight: the first height at which the two replicas committed different app hashes (0 if the commit infos are gone)
func firstForkHeight(a, b *Chain, last int64) int64 {
	for h := int64(1); h <= last; h++ {
		ha, hb := commitHashAt(a, h), commitHashAt(b, h)
		if ha == "" || hb == "" {
			return 0
		}
		if ha != hb {
			return h
		}
	}
	return 0
}

// dropForkedAtSetup: every replica must come out of the set-up (same genesis, same blocks, same writes between blocks)
// with replica 0's app hash.  One that does not has forked off already (oracle hit, with the height, the replica and
// whether it is an instance re-created on its database as the failing input); it leaves the comparison and the history
// goes on with the others.
func (w *world) dropForkedAtSetup() {
	r0 := w.reps[0]
	h0 := r0.c.AppHash()
	cfgs := w.describeCfgs()
	kept := []*replica{r0}
	for i, r := range w.reps[1:] {
		hr := r.c.AppHash()
		if hr == h0 {
			kept = append(kept, r)
			continue
		}
		last := r0.c.Height - 1
		restarted := r.node != nil || r.restarts > 0
		f := setupFork{Height: firstForkHeight(r0.c, r.c, last), HeightAfterSetup: last, Replica: r.idx, Restarted: restarted, Restarts: r.restarts,
			AppHash0: h0, AppHashReplica: hr, Replicas: []string{cfgs[0], cfgs[i+1]}}
		sig, how := "C01/twin/app_hash/set-up", "never restarted"
		if restarted {
			sig, how = "C01/twin/app_hash/after-restart", "an application instance re-created on its database before the set-up blocks"
		}
		at := fmt.Sprintf("first at height %d", f.Height)
		if f.Height == 0 {
			at = "first height unknown"
		}
		w.side.Hit(sig, fmt.Sprintf("after the set-up (heights 1..%d, identical blocks and writes on every replica) replica 0 and replica %d (%s; %s) have different app hashes, %s: %s vs %s",
			last, r.idx, how, cfgs[i+1], at, h0, hr), f)
		w.side.Count("forked_during_set_up")
	}
	w.reps = kept
}

func (w *world) fresh() common.Address {
	w.nextFresh++
	h := make([]byte, 20)
	// pseudo-random looking but reproducible: keccak is overkill, a multiplicative hash spreads the high bytes
	x := w.nextFresh * 0x9E3779B97F4A7C15
	for i := 0; i < 20; i++ {
		x ^= x >> 29
		x *= 0xBF58476D1CE4E5B9
		h[i] = byte(x >> 56)
	}
	h[0] |= 0x10 // never a precompile-like small address
	return common.BytesToAddress(h)
}

// ---------------------------------------------------------------- running one block on one replica

var devNull *os.File

func init() { devNull, _ = os.OpenFile(os.DevNull, os.O_WRONLY, 0) }

// runOn executes the block under the replica's node-local conditions, its own request traffic included.
// A Go panic or an error of FinalizeBlock / Commit (the node halts) is returned as an error.
func (r *replica) runOn(w *world, raws [][]byte, gossip []*seenTx, tr *Rng) (res *abci.ResponseFinalizeBlock, err error) {
	defer func() {
		if p := recover(); p != nil {
			res, err = nil, fmt.Errorf("panic: %v", p)
		}
	}()
	if r.cfg.Procs > 0 {
		old := runtime.GOMAXPROCS(r.cfg.Procs)
		defer runtime.GOMAXPROCS(old)
	}
	// the json / markdown tracers print every opcode to the process' stderr / stdout, the struct tracer every call's output
	if r.cfg.Tracer == "json" || r.cfg.Tracer == "markdown" || r.cfg.Tracer == "struct" {
		so, se := os.Stdout, os.Stderr
		os.Stdout, os.Stderr = devNull, devNull
		defer func() { os.Stdout, os.Stderr = so, se }()
	}
	tc := r.cfg.Traffic
	if tc.Historic && tr.Bool() {
		// requests pinned to committed heights while the set-up's writes (governance-like parameter changes, ...) are
		// not yet part of any committed version: readers on a state OLDER than the one the block will run on
		w.historicTraffic(r, tr)
	}
	// (its own stream: the traffic below draws what it drew before)
	tg := tr.Fork(31337)
	gossipLater := w.gossipBefore(r, gossip, raws, tg)
	if r.cfg.CheckTx {
		for i := range raws {
			bz := raws[i]
			if tc.Reverse {
				bz = raws[len(raws)-1-i]
			}
			cr, err := r.c.CheckTx(bz, false)
			if os.Getenv("VERIF_TWIN_DEBUG_KIND") != "" && err == nil {
				fmt.Fprintf(os.Stderr, "DEBUG checktx replica %d pos %d: %s/%d %.100s\n", r.idx, i, cr.Codespace, cr.Code, cr.Log)
			}
		}
	}
	if tc.Simulate {
		for _, bz := range raws {
			_, _, _ = r.c.App.BaseApp.Simulate(bz)
			w.side.Count("traffic:simulate_block_tx")
		}
	}
	if tc.Proposal > 0 && (tc.Proposal > 1 || tr.Bool()) {
		// consensus rounds this node took part in before the block was decided: as proposer of a round (PrepareProposal over
		// its mempool, here the block's transactions in reverse order plus a probe) and / or as validator (ProcessProposal;
		// the verdict does not matter: the block was decided by the others).  A node that syncs the block later calls neither.
		w.proposalTraffic(r, raws, tr)
	}
	res, err = TwinFinalizeVoted(r.c, raws)
	if err != nil {
		return nil, err
	}
	if tc.Window {
		w.windowTraffic(r, tr)
	}
	if err := TwinCommit(r.c); err != nil {
		return nil, err
	}
	if r.cfg.CheckTx && tr.Chance(50) {
		// the mempool re-checks what it still holds after every commit (ReCheckTx): here the block's own transactions, now stale
		for _, bz := range raws {
			_, _ = r.c.CheckTx(bz, true)
			w.side.Count("traffic:recheck_tx")
		}
	}
	w.gossipAfter(r, gossipLater, tg)
	if tc.Historic {
		w.historicTraffic(r, tr)
	}
	if tc.Ghost && tr.Chance(40) {
		w.ghostDeploy(r, tr)
	}
	return res, nil
}

func (w *world) describeCfgs() []string {
	var out []string
	for _, r := range w.reps {
		d := fmt.Sprintf("replica %d: min-gas=%q tracer=%q gomaxprocs=%d mempool=%v traffic=%s", r.idx, r.cfg.MinGas, r.cfg.Tracer, r.cfg.Procs, r.cfg.CheckTx, r.cfg.Traffic)
		if r.node != nil {
			d += " | started from " + r.node.Summary
		} else {
			d += " | the integration suite's application (fixed app options, no-op logger)"
		}
		if r.restarts > 0 {
			d += fmt.Sprintf(" | application instance re-created on its database %d times, last before height %d", r.restarts, r.restartedAt)
		}
		if w.processWide != "" {
			d += " | process-wide: " + w.processWide
		}
		out = append(out, d)
	}
	return out
}
