package twin

// Node-local request traffic and custom-precompile deployments of the `twin` driver (C01).
//
// Traffic: besides executing blocks every replica serves its own mix of requests that are no consensus input —
// eth_call / eth_estimateGas / cpc queries pinned to OLDER committed heights, CheckTx and simulations between
// FinalizeBlock and Commit and between blocks, simulations of deployments that are never included.  Replica 0 serves
// none.  Whatever a replica served, the next block must come out the same on all of them.
//
// Deployments: whitelisted senders deploy ERC-20 custom precompiled contracts by message inside blocks (a rare,
// governance-like event that rewrites the registry every EVM instance is built from); the block after a deployment
// begins with calls to the fresh contract.

import (
	"fmt"
	"math/big"
	"strings"

	abci "github.com/cometbft/cometbft/abci/types"
	sdk "github.com/cosmos/cosmos-sdk/types"
	authtypes "github.com/cosmos/cosmos-sdk/x/auth/types"
	"github.com/cosmos/gogoproto/proto"
	"github.com/ethereum/go-ethereum/common"
	ethtypes "github.com/ethereum/go-ethereum/core/types"
	"github.com/ethereum/go-ethereum/crypto"
	"github.com/stretchr/testify/require"

	itutiltypes "github.com/EscanBE/evermint/v12/integration_test_util/types"
	cpcabi "github.com/EscanBE/evermint/v12/x/cpc/abi"
	cpctypes "github.com/EscanBE/evermint/v12/x/cpc/types"

	. "verifharness/hx"
)

// ---------------------------------------------------------------- set-up shared by all replicas

const nPoolDenoms = 18

func poolDenom(i int) string { return fmt.Sprintf("twin%c%c", 'a'+rune(i/26), 'a'+rune(i%26)) }

// setupCpcDeployers: two senders on the governance whitelist, a pool of denominations with supply and no contract,
// the account whose key signs the traffic transactions (never included in a block)
func (w *world) setupCpcDeployers(c *Chain) {
	ctx := c.Ctx()
	p := c.App.CPCKeeper.GetParams(ctx)
	p.WhitelistedDeployers = []string{w.senders[0].GetCosmosAddress().String(), w.senders[1].GetCosmosAddress().String()}
	require.NoError(w.t, c.App.CPCKeeper.SetParams(ctx, p))
	for i := 0; i < nPoolDenoms; i++ {
		for s := 0; s < 4; s++ {
			c.Fund(w.senders[s].GetCosmosAddress(), poolDenom(i), big.NewInt(1_000_000_000))
		}
	}
	placeAccount(c, w.trafficAcc.GetEthAddress(), 0)
	c.Fund(w.trafficAcc.GetCosmosAddress(), w.bond, e18(1000))
}

func cpcModuleSeq(c *Chain) uint64 {
	acc := c.App.AccountKeeper.GetAccount(c.QueryCtx(), authtypes.NewModuleAddress(cpctypes.ModuleName))
	if acc == nil {
		return 0
	}
	return acc.GetSequence()
}

// ---------------------------------------------------------------- deployments and calls to fresh contracts

func (w *world) erc20Pack(name string, args ...interface{}) []byte {
	bz, err := cpcabi.Erc20CpcInfo.ABI.Pack(name, args...)
	require.NoError(w.t, err)
	return bz
}

// genDeploy: a Cosmos transaction carrying MsgDeployErc20ContractRequest
func (w *world) genDeploy(r *Rng) *genTx {
	c := w.lead
	variant := "ok"
	switch x := r.Intn(100); {
	case x < 10:
		variant = "not-whitelisted"
	case x < 18:
		variant = "denom-has-contract"
	case x < 26:
		variant = "denom-without-supply"
	}
	if w.nextDenom >= nPoolDenoms && variant == "ok" {
		variant = "denom-has-contract"
	}
	var signer *itutiltypes.TestAccount
	cands := []int{0, 1}
	if variant == "not-whitelisted" {
		cands = []int{4, 5, 6}
	}
	for _, i := range cands {
		if !w.used[w.senders[i].GetEthAddress()] {
			signer = w.senders[i]
			break
		}
	}
	if signer == nil {
		return nil
	}
	w.used[signer.GetEthAddress()] = true
	denom := ""
	switch variant {
	case "denom-has-contract":
		denom = "utwo"
		if w.nextDenom > 0 && r.Bool() {
			denom = poolDenom(r.Intn(w.nextDenom))
		}
	case "denom-without-supply":
		denom = "twinzz"
	default:
		denom = poolDenom(w.nextDenom % nPoolDenoms)
	}
	n := w.nextDenom
	msg := &cpctypes.MsgDeployErc20ContractRequest{Authority: signer.GetCosmosAddress().String(), Name: fmt.Sprintf("TwinToken%d", n),
		Symbol: fmt.Sprintf("TW%d", n), Decimals: uint32([]int{6, 18, 8}[r.Intn(3)]), MinDenom: denom}
	_, _, floor := w.floorNow()
	price := new(big.Int).Mul(Badd(floor, 1), big.NewInt(2))
	accNum, seq := c.AccNumSeq(signer.GetCosmosAddress())
	gas := uint64(1_500_000)
	rt := &RawTx{Msgs: []sdk.Msg{msg}, Fee: c.FeeCoins(new(big.Int).Mul(price, new(big.Int).SetUint64(gas))), Gas: gas}
	require.NoError(w.t, rt.SignDirect(c.ChainID(), signer, accNum, seq))
	bz, err := rt.Encode()
	require.NoError(w.t, err)
	return &genTx{Kind: "cpc-deploy", Mal: variant, Sender: signer.GetEthAddress().Hex(), Gas: gas, raw: bz, deploy: true}
}

// noteDeploy reads the leader's result of a deploy transaction
func (w *world) noteDeploy(g *genTx, tr *abci.ExecTxResult) {
	if tr.Code != 0 {
		return
	}
	var data sdk.TxMsgData
	require.NoError(w.t, w.lead.S.EncodingConfig.Codec.Unmarshal(tr.Data, &data))
	require.Len(w.t, data.MsgResponses, 1)
	var resp cpctypes.MsgDeployErc20ContractResponse
	require.NoError(w.t, proto.Unmarshal(data.MsgResponses[0].Value, &resp))
	a := common.HexToAddress(resp.ContractAddress)
	w.newCpcs = append(w.newCpcs, a)
	w.pendingFresh = &a
	if g.Mal == "ok" {
		w.nextDenom++
	}
}

// genFreshCall: an Ethereum transaction calling a contract deployed by message (the newest one, or any of them)
func (w *world) genFreshCall(r *Rng, target common.Address, kind string) *genTx {
	// transfers need a holder of the denomination: senders 0..3
	var sender *itutiltypes.TestAccount
	for _, i := range []int{2, 3, 0, 1, 4, 5} {
		if !w.used[w.senders[i].GetEthAddress()] {
			sender = w.senders[i]
			break
		}
	}
	if sender == nil {
		return nil
	}
	w.used[sender.GetEthAddress()] = true
	var data []byte
	method := []string{"symbol", "transfer", "name", "transfer", "balanceOf", "decimals", "approve"}[r.Intn(7)]
	other := w.senders[r.Intn(len(w.senders))].GetEthAddress()
	switch method {
	case "transfer", "approve":
		data = w.erc20Pack(method, other, big.NewInt(int64(1+r.Intn(5000))))
	case "balanceOf":
		data = w.erc20Pack(method, other)
	default:
		data = w.erc20Pack(method)
	}
	_, _, floor := w.floorNow()
	f := feeSpec{dyn: r.Bool(), price: new(big.Int).Mul(Badd(floor, 1), big.NewInt(2)), tip: big.NewInt(0)}
	gas := uint64(400_000)
	from := sender.GetEthAddress()
	g := &genTx{Kind: kind, Mal: method, Sender: from.Hex(), Gas: gas, isEth: true, Dyn: f.dyn, Price: f.price.String(), Tip: "0"}
	g.raw = w.ethRaw(sender, w.chainID, w.lead.Nonce(w.lead.QueryCtx(), from), &target, big.NewInt(0), data, gas, f, r)
	return g
}

// ---------------------------------------------------------------- a replica's own traffic

type trafficCfg struct {
	Historic bool `json:"historic_queries"`      // eth_call / estimateGas / cpc queries at OLDER heights after every commit
	Window   bool `json:"requests_before_commit"` // CheckTx, simulation, eth_call between FinalizeBlock and Commit
	Simulate bool `json:"simulations"`            // gas estimation (BaseApp.Simulate) of the block's transactions beforehand
	Ghost    bool `json:"ghost_deployments"`      // simulations of deployments that are never included
	Reverse  bool `json:"checktx_reverse_order"`  // the mempool sees the block's transactions in the opposite order
	Proposal int  `json:"consensus_rounds"`       // PrepareProposal / ProcessProposal before FinalizeBlock: 0 never (a syncing node), 1 some blocks, 2 every block
}

func (t trafficCfg) String() string {
	var on []string
	for _, x := range []struct {
		b bool
		n string
	}{{t.Historic, "historic"}, {t.Window, "window"}, {t.Simulate, "simulate"}, {t.Ghost, "ghost"}, {t.Reverse, "reverse"}, {t.Proposal > 0, fmt.Sprintf("proposal%d", t.Proposal)}} {
		if x.b {
			on = append(on, x.n)
		}
	}
	if len(on) == 0 {
		return "none"
	}
	return strings.Join(on, "+")
}

// probe transaction of the traffic account (never included in a block): symbol() of target
func (w *world) trafficTx(rep *replica, target *common.Address, data []byte) []byte {
	c := rep.c
	q := c.QueryCtx()
	base := c.BaseFee(q)
	cap := new(big.Int).Add(new(big.Int).Mul(base, big.NewInt(3)), big.NewInt(1_000_000_000_000_000))
	td := &ethtypes.DynamicFeeTx{ChainID: w.chainID, Nonce: c.Nonce(q, w.trafficAcc.GetEthAddress()), GasTipCap: big.NewInt(0), GasFeeCap: cap,
		Gas: 400_000, To: target, Value: big.NewInt(0), Data: data}
	key, err := w.trafficAcc.PrivateKey.ToECDSA()
	require.NoError(w.t, err)
	tx, err := ethtypes.SignTx(ethtypes.NewTx(td), ethtypes.LatestSignerForChainID(w.chainID), key)
	require.NoError(w.t, err)
	bz, _, err := w.wrap(tx, w.trafficAcc.GetEthAddress())
	require.NoError(w.t, err)
	return bz
}

// targets of the traffic: the newest contract deployed by message, the address the next one will get, and others
func (w *world) trafficTargets(rep *replica) []common.Address {
	out := []common.Address{crypto.CreateAddress(cpctypes.CpcModuleAddress, cpcModuleSeq(rep.c))}
	if n := len(w.newCpcs); n > 0 {
		out = append(out, w.newCpcs[n-1])
	}
	return append(out, w.erc20Cpc, w.stakingCpc, w.logger)
}

// windowTraffic: between FinalizeBlock and Commit
func (w *world) windowTraffic(rep *replica, r *Rng) {
	c := rep.c
	symbol := w.erc20Pack("symbol")
	for _, a := range w.trafficTargets(rep)[:2] {
		a := a
		bz := w.trafficTx(rep, &a, symbol)
		switch r.Intn(3) {
		case 0:
			_, _ = c.CheckTx(bz, false)
			w.side.Count("traffic:window:checktx")
		case 1:
			_, _, _ = c.App.BaseApp.Simulate(bz)
			w.side.Count("traffic:window:simulate")
		default:
			_, _, _ = TwinEthCallAt(c, w.trafficAcc.GetEthAddress(), &a, symbol, 0)
			w.side.Count("traffic:window:eth_call")
		}
	}
}

// proposalTraffic: the ABCI calls of the consensus rounds before the block is decided
func (w *world) proposalTraffic(rep *replica, raws [][]byte, r *Rng) {
	c := rep.c
	if r.Bool() {
		var pool [][]byte
		for i := len(raws) - 1; i >= 0; i-- {
			pool = append(pool, raws[i])
		}
		pool = append(pool, w.trafficTx(rep, &w.logger, []byte{2}))
		n, err := TwinPrepareProposal(c, pool)
		w.side.Count(fmt.Sprintf("traffic:prepare_proposal:err=%v:kept_all=%v", err != nil, n == len(pool)))
	}
	for i, m := 0, 1+r.Intn(2); i < m; i++ { // a second round re-processes the proposal
		accepted, err := TwinProcessProposal(c, raws)
		w.side.Count(fmt.Sprintf("traffic:process_proposal:err=%v:accepted=%v", err != nil, accepted))
	}
}

// historicTraffic: after the commit of height h (c.Height-1), requests pinned to older heights
func (w *world) historicTraffic(rep *replica, r *Rng) {
	c := rep.c
	last := c.Height - 1
	first := rep.firstHeight
	if last-1 < first {
		return
	}
	if r.Chance(25) {
		// also the latest committed version (a reader that is up to date, unless writes are pending)
		_, _, err := TwinEthCallAt(c, w.trafficAcc.GetEthAddress(), &w.logger, []byte{1}, last)
		w.side.Count(fmt.Sprintf("traffic:latest:eth_call:err=%v", err != nil))
	}
	symbol := w.erc20Pack("symbol")
	from := w.trafficAcc.GetEthAddress()
	heights := []int64{last - 1}
	if last-2 >= first && r.Bool() {
		heights = append(heights, last-2)
	}
	if last-3 >= first && r.Chance(30) {
		heights = append(heights, first+int64(r.Intn(int(last-first))))
	}
	tg := w.trafficTargets(rep)
	for _, h := range heights {
		a := tg[r.Intn(len(tg))]
		if r.Chance(60) {
			a = tg[r.Intn(2)%len(tg)]
		}
		switch r.Intn(6) {
		case 0:
			_, err := TwinEstimateGasAt(c, from, &a, symbol, h)
			w.side.Count(fmt.Sprintf("traffic:historic:estimate_gas:err=%v", err != nil))
		case 1:
			_, err := TwinCpcListAt(c, h)
			w.side.Count(fmt.Sprintf("traffic:historic:cpc_list:err=%v", err != nil))
		case 2:
			// a call without recipient: the constructor calls the contract
			_, _, err := TwinEthCallAt(c, from, nil, BuildInitProbe(OpSTATICCALL, a, symbol), h)
			w.side.Count(fmt.Sprintf("traffic:historic:eth_call_create:err=%v", err != nil))
		default:
			ret, _, err := TwinEthCallAt(c, from, &a, symbol, h)
			w.side.Count(fmt.Sprintf("traffic:historic:eth_call:err=%v:answered=%v", err != nil, len(ret) > 0))
		}
	}
}

// ghostDeploy: the gas estimation of a deployment (a whitelisted key signs; the transaction is never broadcast)
func (w *world) ghostDeploy(rep *replica, r *Rng) {
	c := rep.c
	signer := w.senders[r.Intn(2)]
	msg := &cpctypes.MsgDeployErc20ContractRequest{Authority: signer.GetCosmosAddress().String(), Name: "Ghost", Symbol: "GHO", Decimals: 6,
		MinDenom: poolDenom((w.nextDenom + r.Intn(2)) % nPoolDenoms)}
	q := c.QueryCtx()
	price := new(big.Int).Add(new(big.Int).Mul(c.BaseFee(q), big.NewInt(3)), big.NewInt(1_000_000_000_000_000))
	accNum, seq := c.AccNumSeq(signer.GetCosmosAddress())
	gas := uint64(1_500_000)
	rt := &RawTx{Msgs: []sdk.Msg{msg}, Fee: c.FeeCoins(new(big.Int).Mul(price, new(big.Int).SetUint64(gas))), Gas: gas}
	require.NoError(w.t, rt.SignDirect(c.ChainID(), signer, accNum, seq))
	bz, err := rt.Encode()
	require.NoError(w.t, err)
	_, _, err = c.App.BaseApp.Simulate(bz)
	w.side.Count(fmt.Sprintf("traffic:ghost_deployment:simulated_ok=%v", err == nil))
}

// genNonceRace: two individually valid transactions of one sender with the SAME nonce (a replacement race): whichever
// comes first in the block executes, the other must be refused on every replica — also on those whose mempool saw
// them in the opposite order, admitted the other one and refused this one.
func (w *world) genNonceRace(r *Rng) []*genTx {
	sender := w.pickSender(r)
	if sender == nil {
		return nil
	}
	from := sender.GetEthAddress()
	_, _, floor := w.floorNow()
	nonce := w.lead.Nonce(w.lead.QueryCtx(), from)
	var out []*genTx
	for i := 0; i < 2; i++ {
		to := w.senders[r.Intn(len(w.senders))].GetEthAddress()
		f := feeSpec{dyn: r.Bool(), price: new(big.Int).Mul(Badd(floor, 1), big.NewInt(int64(2+i))), tip: big.NewInt(0)}
		var data []byte
		gas := uint64(21000)
		target := &to
		if r.Chance(40) {
			data, gas, target = []byte{byte(1 + r.Intn(3)), byte(1 + r.Intn(200))}, 150000, &w.store
		}
		g := &genTx{Kind: "nonce-race", Mal: fmt.Sprintf("same-nonce-%d", i), Sender: from.Hex(), Gas: gas, isEth: true, Dyn: f.dyn, Price: f.price.String(), Tip: "0"}
		g.raw = w.ethRaw(sender, w.chainID, nonce, target, big.NewInt(int64(1+r.Intn(1000))), data, gas, f, r)
		out = append(out, g)
	}
	return out
}
