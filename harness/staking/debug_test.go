package staking

import (
	"encoding/hex"
	"fmt"
	"os"

	. "verifharness/hx"
)

func dumpStore(c *Chain, name string) map[string]string {
	out := map[string]string{}
	ctx := c.QueryCtx()
	st := ctx.MultiStore().GetKVStore(c.App.GetKVStoreKey()[name])
	it := st.Iterator(nil, nil)
	defer it.Close()
	for ; it.Valid(); it.Next() {
		out[hex.EncodeToString(it.Key())] = hex.EncodeToString(it.Value())
	}
	return out
}

func (tw *twin) debugStores(label string) {
	if os.Getenv("VERIF_DEBUG") == "" {
		return
	}
	for _, name := range []string{"distribution", "mint", "bank"} {
		a, b := dumpStore(tw.A, name), dumpStore(tw.B, name)
		n := 0
		for k, v := range a {
			if b[k] != v {
				n++
				if n <= 6 {
					fmt.Printf("DEBUG %s store %s key %s\n   A=%s\n   B=%s\n", label, name, k, v, b[k])
				}
			}
		}
		for k, v := range b {
			if _, ok := a[k]; !ok {
				n++
				if n <= 6 {
					fmt.Printf("DEBUG %s store %s key %s only on B=%s\n", label, name, k, v)
				}
			}
		}
		if n > 0 {
			fmt.Printf("DEBUG %s store %s: %d keys differ\n", label, name, n)
		}
	}
}
