package staking

// Several precompile calls inside ONE Ethereum transaction (C11): a straight-line contract at the address of a keyed
// account ("pmulti": no delegations at the start, "pmulti2": delegations with rewards in several denominations) performs
// 2..4 staking-precompile calls in order - state-changing calls with CALL, DELEGATECALL or CALLCODE, views with any
// opcode, STATICCALL included; the precompile's caller is the contract in every case - does not revert when one of them
// fails, and returns every call's success and first returned word (hx/c11_multi.go).  On chain B the native
// submissions of the calls that must succeed go into one Cosmos transaction signed by the same account; they are
// dry-run one by one on a branch of B's state, and the native queriers are asked BETWEEN them, which gives the
// expected answer of every view at its point of the transaction.  This reaches what a single call per transaction
// cannot: a call that fails in the middle of a transaction must undo exactly its own effects, later calls and views see
// the earlier calls' effects (and nothing else: whatever the precompile object or the EVM instance keeps between two
// calls shows here), and the logs of a call must come from ITS module events only.

import (
	"bytes"
	"fmt"
	"math/big"
	"sort"
	"strings"

	sdk "github.com/cosmos/cosmos-sdk/types"
	"github.com/ethereum/go-ethereum/common"
	"github.com/stretchr/testify/require"

	itutiltypes "github.com/EscanBE/evermint/v12/integration_test_util/types"

	. "verifharness/hx"
)

// nativeSide is what the model needs to know about the native modules for one call by caller on ctx (a cache of chain
// B's state, advanced by the call's native messages when they all succeed, untouched otherwise).
type nativeSide struct {
	rwList            []string
	totalZero         bool
	bal0              *big.Int
	delegated, bonded []vinfo
	script            []scriptEntry
	expOK             bool
}

func (tw *twin) nativeSideOf(ctx sdk.Context, op cpcOp, callerAcc sdk.AccAddress) nativeSide {
	ns := nativeSide{totalZero: true}
	if rw, err := rewardsOf(tw.B, ctx, callerAcc); err == nil {
		for _, x := range rw.Rewards {
			ns.rwList = append(ns.rwList, fmt.Sprintf("(%s, %s)", zOf(tw.valBytes(tw.B, x.ValidatorAddress)), tw.decCoins(x.Reward).coq()))
		}
		ns.totalZero = rw.Total.IsZero()
	}
	ns.bal0 = tw.B.App.BankKeeper.GetBalance(ctx, callerAcc, tw.bond).Amount.BigInt()
	ns.delegated, ns.bonded = tw.transferCandidates(tw.B, ctx, callerAcc)
	branch, write := ctx.CacheContext()
	ns.script, ns.expOK = op.translate(branch, callerAcc)
	if ns.expOK {
		write()
	}
	return ns
}

func (tw *twin) opCaseTerm(sender []byte, hops string, op cpcOp, ns nativeSide, obsOK, obsRet bool, logs []elog) string {
	var sc []string
	for _, en := range ns.script {
		if en.ok {
			var evs []string
			for _, e := range en.evs {
				evs = append(evs, e.coq())
			}
			sc = append(sc, fmt.Sprintf("(%s, Some (%s, %s))", en.coqM, CqList(evs), CqZ(en.bal)))
		} else {
			sc = append(sc, fmt.Sprintf("(%s, None)", en.coqM))
		}
	}
	rec := op.rec
	if rec == "" {
		rec = "None"
	}
	var ls []string
	for _, l := range logs {
		ls = append(ls, l.coq())
	}
	return fmt.Sprintf("(OpCase %s %s (%s) %s %s %s %s %s %s %s %s %s %s)", zOf(sender), hops, op.coqCall, rec,
		CqList(ns.rwList), CqBool(ns.totalZero), tw.coqVinfos(ns.delegated), tw.coqVinfos(ns.bonded), CqZ(ns.bal0), CqList(sc), CqBool(obsOK), CqBool(obsRet), CqList(ls))
}

type multiDesc struct {
	Step   int      `json:"step"`
	Kind   string   `json:"kind"`
	Caller string   `json:"caller"`
	Calls  []string `json:"calls"` // opcode method class expected/observed
	Native []string `json:"translated_native_messages,omitempty"`
	Logs   []string `json:"logs,omitempty"`
	Diff   []string `json:"twin_state_differences,omitempty"`
}

var multiOps = []struct {
	op   byte
	name string
}{{OpCALL, "CALL"}, {OpDELEGATECALL, "DELEGATECALL"}, {OpCALLCODE, "CALLCODE"}, {OpSTATICCALL, "STATICCALL"}}

// one precompile call of a multi-call transaction
type mItem struct {
	isView bool
	opName string
	opcode byte
	// state-changing call
	op cpcOp
	ns nativeSide
	// view
	acct, val common.Address
	nv        nativeViews
	vc        viewCall
}

// kinds (genOpKind) of the methods that change the rewards of their caller when it has any: delegate, undelegate,
// redelegate, withdrawReward, withdrawRewards, transfer
var rewardChangingKinds = []int{0, 20, 35, 45, 45, 55, 55, 65}

// reward views (indices into viewCalls) come first
var viewWeights = []int{2, 2, 2, 3, 3, 3, 4, 4, 4, 0, 0, 0, 1, 1, 1}

func (tw *twin) genViewItem(r *Rng, dry sdk.Context, caller *itutiltypes.TestAccount, which int, self bool) mItem {
	a := caller
	if !self && r.Chance(25) {
		a = tw.tracked[r.Intn(len(tw.tracked))]
	}
	v, _ := tw.pickOwnVal(r, a.GetCosmosAddress())
	// a validator the account is delegated to AT THIS POINT of the transaction, if any
	if dels, err := tw.B.App.StakingKeeper.GetAllDelegatorDelegations(dry, a.GetCosmosAddress()); err == nil && len(dels) > 0 && r.Chance(70) {
		v = common.BytesToAddress(tw.valBytes(tw.B, dels[r.Intn(len(dels))].ValidatorAddress))
	}
	if which < 0 {
		which = viewWeights[r.Intn(len(viewWeights))]
	}
	nv := tw.nativeViewsOf(tw.B, dry, a.GetCosmosAddress(), v)
	k := multiOps[r.Intn(len(multiOps))]
	return mItem{isView: true, opName: k.name, opcode: k.op, acct: a.GetEthAddress(), val: v, nv: nv, vc: tw.viewCalls(nv, a.GetEthAddress(), v)[which]}
}

func (tw *twin) genCallItem(r *Rng, dry sdk.Context, caller *itutiltypes.TestAccount, kind int) mItem {
	// arguments are chosen against chain B's committed state (genOp reads it): earlier calls of the same transaction
	// may have invalidated them, which is part of the point
	op := tw.genOpKind(r, caller, kind)
	ns := tw.nativeSideOf(dry, op, caller.GetCosmosAddress())
	k := multiOps[r.Intn(3)] // never STATICCALL: a state-changing method under STATICCALL is C12's business
	return mItem{opName: k.name, opcode: k.op, op: op, ns: ns}
}

func (tw *twin) multiStep(r *Rng, side *Sidecar, cases *CasesFile, idx *int, seq, step int) {
	t := tw.t
	sender := tw.actors[r.Intn(len(tw.actors))]
	shapeRoll := r.Intn(100)
	structured := shapeRoll < 70
	caller := tw.proxy["pmulti"]
	if structured && r.Chance(85) || !structured && r.Chance(50) {
		caller = tw.proxy["pmulti2"]
	}
	callerAcc := caller.GetCosmosAddress()
	tw.curSender = sender
	require.Equal(t, tw.A.C11Price().String(), tw.B.C11Price().String(), "gas prices of the twin chains diverged")

	qB := tw.B.QueryCtx()
	dry, _ := qB.CacheContext()
	var items []mItem
	shape := "random"
	if shapeRoll >= 50 && shapeRoll < 70 {
		// two calls that change the caller's stake and rewards in a row (the second one the very same call once more, or
		// another one: it must work on what the first one left, e.g. withdraw-all twice, withdraw-all then transfer), then a
		// view of the caller's position
		shape = "change-change-view"
		first := tw.genCallItem(r, dry, caller, rewardChangingKinds[r.Intn(len(rewardChangingKinds))])
		items = append(items, first)
		if r.Chance(40) {
			k := multiOps[r.Intn(3)]
			items = append(items, mItem{opName: k.name, opcode: k.op, op: first.op, ns: tw.nativeSideOf(dry, first.op, callerAcc)})
		} else {
			items = append(items, tw.genCallItem(r, dry, caller, rewardChangingKinds[r.Intn(len(rewardChangingKinds))]))
		}
		items = append(items, tw.genViewItem(r, dry, caller, viewWeights[r.Intn(len(viewWeights))], true))
	} else if structured {
		// a view of the caller's own position (mostly a reward view), a call that changes its stake and rewards, the same view
		// (or another one) again
		shape = "view-change-view"
		which := viewWeights[r.Intn(len(viewWeights))]
		first := tw.genViewItem(r, dry, caller, which, true)
		items = append(items, first)
		items = append(items, tw.genCallItem(r, dry, caller, rewardChangingKinds[r.Intn(len(rewardChangingKinds))]))
		if r.Chance(30) {
			which = viewWeights[r.Intn(len(viewWeights))]
		}
		again := mItem{isView: true, acct: first.acct, val: first.val}
		k := multiOps[r.Intn(len(multiOps))]
		again.opName, again.opcode = k.name, k.op
		again.nv = tw.nativeViewsOf(tw.B, dry, callerAcc, again.val)
		again.vc = tw.viewCalls(again.nv, again.acct, again.val)[which]
		items = append(items, again)
		if r.Chance(40) {
			if r.Chance(50) {
				items = append(items, tw.genCallItem(r, dry, caller, r.Intn(100)))
			} else {
				items = append(items, tw.genViewItem(r, dry, caller, -1, false))
			}
		}
	} else {
		n := 2 + r.Intn(3)
		calls := 0
		var last *cpcOp
		for i := 0; i < n; i++ {
			if calls < 3 && r.Chance(60) {
				if last != nil && r.Chance(30) {
					// the very same call once more (a contract looping over its own calls): same calldata, its native
					// submission evaluated on the state the first one left
					shape = "random+repeated-call"
					k := multiOps[r.Intn(3)]
					items = append(items, mItem{opName: k.name, opcode: k.op, op: *last, ns: tw.nativeSideOf(dry, *last, callerAcc)})
				} else {
					items = append(items, tw.genCallItem(r, dry, caller, r.Intn(100)))
				}
				last = &items[len(items)-1].op
				calls++
			} else {
				items = append(items, tw.genViewItem(r, dry, caller, -1, false))
			}
		}
	}
	side.Count("multi:shape:" + shape)

	var calls []C11Call
	var msgs []sdk.Msg
	var nativeStr []string
	for _, it := range items {
		if it.isView {
			calls = append(calls, C11Call{Op: it.opcode, Target: tw.cpc, Payload: it.vc.data, Gas: 150_000})
			continue
		}
		// a failing precompile call burns all the gas it was given: a fixed share, above every method's RequireGas
		calls = append(calls, C11Call{Op: it.opcode, Target: tw.cpc, Payload: it.op.payload, Gas: 900_000})
		if it.ns.expOK {
			for _, en := range it.ns.script {
				msgs = append(msgs, en.msg)
				nativeStr = append(nativeStr, en.coqM)
			}
		}
	}

	// chain A
	tw.A.SetCode(caller.GetEthAddress(), C11BuildMulti(calls))
	preA := tw.snapParties(tw.A)
	res := tw.A.C11SendEth(sender, caller.GetEthAddress(), nil, txGas)
	if res.Code != 0 {
		// the whole transaction died: legitimate only where a native message server panics as well (natively the whole
		// transaction dies, too); then nothing happens on either chain
		nativePanics := false
		for _, it := range items {
			for _, en := range it.ns.script {
				nativePanics = nativePanics || en.panicked
			}
		}
		side.Count("multi:transaction-panicked")
		if !nativePanics {
			side.Hit("C11/staking/multi-call/transaction-died-where-native-submission-does-not", fmt.Sprintf("the Ethereum transaction was rejected with code %d although no native message of the submissions panics", res.Code), nil)
		}
		tw.B.C11IdleBlock(callerAcc, txGas)
		pa, _ := tw.projection(tw.A)
		pb, _ := tw.projection(tw.B)
		if pa != pb {
			tw.diverged = true
			side.Hit("C11/staking/multi-call/state-differs-from-native", "a transaction that died changed the state", nil)
		}
		return
	}
	require.Equal(t, uint64(1), res.Status, "the multi-call contract itself failed: %s", res.VmError)
	require.Len(t, res.Ret, 32*(len(items)+1))
	mask := new(big.Int).SetBytes(res.Ret[:32])
	word := func(i int) *big.Int { return new(big.Int).SetBytes(res.Ret[32*(i+1) : 32*(i+2)]) }
	logs, foreign := tw.decodeLogs(res.Logs)

	// chain B
	var bEvents []nevent
	if len(msgs) > 0 {
		resB := tw.B.C11SendCosmos(caller, txGas, msgs...)
		require.Equal(t, uint32(0), resB.Code, "native transaction failed although its dry run succeeded: %s", resB.Log)
		for _, ev := range resB.Events {
			if ne := tw.parseEvent(tw.B, ev, false); ne.typ != "other" {
				bEvents = append(bEvents, ne)
			}
		}
	} else {
		tw.B.C11IdleBlock(callerAcc, txGas)
	}

	d := multiDesc{Step: seq*1000 + step, Kind: "multi-call transaction", Caller: caller.GetEthAddress().Hex(), Native: nativeStr}
	for _, l := range logs {
		d.Logs = append(d.Logs, l.String())
	}
	var subTerms, canon []string
	okCount, changed := 0, false
	for i, it := range items {
		obs := mask.Bit(i) == 1
		if it.isView {
			var got *big.Int
			if obs {
				got = word(i)
			}
			w := it.vc
			d.Calls = append(d.Calls, fmt.Sprintf("%s %s(%s,%s) native=%s observed=%s", it.opName, w.name, it.acct.Hex(), it.val.Hex(), strBig(w.want), strBig(got)))
			subTerms = append(subTerms, "MView "+it.nv.viewCaseTerm(w, got))
			canon = append(canon, fmt.Sprintf("%s %s ok=%v", it.opName, w.name, got != nil))
			// the view reports the native query's number on the state AT THIS POINT of the transaction
			if (got == nil) != (w.want == nil) || got != nil && got.Cmp(w.want) != 0 {
				side.Hit("C11/staking/multi-call/view-differs-from-native-query-at-that-point/"+w.name, fmt.Sprintf("call %d (%s %s) of a multi-call transaction returned %s; the native query on the state after the native submissions of the calls before it gives %s", i, it.opName, w.name, strBig(got), strBig(w.want)), d)
			}
			pos := "before-any-change"
			if changed {
				pos = "after-a-change"
			}
			side.Count(fmt.Sprintf("multi:view:%s:%s:%s", w.name, it.opName, pos))
			continue
		}
		op := it.op
		if obs {
			okCount++
			changed = true
		}
		d.Calls = append(d.Calls, fmt.Sprintf("%s %s %s native_ok=%v observed_ok=%v", it.opName, op.method, op.class, it.ns.expOK, obs))
		canon = append(canon, fmt.Sprintf("%s %s %s ok=%v", it.opName, op.method, op.class, obs))
		subTerms = append(subTerms, "MOp "+tw.opCaseTerm(sender.GetEthAddress().Bytes(), "[HCall "+zOf(caller.GetEthAddress().Bytes())+"]", op, it.ns, obs, obs && word(i).Cmp(big.NewInt(1)) == 0, nil))
		// each call on its own: succeeds exactly when its native submission does
		if obs != it.ns.expOK {
			side.Hit("C11/staking/multi-call/outcome-differs-from-native/"+op.method, fmt.Sprintf("call %d (%s %s) of a multi-call transaction: precompile ok=%v, its native submission ok=%v", i, it.opName, op.method, obs, it.ns.expOK), d)
		}
		if op.signedDelegator != nil && obs && (*op.signedDelegator != caller.GetEthAddress() || op.rec != "(Some "+zOf(op.signedDelegator.Bytes())+")") {
			side.Hit("C11/staking/signed-message-accepted-without-delegators-signature-for-this-chain/"+op.method, "inside a multi-call transaction", d)
		}
		side.Count(fmt.Sprintf("multi:%s:%s:ok=%v", it.opName, op.method, obs))
	}
	side.Count(fmt.Sprintf("multi:calls=%d:succeeded=%d", len(items), okCount))

	// twin state
	pa, ma := tw.projection(tw.A)
	pb, mb := tw.projection(tw.B)
	if pa != pb {
		for key, v := range ma {
			if mb[key] != v {
				d.Diff = append(d.Diff, key)
			}
		}
		sort.Strings(d.Diff)
		what := "state"
		onlyStore := true
		for _, k := range d.Diff {
			onlyStore = onlyStore && strings.HasPrefix(k, "store:")
		}
		if onlyStore {
			what = "module-store"
		}
		tw.diverged = true
		side.Hit(fmt.Sprintf("C11/staking/multi-call/%s-differs-from-native", what), fmt.Sprintf("after a transaction with %d precompile calls the twin chains differ in %v", len(items), d.Diff), d)
	}
	// third parties
	qA := tw.A.QueryCtx()
	for _, a := range tw.tracked {
		if a == caller {
			continue
		}
		if now, ch := tw.changed(tw.A, qA, a, preA); ch {
			side.Hit("C11/staking/multi-call/third-party-state-changed", fmt.Sprintf("balance / delegations / entries of %s changed although the caller was %s: before %s, after %s", a.GetEthAddress().Hex(), caller.GetEthAddress().Hex(), preA.plain[a.GetEthAddress().Hex()], now), d)
		}
	}
	for _, l := range logs {
		if !bytes.Equal(l.del, caller.GetEthAddress().Bytes()) {
			side.Hit("C11/staking/multi-call/log-for-other-delegator", "a log names a delegator that is not the immediate caller", d)
		}
	}
	// logs of the whole transaction = image of chain B's transaction events, in order
	exp := expectedLogs(bEvents, caller.GetEthAddress().Bytes())
	same := len(exp) == len(logs) && foreign == 0
	for i := 0; same && i < len(exp); i++ {
		same = exp[i].String() == logs[i].String()
	}
	if !same {
		side.Hit("C11/staking/multi-call/log-event-mismatch", fmt.Sprintf("receipt logs %v, module events give %v", logs, exp), d)
	}

	var ls []string
	for _, l := range logs {
		ls = append(ls, l.coq())
	}
	cases.Add(fmt.Sprintf("KMulti %s %s", CqList(subTerms), CqList(ls)))
	side.Case(*idx, fmt.Sprintf("multi/%s", strings.Join(canon, "|")), len(msgs) > 0, d)
	*idx++
}
