package staking

// Several precompile calls inside ONE Ethereum transaction (C11): a straight-line contract at the address of the keyed
// account "pmulti" performs 2..3 staking-precompile calls in order, each with CALL, DELEGATECALL or CALLCODE (the
// precompile's caller is pmulti in every case), and does not revert when one of them fails.  On chain B the native
// submissions of the calls that must succeed go into one Cosmos transaction signed by pmulti.  This reaches what a
// single call per transaction cannot: a call that fails in the middle of a transaction must undo exactly its own
// effects, later calls see the earlier calls' effects, and the logs of a call must come from ITS new module events
// only (the event manager already holds the earlier calls' events).

import (
	"bytes"
	"fmt"
	"math/big"
	"sort"
	"strings"

	sdk "github.com/cosmos/cosmos-sdk/types"
	"github.com/stretchr/testify/require"

	. "verifharness/hx"
)

// nativeSide is what the model needs to know about the native modules for one call by caller on ctx (a cache of chain
// B's state, advanced by the call's native messages when they all succeed, untouched otherwise).
type nativeSide struct {
	rwList            []string
	totalZero         bool
	bal0              *big.Int
	delegated, bonded []vinfo
	script            []scriptEntry
	expOK             bool
}

func (tw *twin) nativeSideOf(ctx sdk.Context, op cpcOp, callerAcc sdk.AccAddress) nativeSide {
	ns := nativeSide{totalZero: true}
	if rw, err := rewardsOf(tw.B, ctx, callerAcc); err == nil {
		for _, x := range rw.Rewards {
			ns.rwList = append(ns.rwList, fmt.Sprintf("(%s, %s)", zOf(tw.valBytes(tw.B, x.ValidatorAddress)), CqZ(x.Reward.AmountOf(tw.bond).TruncateInt().BigInt())))
		}
		ns.totalZero = rw.Total.IsZero()
	}
	ns.bal0 = tw.B.App.BankKeeper.GetBalance(ctx, callerAcc, tw.bond).Amount.BigInt()
	ns.delegated, ns.bonded = tw.transferCandidates(tw.B, ctx, callerAcc)
	branch, write := ctx.CacheContext()
	ns.script, ns.expOK = op.translate(branch, callerAcc)
	if ns.expOK {
		write()
	}
	return ns
}

func (tw *twin) opCaseTerm(sender []byte, hops string, op cpcOp, ns nativeSide, obsOK, obsRet bool, logs []elog) string {
	var sc []string
	for _, en := range ns.script {
		if en.ok {
			var evs []string
			for _, e := range en.evs {
				evs = append(evs, e.coq())
			}
			sc = append(sc, fmt.Sprintf("(%s, Some (%s, %s))", en.coqM, CqList(evs), CqZ(en.bal)))
		} else {
			sc = append(sc, fmt.Sprintf("(%s, None)", en.coqM))
		}
	}
	rec := op.rec
	if rec == "" {
		rec = "None"
	}
	var ls []string
	for _, l := range logs {
		ls = append(ls, l.coq())
	}
	return fmt.Sprintf("(OpCase %s %s (%s) %s %s %s %s %s %s %s %s %s %s)", zOf(sender), hops, op.coqCall, rec,
		CqList(ns.rwList), CqBool(ns.totalZero), tw.coqVinfos(ns.delegated), tw.coqVinfos(ns.bonded), CqZ(ns.bal0), CqList(sc), CqBool(obsOK), CqBool(obsRet), CqList(ls))
}

type multiDesc struct {
	Step   int      `json:"step"`
	Kind   string   `json:"kind"`
	Caller string   `json:"caller"`
	Calls  []string `json:"calls"` // opcode method class expected/observed
	Native []string `json:"translated_native_messages,omitempty"`
	Logs   []string `json:"logs,omitempty"`
	Diff   []string `json:"twin_state_differences,omitempty"`
}

var multiOps = []struct {
	op   byte
	name string
}{{OpCALL, "CALL"}, {OpDELEGATECALL, "DELEGATECALL"}, {OpCALLCODE, "CALLCODE"}}

func (tw *twin) multiStep(r *Rng, side *Sidecar, cases *CasesFile, idx *int, seq, step int) {
	t := tw.t
	sender := tw.actors[r.Intn(len(tw.actors))]
	caller := tw.proxy["pmulti"]
	callerAcc := caller.GetCosmosAddress()
	require.Equal(t, tw.A.C11Price().String(), tw.B.C11Price().String(), "gas prices of the twin chains diverged")

	n := 2 + r.Intn(2)
	qB := tw.B.QueryCtx()
	dry, _ := qB.CacheContext()
	var ops []cpcOp
	var nss []nativeSide
	var calls []NodeCall
	var opNames []string
	var msgs []sdk.Msg
	var nativeStr []string
	for i := 0; i < n; i++ {
		// arguments are chosen against chain B's committed state (genOp reads it): earlier calls of the same transaction
		// may have invalidated them, which is part of the point
		op := tw.genOp(r, caller)
		ns := tw.nativeSideOf(dry, op, callerAcc)
		ops, nss = append(ops, op), append(nss, ns)
		k := multiOps[r.Intn(len(multiOps))]
		opNames = append(opNames, k.name)
		calls = append(calls, NodeCall{Op: k.op, Target: tw.cpc, Payload: op.payload, Leaf: true, Mask: new(big.Int).Lsh(big.NewInt(1), uint(i)),
			Gas: 1_100_000}) // a failing precompile call burns all the gas it was given: a fixed share, above every method's RequireGas
		if ns.expOK {
			for _, en := range ns.script {
				msgs = append(msgs, en.msg)
				nativeStr = append(nativeStr, en.coqM)
			}
		}
	}

	// chain A
	tw.A.SetCode(caller.GetEthAddress(), BuildNode(calls))
	qA := tw.A.QueryCtx()
	preA := map[string]string{}
	for _, a := range tw.tracked {
		preA[a.GetEthAddress().Hex()] = tw.acctAt(tw.A, qA, a.GetCosmosAddress(), tw.A.Time)
	}
	res := tw.A.C11SendEth(sender, caller.GetEthAddress(), nil, txGas)
	if res.Code != 0 {
		// the whole transaction died: legitimate only where a native message server panics as well (natively the whole
		// transaction dies, too); then nothing happens on either chain
		nativePanics := false
		for _, ns := range nss {
			for _, en := range ns.script {
				nativePanics = nativePanics || en.panicked
			}
		}
		side.Count("multi:transaction-panicked")
		if !nativePanics {
			side.Hit("C11/staking/multi-call/transaction-died-where-native-submission-does-not", fmt.Sprintf("the Ethereum transaction was rejected with code %d although no native message of the submissions panics", res.Code), nil)
		}
		tw.B.C11IdleBlock(callerAcc, txGas)
		pa, _ := tw.projection(tw.A)
		pb, _ := tw.projection(tw.B)
		if pa != pb {
			tw.diverged = true
			side.Hit("C11/staking/multi-call/state-differs-from-native", "a transaction that died changed the state", nil)
		}
		return
	}
	require.Equal(t, uint64(1), res.Status, "the multi-call contract itself failed: %s", res.VmError)
	require.Len(t, res.Ret, 32)
	mask := new(big.Int).SetBytes(res.Ret)
	logs, foreign := tw.decodeLogs(res.Logs)

	// chain B
	var bEvents []nevent
	if len(msgs) > 0 {
		resB := tw.B.C11SendCosmos(caller, txGas, msgs...)
		require.Equal(t, uint32(0), resB.Code, "native transaction failed although its dry run succeeded: %s", resB.Log)
		for _, ev := range resB.Events {
			if ne := tw.parseEvent(tw.B, ev, false); ne.typ != "other" {
				bEvents = append(bEvents, ne)
			}
		}
	} else {
		tw.B.C11IdleBlock(callerAcc, txGas)
	}

	d := multiDesc{Step: seq*1000 + step, Kind: "multi-call transaction", Caller: caller.GetEthAddress().Hex(), Native: nativeStr}
	for _, l := range logs {
		d.Logs = append(d.Logs, l.String())
	}
	var subTerms []string
	okCount := 0
	for i, op := range ops {
		obs := mask.Bit(i) == 1
		if obs {
			okCount++
		}
		d.Calls = append(d.Calls, fmt.Sprintf("%s %s %s native_ok=%v observed_ok=%v", opNames[i], op.method, op.class, nss[i].expOK, obs))
		subTerms = append(subTerms, tw.opCaseTerm(sender.GetEthAddress().Bytes(), "[HCall "+tw.pz("pmulti")+"]", op, nss[i], obs, false, nil))
		// each call on its own: succeeds exactly when its native submission does
		if obs != nss[i].expOK {
			side.Hit("C11/staking/multi-call/outcome-differs-from-native/"+op.method, fmt.Sprintf("call %d (%s %s) of a multi-call transaction: precompile ok=%v, its native submission ok=%v", i, opNames[i], op.method, obs, nss[i].expOK), d)
		}
		if op.signedDelegator != nil && obs && (*op.signedDelegator != caller.GetEthAddress() || op.rec != "(Some "+zOf(op.signedDelegator.Bytes())+")") {
			side.Hit("C11/staking/signed-message-accepted-without-delegators-signature-for-this-chain/"+op.method, "inside a multi-call transaction", d)
		}
		side.Count(fmt.Sprintf("multi:%s:%s:ok=%v", opNames[i], op.method, obs))
	}
	side.Count(fmt.Sprintf("multi:calls=%d:succeeded=%d", n, okCount))

	// twin state
	pa, ma := tw.projection(tw.A)
	pb, mb := tw.projection(tw.B)
	if pa != pb {
		for key, v := range ma {
			if mb[key] != v {
				d.Diff = append(d.Diff, key)
			}
		}
		sort.Strings(d.Diff)
		what := "state"
		onlyStore := true
		for _, k := range d.Diff {
			onlyStore = onlyStore && strings.HasPrefix(k, "store:")
		}
		if onlyStore {
			what = "module-store"
		}
		tw.diverged = true
		side.Hit(fmt.Sprintf("C11/staking/multi-call/%s-differs-from-native", what), fmt.Sprintf("after a transaction with %d precompile calls the twin chains differ in %v", n, d.Diff), d)
	}
	// third parties
	qA = tw.A.QueryCtx()
	for _, a := range tw.tracked {
		if a == caller {
			continue
		}
		if now := tw.acct(tw.A, qA, a.GetCosmosAddress()); now != preA[a.GetEthAddress().Hex()] {
			side.Hit("C11/staking/multi-call/third-party-state-changed", fmt.Sprintf("balance / delegations / entries of %s changed although the caller was %s: before %s, after %s", a.GetEthAddress().Hex(), caller.GetEthAddress().Hex(), preA[a.GetEthAddress().Hex()], now), d)
		}
	}
	for _, l := range logs {
		if !bytes.Equal(l.del, caller.GetEthAddress().Bytes()) {
			side.Hit("C11/staking/multi-call/log-for-other-delegator", "a log names a delegator that is not the immediate caller", d)
		}
	}
	// logs of the whole transaction = image of chain B's transaction events, in order
	exp := expectedLogs(bEvents, caller.GetEthAddress().Bytes())
	same := len(exp) == len(logs) && foreign == 0
	for i := 0; same && i < len(exp); i++ {
		same = exp[i].String() == logs[i].String()
	}
	if !same {
		side.Hit("C11/staking/multi-call/log-event-mismatch", fmt.Sprintf("receipt logs %v, module events give %v", logs, exp), d)
	}

	var ls []string
	for _, l := range logs {
		ls = append(ls, l.coq())
	}
	cases.Add(fmt.Sprintf("KMulti %s %s", CqList(subTerms), CqList(ls)))
	side.Case(*idx, fmt.Sprintf("multi/%s", strings.Join(d.Calls, "|")), len(msgs) > 0, d)
	*idx++
}
