package staking

// Driver `staking` (C11), TWIN CHAINS: two in-memory chains with identical genesis; every fee is sponsored by the harness (hx/c11_sponsor.go) so that fees leave no trace. Random sequences of
// staking-precompile calls (by EOAs and by contracts through CALL / DELEGATECALL / CALLCODE chains) run on chain A; the
// driver's own translation into native staking / distribution messages runs on chain B as ordinary Cosmos transactions;
// native messages, reward accrual and time jumps run on both. After every step the chains' staking / distribution / bank
// state must be equal, A's receipt logs must be the image of B's module events, views on A must equal native queries,
// and nobody but the immediate caller may have changed.

import (
	"bytes"
	"crypto/sha256"
	"errors"
	"fmt"
	"math/big"
	"os"
	"regexp"
	"sort"
	"strings"
	"testing"
	"time"

	sdkmath "cosmossdk.io/math"
	abci "github.com/cometbft/cometbft/abci/types"
	"github.com/cosmos/cosmos-sdk/crypto/keys/ed25519"
	sdk "github.com/cosmos/cosmos-sdk/types"
	"github.com/cosmos/cosmos-sdk/types/query"
	authtypes "github.com/cosmos/cosmos-sdk/x/auth/types"
	distkeeper "github.com/cosmos/cosmos-sdk/x/distribution/keeper"
	disttypes "github.com/cosmos/cosmos-sdk/x/distribution/types"
	stakingkeeper "github.com/cosmos/cosmos-sdk/x/staking/keeper"
	stakingtypes "github.com/cosmos/cosmos-sdk/x/staking/types"
	"github.com/ethereum/go-ethereum/common"
	ethtypes "github.com/ethereum/go-ethereum/core/types"
	"github.com/ethereum/go-ethereum/crypto"
	"github.com/ethereum/go-ethereum/signer/core/apitypes"
	"github.com/stretchr/testify/require"
	"google.golang.org/grpc/codes"
	"google.golang.org/grpc/status"

	itutiltypes "github.com/EscanBE/evermint/v12/integration_test_util/types"
	cpcabi "github.com/EscanBE/evermint/v12/x/cpc/abi"
	cpctypes "github.com/EscanBE/evermint/v12/x/cpc/types"
	evmtypes "github.com/EscanBE/evermint/v12/x/evm/types"
	feemarkettypes "github.com/EscanBE/evermint/v12/x/feemarket/types"

	. "verifharness/hx"
)

// ------------------------------------------------------------------ twin environment

type valInfo struct {
	addr sdk.ValAddress
	op   string
}

// a validator created after genesis by a keyed account (native MsgCreateValidator on both chains): its operator can take
// the self-delegation below min_self_delegation, upon which x/staking jails the validator at once - without slashing
type createdVal struct {
	name    string
	op      *itutiltypes.TestAccount
	addr    sdk.ValAddress
	opStr   string
	self    *big.Int
	minSelf *big.Int
	rate    string
}

type pathSpec struct {
	name   string
	to     string // proxy the transaction is sent to ("" = the precompile itself)
	caller string // proxy that is the precompile's caller ("" = the transaction sender)
	hops   func(tw *twin) string
}

type twin struct {
	t       *testing.T
	A, B    *Chain
	bond    string
	cpc     common.Address
	actors  []*itutiltypes.TestAccount
	proxy   map[string]*itutiltypes.TestAccount
	tracked []*itutiltypes.TestAccount // every account that can be a caller
	vals    []valInfo                  // sorted by operator string (index = rank)
	created []createdVal
	valops  []*itutiltypes.TestAccount
	chainID *big.Int
	signed  []signedUse
	// other denominations that reach validators' rewards pools (native MsgDepositValidatorRewardsPool by depositor):
	// one sorts before the bond denom, one after it
	depositor *itutiltypes.TestAccount
	// the sender (tx origin) of the Ethereum transaction the operation being generated will travel in
	curSender *itutiltypes.TestAccount
	denomIDs  map[string]int // denomination -> number in the Coq terms (bond denom = 0)
	// the twins differ: every later comparison would only repeat the first difference, the sequence is abandoned
	diverged bool
	side     *Sidecar
}

type signedUse struct {
	delegator common.Address
	payload   []byte
	caller    common.Address
	call      string // Coq term of the decoded call
	rec       string
	method    string
	native    func(del sdk.AccAddress) []sdk.Msg
}

// gas limit of every transaction on either chain (the same, see the fee market note in newTwin)
const txGas = 4_000_000

func e18(n int64) *big.Int {
	return new(big.Int).Mul(big.NewInt(n), new(big.Int).Exp(big.NewInt(10), big.NewInt(18), nil))
}

func zOf(bz []byte) string { return CqZ(new(big.Int).SetBytes(bz)) }

var paths = []pathSpec{
	{name: "direct", hops: func(tw *twin) string { return "[]" }},
	{name: "CALL", to: "pcall", caller: "pcall", hops: func(tw *twin) string { return "[HCall " + tw.pz("pcall") + "]" }},
	{name: "DELEGATECALL", to: "pdeleg", caller: "pdeleg", hops: func(tw *twin) string { return "[HCall " + tw.pz("pdeleg") + "]" }},
	{name: "CALLCODE", to: "pcc", caller: "pcc", hops: func(tw *twin) string { return "[HCall " + tw.pz("pcc") + "]" }},
	{name: "DELEGATECALL>code>CALL", to: "pdd", caller: "pdd", hops: func(tw *twin) string {
		return "[HCall " + tw.pz("pdd") + "; HDelegate " + tw.pz("pcall") + "]"
	}},
	{name: "CALL>code>CALL", to: "px", caller: "pcall", hops: func(tw *twin) string { return "[HCall " + tw.pz("px") + "; HCall " + tw.pz("pcall") + "]" }},
	{name: "CALLCODE>code>DELEGATECALL", to: "pcd", caller: "pcd", hops: func(tw *twin) string {
		return "[HCall " + tw.pz("pcd") + "; HCallCode " + tw.pz("pdeleg") + "]"
	}},
}

func (tw *twin) pz(name string) string { return zOf(tw.proxy[name].GetEthAddress().Bytes()) }

var otherDenoms = []string{"afoo", "zbar"}

func newTwin(t *testing.T) *twin {
	tw := &twin{t: t, proxy: map[string]*itutiltypes.TestAccount{}, denomIDs: map[string]int{}}
	tw.A = NewChain(t, time.Time{})
	tw.B = NewChain(t, time.Time{})
	tw.cpc = cpctypes.CpcStakingFixedAddress
	for i := 0; i < 3; i++ {
		tw.actors = append(tw.actors, tw.A.DetAccount("actor", i))
	}
	for i, n := range []string{"pcall", "pdeleg", "pcc", "pdd", "px", "pcd", "pstatic", "pmulti", "pmulti2"} {
		tw.proxy[n] = tw.A.DetAccount("proxy", i)
	}
	tw.depositor = tw.A.DetAccount("depositor", 0)
	tw.tracked = append(tw.tracked, tw.actors...)
	for i := 0; i < 2; i++ { // operators of validators created after genesis (besides actor 2); never callers of the precompile
		tw.valops = append(tw.valops, tw.A.DetAccount("valop", i))
	}
	tw.tracked = append(tw.tracked, tw.valops...)
	for _, n := range []string{"pcall", "pdeleg", "pcc", "pdd", "pcd", "pmulti", "pmulti2"} {
		tw.tracked = append(tw.tracked, tw.proxy[n])
	}
	for _, c := range []*Chain{tw.A, tw.B} {
		ctx := c.Ctx()
		var err error
		tw.bond, err = c.App.StakingKeeper.BondDenom(ctx)
		require.NoError(t, err)
		tw.denomIDs[tw.bond] = 0
		for i, d := range otherDenoms {
			tw.denomIDs[d] = i + 1
		}
		c.DeployCpcs(tw.bond)
		c.RepairConsAddrIndex()
		// a constant gas price (0 + 1) on both chains: the sponsored up-front fee enters the total supply for the duration
		// of a block and x/mint's provision depends on the supply, so it must be the same amount on both chains
		require.NoError(t, c.App.FeeMarketKeeper.SetParams(ctx, feemarkettypes.Params{BaseFee: sdkmath.ZeroInt(), MinGasPrice: sdkmath.LegacyZeroDec()}))
		sp, err := c.App.StakingKeeper.GetParams(ctx)
		require.NoError(t, err)
		sp.UnbondingTime = 40 * time.Second
		sp.MaxEntries = 3
		require.NoError(t, c.App.StakingKeeper.SetParams(ctx, sp))
		for _, a := range tw.tracked {
			c.Fund(a.GetCosmosAddress(), tw.bond, e18(1000))
		}
		for _, n := range []string{"px", "pstatic"} {
			c.Fund(tw.proxy[n].GetCosmosAddress(), tw.bond, e18(1))
		}
		c.Fund(tw.depositor.GetCosmosAddress(), tw.bond, e18(1_000_000))
		for _, d := range otherDenoms {
			c.Fund(tw.depositor.GetCosmosAddress(), d, new(big.Int).Exp(big.NewInt(10), big.NewInt(40), nil))
		}
		c.SetCode(tw.proxy["pcall"].GetEthAddress(), BuildProxy(OpCALL, tw.cpc))
		c.SetCode(tw.proxy["pdeleg"].GetEthAddress(), BuildProxy(OpDELEGATECALL, tw.cpc))
		c.SetCode(tw.proxy["pcc"].GetEthAddress(), BuildProxy(OpCALLCODE, tw.cpc))
		c.SetCode(tw.proxy["pdd"].GetEthAddress(), BuildProxy(OpDELEGATECALL, tw.proxy["pcall"].GetEthAddress()))
		c.SetCode(tw.proxy["px"].GetEthAddress(), BuildProxy(OpCALL, tw.proxy["pcall"].GetEthAddress()))
		c.SetCode(tw.proxy["pcd"].GetEthAddress(), BuildProxy(OpCALLCODE, tw.proxy["pdeleg"].GetEthAddress()))
		c.SetCode(tw.proxy["pstatic"].GetEthAddress(), BuildProxy(OpSTATICCALL, tw.cpc))
	}
	// validators (identical on both chains)
	tw.loadVals()
	tw.chainID = tw.A.EvmChainID()
	// initial delegations (natively, both chains alike), chosen so that the first steps of a sequence meet
	//   - callers with several delegations (undelegate / redelegate / withdraw have something to work on),
	//   - callers with none (pcc, pcd, pmulti: transfer()'s "middle of all bonded validators"),
	//   - validators with EQUAL tokens (transfer()'s tie-break by operator): V0 = V1 and V2 = V3, and with V4 the lowest
	//     the middle of the five is inside the V0/V1 tie; actor0 / pcall are delegated to a tied pair,
	//   - dust delegations that earn less than the withdrawal minimum (withdrawRewards() must skip them).
	bonded := tw.bondedVals()
	require.GreaterOrEqual(t, len(bonded), 5)
	type seedDel struct {
		who *itutiltypes.TestAccount
		val int
		amt *big.Int
	}
	seeds := []seedDel{
		{tw.actors[0], 0, e18(2)}, {tw.actors[0], 1, e18(2)},
		{tw.actors[1], 0, e18(2)}, {tw.actors[1], 4, big.NewInt(1000)},
		{tw.actors[2], 1, e18(2)},
		{tw.proxy["pcall"], 2, e18(4)}, {tw.proxy["pcall"], 3, e18(4)},
		{tw.proxy["pdeleg"], 2, e18(4)}, {tw.proxy["pdeleg"], 4, big.NewInt(1000)},
		{tw.proxy["pdd"], 3, e18(4)},
		{tw.proxy["pmulti2"], 0, e18(3)}, {tw.proxy["pmulti2"], 2, e18(3)},
	}
	tw.both(func(c *Chain) {
		// two validators take a commission (the genesis validators take none): the delegators' share of every allocation
		// to them - block rewards and deposits alike - is what is left
		for _, cr := range []struct {
			i    int
			rate string
		}{{1, "0.1"}, {3, "0.5"}} {
			i, rate := cr.i, cr.rate
			v, err := c.App.StakingKeeper.GetValidator(c.Ctx(), bonded[i].addr)
			require.NoError(t, err)
			v.Commission = stakingtypes.NewCommission(sdkmath.LegacyMustNewDecFromStr(rate), sdkmath.LegacyOneDec(), sdkmath.LegacyOneDec())
			require.NoError(t, c.App.StakingKeeper.SetValidator(c.Ctx(), v))
		}
		ms := stakingkeeper.NewMsgServerImpl(c.App.StakingKeeper)
		for _, sd := range seeds {
			_, err := ms.Delegate(c.Ctx(), stakingtypes.NewMsgDelegate(sd.who.GetCosmosAddress().String(), bonded[sd.val].op, sdk.NewCoin(tw.bond, sdkmath.NewIntFromBigInt(sd.amt))))
			require.NoError(t, err)
		}
		c.RunBlock(nil)
	})
	tw.createValidators(bonded)
	tw.accrue()
	// rewards in further denominations from the start: V0 (actor0, actor1, pmulti2) gets the one sorting before the bond
	// denom, V2 (pcall, pdeleg, pmulti2) both, V1 (actor0, actor2; 10% commission) the one sorting after it
	tw.deposit(bonded[0].op, sdk.NewCoins(sdk.NewCoin(otherDenoms[0], sdkmath.NewIntFromBigInt(e18(50)))))
	tw.deposit(bonded[2].op, sdk.NewCoins(sdk.NewCoin(otherDenoms[0], sdkmath.NewInt(123456789)), sdk.NewCoin(otherDenoms[1], sdkmath.NewIntFromBigInt(e18(9)))))
	tw.deposit(bonded[1].op, sdk.NewCoins(sdk.NewCoin(otherDenoms[1], sdkmath.NewIntFromBigInt(e18(1000)))))
	// V4 holds the dust delegations (actor1, pdeleg: 1000 units): a deposit so large that even they earn more than the
	// withdrawal minimum of it - in the other denomination, while their bond-denom reward stays far below the minimum
	tw.deposit(bonded[4].op, sdk.NewCoins(sdk.NewCoin(otherDenoms[1], sdkmath.NewIntFromBigInt(new(big.Int).Exp(big.NewInt(10), big.NewInt(34), nil)))))
	return tw
}

// deposit runs the native, permissionless MsgDepositValidatorRewardsPool on both chains (one sponsored Cosmos transaction
// each): the validator's current rewards grow by the coins (less commission), in whatever denominations they are.
func (tw *twin) deposit(valOp string, coins sdk.Coins) bool {
	var codes []uint32
	tw.both(func(c *Chain) {
		res := c.C11SendCosmos(tw.depositor, txGas, &disttypes.MsgDepositValidatorRewardsPool{Depositor: tw.depositor.GetCosmosAddress().String(), ValidatorAddress: valOp, Amount: coins})
		codes = append(codes, res.Code)
	})
	require.Equal(tw.t, codes[0], codes[1], "the same deposit had different outcomes on the twin chains")
	return codes[0] == 0
}

func (tw *twin) both(f func(c *Chain)) { f(tw.A); f(tw.B) }

// loadVals (re)reads the validators that exist (chain A; the twins are identical whenever it is called), sorted by
// operator string (index = rank)
func (tw *twin) loadVals() {
	tw.vals = nil
	vs, err := tw.A.App.StakingKeeper.GetAllValidators(tw.A.QueryCtx())
	require.NoError(tw.t, err)
	for _, v := range vs {
		bz, err := tw.A.App.StakingKeeper.ValidatorAddressCodec().StringToBytes(v.OperatorAddress)
		require.NoError(tw.t, err)
		tw.vals = append(tw.vals, valInfo{addr: bz, op: v.OperatorAddress})
	}
	sort.Slice(tw.vals, func(i, j int) bool { return tw.vals[i].op < tw.vals[j].op })
}

// valStatus is the status class of a validator in chain B's committed state: bonded / unbonding / unbonded, jailed or
// not, without tokens, taking the whole reward as commission; "removed" = known once, gone now
func (tw *twin) valStatus(addr []byte) string {
	v, err := tw.B.App.StakingKeeper.GetValidator(tw.B.QueryCtx(), addr)
	if err != nil {
		return "removed"
	}
	s := strings.ToLower(strings.TrimPrefix(v.Status.String(), "BOND_STATUS_"))
	if v.Jailed {
		s = "jailed-" + s
	}
	if v.Tokens.IsZero() {
		s += "-zero-tokens"
	}
	if v.Commission.Rate.Equal(sdkmath.LegacyOneDec()) {
		s += "-max-commission"
	}
	return s
}

// bondedVals: the validators that are bonded (and not jailed) NOW
func (tw *twin) bondedVals() (out []valInfo) {
	q := tw.B.QueryCtx()
	for _, v := range tw.vals {
		if x, err := tw.B.App.StakingKeeper.GetValidator(q, v.addr); err == nil && x.IsBonded() && !x.Jailed {
			out = append(out, v)
		}
	}
	return
}

// specialVals: validators that exist and are not simply bonded: jailed, unbonding, unbonded, without tokens
func (tw *twin) specialVals() (jailed, other []valInfo) {
	q := tw.B.QueryCtx()
	for _, v := range tw.vals {
		x, err := tw.B.App.StakingKeeper.GetValidator(q, v.addr)
		switch {
		case err != nil:
		case x.Jailed:
			jailed = append(jailed, v)
		case !x.IsBonded() || x.Tokens.IsZero():
			other = append(other, v)
		}
	}
	return
}

// createValidators: three validators created natively, on both chains alike, by keyed accounts:
//   - "op-actor" by actor 2 (who is also a sender and direct caller of the precompile): self-bond 3, min_self_delegation 2,
//     10% commission, plus 2 from the contract pcall: jailed when actor 2 - natively or through the precompile - takes more
//     than 1 out;
//   - "op-max" by valop 0: self-bond = min_self_delegation = 2, commission 100% (delegators earn nothing), plus 1 each from
//     actor 1 and the contract pdd: the driver lets the operator un-delegate 1 unit early in every sequence: jailed, not
//     slashed, unbonding and after the unbonding time unbonded, kept alive by the other delegators;
//   - "op-empty" by valop 1: self-bond 1, min_self_delegation 1 unit, nobody else: the operator un-delegates all but one
//     unit: a validator without voting power that leaves the bonded set without being jailed (unbonding, then unbonded);
//     when the operator later takes the last unit out it is jailed with zero tokens and removed once unbonded, unless
//     somebody delegates to it before.
func (tw *twin) createValidators(genesisBonded []valInfo) {
	t := tw.t
	type extra struct {
		who *itutiltypes.TestAccount
		amt *big.Int
	}
	specs := []struct {
		cv     createdVal
		extras []extra
	}{
		{createdVal{name: "op-actor", op: tw.actors[2], self: e18(3), minSelf: e18(2), rate: "0.1"}, []extra{{tw.proxy["pcall"], e18(2)}}},
		{createdVal{name: "op-max", op: tw.valops[0], self: e18(2), minSelf: e18(2), rate: "1.0"}, []extra{{tw.actors[1], e18(1)}, {tw.proxy["pdd"], e18(1)}}},
		{createdVal{name: "op-empty", op: tw.valops[1], self: e18(1), minSelf: big.NewInt(1), rate: "0"}, nil},
	}
	for i := range specs {
		cv := &specs[i].cv
		cv.addr = sdk.ValAddress(cv.op.GetCosmosAddress())
		cv.opStr = tw.valStr(tw.A, common.BytesToAddress(cv.addr))
		tw.created = append(tw.created, *cv)
	}
	tw.both(func(c *Chain) {
		ms := stakingkeeper.NewMsgServerImpl(c.App.StakingKeeper)
		for i, sp := range specs {
			pk := ed25519.GenPrivKeyFromSecret([]byte(fmt.Sprintf("verif/c11/consensus-key/%d", i))).PubKey()
			rate := sdkmath.LegacyMustNewDecFromStr(sp.cv.rate)
			msg, err := stakingtypes.NewMsgCreateValidator(sp.cv.opStr, pk, coin(tw.bond, sp.cv.self), stakingtypes.Description{Moniker: sp.cv.name},
				stakingtypes.NewCommissionRates(rate, sdkmath.LegacyOneDec(), sdkmath.LegacyOneDec()), sdkmath.NewIntFromBigInt(sp.cv.minSelf))
			require.NoError(t, err)
			_, err = ms.CreateValidator(c.Ctx(), msg)
			require.NoError(t, err)
			for _, x := range sp.extras {
				_, err := ms.Delegate(c.Ctx(), stakingtypes.NewMsgDelegate(x.who.GetCosmosAddress().String(), sp.cv.opStr, coin(tw.bond, x.amt)))
				require.NoError(t, err)
			}
		}
		c.RunBlock(nil)
	})
	tw.loadVals()
}

// operatorOf: the created validator (not jailed yet) whose operator acc is
func (tw *twin) operatorOf(acc sdk.AccAddress) *createdVal {
	for i := range tw.created {
		cv := &tw.created[i]
		if bytes.Equal(cv.op.GetCosmosAddress(), acc) {
			if v, err := tw.B.App.StakingKeeper.GetValidator(tw.B.QueryCtx(), cv.addr); err == nil && !v.Jailed {
				return cv
			}
		}
	}
	return nil
}

// belowMinSelf: an amount whose un-delegation by the operator leaves less than min_self_delegation (nil: no self-bond left)
func (tw *twin) belowMinSelf(r *Rng, cv *createdVal) *big.Int {
	q := tw.B.QueryCtx()
	d, err := tw.B.App.StakingKeeper.GetDelegation(q, cv.op.GetCosmosAddress(), cv.addr)
	if err != nil {
		return nil
	}
	v, err := tw.B.App.StakingKeeper.GetValidator(q, cv.addr)
	if err != nil {
		return nil
	}
	self := v.TokensFromShares(d.Shares).TruncateInt().BigInt()
	least := Badd(new(big.Int).Sub(self, cv.minSelf), 1) // the smallest amount that goes below the minimum
	if least.Sign() <= 0 {
		least = big.NewInt(1)
	}
	switch r.Intn(3) {
	case 0:
		return least
	case 1:
		return self
	}
	return new(big.Int).Add(least, new(big.Int).Rsh(new(big.Int).Sub(self, least), 1))
}

// nativeBoth runs one native message as a sponsored Cosmos transaction on both chains
func (tw *twin) nativeBoth(a *itutiltypes.TestAccount, m sdk.Msg) bool {
	var codes []uint32
	tw.both(func(c *Chain) { codes = append(codes, c.C11SendCosmos(a, txGas, m).Code) })
	if codes[0] != codes[1] {
		tw.side.Hit("C11/staking/twin-harness-native-message-diverged", "the same native message had different outcomes on the twin chains", nil)
	}
	return codes[0] == 0
}

func (tw *twin) accrue() {
	tw.both(func(c *Chain) {
		ctx := c.Ctx()
		coins := sdk.NewCoins(sdk.NewCoin(tw.bond, sdkmath.NewIntFromBigInt(e18(7))))
		require.NoError(tw.t, c.App.BankKeeper.MintCoins(ctx, evmtypes.ModuleName, coins))
		require.NoError(tw.t, c.App.BankKeeper.SendCoinsFromModuleToModule(ctx, evmtypes.ModuleName, authtypes.FeeCollectorName, coins))
		// a duplicate validator of the suite (same consensus key, see RepairConsAddrIndex) that was delegated to and then
		// emptied is removed together with the shared consensus-address index entry: point it back before votes are read
		c.RepairConsAddrIndex()
		c.RunBlockVoted(nil)
	})
}

// ------------------------------------------------------------------ projections

func rewardsOf(c *Chain, ctx sdk.Context, a sdk.AccAddress) (*disttypes.QueryDelegationTotalRewardsResponse, error) {
	cc, _ := ctx.CacheContext() // the querier writes (ends reward periods)
	return distkeeper.NewQuerier(c.App.DistrKeeper).DelegationTotalRewards(cc, &disttypes.QueryDelegationTotalRewardsRequest{DelegatorAddress: a.String()})
}

// acct returns the per-account state the property speaks of, without rewards: balance, delegations, unbonding and
// redelegation entries.
func (tw *twin) acct(c *Chain, ctx sdk.Context, a sdk.AccAddress) string {
	return tw.acctAt(c, ctx, a, time.Time{})
}

// acctAt is acct as it will be after the end blocker of a block with time `at` has run and nothing else happened:
// unbonding entries that mature by then are paid out to the balance, matured redelegation entries are dropped
// (x/staking EndBlocker -> DequeueAllMatureUBDQueue / DequeueAllMatureRedelegationQueue). at.IsZero(): as it is.
func (tw *twin) acctAt(c *Chain, ctx sdk.Context, a sdk.AccAddress, at time.Time) string {
	return tw.acctAtPlus(c, ctx, a, at, nil)
}

// acctAtPlus: acctAt with `extra` coins paid to the account
func (tw *twin) acctAtPlus(c *Chain, ctx sdk.Context, a sdk.AccAddress, at time.Time, extra sdk.Coins) string {
	mature := func(t time.Time) bool { return !at.IsZero() && !t.After(at) }
	var sb strings.Builder
	all := c.App.BankKeeper.GetAllBalances(ctx, a).Add(extra...)
	bal := all.AmountOf(tw.bond)
	var rest strings.Builder
	dels, err := c.App.StakingKeeper.GetAllDelegatorDelegations(ctx, a)
	require.NoError(tw.t, err)
	for _, d := range dels {
		fmt.Fprintf(&rest, "D:%s:%s;", d.ValidatorAddress, d.Shares)
	}
	ubds, err := c.App.StakingKeeper.GetAllUnbondingDelegations(ctx, a)
	require.NoError(tw.t, err)
	for _, u := range ubds {
		var es strings.Builder
		for _, en := range u.Entries {
			if mature(en.CompletionTime) {
				bal = bal.Add(en.Balance)
				continue
			}
			fmt.Fprintf(&es, "%s/%s/%d/%d,", en.InitialBalance, en.Balance, en.CreationHeight, en.CompletionTime.Unix())
		}
		if es.Len() > 0 {
			fmt.Fprintf(&rest, "U:%s:%s;", u.ValidatorAddress, es.String())
		}
	}
	reds, err := c.App.StakingKeeper.GetRedelegations(ctx, a, 1000)
	require.NoError(tw.t, err)
	for _, r := range reds {
		var es strings.Builder
		for _, en := range r.Entries {
			if mature(en.CompletionTime) {
				continue
			}
			fmt.Fprintf(&es, "%s/%s/%d/%d,", en.InitialBalance, en.SharesDst, en.CreationHeight, en.CompletionTime.Unix())
		}
		if es.Len() > 0 {
			fmt.Fprintf(&rest, "R:%s:%s:%s;", r.ValidatorSrcAddress, r.ValidatorDstAddress, es.String())
		}
	}
	// balances in the other denominations (rewards are paid out in every denomination of the validator's pool)
	var others []string
	for _, cn := range all {
		if cn.Denom != tw.bond {
			others = append(others, cn.String())
		}
	}
	sort.Strings(others)
	fmt.Fprintf(&sb, "bal=%s;other=%s;%s", bal, strings.Join(others, ","), rest.String())
	return sb.String()
}

// partySnap: the accounts as they will be after the coming block (time c.Time) if nobody acts on them.  The one thing a
// native staking message (and the end blocker) does to an account other than the message's delegator: when the last
// shares leave a validator that is unbonded - or it is found without shares when its unbonding time is over - x/staking
// removes the validator and x/distribution's AfterValidatorRemoved hook pays the accumulated commission (truncated, every
// denomination) to the operator's account.  For the operator of a created validator `removed` holds the account as it
// will be in that event.
type partySnap struct {
	plain, removed map[string]string
}

func (tw *twin) snapParties(c *Chain) partySnap {
	q := c.QueryCtx()
	sn := partySnap{map[string]string{}, map[string]string{}}
	for _, a := range tw.tracked {
		k := a.GetEthAddress().Hex()
		sn.plain[k] = tw.acctAt(c, q, a.GetCosmosAddress(), c.Time)
		for _, cv := range tw.created {
			if cv.op != a {
				continue
			}
			if _, err := c.App.StakingKeeper.GetValidator(q, cv.addr); err != nil {
				continue
			}
			com, err := c.App.DistrKeeper.GetValidatorAccumulatedCommission(q, cv.addr)
			if err != nil {
				continue
			}
			pay, _ := com.Commission.TruncateDecimal()
			sn.removed[k] = tw.acctAtPlus(c, q, a.GetCosmosAddress(), c.Time, pay)
		}
	}
	return sn
}

// changed: the account is neither as predicted nor - its validator having been removed - as predicted plus commission
func (tw *twin) changed(c *Chain, q sdk.Context, a *itutiltypes.TestAccount, sn partySnap) (string, bool) {
	k := a.GetEthAddress().Hex()
	now := tw.acct(c, q, a.GetCosmosAddress())
	if now == sn.plain[k] {
		return now, false
	}
	if alt, ok := sn.removed[k]; ok && now == alt {
		for _, cv := range tw.created {
			if cv.op == a {
				if _, err := c.App.StakingKeeper.GetValidator(q, cv.addr); err != nil {
					if tw.side != nil {
						tw.side.Count("third-party:operator-paid-commission-of-removed-validator")
					}
					return now, false
				}
			}
		}
	}
	return now, true
}

// global projection compared between the twins
func (tw *twin) projection(c *Chain) (string, map[string]string) {
	ctx := c.QueryCtx()
	parts := map[string]string{}
	for _, a := range tw.tracked {
		k := a.GetEthAddress().Hex()
		parts["acct:"+k] = tw.acct(c, ctx, a.GetCosmosAddress())
		r, err := rewardsOf(c, ctx, a.GetCosmosAddress())
		if err != nil {
			parts["rewards:"+k] = "error"
		} else {
			var sb strings.Builder
			for _, x := range r.Rewards {
				fmt.Fprintf(&sb, "%s=%s;", x.ValidatorAddress, x.Reward)
			}
			parts["rewards:"+k] = sb.String() + "total=" + r.Total.String()
		}
	}
	vs, err := c.App.StakingKeeper.GetAllValidators(ctx)
	require.NoError(tw.t, err)
	for _, v := range vs {
		parts["val:"+v.OperatorAddress] = fmt.Sprintf("%s/%s/%s", v.Tokens, v.DelegatorShares, v.Status)
	}
	parts["cpc_addr_balance"] = c.App.BankKeeper.GetBalance(ctx, tw.cpc.Bytes(), tw.bond).Amount.String()
	// everything x/staking, x/distribution and x/bank keep (all delegators, all validators, pools, reward periods and
	// their reference counts, supply), byte for byte; staking's HistoricalInfo (0x50: block headers) is chain-specific
	for _, name := range []string{"staking", "distribution", "bank"} {
		if os.Getenv("VERIF_C11_NO_STORE_DIGEST") != "" { // diagnosis only: look for the consequences the queries can see
			break
		}
		h := sha256.New()
		it := ctx.MultiStore().GetKVStore(c.App.GetKVStoreKey()[name]).Iterator(nil, nil)
		for ; it.Valid(); it.Next() {
			if name == "staking" && len(it.Key()) > 0 && it.Key()[0] == 0x50 {
				continue
			}
			fmt.Fprintf(h, "%x=%x;", it.Key(), it.Value())
		}
		it.Close()
		parts["store:"+name] = fmt.Sprintf("%x", h.Sum(nil)[:12])
	}
	keys := make([]string, 0, len(parts))
	for k := range parts {
		keys = append(keys, k)
	}
	sort.Strings(keys)
	var sb strings.Builder
	for _, k := range keys {
		sb.WriteString(k + "=" + parts[k] + "\n")
	}
	return sb.String(), parts
}

// ------------------------------------------------------------------ events and logs

// czs is a coin list as the Coq terms carry it: (number of the denomination, amount), in the order given
type cz struct {
	denom int
	amt   *big.Int
}
type czs []cz

func (l czs) coq() string {
	var out []string
	for _, x := range l {
		out = append(out, fmt.Sprintf("(%s, %s)", CqZi(int64(x.denom)), CqZ(x.amt)))
	}
	return CqList(out)
}

// bondAmount is the amount of the bond denom in the list (0 if absent)
func (l czs) bondAmount() *big.Int {
	for _, x := range l {
		if x.denom == 0 {
			return x.amt
		}
	}
	return big.NewInt(0)
}

func (tw *twin) denomID(d string) int {
	id, ok := tw.denomIDs[d]
	if !ok {
		id = len(tw.denomIDs)
		tw.denomIDs[d] = id
	}
	return id
}

var coinRe = regexp.MustCompile(`^([0-9]+)([a-zA-Z][a-zA-Z0-9/:._-]{2,127})$`)

// parseAmount reads the `amount` attribute of a module event, written down here from the format of sdk.Coins.String()
// ("<n><denom>" joined by commas; empty = no coins), not with the SDK's parser the precompile uses.
func (tw *twin) parseAmount(s string) (czs, bool) {
	var out czs
	if strings.TrimSpace(s) == "" {
		return out, true
	}
	for _, part := range strings.Split(s, ",") {
		m := coinRe.FindStringSubmatch(strings.TrimSpace(part))
		if m == nil {
			return nil, false
		}
		n, _ := new(big.Int).SetString(m[1], 10)
		out = append(out, cz{tw.denomID(m[2]), n})
	}
	return out, true
}

// truncated DecCoins (what the distribution queriers answer) as a coin list
func (tw *twin) decCoins(dc sdk.DecCoins) czs {
	var out czs
	for _, x := range dc {
		out = append(out, cz{tw.denomID(x.Denom), x.Amount.TruncateInt().BigInt()})
	}
	return out
}

type nevent struct {
	typ           string // delegate, unbond, redelegate, withdraw_rewards, other
	val, del, dst []byte
	amt           czs // every denomination the event's amount attribute carries
}

func (tw *twin) valBytes(c *Chain, s string) []byte {
	bz, err := c.App.StakingKeeper.ValidatorAddressCodec().StringToBytes(s)
	if err != nil {
		return nil
	}
	return bz
}

// parseEvent maps a module event to what the property calls "module events produced"; exact=true additionally applies
// the precompile's filter (exact attribute count), as for events read from a bare event manager.
func (tw *twin) parseEvent(c *Chain, ev abci.Event, exact bool) nevent {
	at := EventAttrs(ev)
	n := len(ev.Attributes)
	amt := func() czs {
		l, ok := tw.parseAmount(at[sdk.AttributeKeyAmount])
		if !ok && tw.side != nil {
			tw.side.Hit("C11/staking/native-hypothesis-violated/event-amount-not-a-coin-list", fmt.Sprintf("%s event with amount %q", ev.Type, at[sdk.AttributeKeyAmount]), nil)
		}
		if len(l) > 1 && tw.side != nil {
			tw.side.Count(fmt.Sprintf("event:%s:denominations=%d", ev.Type, len(l)))
		}
		return l
	}
	del := func() []byte {
		a, err := sdk.AccAddressFromBech32(at[stakingtypes.AttributeKeyDelegator])
		if err != nil {
			return nil
		}
		return a
	}
	switch ev.Type {
	case stakingtypes.EventTypeDelegate:
		if !exact || n == 4 {
			return nevent{typ: "delegate", val: tw.valBytes(c, at[stakingtypes.AttributeKeyValidator]), del: del(), amt: amt()}
		}
	case stakingtypes.EventTypeUnbond:
		if !exact || n == 4 {
			return nevent{typ: "unbond", val: tw.valBytes(c, at[stakingtypes.AttributeKeyValidator]), del: del(), amt: amt()}
		}
	case stakingtypes.EventTypeRedelegate:
		if !exact || n == 4 {
			return nevent{typ: "redelegate", val: tw.valBytes(c, at[stakingtypes.AttributeKeySrcValidator]), dst: tw.valBytes(c, at[stakingtypes.AttributeKeyDstValidator]), amt: amt()}
		}
	case disttypes.EventTypeWithdrawRewards:
		if !exact || n == 3 {
			return nevent{typ: "withdraw_rewards", val: tw.valBytes(c, at[disttypes.AttributeKeyValidator]), del: del(), amt: amt()}
		}
	}
	return nevent{typ: "other"}
}

func (e nevent) coq() string {
	switch e.typ {
	case "delegate":
		return fmt.Sprintf("EvDelegate %s %s %s", zOf(e.val), zOf(e.del), e.amt.coq())
	case "unbond":
		return fmt.Sprintf("EvUnbond %s %s %s", zOf(e.val), zOf(e.del), e.amt.coq())
	case "redelegate":
		return fmt.Sprintf("EvRedelegate %s %s %s", zOf(e.val), zOf(e.dst), e.amt.coq())
	case "withdraw_rewards":
		return fmt.Sprintf("EvWithdrawRewards %s %s %s", zOf(e.val), zOf(e.del), e.amt.coq())
	}
	return "EvOther"
}

type elog struct {
	kind     string // Delegate, Undelegate, WithdrawReward
	del, val []byte
	amt      *big.Int
}

func (l elog) String() string { return fmt.Sprintf("%s(%x,%x,%s)", l.kind, l.del, l.val, l.amt) }
func (l elog) coq() string {
	return fmt.Sprintf("L%s %s %s %s", l.kind, zOf(l.del), zOf(l.val), CqZ(l.amt))
}

var logSigs = map[common.Hash]string{
	crypto.Keccak256Hash([]byte("Delegate(address,address,uint256)")):       "Delegate",
	crypto.Keccak256Hash([]byte("Undelegate(address,address,uint256)")):     "Undelegate",
	crypto.Keccak256Hash([]byte("WithdrawReward(address,address,uint256)")): "WithdrawReward",
}

func (tw *twin) decodeLogs(logs []*ethtypes.Log) (out []elog, foreign int) {
	for _, l := range logs {
		k, ok := logSigs[l.Topics[0]]
		if l.Address != tw.cpc || len(l.Topics) != 3 || !ok {
			foreign++
			continue
		}
		out = append(out, elog{kind: k, del: l.Topics[1].Bytes()[12:], val: l.Topics[2].Bytes()[12:], amt: new(big.Int).SetBytes(l.Data)})
	}
	return
}

// expectedLogs is the property text: Delegate / Undelegate / WithdrawReward logs matching exactly the module events
// (positive amounts; a redelegation is an undelegation from the source plus a delegation to the destination).  The
// logs' one uint256 is an amount of the staking coin: of an event that carries several denominations (rewards paid out of
// a pool that holds more than the bond denom) the log repeats the bond denom's amount, and an event without a positive
// bond-denom amount has no log.
func expectedLogs(evs []nevent, caller []byte) (out []elog) {
	for _, e := range evs {
		if e.typ == "other" {
			continue
		}
		a := e.amt.bondAmount()
		if a.Sign() <= 0 {
			continue
		}
		switch e.typ {
		case "delegate":
			out = append(out, elog{"Delegate", e.del, e.val, a})
		case "unbond":
			out = append(out, elog{"Undelegate", e.del, e.val, a})
		case "redelegate":
			out = append(out, elog{"Undelegate", caller, e.val, a}, elog{"Delegate", caller, e.dst, a})
		case "withdraw_rewards":
			out = append(out, elog{"WithdrawReward", e.del, e.val, a})
		}
	}
	return
}

// checkNativeHypotheses checks, on what the native modules really did, the hypotheses under which the conditional
// theorems of Properties/C11.v speak (they are statements about cosmos-sdk, not about /repo): every executed message is
// announced by at least one delegate / unbond / redelegate / withdraw_rewards event (C11_twin_histories_agree,
// C11_twin_logs_match_events), and such events name the message's own delegator (C11_logs_for_caller).
func (tw *twin) checkNativeHypotheses(side *Sidecar, delegator sdk.AccAddress, evs []nevent, what string) {
	counted := 0
	for _, e := range evs {
		if e.typ == "other" {
			continue
		}
		counted++
		if e.typ != "redelegate" && !bytes.Equal(e.del, delegator) {
			side.Hit("C11/staking/native-hypothesis-violated/event-names-other-delegator", fmt.Sprintf("%s by %x emitted a %s event for delegator %x", what, delegator.Bytes(), e.typ, e.del), nil)
		}
	}
	if counted == 0 {
		side.Hit("C11/staking/native-hypothesis-violated/message-without-event", what+" succeeded without any delegate / unbond / redelegate / withdraw_rewards event", nil)
	}
	side.Count("native-hypotheses-checked")
}

// ------------------------------------------------------------------ native execution (chain B's modules)

type scriptEntry struct {
	msg sdk.Msg
	ok  bool
	// the native message server panicked (e.g. "Int overflow" in the share arithmetic for an absurd amount): natively
	// the whole transaction dies, and so does the Ethereum transaction around a precompile call
	panicked bool
	evs      []nevent
	bal      *big.Int
	coqM     string
}

func (tw *twin) coqMsg(c *Chain, m sdk.Msg) string {
	acc := func(s string) string { a, _ := sdk.AccAddressFromBech32(s); return zOf(a) }
	switch x := m.(type) {
	case *stakingtypes.MsgDelegate:
		return fmt.Sprintf("MsgDelegate %s %s %s", acc(x.DelegatorAddress), zOf(tw.valBytes(c, x.ValidatorAddress)), CqZ(x.Amount.Amount.BigInt()))
	case *stakingtypes.MsgUndelegate:
		return fmt.Sprintf("MsgUndelegate %s %s %s", acc(x.DelegatorAddress), zOf(tw.valBytes(c, x.ValidatorAddress)), CqZ(x.Amount.Amount.BigInt()))
	case *stakingtypes.MsgBeginRedelegate:
		return fmt.Sprintf("MsgBeginRedelegate %s %s %s %s", acc(x.DelegatorAddress), zOf(tw.valBytes(c, x.ValidatorSrcAddress)), zOf(tw.valBytes(c, x.ValidatorDstAddress)), CqZ(x.Amount.Amount.BigInt()))
	case *disttypes.MsgWithdrawDelegatorReward:
		return fmt.Sprintf("MsgWithdrawDelegatorReward %s %s", acc(x.DelegatorAddress), zOf(tw.valBytes(c, x.ValidatorAddress)))
	}
	panic("unknown message")
}

// execNative runs one message through the native message server on ctx (a cache of chain B's committed state).
func (tw *twin) execNative(c *Chain, ctx sdk.Context, m sdk.Msg, caller sdk.AccAddress) scriptEntry {
	ectx := ctx.WithEventManager(sdk.NewEventManager())
	cctx, write := ectx.CacheContext()
	var err error
	p := CatchPanic(func() {
		switch x := m.(type) {
		case *stakingtypes.MsgDelegate:
			_, err = stakingkeeper.NewMsgServerImpl(c.App.StakingKeeper).Delegate(cctx, x)
		case *stakingtypes.MsgUndelegate:
			_, err = stakingkeeper.NewMsgServerImpl(c.App.StakingKeeper).Undelegate(cctx, x)
		case *stakingtypes.MsgBeginRedelegate:
			_, err = stakingkeeper.NewMsgServerImpl(c.App.StakingKeeper).BeginRedelegate(cctx, x)
		case *disttypes.MsgWithdrawDelegatorReward:
			_, err = distkeeper.NewMsgServerImpl(c.App.DistrKeeper).WithdrawDelegatorReward(cctx, x)
		}
	})
	en := scriptEntry{msg: m, coqM: tw.coqMsg(c, m)}
	if p != nil || err != nil {
		en.panicked = p != nil
		return en
	}
	write()
	en.ok = true
	for _, ev := range cctx.EventManager().ABCIEvents() {
		en.evs = append(en.evs, tw.parseEvent(c, ev, true))
	}
	if tw.side != nil {
		tw.checkNativeHypotheses(tw.side, caller, en.evs, fmt.Sprintf("%T", m))
	}
	en.bal = c.App.BankKeeper.GetBalance(ctx, caller, tw.bond).Amount.BigInt()
	return en
}

func (tw *twin) valStr(c *Chain, v common.Address) string {
	s, err := c.App.StakingKeeper.ValidatorAddressCodec().BytesToString(v.Bytes())
	require.NoError(tw.t, err)
	return s
}

type vinfo struct {
	addr   []byte
	tokens *big.Int
	op     string
}

func (tw *twin) rank(op string) int {
	for i, v := range tw.vals {
		if v.op == op {
			return i
		}
	}
	return len(tw.vals)
}

func (tw *twin) coqVinfos(vs []vinfo) string {
	var out []string
	for _, v := range vs {
		out = append(out, fmt.Sprintf("VInfo %s %s %s", zOf(v.addr), CqZ(v.tokens), CqZi(int64(tw.rank(v.op)))))
	}
	return CqList(out)
}

// validators as transfer() reads them on ctx
func (tw *twin) transferCandidates(c *Chain, ctx sdk.Context, del sdk.AccAddress) (delegated, bonded []vinfo) {
	dels, err := c.App.StakingKeeper.GetAllDelegatorDelegations(ctx, del)
	require.NoError(tw.t, err)
	for _, d := range dels {
		v, err := c.App.StakingKeeper.GetValidator(ctx, tw.valBytes(c, d.ValidatorAddress))
		require.NoError(tw.t, err)
		if v.IsBonded() {
			delegated = append(delegated, vinfo{tw.valBytes(c, v.OperatorAddress), v.Tokens.BigInt(), v.OperatorAddress})
		}
	}
	require.NoError(tw.t, c.App.StakingKeeper.IterateLastValidators(ctx, func(_ int64, v stakingtypes.ValidatorI) bool {
		bonded = append(bonded, vinfo{tw.valBytes(c, v.GetOperator()), v.GetTokens().BigInt(), v.GetOperator()})
		return false
	}))
	return
}

// the documented rule of transfer(): none delegated -> middle of all bonded validators by (tokens, operator);
// one -> it; several -> the lowest of them
func chooseValidator(delegated, bonded []vinfo) *vinfo {
	less := func(l []vinfo) func(i, j int) bool {
		return func(i, j int) bool {
			if c := l[i].tokens.Cmp(l[j].tokens); c != 0 {
				return c < 0
			}
			return l[i].op < l[j].op
		}
	}
	switch {
	case len(delegated) == 0:
		if len(bonded) == 0 {
			return nil
		}
		s := append([]vinfo{}, bonded...)
		sort.Slice(s, less(s))
		return &s[len(s)/2]
	case len(delegated) == 1:
		return &delegated[0]
	default:
		s := append([]vinfo{}, delegated...)
		sort.Slice(s, less(s))
		return &s[0]
	}
}

// ------------------------------------------------------------------ precompile operations

type cpcOp struct {
	method  string
	payload []byte
	coqCall string
	rec     string // Coq option Z: independently recovered signer (signed methods)
	class   string // argument / signature class, for the histogram
	// signed methods: the delegator named in the message
	signedDelegator *common.Address
	// translate produces, executing on dry (cache of B), the script of native messages; ok=false: the call must fail
	translate func(dry sdk.Context, caller sdk.AccAddress) (script []scriptEntry, ok bool)
}

func (tw *twin) pack(name string, args ...interface{}) []byte {
	bz, err := cpcabi.StakingCpcInfo.ABI.Pack(name, args...)
	require.NoError(tw.t, err)
	return bz
}

func coin(denom string, a *big.Int) sdk.Coin {
	return sdk.Coin{Denom: denom, Amount: sdkmath.NewIntFromBigInt(a)}
}

func (tw *twin) runScript(dry sdk.Context, caller sdk.AccAddress, msgs []sdk.Msg) ([]scriptEntry, bool) {
	var script []scriptEntry
	for _, m := range msgs {
		en := tw.execNative(tw.B, dry, m, caller)
		script = append(script, en)
		if !en.ok {
			return script, false
		}
	}
	return script, true
}

func (tw *twin) withdrawAllMsgs(dry sdk.Context, caller sdk.AccAddress) []sdk.Msg {
	r, err := rewardsOf(tw.B, dry, caller)
	if err != nil || len(r.Rewards) == 0 || r.Total.IsZero() {
		return nil
	}
	min := new(big.Int).Exp(big.NewInt(10), big.NewInt(15), nil)
	var msgs []sdk.Msg
	for _, x := range r.Rewards {
		if x.Reward.AmountOf(tw.bond).TruncateInt().BigInt().Cmp(min) >= 0 {
			msgs = append(msgs, disttypes.NewMsgWithdrawDelegatorReward(caller.String(), x.ValidatorAddress))
		}
	}
	return msgs
}

// pickVal: a validator of any status: 60% bonded, 28% one that is jailed / unbonding / unbonded / without tokens (half of
// these a jailed one when there is any), else an address that is no validator
func (tw *twin) pickVal(r *Rng) (common.Address, string) {
	v, class := tw.pickVal0(r)
	if tw.side != nil {
		tw.side.Count("picked-validator:" + class)
	}
	return v, class
}

func (tw *twin) pickVal0(r *Rng) (common.Address, string) {
	switch x := r.Intn(100); {
	case x < 60:
		if b := tw.bondedVals(); len(b) > 0 {
			v := b[r.Intn(len(b))]
			return common.BytesToAddress(v.addr), tw.valStatus(v.addr)
		}
	case x < 88:
		jailed, other := tw.specialVals()
		pool := append(append([]valInfo{}, jailed...), other...)
		if len(jailed) > 0 && r.Chance(50) {
			pool = jailed
		}
		if len(pool) > 0 {
			v := pool[r.Intn(len(pool))]
			return common.BytesToAddress(v.addr), tw.valStatus(v.addr)
		}
	}
	return common.BigToAddress(r.BigBits(150)), "unknown"
}

// pickOwnVal prefers (70%) a validator the caller is delegated to, so that undelegate / redelegate / withdraw mostly
// reach the native message servers with something to do.
func (tw *twin) pickOwnVal(r *Rng, caller sdk.AccAddress) (common.Address, string) {
	if r.Chance(70) {
		dels, err := tw.B.App.StakingKeeper.GetAllDelegatorDelegations(tw.B.QueryCtx(), caller)
		if err == nil && len(dels) > 0 {
			bz := tw.valBytes(tw.B, dels[r.Intn(len(dels))].ValidatorAddress)
			if tw.side != nil {
				tw.side.Count("picked-validator:own:" + tw.valStatus(bz))
			}
			return common.BytesToAddress(bz), "own:" + tw.valStatus(bz)
		}
	}
	return tw.pickVal(r)
}

// pickPart is an amount for taking stake out of a delegation: mostly within it.
func (tw *twin) pickPart(r *Rng, caller sdk.AccAddress, val common.Address) (*big.Int, string) {
	q := tw.B.QueryCtx()
	if d, err := tw.B.App.StakingKeeper.GetDelegation(q, caller, val.Bytes()); err == nil && r.Chance(65) {
		if v, err := tw.B.App.StakingKeeper.GetValidator(q, val.Bytes()); err == nil {
			t := v.TokensFromShares(d.Shares).TruncateInt().BigInt()
			if t.Sign() > 0 {
				switch r.Intn(4) {
				case 0:
					return t, "delegation"
				case 1:
					return big.NewInt(1), "one"
				case 2:
					return new(big.Int).Add(new(big.Int).Div(t, big.NewInt(3)), big.NewInt(1)), "delegation/3+1"
				default:
					return new(big.Int).Add(new(big.Int).Mod(r.BigBits(70), t), big.NewInt(1)), "within"
				}
			}
		}
	}
	return tw.pickAmount(r, caller, val)
}

func (tw *twin) pickAmount(r *Rng, caller sdk.AccAddress, val common.Address) (*big.Int, string) {
	q := tw.B.QueryCtx()
	bal := tw.B.App.BankKeeper.GetBalance(q, caller, tw.bond).Amount.BigInt()
	delTokens := big.NewInt(0)
	if d, err := tw.B.App.StakingKeeper.GetDelegation(q, caller, val.Bytes()); err == nil {
		if v, err := tw.B.App.StakingKeeper.GetValidator(q, val.Bytes()); err == nil {
			delTokens = v.TokensFromShares(d.Shares).TruncateInt().BigInt()
		}
	}
	switch r.Intn(14) {
	case 0:
		return big.NewInt(0), "zero"
	case 1:
		return big.NewInt(1), "one"
	case 2:
		return bal, "balance"
	case 3:
		return Badd(bal, 1), "balance+1"
	case 4:
		return delTokens, "delegation"
	case 5:
		return Badd(delTokens, 1), "delegation+1"
	case 6:
		return Pow2(255), "2^255"
	case 7:
		return new(big.Int).Exp(big.NewInt(10), big.NewInt(15), nil), "1e15"
	case 8:
		if delTokens.Sign() > 0 {
			return new(big.Int).Div(delTokens, big.NewInt(3)), "delegation/3"
		}
		return e18(2), "2e18"
	case 9, 10:
		return tw.pickWide(r, bal)
	default:
		return new(big.Int).Add(new(big.Int).Mod(r.BigBits(70), e18(9)), big.NewInt(1)), "random"
	}
}

// pickWide: amounts from the whole uint256 range, around the word boundaries of narrower integer types (2^63 wei = 9.2
// coins, 2^64 wei = 18.4 coins: well within the callers' balances) and near the balance (itself far above 2^64)
func (tw *twin) pickWide(r *Rng, bal *big.Int) (*big.Int, string) {
	small := func() *big.Int { return new(big.Int).Add(new(big.Int).Mod(r.BigBits(62), e18(3)), big.NewInt(1)) }
	switch r.Intn(12) {
	case 0:
		return Badd(Pow2(63), -1), "2^63-1"
	case 1:
		return Pow2(63), "2^63"
	case 2:
		return new(big.Int).Add(Pow2(63), small()), "2^63+small"
	case 3:
		return Badd(Pow2(64), -1), "2^64-1"
	case 4:
		return Pow2(64), "2^64"
	case 5:
		return new(big.Int).Add(Pow2(64), small()), "2^64+small"
	case 6: // k * 2^64 + anything below 2^64
		return new(big.Int).Add(new(big.Int).Mul(big.NewInt(int64(1+r.Intn(3))), Pow2(64)), r.BigBits(64)), "k*2^64+low"
	case 7:
		return r.BigBits(66), "66-bit"
	case 8:
		return new(big.Int).Add(Pow2(128), small()), "2^128+small"
	case 9:
		if bal.Cmp(Pow2(64)) > 0 {
			return new(big.Int).Sub(bal, small()), "balance-small"
		}
		return Pow2(128), "2^128"
	case 10:
		if bal.Cmp(Pow2(64)) > 0 { // the balance's bits above 2^64 only
			return new(big.Int).Lsh(new(big.Int).Rsh(bal, 64), 64), "balance-high-bits"
		}
		return Pow2(128), "2^128"
	default:
		return new(big.Int).Add(new(big.Int).Lsh(r.BigBits(190), 64), small()), "high-bits+small"
	}
}

func (tw *twin) coqValOpt(c *Chain, s string) string {
	bz := tw.valBytes(c, s)
	if bz == nil {
		return "None"
	}
	return "(Some " + zOf(bz) + ")"
}

// independent EIP-712 recovery (hx/c11_eip712.go: own typed data, go-ethereum's TypedDataAndHash + SigToPub), always for
// THIS chain's id
func (tw *twin) recoveredCoq(td apitypes.TypedData, r, s [32]byte, v uint8) string {
	a := C11RecoverTypedData(td, r, s, v)
	if a == nil {
		return "None"
	}
	return "(Some " + zOf(a.Bytes()) + ")"
}

func (tw *twin) stakingTD(m cpcabi.StakingMessage, chain *big.Int) apitypes.TypedData {
	return C11StakingTypedData(tw.cpc, chain, m.Action, m.Delegator, m.Validator, m.Amount, m.Denom, m.OldValidator)
}

func (tw *twin) genOp(r *Rng, caller *itutiltypes.TestAccount) cpcOp {
	return tw.genOpKind(r, caller, r.Intn(100))
}

// genOpKind: kind in [0,100) selects the method (0.. delegate, 18.. undelegate, 32.. redelegate, 44.. withdrawReward,
// 54.. withdrawRewards, 62.. transfer, 72.. delegateByActionMessage, 88.. withdrawRewardsByMessage)
func (tw *twin) genOpKind(r *Rng, caller *itutiltypes.TestAccount, kind int) cpcOp {
	me := caller.GetEthAddress()
	meAcc := caller.GetCosmosAddress()
	B := tw.B
	switch {
	case kind < 18:
		v, vc := tw.pickVal(r)
		a, ac := tw.pickAmount(r, meAcc, v)
		return cpcOp{method: "delegate", class: vc + "/" + ac, payload: tw.pack("delegate", v, a),
			coqCall: fmt.Sprintf("CDelegate %s %s", zOf(v.Bytes()), CqZ(a)),
			translate: func(dry sdk.Context, c sdk.AccAddress) ([]scriptEntry, bool) {
				if a.Sign() <= 0 {
					return nil, false
				}
				return tw.runScript(dry, c, []sdk.Msg{&stakingtypes.MsgDelegate{DelegatorAddress: c.String(), ValidatorAddress: tw.valStr(B, v), Amount: coin(tw.bond, a)}})
			}}
	case kind < 32:
		v, vc := tw.pickOwnVal(r, meAcc)
		a, ac := tw.pickPart(r, meAcc, v)
		if cv := tw.operatorOf(meAcc); cv != nil && r.Chance(70) {
			// the operator of a validator takes its self-delegation below min_self_delegation: jailed, not slashed
			if x := tw.belowMinSelf(r, cv); x != nil {
				v, vc, a, ac = common.BytesToAddress(cv.addr), "own-validator:"+tw.valStatus(cv.addr), x, "below-min-self-delegation"
			}
		}
		return cpcOp{method: "undelegate", class: vc + "/" + ac, payload: tw.pack("undelegate", v, a),
			coqCall: fmt.Sprintf("CUndelegate %s %s", zOf(v.Bytes()), CqZ(a)),
			translate: func(dry sdk.Context, c sdk.AccAddress) ([]scriptEntry, bool) {
				if a.Sign() <= 0 {
					return nil, false
				}
				return tw.runScript(dry, c, []sdk.Msg{&stakingtypes.MsgUndelegate{DelegatorAddress: c.String(), ValidatorAddress: tw.valStr(B, v), Amount: coin(tw.bond, a)}})
			}}
	case kind < 44:
		src, sc := tw.pickOwnVal(r, meAcc)
		dst, dc := tw.pickVal(r)
		a, ac := tw.pickPart(r, meAcc, src)
		return cpcOp{method: "redelegate", class: sc + ">" + dc + "/" + ac, payload: tw.pack("redelegate", src, dst, a),
			coqCall: fmt.Sprintf("CRedelegate %s %s %s", zOf(src.Bytes()), zOf(dst.Bytes()), CqZ(a)),
			translate: func(dry sdk.Context, c sdk.AccAddress) ([]scriptEntry, bool) {
				if a.Sign() <= 0 {
					return nil, false
				}
				return tw.runScript(dry, c, []sdk.Msg{&stakingtypes.MsgBeginRedelegate{DelegatorAddress: c.String(), ValidatorSrcAddress: tw.valStr(B, src), ValidatorDstAddress: tw.valStr(B, dst), Amount: coin(tw.bond, a)}})
			}}
	case kind < 54:
		v, vc := tw.pickOwnVal(r, meAcc)
		return cpcOp{method: "withdrawReward", class: vc, payload: tw.pack("withdrawReward", v),
			coqCall: fmt.Sprintf("CWithdrawReward %s", zOf(v.Bytes())),
			translate: func(dry sdk.Context, c sdk.AccAddress) ([]scriptEntry, bool) {
				return tw.runScript(dry, c, []sdk.Msg{disttypes.NewMsgWithdrawDelegatorReward(c.String(), tw.valStr(B, v))})
			}}
	case kind < 62:
		return cpcOp{method: "withdrawRewards", class: "-", payload: tw.pack("withdrawRewards"), coqCall: "CWithdrawRewards",
			translate: func(dry sdk.Context, c sdk.AccAddress) ([]scriptEntry, bool) {
				msgs := tw.withdrawAllMsgs(dry, c)
				if len(msgs) == 0 {
					return nil, false // nothing to withdraw: no event, the call fails
				}
				return tw.runScript(dry, c, msgs)
			}}
	case kind < 72:
		to, tc := me, "self"
		switch x := r.Intn(10); {
		case x == 0:
			to, tc = common.Address{}, "zero"
		case x < 3:
			to, tc = tw.tracked[r.Intn(len(tw.tracked))].GetEthAddress(), "other"
			if to == me {
				tc = "self"
			}
		}
		a, ac := tw.pickAmount(r, meAcc, common.BytesToAddress(tw.bondedVals()[0].addr))
		if r.Chance(35) {
			// around what the caller can afford only AFTER its rewards have been withdrawn: balance + W, W = the rewards
			// transfer() withdraws first (validators whose bond-denom reward reaches the minimum)
			q := B.QueryCtx()
			bal := B.App.BankKeeper.GetBalance(q, meAcc, tw.bond).Amount.BigInt()
			w := big.NewInt(0)
			if rw, err := rewardsOf(B, q, meAcc); err == nil {
				min := new(big.Int).Exp(big.NewInt(10), big.NewInt(15), nil)
				for _, x := range rw.Rewards {
					if t := x.Reward.AmountOf(tw.bond).TruncateInt().BigInt(); t.Cmp(min) >= 0 {
						w.Add(w, t)
					}
				}
			}
			switch r.Intn(4) {
			case 0:
				a, ac = Badd(bal, 1), "balance+1"
			case 1:
				a, ac = new(big.Int).Add(bal, w), "balance+rewards"
			case 2:
				a, ac = Badd(new(big.Int).Add(bal, w), 1), "balance+rewards+1"
			default:
				a, ac = new(big.Int).Add(bal, new(big.Int).Rsh(w, 1)), "balance+rewards/2"
			}
		}
		return cpcOp{method: "transfer", class: tc + "/" + ac, payload: tw.pack("transfer", to, a),
			coqCall: fmt.Sprintf("CTransfer %s %s", zOf(to.Bytes()), CqZ(a)),
			translate: func(dry sdk.Context, c sdk.AccAddress) ([]scriptEntry, bool) {
				if !bytes.Equal(to.Bytes(), c.Bytes()) || a.Sign() <= 0 {
					return nil, false
				}
				script, ok := tw.runScript(dry, c, tw.withdrawAllMsgs(dry, c))
				if !ok {
					return script, false
				}
				if B.App.BankKeeper.GetBalance(dry, c, tw.bond).Amount.BigInt().Cmp(a) < 0 {
					return script, false
				}
				delegated, bonded := tw.transferCandidates(B, dry, c)
				ch := chooseValidator(delegated, bonded)
				if ch == nil {
					return script, false
				}
				en := tw.execNative(B, dry, &stakingtypes.MsgDelegate{DelegatorAddress: c.String(), ValidatorAddress: ch.op, Amount: coin(tw.bond, a)}, c)
				script = append(script, en)
				return script, en.ok
			}}
	case kind < 88:
		return tw.genSignedStaking(r, caller)
	default:
		return tw.genSignedWithdraw(r, caller)
	}
}

// thirdParty is the delegator of a message that is not the caller's own: often (60%) the ORIGIN of the transaction when the
// caller is a contract - the one account besides the caller that a precompile could mistake for "the one who acts" -,
// otherwise any other keyed account
func (tw *twin) thirdParty(r *Rng, not common.Address) *itutiltypes.TestAccount {
	if tw.curSender != nil && tw.curSender.GetEthAddress() != not && r.Chance(60) {
		if tw.side != nil {
			tw.side.Count("signed:delegator-is-tx-origin-not-caller")
		}
		return tw.curSender
	}
	return tw.otherKeyed(r, not)
}

func (tw *twin) otherKeyed(r *Rng, not common.Address) *itutiltypes.TestAccount {
	for {
		a := tw.tracked[r.Intn(len(tw.tracked))]
		if a.GetEthAddress() != not {
			return a
		}
	}
}

func (tw *twin) genSignedStaking(r *Rng, caller *itutiltypes.TestAccount) cpcOp {
	me := caller.GetEthAddress()
	B := tw.B
	meAcc := caller.GetCosmosAddress()
	v, vc := tw.pickVal(r)
	a, ac := tw.pickAmount(r, meAcc, v)
	msg := cpcabi.StakingMessage{Delegator: me, Validator: tw.valStr(B, v), Amount: a, Denom: tw.bond, OldValidator: "-"}
	var old common.Address
	switch r.Intn(3) {
	case 0:
		msg.Action = cpcabi.StakingMessageActionDelegate
	case 1:
		msg.Action = cpcabi.StakingMessageActionUndelegate
		v, vc = tw.pickOwnVal(r, meAcc)
		a, ac = tw.pickPart(r, meAcc, v)
		msg.Validator, msg.Amount = tw.valStr(B, v), a
	default:
		msg.Action = cpcabi.StakingMessageActionRedelegate
		old, _ = tw.pickOwnVal(r, meAcc)
		a, ac = tw.pickPart(r, meAcc, old)
		msg.OldValidator, msg.Amount = tw.valStr(B, old), a
	}
	if msg.Action == cpcabi.StakingMessageActionDelegate && r.Chance(40) {
		// the signed message's uint256 in all its width (what is hashed must be what is executed)
		bal := B.App.BankKeeper.GetBalance(B.QueryCtx(), meAcc, tw.bond).Amount.BigInt()
		a, ac = tw.pickWide(r, bal)
		msg.Amount = a
		if b := tw.bondedVals(); len(b) > 0 && r.Chance(70) {
			v, vc = common.BytesToAddress(b[r.Intn(len(b))].addr), "bonded"
			msg.Validator = tw.valStr(B, v)
		}
	}
	signer, chain, class := caller, tw.chainID, "valid"
	altered := false
	switch x := r.Intn(100); {
	case x < 34:
	case x < 52:
		altered, class = true, "altered-after-signing"
	case x < 59:
		signer, class = tw.otherKeyed(r, me), "wrong-signer"
	case x < 66:
		chain, class = Badd(tw.chainID, 1), "wrong-chain-id"
	case x < 77: // a third party's message, correctly signed by that third party
		signer, class = tw.thirdParty(r, me), "delegator-not-caller"
		msg.Delegator = signer.GetEthAddress()
	case x < 84:
		class = "garbage-signature"
	case x < 90:
		msg.Denom, class = "utwo", "wrong-denom"
	case x < 94:
		msg.Action, class = "Steal", "unknown-action"
	case x < 97:
		msg.OldValidator, class = "x", "bad-old-validator"
	default:
		msg.Validator, class = "evmvaloper1xyz", "bad-validator"
	}
	if class != "valid" && class != "bad-validator" && !altered && r.Chance(60) {
		// a forged or malformed message that would otherwise be perfectly executable: if it is accepted, it shows
		b := tw.bondedVals()
		v, vc = common.BytesToAddress(b[r.Intn(len(b))].addr), "bonded"
		a, ac = new(big.Int).Add(new(big.Int).Mod(r.BigBits(70), e18(9)), big.NewInt(1)), "random"
		msg.Validator, msg.Amount = tw.valStr(B, v), a
		if msg.Action != "Steal" {
			msg.Action = cpcabi.StakingMessageActionDelegate
		}
		if class != "bad-old-validator" {
			msg.OldValidator = "-"
		}
	}
	signedMsg := msg
	if altered {
		// the delegator really signs one message, another one - equal to it but for one member - is submitted with that
		// signature; mostly the amount: plus k * 2^64, plus 2^128 / 2^192, one high bit flipped, low bits changed - every
		// bit of the uint256 must be under the signature.  The submitted message is executable (a Delegate the balance covers).
		bal := B.App.BankKeeper.GetBalance(B.QueryCtx(), meAcc, tw.bond).Amount.BigInt()
		b := tw.bondedVals()
		v, vc = common.BytesToAddress(b[r.Intn(len(b))].addr), "bonded"
		msg.Action, msg.Validator, msg.OldValidator = cpcabi.StakingMessageActionDelegate, tw.valStr(B, v), "-"
		signedMsg = msg
		base := new(big.Int).Add(new(big.Int).Mod(r.BigBits(70), e18(9)), big.NewInt(1)) // below 2^63
		if r.Chance(30) {
			base = new(big.Int).Add(new(big.Int).Mod(r.BigBits(70), e18(40)), big.NewInt(1)) // any low 64 bits, some above 2^64
		}
		signedMsg.Amount = base
		sub := new(big.Int).Set(base)
		switch x := r.Intn(10); {
		case x < 5:
			k := int64(1 + r.Intn(4))
			sub.Add(sub, new(big.Int).Mul(big.NewInt(k), Pow2(64)))
			ac = "signed-amount+k*2^64"
		case x < 6:
			sub.Add(sub, Pow2(uint([]int{128, 192, 255}[r.Intn(3)])))
			ac = "signed-amount+2^128.."
		case x < 7:
			bit := uint(64 + r.Intn(6))
			sub.Xor(sub, Pow2(bit))
			ac = "signed-amount-high-bit-flipped"
		case x < 8:
			sub.Xor(sub, Pow2(uint(r.Intn(63))))
			ac = "signed-amount-low-bit-flipped"
		case x < 9:
			sub.Add(sub, big.NewInt(1))
			ac = "signed-amount+1"
		default: // another validator than the one signed for
			if len(b) > 1 {
				for msg.Validator == signedMsg.Validator {
					msg.Validator = b[r.Intn(len(b))].op
				}
			}
			ac = "signed-for-another-validator"
		}
		if sub.Sign() <= 0 || sub.Cmp(bal) > 0 && ac == "signed-amount+k*2^64" {
			sub = new(big.Int).Add(base, Pow2(64))
		}
		msg.Amount = sub
		a = sub
	}
	rr, ss, vv, err := C11SignTypedData(signer, tw.stakingTD(signedMsg, chain))
	require.NoError(tw.t, err)
	if class == "garbage-signature" {
		copy(rr[:], r.BigBits(250).FillBytes(make([]byte, 32)))
		vv = 27 + uint8(r.Intn(2))
	}
	if r.Chance(50) && vv < 27 {
		vv += 27
	}
	act := map[string]string{"Delegate": "ADelegate", "Undelegate": "AUndelegate", "Redelegate": "ARedelegate"}[msg.Action]
	if act == "" {
		act = "AUnknown"
	}
	oldC := "OldOther"
	if msg.OldValidator == "-" {
		oldC = "OldDash"
	} else if bz := tw.valBytes(B, msg.OldValidator); bz != nil {
		oldC = "(OldVal " + zOf(bz) + ")"
	}
	coqMsg := fmt.Sprintf("(StakingMessage %s %s %s %s %s %s)", act, zOf(msg.Delegator.Bytes()), tw.coqValOpt(B, msg.Validator), CqZ(msg.Amount), CqBool(msg.Denom == tw.bond), oldC)
	m := msg
	op := cpcOp{method: "delegateByActionMessage", class: class + "/" + msg.Action + "/" + vc + "/" + ac,
		payload: tw.pack("delegateByActionMessage", msg, rr, ss, vv),
		coqCall: fmt.Sprintf("CDelegateByMessage %s 0", coqMsg), rec: tw.recoveredCoq(tw.stakingTD(msg, tw.chainID), rr, ss, vv), signedDelegator: &msg.Delegator}
	native := func(del sdk.AccAddress) []sdk.Msg {
		switch m.Action {
		case cpcabi.StakingMessageActionDelegate:
			return []sdk.Msg{&stakingtypes.MsgDelegate{DelegatorAddress: del.String(), ValidatorAddress: m.Validator, Amount: coin(tw.bond, m.Amount)}}
		case cpcabi.StakingMessageActionUndelegate:
			return []sdk.Msg{&stakingtypes.MsgUndelegate{DelegatorAddress: del.String(), ValidatorAddress: m.Validator, Amount: coin(tw.bond, m.Amount)}}
		}
		return []sdk.Msg{&stakingtypes.MsgBeginRedelegate{DelegatorAddress: del.String(), ValidatorSrcAddress: m.OldValidator, ValidatorDstAddress: m.Validator, Amount: coin(tw.bond, m.Amount)}}
	}
	// guards, from the property text: well-formed, delegator = caller = signer recovered for this chain id
	wellFormed := act != "AUnknown" && tw.valBytes(B, m.Validator) != nil && m.Amount.Sign() > 0 && m.Denom == tw.bond &&
		(m.Action == cpcabi.StakingMessageActionRedelegate && tw.valBytes(B, m.OldValidator) != nil || m.Action != cpcabi.StakingMessageActionRedelegate && m.OldValidator == "-")
	rec := op.rec
	op.translate = func(dry sdk.Context, c sdk.AccAddress) ([]scriptEntry, bool) {
		if !wellFormed || !bytes.Equal(m.Delegator.Bytes(), c.Bytes()) || rec != "(Some "+zOf(m.Delegator.Bytes())+")" {
			return nil, false
		}
		return tw.runScript(dry, c, native(c))
	}
	if class == "valid" {
		tw.signed = append(tw.signed, signedUse{delegator: me, payload: op.payload, caller: me, call: op.coqCall, rec: op.rec, method: op.method, native: native})
	}
	return op
}

func (tw *twin) genSignedWithdraw(r *Rng, caller *itutiltypes.TestAccount) cpcOp {
	me := caller.GetEthAddress()
	B := tw.B
	msg := cpcabi.WithdrawRewardMessage{Delegator: me, FromValidator: cpcabi.WithdrawRewardMessageActionWithdrawFromAllValidators}
	fromC := "FromAll"
	var v common.Address
	if r.Chance(50) {
		v, _ = tw.pickOwnVal(r, caller.GetCosmosAddress())
		msg.FromValidator = tw.valStr(B, v)
		fromC = "(FromVal " + zOf(v.Bytes()) + ")"
	}
	signer, chain, class := caller, tw.chainID, "valid"
	switch x := r.Intn(100); {
	case x < 50:
	case x < 62:
		signer, class = tw.otherKeyed(r, me), "wrong-signer"
	case x < 74:
		chain, class = Badd(tw.chainID, 1), "wrong-chain-id"
	case x < 88:
		signer, class = tw.thirdParty(r, me), "delegator-not-caller"
		msg.Delegator = signer.GetEthAddress()
		if fromC != "FromAll" { // a validator the third party does have rewards at: if the message is accepted, it shows
			v, _ = tw.pickOwnVal(r, signer.GetCosmosAddress())
			msg.FromValidator = tw.valStr(B, v)
			fromC = "(FromVal " + zOf(v.Bytes()) + ")"
		}
	case x < 95:
		class = "garbage-signature"
	default:
		msg.FromValidator, fromC, class = "everything", "FromOther", "bad-from-validator"
	}
	rr, ss, vv, err := C11SignTypedData(signer, C11WithdrawTypedData(tw.cpc, chain, msg.Delegator, msg.FromValidator))
	require.NoError(tw.t, err)
	if class == "garbage-signature" {
		copy(ss[:], r.BigBits(250).FillBytes(make([]byte, 32)))
	}
	if r.Chance(50) && vv < 27 {
		vv += 27
	}
	m := msg
	op := cpcOp{method: "withdrawRewardsByMessage", class: class + "/" + strings.SplitN(fromC, " ", 2)[0],
		payload: tw.pack("withdrawRewardsByMessage", msg, rr, ss, vv),
		coqCall: fmt.Sprintf("CWithdrawRewardsByMessage (WithdrawMessage %s %s) 0", zOf(msg.Delegator.Bytes()), fromC), rec: tw.recoveredCoq(C11WithdrawTypedData(tw.cpc, tw.chainID, msg.Delegator, msg.FromValidator), rr, ss, vv), signedDelegator: &msg.Delegator}
	rec := op.rec
	op.translate = func(dry sdk.Context, c sdk.AccAddress) ([]scriptEntry, bool) {
		if fromC == "FromOther" || !bytes.Equal(m.Delegator.Bytes(), c.Bytes()) || rec != "(Some "+zOf(m.Delegator.Bytes())+")" {
			return nil, false
		}
		if fromC == "FromAll" {
			msgs := tw.withdrawAllMsgs(dry, c)
			if len(msgs) == 0 {
				return nil, false
			}
			return tw.runScript(dry, c, msgs)
		}
		return tw.runScript(dry, c, []sdk.Msg{disttypes.NewMsgWithdrawDelegatorReward(c.String(), m.FromValidator)})
	}
	return op
}

// ------------------------------------------------------------------ views

func (tw *twin) callView(c *Chain, from common.Address, to common.Address, data []byte) ([]byte, bool) {
	ctx := c.QueryCtx()
	bf := c.BaseFee(ctx)
	msg := ethtypes.NewMessage(from, &to, 0, big.NewInt(0), 3_000_000, bf, bf, big.NewInt(0), data, nil, true)
	resp, err := c.App.EvmKeeper.ApplyMessage(ctx, msg, evmtypes.NewNoOpTracer(), false)
	if err != nil && strings.Contains(err.Error(), "block proposer address") {
		// a native step of this very sequence step removed the duplicate validator that shares the proposer's
		// consensus key (see RepairConsAddrIndex): point the index back on both chains and ask again
		tw.both(func(c *Chain) { c.RepairConsAddrIndex() })
		ctx = c.QueryCtx()
		resp, err = c.App.EvmKeeper.ApplyMessage(ctx, msg, evmtypes.NewNoOpTracer(), false)
	}
	require.NoError(tw.t, err)
	return resp.Ret, !resp.Failed()
}

type opDesc struct {
	Step    int      `json:"step"`
	Kind    string   `json:"kind"`
	Path    string   `json:"path,omitempty"`
	Caller  string   `json:"caller,omitempty"`
	Method  string   `json:"method,omitempty"`
	Class   string   `json:"class,omitempty"`
	Native  []string `json:"translated_native_messages,omitempty"`
	ExpOK   bool     `json:"native_side_succeeds"`
	ObsOK   bool     `json:"precompile_call_succeeded"`
	Logs    []string `json:"logs,omitempty"`
	VmError string   `json:"vm_error,omitempty"`
	Diff    []string `json:"twin_state_differences,omitempty"`
	DiffA   string   `json:"first_difference_on_A,omitempty"`
	DiffB   string   `json:"first_difference_on_B,omitempty"`
}

func TestDriverStaking(t *testing.T) {
	dir := OutDir(t)
	seed := EnvSeed()
	nSeq := EnvInt("VERIF_N", 10)
	steps := EnvInt("VERIF_STEPS", 45)
	rng := NewRng(seed)
	side := NewSidecar("staking", seed,
		"case = one staking-precompile call on chain A (EOA or contract caller, 7 call paths over CALL/DELEGATECALL/CALLCODE) with the native modules' behaviour on twin chain B as the model's oracle, "+
			"or one transaction whose contract makes 2..3 precompile calls in a row (KMulti: every call with its own native oracle, the receipt's logs as a whole), "+
			"or one view call against native queries; sequences interleave native messages, reward accrual blocks and time jumps on both chains; "+
			"non-trivial = a call that reached the native message servers (non-empty translation) or a signed call of a non-valid class, distinct by path+method+class+outcome")
	cases := NewCases(dir, "From Coq Require Import List ZArith Bool.\nFrom Evm Require Import StakingCpc CorrStakingCpc.", "sk_mismatches")
	idx := 0

	for seq := 0; seq < nSeq; seq++ {
		r := rng.Fork(uint64(seq))
		tw := newTwin(t)
		tw.side = side
		for step := 0; step < steps; step++ {
			k := r.Intn(100)
			// a duplicate validator of the suite (same consensus key, see RepairConsAddrIndex) that was delegated to and
			// then emptied is removed together with the shared consensus-address index entry, after which no block
			// proposer can be resolved: point the index back (both chains alike)
			tw.both(func(c *Chain) { c.RepairConsAddrIndex() })
			// validator status variety, the same in every sequence (native, both chains): the operator of "op-max" goes below
			// its min_self_delegation (jailed without slashing; unbonding, later unbonded, alive through its other delegators),
			// the operator of "op-empty" takes everything out (a validator without tokens, out of the bonded set, not jailed),
			// the operator of "op-actor" at the latest in the middle of the sequence, if it has not done so through the precompile
			forced := -1
			switch {
			case step == 2:
				forced = 1
			case step == 5:
				forced = 2
			case step == steps/2:
				forced = 0
			}
			if forced >= 0 {
				cv := &tw.created[forced]
				if tw.operatorOf(cv.op.GetCosmosAddress()) != nil {
					if x := tw.belowMinSelf(r, cv); x != nil {
						if forced == 2 { // all but one unit: no voting power left, yet not below the minimum of 1: unbonding, NOT jailed
							x = Badd(cv.self, -1)
						}
						ok := tw.nativeBoth(cv.op, &stakingtypes.MsgUndelegate{DelegatorAddress: cv.op.GetCosmosAddress().String(), ValidatorAddress: cv.opStr, Amount: coin(tw.bond, x)})
						side.Count(fmt.Sprintf("status:operator-of-%s-undelegates-below-min-self-delegation:ok=%v:now-%s", cv.name, ok, tw.valStatus(cv.addr)))
					}
				}
			}
			for _, cv := range tw.created {
				side.Count("status-at-step:" + cv.name + ":" + tw.valStatus(cv.addr))
			}
			switch {
			case k < 10:
				tw.accrue()
				side.Count("step:accrue")
			case k < 15:
				tw.both(func(c *Chain) { c.Time = c.Time.Add(45 * time.Second); c.RunBlock(nil) })
				side.Count("step:timejump")
			case k < 22: // anybody tops up a validator's rewards pool, in any denominations (native, both chains)
				b := tw.bondedVals()
				val := b[r.Intn(len(b))]
				var coins sdk.Coins
				for _, d := range append([]string{tw.bond}, otherDenoms...) {
					if r.Chance(45) {
						amt := []*big.Int{big.NewInt(1), big.NewInt(1000), big.NewInt(999_999_999), e18(1), e18(40), new(big.Int).Exp(big.NewInt(10), big.NewInt(27), nil), new(big.Int).Exp(big.NewInt(10), big.NewInt(33), nil)}[r.Intn(7)]
						coins = coins.Add(sdk.NewCoin(d, sdkmath.NewIntFromBigInt(amt)))
					}
				}
				if coins.Empty() {
					coins = sdk.NewCoins(sdk.NewCoin(otherDenoms[r.Intn(len(otherDenoms))], sdkmath.NewIntFromBigInt(e18(3))))
				}
				ok := tw.deposit(val.op, coins)
				side.Count(fmt.Sprintf("step:deposit-into-rewards-pool:denominations=%d:ok=%v", len(coins), ok))
			case k < 34: // a native message on both chains
				a := tw.tracked[r.Intn(len(tw.tracked))]
				nk := r.Intn(4)
				v, _ := tw.pickVal(r)
				amt, _ := tw.pickAmount(r, a.GetCosmosAddress(), v)
				if nk != 0 {
					v, _ = tw.pickOwnVal(r, a.GetCosmosAddress())
					amt, _ = tw.pickPart(r, a.GetCosmosAddress(), v)
				}
				if amt.Sign() == 0 {
					amt = big.NewInt(1)
				}
				if cv := tw.operatorOf(a.GetCosmosAddress()); cv != nil && nk == 1 && r.Chance(30) {
					if x := tw.belowMinSelf(r, cv); x != nil {
						v, amt = common.BytesToAddress(cv.addr), x
					}
				}
				var m sdk.Msg
				switch nk {
				case 0:
					m = &stakingtypes.MsgDelegate{DelegatorAddress: a.GetCosmosAddress().String(), ValidatorAddress: tw.valStr(tw.B, v), Amount: coin(tw.bond, amt)}
				case 1:
					m = &stakingtypes.MsgUndelegate{DelegatorAddress: a.GetCosmosAddress().String(), ValidatorAddress: tw.valStr(tw.B, v), Amount: coin(tw.bond, amt)}
				case 2:
					d, _ := tw.pickVal(r)
					m = &stakingtypes.MsgBeginRedelegate{DelegatorAddress: a.GetCosmosAddress().String(), ValidatorSrcAddress: tw.valStr(tw.B, v), ValidatorDstAddress: tw.valStr(tw.B, d), Amount: coin(tw.bond, amt)}
				default:
					m = disttypes.NewMsgWithdrawDelegatorReward(a.GetCosmosAddress().String(), tw.valStr(tw.B, v))
				}
				var codes []uint32
				preB := tw.snapParties(tw.B)
				tw.both(func(c *Chain) {
					res := c.C11SendCosmos(a, txGas, m)
					codes = append(codes, res.Code)
					if c == tw.B && res.Code == 0 {
						var evs []nevent
						for _, ev := range res.Events {
							evs = append(evs, tw.parseEvent(tw.B, ev, false))
						}
						tw.checkNativeHypotheses(side, a.GetCosmosAddress(), evs, fmt.Sprintf("%T", m))
					}
				})
				// hypothesis of C11_third_parties_untouched: a native message changes balance / delegations / entries of
				// nobody but its own delegator
				qb := tw.B.QueryCtx()
				for _, x := range tw.tracked {
					if _, ch := tw.changed(tw.B, qb, x, preB); x != a && ch {
						side.Hit("C11/staking/native-hypothesis-violated/message-changed-third-party", fmt.Sprintf("native %T by %s changed the account state of %s", m, a.GetEthAddress().Hex(), x.GetEthAddress().Hex()), nil)
					}
				}
				side.Count(fmt.Sprintf("step:native:%T:ok=%v", m, codes[0] == 0))
				if codes[0] != codes[1] {
					side.Hit("C11/staking/twin-harness-native-message-diverged", "the same native message had different outcomes on the twin chains", nil)
				}
			case k < 76:
				tw.cpcStep(r, side, cases, &idx, seq, step)
			default: // several precompile calls in one transaction
				tw.multiStep(r, side, cases, &idx, seq, step)
				side.Count("step:multi-call-transaction")
			}

			tw.debugStores(fmt.Sprintf("seq %d step %d kind %d", seq, step, k))
			// twins must agree after every step
			pa, ma := tw.projection(tw.A)
			pb, mb := tw.projection(tw.B)
			if pa != pb && k < 34 {
				var diff []string
				for key, v := range ma {
					if mb[key] != v {
						diff = append(diff, key)
					}
				}
				sort.Strings(diff)
				if len(diff) > 0 {
					diff = append(diff, "A: "+ma[diff[0]], "B: "+mb[diff[0]])
				}
				tw.diverged = true
				side.Hit("C11/staking/twin-harness-diverged-outside-precompile-step", fmt.Sprintf("twins differ after step %d (kind %d) that ran identically on both: %v", step, k, diff), nil)
			}
			if tw.diverged {
				side.Count("sequence:abandoned-after-divergence")
				break
			}
			if step%3 == 2 {
				tw.viewStep(r, side, cases, &idx)
			}
		}
	}
	cases.Write(t, 300)
	side.Write(t, dir)
}

func (tw *twin) cpcStep(r *Rng, side *Sidecar, cases *CasesFile, idx *int, seq, step int) {
	t := tw.t
	p := paths[r.Intn(len(paths))]
	sender := tw.actors[r.Intn(len(tw.actors))]
	caller := sender
	to := tw.cpc
	if p.to != "" {
		to = tw.proxy[p.to].GetEthAddress()
		caller = tw.proxy[p.caller]
	}
	var op cpcOp
	replay := false
	tw.curSender = sender
	if len(tw.signed) > 0 && r.Chance(8) { // replay an earlier valid signed message, by whoever the caller is now
		u := tw.signed[r.Intn(len(tw.signed))]
		// preferably one that the sender of this transaction once submitted itself (public call data)
		for tries := 0; tries < 4 && u.caller != sender.GetEthAddress(); tries++ {
			u = tw.signed[r.Intn(len(tw.signed))]
		}
		replay = true
		op = cpcOp{method: u.method, class: "replay", payload: u.payload, coqCall: u.call, rec: u.rec, signedDelegator: &u.delegator}
		owner := u.caller
		native := u.native
		op.translate = func(dry sdk.Context, c sdk.AccAddress) ([]scriptEntry, bool) {
			if !bytes.Equal(owner.Bytes(), c.Bytes()) {
				return nil, false
			}
			return tw.runScript(dry, c, native(c))
		}
		if owner == caller.GetEthAddress() {
			op.class = "replay-by-delegator"
		} else {
			op.class = "replay-by-other"
		}
	} else if tw.operatorOf(caller.GetCosmosAddress()) != nil && r.Chance(35) {
		// the caller operates a validator that is not jailed yet: mostly an undelegation that takes its self-delegation below
		// min_self_delegation - the precompile call jails the validator on A, the native message on B
		op = tw.genOpKind(r, caller, 20)
	} else {
		op = tw.genOp(r, caller)
	}
	_ = replay
	callerAcc := caller.GetCosmosAddress()
	require.Equal(t, tw.A.C11Price().String(), tw.B.C11Price().String(), "gas prices of the twin chains diverged")

	// native side: dry run on a cache of B's committed state = the model's oracle
	qB := tw.B.QueryCtx()
	rw, rwErr := rewardsOf(tw.B, qB, callerAcc)
	var rwList []string
	totalZero := true
	if rwErr == nil {
		for _, x := range rw.Rewards {
			bz := tw.valBytes(tw.B, x.ValidatorAddress)
			rwList = append(rwList, fmt.Sprintf("(%s, %s)", zOf(bz), tw.decCoins(x.Reward).coq()))
		}
		totalZero = rw.Total.IsZero()
	}
	bal0 := tw.B.App.BankKeeper.GetBalance(qB, callerAcc, tw.bond).Amount.BigInt()
	delegated, bonded := tw.transferCandidates(tw.B, qB, callerAcc)
	dry, _ := qB.CacheContext()
	script, expOK := op.translate(dry, callerAcc)

	// chain A: the precompile call; third parties' state before
	preA := tw.snapParties(tw.A) // third parties: as they will be after this block's end blocker if nobody touches them
	res := tw.A.C11SendEth(sender, to, op.payload, txGas)
	if res.Code != 0 {
		// the whole transaction died (no receipt): legitimate only where the native message server panics as well
		nativePanics := false
		for _, en := range script {
			nativePanics = nativePanics || en.panicked
		}
		side.Count("precompile-call:transaction-panicked")
		if !nativePanics {
			side.Hit("C11/staking/transaction-died-where-native-submission-does-not/"+op.method, fmt.Sprintf("the Ethereum transaction was rejected with code %d although no native message of the submission panics", res.Code), nil)
		}
	}
	obsOK := res.Code == 0 && res.Status == 1
	obsRet := false
	if obsOK && len(res.Ret) == 32 {
		obsRet = res.Ret[31] == 1
	}
	logs, foreign := tw.decodeLogs(res.Logs)

	// chain B: the translated messages as ONE ordinary Cosmos transaction signed by the caller
	var bEvents []nevent
	var nativeStr []string
	for _, en := range script {
		nativeStr = append(nativeStr, en.coqM)
	}
	if expOK && len(script) > 0 {
		var msgs []sdk.Msg
		for _, en := range script {
			msgs = append(msgs, en.msg)
		}
		resB := tw.B.C11SendCosmos(caller, txGas, msgs...)
		require.Equal(t, uint32(0), resB.Code, "native transaction failed although its dry run succeeded: %s", resB.Log)
		for _, ev := range resB.Events {
			if ne := tw.parseEvent(tw.B, ev, false); ne.typ != "other" {
				bEvents = append(bEvents, ne)
			}
		}
	} else {
		tw.B.C11IdleBlock(callerAcc, txGas)
	}

	d := opDesc{Step: seq*1000 + step, Kind: "precompile", Path: p.name, Caller: caller.GetEthAddress().Hex(), Method: op.method, Class: op.class,
		Native: nativeStr, ExpOK: expOK, ObsOK: obsOK, VmError: res.VmError}
	for _, l := range logs {
		d.Logs = append(d.Logs, l.String())
	}

	// ---- direct oracle, from the property text
	// (a) effect identical to the native messages: twin state
	pa, ma := tw.projection(tw.A)
	pb, mb := tw.projection(tw.B)
	if pa != pb {
		for key, v := range ma {
			if mb[key] != v {
				d.Diff = append(d.Diff, key)
			}
		}
		sort.Strings(d.Diff)
		only := func(prefixes ...string) bool {
			for _, k := range d.Diff {
				ok := false
				for _, p := range prefixes {
					ok = ok || strings.HasPrefix(k, p)
				}
				if !ok {
					return false
				}
			}
			return true
		}
		what := "state" // balances, delegations, entries, validators
		if only("store:") {
			what = "module-store" // nothing the queries show: internal records of the modules (reward periods, reference counts, ...)
		} else if only("store:", "rewards:") {
			what = "rewards"
		}
		tw.diverged = true
		side.Hit(fmt.Sprintf("C11/staking/%s-differs-from-native/%s", what, op.method),
			fmt.Sprintf("after %s via %s (precompile ok=%v, native ok=%v) the twin chains differ in %v", op.method, p.name, obsOK, expOK, d.Diff), d)
	}
	// (b) only the immediate caller's own stake
	qA := tw.A.QueryCtx()
	for _, a := range tw.tracked {
		if a == caller {
			continue
		}
		if now, ch := tw.changed(tw.A, qA, a, preA); ch {
			side.Hit("C11/staking/third-party-state-changed/"+op.method, fmt.Sprintf("balance / delegations / entries of %s changed although the caller was %s: before %s, after %s", a.GetEthAddress().Hex(), caller.GetEthAddress().Hex(), preA.plain[a.GetEthAddress().Hex()], now), d)
		}
	}
	for _, l := range logs {
		if !bytes.Equal(l.del, caller.GetEthAddress().Bytes()) {
			side.Hit("C11/staking/log-for-other-delegator/"+op.method, "a log names a delegator that is not the immediate caller", d)
		}
	}
	// (b') signed variants: accepted only if the message's delegator is the caller AND the signer recovered
	// (independently, go-ethereum apitypes + SigToPub) from the signature for THIS chain's id
	if op.signedDelegator != nil && obsOK {
		if *op.signedDelegator != caller.GetEthAddress() {
			side.Hit("C11/staking/signed-message-of-another-delegator-accepted/"+op.method, fmt.Sprintf("the message names delegator %s, the caller is %s, and the call succeeded", op.signedDelegator.Hex(), caller.GetEthAddress().Hex()), d)
		}
		if op.rec != "(Some "+zOf(op.signedDelegator.Bytes())+")" {
			side.Hit("C11/staking/signed-message-accepted-without-delegators-signature-for-this-chain/"+op.method, fmt.Sprintf("signature class %s: the signer recovered for chain id %s is not the delegator, and the call succeeded", op.class, tw.chainID), d)
		}
	}
	// (c) logs match exactly the module events produced (chain B's real transaction events)
	exp := expectedLogs(bEvents, caller.GetEthAddress().Bytes())
	same := len(exp) == len(logs) && foreign == 0
	for i := 0; same && i < len(exp); i++ {
		same = exp[i].String() == logs[i].String()
	}
	if !same {
		side.Hit("C11/staking/log-event-mismatch/"+op.method, fmt.Sprintf("receipt logs %v, module events give %v", logs, exp), d)
	}

	// ---- model case
	var sc []string
	for _, en := range script {
		if en.ok {
			var evs []string
			for _, e := range en.evs {
				evs = append(evs, e.coq())
			}
			sc = append(sc, fmt.Sprintf("(%s, Some (%s, %s))", en.coqM, CqList(evs), CqZ(en.bal)))
		} else {
			sc = append(sc, fmt.Sprintf("(%s, None)", en.coqM))
		}
	}
	rec := op.rec
	if rec == "" {
		rec = "None"
	}
	var ls []string
	for _, l := range logs {
		ls = append(ls, l.coq())
	}
	cases.Add(fmt.Sprintf("KOp (OpCase %s %s (%s) %s %s %s %s %s %s %s %s %s %s)", zOf(sender.GetEthAddress().Bytes()), p.hops(tw), op.coqCall, rec,
		CqList(rwList), CqBool(totalZero), tw.coqVinfos(delegated), tw.coqVinfos(bonded), CqZ(bal0), CqList(sc), CqBool(obsOK), CqBool(obsRet), CqList(ls)))
	side.Count("path:" + p.name)
	side.Count(fmt.Sprintf("method:%s:ok=%v", op.method, obsOK))
	if strings.HasSuffix(op.method, "Message") {
		side.Count(fmt.Sprintf("signed:%s:ok=%v", strings.SplitN(op.class, "/", 2)[0], obsOK))
	}
	side.Count(fmt.Sprintf("native_msgs:%d", len(script)))
	nontrivial := len(script) > 0 || strings.HasSuffix(op.method, "Message") && !strings.HasPrefix(op.class, "valid")
	side.Case(*idx, fmt.Sprintf("%s/%s/%s/%v", p.name, op.method, op.class, obsOK), nontrivial, d)
	*idx++
}

// ------------------------------------------------------------------ views against native queries

// qres is a native query's answer: a number or coins, "no delegation" (gRPC NotFound of the staking querier /
// ErrNoDelegation), or another error
type qres struct {
	class string // QOk, QNoDelegation, QErr
	z     *big.Int
	coins czs // distribution queriers: the truncated answer in every denomination (z = its bond-denom amount)
}

func (x qres) coq() string {
	if x.class == "QOk" {
		return "(QOk " + CqZ(x.z) + ")"
	}
	return x.class
}

func (x qres) coqCoins() string {
	switch x.class {
	case "QOk":
		return "(QcOk " + x.coins.coq() + ")"
	case "QNoDelegation":
		return "QcNoDelegation"
	}
	return "QcErr"
}

// nativeViews is what the native queriers of chain c say on ctx about account acc and validator v
type nativeViews struct {
	delTokens, bondedTotal, reward, rewardsTotal qres
	bal                                          *big.Int
	vals                                         []string // validators of acc's delegations
}

func (tw *twin) nativeViewsOf(c *Chain, q sdk.Context, acc sdk.AccAddress, v common.Address) nativeViews {
	nv := nativeViews{delTokens: qres{class: "QErr"}, bondedTotal: qres{class: "QErr"}, reward: qres{class: "QErr"}, rewardsTotal: qres{class: "QErr"}}
	sq := stakingkeeper.NewQuerier(c.App.StakingKeeper)
	if dr, err := sq.Delegation(q, &stakingtypes.QueryDelegationRequest{DelegatorAddr: acc.String(), ValidatorAddr: tw.valStr(c, v)}); err == nil {
		nv.delTokens = qres{class: "QOk", z: dr.DelegationResponse.Balance.Amount.BigInt()}
	} else if status.Code(err) == codes.NotFound {
		nv.delTokens.class = "QNoDelegation"
	}
	if dd, err := sq.DelegatorDelegations(q, &stakingtypes.QueryDelegatorDelegationsRequest{DelegatorAddr: acc.String(), Pagination: &query.PageRequest{Limit: 1000}}); err == nil {
		nv.bondedTotal = qres{class: "QOk", z: big.NewInt(0)}
		for _, x := range dd.DelegationResponses {
			nv.bondedTotal.z.Add(nv.bondedTotal.z, x.Balance.Amount.BigInt())
			nv.vals = append(nv.vals, common.BytesToAddress(tw.valBytes(c, x.Delegation.ValidatorAddress)).Hex())
		}
	}
	{
		cc, _ := q.CacheContext() // the querier writes (ends the reward period)
		if rr, err := distkeeper.NewQuerier(c.App.DistrKeeper).DelegationRewards(cc, &disttypes.QueryDelegationRewardsRequest{DelegatorAddress: acc.String(), ValidatorAddress: tw.valStr(c, v)}); err == nil {
			l := tw.decCoins(rr.Rewards)
			nv.reward = qres{class: "QOk", z: l.bondAmount(), coins: l}
		} else if errors.Is(err, stakingtypes.ErrNoDelegation) {
			nv.reward.class = "QNoDelegation"
		}
	}
	if rr, err := rewardsOf(c, q, acc); err == nil {
		l := tw.decCoins(rr.Total)
		nv.rewardsTotal = qres{class: "QOk", z: l.bondAmount(), coins: l}
		if len(l) > 1 && tw.side != nil {
			tw.side.Count("view:pending-rewards-in-several-denominations")
		}
	}
	nv.bal = c.App.BankKeeper.GetBalance(q, acc, tw.bond).Amount.BigInt()
	return nv
}

// the property text: the view reports the native query's number (of the staking coin); where the native side has no
// number ("no delegation") delegationOf / rewardOf report 0; where the native query fails there is nothing to report (nil)
func zeroIfNone(x qres) *big.Int {
	switch x.class {
	case "QOk":
		return x.z
	case "QNoDelegation":
		return big.NewInt(0)
	}
	return nil
}

func strictQ(x qres) *big.Int {
	if x.class == "QOk" {
		return x.z
	}
	return nil
}

type viewCall struct {
	name string
	coq  string
	data []byte
	want *big.Int // nil: the native query fails, the view must fail
}

func (tw *twin) viewCalls(nv nativeViews, me, v common.Address) []viewCall {
	var balPlus *big.Int
	if rt := strictQ(nv.rewardsTotal); rt != nil {
		balPlus = new(big.Int).Add(nv.bal, rt)
	}
	vz := zOf(v.Bytes())
	return []viewCall{
		{"delegationOf", fmt.Sprintf("VDelegationOf %s %s", zOf(me.Bytes()), vz), tw.pack("delegationOf", me, v), zeroIfNone(nv.delTokens)},
		{"totalDelegationOf", fmt.Sprintf("VTotalDelegationOf %s", zOf(me.Bytes())), tw.pack("totalDelegationOf", me), strictQ(nv.bondedTotal)},
		{"rewardOf", fmt.Sprintf("VRewardOf %s %s", zOf(me.Bytes()), vz), tw.pack("rewardOf", me, v), zeroIfNone(nv.reward)},
		{"rewardsOf", fmt.Sprintf("VRewardsOf %s", zOf(me.Bytes())), tw.pack("rewardsOf", me), strictQ(nv.rewardsTotal)},
		{"balanceOf", fmt.Sprintf("VBalanceOf %s", zOf(me.Bytes())), tw.pack("balanceOf", me), balPlus},
	}
}

func (nv nativeViews) viewCaseTerm(w viewCall, got *big.Int) string {
	obs := "None"
	if got != nil {
		obs = "(Some " + CqZ(got) + ")"
	}
	return fmt.Sprintf("(ViewCase (%s) %s %s %s %s %s %s)", w.coq, nv.delTokens.coq(), nv.bondedTotal.coq(), nv.reward.coqCoins(), nv.rewardsTotal.coqCoins(), CqZ(nv.bal), obs)
}

func strBig(x *big.Int) string {
	if x == nil {
		return "failure"
	}
	return x.String()
}

// viewStep calls every view on A (directly and through a STATICCALL proxy) and compares with the native gRPC queriers on
// the same chain and state (that A's state equals B's is the twin comparison's business).
func (tw *twin) viewStep(r *Rng, side *Sidecar, cases *CasesFile, idx *int) {
	t := tw.t
	a := tw.tracked[r.Intn(len(tw.tracked))]
	v, _ := tw.pickOwnVal(r, a.GetCosmosAddress())
	acc := a.GetCosmosAddress()
	nv := tw.nativeViewsOf(tw.A, tw.A.QueryCtx(), acc, v)
	from := tw.actors[0].GetEthAddress()
	me := a.GetEthAddress()
	for _, w := range tw.viewCalls(nv, me, v) {
		for _, via := range []string{"direct", "STATICCALL"} {
			to := tw.cpc
			if via == "STATICCALL" {
				to = tw.proxy["pstatic"].GetEthAddress()
			}
			ret, ok := tw.callView(tw.A, from, to, w.data)
			var got *big.Int
			if ok && len(ret) == 32 {
				got = new(big.Int).SetBytes(ret)
			}
			desc := map[string]interface{}{"kind": "view", "view": w.name, "via": via, "account": me.Hex(), "validator": v.Hex(), "observed": strBig(got), "native": strBig(w.want)}
			if (got == nil) != (w.want == nil) || got != nil && got.Cmp(w.want) != 0 {
				side.Hit("C11/staking/view-differs-from-native-query/"+w.name, fmt.Sprintf("%s via %s returned %s, the native query gives %s", w.name, via, strBig(got), strBig(w.want)), desc)
			}
			cases.Add("KView " + nv.viewCaseTerm(w, got))
			side.Count("view:" + w.name + ":" + via)
			if w.want == nil {
				side.Count("view:" + w.name + ":native-query-fails")
			}
			side.Case(*idx, "view/"+w.name+"/"+via, false, desc)
			*idx++
		}
	}
	// delegatedValidators (a list: Go oracle only)
	ret, ok := tw.callView(tw.A, from, tw.cpc, tw.pack("delegatedValidators", me))
	var got []string
	if ok {
		out, err := cpcabi.StakingCpcInfo.ABI.Unpack("delegatedValidators", ret)
		require.NoError(t, err)
		for _, x := range out[0].([]common.Address) {
			got = append(got, x.Hex())
		}
	}
	nativeVals := append([]string{}, nv.vals...)
	sort.Strings(got)
	sort.Strings(nativeVals)
	if !ok || strings.Join(got, ",") != strings.Join(nativeVals, ",") {
		side.Hit("C11/staking/view-differs-from-native-query/delegatedValidators", fmt.Sprintf("delegatedValidators returned %v, native delegations are to %v", got, nativeVals), nil)
	}
	side.Count("view:delegatedValidators:direct")
}
