package ante

// The VALUES behind every "field is set" choice of the generator (C07 value round).
//
// A shape flag of the generator never stands for one convenient value: the generator picks a KIND, build resolves it to
// a value drawn from a boundary-heavy list over the field's whole wire type, and derive computes the model's inputs
// (Lane.shape: n_sigs, n_infos, payer, granter, s_memo, s_timeout, fee, gas_limit) from the VALUES that were encoded —
// so an acceptance rule of the code that depends on the value (a signed cast, a trimmed string, a case-folded
// denomination, `<` for `!=`) disagrees with the model and trips the direct oracle, whatever the generator intended.

import (
	"math/big"
	"strings"

	sdkmath "cosmossdk.io/math"
	sdk "github.com/cosmos/cosmos-sdk/types"
	sdktx "github.com/cosmos/cosmos-sdk/types/tx"

	. "verifharness/hx"
)

const maxMemoCharacters = 256 // x/auth default params; asserted against the running chain in setup

// ------------------------------------------------------------------ timeout height (uint64)

// "cur" is the last committed height H when the transaction is built.  The modes see different heights
// (simulate / check: H, single decorators / re-check: H+1, deliver: H+2), so the SDK's rule `height > timeout` gives one
// answer in every mode only for timeout <= H-1 (passed) or >= H+2 (not reached): Cosmos-lane transactions draw from the
// "safe" list, Ethereum-lane ones (any non-zero value must be refused, whatever the height) from the whole list.
var timeoutKindsAll = []string{"1", "cur-1", "cur", "cur+1", "cur+2", "2^31", "2^32", "2^63-1", "2^63", "2^63+1", "2^64-1"}
var timeoutKindsSafe = []string{"1", "cur-1", "cur+2", "cur+2", "2^31", "2^32", "2^63-1", "2^63", "2^64-1"}

func timeoutValue(k string, cur uint64) uint64 {
	switch k {
	case "":
		return 0
	case "1":
		return 1
	case "cur-1":
		return cur - 1
	case "cur":
		return cur
	case "cur+1":
		return cur + 1
	case "cur+2":
		return cur + 2
	case "2^31":
		return 1 << 31
	case "2^32":
		return 1 << 32
	case "2^63-1":
		return 1<<63 - 1
	case "2^63":
		return 1 << 63
	case "2^63+1":
		return 1<<63 + 1
	case "2^64-1":
		return ^uint64(0)
	}
	panic("timeout kind " + k)
}

// timeoutClass: Lane.tmo of a VALUE (0 TNone, 1 TFuture, 2 TPast) at last committed height cur.
func timeoutClass(v, cur uint64) int {
	switch {
	case v == 0:
		return 0
	case v <= cur+1: // passed when the transaction is delivered at cur+2 (Ethereum lane: the class is irrelevant)
		return 2
	default:
		return 1
	}
}

// ------------------------------------------------------------------ memo (string = arbitrary bytes on the wire)

var memoKinds = []string{"1byte", "space", "whitespace", "nul", "badutf8", "word", "255", "256", "257", "300", "4000"}

func memoValue(k string) string {
	switch k {
	case "":
		return ""
	case "1byte":
		return "m"
	case "space":
		return " "
	case "whitespace":
		return " \t\r\n "
	case "nul":
		return "\x00"
	case "badutf8":
		return "\xff\xfe\xc0"
	case "word":
		return "verif"
	case "255":
		return strings.Repeat("m", maxMemoCharacters-1)
	case "256":
		return strings.Repeat("m", maxMemoCharacters)
	case "257":
		return strings.Repeat("m", maxMemoCharacters+1)
	case "300":
		return strings.Repeat("m", 300)
	case "4000":
		return strings.Repeat("é", 2000)
	}
	panic("memo kind " + k)
}

func memoClass(v string) int {
	switch {
	case v == "":
		return 0
	case len(v) <= maxMemoCharacters:
		return 1
	default:
		return 2
	}
}

// ------------------------------------------------------------------ signatures (repeated bytes)

var sigKinds = []string{"empty", "1byte", "3bytes", "64", "65", "empty+empty", "3bytes+3bytes", "65+65", "empty+65", "3x"}

func sigValues(k string) [][]byte {
	fill := func(n int, b byte) []byte {
		out := make([]byte, n)
		for i := range out {
			out[i] = b + byte(i)
		}
		return out
	}
	switch k {
	case "":
		return nil
	case "empty":
		return [][]byte{{}}
	case "1byte":
		return [][]byte{{0}}
	case "3bytes":
		return [][]byte{{1, 2, 3}}
	case "64":
		return [][]byte{fill(64, 9)}
	case "65":
		return [][]byte{fill(65, 17)}
	case "empty+empty":
		return [][]byte{{}, {}}
	case "3bytes+3bytes":
		return [][]byte{{1, 2, 3}, {2, 2, 3}}
	case "65+65":
		return [][]byte{fill(65, 17), fill(65, 33)}
	case "empty+65":
		return [][]byte{{}, fill(65, 17)}
	case "3x":
		return [][]byte{{1}, {}, fill(65, 5)}
	}
	panic("sig kind " + k)
}

// ------------------------------------------------------------------ signer infos

var infoKinds = []string{"full", "nopubkey", "blank", "full+full", "nopubkey+blank", "blank+blank"}

func (w *world) infoValues(k string) []*sdktx.SignerInfo {
	if k == "" {
		return nil
	}
	var out []*sdktx.SignerInfo
	for i, part := range strings.Split(k, "+") {
		si, err := SignerInfoFor(w.payer, uint64(i))
		if err != nil {
			panic(err)
		}
		switch part {
		case "nopubkey":
			si.PublicKey = nil
		case "blank":
			si = &sdktx.SignerInfo{}
		}
		out = append(out, si)
	}
	return out
}

// ------------------------------------------------------------------ payer / granter (string: bech32 account address)

// funded: an existing account with funds; unknown: a valid address nobody ever used; sender: the signer of the
// Ethereum message itself; present-empty: the field is on the wire with the empty string as its value.
var payerKinds = []string{"funded", "funded", "unknown", "sender", "present-empty"}
var granterKinds = []string{"funded", "funded", "unknown", "sender", "present-empty"}

// ------------------------------------------------------------------ fee amount (repeated Coin) relative to gas x price

var feeKinds = []string{"+1", "-1", "+2^64", "other-denom", "upper-denom", "suffix-denom", "none", "zero", "two-coins", "double", "2^255", "2^256-1", "twice-same", "1"}

const (
	denEvm    = "0"
	denOther  = "1"
	denUpper  = "2"
	denSuffix = "3"
)

func (w *world) denomOf(id string) string {
	d := w.c.Denom()
	switch id {
	case denEvm:
		return d
	case denOther:
		return w.otherDen
	case denUpper:
		return strings.ToUpper(d)
	default:
		return d + "x"
	}
}

// denomID maps a denomination STRING back to the model's id: 0 only for the EVM denomination, byte for byte.
func (w *world) denomID(den string) string {
	switch den {
	case w.c.Denom():
		return denEvm
	case w.otherDen:
		return denOther
	case strings.ToUpper(w.c.Denom()):
		return denUpper
	default:
		return denSuffix
	}
}

// feeValue: the fee coins of the envelope for a kind, given the embedded transaction's fee.  Lists are kept sorted by
// denomination where the kind does not say otherwise.
func (w *world) feeValue(k string, fee *big.Int) sdk.Coins {
	coin := func(id string, amt *big.Int) sdk.Coin {
		return sdk.Coin{Denom: w.denomOf(id), Amount: sdkmath.NewIntFromBigInt(amt)}
	}
	switch k {
	case "":
		return sdk.Coins{coin(denEvm, fee)}
	case "+1":
		return sdk.Coins{coin(denEvm, Badd(fee, 1))}
	case "-1":
		return sdk.Coins{coin(denEvm, Bsub(fee, 1))}
	case "+2^64": // equal to the right fee in its low 64 bits
		return sdk.Coins{coin(denEvm, new(big.Int).Add(fee, Pow2(64)))}
	case "1":
		return sdk.Coins{coin(denEvm, big.NewInt(1))}
	case "other-denom":
		return sdk.Coins{coin(denOther, fee)}
	case "upper-denom":
		return sdk.Coins{coin(denUpper, fee)}
	case "suffix-denom":
		return sdk.Coins{coin(denSuffix, fee)}
	case "none":
		return sdk.Coins{}
	case "zero":
		return sdk.Coins{coin(denEvm, big.NewInt(0))}
	case "two-coins":
		l := sdk.Coins{coin(denEvm, fee), coin(denOther, big.NewInt(7))}
		if l[1].Denom < l[0].Denom {
			l[0], l[1] = l[1], l[0]
		}
		return l
	case "double":
		return sdk.Coins{coin(denEvm, new(big.Int).Mul(fee, big.NewInt(2)))}
	case "2^255":
		return sdk.Coins{coin(denEvm, Pow2(255))}
	case "2^256-1":
		return sdk.Coins{coin(denEvm, Bsub(Pow2(256), 1))}
	case "twice-same":
		return sdk.Coins{coin(denEvm, fee), coin(denEvm, fee)}
	}
	panic("fee kind " + k)
}

// ------------------------------------------------------------------ gas limit (uint64) relative to the embedded gas

var gasKinds = []string{"+1", "-1", "0", "1", "half", "double", "2^32", "+2^32", "2^63-1", "2^63", "2^64-1"}

func gasValue(k string, gas uint64) uint64 {
	switch k {
	case "":
		return gas
	case "+1":
		return gas + 1
	case "-1":
		return gas - 1
	case "0":
		return 0
	case "1":
		return 1
	case "half":
		return gas / 2
	case "double":
		return gas * 2
	case "2^32":
		return 1 << 32
	case "+2^32": // equal to the embedded gas in its low 32 bits
		return gas + 1<<32
	case "2^63-1":
		return 1<<63 - 1
	case "2^63":
		return 1 << 63
	case "2^64-1":
		return ^uint64(0)
	}
	panic("gas kind " + k)
}

func pick(r *Rng, l []string) string { return l[r.Intn(len(l))] }
