package ante

// Driver `ante` (C07, C16): generated transaction shapes through the REAL application —
// BaseApp.Simulate, CheckTx(New), CheckTx(Recheck), FinalizeBlock — i.e. message ValidateBasic plus the
// composed ante handler installed by app/app.go, plus message execution for delivered ones; in addition the
// lane-specific decorators of app/antedl are called one by one.  Everything observed is compared with
// coq/Model/Lane.v by coq/Corr/CorrLane.v; the Go oracle below re-states the property text directly.

import (
	"fmt"
	"math/big"
	"os"
	"sort"
	"strings"
	"testing"
	"time"

	errorsmod "cosmossdk.io/errors"
	sdkmath "cosmossdk.io/math"
	abci "github.com/cometbft/cometbft/abci/types"
	codectypes "github.com/cosmos/cosmos-sdk/codec/types"
	sdk "github.com/cosmos/cosmos-sdk/types"
	sdktx "github.com/cosmos/cosmos-sdk/types/tx"
	sdkauthante "github.com/cosmos/cosmos-sdk/x/auth/ante"
	vestexported "github.com/cosmos/cosmos-sdk/x/auth/vesting/exported"
	vestingtypes "github.com/cosmos/cosmos-sdk/x/auth/vesting/types"
	"github.com/cosmos/cosmos-sdk/x/authz"
	banktypes "github.com/cosmos/cosmos-sdk/x/bank/types"
	distrtypes "github.com/cosmos/cosmos-sdk/x/distribution/types"
	"github.com/ethereum/go-ethereum/common"
	ethtypes "github.com/ethereum/go-ethereum/core/types"
	ethcrypto "github.com/ethereum/go-ethereum/crypto"
	"github.com/stretchr/testify/require"

	"github.com/EscanBE/evermint/v12/app/antedl"
	"github.com/EscanBE/evermint/v12/app/antedl/cosmoslane"
	"github.com/EscanBE/evermint/v12/app/antedl/duallane"
	itutiltypes "github.com/EscanBE/evermint/v12/integration_test_util/types"
	evertypes "github.com/EscanBE/evermint/v12/types"
	evmtypes "github.com/EscanBE/evermint/v12/x/evm/types"
	vauthtypes "github.com/EscanBE/evermint/v12/x/vauth/types"

	. "verifharness/hx"
)

// ------------------------------------------------------------------ generated description of a transaction

const (
	kEth = iota
	kVesting
	kExec
	kGrant
	kOther
)

type ethSpec struct {
	Variant string // ok | legacy | unprotected | unsigned | badgas | badnonce | badfrom
	// model inputs
	basicOK, asMsgOK, protected, sigOK bool
	fee                                *big.Int
	gas                                uint64
	msg                                *evmtypes.MsgEthereumTx
}

type gmsg struct {
	Kind   int
	VK     int // vesting kind 0..2
	Target int // case-local id of the vesting target
	Proven bool
	Inner  []*gmsg
	Grant  int // type id granted
	Other  int
	Eth    *ethSpec
}

type txSpec struct {
	Family  string
	Msgs    []*gmsg
	Ext     []string // "eth" | "dyn" | "unk" (an Any with a type URL nobody registered: outside the model, see emit)
	NonCrit []string
	// what the generator chose: KINDS of values, resolved to the field's VALUE by build (values.go)
	SigK     string
	InfoK    string
	PayerK   string
	GranterK string
	MemoK    string
	TimeoutK string
	TipK     string
	// the model's inputs: DERIVED from the values that were put on the wire (derive), never from the kinds above
	NSigs     int
	NInfos    int
	Payer     bool
	Granter   bool
	Memo      int         // 0 "" | 1 at most MaxMemoCharacters bytes | 2 longer
	Timeout   int         // 0 zero | 1 not reached in any mode | 2 passed in every mode
	Fee       [][2]string // (denom id, amount)
	Gas       uint64
	SdkFault  string // "" | badseq | lowfee   (Cosmos lane)
	Canonical bool   // Cosmos-lane envelope signed by the sender in the canonical way
	// environment facts of the fee source (matter on re-check only, where decorator 03 is skipped)
	PayerCanPay   bool
	GranterAllows bool
}

var vestingNames = []string{"VCreate", "VPeriodic", "VPermanent"}

// type ids of Model/Lane.v
var tidOfURL = map[string]int{}

func init() {
	tidOfURL[sdk.MsgTypeURL(&evmtypes.MsgEthereumTx{})] = 0
	tidOfURL[sdk.MsgTypeURL(&vestingtypes.MsgCreateVestingAccount{})] = 1
	tidOfURL[sdk.MsgTypeURL(&vestingtypes.MsgCreatePeriodicVestingAccount{})] = 2
	tidOfURL[sdk.MsgTypeURL(&vestingtypes.MsgCreatePermanentLockedAccount{})] = 3
	tidOfURL[sdk.MsgTypeURL(&authz.MsgExec{})] = 4
	tidOfURL[sdk.MsgTypeURL(&authz.MsgGrant{})] = 5
	tidOfURL[sdk.MsgTypeURL(&banktypes.MsgSend{})] = 10
	tidOfURL[sdk.MsgTypeURL(&distrtypes.MsgSetWithdrawAddress{})] = 11
	tidOfURL[sdk.MsgTypeURL(&banktypes.MsgMultiSend{})] = 12
}

func urlOfTid(t int) string {
	for u, i := range tidOfURL {
		if i == t {
			return u
		}
	}
	return ""
}

func (m *gmsg) coq() string {
	switch m.Kind {
	case kEth:
		e := m.Eth
		return fmt.Sprintf("(MEth (Build_ethp %s %s true %s %s %s true true %s true))", CqBool(e.basicOK), CqBool(e.asMsgOK), CqBool(e.protected),
			CqZ(e.fee), CqZu(e.gas), CqBool(e.sigOK))
	case kVesting:
		return fmt.Sprintf("(MVesting %s %s)", vestingNames[m.VK], CqN(uint64(m.Target)))
	case kExec:
		in := make([]string, len(m.Inner))
		for i, x := range m.Inner {
			in[i] = x.coq()
		}
		return "(MExec " + CqList(in) + ")"
	case kGrant:
		return fmt.Sprintf("(MGrant %s)", CqN(uint64(m.Grant)))
	default:
		return fmt.Sprintf("(MOther %s)", CqN(uint64(m.Other)))
	}
}

func (m *gmsg) canon() string {
	switch m.Kind {
	case kEth:
		return "E:" + m.Eth.Variant
	case kVesting:
		return fmt.Sprintf("V%d%v", m.VK, m.Proven)
	case kExec:
		in := make([]string, len(m.Inner))
		for i, x := range m.Inner {
			in[i] = x.canon()
		}
		return "X[" + strings.Join(in, ",") + "]"
	case kGrant:
		return fmt.Sprintf("G%d", m.Grant)
	default:
		return fmt.Sprintf("O%d", m.Other)
	}
}

func xoptCoq(l []string) string {
	out := make([]string, len(l))
	for i, x := range l {
		if x == "eth" {
			out[i] = "XEth"
		} else {
			out[i] = "XDyn"
		}
	}
	return CqList(out)
}

func (s *txSpec) shapeCoq() string {
	ms := make([]string, len(s.Msgs))
	for i, m := range s.Msgs {
		ms[i] = m.coq()
	}
	fee := make([]string, len(s.Fee))
	for i, f := range s.Fee {
		fee[i] = fmt.Sprintf("(%s%%N, %s%%Z)", f[0], f[1])
	}
	memo := []string{"MemoNone", "MemoShort", "MemoLong"}[s.Memo]
	tmo := []string{"TNone", "TFuture", "TPast"}[s.Timeout]
	return fmt.Sprintf("(Build_shape %s %s %s %s %s %s %s %s %s %s %s)", CqList(ms), xoptCoq(s.Ext), xoptCoq(s.NonCrit),
		CqNat(s.NSigs), CqNat(s.NInfos), CqBool(s.Payer), CqBool(s.Granter), memo, tmo, CqList(fee), CqZu(s.Gas))
}

func (s *txSpec) canon() string {
	ms := make([]string, len(s.Msgs))
	for i, m := range s.Msgs {
		ms[i] = m.canon()
	}
	return fmt.Sprintf("%s|%v|%v|%d|%d|%v|%v|%d|%d|%v|%d|%s|%s", strings.Join(ms, ";"), s.Ext, s.NonCrit, s.NSigs, s.NInfos, s.Payer, s.Granter,
		s.Memo, s.Timeout, feeClass(s), gasClass(s), s.SdkFault, s.kinds())
}

func (s *txSpec) kinds() string {
	return strings.Join([]string{s.SigK, s.InfoK, s.PayerK, s.GranterK, s.MemoK, s.TimeoutK, s.TipK}, ",")
}

func feeClass(s *txSpec) string {
	ds := make([]string, len(s.Fee))
	for i, f := range s.Fee {
		ds[i] = f[0]
	}
	return strings.Join(ds, "+")
}
func gasClass(s *txSpec) int {
	if s.Gas == 0 {
		return 0
	}
	return 1
}

// walk visits every message with its depth below the top-level list (0 = listed).
func walk(l []*gmsg, d int, f func(m *gmsg, d int)) {
	for _, m := range l {
		f(m, d)
		if m.Kind == kExec {
			walk(m.Inner, d+1, f)
		}
	}
}

// ------------------------------------------------------------------ the driver

type world struct {
	t        *testing.T
	c        *Chain
	seed     uint64
	pool     []*itutiltypes.TestAccount
	payer    *itutiltypes.TestAccount
	granter  *itutiltypes.TestAccount
	other    *itutiltypes.TestAccount // recipient / "wrong From"
	baseFee  *big.Int
	price    *big.Int
	chainID  *big.Int
	extEth   *codectypes.Any
	extDyn   *codectypes.Any
	decs     []sdk.AnteDecorator
	otherDen string
}

type caseRun struct {
	idx     int
	spec    *txSpec
	sender  *itutiltypes.TestAccount
	bz      []byte
	targets []*itutiltypes.TestAccount // vesting targets by local id
	proven  []int
	modes   []string                   // modes run
	obs     map[string]obsT
	decObs  map[string][]string        // per mode: Coq option (Z*Z) per decorator
	exec    string                     // Coq option
	notes   map[string]interface{}
	cur     uint64 // last committed height when the transaction was built
	wvals   string // Coq term LaneWire.wvals of the encoded values
	decodeError bool // the tx decoder refused the bytes (expected exactly for an extension option with an unregistered type URL)
}

type obsT struct {
	accepted bool
	cs       int64
	code     uint32
	attr     int
	execOK   bool
}

var modeNames = []string{"MCheck", "MReCheck", "MSimulate", "MDeliver"}

func TestDriverAnte(t *testing.T) {
	dir := OutDir(t)
	seed := EnvSeed()
	n := EnvInt("VERIF_N", 1200)
	prop := os.Getenv("VERIF_PROP")
	if prop == "" {
		prop = "C07"
	}
	c := NewChain(t, time.Time{})
	w := &world{t: t, c: c, seed: seed}
	w.setup()

	side := NewSidecar("ante", seed,
		"case = one transaction (0-4 top-level messages of 9 registered types incl. MsgEthereumTx, the three vesting-creation messages, authz MsgExec "+
			"(nesting depth 0-8) and MsgGrant; extension options, non-critical options, signatures, signer infos, payer, granter, memo, timeout, fee, gas limit) run through "+
			"BaseApp.Simulate, CheckTx(New), CheckTx(Recheck) on fresh check state, and FinalizeBlock, plus 7 lane decorators called alone in each mode; "+
			"non-trivial = distinct canonical shape that is not the plain canonical Ethereum tx or a plain single bank send; "+
			"restrictions (inside the property's quantifier): fee price = 2 x base fee so node min-gas-prices never decides; Cosmos-lane envelopes are single-signer (SDK faults limited to wrong sequence / low fee); "+
			"non-shape Ethereum faults limited to wrong nonce / wrong From / unsigned; re-check of mixed transactions only with a canonical envelope; "+
			"oracle in re-check mode applies to transactions that passed CheckTx (the code skips decorator 03 on re-check)")
	cases := NewCases(dir, "From Evm Require Import Lane LaneWire CorrLane.", "lane_mismatches")

	// the disabled-message table, regenerated from the running code
	tbl := antedl.HandlerOptions{}.WithDefaultDisabledNestedMsgs().DisabledNestedMsgs
	tids := []string{}
	for i, u := range tbl {
		id, ok := tidOfURL[u]
		if !ok {
			id = 1000 + i
		}
		tids = append(tids, CqN(uint64(id)))
	}
	cases.Add("(CTable " + CqList(tids) + ")")
	side.Case(0, "table", true, map[string]interface{}{"disabled_nested_msgs": tbl})
	side.Extra["disabled_nested_msgs"] = tbl

	rng := NewRng(seed)
	idx := 1
	for idx <= n {
		bs := len(w.pool)
		if idx+bs-1 > n {
			bs = n - idx + 1
		}
		batch := make([]*caseRun, 0, bs)
		w.refresh()
		for j := 0; j < bs; j++ {
			r := rng.Fork(uint64(idx + j))
			cr := &caseRun{idx: idx + j, sender: w.pool[j], obs: map[string]obsT{}, decObs: map[string][]string{}, notes: map[string]interface{}{}}
			cr.spec = w.genSpec(r, cr)
			batch = append(batch, cr)
		}
		w.runBatch(batch)
		for _, cr := range batch {
			w.emit(cr, cases, side, prop)
		}
		idx += bs
	}
	cases.Write(t, 400)
	side.Write(t, dir)
}

func (w *world) setup() {
	c := w.c
	for i := 0; i < 24; i++ {
		w.pool = append(w.pool, DetAccount(w.seed, "sender", i))
	}
	w.payer = DetAccount(w.seed, "payer", 0)
	w.granter = DetAccount(w.seed, "granter", 0)
	w.other = DetAccount(w.seed, "other", 0)
	big24 := new(big.Int).Exp(big.NewInt(10), big.NewInt(24), nil)
	for _, a := range append(append([]*itutiltypes.TestAccount{}, w.pool...), w.payer, w.granter, w.other) {
		c.Fund(a.GetCosmosAddress(), c.Denom(), big24)
	}
	c.RunBlock(nil)
	w.chainID = c.App.EvmKeeper.GetEip155ChainId(c.QueryCtx()).BigInt()
	var err error
	w.extEth, err = codectypes.NewAnyWithValue(&evmtypes.ExtensionOptionsEthereumTx{})
	require.NoError(w.t, err)
	w.extDyn, err = codectypes.NewAnyWithValue(&evertypes.ExtensionOptionDynamicFeeTx{MaxPriorityPrice: sdkmath.ZeroInt()})
	require.NoError(w.t, err)
	w.otherDen = "uverif"
	require.Equal(w.t, uint64(maxMemoCharacters), c.App.AccountKeeper.GetParams(c.QueryCtx()).MaxMemoCharacters)
	// the lane-specific decorators, constructed as app/antedl/ante.go does with the options of app/app.go
	w.decs = []sdk.AnteDecorator{
		duallane.NewDualLaneExtensionOptionsDecorator(sdkauthante.NewExtensionOptionsDecorator(evertypes.HasDynamicFeeExtensionOption)),
		duallane.NewDualLaneValidateBasicDecorator(*c.App.EvmKeeper, sdkauthante.NewValidateBasicDecorator()),
		duallane.NewDualLaneTxTimeoutHeightDecorator(sdkauthante.NewTxTimeoutHeightDecorator()),
		duallane.NewDualLaneValidateMemoDecorator(sdkauthante.NewValidateMemoDecorator(c.App.AccountKeeper)),
		cosmoslane.NewCosmosLaneRejectEthereumMsgsDecorator(),
		cosmoslane.NewCosmosLaneRejectAuthzMsgsDecorator(antedl.HandlerOptions{}.WithDefaultDisabledNestedMsgs().DisabledNestedMsgs),
		cosmoslane.NewCosmosLaneVestingMessagesAuthorizationDecorator(c.App.VAuthKeeper),
	}
}

func (w *world) refresh() {
	w.baseFee = w.c.BaseFee(w.c.QueryCtx())
	w.price = new(big.Int).Mul(w.baseFee, big.NewInt(2))
	if w.price.Sign() == 0 {
		w.price = big.NewInt(1)
	}
}

// ------------------------------------------------------------------ generator

func (w *world) genLeaf(r *Rng, cr *caseRun, nested bool) *gmsg {
	pEth, pVes := 14, 40
	if nested { // keep most nested trees admissible
		pEth, pVes = 5, 12
	}
	switch k := r.Intn(100); {
	case k < pEth:
		return &gmsg{Kind: kEth, Eth: &ethSpec{Variant: "ok"}}
	case k < pVes:
		m := &gmsg{Kind: kVesting, VK: r.Intn(3), Proven: r.Chance(65)}
		m.Target = len(cr.targets)
		cr.targets = append(cr.targets, DetAccount(w.seed, fmt.Sprintf("target/%d", cr.idx), m.Target))
		if m.Proven {
			cr.proven = append(cr.proven, m.Target)
		}
		return m
	case k < pVes+14:
		g := []int{0, 1, 2, 3, 4, 10, 10, 10, 11, 11, 12, 12, 10, 11}
		return &gmsg{Kind: kGrant, Grant: g[r.Intn(len(g))]}
	default:
		return &gmsg{Kind: kOther, Other: r.Intn(3)}
	}
}

// genTree builds exec^depth[...] with siblings at every level.
func (w *world) genTree(r *Rng, cr *caseRun, depth int, nested bool) *gmsg {
	if depth == 0 {
		return w.genLeaf(r, cr, nested)
	}
	m := &gmsg{Kind: kExec}
	nsib := 1 + r.Intn(2)
	if r.Chance(3) {
		nsib = 0 // empty MsgExec: fails its own ValidateBasic
	}
	deepAt := r.Intn(nsib + 1)
	for i := 0; i < nsib; i++ {
		if i == deepAt%maxi(nsib, 1) {
			m.Inner = append(m.Inner, w.genTree(r, cr, depth-1, true))
		} else {
			m.Inner = append(m.Inner, w.genLeaf(r, cr, true))
		}
	}
	return m
}

func maxi(a, b int) int {
	if a > b {
		return a
	}
	return b
}

func (w *world) genSpec(r *Rng, cr *caseRun) *txSpec {
	s := &txSpec{}
	if cr.idx <= len(sweep) {
		// the first cases of every run, whatever the seed: an otherwise canonical Ethereum-lane transaction with exactly ONE
		// envelope field set, once for every value kind of every field
		s.Family = "eth"
		w.genSweep(sweep[cr.idx-1], cr, s)
		return s
	}
	switch f := r.Intn(100); {
	case f < 36:
		s.Family = "eth"
		w.genEthLane(r, cr, s)
	case f < 50:
		s.Family = "mixed"
		w.genMixed(r, cr, s)
	case f < 51:
		s.Family = "empty"
		s.Canonical = true
		w.cosmosEnvelope(r, s)
	default:
		s.Family = "cosmos"
		w.genCosmos(r, cr, s)
	}
	return s
}

type sweepItem struct{ field, kind string }

var extSweep = [][]string{{}, {"dyn"}, {"eth", "eth"}, {"eth", "dyn"}, {"dyn", "eth"}, {"eth", "eth", "eth"}, {"unk"}, {"eth", "unk"}}
var nonCritSweep = [][]string{{"eth"}, {"dyn"}, {"unk"}, {"eth", "dyn"}}

var sweep = func() []sweepItem {
	var out []sweepItem
	add := func(field string, kinds []string) {
		seen := map[string]bool{}
		for _, k := range kinds {
			if !seen[k] {
				seen[k] = true
				out = append(out, sweepItem{field, k})
			}
		}
	}
	add("timeout_height", timeoutKindsAll)
	add("memo", memoKinds)
	add("signatures", sigKinds)
	add("signer_infos", infoKinds)
	add("payer", payerKinds)
	add("granter", granterKinds)
	add("fee", feeKinds)
	add("gas_limit", gasKinds)
	add("tip", []string{"evm-denom", "other-denom"})
	for i := range extSweep {
		out = append(out, sweepItem{"ext", fmt.Sprint(i)})
	}
	for i := range nonCritSweep {
		out = append(out, sweepItem{"noncrit", fmt.Sprint(i)})
	}
	return out
}()

func (w *world) genSweep(it sweepItem, cr *caseRun, s *txSpec) {
	s.Msgs = []*gmsg{{Kind: kEth, Eth: &ethSpec{Variant: "ok"}}}
	s.Ext = []string{"eth"}
	cr.notes["feeK"] = ""
	cr.notes["gasK"] = ""
	cr.notes["sweep"] = it.field + ":" + it.kind
	var i int
	fmt.Sscan(it.kind, &i)
	switch it.field {
	case "timeout_height":
		s.TimeoutK = it.kind
	case "memo":
		s.MemoK = it.kind
	case "signatures":
		s.SigK = it.kind
	case "signer_infos":
		s.InfoK = it.kind
	case "payer":
		s.PayerK = it.kind
	case "granter":
		s.GranterK = it.kind
	case "fee":
		cr.notes["feeK"] = it.kind
	case "gas_limit":
		cr.notes["gasK"] = it.kind
	case "tip":
		s.TipK = it.kind
	case "ext":
		s.Ext = extSweep[i]
	case "noncrit":
		s.NonCrit = nonCritSweep[i]
	}
}

var ethVariants = []string{"ok", "ok", "ok", "ok", "ok", "ok", "ok", "legacy", "legacy", "unprotected", "unsigned", "badgas", "badnonce", "badfrom"}

func (w *world) genEthLane(r *Rng, cr *caseRun, s *txSpec) {
	v := "ok"
	if r.Chance(22) {
		v = ethVariants[r.Intn(len(ethVariants))]
	}
	s.Msgs = []*gmsg{{Kind: kEth, Eth: &ethSpec{Variant: v}}}
	s.Ext = []string{"eth"}
	// deviations: either a few, or a uniformly random combination of all flags
	nd := []int{0, 0, 1, 1, 1, 1, 2, 3}[r.Intn(8)]
	uniform := r.Chance(15)
	flag := func(i int) bool {
		if uniform {
			return r.Chance(35)
		}
		return false
	}
	dev := map[int]bool{}
	for i := 0; i < 10; i++ {
		dev[i] = flag(i)
	}
	if !uniform {
		for k := 0; k < nd; k++ {
			dev[r.Intn(10)] = true
		}
	}
	if dev[0] {
		s.Ext = extSweep[r.Intn(len(extSweep))]
	}
	if dev[1] {
		s.NonCrit = nonCritSweep[r.Intn(len(nonCritSweep))]
	}
	if dev[2] {
		s.SigK = pick(r, sigKinds)
	}
	if dev[3] {
		s.InfoK = pick(r, infoKinds)
	}
	if dev[4] {
		s.PayerK = pick(r, payerKinds)
	}
	if dev[5] {
		s.GranterK = pick(r, granterKinds)
	}
	if dev[6] {
		s.MemoK = pick(r, memoKinds)
	}
	if dev[7] {
		s.TimeoutK = pick(r, timeoutKindsAll)
	}
	// fee / gas deviations are relative to the embedded tx: resolved by build
	cr.notes["feeK"] = ""
	cr.notes["gasK"] = ""
	if dev[8] {
		cr.notes["feeK"] = pick(r, feeKinds)
	}
	if dev[9] {
		cr.notes["gasK"] = pick(r, gasKinds)
	}
	// a tip is not mentioned by the property and not looked at by the code: it must not matter
	if r.Chance(5) {
		s.TipK = []string{"evm-denom", "other-denom"}[r.Intn(2)]
	}
}

func (w *world) genMixed(r *Rng, cr *caseRun, s *txSpec) {
	if r.Chance(14) {
		// nothing but Ethereum messages, two or three of them, in an envelope that would be right for one (or for their sum)
		n := 2 + r.Intn(2)
		for i := 0; i < n; i++ {
			s.Msgs = append(s.Msgs, &gmsg{Kind: kEth, Eth: &ethSpec{Variant: "ok"}})
		}
		s.Ext = [][]string{{"eth"}, {"eth"}, {"eth"}, {}}[r.Intn(4)]
		cr.notes["feeK"] = []string{"", "", "double"}[r.Intn(3)]
		cr.notes["gasK"] = []string{"", "", "double"}[r.Intn(3)]
		if r.Chance(25) {
			s.MemoK = pick(r, memoKinds)
		}
		return
	}
	n := 2 + r.Intn(3)
	pos := r.Intn(n)
	for i := 0; i < n; i++ {
		if i == pos || r.Chance(15) {
			s.Msgs = append(s.Msgs, &gmsg{Kind: kEth, Eth: &ethSpec{Variant: "ok"}})
		} else {
			d := 0
			if r.Chance(25) {
				d = 1 + r.Intn(2)
			}
			s.Msgs = append(s.Msgs, w.genTree(r, cr, d, false))
		}
	}
	if r.Chance(55) {
		s.Canonical = true
		w.cosmosEnvelope(r, s)
		return
	}
	// an Ethereum-style or arbitrary envelope around several messages
	s.Ext = [][]string{{"eth"}, {}, {"dyn"}, {"eth", "dyn"}}[r.Intn(4)]
	if r.Chance(20) {
		s.NonCrit = []string{"eth"}
	}
	if r.Chance(50) {
		s.SigK = pick(r, sigKinds)
	}
	if r.Chance(40) {
		s.InfoK = pick(r, infoKinds)
	}
	if r.Chance(20) {
		s.PayerK = pick(r, payerKinds)
	}
	if r.Chance(20) {
		s.GranterK = pick(r, granterKinds)
	}
	if r.Chance(50) {
		s.MemoK = pick(r, memoKinds)
	}
	if r.Chance(50) {
		s.TimeoutK = pick(r, timeoutKindsSafe) // several messages: the decorators take their Cosmos branch
	}
	cr.notes["feeK"] = ""
	cr.notes["gasK"] = ""
	if r.Chance(50) {
		cr.notes["feeK"] = pick(r, feeKinds)
	}
	if r.Chance(35) {
		// the SDK's set-up decorator compares the gas limit with the block's: only near values here
		cr.notes["gasK"] = []string{"+1", "-1"}[r.Intn(2)]
	}
	if r.Chance(5) {
		s.TipK = "evm-denom"
	}
}

func (w *world) genCosmos(r *Rng, cr *caseRun, s *txSpec) {
	n := 1 + r.Intn(4)
	for i := 0; i < n; i++ {
		d := []int{0, 0, 0, 0, 1, 1, 2, 2, 3, 4}[r.Intn(10)]
		if r.Chance(8) {
			d = 5 + r.Intn(4)
		}
		var m *gmsg
		for {
			m = w.genTree(r, cr, d, false)
			if m.Kind != kEth { // no top-level Ethereum message in this family
				break
			}
		}
		s.Msgs = append(s.Msgs, m)
	}
	s.Canonical = true
	w.cosmosEnvelope(r, s)
}

func (w *world) cosmosEnvelope(r *Rng, s *txSpec) {
	s.Gas = 3_000_000
	if r.Chance(18) {
		s.Ext = [][]string{{"dyn"}, {"eth"}, {"dyn", "eth"}, {"dyn", "dyn"}}[r.Intn(4)]
	}
	if r.Chance(10) {
		s.NonCrit = [][]string{{"eth"}, {"dyn"}}[r.Intn(2)]
	}
	if r.Chance(30) {
		s.MemoK = pick(r, memoKinds)
	}
	if r.Chance(25) {
		s.TimeoutK = pick(r, timeoutKindsSafe)
	}
	if r.Chance(6) {
		s.SdkFault = []string{"badseq", "lowfee"}[r.Intn(2)]
	}
}

// ------------------------------------------------------------------ building the real transaction

func (w *world) buildEth(e *ethSpec, sender *itutiltypes.TestAccount, nonce uint64, fromSender bool) {
	c := w.c
	to := w.other.GetEthAddress()
	gas := uint64(21000)
	n := nonce
	switch e.Variant {
	case "badgas":
		gas = 20000
	case "badnonce":
		n = nonce + 5
	}
	var txData ethtypes.TxData
	switch e.Variant {
	case "legacy", "unprotected":
		txData = &ethtypes.LegacyTx{Nonce: n, GasPrice: w.price, Gas: gas, To: &to, Value: big.NewInt(1)}
	default:
		txData = &ethtypes.DynamicFeeTx{ChainID: w.chainID, Nonce: n, GasTipCap: big.NewInt(0), GasFeeCap: w.price, Gas: gas, To: &to, Value: big.NewInt(1)}
	}
	var msg *evmtypes.MsgEthereumTx
	switch e.Variant {
	case "unprotected":
		key, err := sender.PrivateKey.ToECDSA()
		require.NoError(w.t, err)
		signed, err := ethtypes.SignTx(ethtypes.NewTx(txData), ethtypes.HomesteadSigner{}, key)
		require.NoError(w.t, err)
		bz, err := signed.MarshalBinary()
		require.NoError(w.t, err)
		msg = &evmtypes.MsgEthereumTx{MarshalledTx: bz, From: sender.GetCosmosAddress().String()}
	case "unsigned":
		bz, err := ethtypes.NewTx(txData).MarshalBinary()
		require.NoError(w.t, err)
		msg = &evmtypes.MsgEthereumTx{MarshalledTx: bz, From: sender.GetCosmosAddress().String()}
	case "badgas":
		// FromEthereumTx validates, so assemble by hand
		key, err := sender.PrivateKey.ToECDSA()
		require.NoError(w.t, err)
		signed, err := ethtypes.SignTx(ethtypes.NewTx(txData), ethtypes.LatestSignerForChainID(w.chainID), key)
		require.NoError(w.t, err)
		bz, err := signed.MarshalBinary()
		require.NoError(w.t, err)
		msg = &evmtypes.MsgEthereumTx{MarshalledTx: bz, From: sender.GetCosmosAddress().String()}
	default:
		var err error
		msg, err = c.S.PureSignEthereumTx(sender, txData)
		require.NoError(w.t, err)
	}
	if e.Variant == "badfrom" {
		msg.From = w.other.GetCosmosAddress().String()
	}
	e.msg = msg
	e.gas = gas
	e.fee = new(big.Int).Mul(w.price, new(big.Int).SetUint64(gas))
	e.basicOK = e.Variant != "badgas"
	e.asMsgOK = e.Variant != "unsigned"
	e.protected = e.Variant != "unprotected"
	e.sigOK = !(e.Variant == "badnonce" || e.Variant == "badfrom" || e.Variant == "unsigned")
}

func (w *world) buildMsg(m *gmsg, cr *caseRun, nonce uint64) sdk.Msg {
	c := w.c
	from := cr.sender.GetCosmosAddress().String()
	one := sdk.NewCoins(sdk.NewInt64Coin(c.Denom(), 1))
	switch m.Kind {
	case kEth:
		w.buildEth(m.Eth, cr.sender, nonce, true)
		return m.Eth.msg
	case kVesting:
		to := cr.targets[m.Target].GetCosmosAddress().String()
		amt := sdk.NewCoins(sdk.NewInt64Coin(c.Denom(), 5))
		switch m.VK {
		case 0:
			return &vestingtypes.MsgCreateVestingAccount{FromAddress: from, ToAddress: to, Amount: amt, EndTime: 4102444800, Delayed: m.Target%2 == 0}
		case 1:
			return &vestingtypes.MsgCreatePeriodicVestingAccount{FromAddress: from, ToAddress: to, StartTime: 4000000000,
				VestingPeriods: []vestingtypes.Period{{Length: 1000, Amount: amt}}}
		default:
			return &vestingtypes.MsgCreatePermanentLockedAccount{FromAddress: from, ToAddress: to, Amount: amt}
		}
	case kExec:
		inner := make([]sdk.Msg, len(m.Inner))
		for i, x := range m.Inner {
			inner[i] = w.buildMsg(x, cr, nonce)
		}
		ex := authz.NewMsgExec(cr.sender.GetCosmosAddress(), inner)
		return &ex
	case kGrant:
		g, err := authz.NewMsgGrant(cr.sender.GetCosmosAddress(), w.other.GetCosmosAddress(), authz.NewGenericAuthorization(urlOfTid(m.Grant)), nil)
		require.NoError(w.t, err)
		return g
	default:
		switch m.Other {
		case 0:
			return &banktypes.MsgSend{FromAddress: from, ToAddress: w.other.GetCosmosAddress().String(), Amount: one}
		case 1:
			return &distrtypes.MsgSetWithdrawAddress{DelegatorAddress: from, WithdrawAddress: w.other.GetCosmosAddress().String()}
		default:
			return &banktypes.MsgMultiSend{Inputs: []banktypes.Input{{Address: from, Coins: one}},
				Outputs: []banktypes.Output{{Address: w.other.GetCosmosAddress().String(), Coins: one}}}
		}
	}
}

func (w *world) extAny(x string) *codectypes.Any {
	switch x {
	case "eth":
		return w.extEth
	case "dyn":
		return w.extDyn
	default:
		// a well-formed Any whose type URL no module registered
		return &codectypes.Any{TypeUrl: "/verif.lane.v1.ExtensionOptionNobodyKnows", Value: []byte{0x08, 0x01}}
	}
}

func (w *world) build(cr *caseRun) {
	c := w.c
	s := cr.spec
	accNum, seq := c.AccNumSeq(cr.sender.GetCosmosAddress())
	cur := uint64(c.Height - 1) // last committed height
	raw := &RawTx{}
	for _, m := range s.Msgs {
		raw.Msgs = append(raw.Msgs, w.buildMsg(m, cr, seq))
	}
	for _, x := range s.Ext {
		raw.ExtOpts = append(raw.ExtOpts, w.extAny(x))
	}
	for _, x := range s.NonCrit {
		raw.NonCritical = append(raw.NonCritical, w.extAny(x))
	}
	raw.Memo = memoValue(s.MemoK)
	raw.Timeout = timeoutValue(s.TimeoutK, cur)
	// the (first) Ethereum message, if any: the envelope's fee source when neither payer nor granter is declared
	var e *ethSpec
	for _, m := range s.Msgs {
		if m.Kind == kEth {
			e = m.Eth
			break
		}
	}
	addrOf := func(k string) string {
		switch k {
		case "funded":
			return ""
		case "unknown":
			return DetAccount(w.seed, "nobody", cr.idx).GetCosmosAddress().String()
		case "sender":
			return cr.sender.GetCosmosAddress().String()
		}
		return ""
	}
	switch s.PayerK {
	case "funded":
		raw.Payer = w.payer.GetCosmosAddress().String()
	case "present-empty":
		raw.ExplicitEmptyPayer = true
	default:
		raw.Payer = addrOf(s.PayerK)
	}
	if s.PayerK == "sender" && s.SigK != "" {
		// Lane.n_signers counts a declared payer as a second signer, which the SDK does only for a payer that is not
		// already a signer: with signatures present the payer is somebody else (generator restriction)
		raw.Payer = w.payer.GetCosmosAddress().String()
	}
	switch s.GranterK {
	case "funded":
		raw.Granter = w.granter.GetCosmosAddress().String()
	case "present-empty":
		raw.ExplicitEmptyGranter = true
	default:
		raw.Granter = addrOf(s.GranterK)
	}
	switch s.TipK {
	case "evm-denom":
		raw.Tip = &sdktx.Tip{Amount: sdk.NewCoins(sdk.NewInt64Coin(c.Denom(), 3)), Tipper: w.other.GetCosmosAddress().String()}
	case "other-denom":
		raw.Tip = &sdktx.Tip{Amount: sdk.NewCoins(sdk.NewInt64Coin(w.otherDen, 1)), Tipper: cr.sender.GetCosmosAddress().String()}
	}
	if s.Canonical {
		raw.Gas = s.Gas
		price := w.price
		if s.SdkFault == "lowfee" {
			price = new(big.Int).Div(w.baseFee, big.NewInt(2))
		}
		raw.Fee = c.FeeCoins(new(big.Int).Mul(price, new(big.Int).SetUint64(s.Gas)))
		sq := seq
		if s.SdkFault == "badseq" {
			sq = seq + 7
		}
		require.NoError(w.t, raw.SignDirect(c.ChainID(), cr.sender, accNum, sq))
	} else {
		// envelope around the (first) Ethereum message
		feeK, _ := cr.notes["feeK"].(string)
		gasK, _ := cr.notes["gasK"].(string)
		raw.Fee = w.feeValue(feeK, e.fee)
		raw.Gas = gasValue(gasK, e.gas)
		raw.SignerInfos = w.infoValues(s.InfoK)
		raw.Signatures = sigValues(s.SigK)
	}
	bz, err := raw.Encode()
	require.NoError(w.t, err)
	cr.bz = bz
	w.derive(cr, raw, e, cur)
}

// derive computes the model's inputs from the VALUES of the envelope that was encoded.
func (w *world) derive(cr *caseRun, raw *RawTx, e *ethSpec, cur uint64) {
	c := w.c
	s := cr.spec
	s.NSigs = len(raw.Signatures)
	s.NInfos = len(raw.SignerInfos)
	s.Payer = raw.Payer != ""
	s.Granter = raw.Granter != ""
	s.Memo = memoClass(raw.Memo)
	s.Timeout = timeoutClass(raw.Timeout, cur)
	s.Gas = raw.Gas
	s.Fee = [][2]string{}
	for _, coin := range raw.Fee {
		s.Fee = append(s.Fee, [2]string{w.denomID(coin.Denom), coin.Amount.BigInt().String()})
	}
	// the fee source of sdk DeductFeeDecorator: granter if declared (needs an allowance unless it IS the fee payer),
	// else the payer if declared, else the first signer
	s.PayerCanPay, s.GranterAllows = true, false
	if e != nil && e.msg != nil {
		exists := func(a string) bool {
			addr, err := sdk.AccAddressFromBech32(a)
			return err == nil && c.App.AccountKeeper.GetAccount(c.QueryCtx(), addr) != nil
		}
		feePayer := raw.Payer
		if feePayer == "" {
			feePayer = e.msg.From
		}
		if raw.Granter != "" {
			s.GranterAllows = raw.Granter == feePayer
			s.PayerCanPay = exists(raw.Granter)
		} else if raw.Payer != "" {
			s.PayerCanPay = exists(raw.Payer)
		}
	}
	sl := make([]string, len(raw.Signatures))
	for i, x := range raw.Signatures {
		sl[i] = CqZi(int64(len(x)))
	}
	il := make([]string, len(raw.SignerInfos))
	for i, x := range raw.SignerInfos {
		il[i] = CqBool(x.PublicKey != nil)
	}
	fl := make([]string, len(s.Fee))
	for i, f := range s.Fee {
		fl[i] = fmt.Sprintf("(%s%%N, %s%%Z)", f[0], f[1])
	}
	cr.cur = cur
	cr.wvals = fmt.Sprintf("(Build_wvals %s %s %s %s %s %s %s %s)", CqList(sl), CqList(il), CqZi(int64(len(raw.Payer))), CqZi(int64(len(raw.Granter))),
		CqZi(int64(len(raw.Memo))), CqZu(raw.Timeout), CqList(fl), CqZu(raw.Gas))
	cr.notes["values"] = map[string]interface{}{
		"timeout_height": fmt.Sprint(raw.Timeout), "memo_len": len(raw.Memo), "memo": fmt.Sprintf("%q", truncate(raw.Memo, 24)),
		"signatures": sigLens(raw.Signatures), "signer_infos": s.InfoK, "payer": raw.Payer, "granter": raw.Granter,
		"fee": raw.Fee.String(), "gas_limit": fmt.Sprint(raw.Gas), "tip": s.TipK,
		"payer_present_empty": raw.ExplicitEmptyPayer, "granter_present_empty": raw.ExplicitEmptyGranter,
	}
}

func truncate(s string, n int) string {
	if len(s) > n {
		return s[:n]
	}
	return s
}

func sigLens(l [][]byte) []int {
	out := make([]int, len(l))
	for i, x := range l {
		out[i] = len(x)
	}
	return out
}

// ------------------------------------------------------------------ running

func (w *world) obsOf(cs string, code uint32, accepted bool) obsT {
	return obsT{accepted: accepted, cs: CodespaceID(cs), code: code}
}

func (w *world) modeCtx(mode string) (sdk.Context, bool) {
	ctx := w.c.QueryCtx()
	switch mode {
	case "MCheck":
		return ctx.WithIsCheckTx(true), false
	case "MReCheck":
		return ctx.WithIsCheckTx(true).WithIsReCheckTx(true), false
	case "MSimulate":
		return ctx, true
	default:
		return ctx, false
	}
}

func terminal(ctx sdk.Context, _ sdk.Tx, _ bool) (sdk.Context, error) { return ctx, nil }

func (w *world) runDecorators(cr *caseRun) {
	tx, err := w.c.S.EncodingConfig.TxConfig.TxDecoder()(cr.bz)
	if err != nil {
		cr.notes["decode_error"] = true
		cr.decodeError = true
		return
	}
	for _, mode := range cr.modes {
		ctx, sim := w.modeCtx(mode)
		row := make([]string, len(w.decs))
		for i, d := range w.decs {
			var derr error
			p := CatchPanic(func() { _, derr = d.AnteHandle(ctx, tx, sim, terminal) })
			switch {
			case p != nil:
				row[i] = "(Some (9%Z, 111222%Z))"
			case derr != nil:
				cs, code, _ := errorsmod.ABCIInfo(derr, false)
				row[i] = fmt.Sprintf("(Some (%s, %s))", CqZi(CodespaceID(cs)), CqZi(int64(code)))
				if i == 5 {
					cr.notes["d992"] = true
				}
				if i == 6 {
					cr.notes["d993"] = true
				}
			default:
				row[i] = "None"
			}
		}
		cr.decObs[mode] = row
	}
}

func (w *world) attr(cr *caseRun, o obsT) obsT {
	if !o.accepted && o.cs == 0 && o.code == 4 {
		if b, _ := cr.notes["d992"].(bool); b {
			o.attr = 1
		} else if b, _ := cr.notes["d993"].(bool); b {
			o.attr = 2
		}
	}
	return o
}

func (w *world) runBatch(batch []*caseRun) {
	c := w.c
	// state set-up: proofs for the proven targets, written through the keeper; then a block so that the
	// check state is rebuilt on top of it
	ctx := c.Ctx()
	for _, cr := range batch {
		for _, id := range cr.proven {
			tg := cr.targets[id]
			sig := VauthSignature(tg)
			require.NoError(w.t, c.App.VAuthKeeper.SaveProofExternalOwnedAccount(ctx, vauthtypes.ProofExternalOwnedAccount{
				Account:   tg.GetCosmosAddress().String(),
				Hash:      "0x" + common.Bytes2Hex(ethcrypto.Keccak256([]byte(vauthtypes.MessageToSign))),
				Signature: "0x" + common.Bytes2Hex(sig),
			}))
		}
	}
	c.RunBlock(nil)
	w.refresh()
	for _, cr := range batch {
		w.build(cr)
		cr.modes = []string{"MCheck", "MReCheck", "MSimulate", "MDeliver"}
		if cr.spec.Family == "mixed" && !cr.spec.Canonical {
			cr.modes = []string{"MCheck", "MSimulate", "MDeliver"}
		}
	}
	// simulate (never persists)
	for _, cr := range batch {
		_, _, err := c.App.BaseApp.Simulate(cr.bz)
		if err == nil {
			cr.obs["MSimulate"] = obsT{accepted: true, execOK: true}
		} else {
			cs, code, _ := errorsmod.ABCIInfo(err, false)
			cr.obs["MSimulate"] = w.obsOf(cs, code, false)
		}
	}
	// the decorators one by one (on caches of the committed state)
	for _, cr := range batch {
		w.runDecorators(cr)
	}
	// check
	for _, cr := range batch {
		res, err := c.CheckTx(cr.bz, false)
		require.NoError(w.t, err)
		cr.obs["MCheck"] = w.obsOf(res.Codespace, res.Code, res.Code == 0)
		if res.Code == 0 {
			cr.obs["MCheck"] = obsT{accepted: true, execOK: true}
		}
	}
	c.RunBlock(nil) // fresh check state, as after a block that did not include the transactions
	for _, cr := range batch {
		if !hasMode(cr, "MReCheck") {
			continue
		}
		res, err := c.CheckTx(cr.bz, true)
		require.NoError(w.t, err)
		cr.obs["MReCheck"] = w.obsOf(res.Codespace, res.Code, res.Code == 0)
		if res.Code == 0 {
			cr.obs["MReCheck"] = obsT{accepted: true, execOK: true}
		}
	}
	// deliver
	txs := make([][]byte, len(batch))
	for i, cr := range batch {
		txs[i] = cr.bz
	}
	res := c.RunBlock(txs)
	qctx := c.QueryCtx()
	for i, cr := range batch {
		tr := res.TxResults[i]
		antePassed := tr.Code == 0 || len(tr.Events) > 0
		o := w.obsOf(tr.Codespace, tr.Code, antePassed)
		o.execOK = tr.Code == 0
		cr.obs["MDeliver"] = o
		if antePassed && tr.Code != 0 {
			cr.exec = "None"
			cr.notes["created"] = w.createdVesting(qctx, cr)
			cr.notes["deliver_code"] = tr.Code
		} else if antePassed {
			neth := len(FindEvents(tr.Events, evmtypes.EventTypeTxReceipt))
			ntop := 0
			for _, ev := range FindEvents(tr.Events, "message") {
				if _, ok := EventAttrs(ev)["action"]; ok {
					ntop++
				}
			}
			created := w.createdVesting(qctx, cr)
			ids := make([]string, len(created))
			for k, id := range created {
				ids[k] = CqN(uint64(id))
			}
			cr.exec = fmt.Sprintf("(Some (%s, %s, %s))", CqZi(int64(neth)), CqList(ids), CqZi(int64(ntop)))
			cr.notes["neth"] = neth
			cr.notes["created"] = created
			cr.notes["deliver_code"] = tr.Code
		} else {
			cr.exec = "None"
			cr.notes["created"] = w.createdVesting(qctx, cr)
		}
	}
	for _, cr := range batch {
		for m, o := range cr.obs {
			cr.obs[m] = w.attr(cr, o)
		}
	}
}

func hasMode(cr *caseRun, m string) bool {
	for _, x := range cr.modes {
		if x == m {
			return true
		}
	}
	return false
}

func (w *world) createdVesting(ctx sdk.Context, cr *caseRun) []int {
	var out []int
	for id, tg := range cr.targets {
		acc := w.c.App.AccountKeeper.GetAccount(ctx, tg.GetCosmosAddress())
		if acc == nil {
			continue
		}
		if _, ok := acc.(vestexported.VestingAccount); ok {
			out = append(out, id)
		}
	}
	sort.Ints(out)
	return out
}

// ------------------------------------------------------------------ emission + oracle

func obsCoq(o obsT) string {
	if o.accepted && !o.execOK {
		return "OExecFail"
	}
	if o.accepted {
		return "OAccept"
	}
	return fmt.Sprintf("(OReject %s %s %s)", CqZi(o.cs), CqZi(int64(o.code)), CqZi(int64(o.attr)))
}

func optZ(v int64, some bool) string {
	if !some {
		return "None"
	}
	return "(Some " + CqZi(v) + ")"
}

func (w *world) emit(cr *caseRun, cases *CasesFile, side *Sidecar, prop string) {
	s := cr.spec
	proven := make([]string, len(cr.proven))
	for i, id := range cr.proven {
		proven[i] = CqN(uint64(id))
	}
	rest := []string{"None", "None", "None", "None"}
	switch s.SdkFault {
	case "badseq":
		rest = []string{optZ(32, true), optZ(32, true), optZ(32, true), optZ(32, true)}
	case "lowfee":
		rest = []string{optZ(13, true), optZ(13, true), "None", optZ(13, true)}
	}
	var obs, decs []string
	for _, m := range cr.modes {
		obs = append(obs, fmt.Sprintf("(%s, %s)", m, obsCoq(cr.obs[m])))
		if row, ok := cr.decObs[m]; ok {
			decs = append(decs, fmt.Sprintf("(%s, %s)", m, CqList(row)))
		}
	}
	sdkVb := "None"
	if s.Family == "empty" {
		// SDK ValidateBasicDecorator called alone on a tx without messages: one signature, no signer -> ErrUnauthorized
		sdkVb = optZ(4, true)
	}
	// outside the Coq model: bytes the tx decoder refuses (expected exactly for an option with an unregistered type URL,
	// for which Lane.xopt has no constructor); the direct oracle below still applies to them
	unk := hasUnknownOption(s)
	if !cr.decodeError && !unk {
		// the wire VALUES next to the case: Corr/CorrLane.v (CTxW) recomputes the shape from them with Model/LaneWire.v
		cases.Add(fmt.Sprintf("(CTxW %s %s %s (Build_txcase %s %s %s %s %s %s %s %s %s))", CqZi(maxMemoCharacters), CqZu(cr.cur), cr.wvals,
			s.shapeCoq(), CqList(proven), sdkVb, CqList(rest),
			CqBool(s.PayerCanPay), CqBool(s.GranterAllows), CqList(obs), CqList(decs), cr.exec))
	}

	// histogram
	side.Count("family:" + s.Family)
	maxDepth, hasNestedDisabled, hasGrantDisabled, nEthTop := 0, false, false, 0
	walk(s.Msgs, 0, func(m *gmsg, d int) {
		if d > maxDepth {
			maxDepth = d
		}
		if d == 0 && m.Kind == kEth {
			nEthTop++
		}
		if d >= 1 && (m.Kind == kEth || m.Kind == kVesting) {
			hasNestedDisabled = true
		}
		if m.Kind == kGrant && m.Grant <= 3 {
			hasGrantDisabled = true
		}
		side.Count(fmt.Sprintf("msg_kind:%d", m.Kind))
	})
	side.Count(fmt.Sprintf("max_depth:%d", maxDepth))
	side.Count(fmt.Sprintf("n_msgs:%d", len(s.Msgs)))
	for _, m := range cr.modes {
		o := cr.obs[m]
		if o.accepted {
			side.Count("outcome:" + m + ":accept")
		} else {
			side.Count(fmt.Sprintf("outcome:%s:reject:%d/%d/%d", m, o.cs, o.code, o.attr))
		}
	}
	if o := cr.obs["MDeliver"]; o.accepted && !o.execOK {
		side.Count("deliver:ante-passed-exec-failed")
	}
	desc := map[string]interface{}{"family": s.Family, "shape": s.canon(), "obs": fmt.Sprint(cr.obs), "notes": cr.notes}
	plainEth := s.Family == "eth" && plainEthShape(s) && s.Msgs[0].Eth.Variant == "ok" && len(s.Ext) == 1 && s.kinds() == ",,,,,,"
	// value kinds reached (per family), and the cases that stay outside the Coq model
	for _, kv := range [][2]string{{"signatures", s.SigK}, {"signer_infos", s.InfoK}, {"payer", s.PayerK}, {"granter", s.GranterK},
		{"memo", s.MemoK}, {"timeout_height", s.TimeoutK}, {"tip", s.TipK}} {
		if kv[1] != "" {
			side.Count("value:" + s.Family + ":" + kv[0] + ":" + kv[1])
		}
	}
	if !s.Canonical {
		if k, _ := cr.notes["feeK"].(string); k != "" {
			side.Count("value:" + s.Family + ":fee:" + k)
		}
		if k, _ := cr.notes["gasK"].(string); k != "" {
			side.Count("value:" + s.Family + ":gas_limit:" + k)
		}
	}
	switch {
	case unk && cr.decodeError:
		side.Count("outside-model:unknown-option-type-url:decoder-refused")
	case unk:
		side.Count("outside-model:unknown-option-type-url:DECODED")
	case cr.decodeError:
		side.Count("outside-model:UNEXPECTED-decode-error:" + s.kinds())
	}

	plainSend := s.Family == "cosmos" && len(s.Msgs) == 1 && s.Msgs[0].Kind == kOther && s.Memo == 0 && s.Timeout == 0 && len(s.Ext) == 0
	side.Case(cr.idx, s.canon(), !plainEth && !plainSend, desc)

	// ---- direct oracle, from the property text (independent of the model)
	hit := func(sig, msg string) { side.Hit(prop+"/ante/"+sig, msg, desc) }
	checkAccepted := cr.obs["MCheck"].accepted
	for _, m := range cr.modes {
		o := cr.obs[m]
		if !o.accepted {
			continue
		}
		mode := strings.ToLower(strings.TrimPrefix(m, "M"))
		if prop == "C07" {
			if nEthTop > 0 && (m != "MReCheck" || checkAccepted) {
				var e *ethSpec
				for _, x := range s.Msgs {
					if x.Kind == kEth {
						e = x.Eth
						break
					}
				}
				bad := []string{}
				if len(s.Msgs) != 1 {
					bad = append(bad, "not-sole-message")
				}
				if s.NSigs != 0 {
					bad = append(bad, "signatures")
				}
				if s.NInfos != 0 {
					bad = append(bad, "signer-infos")
				}
				if s.Payer {
					bad = append(bad, "fee-payer")
				}
				if s.Granter {
					bad = append(bad, "fee-granter")
				}
				if s.Memo != 0 {
					bad = append(bad, "memo")
				}
				if s.Timeout != 0 {
					bad = append(bad, "timeout-height")
				}
				if len(s.NonCrit) != 0 || len(s.Ext) > 1 || (len(s.Ext) == 1 && s.Ext[0] != "eth") {
					bad = append(bad, "foreign-extension-option")
				}
				if !(len(s.Fee) == 1 && s.Fee[0][0] == "0" && s.Fee[0][1] == e.fee.String()) {
					bad = append(bad, "fee-differs-from-embedded-tx")
				}
				if s.Gas != e.gas {
					bad = append(bad, "gas-limit-differs-from-embedded-tx")
				}
				for _, b := range bad {
					hit(mode+"/eth-message-accepted-with-"+b, "a transaction containing an Ethereum message was accepted although: "+b)
				}
			}
			if nEthTop == 0 && hasNestedDisabled {
				hit(mode+"/disabled-message-nested-in-exec-accepted", "a transaction nesting an Ethereum or vesting-creation message inside MsgExec was accepted")
			}
			if nEthTop == 0 && hasGrantDisabled {
				hit(mode+"/grant-for-disabled-message-accepted", "a MsgGrant for an Ethereum or vesting-creation message type was accepted")
			}
		}
		if prop == "C16" {
			// a user transaction may create a vesting account only for a proven address: accepted top-level vesting needs a proof,
			// nested ones must not be accepted at all
			walk(s.Msgs, 0, func(x *gmsg, d int) {
				if x.Kind != kVesting {
					return
				}
				if d >= 1 && nEthTop == 0 {
					hit(mode+"/nested-vesting-creation-accepted", "vesting-creation message nested in MsgExec accepted by the ante handler")
				}
				if d == 0 && !x.Proven && nEthTop == 0 {
					hit(mode+"/vesting-creation-for-unproven-address-accepted", "top-level vesting-creation message for an address without ownership proof accepted")
				}
			})
		}
	}
	// delivered: which handlers ran
	if o := cr.obs["MDeliver"]; o.accepted {
		neth, _ := cr.notes["neth"].(int)
		if prop == "C07" && neth > 0 && !(plainEthShape(s)) {
			hit("deliver/ethereum-handler-ran-outside-evm-lane", "the MsgEthereumTx handler ran for a transaction that is not a well-formed Ethereum-lane transaction")
		}
	}
	if created, _ := cr.notes["created"].([]int); prop == "C16" && len(created) > 0 {
		for _, id := range created {
			ok := false
			walk(s.Msgs, 0, func(x *gmsg, d int) {
				if x.Kind == kVesting && x.Target == id && d == 0 && x.Proven {
					ok = true
				}
			})
			if !ok {
				hit("deliver/vesting-account-created-without-proof-or-nested", "a vesting account exists after the block for a target without proof or reached through MsgExec")
			}
		}
	}
}

func hasUnknownOption(s *txSpec) bool {
	for _, x := range append(append([]string{}, s.Ext...), s.NonCrit...) {
		if x == "unk" {
			return true
		}
	}
	return false
}

func plainEthShape(s *txSpec) bool {
	if len(s.Msgs) != 1 || s.Msgs[0].Kind != kEth {
		return false
	}
	e := s.Msgs[0].Eth
	return s.NSigs == 0 && s.NInfos == 0 && !s.Payer && !s.Granter && s.Memo == 0 && s.Timeout == 0 && len(s.NonCrit) == 0 &&
		(len(s.Ext) == 0 || (len(s.Ext) == 1 && s.Ext[0] == "eth")) &&
		len(s.Fee) == 1 && s.Fee[0][0] == "0" && s.Fee[0][1] == e.fee.String() && s.Gas == e.gas
}

var _ = abci.CodeTypeOK
var _ = sdktx.Tx{}
